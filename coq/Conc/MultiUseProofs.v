(* Proofs about Conc/MultiUse.v: every interleaving of MultiUse / CopyProducer.run and the consumer goroutines is
   bounded and can always go on until run and every consumer have returned (with the source wrapped in
   recoverInProducer); without the wrapper a panic of the source strands the consumers. *)
From P2 Require Import Base.Prelude Conc.Quiesce Conc.MultiUse.
Require Import Lia.

(* ---------- counting over 0 .. n-1 ---------- *)
Definition count (p : nat -> bool) (n : nat) : nat := length (filter p (seq 0 n)).

Lemma count_S : forall p n, count p (S n) = count p n + (if p n then 1 else 0).
Proof.
  intros p n. unfold count. rewrite seq_S, filter_app, app_length. cbn. destruct (p n); reflexivity.
Qed.

Lemma count_ext : forall p q n, (forall j, j < n -> p j = q j) -> count p n = count q n.
Proof.
  intros p q n. induction n as [|n IH]; intros H; [reflexivity|].
  rewrite !count_S, IH by (intros; apply H; lia). rewrite (H n) by lia. reflexivity.
Qed.

Lemma count_drop : forall p q n i, i < n -> (forall j, j < n -> j <> i -> q j = p j) -> p i = true -> q i = false ->
  count p n = S (count q n).
Proof.
  intros p q n. induction n as [|n IH]; intros i Hi H Hp Hq; [lia|].
  rewrite !count_S. destruct (Nat.eq_dec i n) as [->|Hne].
  - rewrite Hp, Hq. rewrite (count_ext p q n); [lia|]. intros j Hj. symmetry. apply H; lia.
  - rewrite (IH i) by (try lia; auto; intros; apply H; lia). rewrite (H n) by lia. lia.
Qed.

Lemma count_pos : forall p n, count p n > 0 -> exists i, i < n /\ p i = true.
Proof.
  intros p n. induction n as [|n IH]; intros H; [cbn in H; lia|].
  rewrite count_S in H. destruct (p n) eqn:E; [exists n; split; [lia|exact E]|].
  destruct IH as [i [Hi Hp]]; [lia|]. exists i. split; [lia|exact Hp].
Qed.

Lemma forallb_seq_false : forall p n, forallb p (seq 0 n) = false -> exists i, i < n /\ p i = false.
Proof.
  intros p n. induction n as [|n IH]; intros H; [discriminate|].
  rewrite seq_S, forallb_app in H. cbn in H. apply andb_false_iff in H. destruct H as [H|H].
  - destruct (IH H) as [i [Hi Hp]]. exists i. split; [lia|exact Hp].
  - exists n. split; [lia|]. destruct (p n); [discriminate|reflexivity].
Qed.

Lemma existsb_seq_false : forall p n, existsb p (seq 0 n) = false -> forall i, i < n -> p i = false.
Proof.
  intros p n H i Hi. destruct (p i) eqn:E; [|reflexivity].
  assert (existsb p (seq 0 n) = true) by (apply existsb_exists; exists i; split; [apply in_seq; lia|exact E]). congruence.
Qed.

Lemma alive_count_is : forall n f, alive_count n f = count (fun i => alive (f i)) n.
Proof. reflexivity. Qed.

Lemma upd_same : forall i c f, upd i c f i = c.
Proof. intros. unfold upd. rewrite Nat.eqb_refl. reflexivity. Qed.
Lemma upd_other : forall i c f j, j <> i -> upd i c f j = f j.
Proof. intros. unfold upd. destruct (Nat.eqb_spec j i); [contradiction|reflexivity]. Qed.

Section MP.
Variable n : nat.

Definition early (p : phase) : bool := match p with PBetween | PRound _ | PClosing => true | _ => false end.

Record minv (s : mst) : Prop := {
  i_round : forall i, ph s = PRound i -> i <= n;
  i_held : early (ph s) = true -> forall i, i < n -> held (cs s i) = true -> cclosed (cs s i) = false;
  i_unheld : forall i, i < n -> held (cs s i) = false -> cclosed (cs s i) = true;
  i_read : forall i b f, i < n -> kind (cs s i) = KRead b f -> sclosed (cs s i) = negb (alive (cs s i));
  i_late : early (ph s) = false -> forall i, i < n -> cclosed (cs s i) = true;
  i_acks : match ph s with
           | PAcks k => acks s + alive_count n (cs s) = k
           | PDone | PUnwound => True
           | _ => acks s + alive_count n (cs s) = n
           end;
  i_nounw : ph s <> PUnwound
}.

Lemma alive_count_all : forall (f : nat -> cons), (forall i, i < n -> alive (f i) = true) -> alive_count n f = n.
Proof.
  intros f H. rewrite alive_count_is. rewrite (count_ext _ (fun _ => true) n) by (intros; apply H; assumption).
  clear H. induction n as [|m IH]; [reflexivity|]. rewrite count_S, IH. lia.
Qed.

Lemma minv_init : forall kinds source, minv (minit kinds source).
Proof.
  intros kinds source. constructor; cbn; intros; try discriminate; try reflexivity; try congruence.
  rewrite alive_count_all; [reflexivity|]. intros; reflexivity.
Qed.

(* unfold one step and split every test it makes *)
Ltac step_cases H :=
  unfold mstep in H;
  repeat match type of H with
  | context [match ?x with _ => _ end] => destruct x eqn:?; try discriminate
  | context [if ?c then _ else _] => destruct c eqn:?; try discriminate
  end;
  inversion H; subst; clear H.

Ltac bools :=
  repeat match goal with
  | E : _ && _ = true |- _ => apply andb_prop in E; destruct E
  | E : negb _ = true |- _ => apply negb_true_iff in E
  | E : negb _ = false |- _ => apply negb_false_iff in E
  | E : Nat.ltb _ _ = true |- _ => apply Nat.ltb_lt in E
  | E : Nat.eqb _ _ = true |- _ => apply Nat.eqb_eq in E
  | E : _ || _ = true |- _ => apply orb_prop in E
  end.

Lemma close_held_alive : forall f j, alive (close_held f j) = alive (f j).
Proof. intros f j. unfold close_held. destruct (held (f j)); reflexivity. Qed.
Lemma close_held_kind : forall f j, kind (close_held f j) = kind (f j).
Proof. intros f j. unfold close_held. destruct (held (f j)); reflexivity. Qed.
Lemma close_held_sclosed : forall f j, sclosed (close_held f j) = sclosed (f j).
Proof. intros f j. unfold close_held. destruct (held (f j)); reflexivity. Qed.
Lemma close_held_held : forall f j, held (close_held f j) = held (f j).
Proof. intros f j. unfold close_held. destruct (held (f j)) eqn:E; cbn; [reflexivity|exact E]. Qed.
Lemma close_held_closed : forall f j, (held (f j) = false -> cclosed (f j) = true) -> cclosed (close_held f j) = true.
Proof. intros f j H. unfold close_held. destruct (held (f j)) eqn:E; cbn; [reflexivity|apply H; reflexivity]. Qed.

Lemma alive_count_close : forall f, alive_count n (close_held f) = alive_count n f.
Proof. intros f. rewrite !alive_count_is. apply count_ext. intros j _. apply close_held_alive. Qed.

Lemma alive_count_upd_same : forall f i c, alive c = alive (f i) -> alive_count n (upd i c f) = alive_count n f.
Proof.
  intros f i c H. rewrite !alive_count_is. apply count_ext. intros j _.
  destruct (Nat.eq_dec j i) as [->|Hne]; [rewrite upd_same; exact H|rewrite upd_other by exact Hne; reflexivity].
Qed.

Lemma alive_count_upd_drop : forall f i c, i < n -> alive (f i) = true -> alive c = false ->
  alive_count n f = S (alive_count n (upd i c f)).
Proof.
  intros f i c Hi Ha Hc. rewrite !alive_count_is. apply (count_drop _ _ n i Hi).
  - intros j _ Hne. rewrite upd_other by exact Hne. reflexivity.
  - exact Ha.
  - rewrite upd_same. exact Hc.
Qed.

(* every action lowers the measure (with or without the wrapper around the source) *)
Lemma mstep_mu : forall r s a s', minv s -> mstep n r s a = Some s' -> mmu n s' < mmu n s.
Proof.
  intros r s a s' Hi H. destruct s as [sr p c e k]. unfold mmu, pmu.
  pose proof (i_round _ Hi) as Hr. cbn [ph src cs eterm acks] in *.
  destruct a; destruct p; cbn [mstep ph] in H; try discriminate; step_cases H; bools; cbn [ph src cs eterm acks length] in *; subst; cbn [length];
    rewrite ?alive_count_close;
    try (rewrite alive_count_upd_same by (rewrite ?upd_same; cbn; congruence));
    try (specialize (Hr _ eq_refl));
    try lia.
  all: try (match goal with
            | |- context [alive_count n (upd ?i ?c' ?f)] =>
                rewrite (alive_count_upd_drop f i c') by (try assumption; try reflexivity); lia
            end).
  all: try (destruct (any_held n c); lia).
Qed.

(* the invariant is kept by every action of the repaired system *)
Ltac upd_cases i0 i :=
  destruct (Nat.eq_dec i0 i) as [->|?]; [rewrite ?upd_same in *|rewrite ?upd_other in * by assumption]; cbn [kind alive sclosed cclosed held] in *.

Lemma mstep_inv : forall s a s', minv s -> mstep n true s a = Some s' -> minv s'.
Proof.
  intros s a s' Hi H. destruct s as [sr p c e k].
  destruct Hi as [Hr Hh Hu Hrd Hl Ha Hn]. cbn [ph src cs eterm acks] in *.
  destruct a; destruct p; cbn [mstep ph] in H; try discriminate; step_cases H; bools;
    cbn [ph src cs eterm acks early] in *; subst.
  all: constructor; cbn [ph src cs eterm acks early]; try discriminate; try (intros; discriminate).
  all: try (intros i0 Hp; inversion Hp; subst; try lia; specialize (Hr _ eq_refl); lia).
  all: try exact Hr; try exact Hh; try exact Hu; try exact Hrd; try exact Ha; try exact Hl; try exact I.
  (* close_held *)
  all: try (intros jj Hjj Hhd; apply close_held_closed; intro; apply Hu; assumption).
  all: try (intros jj b0 f0 Hjj Hk; rewrite close_held_kind in Hk; rewrite close_held_sclosed, close_held_alive; eapply Hrd; eassumption).
  all: try (intros _ jj Hjj; apply close_held_closed; intro; apply Hu; assumption).
  (* pointwise fields over an updated consumer *)
  all: try (intros _ jj Hjj Hhd; match goal with Hx : context [upd ?x _ _] |- _ => upd_cases jj x end;
            try discriminate; try (apply (Hh eq_refl); assumption); congruence).
  all: try (intros jj Hjj Hhd; match goal with Hx : context [upd ?x _ _] |- _ => upd_cases jj x end;
            try reflexivity; try (apply Hu; assumption); congruence).
  all: try (intros jj b0 f0 Hjj Hk; match goal with Hx : context [upd ?x _ _] |- _ => upd_cases jj x end;
            try reflexivity; try congruence;
            try (eapply Hrd; eassumption);
            try (rewrite <- (Hrd _ _ _ Hjj Hk); congruence)).
  all: try (intros _ jj Hjj; match goal with |- context [upd ?x _ _] => upd_cases jj x end; apply (Hl eq_refl); assumption).
  (* acks *)
  all: rewrite ?alive_count_close; try lia.
  all: try (rewrite alive_count_upd_same by (rewrite ?upd_same; cbn; congruence); lia).
  all: try (match goal with
            | |- context [alive_count n (upd ?i ?c' ?f)] =>
                pose proof (alive_count_upd_drop f i c' ltac:(assumption) ltac:(assumption) eq_refl); lia
            end).
  all: exact Hn.
Qed.

(* a consumer whose channel is closed (or that never reads, or has taken what it wanted) can return *)
Lemma cons_can_return : forall r s i, i < n -> alive (cs s i) = true ->
  (forall b f, kind (cs s i) = KRead b f -> b = Some 0 \/ cclosed (cs s i) = true) ->
  exists s', mstep n r s (ACons i) = Some s'.
Proof.
  intros r s i Hi Ha Hc. apply Nat.ltb_lt in Hi. unfold mstep.
  destruct (ph s); rewrite Hi, Ha; cbn [andb];
    (destruct (kind (cs s i)) as [f|b f] eqn:Ek; [eexists; reflexivity|];
     destruct (Hc b f eq_refl) as [->|Hcl]; [cbn [orb]; eexists; reflexivity|];
     rewrite Hcl, orb_true_r; eexists; reflexivity).
Qed.

Lemma progress : forall s, minv s -> mfinal n s = false -> exists a s', mstep n true s a = Some s'.
Proof.
  intros s Hi Hf. destruct Hi as [Hr Hh Hu Hrd Hl Ha Hn].
  destruct s as [sr p c e k]. cbn [ph src cs eterm acks] in *. destruct p as [|i| |[|k0]| |].
  - (* top of the outer loop *)
    exists AFetch. cbn. destruct sr as [|[|] sr']; eexists; reflexivity.
  - (* serving holder i *)
    specialize (Hr i eq_refl). destruct (Nat.eq_dec i n) as [->|Hne].
    + exists AEndRound. cbn. rewrite Nat.eqb_refl. eexists; reflexivity.
    + assert (Hlt : i < n) by lia. pose proof Hlt as Hltb. apply Nat.ltb_lt in Hltb.
      destruct (held (c i)) eqn:Ehd.
      * destruct e eqn:Ee.
        { exists AErrTerm. unfold mstep; cbn [ph cs eterm src acks]. rewrite Hltb, Ehd. cbn. eexists; reflexivity. }
        destruct (kind (c i)) as [f|b f] eqn:Ek.
        { exists ATimeout. unfold mstep; cbn [ph cs eterm src acks]. rewrite Hltb, Ehd, Ek. cbn. eexists; reflexivity. }
        pose proof (Hrd i b f Hlt Ek) as Hs.
        destruct (alive (c i)) eqn:Eal; cbn in Hs.
        { destruct b as [[|b']|].
          - exists (ACons i). apply (cons_can_return true (mkM sr (PRound i) c false k) i Hlt Eal).
            cbn. intros b0 f0 Hk. left. congruence.
          - exists ASend. unfold mstep; cbn [ph cs eterm src acks]. rewrite Hltb, Ehd, Eal, Hs, Ek. cbn. eexists; reflexivity.
          - exists ASend. unfold mstep; cbn [ph cs eterm src acks]. rewrite Hltb, Ehd, Eal, Hs, Ek. cbn. eexists; reflexivity. }
        { exists AStopSeen. unfold mstep; cbn [ph cs eterm src acks]. rewrite Hltb, Ehd, Hs. cbn. eexists; reflexivity. }
      * exists ASkip. unfold mstep; cbn [ph cs eterm src acks]. rewrite Hltb, Ehd. cbn. eexists; reflexivity.
  - exists AClose. cbn. eexists; reflexivity.
  - exists ARet. cbn. eexists; reflexivity.
  - (* collecting acks *)
    destruct k as [|m].
    + cbn in Ha. assert (Hpos : count (fun i => alive (c i)) n > 0) by (rewrite <- alive_count_is; lia).
      destruct (count_pos _ _ Hpos) as [i [Hlt Hal]]. exists (ACons i).
      apply (cons_can_return true (mkM sr (PAcks (S k0)) c e 0) i Hlt Hal). cbn. intros b f _. right. apply (Hl eq_refl). exact Hlt.
    + exists AAck. cbn. eexists; reflexivity.
  - (* run has returned, a consumer is still running *)
    unfold mfinal in Hf. cbn [ph cs] in Hf. cbn [andb] in Hf.
    destruct (forallb_seq_false _ _ Hf) as [i [Hlt Hal]]. apply negb_false_iff in Hal. exists (ACons i).
    apply (cons_can_return true (mkM sr PDone c e k) i Hlt Hal). cbn. intros b f _. right. apply (Hl eq_refl). exact Hlt.
  - exfalso. apply Hn. reflexivity.
Qed.

(* ---------- runs ---------- *)
Lemma mrun_inv : forall tr s s', minv s -> mrun n true s tr = Some s' -> minv s'.
Proof.
  induction tr as [|a tr IH]; intros s s' Hi H; cbn in H; [inversion H; subst; exact Hi|].
  destruct (mstep n true s a) as [s1|] eqn:E; [|discriminate]. eapply IH; [|exact H]. eapply mstep_inv; eauto.
Qed.

Lemma mrun_mu : forall tr s s', minv s -> mrun n true s tr = Some s' -> length tr + mmu n s' <= mmu n s.
Proof.
  induction tr as [|a tr IH]; intros s s' Hi H; cbn in H; [inversion H; subst; cbn; lia|].
  destruct (mstep n true s a) as [s1|] eqn:E; [|discriminate].
  pose proof (mstep_mu true s a s1 Hi E). pose proof (IH s1 s' (mstep_inv _ _ _ Hi E) H). cbn [length]. lia.
Qed.

Lemma complete_mrun : forall m s, minv s -> mmu n s <= m -> exists tr s', mrun n true s tr = Some s' /\ mfinal n s' = true.
Proof.
  induction m as [|m IH]; intros s Hi Hm.
  - destruct (mfinal n s) eqn:Hf; [exists [], s; split; [reflexivity|exact Hf]|].
    destruct (progress s Hi Hf) as [a [s1 E]]. pose proof (mstep_mu true s a s1 Hi E). lia.
  - destruct (mfinal n s) eqn:Hf; [exists [], s; split; [reflexivity|exact Hf]|].
    destruct (progress s Hi Hf) as [a [s1 E]]. pose proof (mstep_mu true s a s1 Hi E).
    destruct (IH s1 (mstep_inv _ _ _ Hi E)) as [tr [s' [Hr Hfin]]]; [lia|].
    exists (a :: tr), s'. split; [cbn; rewrite E; exact Hr|exact Hfin].
Qed.

(* MultiUse with the source wrapped in recoverInProducer: every interleaving is bounded and can always go on until run
   and every consumer goroutine have returned; a schedule that gets there exists *)
Theorem multiuse_quiesces_lem : forall (kinds : nat -> ckind) (source : list src_ev),
  (forall tr s, mrun n true (minit kinds source) tr = Some s ->
     length tr <= (length source + 2) * (n + 2) + n
     /\ (mfinal n s = true \/ exists a s', mstep n true s a = Some s'))
  /\ exists tr s, mrun n true (minit kinds source) tr = Some s /\ mfinal n s = true.
Proof.
  intros kinds source. split.
  - intros tr s H. pose proof (mrun_inv tr _ _ (minv_init kinds source) H) as Hi.
    pose proof (mrun_mu tr _ _ (minv_init kinds source) H) as Hm.
    split.
    + assert (mmu n (minit kinds source) = length source * (n + 2) + 1 + (n + 2) + n).
      { unfold mmu, pmu, minit. cbn [ph src cs]. rewrite alive_count_all by (intros; reflexivity). reflexivity. }
      lia.
    + destruct (mfinal n s) eqn:Hf; [left; reflexivity|right; apply progress; assumption].
  - exact (complete_mrun _ _ (minv_init kinds source) (le_n _)).
Qed.

End MP.

(* without the wrapper: two consumers that read everything, the source panics at its first element - run is unwound,
   nothing is closed, both consumers wait for ever *)
Definition leak_kinds : nat -> ckind := fun _ => KRead None false.

Lemma multiuse_source_panic_unrecovered : 
  exists s, mrun 2 false (minit leak_kinds [EvPanic]) [AFetch] = Some s
            /\ mfinal 2 s = false /\ alive_count 2 (cs s) = 2
            /\ forall a, match a with ACons i => i < 2 -> mstep 2 false s a = None | _ => mstep 2 false s a = None end.
Proof.
  eexists. split; [reflexivity|]. split; [reflexivity|]. split; [reflexivity|].
  intros a. destruct a; try reflexivity. intros Hi. destruct i as [|[|i]]; [reflexivity|reflexivity|lia].
Qed.

(* the same start with the wrapper: the schedule in which the error element is handed to both consumers *)
Lemma multiuse_source_panic_recovered :
  exists tr s, mrun 2 true (minit leak_kinds [EvPanic]) tr = Some s /\ mfinal 2 s = true.
Proof.
  exists [AFetch; ASend; ASend; AEndRound; AFetch; AClose; ACons 0; ACons 1; AAck; AAck; ARet]. eexists.
  split; vm_compute; reflexivity.
Qed.
