(* Protocol model of List.MultiUse (value/multiUse.go) over iterator.CopyProducer (C12).

   prList, run, done := iterator.CopyProducer(n);  go mu.runConsumer(prList[i], done, st)  for every entry;
   err := run(recoverInProducer(l.iterable(st)))

   run (on the calling goroutine):
       outer: for v, err := range in {                         -- AFetch: the next event of the source
           for _, h := range holders {                         -- PRound i: serving holder i
               select { case <-errorTerm:  break outer         -- AErrTerm
                        case <-time.After(5 s): close every holder's channel; return "iterator timed out"   -- ATimeout
                        case h.c <- d:                         -- ASend (a rendezvous with consumer i's  range ho.c)
                        case <-h.stop: h.done = true } }       -- AStopSeen
           drop the holders that are done (close their channel); no holder left: break }                    -- AEndRound
       close the channel of every remaining holder            -- AClose
       for range n { <-ack }                                   -- AAck (ack is buffered with capacity n)
       return                                                  -- ARet
   consumer i (its own goroutine): value, err := fu(list);  done(err) = { if err != nil: close errorTerm (once) };  ack <- err
       where the list, IF the closure iterates it, is   defer close(ho.stop); for d := range ho.c { if !yield(d) return }
       A consumer is described by what its closure does with the list:
         KRead None     f : reads until the channel is closed (size, sum, ...)
         KRead (Some k) f : takes k elements and stops (first, top(k), present ...; a closure that fails or PANICS at the
                            k-th element: the deferred close(ho.stop) runs while the panic unwinds, runConsumer recovers it)
         KNever         f : never iterates the list (l->1; a closure that fails before it touches the list)
       f = the closure returns an error (or panicked): done closes errorTerm.

   Deviation (unobservable): a holder whose stop was seen is dropped and its channel closed at once (AStopSeen), not at
   the end of the round - its consumer has left its range loop, nobody can receive on that channel any more.
   ATimeout is enabled only when nothing else is ready for that holder for five seconds: the consumer never iterates
   (every other consumer state makes a send, a stop or the consumer's own return possible, which fairness schedules).

   recovered = the source is wrapped in recoverInProducer (`fix: a panic raised by the list that multiUse reads ...`): a
   panic of the source arrives as the error of a final element; without it the panic unwinds run (PUnwound) and nothing
   is closed.
   A schedule is a list of actions; `run` fails on an action that is not enabled, so statements about
   `run ... = Some s` cover every interleaving.  Definitions only; proofs are in Conc/MultiUseProofs.v. *)
From P2 Require Import Base.Prelude Conc.Quiesce.

Inductive ckind := KNever (fails : bool) | KRead (budget : option nat) (fails : bool).

Record cons := mkC {
  kind : ckind;
  alive : bool;      (* the consumer goroutine has not returned yet *)
  sclosed : bool;    (* ho.stop is closed: the consumer has left its range loop *)
  cclosed : bool;    (* ho.c is closed *)
  held : bool        (* still in run's holders *)
}.

Inductive phase :=
| PBetween            (* at the top of the outer loop *)
| PRound (i : nat)    (* inner loop: about to serve holder i *)
| PClosing            (* behind the outer loop *)
| PAcks (k : nat)     (* collecting acks, k to go *)
| PDone               (* run has returned *)
| PUnwound.           (* a panic of the source has unwound run *)

Record mst := mkM {
  src : list src_ev;       (* what the source will still do (Quiesce.src_ev: EvItem | EvPanic) *)
  ph : phase;
  cs : nat -> cons;        (* the consumers 0 .. n-1 *)
  eterm : bool;            (* errorTerm is closed *)
  acks : nat               (* acks sent and not yet received by run *)
}.

Inductive mact :=
| AFetch | ASkip | AErrTerm | ASend | AStopSeen | ATimeout | AEndRound | AClose | AAck | ARet
| ACons (i : nat).         (* consumer i returns: fu is done, done(err) called *)

Definition upd (i : nat) (c : cons) (f : nat -> cons) : nat -> cons :=
  fun j => if Nat.eqb j i then c else f j.

Definition close_held (f : nat -> cons) : nat -> cons :=
  fun j => let c := f j in if held c then mkC (kind c) (alive c) (sclosed c) true (held c) else c.

Definition any_held (n : nat) (f : nat -> cons) : bool := existsb (fun i => held (f i)) (seq 0 n).

Definition kfails (k : ckind) : bool := match k with KNever f => f | KRead _ f => f end.

Section MultiUse.
Variable n : nat.              (* number of entries of the map *)
Variable recovered : bool.

Definition mstep (s : mst) (a : mact) : option mst :=
  match a, ph s with
  | AFetch, PBetween =>
      match src s with
      | [] => Some (mkM [] PClosing (cs s) (eterm s) (acks s))
      | EvItem :: r => Some (mkM r (PRound 0) (cs s) (eterm s) (acks s))
      | EvPanic :: _ =>
          if recovered
          then Some (mkM [] (PRound 0) (cs s) (eterm s) (acks s))      (* the error element; the source is finished *)
          else Some (mkM [] PUnwound (cs s) (eterm s) (acks s))
      end
  | ASkip, PRound i =>          (* modelling step: index i is no holder any more *)
      if Nat.ltb i n && negb (held (cs s i)) then Some (mkM (src s) (PRound (S i)) (cs s) (eterm s) (acks s)) else None
  | AErrTerm, PRound i =>
      if Nat.ltb i n && held (cs s i) && eterm s then Some (mkM (src s) PClosing (cs s) (eterm s) (acks s)) else None
  | ASend, PRound i =>
      let c := cs s i in
      if Nat.ltb i n && held c && alive c && negb (sclosed c) then
        match kind c with
        | KRead None f => Some (mkM (src s) (PRound (S i)) (cs s) (eterm s) (acks s))
        | KRead (Some (S k)) f =>
            Some (mkM (src s) (PRound (S i)) (upd i (mkC (KRead (Some k) f) true false (cclosed c) true) (cs s)) (eterm s) (acks s))
        | _ => None
        end
      else None
  | AStopSeen, PRound i =>
      let c := cs s i in
      if Nat.ltb i n && held c && sclosed c
      then Some (mkM (src s) (PRound (S i)) (upd i (mkC (kind c) (alive c) true true false) (cs s)) (eterm s) (acks s))
      else None
  | ATimeout, PRound i =>
      let c := cs s i in
      if Nat.ltb i n && held c && negb (eterm s) then
        match kind c with
        | KNever _ => Some (mkM (src s) PDone (close_held (cs s)) (eterm s) (acks s))
        | _ => None
        end
      else None
  | AEndRound, PRound i =>
      if Nat.eqb i n
      then Some (mkM (src s) (if any_held n (cs s) then PBetween else PClosing) (cs s) (eterm s) (acks s))
      else None
  | AClose, PClosing => Some (mkM (src s) (PAcks n) (close_held (cs s)) (eterm s) (acks s))
  | AAck, PAcks (S k) =>
      match acks s with S m => Some (mkM (src s) (PAcks k) (cs s) (eterm s) m) | O => None end
  | ARet, PAcks O => Some (mkM (src s) PDone (cs s) (eterm s) (acks s))
  | ACons i, _ =>
      let c := cs s i in
      if Nat.ltb i n && alive c then
        match kind c with
        | KNever f =>
            Some (mkM (src s) (ph s) (upd i (mkC (kind c) false (sclosed c) (cclosed c) (held c)) (cs s)) (eterm s || f) (S (acks s)))
        | KRead b f =>
            if (match b with Some O => true | _ => false end) || cclosed c
            then Some (mkM (src s) (ph s) (upd i (mkC (kind c) false true (cclosed c) (held c)) (cs s)) (eterm s || f) (S (acks s)))
            else None
        end
      else None
  | _, _ => None
  end.

Fixpoint mrun (s : mst) (l : list mact) : option mst :=
  match l with
  | [] => Some s
  | a :: r => match mstep s a with Some s' => mrun s' r | None => None end
  end.

(* MultiUse has started every consumer and calls run *)
Definition minit (kinds : nat -> ckind) (source : list src_ev) : mst :=
  mkM source PBetween (fun i => mkC (kinds i) true false false true) false 0.

(* run has returned and every consumer goroutine has returned *)
Definition mfinal (s : mst) : bool :=
  (match ph s with PDone => true | _ => false end) && forallb (fun i => negb (alive (cs s i))) (seq 0 n).

Definition mstuck (s : mst) : Prop := forall a, mstep s a = None.

Definition alive_count (f : nat -> cons) : nat := length (filter (fun i => alive (f i)) (seq 0 n)).

(* the number of actions still possible at most (MultiUseProofs.mstep_mu: every action lowers it) *)
Definition pmu (s : mst) : nat :=
  match ph s with
  | PBetween => length (src s) * (n + 2) + 1 + (n + 2)
  | PRound i => (n - i) + 1 + length (src s) * (n + 2) + 1 + (n + 2)
  | PClosing => n + 2
  | PAcks k => k + 1
  | PDone | PUnwound => 0
  end.
Definition mmu (s : mst) : nat := pmu s + alive_count (cs s).

End MultiUse.
