(* multiUse with consumers that return early or fail: every consumer is given a prefix of the source; when nobody fails
   every consumer has seen exactly what it sees alone over the whole source; run reports an error iff some consumer
   fails on the source. *)
From P2 Require Import Base.Prelude Conc.ParMap Conc.CopyProdStop Conc.MapAutoProofs Conc.CopyProdProofs Conc.MergeChanProofs.
From Coq Require Import Lia.

Section StopProofs.
Context {V : Type}.
Variable ncons : nat.
Variable beh : nat -> list (res V) -> cact.
Variable source : list (res V).
Notation qstate := (@qstate V).
Notation qcons := (@qcons V).
Notation qstep := (qstep ncons beh).
Notation qrun := (qrun ncons beh).
Notation view := (view beh).

Definition qcur (m : qstate) : list (res V) := match qpp m with PDist x _ => [x] | _ => [] end.
Definition qexp (m : qstate) (j : nat) : list (res V) :=
  match qpp m with PDist x i => if Nat.ltb j i then qfed m ++ [x] else qfed m | _ => qfed m end.

(* what an active consumer has received *)
Definition log_ok (m : qstate) (j : nat) (log : list (res V)) : Prop :=
  match qpp m with PEnd => qerr m = false -> log = source | _ => log = qexp m j end.

Definition cons_ok (m : qstate) (j : nat) (c : qcons) : Prop :=
  match qph c with
  | QRecv => log_ok m j (qlog c) /\ exists rest, source = qlog c ++ rest /\ view j [] source = view j (qlog c) rest
  | QBusy => log_ok m j (qlog c) /\ exists l0 x rest, qlog c = l0 ++ [x] /\ source = qlog c ++ rest /\ view j [] source = view j l0 (x :: rest)
  | QStopped => view j [] source = (qlog c, VStopped)
  | QFailed => view j [] source = (qlog c, VFailed)
  | QEnded => qpp m = PEnd /\ (qerr m = false -> qlog c = source) /\ exists rest, source = qlog c ++ rest /\ view j [] source = view j (qlog c) rest
  end.

Definition qinv (m : qstate) : Prop :=
  length (qcs m) = ncons /\
  (qpp m <> PEnd -> source = qfed m ++ qcur m ++ qsrc m) /\
  (forall x j, qpp m = PDist x j -> j < ncons) /\
  (forall j c, nth_error (qcs m) j = Some c -> cons_ok m j c) /\
  (qerr m = true -> exists j c, nth_error (qcs m) j = Some c /\ qph c = QFailed) /\
  (qpp m = PEnd -> qerr m = true \/ qsrc m = []).

Lemma cons_ok_transfer : forall m m' j c, cons_ok m j c ->
  match qph c with
  | QRecv | QBusy => log_ok m j (qlog c) -> log_ok m' j (qlog c)
  | QEnded => qpp m' = PEnd /\ (qerr m' = false -> qerr m = false)
  | _ => True
  end -> cons_ok m' j c.
Proof.
  intros m m' j c H T. unfold cons_ok in *. destruct (qph c); auto.
  - destruct H as (H1 & H2). split; auto.
  - destruct H as (H1 & H2). split; auto.
  - destruct H as (H1 & H2 & H3). destruct T as (T1 & T2). repeat split; auto.
Qed.

(* replacing consumer j *)
Lemma cs_update : forall (m' : qstate) (cs : list qcons) j c',
  j < length cs ->
  cons_ok m' j c' -> (forall k c, k <> j -> nth_error cs k = Some c -> cons_ok m' k c) ->
  forall k c, nth_error (set_nth j c' cs) k = Some c -> cons_ok m' k c.
Proof.
  intros m' cs j c' Hj Hc' Hrest k c H. destruct (Nat.eq_dec j k) as [<-|Hne].
  - rewrite nth_set_eq in H by exact Hj. injection H as <-. exact Hc'.
  - rewrite nth_set_neq in H by exact Hne. apply Hrest; auto.
Qed.

Lemma failed_update : forall (cs : list qcons) j c' k c, nth_error cs k = Some c -> qph c = QFailed ->
  (k = j -> qph c' = QFailed) -> j < length cs ->
  exists k' c'', nth_error (set_nth j c' cs) k' = Some c'' /\ qph c'' = QFailed.
Proof.
  intros cs j c' k c Hk Hf Hsame Hj. destruct (Nat.eq_dec j k) as [<-|Hne].
  - exists j, c'. rewrite nth_set_eq by exact Hj. split; [reflexivity|apply Hsame; reflexivity].
  - exists k, c. rewrite nth_set_neq by exact Hne. split; assumption.
Qed.

Lemma view_step : forall j l0 x rest,
  view j l0 (x :: rest) = match beh j (l0 ++ [x]) with
                          | AContinue => view j (l0 ++ [x]) rest
                          | AStop => (l0 ++ [x], VStopped)
                          | AFail => (l0 ++ [x], VFailed)
                          end.
Proof. reflexivity. Qed.

(* moving on from holder i to holder i+1 (or to the next item) does not change what the other active consumers should hold *)
Lemma qexp_advance : forall src src' cs cs' err err' fed x i k,
  i < ncons -> k < ncons -> k <> i ->
  let '(pp, fed') := qnorm ncons x (S i) fed in
  qexp (mkQS src' pp cs' err' fed') k = qexp (mkQS src (PDist x i) cs err fed) k.
Proof.
  intros src src' cs cs' err err' fed x i k Hi Hk Hne. unfold qnorm.
  destruct (Nat.ltb_spec (S i) ncons); unfold qexp; cbn [qpp qfed].
  - destruct (Nat.ltb_spec k (S i)), (Nat.ltb_spec k i); try reflexivity; lia.
  - destruct (Nat.ltb_spec k i); [reflexivity|lia].
Qed.

(* cons_ok looks at the producer's position, the ghost and the error flag only *)
Lemma cons_ok_fields : forall m src' cs' k c, cons_ok m k c -> cons_ok (mkQS src' (qpp m) cs' (qerr m) (qfed m)) k c.
Proof. intros m src' cs' k c H. unfold cons_ok, log_ok, qexp in *. cbn [qpp qerr qfed]. exact H. Qed.

(* consumer j changes its own state, nothing else changes *)
Lemma qinv_replace : forall m j c c', qinv m -> nth_error (qcs m) j = Some c ->
  cons_ok m j c' -> (qph c = QFailed -> qph c' = QFailed) ->
  qinv (mkQS (qsrc m) (qpp m) (set_nth j c' (qcs m)) (qerr m) (qfed m)).
Proof.
  intros m j c c' (Hlen & Hsrc & Hcur & Hcons & Herr & Hend) Hj Hc' Hf.
  assert (Hjl : j < length (qcs m)) by (apply nth_error_Some; congruence).
  unfold qinv, qcur in *. cbn [qcs qsrc qpp qerr qfed].
  split; [rewrite set_nth_length; exact Hlen|]. split; [exact Hsrc|]. split; [exact Hcur|]. split; [|split; [|exact Hend]].
  - apply (cs_update _ (qcs m) j c'); [exact Hjl|apply cons_ok_fields; exact Hc'|].
    intros k c0 _ Hk. apply cons_ok_fields, Hcons, Hk.
  - intro He. destruct (Herr He) as (k & c0 & Hk & Hf0). apply (failed_update (qcs m) j c' k c0 Hk Hf0); [|exact Hjl].
    intros ->. rewrite Hj in Hk. injection Hk as <-. apply Hf, Hf0.
Qed.

Lemma qinv_step : forall m ch, qinv m -> qinv (qstep m ch).
Proof.
  intros [src pp cs err fed] ch Hm. pose proof Hm as (Hlen & Hsrc & Hcur & Hcons & Herr & Hend).
  unfold qcur in Hsrc. cbn [qcs qsrc qpp qerr qfed] in Hlen, Hsrc, Hcur, Herr, Hend.
  assert (Hactive : forall k c, nth_error cs k = Some c -> pp <> PEnd -> qph c <> QEnded).
  { intros k c Hk Hp E. assert (Hq := Hcons k c Hk). unfold cons_ok in Hq. rewrite E in Hq. destruct Hq as (Hq & _). cbn in Hq. congruence. }
  destruct ch as [| | | |j|j]; cbn [CopyProdStop.qstep qcs qsrc qpp qerr qfed].
  - (* QPull *)
    destruct pp as [|x i|]; try exact Hm. specialize (Hsrc ltac:(discriminate)). cbn [app] in Hsrc.
    destruct src as [|x r].
    + unfold qinv, qcur. cbn [qcs qsrc qpp qerr qfed]. split; [exact Hlen|]. split; [intro H; congruence|]. split; [intros; discriminate|].
      split; [|split; [exact Herr|intros _; right; reflexivity]].
      intros k c Hk. apply (cons_ok_transfer _ _ _ _ (Hcons k c Hk)). unfold log_ok, qexp. cbn [qpp qerr qfed].
      pose proof (Hactive k c Hk ltac:(discriminate)) as Hne.
      destruct (qph c); auto; try congruence; intros -> _; rewrite Hsrc, app_nil_r; reflexivity.
    + unfold qnorm. destruct (Nat.ltb_spec 0 ncons) as [Hn|Hn]; unfold qinv, qcur; cbn [qcs qsrc qpp qerr qfed].
      * split; [exact Hlen|]. split; [intros _; exact Hsrc|]. split; [intros y j H; injection H as <- <-; exact Hn|].
        split; [|split; [exact Herr|intro; discriminate]].
        intros k c Hk. apply (cons_ok_transfer _ _ _ _ (Hcons k c Hk)). unfold log_ok, qexp. cbn [qpp qerr qfed].
        pose proof (Hactive k c Hk ltac:(discriminate)) as Hne. destruct (qph c); auto; congruence.
      * split; [exact Hlen|]. split; [intros _; rewrite Hsrc, <- app_assoc; reflexivity|]. split; [intros; discriminate|].
        split; [|split; [exact Herr|intro; discriminate]].
        intros k c Hk. assert (k < length cs) by (apply nth_error_Some; congruence). lia.
  - (* QSend *)
    destruct pp as [|x i|]; try exact Hm. specialize (Hsrc ltac:(discriminate)).
    destruct (nth_error cs i) as [[log ph]|] eqn:Hi; [|exact Hm]. destruct ph; try exact Hm.
    assert (Hi_lt : i < ncons) by (apply (Hcur x i eq_refl)).
    assert (Hci : cons_ok (mkQS src (PDist x i) cs err fed) i (mkQ log QRecv)) by (apply Hcons; exact Hi).
    unfold cons_ok, log_ok, qexp in Hci. cbn [qph qlog qpp qfed] in Hci. rewrite Nat.ltb_irrefl in Hci.
    destruct Hci as (Hlog & rest & Hrest & Hview). subst log.
    assert (Hr : rest = x :: src). { rewrite Hsrc in Hrest. apply app_inv_head in Hrest. symmetry. exact Hrest. }
    subst rest.
    pose proof (qexp_advance src src cs (set_nth i (mkQ (fed ++ [x]) QBusy) cs) err err fed x i) as Hadv.
    destruct (qnorm ncons x (S i) fed) as [pp' fed'] eqn:Hnorm.
    assert (Hpp' : pp' <> PEnd) by (unfold qnorm in Hnorm; destruct (S i <? ncons); injection Hnorm as <- <-; discriminate).
    assert (Hexp_i : qexp (mkQS src pp' (set_nth i (mkQ (fed ++ [x]) QBusy) cs) err fed') i = fed ++ [x]).
    { unfold qnorm in Hnorm. destruct (Nat.ltb_spec (S i) ncons); injection Hnorm as <- <-; unfold qexp; cbn [qpp qfed]; [|reflexivity].
      destruct (Nat.ltb_spec i (S i)); [reflexivity|lia]. }
    unfold qinv, qcur. cbn [qcs qsrc qpp qerr qfed].
    split; [rewrite set_nth_length; exact Hlen|]. split.
    { intros _. unfold qnorm in Hnorm. destruct (S i <? ncons); injection Hnorm as <- <-; [exact Hsrc|rewrite Hsrc, <- !app_assoc; reflexivity]. }
    split. { unfold qnorm in Hnorm. destruct (Nat.ltb_spec (S i) ncons); injection Hnorm as <- <-; intros y j0 Hy; [injection Hy as <- <-; assumption|discriminate]. }
    split; [|split].
    + apply (cs_update _ cs i (mkQ (fed ++ [x]) QBusy)); [lia| |].
      * unfold cons_ok, log_ok. cbn [qph qlog qpp]. split.
        { destruct pp' as [|y i0|]; [symmetry; exact Hexp_i|symmetry; exact Hexp_i|congruence]. }
        exists fed, x, src. split; [reflexivity|]. split; [rewrite Hsrc, <- app_assoc; reflexivity|exact Hview].
      * intros k c Hne Hk. apply (cons_ok_transfer _ _ _ _ (Hcons k c Hk)).
        assert (Hk_lt : k < ncons) by (rewrite <- Hlen; apply nth_error_Some; congruence).
        specialize (Hadv k Hi_lt Hk_lt Hne). pose proof (Hactive k c Hk ltac:(discriminate)) as Hna.
        unfold log_ok. cbn [qpp]. destruct (qph c) eqn:E; auto; try congruence;
          intros ->; destruct pp'; try (symmetry; exact Hadv); congruence.
    + intro He. destruct (Herr He) as (k & c & Hk & Hf). apply (failed_update cs i _ k c Hk Hf); [|lia].
      intros ->. rewrite Hi in Hk. injection Hk as <-. discriminate.
    + intro H. congruence.
  - (* QSkip *)
    destruct pp as [|x i|]; try exact Hm. specialize (Hsrc ltac:(discriminate)).
    destruct (nth_error cs i) as [[log ph]|] eqn:Hi; [|exact Hm].
    assert (Hi_lt : i < ncons) by (apply (Hcur x i eq_refl)).
    assert (Hgoal : (ph = QStopped \/ ph = QFailed) ->
      qinv (let (pp0, fed0) := qnorm ncons x (S i) fed in mkQS src pp0 cs err fed0)).
    { intro Hph. pose proof (qexp_advance src src cs cs err err fed x i) as Hadv.
      destruct (qnorm ncons x (S i) fed) as [pp' fed'] eqn:Hnorm.
      assert (Hpp' : pp' <> PEnd) by (unfold qnorm in Hnorm; destruct (S i <? ncons); injection Hnorm as <- <-; discriminate).
      unfold qinv, qcur. cbn [qcs qsrc qpp qerr qfed]. split; [exact Hlen|]. split.
      { intros _. unfold qnorm in Hnorm. destruct (S i <? ncons); injection Hnorm as <- <-; [exact Hsrc|rewrite Hsrc, <- !app_assoc; reflexivity]. }
      split. { unfold qnorm in Hnorm. destruct (Nat.ltb_spec (S i) ncons); injection Hnorm as <- <-; intros y j0 Hy; [injection Hy as <- <-; assumption|discriminate]. }
      split; [|split; [exact Herr|intro H; congruence]].
      intros k c Hk. apply (cons_ok_transfer _ _ _ _ (Hcons k c Hk)).
      assert (Hk_lt : k < ncons) by (rewrite <- Hlen; apply nth_error_Some; congruence).
      destruct (Nat.eq_dec k i) as [->|Hne].
      - rewrite Hi in Hk. injection Hk as <-. cbn [qph]. destruct Hph as [->| ->]; exact I.
      - specialize (Hadv k Hi_lt Hk_lt Hne). pose proof (Hactive k c Hk ltac:(discriminate)) as Hna.
        unfold log_ok. cbn [qpp]. destruct (qph c) eqn:E; auto; try congruence;
          intros ->; destruct pp'; try (symmetry; exact Hadv); congruence. }
    destruct ph; try exact Hm; apply Hgoal; auto.
  - (* QBreak *)
    destruct pp as [|x i|]; try exact Hm. destruct err eqn:Ee; [|exact Hm].
    unfold qinv, qcur. cbn [qcs qsrc qpp qerr qfed]. split; [exact Hlen|].
    split; [intro H; congruence|]. split; [intros; discriminate|]. split; [|split; [exact Herr|intros _; left; reflexivity]].
    intros k c Hk. apply (cons_ok_transfer _ _ _ _ (Hcons k c Hk)). unfold log_ok. cbn [qpp qerr].
    pose proof (Hactive k c Hk ltac:(discriminate)) as Hna.
    destruct (qph c) eqn:E; auto; try congruence; intros _ H; discriminate.
  - (* QReady j *)
    destruct (nth_error cs j) as [[log ph]|] eqn:Hj; [|exact Hm]. destruct ph; try exact Hm.
    assert (Hcj : cons_ok (mkQS src pp cs err fed) j (mkQ log QBusy)) by (apply Hcons; exact Hj).
    pose proof Hcj as (Hlog & l0 & x & rest & Hl & Hrest & Hview). cbn [qlog] in Hl, Hrest, Hlog.
    rewrite view_step, <- Hl in Hview.
    destruct (beh j log) eqn:Hb.
    + apply (qinv_replace (mkQS src pp cs err fed) j (mkQ log QBusy) (mkQ log QRecv) Hm Hj); [|discriminate].
      unfold cons_ok. cbn [qph qlog]. split; [exact Hlog|]. exists rest. split; assumption.
    + apply (qinv_replace (mkQS src pp cs err fed) j (mkQ log QBusy) (mkQ log QStopped) Hm Hj); [|discriminate].
      unfold cons_ok. cbn [qph qlog]. exact Hview.
    + (* the consumer fails: errorTerm is closed *)
      assert (Hjl : j < length cs) by (apply nth_error_Some; congruence).
      unfold qinv, qcur. cbn [qcs qsrc qpp qerr qfed].
      split; [rewrite set_nth_length; exact Hlen|]. split; [exact Hsrc|]. split; [exact Hcur|]. split; [|split].
      * apply (cs_update _ cs j (mkQ log QFailed)); [exact Hjl|unfold cons_ok; cbn [qph qlog]; exact Hview|].
        intros k c _ Hk. apply (cons_ok_transfer _ _ _ _ (Hcons k c Hk)). unfold log_ok. cbn [qpp qerr qfed].
        destruct (qph c) eqn:E; auto.
        -- destruct pp; auto. intros _ H; discriminate.
        -- destruct pp; auto. intros _ H; discriminate.
        -- assert (Hq := Hcons k c Hk). unfold cons_ok in Hq. rewrite E in Hq. destruct Hq as (Hq & _). cbn in Hq.
           split; [exact Hq|intro H; discriminate].
      * intros _. exists j, (mkQ log QFailed). rewrite nth_set_eq by exact Hjl. split; reflexivity.
      * intros _. left. reflexivity.
  - (* QEof j *)
    destruct pp as [|x i|]; try exact Hm.
    destruct (nth_error cs j) as [[log ph]|] eqn:Hj; [|exact Hm]. destruct ph; try exact Hm.
    assert (Hcj : cons_ok (mkQS src PEnd cs err fed) j (mkQ log QRecv)) by (apply Hcons; exact Hj).
    destruct Hcj as (Hlog & Hrest). unfold log_ok in Hlog. cbn [qpp qerr qlog] in Hlog, Hrest.
    apply (qinv_replace (mkQS src PEnd cs err fed) j (mkQ log QRecv) (mkQ log QEnded) Hm Hj); [|discriminate].
    unfold cons_ok. cbn [qph qlog qpp qerr]. repeat split; auto.
Qed.

Lemma qinv_run : forall sched m, qinv m -> qinv (qrun m sched).
Proof. induction sched as [|ch sched IH]; intros m H; [exact H|]. cbn [CopyProdStop.qrun fold_left]. apply IH, qinv_step, H. Qed.
End StopProofs.

Section StopFinal.
Context {V : Type}.
Variable ncons : nat.
Variable beh : nat -> list (res V) -> cact.
Notation qstate := (@qstate V).
Notation qrun := (qrun ncons beh).
Notation view := (view beh).

Lemma qinv_init : forall source : list (res V), qinv ncons beh source (qinit ncons source).
Proof.
  intro source. unfold qinv, qinit, qcur. cbn [qcs qsrc qpp qerr qfed].
  split; [apply repeat_length|]. split; [reflexivity|]. split; [intros; discriminate|]. split; [|split; [intro; discriminate|intro; discriminate]].
  intros j c H. apply nth_error_In, repeat_spec in H. subst c. unfold cons_ok, log_ok, qexp. cbn.
  split; [reflexivity|]. exists source. split; reflexivity.
Qed.

Lemma view_extends : forall j rest log l t, view j log rest = (l, t) -> exists r', log ++ rest = l ++ r'.
Proof.
  intros j rest. induction rest as [|x r IH]; intros log l t H; cbn [CopyProdStop.view] in H.
  - injection H as <- _. exists []. reflexivity.
  - destruct (beh j (log ++ [x])).
    + destruct (IH _ _ _ H) as (r' & Hr). exists r'. rewrite <- Hr, <- app_assoc. reflexivity.
    + injection H as <- _. exists r. rewrite <- app_assoc. reflexivity.
    + injection H as <- _. exists r. rewrite <- app_assoc. reflexivity.
Qed.

(* every consumer, at every moment, has been given a prefix of the source *)
Lemma multi_use_stop_prefix_lem : forall (source : list (res V)) sched j c,
  nth_error (qcs (qrun (qinit ncons source) sched)) j = Some c -> is_prefix (qlog c) source.
Proof.
  intros source sched j c H. destruct (qinv_run ncons beh source sched _ (qinv_init source)) as (_ & _ & _ & Hcons & _).
  specialize (Hcons j c H). unfold cons_ok in Hcons. destruct (qph c).
  - destruct Hcons as (_ & rest & Hr & _). exists rest. exact Hr.
  - destruct Hcons as (_ & l0 & x & rest & _ & Hr & _). exists rest. exact Hr.
  - destruct (view_extends _ _ _ _ _ Hcons) as (r' & Hr). exists r'. exact Hr.
  - destruct (view_extends _ _ _ _ _ Hcons) as (r' & Hr). exists r'. exact Hr.
  - destruct Hcons as (_ & _ & rest & Hr & _). exists rest. exact Hr.
Qed.

Lemma existsb_false_all : forall (X : Type) (p : X -> bool) l, existsb p l = false -> forall x, In x l -> p x = false.
Proof. intros X p l H x Hx. destruct (p x) eqn:E; [|reflexivity]. assert (existsb p l = true) by (apply existsb_exists; exists x; auto). congruence. Qed.

(* when everything has finished and nobody has failed, every consumer has seen exactly what it sees alone on the source *)
Lemma multi_use_sequential_views_lem : forall (source : list (res V)) sched,
  let m := qrun (qinit ncons source) sched in
  qcomplete m = true -> qresult_fails m = false ->
  forall j c, nth_error (qcs m) j = Some c -> view j [] source = (qlog c, qtag c).
Proof.
  intros source sched m Hc Hnf j c Hj.
  destruct (qinv_run ncons beh source sched _ (qinv_init source)) as (_ & _ & _ & Hcons & Herr & _). fold m in Hcons, Herr.
  assert (He : qerr m = false).
  { destruct (qerr m) eqn:E; [|reflexivity]. destruct (Herr eq_refl) as (k & c' & Hk & Hf).
    pose proof (existsb_false_all _ _ _ Hnf c' (nth_error_In _ _ Hk)) as H. unfold qfailed in H. rewrite Hf in H. discriminate. }
  unfold qcomplete in Hc. destruct (qpp m) eqn:Hp; try discriminate.
  rewrite forallb_forall in Hc. specialize (Hc c (nth_error_In _ _ Hj)). unfold qfinal in Hc.
  pose proof (existsb_false_all _ _ _ Hnf c (nth_error_In _ _ Hj)) as Hcf. unfold qfailed in Hcf.
  specialize (Hcons j c Hj). unfold cons_ok, qtag in *. destruct (qph c); try discriminate.
  - exact Hcons.
  - destruct Hcons as (_ & Hs & rest & Hr & Hv). specialize (Hs He). rewrite Hs in Hr, Hv |- *.
    assert (rest = []) by (rewrite <- (app_nil_r source) in Hr at 1; apply app_inv_head in Hr; auto). subst rest. exact Hv.
Qed.

(* run reports an error exactly when some consumer fails on the source *)
Lemma multi_use_error_reported_lem : forall (source : list (res V)) sched,
  let m := qrun (qinit ncons source) sched in
  qcomplete m = true ->
  (qresult_fails m = true <-> exists j, j < ncons /\ snd (view j [] source) = VFailed).
Proof.
  intros source sched m Hc.
  pose proof (qinv_run ncons beh source sched _ (qinv_init source)) as (Hlen & _ & _ & Hcons & _). fold m in Hlen, Hcons.
  split.
  - intro H. unfold qresult_fails in H. apply existsb_exists in H. destruct H as (c & Hin & Hf).
    apply In_nth_error in Hin. destruct Hin as (j & Hj). exists j. split; [rewrite <- Hlen; apply nth_error_Some; congruence|].
    specialize (Hcons j c Hj). unfold cons_ok in Hcons. unfold qfailed in Hf. destruct (qph c); try discriminate.
    rewrite Hcons. reflexivity.
  - intros (j & Hj & Hv). destruct (qresult_fails m) eqn:Hnf; [reflexivity|].
    destruct (nth_error (qcs m) j) as [c|] eqn:Hn; [|apply nth_error_None in Hn; lia].
    pose proof (multi_use_sequential_views_lem source sched Hc Hnf j c Hn) as H. rewrite H in Hv. cbn [snd] in Hv.
    pose proof (existsb_false_all _ _ _ Hnf c (nth_error_In _ _ Hn)) as Hcf. unfold qfailed in Hcf. unfold qtag in Hv.
    destruct (qph c); discriminate.
Qed.
End StopFinal.

(* ---- no deadlock ----------------------------------------------------------------------------------------- *)
Section StopProgress.
Context {V : Type}.
Variable ncons : nat.
Variable beh : nat -> list (res V) -> cact.
Notation qstate := (@qstate V).
Notation qcons := (@qcons V).
Notation qstep := (qstep ncons beh).
Notation qrun := (qrun ncons beh).

Lemma qstep_disabled : forall (m : qstate) ch, qenabled m ch = false -> qstep m ch = m.
Proof.
  intros [src pp cs err fed] ch H. destruct ch as [| | | |j|j]; cbn [qenabled CopyProdStop.qstep qcs qsrc qpp qerr qfed] in *.
  - destruct pp; try reflexivity. discriminate.
  - destruct pp as [|x i|]; try reflexivity. destruct (nth_error cs i) as [[log ph]|]; try reflexivity. destruct ph; try reflexivity; discriminate.
  - destruct pp as [|x i|]; try reflexivity. destruct (nth_error cs i) as [[log ph]|]; try reflexivity. destruct ph; try reflexivity; discriminate.
  - destruct pp; try reflexivity. rewrite H. reflexivity.
  - destruct (nth_error cs j) as [[log ph]|]; try reflexivity. destruct ph; try reflexivity; discriminate.
  - destruct pp; try reflexivity. destruct (nth_error cs j) as [[log ph]|]; try reflexivity. destruct ph; try reflexivity; discriminate.
Qed.

Lemma qwsum_set : forall (cs : list qcons) j c c', nth_error cs j = Some c ->
  qwsum (set_nth j c' cs) + qweight c = qwsum cs + qweight c'.
Proof.
  induction cs as [|c0 cs IH]; intros [|j] c c' H; cbn [nth_error] in H; try discriminate.
  - injection H as ->. cbn [set_nth qwsum fold_right]. lia.
  - cbn [set_nth qwsum fold_right]. specialize (IH j c c' H). unfold qwsum in IH. lia.
Qed.

Lemma qstep_enabled : forall (m : qstate) ch, (forall x j, qpp m = PDist x j -> j < ncons) -> qenabled m ch = true ->
  qmeasure ncons (qstep m ch) < qmeasure ncons m.
Proof.
  intros [src pp cs err fed] ch Hcur H. unfold qmeasure. cbn [qpp] in Hcur.
  destruct ch as [| | | |j|j]; cbn [qenabled CopyProdStop.qstep qcs qsrc qpp qerr qfed] in *.
  - destruct pp; try discriminate. destruct src as [|x r]; cbn [qcs qsrc qpp length qpweight]; [lia|].
    unfold qnorm. destruct (Nat.ltb_spec 0 ncons); cbn [qcs qsrc qpp length qpweight]; lia.
  - destruct pp as [|x i|]; try discriminate. destruct (nth_error cs i) as [[log ph]|] eqn:Hi; try discriminate. destruct ph; try discriminate.
    pose proof (Hcur x i eq_refl). pose proof (qwsum_set cs i _ (mkQ (log ++ [x]) QBusy) Hi) as Hw. cbn [qweight qph] in Hw.
    unfold qnorm. destruct (Nat.ltb_spec (S i) ncons); cbn [qcs qsrc qpp length qpweight]; lia.
  - destruct pp as [|x i|]; try discriminate. destruct (nth_error cs i) as [[log ph]|] eqn:Hi; try discriminate.
    pose proof (Hcur x i eq_refl).
    destruct ph; try discriminate; unfold qnorm; destruct (Nat.ltb_spec (S i) ncons); cbn [qcs qsrc qpp length qpweight]; lia.
  - destruct pp as [|x i|]; try discriminate. rewrite H. cbn [qcs qsrc qpp length qpweight]. lia.
  - destruct (nth_error cs j) as [[log ph]|] eqn:Hj; try discriminate. destruct ph; try discriminate.
    destruct (beh j log); cbn [qcs qsrc qpp];
      match goal with |- context [set_nth j ?c' cs] => pose proof (qwsum_set cs j _ c' Hj) as Hw end; cbn [qweight qph] in Hw; lia.
  - destruct pp; try discriminate. destruct (nth_error cs j) as [[log ph]|] eqn:Hj; try discriminate. destruct ph; try discriminate.
    cbn [qcs qsrc qpp]. pose proof (qwsum_set cs j _ (mkQ log QEnded) Hj) as Hw. cbn [qweight qph] in Hw. lia.
Qed.

Lemma nonfinal_exists : forall cs : list qcons, forallb (@qfinal V) cs = false ->
  exists j c, nth_error cs j = Some c /\ (qph c = QRecv \/ qph c = QBusy).
Proof.
  induction cs as [|c cs IH]; intro H; [discriminate|]. cbn [forallb] in H.
  destruct (qfinal c) eqn:E.
  - cbn in H. destruct (IH H) as (j & c' & Hj & Hp). exists (S j), c'. split; assumption.
  - exists 0, c. split; [reflexivity|]. unfold qfinal in E. destruct (qph c); try discriminate; auto.
Qed.

Lemma qprogress : forall (source : list (res V)) (m : qstate), qinv ncons beh source m -> qcomplete m = false ->
  exists ch, qenabled m ch = true.
Proof.
  intros source m (Hlen & _ & Hcur & Hcons & _ & _) Hc. destruct (qpp m) as [|x i|] eqn:Hp.
  - exists QPull. cbn [qenabled]. rewrite Hp. reflexivity.
  - pose proof (Hcur x i eq_refl) as Hi.
    destruct (nth_error (qcs m) i) as [[log ph]|] eqn:Hn; [|apply nth_error_None in Hn; lia].
    destruct ph.
    + exists QSend. cbn [qenabled]. rewrite Hp, Hn. reflexivity.
    + exists (QReady i). cbn [qenabled]. rewrite Hn. reflexivity.
    + exists QSkip. cbn [qenabled]. rewrite Hp, Hn. reflexivity.
    + exists QSkip. cbn [qenabled]. rewrite Hp, Hn. reflexivity.
    + specialize (Hcons i _ Hn). unfold cons_ok in Hcons. cbn [qph] in Hcons. destruct Hcons as (Hq & _). congruence.
  - unfold qcomplete in Hc. rewrite Hp in Hc. destruct (nonfinal_exists _ Hc) as (j & [log ph] & Hj & [Hq|Hq]); cbn [qph] in Hq; subst ph.
    + exists (QEof j). cbn [qenabled]. rewrite Hp, Hj. reflexivity.
    + exists (QReady j). cbn [qenabled]. rewrite Hj. reflexivity.
Qed.

Lemma qcomplete_exists : forall (source : list (res V)) n (m : qstate), qmeasure ncons m <= n -> qinv ncons beh source m ->
  exists sched, length sched <= n /\ qcomplete (qrun m sched) = true.
Proof.
  intros source. induction n as [|n IH]; intros m Hm Hi.
  - destruct (qcomplete m) eqn:Hc; [exists []; split; [reflexivity|exact Hc]|].
    destruct (qprogress source m Hi Hc) as (ch & Hen). apply qstep_enabled in Hen; [lia|apply Hi].
  - destruct (qcomplete m) eqn:Hc; [exists []; split; [cbn; lia|exact Hc]|].
    destruct (qprogress source m Hi Hc) as (ch & Hen). pose proof (qstep_enabled m ch (proj1 (proj2 (proj2 Hi))) Hen).
    destruct (IH (qstep m ch)) as (sched & Hl & Hd); [lia|apply qinv_step; exact Hi|].
    exists (ch :: sched). split; [cbn; lia|exact Hd].
Qed.

Fixpoint qall_enabled (m : qstate) (sched : list qchoice) : bool :=
  match sched with [] => true | ch :: r => qenabled m ch && qall_enabled (qstep m ch) r end.

Lemma qenabled_bounded : forall (source : list (res V)) sched (m : qstate), qinv ncons beh source m -> qall_enabled m sched = true ->
  length sched + qmeasure ncons (qrun m sched) <= qmeasure ncons m.
Proof.
  intros source. induction sched as [|ch sched IH]; intros m Hi H; [cbn; lia|]. cbn [qall_enabled] in H. apply andb_true_iff in H.
  destruct H as (Hen & Hrest). specialize (IH _ (qinv_step ncons beh source m ch Hi) Hrest).
  pose proof (qstep_enabled m ch (proj1 (proj2 (proj2 Hi))) Hen). cbn [length CopyProdStop.qrun fold_left] in *. unfold CopyProdStop.qrun in IH. lia.
Qed.

Lemma multi_use_stop_no_deadlock_lem : forall (source : list (res V)) sched,
  let m := qrun (qinit ncons source) sched in
  (exists sched', qcomplete (qrun (qinit ncons source) (sched ++ sched')) = true) /\
  (qcomplete m = false -> exists ch, qenabled m ch = true) /\
  (forall more, qall_enabled m more = true -> length more <= qmeasure ncons m).
Proof.
  intros source sched m. pose proof (qinv_run ncons beh source sched _ (qinv_init ncons beh source)) as Hi. fold m in Hi. split; [|split].
  - destruct (qcomplete_exists source _ m (le_n _) Hi) as (sched' & _ & Hd). exists sched'.
    unfold CopyProdStop.qrun in *. rewrite fold_left_app. exact Hd.
  - apply (qprogress source). exact Hi.
  - intros more H. pose proof (qenabled_bounded source more m Hi H). lia.
Qed.
End StopProgress.
