(* MapAuto / FilterAuto in front of a consumer that stops early (first, top(n), present, a failing reduce ...):
   under every schedule what the consumer has been given is what the never-stopping run under the same schedule had
   delivered at some earlier moment, hence a prefix of the sequential values; no wrong value is ever delivered.
   (What keeps running after the consumer has stopped is C12's business.) *)
From P2 Require Import Base.Prelude Conc.ParMap Conc.ConcProofs Conc.MapAutoProofs Conc.MergeChanProofs.
From Coq Require Import Lia Permutation.

Section StopSim.
Context {A B C : Type}.
Variable f : nat -> A -> res B.
Variable g : C -> res B -> C.            (* what the consumer does with an item *)
Variable cont : C -> res B -> bool.      (* ... and whether it wants more *)
Variable c0 : C.

Definition ystop (c : C) (x : res B) : C * bool := (g c x, cont c x).
Notation hf := (hfold g c0).
Notation mc := (map_coll g c0).
Notation mp := (map_p (A := A) g c0).
Notation collL := (coll (B := B) (C := list (res B))).
Notation collC := (coll (B := B) (C := C)).

(* the stopping collector against the recording one: the same state as long as it runs; once it has stopped it holds
   the fold of a prefix of the recorded log *)
Definition crel (sy : collC) (sl : collL) : Prop :=
  (alive sy = true /\ sy = mc sl) \/ (alive sy = false /\ exists P, is_prefix P (cst sl) /\ cst sy = hf P).

Lemma flush_log_prefix : forall fuel (s : collL), is_prefix (cst s) (cst (flush log_yield fuel s)).
Proof.
  induction fuel as [|fuel IH]; intro s; cbn [flush]; destruct (lookup (nextOut s) (buffer s)) as [e|]; try apply prefix_refl.
  unfold log_yield. eapply prefix_trans; [|apply IH]. cbn [cst]. exists [snd e]. reflexivity.
Qed.

Lemma arrive_log_prefix : forall (s : collL) r, is_prefix (cst s) (cst (arrive log_yield s r)).
Proof.
  intros s r. unfold arrive. destruct (negb (alive s)); [apply prefix_refl|].
  destruct (is_err (snd r) && negb (cerr s)); cbn [nextOut buffer cerr doneOpen cst alive stuck];
    (destruct (fst r =? nextOut s); [|apply prefix_refl]); unfold log_yield;
    (eapply prefix_trans; [|apply flush_log_prefix]); cbn [cst]; eexists; reflexivity.
Qed.

Lemma flush_stop : forall fuel (s : collL), alive s = true -> crel (flush ystop fuel (mc s)) (flush log_yield fuel s).
Proof.
  induction fuel as [|fuel IH]; intros s Hal; cbn [flush map_coll nextOut buffer cst cerr doneOpen alive stuck];
    destruct (lookup (nextOut s) (buffer s)) as [e|] eqn:Hl.
  - left. split; [exact Hal|]. unfold map_coll. cbn [nextOut buffer cst cerr doneOpen alive stuck]. reflexivity.
  - left. split; [exact Hal|reflexivity].
  - unfold ystop at 1, log_yield at 1. destruct (cont (hf (cst s)) (snd e)) eqn:Hc.
    + rewrite <- (hfold_snoc g c0).
      exact (IH (mkColl (S (nextOut s)) (remove (nextOut s) (buffer s)) (cerr s) (doneOpen s) (cst s ++ [snd e]) true (stuck s)) eq_refl).
    + right. split; [reflexivity|]. exists (cst s ++ [snd e]). split; [|cbn [cst]; symmetry; apply hfold_snoc].
      apply (flush_log_prefix fuel (mkColl (S (nextOut s)) (remove (nextOut s) (buffer s)) (cerr s) (doneOpen s) (cst s ++ [snd e]) true (stuck s))).
  - left. split; [exact Hal|reflexivity].
Qed.

Lemma arrive_stop : forall (s : collL) r, alive s = true -> crel (arrive ystop (mc s) r) (arrive log_yield s r).
Proof.
  intros [no bu ce dop cs al st] r Hal. cbn [alive] in Hal. subst al. unfold arrive.
  cbn [map_coll nextOut buffer cst cerr doneOpen alive stuck negb].
  destruct (is_err (snd r) && negb ce); cbn [map_coll nextOut buffer cst cerr doneOpen alive stuck];
    (destruct (fst r =? no); [|left; split; reflexivity]); unfold ystop at 1, log_yield at 1;
    match goal with |- context [cont ?c ?x] => destruct (cont c x) eqn:Hc end.
  - rewrite <- (hfold_snoc g c0). match goal with |- crel _ (flush _ ?n ?x) => exact (flush_stop n x eq_refl) end.
  - right. split; [reflexivity|]. eexists. split; [|cbn [cst]; symmetry; apply hfold_snoc].
    match goal with |- is_prefix _ (cst (flush _ ?n ?x)) => apply (flush_log_prefix n x) end.
  - rewrite <- (hfold_snoc g c0). match goal with |- crel _ (flush _ ?n ?x) => exact (flush_stop n x eq_refl) end.
  - right. split; [reflexivity|]. eexists. split; [|cbn [cst]; symmetry; apply hfold_snoc].
    match goal with |- is_prefix _ (cst (flush _ ?n ?x)) => apply (flush_log_prefix n x) end.
Qed.

Notation pstateL := (pstate (A := A) (B := B) (C := list (res B))).
Notation pstateC := (pstate (A := A) (B := B) (C := C)).

Definition prel (sy : pstateC) (sl : pstateL) : Prop :=
  (alive (col sy) = true /\ sy = mp sl) \/
  (alive (col sy) = false /\ exists P, is_prefix P (cst (col sl)) /\ cst (col sy) = hf P).

Lemma step_log_prefix : forall (s : pstateL) c, is_prefix (cst (col s)) (cst (col (ParMap.step f log_yield s c))).
Proof.
  intros s c. destruct c as [w|w|]; cbn [ParMap.step].
  - destruct (feederDone s); [apply prefix_refl|]. destruct (src s); [apply prefix_refl|].
    destruct (nth_error (workers s) w) as [[r0|]|]; apply prefix_refl.
  - destruct (nth_error (workers s) w) as [[r0|]|]; try apply prefix_refl.
    destruct (alive (col s)); [|apply prefix_refl]. cbn [col]. apply arrive_log_prefix.
  - destruct (feederDone s); [apply prefix_refl|]. destruct (src s); [apply prefix_refl|].
    destruct (doneOpen (col s)); apply prefix_refl.
Qed.

Lemma step_dead : forall (s : pstateC) c, alive (col s) = false -> col (ParMap.step f ystop s c) = col s.
Proof.
  intros s c H. destruct c as [w|w|]; cbn [ParMap.step].
  - destruct (feederDone s); [reflexivity|]. destruct (src s); [reflexivity|].
    destruct (nth_error (workers s) w) as [[r0|]|]; reflexivity.
  - destruct (nth_error (workers s) w) as [[r0|]|]; try reflexivity. rewrite H. reflexivity.
  - destruct (feederDone s); [reflexivity|]. destruct (src s); [reflexivity|].
    destruct (doneOpen (col s)); reflexivity.
Qed.

Lemma step_stop : forall sy sl c, prel sy sl -> prel (ParMap.step f ystop sy c) (ParMap.step f log_yield sl c).
Proof.
  intros sy sl c [(Hal & ->)|(Hal & P & HP & Hc)].
  - destruct c as [w|w|]; cbn [ParMap.step map_p src nexti workers feederDone col trace].
    + left. destruct (feederDone sl); [split; [exact Hal|reflexivity]|]. destruct (src sl); [split; [exact Hal|reflexivity]|].
      destruct (nth_error (workers sl) w) as [[r0|]|]; split; try exact Hal; reflexivity.
    + destruct (nth_error (workers sl) w) as [[r0|]|]; try (left; split; [exact Hal|reflexivity]).
      cbn [map_p col] in Hal. cbn [map_coll alive] in Hal. cbn [map_coll alive]. rewrite Hal.
      destruct (arrive_stop (col sl) r0 Hal) as [(Ha & He)|(Ha & Q & HQ & Hq)].
      * left. cbn [col]. split; [exact Ha|]. unfold map_p. cbn [src nexti workers feederDone col trace]. rewrite He. reflexivity.
      * right. cbn [col]. split; [exact Ha|]. exists Q. split; assumption.
    + left. destruct (feederDone sl); [split; [exact Hal|reflexivity]|]. destruct (src sl); [split; [exact Hal|reflexivity]|].
      cbn [map_coll doneOpen]. destruct (doneOpen (col sl)); split; try exact Hal; reflexivity.
  - right. rewrite (step_dead sy c Hal). split; [exact Hal|]. exists P. split; [|exact Hc].
    eapply prefix_trans; [exact HP|apply step_log_prefix].
Qed.

Lemma run_stop : forall sched sy sl, prel sy sl -> prel (ParMap.run f ystop sy sched) (ParMap.run f log_yield sl sched).
Proof. induction sched as [|c sched IH]; intros sy sl H; [exact H|]. cbn [ParMap.run fold_left]. apply IH, step_stop, H. Qed.

(* the sequential Map in front of the stopping consumer *)
Lemma seq_map_stop : forall items i log,
  exists n go, seq_map f ystop i items (hf log) = (hf (log ++ firstn n (slog f i items)), go)
               /\ n <= length items /\ (go = true -> n = length items).
Proof.
  induction items as [|x items IH]; intros i log.
  - exists 0, true. cbn. rewrite app_nil_r. repeat split; auto.
  - cbn [seq_map]. unfold ystop at 1. destruct (cont (hf log) (snd (work f (i, x)))) eqn:Hc.
    + rewrite <- (hfold_snoc g c0). destruct (IH (S i) (log ++ [snd (work f (i, x))])) as (n & go & Hn & Hle & Hgo).
      exists (S n), go. unfold slog. cbn [length seq combine map firstn]. fold (slog f (S i) items).
      rewrite Hn, <- app_assoc. cbn [app length]. repeat split; [lia|intro H; rewrite (Hgo H); reflexivity].
    + exists 1, false. unfold slog. cbn [length seq combine map firstn]. rewrite <- (hfold_snoc g c0).
      repeat split; [lia|discriminate].
Qed.
End StopSim.

(* ---- the recording run at ANY moment: every delivered item is the sequential item of its position, or an error *)
Section Partial.
Context {A B : Type}.
Variable f : nat -> A -> res B.

Lemma forall2_len : forall (X Y : Type) (R : X -> Y -> Prop) a b, Forall2 R a b -> length a = length b.
Proof. intros X Y R a b H. induction H; cbn; auto. Qed.

Definition pos_ok (Lseq L : list (res B)) : Prop := Forall2 (@le_res B) (firstn (length L) Lseq) L /\ length L <= length Lseq.

Lemma par_log_partial : forall i0 nw (items : list (res A)) sched,
  pos_ok (slog f i0 items) (cst (col (ParMap.run f log_yield (par_init i0 nw items ([] : list (res B))) sched))).
Proof.
  intros i0 nw items sched. set (s := ParMap.run f log_yield (par_init i0 nw items []) sched).
  pose proof (pinv_run f i0 items sched _ (pinv_init f i0 items nw)) as Hinv. fold s in Hinv.
  destruct Hinv as ((fed & Hitems & Hnext & Hperm) & Hcol & Hdone).
  set (out := out_of f i0 items).
  assert (Hout : forall l rest, items = l ++ rest ->
            map (work f) (indexed i0 l) = map (fun k => (k, out k)) (seq i0 (length l))).
  { intros l rest Hl. unfold indexed. apply work_indexed. intros j x Hj. unfold out, out_of.
    replace (i0 + j - i0) with j by lia. rewrite Hl, nth_error_app1 by (apply nth_error_Some; congruence).
    rewrite Hj. reflexivity. }
  assert (Hnd : NoDup (map fst (held s ++ trace s)) /\ forall k v, In (k, v) (held s ++ trace s) -> i0 <= k < i0 + length fed /\ v = out k).
  { rewrite (Hout fed (src s) Hitems) in Hperm. split.
    - apply (Permutation_NoDup (l := map fst (map (fun k => (k, out k)) (seq i0 (length fed))))).
      + apply Permutation_map, Permutation_sym, Hperm.
      + rewrite map_map. cbn [fst]. rewrite map_id. apply seq_NoDup.
    - intros k v Hin. apply (Permutation_in _ Hperm) in Hin. apply in_map_iff in Hin.
      destruct Hin as (k' & Heq & Hk'). injection Heq as <- <-. apply in_seq in Hk'. split; [lia|reflexivity]. }
  destruct Hnd as (Hnd & Hvals).
  assert (Hc : cinv out i0 true (rev (map fst (trace s)) ++ []) (col s)).
  { rewrite Hcol. apply collect_inv; [apply cinv_init| |].
    - rewrite map_app in Hnd. apply nodup_app_r in Hnd. exact Hnd.
    - intros k v Hin. destruct (Hvals k v) as (H1 & H2); [apply in_or_app; right; exact Hin|]. repeat split; [lia|exact H2|intros []]. }
  destruct Hc as (_ & _ & Hi & Hall & _ & _ & Hf & _).
  set (n := nextOut (col s) - i0) in *.
  assert (Hn : n <= length fed).
  { destruct (Nat.eq_dec n 0) as [->|Hne]; [lia|].
    assert (Hin : In (nextOut (col s) - 1) (rev (map fst (trace s)) ++ [])) by (apply Hall; lia).
    rewrite app_nil_r in Hin. apply in_rev, in_map_iff in Hin. destruct Hin as ([k v] & Hk & Hin). cbn in Hk. subst k.
    destruct (Hvals _ v (in_or_app _ _ _ (or_intror Hin))) as (Hr & _). lia. }
  assert (Hlen : length items = length fed + length (src s)) by (rewrite Hitems at 1; apply app_length).
  assert (Hslog : slog f i0 items = map out (seq i0 (length items))).
  { pose proof (Hout items [] (eq_sym (app_nil_r items))) as H. unfold indexed in H.
    apply (f_equal (map snd)) in H. rewrite !map_map in H. cbn [snd] in H. exact H. }
  assert (Hl : length (cst (col s)) = n).
  { apply forall2_len in Hf. rewrite map_length, seq_length in Hf. lia. }
  unfold pos_ok. rewrite Hl, Hslog, map_length, seq_length. split; [|lia].
  replace (length items) with (n + (length items - n)) by lia. rewrite seq_app, map_app, firstn_app.
  rewrite map_length, seq_length, Nat.sub_diag. cbn [firstn]. rewrite app_nil_r.
  rewrite firstn_all2 by (rewrite map_length, seq_length; lia). exact Hf.
Qed.

Lemma forall2_firstn_prefix : forall (P t S : list (res B)),
  Forall2 (@le_res B) (firstn (length (P ++ t)) S) (P ++ t) -> Forall2 (@le_res B) (firstn (length P) S) P.
Proof.
  induction P as [|x P IH]; intros t S H; [constructor|].
  destruct S as [|s0 S]; cbn [app length firstn] in *; [inversion H|].
  inversion H; subst. constructor; [assumption|]. apply (IH t). assumption.
Qed.

Lemma pos_ok_prefix : forall Lseq L P : list (res B), pos_ok Lseq L -> is_prefix P L -> pos_ok Lseq P.
Proof.
  intros Lseq L P (Hf & Hl) (t & ->). split; [apply (forall2_firstn_prefix P t); exact Hf|].
  rewrite app_length in Hl. lia.
Qed.

Lemma pos_ok_app : forall c Lseq L : list (res B), pos_ok Lseq L -> pos_ok (c ++ Lseq) (c ++ L).
Proof.
  intros c Lseq L (Hf & Hl). unfold pos_ok. rewrite !app_length. split; [|lia].
  rewrite firstn_app. rewrite firstn_all2 by lia. replace (length c + length L - length c) with (length L) by lia.
  apply Forall2_app; [apply forall2_le_refl|exact Hf].
Qed.

Lemma ok_prefix_firstn : forall n (l : list (res B)), is_prefix (ok_prefix (firstn n l)) (ok_prefix l).
Proof.
  induction n as [|n IH]; intro l; [exists (ok_prefix l); reflexivity|]. destruct l as [|[x|] l]; cbn [firstn ok_prefix]; try (exists []; reflexivity).
  destruct (IH l) as (t & Ht). exists t. rewrite Ht. reflexivity.
Qed.

(* the values delivered before any error are a prefix of the sequential values *)
Lemma pos_ok_values : forall Lseq L : list (res B), pos_ok Lseq L -> is_prefix (ok_prefix L) (ok_prefix Lseq).
Proof.
  intros Lseq L (Hf & _). eapply prefix_trans; [apply ok_prefix_le; exact Hf|apply ok_prefix_firstn].
Qed.
End Partial.

(* ---- MapAuto in front of any consumer (g = what it does with an item, cont = whether it goes on) ------------------ *)
Section MapAutoStop.
Context {A B C : Type}.
Variable f : nat -> A -> res B.
Variable g : C -> res B -> C.
Variable cont : C -> res B -> bool.
Variable c0 : C.

Lemma pos_ok_refl : forall L : list (res B), pos_ok L L.
Proof. intro L. split; [rewrite firstn_all; apply forall2_le_refl|lia]. Qed.

Lemma firstn_prefix : forall (X : Type) n (l : list X), is_prefix (firstn n l) l.
Proof. intros X n l. exists (skipn n l). symmetry. apply firstn_skipn. Qed.

Lemma prefix_app : forall (X : Type) (c a b : list X), is_prefix a b -> is_prefix (c ++ a) (c ++ b).
Proof. intros X c a b (t & ->). exists t. rewrite app_assoc. reflexivity. Qed.

Lemma prefix_app_r : forall (X : Type) (a b : list X), is_prefix a (a ++ b).
Proof. intros X a b. exists b. reflexivity. Qed.

(* whatever the schedule and whenever the consumer stops: its state is the fold of its own step over a list P of items
   each of which is the sequential item of its position or an error *)
Lemma map_auto_stop_lem : forall (k : nat) (decide : bool) (nw : nat) (sched : list choice) (items : list (res A)),
  exists P, pos_ok (slog f 0 items) P /\
            ma_cst (map_auto_run f (ystop g cont) k decide nw sched items c0) = hfold g c0 P.
Proof.
  intros k decide nw sched items. unfold map_auto_run.
  assert (Hsplit : slog f 0 items = slog f 0 (firstn k items) ++ slog f (length (firstn k items)) (skipn k items)).
  { rewrite <- (firstn_skipn k items) at 1. rewrite slog_app. reflexivity. }
  destruct (seq_map_stop f g cont c0 (firstn k items) 0 []) as (n & go & Hn & Hle & Hgo).
  change (hfold g c0 []) with c0 in Hn. rewrite Hn. cbn [app] in *.
  destruct go; cbn [negb].
  - rewrite (Hgo eq_refl) in *. clear Hn. rewrite firstn_all2 by (unfold slog; rewrite map_length, combine_length, seq_length; lia).
    destruct (skipn k items) as [|x rest] eqn:Hrest.
    + exists (slog f 0 (firstn k items)). split; [|reflexivity].
      apply (pos_ok_prefix _ _ _ (pos_ok_refl _)). rewrite Hsplit. apply prefix_app_r.
    + assert (Hk : length (firstn k items) = k).
      { apply firstn_length_le. destruct (Nat.le_gt_cases k (length items)) as [H|H]; [exact H|].
        rewrite skipn_all2 in Hrest by lia. discriminate. }
      rewrite Hk in Hsplit. destruct decide.
      * set (L1 := slog f 0 (firstn k items)) in *.
        assert (Hrel : prel g c0 (par_init k nw (x :: rest) (hfold g c0 L1)) (par_init k nw (x :: rest) L1)).
        { left. split; reflexivity. }
        apply (run_stop f g cont c0 sched) in Hrel. cbn [ma_cst].
        pose proof (par_log_partial f k nw (x :: rest) sched) as Hpart.
        apply (pos_ok_app L1) in Hpart. rewrite <- Hsplit in Hpart.
        rewrite (run_prefix f k nw (x :: rest) L1 sched) in Hrel.
        destruct Hrel as [(_ & He)|(_ & P & HP & Hc)].
        -- rewrite He. cbn [map_p col map_coll cst]. rewrite hfold_snoc_log. eexists. split; [exact Hpart|reflexivity].
        -- cbn [map_p col map_coll cst] in HP. rewrite hfold_snoc_log in HP.
           exists P. split; [exact (pos_ok_prefix _ _ _ Hpart HP)|exact Hc].
      * destruct (seq_map_stop f g cont c0 (x :: rest) k (slog f 0 (firstn k items))) as (n' & go' & Hn' & _ & _).
        rewrite Hn'. cbn [ma_cst]. eexists. split; [|reflexivity].
        apply (pos_ok_prefix _ _ _ (pos_ok_refl _)). rewrite Hsplit. apply prefix_app, firstn_prefix.
  - exists (firstn n (slog f 0 (firstn k items))). split; [|reflexivity].
    apply (pos_ok_prefix _ _ _ (pos_ok_refl _)). rewrite Hsplit.
    eapply prefix_trans; [apply firstn_prefix|apply prefix_app_r].
Qed.
End MapAutoStop.

Lemma map_auto_early_stop_lem : forall (A B : Type) (f : nat -> A -> res B) (stopf : list (res B) -> bool)
  (k : nat) (decide : bool) (nw : nat) (sched : list choice) (items : list (res A)),
  let L := ma_cst (map_auto_run f (stop_yield stopf) k decide nw sched items []) in
  let Lseq := fst (seq_map f log_yield 0 items []) in
  Forall2 (@le_res B) (firstn (length L) Lseq) L /\ length L <= length Lseq /\ is_prefix (ok_prefix L) (ok_prefix Lseq).
Proof.
  intros A B f stopf k decide nw sched items L Lseq. subst Lseq. rewrite seq_map_slog. cbn [fst app].
  destruct (map_auto_stop_lem f snoc_log (fun c x => negb (stopf (c ++ [x]))) [] k decide nw sched items) as (P & HP & HL).
  change (ystop snoc_log (fun c x => negb (stopf (c ++ [x])))) with (stop_yield stopf) in HL.
  rewrite hfold_snoc_log in HL. cbn [app] in HL. subst L. rewrite HL.
  destruct HP as (H1 & H2). split; [exact H1|]. split; [exact H2|]. apply pos_ok_values. split; assumption.
Qed.

Lemma filter_auto_early_stop_lem : forall (V : Type) (accept : V -> res bool) (stopf : list (res V) -> bool)
  (k : nat) (decide : bool) (nw : nat) (sched : list choice) (items : list (res V)),
  let L := ma_cst (map_auto_run (filter_mapper accept) (filter_stop_yield stopf) k decide nw sched items []) in
  is_prefix (ok_prefix L) (ok_prefix (seq_filter accept items)).
Proof.
  intros V accept stopf k decide nw sched items L.
  destruct (map_auto_stop_lem (filter_mapper accept) (@filter_step V)
              (fun c r => match r with ROk (_, false) => true | _ => negb (stopf (filter_step c r)) end) [] k decide nw sched items) as (P & (HP & Hlen) & HL).
  change (ystop (@filter_step V) (fun c r => match r with ROk (_, false) => true | _ => negb (stopf (filter_step c r)) end))
    with (filter_stop_yield stopf) in HL.
  subst L. rewrite HL. unfold hfold. rewrite filter_fold. cbn [app].
  rewrite (seq_filter_slog accept items 0).
  rewrite <- (firstn_skipn (length P) (slog (filter_mapper accept) 0 items)), flat_map_app.
  apply ok_prefix_pieces. exact HP.
Qed.
