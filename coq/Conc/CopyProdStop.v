(* multiUse = iterator.CopyProducer with consumers that may return early or fail.
   run (calling goroutine): for every item of the source, for every holder in turn:
        select { errorTerm: break outer | h.c <- d | <-h.stop: the holder is done }
     after the loop all channels are closed and the consumers' results are awaited; an error result makes run fail.
   consumer j (a goroutine): receives items, works on each; its function may go on, return early (closing its stop
     channel) or fail (closing its stop channel and errorTerm); when its channel is closed it finishes normally.
   `beh j log` abstracts consumer j's function: what it does after having received `log`.  `qfed` is a ghost: the items
   that have been offered to all consumers.  Definitions only; proofs in CopyProdStopProofs.v. *)
From P2 Require Import Base.Prelude Conc.ParMap.
Set Implicit Arguments.

Section CopyProdStop.
Context {V : Type}.
Variable ncons : nat.

Inductive cact : Type := AContinue | AStop | AFail.
Variable beh : nat -> list (res V) -> cact.

Inductive qphase : Type := QRecv | QBusy | QStopped | QFailed | QEnded.
Record qcons : Type := mkQ { qlog : list (res V); qph : qphase }.

Inductive qprod : Type :=
| PGet                          (* next iteration of `for v, err := range in` *)
| PDist (x : res V) (j : nat)   (* in the select for holder j with item x *)
| PEnd.                         (* loop left: all channels closed *)

Record qstate : Type := mkQS {
  qsrc : list (res V); qpp : qprod; qcs : list qcons; qerr : bool (* errorTerm closed *); qfed : list (res V) }.

Inductive qchoice : Type := QPull | QSend | QSkip | QBreak | QReady (j : nat) | QEof (j : nat).

Definition qnorm (x : res V) (j : nat) (fed : list (res V)) : qprod * list (res V) :=
  if Nat.ltb j ncons then (PDist x j, fed) else (PGet, fed ++ [x]).

Definition qstep (m : qstate) (ch : qchoice) : qstate :=
  match ch with
  | QPull =>
      match qpp m with
      | PGet =>
          match qsrc m with
          | [] => mkQS [] PEnd (qcs m) (qerr m) (qfed m)
          | x :: r => let (pp, fed) := qnorm x 0 (qfed m) in mkQS r pp (qcs m) (qerr m) fed
          end
      | _ => m
      end
  | QSend =>
      match qpp m with
      | PDist x j =>
          match nth_error (qcs m) j with
          | Some (mkQ log QRecv) =>
              let (pp, fed) := qnorm x (S j) (qfed m) in
              mkQS (qsrc m) pp (set_nth j (mkQ (log ++ [x]) QBusy) (qcs m)) (qerr m) fed
          | _ => m
          end
      | _ => m
      end
  | QSkip =>       (* <-h.stop: the consumer has returned *)
      match qpp m with
      | PDist x j =>
          match nth_error (qcs m) j with
          | Some (mkQ _ QStopped) | Some (mkQ _ QFailed) =>
              let (pp, fed) := qnorm x (S j) (qfed m) in mkQS (qsrc m) pp (qcs m) (qerr m) fed
          | _ => m
          end
      | _ => m
      end
  | QBreak =>      (* <-errorTerm *)
      match qpp m with
      | PDist _ _ => if qerr m then mkQS (qsrc m) PEnd (qcs m) true (qfed m) else m
      | _ => m
      end
  | QReady j =>
      match nth_error (qcs m) j with
      | Some (mkQ log QBusy) =>
          match beh j log with
          | AContinue => mkQS (qsrc m) (qpp m) (set_nth j (mkQ log QRecv) (qcs m)) (qerr m) (qfed m)
          | AStop => mkQS (qsrc m) (qpp m) (set_nth j (mkQ log QStopped) (qcs m)) (qerr m) (qfed m)
          | AFail => mkQS (qsrc m) (qpp m) (set_nth j (mkQ log QFailed) (qcs m)) true (qfed m)
          end
      | _ => m
      end
  | QEof j =>
      match qpp m, nth_error (qcs m) j with
      | PEnd, Some (mkQ log QRecv) => mkQS (qsrc m) PEnd (set_nth j (mkQ log QEnded) (qcs m)) (qerr m) (qfed m)
      | _, _ => m
      end
  end.

Definition qrun (m : qstate) (sched : list qchoice) : qstate := fold_left qstep sched m.
Definition qinit (source : list (res V)) : qstate := mkQS source PGet (repeat (mkQ [] QRecv) ncons) false [].

Definition qfinal (c : qcons) : bool := match qph c with QStopped | QFailed | QEnded => true | _ => false end.
Definition qcomplete (m : qstate) : bool :=
  match qpp m with PEnd => forallb qfinal (qcs m) | _ => false end.
Definition qfailed (c : qcons) : bool := match qph c with QFailed => true | _ => false end.
(* run returns an error *)
Definition qresult_fails (m : qstate) : bool := existsb qfailed (qcs m).

(* ---- sequential meaning: consumer j alone over the whole source ------------------------------------------- *)
Inductive vtag : Type := VEnded | VStopped | VFailed.
Fixpoint view (j : nat) (log rest : list (res V)) : list (res V) * vtag :=
  match rest with
  | [] => (log, VEnded)
  | x :: r =>
      match beh j (log ++ [x]) with
      | AContinue => view j (log ++ [x]) r
      | AStop => (log ++ [x], VStopped)
      | AFail => (log ++ [x], VFailed)
      end
  end.

Definition qtag (c : qcons) : vtag := match qph c with QStopped => VStopped | QFailed => VFailed | _ => VEnded end.

End CopyProdStop.

Section CopyProdStopEnabled.
Context {V : Type}.
Variable ncons : nat.

Definition qenabled (m : @qstate V) (ch : qchoice) : bool :=
  match ch with
  | QPull => match qpp m with PGet => true | _ => false end
  | QSend => match qpp m with
             | PDist _ j => match nth_error (qcs m) j with Some (mkQ _ QRecv) => true | _ => false end
             | _ => false
             end
  | QSkip => match qpp m with
             | PDist _ j => match nth_error (qcs m) j with Some (mkQ _ QStopped) | Some (mkQ _ QFailed) => true | _ => false end
             | _ => false
             end
  | QBreak => match qpp m with PDist _ _ => qerr m | _ => false end
  | QReady j => match nth_error (qcs m) j with Some (mkQ _ QBusy) => true | _ => false end
  | QEof j => match qpp m, nth_error (qcs m) j with PEnd, Some (mkQ _ QRecv) => true | _, _ => false end
  end.

Definition qweight (c : @qcons V) : nat := match qph c with QRecv => 1 | QBusy => 2 | _ => 0 end.
Definition qwsum (cs : list (@qcons V)) : nat := fold_right (fun c n => qweight c + n) 0 cs.
Definition qpweight (pp : @qprod V) : nat := match pp with PGet => 1 | PDist _ j => 2 * (ncons - j) + 2 | PEnd => 0 end.
Definition qmeasure (m : @qstate V) : nat := (2 * ncons + 3) * length (qsrc m) + qpweight (qpp m) + qwsum (qcs m).
End CopyProdStopEnabled.

(* a canonical completion (to make the protocol a function of the schedule) *)
Section CopyProdStopDrive.
Context {V : Type}.
Variable ncons : nat.
Variable beh : nat -> list (res V) -> cact.

Fixpoint first_open (cs : list (@qcons V)) (i : nat) : option qchoice :=
  match cs with
  | [] => None
  | c :: r => match qph c with QRecv => Some (QEof i) | QBusy => Some (QReady i) | _ => first_open r (S i) end
  end.

Definition qpick (m : @qstate V) : qchoice :=
  match qpp m with
  | PGet => QPull
  | PDist _ j => match nth_error (qcs m) j with
                 | Some (mkQ _ QRecv) => QSend
                 | Some (mkQ _ QBusy) => QReady j
                 | _ => QSkip
                 end
  | PEnd => match first_open (qcs m) 0 with Some ch => ch | None => QPull end
  end.

Fixpoint qdrive (n : nat) (m : @qstate V) : @qstate V :=
  match n with
  | O => m
  | S n' => if qcomplete m then m else qdrive n' (qstep ncons beh m (qpick m))
  end.
End CopyProdStopDrive.
