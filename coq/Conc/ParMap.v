(* Protocol model of github.com/hneemann/iterator  Map / MapAuto / initParallel (and, through an
   instance, Filter / FilterAuto), followed branch by branch.

   Agents: the FEEDER (the goroutine that ranges over the upstream producer inside MapAuto), NW
   WORKERS (each owns a private mapper = mapperFac()), the COLLECTOR (the goroutine started last in
   initParallel: it owns nextOut, the reorder buffer, the sticky error and calls the downstream
   yield).  Channels `source` and `result` are unbuffered: a hand-over is one atomic step.
   A schedule is an explicit `list choice`; a choice that is not enabled is skipped, so every list
   is a schedule and "for every schedule" is a plain forall.

   Definitions only; proofs are in ConcProofs.v. *)
From P2 Require Import Base.Prelude.
Set Implicit Arguments.

(* a value or an error (error text is not modelled) *)
Inductive res (X : Type) : Type := ROk (x : X) | RErr.
Arguments RErr {X}.

Definition is_err {X} (r : res X) : bool := match r with RErr => true | ROk _ => false end.

(* replace element w of a list *)
Fixpoint set_nth {X} (w : nat) (x : X) (l : list X) : list X :=
  match l, w with
  | [], _ => []
  | _ :: r, O => x :: r
  | y :: r, S w' => y :: set_nth w' x r
  end.

Section ParMap.
Context {A B C : Type}.
Variable f : nat -> A -> res B.          (* mapper(i, v); all workers' private mappers compute the same function *)
Variable yield : C -> res B -> C * bool. (* downstream consumer (state, item) -> (state, continue?) *)

(* what a worker does with a container: errors of the upstream pass through, the mapper is not called *)
Definition work (c : nat * res A) : nat * res B :=
  match snd c with
  | ROk a => (fst c, f (fst c) a)
  | RErr => (fst c, RErr)
  end.

(* ---- iterator.Map: the sequential meaning -------------------------------------------------- *)
Fixpoint seq_map (i : nat) (items : list (res A)) (c : C) : C * bool :=
  match items with
  | [] => (c, true)
  | x :: r =>
      let (c', go) := yield c (snd (work (i, x))) in
      if go then seq_map (S i) r c' else (c', false)
  end.

(* ---- the collector goroutine of initParallel ------------------------------------------------ *)
Record coll : Type := mkColl {
  nextOut : nat;
  buffer : list (nat * res B);   (* map[int]container: newest binding first *)
  cerr : bool;                   (* var err error: sticky *)
  doneOpen : bool;               (* false = close(done) has happened *)
  cst : C;                       (* state of the downstream consumer *)
  alive : bool;                  (* false = the collector returned because yield said stop *)
  stuck : bool                   (* modelling artefact: fuel of the inner for-loop exhausted (excluded by flush_fuel_ok) *)
}.

Definition lookup (n : nat) (b : list (nat * res B)) : option (nat * res B) :=
  find (fun e => Nat.eqb (fst e) n) b.
Definition remove (n : nat) (b : list (nat * res B)) : list (nat * res B) :=
  filter (fun e => negb (Nat.eqb (fst e) n)) b.

(* the inner `for { if b, ok := buffer[nextOut]; ok {...} else break }` *)
Fixpoint flush (fuel : nat) (s : coll) : coll :=
  match lookup (nextOut s) (buffer s) with
  | None => s
  | Some e =>
      match fuel with
      | O => mkColl (nextOut s) (buffer s) (cerr s) (doneOpen s) (cst s) (alive s) true
      | S fuel' =>
          let (c', go) := yield (cst s) (snd e) in     (* yield(b.val, b.err): the item's own error *)
          if go
          then flush fuel' (mkColl (S (nextOut s)) (remove (nextOut s) (buffer s)) (cerr s) (doneOpen s) c' true (stuck s))
          else mkColl (nextOut s) (buffer s) (cerr s) false c' false (stuck s)
      end
  end.

(* one iteration of `for r := range result` *)
Definition arrive (s : coll) (r : nat * res B) : coll :=
  if negb (alive s) then s else
  let s1 := if is_err (snd r) && negb (cerr s)
            then mkColl (nextOut s) (buffer s) true false (cst s) (alive s) (stuck s)
            else s in
  if Nat.eqb (fst r) (nextOut s1)
  then
    let (c', go) := yield (cst s1) (if cerr s1 then RErr else snd r) in   (* yield(r.val, err): the STICKY error *)
    if go
    then flush (length (buffer s1)) (mkColl (S (nextOut s1)) (buffer s1) (cerr s1) (doneOpen s1) c' true (stuck s1))
    else mkColl (nextOut s1) (buffer s1) (cerr s1) false c' false (stuck s1)
  else mkColl (nextOut s1) (r :: buffer s1) (cerr s1) (doneOpen s1) (cst s1) (alive s1) (stuck s1).

Definition coll_init (i : nat) (c : C) : coll := mkColl i [] false true c true false.

(* the collector fed with arrivals in a given order *)
Definition collect (i : nat) (c : C) (arrivals : list (nat * res B)) : coll :=
  fold_left arrive arrivals (coll_init i c).

(* ---- feeder + workers + collector ------------------------------------------------------------ *)
Record pstate : Type := mkP {
  src : list (res A);                      (* what the upstream producer has not produced yet *)
  nexti : nat;                             (* the feeder's i *)
  workers : list (option (nat * res B));   (* None: waiting on `source`; Some r: blocked on `result <- r` *)
  feederDone : bool;                       (* the range loop of MapAuto has been left, source is closed *)
  col : coll;
  trace : list (nat * res B)               (* ghost: arrivals at the collector so far, oldest first *)
}.

Inductive choice : Type :=
| Feed (w : nat)       (* select case `source <- container{i, item, err}` taken, received by worker w *)
| Deliver (w : nat)    (* worker w's `result <- ...` is received by the collector, which processes it *)
| SeeDone.             (* select case `<-done` taken: break outer *)

Definition step (s : pstate) (c : choice) : pstate :=
  match c with
  | Feed w =>
      if feederDone s then s else
      match src s with
      | [] => mkP [] (nexti s) (workers s) true (col s) (trace s)     (* range ends; close(source) *)
      | x :: rest =>
          match nth_error (workers s) w with
          | Some None => mkP rest (S (nexti s)) (set_nth w (Some (work (nexti s, x))) (workers s)) false (col s) (trace s)
          | _ => s
          end
      end
  | Deliver w =>
      match nth_error (workers s) w with
      | Some (Some r) =>
          if alive (col s)
          then mkP (src s) (nexti s) (set_nth w None (workers s)) (feederDone s) (arrive (col s) r) (trace s ++ [r])
          else s                                                 (* nobody receives: the worker stays blocked *)
      | _ => s
      end
  | SeeDone =>
      if feederDone s then s else
      match src s with
      | [] => s
      | _ :: _ => if doneOpen (col s) then s else mkP (src s) (nexti s) (workers s) true (col s) (trace s)
      end
  end.

Definition run (s : pstate) (sched : list choice) : pstate := fold_left step sched s.

Definition idle (w : option (nat * res B)) : bool := match w with None => true | Some _ => false end.

(* nothing can happen any more that the consumer could observe *)
Definition complete (s : pstate) : bool :=
  negb (alive (col s)) || (feederDone s && forallb idle (workers s)).

(* a canonical completion of any state: deliver what the workers hold, then push the remaining
   items one by one through worker 0, then let the feeder find the source exhausted *)
Fixpoint feed_all (n : nat) : list choice :=
  match n with O => [Feed 0] | S n' => Feed 0 :: Deliver 0 :: feed_all n' end.
Definition finishing (s : pstate) : list choice :=
  map Deliver (seq 0 (length (workers s))) ++ feed_all (length (src s)).

Definition par_init (i : nat) (nw : nat) (items : list (res A)) (c : C) : pstate :=
  mkP items i (repeat None nw) false (coll_init i c) [].

(* ---- MapAuto --------------------------------------------------------------------------------
   k      = itemsToMeasure+1 (12): the items handled on the calling goroutine before the decision
   decide = the outcome of the wall-clock measurement (an input: the property quantifies over it)
   nw     = runtime.NumCPU()                                                                      *)
Definition map_auto (k : nat) (decide : bool) (nw : nat) (sched : list choice)
           (items : list (res A)) (c : C) : C * bool :=
  let (c1, go) := seq_map 0 (firstn k items) c in
  if negb go then (c1, false) else
  match skipn k items with
  | [] => (c1, true)
  | rest =>
      if decide
      then let s0 := par_init k nw rest c1 in
           let s1 := run s0 sched in
           let s2 := run s1 (finishing s1) in
           (cst (col s2), alive (col s2))
      else seq_map k rest c1
  end.

End ParMap.

(* ---- the consumer that consumes completely and records what it was given -------------------- *)
Definition log_yield {B} (c : list (res B)) (x : res B) : list (res B) * bool := (c ++ [x], true).

(* outcome of a completely consumed stream: fails if any element is an error, else the values *)
Fixpoint outcome {B} (l : list (res B)) : option (list B) :=
  match l with
  | [] => Some []
  | RErr :: _ => None
  | ROk x :: r => match outcome r with Some v => Some (x :: v) | None => None end
  end.

(* schedules from a seed (linear congruential generator), used by the correspondence run *)
Fixpoint gen_sched (n : nat) (nw : N) (seed : N) : list choice :=
  match n with
  | O => []
  | S n' =>
      let s' := N.modulo (seed * 1103515245 + 12345) 2147483648 in
      let w := N.to_nat (N.modulo (N.div s' 8) nw) in
      (match N.modulo (N.div s' 2048) 8 with
       | 0 | 1 | 2 | 3 => Feed w
       | 7 => SeeDone
       | _ => Deliver w
       end) :: gen_sched n' nw s'
  end%N.
