(* Protocol model of github.com/hneemann/iterator  Map / MapAuto / initParallel (and, through an
   instance, Filter / FilterAuto), followed branch by branch.

   Agents: the FEEDER (the goroutine that ranges over the upstream producer inside MapAuto), NW
   WORKERS (each owns a private mapper = mapperFac()), the COLLECTOR (the goroutine started last in
   initParallel: it owns nextOut, the reorder buffer, the sticky error and calls the downstream
   yield).  Channels `source` and `result` are unbuffered: a hand-over is one atomic step.
   A schedule is an explicit `list choice`; a choice that is not enabled is skipped, so every list
   is a schedule and "for every schedule" is a plain forall.

   Definitions only; proofs are in ConcProofs.v. *)
From P2 Require Import Base.Prelude.
Set Implicit Arguments.

(* a value or an error (error text is not modelled) *)
Inductive res (X : Type) : Type := ROk (x : X) | RErr.
Arguments RErr {X}.

Definition is_err {X} (r : res X) : bool := match r with RErr => true | ROk _ => false end.

(* replace element w of a list *)
Fixpoint set_nth {X} (w : nat) (x : X) (l : list X) : list X :=
  match l, w with
  | [], _ => []
  | _ :: r, O => x :: r
  | y :: r, S w' => y :: set_nth w' x r
  end.

Section ParMap.
Context {A B C : Type}.
Variable f : nat -> A -> res B.          (* mapper(i, v); all workers' private mappers compute the same function *)
Variable yield : C -> res B -> C * bool. (* downstream consumer (state, item) -> (state, continue?) *)

(* what a worker does with a container: errors of the upstream pass through, the mapper is not called *)
Definition work (c : nat * res A) : nat * res B :=
  match snd c with
  | ROk a => (fst c, f (fst c) a)
  | RErr => (fst c, RErr)
  end.

(* ---- iterator.Map: the sequential meaning -------------------------------------------------- *)
Fixpoint seq_map (i : nat) (items : list (res A)) (c : C) : C * bool :=
  match items with
  | [] => (c, true)
  | x :: r =>
      let (c', go) := yield c (snd (work (i, x))) in
      if go then seq_map (S i) r c' else (c', false)
  end.

(* ---- the collector goroutine of initParallel ------------------------------------------------ *)
Record coll : Type := mkColl {
  nextOut : nat;
  buffer : list (nat * res B);   (* map[int]container: newest binding first *)
  cerr : bool;                   (* var err error: sticky *)
  doneOpen : bool;               (* false = close(done) has happened *)
  cst : C;                       (* state of the downstream consumer *)
  alive : bool;                  (* false = the collector returned because yield said stop *)
  stuck : bool                   (* modelling artefact: fuel of the inner for-loop exhausted (excluded by flush_fuel_ok) *)
}.

Definition lookup (n : nat) (b : list (nat * res B)) : option (nat * res B) :=
  find (fun e => Nat.eqb (fst e) n) b.
Definition remove (n : nat) (b : list (nat * res B)) : list (nat * res B) :=
  filter (fun e => negb (Nat.eqb (fst e) n)) b.

(* the inner `for { if b, ok := buffer[nextOut]; ok {...} else break }` *)
Fixpoint flush (fuel : nat) (s : coll) : coll :=
  match lookup (nextOut s) (buffer s) with
  | None => s
  | Some e =>
      match fuel with
      | O => mkColl (nextOut s) (buffer s) (cerr s) (doneOpen s) (cst s) (alive s) true
      | S fuel' =>
          let (c', go) := yield (cst s) (snd e) in     (* yield(b.val, b.err): the item's own error *)
          if go
          then flush fuel' (mkColl (S (nextOut s)) (remove (nextOut s) (buffer s)) (cerr s) (doneOpen s) c' true (stuck s))
          else mkColl (nextOut s) (buffer s) (cerr s) false c' false (stuck s)
      end
  end.

(* one iteration of `for r := range result` *)
Definition arrive (s : coll) (r : nat * res B) : coll :=
  if negb (alive s) then s else
  let s1 := if is_err (snd r) && negb (cerr s)
            then mkColl (nextOut s) (buffer s) true false (cst s) (alive s) (stuck s)
            else s in
  if Nat.eqb (fst r) (nextOut s1)
  then
    let (c', go) := yield (cst s1) (if cerr s1 then RErr else snd r) in   (* yield(r.val, err): the STICKY error *)
    if go
    then flush (length (buffer s1)) (mkColl (S (nextOut s1)) (buffer s1) (cerr s1) (doneOpen s1) c' true (stuck s1))
    else mkColl (nextOut s1) (buffer s1) (cerr s1) false c' false (stuck s1)
  else mkColl (nextOut s1) (r :: buffer s1) (cerr s1) (doneOpen s1) (cst s1) (alive s1) (stuck s1).

Definition coll_init (i : nat) (c : C) : coll := mkColl i [] false true c true false.

(* the collector fed with arrivals in a given order *)
Definition collect (i : nat) (c : C) (arrivals : list (nat * res B)) : coll :=
  fold_left arrive arrivals (coll_init i c).

(* ---- feeder + workers + collector ------------------------------------------------------------ *)
Record pstate : Type := mkP {
  src : list (res A);                      (* what the upstream producer has not produced yet *)
  nexti : nat;                             (* the feeder's i *)
  workers : list (option (nat * res B));   (* None: waiting on `source`; Some r: blocked on `result <- r` *)
  feederDone : bool;                       (* the range loop of MapAuto has been left, source is closed *)
  col : coll;
  trace : list (nat * res B)               (* ghost: arrivals at the collector so far, oldest first *)
}.

Inductive choice : Type :=
| Feed (w : nat)       (* select case `source <- container{i, item, err}` taken, received by worker w *)
| Deliver (w : nat)    (* worker w's `result <- ...` is received by the collector, which processes it *)
| SeeDone.             (* select case `<-done` taken: break outer *)

Definition step (s : pstate) (c : choice) : pstate :=
  match c with
  | Feed w =>
      if feederDone s then s else
      match src s with
      | [] => mkP [] (nexti s) (workers s) true (col s) (trace s)     (* range ends; close(source) *)
      | x :: rest =>
          match nth_error (workers s) w with
          | Some None => mkP rest (S (nexti s)) (set_nth w (Some (work (nexti s, x))) (workers s)) false (col s) (trace s)
          | _ => s
          end
      end
  | Deliver w =>
      match nth_error (workers s) w with
      | Some (Some r) =>
          if alive (col s)
          then mkP (src s) (nexti s) (set_nth w None (workers s)) (feederDone s) (arrive (col s) r) (trace s ++ [r])
          else s                                                 (* nobody receives: the worker stays blocked *)
      | _ => s
      end
  | SeeDone =>
      if feederDone s then s else
      match src s with
      | [] => s
      | _ :: _ => if doneOpen (col s) then s else mkP (src s) (nexti s) (workers s) true (col s) (trace s)
      end
  end.

Definition run (s : pstate) (sched : list choice) : pstate := fold_left step sched s.

Definition idle (w : option (nat * res B)) : bool := match w with None => true | Some _ => false end.

(* nothing can happen any more that the consumer could observe *)
Definition complete (s : pstate) : bool :=
  negb (alive (col s)) || (feederDone s && forallb idle (workers s)).

Definition par_init (i : nat) (nw : nat) (items : list (res A)) (c : C) : pstate :=
  mkP items i (repeat None nw) false (coll_init i c) [].

(* ---- MapAuto --------------------------------------------------------------------------------
   k      = itemsToMeasure+1 (12): the items handled on the calling goroutine before the decision
   decide = the outcome of the wall-clock measurement (an input: the property quantifies over it)
   nw     = runtime.NumCPU()                                                                      *)
(* MapAuto without the canonical completion: the state reached by a schedule.  k and `decide` are inputs like the
   schedule (any k >= 0; switch, or never switch). *)
Inductive ma_state : Type :=
| MASeq (c : C) (go : bool)      (* everything was handled on the calling goroutine *)
| MAPar (s : pstate).            (* initParallel was started after k items *)

Definition map_auto_run (k : nat) (decide : bool) (nw : nat) (sched : list choice)
           (items : list (res A)) (c : C) : ma_state :=
  let (c1, go) := seq_map 0 (firstn k items) c in
  if negb go then MASeq c1 false else
  match skipn k items with
  | [] => MASeq c1 true
  | rest =>
      if decide then MAPar (run (par_init k nw rest c1) sched)
      else let (c2, go2) := seq_map k rest c1 in MASeq c2 go2
  end.

Definition ma_complete (m : ma_state) : bool := match m with MASeq _ _ => true | MAPar s => complete s end.
Definition ma_cst (m : ma_state) : C := match m with MASeq c _ => c | MAPar s => cst (col s) end.

(* which choices can fire (the others leave the state unchanged) *)
Definition enabled (s : pstate) (c : choice) : bool :=
  match c with
  | Feed w =>
      negb (feederDone s) &&
      match src s with
      | [] => true
      | _ :: _ => match nth_error (workers s) w with Some None => true | _ => false end
      end
  | Deliver w =>
      match nth_error (workers s) w with Some (Some _) => alive (col s) | _ => false end
  | SeeDone =>
      negb (feederDone s) && match src s with [] => false | _ :: _ => negb (doneOpen (col s)) end
  end.

(* a bound on the number of steps that can still fire *)
Definition busy (ws : list (option (nat * res B))) : nat := length (filter (fun w => negb (idle w)) ws).
Definition measure (s : pstate) : nat :=
  2 * length (src s) + busy (workers s) + (if feederDone s then 0 else 1).

(* a canonical completion of any state (used to make MapAuto a function): while the state is not final, deliver the
   result of the first busy worker, else let the feeder hand the next item to worker 0 *)
Fixpoint first_busy (ws : list (option (nat * res B))) (i : nat) : option nat :=
  match ws with
  | [] => None
  | Some _ :: _ => Some i
  | None :: r => first_busy r (S i)
  end.
Definition pick (s : pstate) : choice :=
  match first_busy (workers s) 0 with Some w => Deliver w | None => Feed 0 end.
Fixpoint drive (n : nat) (s : pstate) : pstate :=
  match n with
  | O => s
  | S n' => if complete s then s else drive n' (step s (pick s))
  end.

(* MapAuto as a function: the given schedule, then the canonical completion *)
Definition map_auto (k : nat) (decide : bool) (nw : nat) (sched : list choice)
           (items : list (res A)) (c : C) : C * bool :=
  match map_auto_run k decide nw sched items c with
  | MASeq c' go => (c', go)
  | MAPar s => let s2 := drive (measure s) s in (cst (col s2), alive (col s2))
  end.

End ParMap.

(* ---- the consumer that consumes completely and records what it was given -------------------- *)
Definition log_yield {B} (c : list (res B)) (x : res B) : list (res B) * bool := (c ++ [x], true).

(* outcome of a completely consumed stream: fails if any element is an error, else the values *)
Fixpoint outcome {B} (l : list (res B)) : option (list B) :=
  match l with
  | [] => Some []
  | RErr :: _ => None
  | ROk x :: r => match outcome r with Some v => Some (x :: v) | None => None end
  end.

(* the values delivered before the first delivered error *)
Fixpoint ok_prefix {B} (l : list (res B)) : list B :=
  match l with ROk x :: r => x :: ok_prefix r | _ => [] end.
Definition is_prefix {X} (a b : list X) : Prop := exists t, b = a ++ t.
Definition noerr {B} (l : list (res B)) : bool := forallb (fun x => negb (is_err x)) l.

(* What a parallel stage must deliver, compared with the sequential log Lseq of the same stage:
   the same outcome (all values in order, or "fails"); if nothing fails the identical log; if something fails,
   the values handed over before the first error are a prefix of the sequential ones (the sticky error of the
   collector may surface EARLIER than in source order, never later; nothing wrong is ever delivered). *)
Definition delivered_as_seq {B} (Lseq Lpar : list (res B)) : Prop :=
  outcome Lpar = outcome Lseq /\
  is_prefix (ok_prefix Lpar) (ok_prefix Lseq) /\
  (noerr Lseq = true -> Lpar = Lseq).

(* a consumer that records what it is given and stops as soon as `stopf` says so (first, top(n), present, a reduce
   that fails ...): any deterministic consumer is of this form *)
Definition stop_yield {B} (stopf : list (res B) -> bool) (c : list (res B)) (x : res B) : list (res B) * bool :=
  (c ++ [x], negb (stopf (c ++ [x]))).

(* ---- FilterAuto: MapAuto over (value, accept) containers, the consumer drops the rejected ones ------------- *)
Section FilterAuto.
Context {V : Type}.
Variable accept : V -> res bool.

Definition filter_mapper (_ : nat) (v : V) : res (V * bool) :=
  match accept v with ROk b => ROk (v, b) | RErr => RErr end.

(* `if fc.accept || err != nil { yield(fc.val, err) }` in front of a recording consumer *)
Definition filter_step (c : list (res V)) (r : res (V * bool)) : list (res V) :=
  match r with
  | ROk (x, true) => c ++ [ROk x]
  | ROk (_, false) => c
  | RErr => c ++ [RErr]
  end.
Definition filter_yield (c : list (res V)) (r : res (V * bool)) : list (res V) * bool := (filter_step c r, true).

(* iterator.Filter, the sequential meaning: what a recording consumer is given *)
Fixpoint seq_filter (items : list (res V)) : list (res V) :=
  match items with
  | [] => []
  | RErr :: r => RErr :: seq_filter r
  | ROk v :: r =>
      match accept v with
      | ROk true => ROk v :: seq_filter r
      | ROk false => seq_filter r
      | RErr => RErr :: seq_filter r
      end
  end.

(* the same in front of a consumer that stops early: rejected items never reach it *)
Definition filter_stop_yield (stopf : list (res V) -> bool) (c : list (res V)) (r : res (V * bool)) : list (res V) * bool :=
  (filter_step c r, match r with ROk (_, false) => true | _ => negb (stopf (filter_step c r)) end).

Definition filter_auto_run (k : nat) (decide : bool) (nw : nat) (sched : list choice) (items : list (res V)) : ma_state :=
  map_auto_run filter_mapper filter_yield k decide nw sched items [].
End FilterAuto.

(* schedules from a seed (linear congruential generator), used by the correspondence run *)
Fixpoint gen_sched (n : nat) (nw : N) (seed : N) : list choice :=
  match n with
  | O => []
  | S n' =>
      let s' := N.modulo (seed * 1103515245 + 12345) 2147483648 in
      let w := N.to_nat (N.modulo (N.div s' 8) nw) in
      (match N.modulo (N.div s' 2048) 8 with
       | 0 | 1 | 2 | 3 => Feed w
       | 7 => SeeDone
       | _ => Deliver w
       end) :: gen_sched n' nw s'
  end%N.
