(* What is left running after a list stage has been stopped (C12, list half).
   Definitions only; proofs are in Conc/TokChanProofs.v. *)
From P2 Require Import Base.Prelude Conc.ParMap.
Set Implicit Arguments.

(* ---------------------------------------------------------------------------------------------
   iterator.ToChan (github.com/hneemann/iterator), the producer goroutine behind list.merge:

     go func() { i := 0
                 for v, err := range it {
                     select { case c <- container{i, v, err}: i++
                              case <-done: break }          // leaves the select, NOT the loop
                 }
                 close(c) }()

   After the consumer has stopped (iterator.Merge closes `done` and never receives again) every further
   iteration takes the `<-done` case and the loop goes on asking the source for the next item until the
   source is exhausted.  value/list.go (after `fix: merge stops reading its lists when the consumer
   stops`) wraps the source: the wrapped source stops producing when the flag `stopped` is set, which
   happens before `done` is closed.

   Modelled from the moment the consumer has stopped: the state is the number of items the source can
   still produce; one step = one iteration of the range loop (the source computes one item), or the
   final close.  tochan_steps counts the steps until the goroutine has returned. *)
Fixpoint tochan_steps (wrapped : bool) (remaining : nat) : nat :=
  match remaining with
  | O => 1                                  (* the range ends; close(c); return *)
  | S r =>
      if wrapped
      then 2                                (* the source computes one item, its consumer sees `stopped` and
                                               returns false: the range ends; close(c); return *)
      else S (tochan_steps wrapped r)       (* select takes <-done, break, next iteration *)
  end.

(* ---------------------------------------------------------------------------------------------
   iterator.initParallel (Conc/ParMap.v) after the collector goroutine has returned: it returns when
   the downstream consumer says stop (alive = false).  Nobody receives from `result` any more, so a
   worker that holds a result (Some r: it is executing `result <- r` on the unbuffered channel) stays
   there under every schedule; the goroutine `wg.Wait(); close(result)` waits for it forever. *)
Section Quiesce.
Context {A B C : Type}.

(* every goroutine of the stage has returned: the feeder has left its loop (source closed), no worker
   holds a result (workers waiting on the closed `source` return) *)
Definition quiet (s : pstate (A := A) (B := B) (C := C)) : bool :=
  feederDone s && forallb idle (workers s).

(* goroutines of the stage that can never return once the collector is gone:
   the workers blocked in the send, and the wg.Wait goroutine if there is such a worker *)
Definition left_behind (s : pstate (A := A) (B := B) (C := C)) : nat :=
  let b := length (filter (fun w => negb (idle w)) (workers s)) in
  if alive (col s) then 0 else if Nat.eqb b 0 then 0 else S b.

End Quiesce.

(* a consumer that takes n items and then stops (first, top(n), present ... ) *)
Definition take_yield {B} (n : nat) (c : list (res B)) (x : res B) : list (res B) * bool :=
  (c ++ [x], Nat.ltb (S (length c)) n).

(* ---------------------------------------------------------------------------------------------
   The producing side of multiUse (iterator.CopyProducer run) and of a parallel map/accept (the feeding loop of
   iterator.MapAuto / FilterAuto) iterates the source list on the CALLING goroutine and closes the channels its
   goroutines wait on only behind that loop.  A panic raised by the source (the stack limit hit in the closure of an
   upstream combine/number stage, a panicking host function) unwinds the loop before the close.  value/multiUse.go and
   value/list.go (after `fix: a panic raised by the list that multiUse reads ...` and `... that a parallel map or accept
   reads ...`) wrap the source in recoverInProducer: the panic arrives as the error of a final element and the loop
   ends normally.
   waiting = goroutines that wait on those channels (multiUse: the consumers; parallel stage: workers, the wg.Wait
   goroutine and the collector); the result is how many of them can never return. *)
Inductive src_ev := EvItem | EvPanic.

Fixpoint stranded (recovered : bool) (waiting : nat) (evs : list src_ev) : nat :=
  match evs with
  | [] => 0                                        (* the loop ends: channels closed *)
  | EvItem :: r => stranded recovered waiting r
  | EvPanic :: _ => if recovered then 0 else waiting
  end.

(* ---------------------------------------------------------------------------------------------
   How List.Merge (value/list.go) is left, and whether the flag `stopped` that ends its two reader goroutines is set:
   the consumer wrapper sets it when the consumer says stop; otherwise it is set when the merged producer is left -
   by `defer stopped.Store(true)` on EVERY exit path, a panic on the evaluating goroutine included (raised by the less
   function or by the closure of the consuming stage: stack guard, panicking host function).  A plain store behind
   the call is skipped by a panic. *)
Inductive mexit := MConsumerStops | MReturns | MPanics.

Definition merge_flag_set (deferred : bool) (e : mexit) : bool :=
  match e with
  | MConsumerStops | MReturns => true
  | MPanics => deferred
  end.

(* steps until a reader goroutine of merge has returned, from the moment merge is left *)
Definition merge_reader_steps (deferred : bool) (e : mexit) (remaining : nat) : nat :=
  tochan_steps (merge_flag_set deferred e) remaining.
