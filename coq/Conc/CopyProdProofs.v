(* multiUse / CopyProducer: under every schedule of the producer and the consumers every consumer is given the items of
   the source, errors included, in source order (a prefix at any moment, the whole sequence at the end); no deadlock. *)
From P2 Require Import Base.Prelude Conc.ParMap Conc.CopyProd Conc.MapAutoProofs.
From Coq Require Import Lia.

Section CopyProofs.
Context {V : Type}.
Variable ncons : nat.
Notation cstate := (@cstate V).
Notation cstep := (@cstep V ncons).
Notation crun := (@crun V ncons).

Lemma nth_set_eq : forall (X : Type) j (v : X) l, j < length l -> nth_error (set_nth j v l) j = Some v.
Proof. intros X j v l. revert j. induction l as [|y l IH]; intros [|j] H; cbn in *; try lia; [reflexivity|apply IH; lia]. Qed.

Lemma nth_set_neq : forall (X : Type) j k (v : X) l, j <> k -> nth_error (set_nth j v l) k = nth_error l k.
Proof.
  intros X j k v l. revert j k. induction l as [|y l IH]; intros [|j] [|k] H; cbn; try reflexivity; try lia.
  apply IH. lia.
Qed.

Definition cur_item (m : cstate) : list (res V) := match ccur m with Some (x, _) => [x] | None => [] end.
Definition expected (m : cstate) (j : nat) : list (res V) :=
  match ccur m with Some (x, i) => if Nat.ltb j i then cfed m ++ [x] else cfed m | None => cfed m end.

Variable source : list (res V).

Definition cinv (m : cstate) : Prop :=
  length (ccs m) = ncons /\
  source = cfed m ++ cur_item m ++ csrc m /\
  (forall x j, ccur m = Some (x, j) -> j < ncons) /\
  (forall j log b, nth_error (ccs m) j = Some (log, b) -> log = expected m j) /\
  (cclosed m = true -> csrc m = [] /\ ccur m = None).

Lemma cinv_step : forall m ch, cinv m -> cinv (cstep m ch).
Proof.
  intros [src cur cs cl fed] ch Hm. pose proof Hm as (Hlen & Hsrc & Hcur & Hlogs & Hcl).
  unfold cur_item, expected in Hlen, Hsrc, Hcur, Hlogs, Hcl. cbn [ccs csrc ccur cclosed cfed] in Hlen, Hsrc, Hcur, Hlogs, Hcl.
  destruct ch as [| |j]; cbn [CopyProd.cstep ccs csrc ccur cclosed cfed].
  - destruct cur as [[x i]|]; [exact Hm|]. destruct cl; [exact Hm|].
    destruct src as [|x r].
    + unfold cinv, cur_item, expected. cbn [ccs csrc ccur cclosed cfed]. repeat split; auto; intros; discriminate.
    + unfold norm. destruct (Nat.ltb_spec 0 ncons) as [Hn|Hn]; unfold cinv, cur_item, expected; cbn [ccs csrc ccur cclosed cfed].
      * split; [exact Hlen|]. split; [exact Hsrc|]. split; [intros y j H; injection H as <- <-; exact Hn|].
        split; [|intro; discriminate]. intros j log b H. rewrite (Hlogs j log b H). reflexivity.
      * split; [exact Hlen|]. split; [rewrite Hsrc, <- app_assoc; reflexivity|]. split; [intros; discriminate|].
        split; [|intro; discriminate]. intros j log b H. assert (j < length cs) by (apply nth_error_Some; congruence). lia.
  - destruct cur as [[x i]|]; [|exact Hm].
    destruct (nth_error cs i) as [[log [|]]|] eqn:Hi; try exact Hm.
    assert (Hi_lt : i < ncons) by (apply (Hcur x i eq_refl)).
    pose proof (Hlogs i log false Hi) as Hlog. rewrite Nat.ltb_irrefl in Hlog. subst log.
    unfold norm. destruct (Nat.ltb_spec (S i) ncons) as [Hn|Hn]; unfold cinv, cur_item, expected; cbn [ccs csrc ccur cclosed cfed].
    + split; [rewrite set_nth_length; exact Hlen|]. split; [exact Hsrc|]. split; [intros y j H; injection H as <- <-; exact Hn|].
      split; [|intro H; destruct (Hcl H) as (_ & Hx); discriminate]. intros j log b H. destruct (Nat.eq_dec i j) as [<-|Hne].
      * rewrite nth_set_eq in H by lia. injection H as <- <-. destruct (Nat.ltb_spec i (S i)); [reflexivity|lia].
      * rewrite nth_set_neq in H by exact Hne. rewrite (Hlogs j log b H).
        destruct (Nat.ltb_spec j i), (Nat.ltb_spec j (S i)); try reflexivity; lia.
    + split; [rewrite set_nth_length; exact Hlen|]. split; [rewrite Hsrc, <- !app_assoc; reflexivity|]. split; [intros; discriminate|].
      split; [|intro H; destruct (Hcl H) as (_ & Hx); discriminate]. intros j log b H. destruct (Nat.eq_dec i j) as [<-|Hne].
      * rewrite nth_set_eq in H by lia. injection H as <- <-. reflexivity.
      * rewrite nth_set_neq in H by exact Hne. rewrite (Hlogs j log b H).
        assert (j < ncons) by (rewrite <- Hlen; apply nth_error_Some; congruence).
        destruct (Nat.ltb_spec j i); [reflexivity|lia].
  - destruct (nth_error cs j) as [[log [|]]|] eqn:Hj; try exact Hm.
    unfold cinv, cur_item, expected; cbn [ccs csrc ccur cclosed cfed].
    split; [rewrite set_nth_length; exact Hlen|]. split; [exact Hsrc|]. split; [exact Hcur|]. split; [|exact Hcl].
    intros k log' b H. destruct (Nat.eq_dec j k) as [<-|Hne].
    + rewrite nth_set_eq in H by (apply nth_error_Some; congruence). injection H as <- <-. apply (Hlogs j log true Hj).
    + rewrite nth_set_neq in H by exact Hne. apply (Hlogs k log' b H).
Qed.

Lemma cinv_run : forall sched m, cinv m -> cinv (crun m sched).
Proof. induction sched as [|ch sched IH]; intros m H; [exact H|]. cbn [CopyProd.crun fold_left]. apply IH, cinv_step, H. Qed.
End CopyProofs.

Section CopyFinal.
Context {V : Type}.
Variable ncons : nat.
Notation cstate := (@cstate V).
Notation cstep := (@cstep V ncons).
Notation crun := (@crun V ncons).

Lemma cinv_init : forall source : list (res V), cinv ncons source (cinit ncons source).
Proof.
  intro source. unfold cinv, cinit, cur_item, expected. cbn [ccs csrc ccur cclosed cfed].
  split; [apply repeat_length|]. split; [reflexivity|]. split; [intros; discriminate|]. split; [|intro; discriminate].
  intros j log b H. apply nth_error_In, repeat_spec in H. injection H as -> _. reflexivity.
Qed.

(* every consumer, at every moment of every schedule, has been given a prefix of the source; at the end the whole
   source - errors are items like the others - in order *)
Lemma multi_use_each_sees_source_lem : forall (source : list (res V)) sched,
  let m := crun (cinit ncons source) sched in
  (forall j log b, nth_error (ccs m) j = Some (log, b) -> is_prefix log source) /\
  (ccomplete m = true -> forall j, j < ncons -> nth_error (ccs m) j = Some (source, false)).
Proof.
  intros source sched m. destruct (cinv_run ncons source sched _ (cinv_init source)) as (Hlen & Hsrc & Hcur & Hlogs & Hcl).
  fold m in Hlen, Hsrc, Hcur, Hlogs, Hcl. split.
  - intros j log b H. rewrite (Hlogs j log b H), Hsrc. unfold expected, cur_item.
    destruct (ccur m) as [[x i]|]; [destruct (j <? i)|].
    + exists (csrc m). rewrite <- app_assoc. reflexivity.
    + exists ([x] ++ csrc m). reflexivity.
    + exists (csrc m). reflexivity.
  - intros Hc j Hj. unfold ccomplete in Hc. apply andb_true_iff in Hc. destruct Hc as (Hc & Hidle).
    apply andb_true_iff in Hc. destruct Hc as (Hclosed & Hnone).
    destruct (Hcl Hclosed) as (Hs & Hcn). 
    destruct (nth_error (ccs m) j) as [[log b]|] eqn:Hn; [|apply nth_error_None in Hn; lia].
    rewrite (Hlogs j log b Hn). unfold expected. rewrite Hcn.
    unfold cur_item in Hsrc. rewrite Hcn, Hs, !app_nil_r in Hsrc. rewrite <- Hsrc.
    rewrite forallb_forall in Hidle. specialize (Hidle _ (nth_error_In _ _ Hn)). cbn in Hidle. destruct b; [discriminate|reflexivity].
Qed.

(* ---- no deadlock ----------------------------------------------------------------------------------------- *)
Lemma cstep_disabled : forall (m : cstate) ch, cenabled m ch = false -> cstep m ch = m.
Proof.
  intros [src cur cs cl fed] ch H. destruct ch as [| |j]; cbn [cenabled CopyProd.cstep ccs csrc ccur cclosed cfed] in *.
  - destruct cur as [[x i]|]; [reflexivity|]. destruct cl; [reflexivity|discriminate].
  - destruct cur as [[x i]|]; [|reflexivity]. destruct (nth_error cs i) as [[log [|]]|]; try reflexivity. discriminate.
  - destruct (nth_error cs j) as [[log [|]]|]; try reflexivity. discriminate.
Qed.

Lemma nbusy_set_true : forall (cs : list (list (res V) * bool)) j l l', nth_error cs j = Some (l, false) ->
  nbusy (set_nth j (l', true) cs) = S (nbusy cs).
Proof.
  unfold nbusy. induction cs as [|[l0 b0] cs IH]; intros [|j] l l' H; cbn [nth_error] in H; try discriminate.
  - injection H as -> ->. reflexivity.
  - cbn [set_nth filter snd]. destruct b0; cbn [length]; rewrite (IH j l l' H); reflexivity.
Qed.

Lemma nbusy_set_false : forall (cs : list (list (res V) * bool)) j l l', nth_error cs j = Some (l, true) ->
  S (nbusy (set_nth j (l', false) cs)) = nbusy cs.
Proof.
  unfold nbusy. induction cs as [|[l0 b0] cs IH]; intros [|j] l l' H; cbn [nth_error] in H; try discriminate.
  - injection H as -> ->. reflexivity.
  - cbn [set_nth filter snd]. destruct b0; cbn [length]; rewrite <- (IH j l l' H); reflexivity.
Qed.

Lemma cstep_enabled : forall (m : cstate) ch, length (ccs m) = ncons -> cenabled m ch = true ->
  cmeasure ncons (cstep m ch) < cmeasure ncons m.
Proof.
  intros [src cur cs cl fed] ch Hlen H. unfold cmeasure.
  destruct ch as [| |j]; cbn [cenabled CopyProd.cstep ccs csrc ccur cclosed cfed] in *.
  - destruct cur as [[x i]|]; [discriminate|]. destruct cl; [discriminate|]. destruct src as [|x r].
    + cbn [ccs csrc ccur cclosed cfed length]. lia.
    + unfold norm. destruct (Nat.ltb_spec 0 ncons); cbn [ccs csrc ccur cclosed cfed length]; lia.
  - destruct cur as [[x i]|]; [|discriminate]. destruct (nth_error cs i) as [[log [|]]|] eqn:Hi; try discriminate.
    assert (i < ncons) by (rewrite <- Hlen; apply nth_error_Some; congruence).
    unfold norm. destruct (Nat.ltb_spec (S i) ncons); cbn [ccs csrc ccur cclosed cfed];
      rewrite (nbusy_set_true _ _ _ (log ++ [x]) Hi); lia.
  - destruct (nth_error cs j) as [[log [|]]|] eqn:Hj; try discriminate.
    cbn [ccs csrc ccur cclosed cfed]. rewrite <- (nbusy_set_false _ _ _ log Hj). lia.
Qed.

Lemma busy_exists : forall cs : list (list (res V) * bool), forallb (fun c => negb (snd c)) cs = false ->
  exists j log, nth_error cs j = Some (log, true).
Proof.
  induction cs as [|[l b] cs IH]; intro H; [discriminate|]. cbn [forallb snd] in H.
  destruct b; [exists 0, l; reflexivity|]. cbn in H. destruct (IH H) as (j & log & Hj). exists (S j), log. exact Hj.
Qed.

Lemma cprogress : forall (source : list (res V)) (m : cstate), cinv ncons source m -> ccomplete m = false -> exists ch, cenabled m ch = true.
Proof.
  intros source m (Hlen & _ & Hcur & _ & _) Hc.
  destruct (forallb (fun c => negb (snd c)) (ccs m)) eqn:Hidle.
  - destruct (ccur m) as [[x i]|] eqn:Hcu.
    + exists CSend. cbn [cenabled]. rewrite Hcu. pose proof (Hcur x i eq_refl) as Hi.
      destruct (nth_error (ccs m) i) as [[log b]|] eqn:Hn; [|apply nth_error_None in Hn; lia].
      rewrite forallb_forall in Hidle. specialize (Hidle _ (nth_error_In _ _ Hn)). cbn in Hidle. destruct b; [discriminate|reflexivity].
    + exists CPull. cbn [cenabled]. rewrite Hcu. unfold ccomplete in Hc. rewrite Hcu, Hidle in Hc.
      destruct (cclosed m); [discriminate|reflexivity].
  - destruct (busy_exists _ Hidle) as (j & log & Hj). exists (CReady j). cbn [cenabled]. rewrite Hj. reflexivity.
Qed.

Lemma ccomplete_exists : forall (source : list (res V)) n (m : cstate), cmeasure ncons m <= n -> cinv ncons source m ->
  exists sched, length sched <= n /\ ccomplete (crun m sched) = true.
Proof.
  intros source. induction n as [|n IH]; intros m Hm Hi.
  - destruct (ccomplete m) eqn:Hc; [exists []; split; [reflexivity|exact Hc]|].
    destruct (cprogress source m Hi Hc) as (ch & Hen). apply cstep_enabled in Hen; [lia|apply Hi].
  - destruct (ccomplete m) eqn:Hc; [exists []; split; [cbn; lia|exact Hc]|].
    destruct (cprogress source m Hi Hc) as (ch & Hen). pose proof (cstep_enabled m ch (proj1 Hi) Hen).
    destruct (IH (cstep m ch)) as (sched & Hl & Hd); [lia|apply cinv_step; exact Hi|].
    exists (ch :: sched). split; [cbn; lia|exact Hd].
Qed.

Fixpoint call_enabled (m : cstate) (sched : list cchoice) : bool :=
  match sched with [] => true | ch :: r => cenabled m ch && call_enabled (cstep m ch) r end.

Lemma cenabled_bounded : forall (source : list (res V)) sched (m : cstate), cinv ncons source m -> call_enabled m sched = true ->
  length sched + cmeasure ncons (crun m sched) <= cmeasure ncons m.
Proof.
  intros source. induction sched as [|ch sched IH]; intros m Hi H; [cbn; lia|]. cbn [call_enabled] in H. apply andb_true_iff in H.
  destruct H as (Hen & Hrest). specialize (IH _ (cinv_step ncons source m ch Hi) Hrest).
  pose proof (cstep_enabled m ch (proj1 Hi) Hen). cbn [length CopyProd.crun fold_left] in *. unfold CopyProd.crun in IH. lia.
Qed.

Lemma multi_use_no_deadlock_lem : forall (source : list (res V)) sched,
  let m := crun (cinit ncons source) sched in
  (exists sched', ccomplete (crun (cinit ncons source) (sched ++ sched')) = true) /\
  (ccomplete m = false -> exists ch, cenabled m ch = true) /\
  (forall more, call_enabled m more = true -> length more <= cmeasure ncons m).
Proof.
  intros source sched m. pose proof (cinv_run ncons source sched _ (cinv_init source)) as Hi. fold m in Hi. split; [|split].
  - destruct (ccomplete_exists source _ m (le_n _) Hi) as (sched' & _ & Hd). exists sched'.
    unfold CopyProd.crun in *. rewrite fold_left_app. exact Hd.
  - apply (cprogress source). exact Hi.
  - intros more H. pose proof (cenabled_bounded source more m Hi H). lia.
Qed.
End CopyFinal.
