(* Proofs about Conc/TokChan.v (tokenizer goroutine x parser) and Conc/Quiesce.v (what list stages leave
   behind).  Used by Props/C04.v and Props/C12.v. *)
From P2 Require Import Base.Prelude Conc.ParMap Conc.Quiesce Conc.TokChan.
Require Import Lia.

Ltac inv_some :=
  repeat match goal with
  | H : Some _ = Some _ |- _ => inversion H; subst; clear H
  | H : None = Some _ |- _ => discriminate H
  end.

Section Proofs.
Variable T : Type.

(* closing is the tokenizer's last action: nothing is unsent afterwards *)
Definition inv (s : sys T) : Prop := closed s = true -> unsent s = [].
(* with the drain, Parse returns to its caller only after it has seen the channel closed *)
Definition inv_d (s : sys T) : Prop := inv s /\ (cs s = CRet -> closed s = true).

Lemma inv_init : forall toks k, inv_d (init toks k).
Proof. intros toks k; split; [intro H | intro H]; cbn in *; discriminate. Qed.

(* ---- one step ---- *)
Lemma step_inv : forall drain (s s' : sys T) a, inv s -> step drain s a = Some s' -> inv s'.
Proof.
  intros drain [u c k g] s' a Hi Hs. unfold inv in *. cbn in *.
  destruct a; cbn in Hs.
  - destruct c; [discriminate|]. destruct u as [|t r]; [discriminate|].
    destruct (wants k); inv_some. cbn. intro; discriminate.
  - destruct c; [discriminate|]. destruct u; inv_some. cbn. reflexivity.
  - destruct c; [|discriminate]. destruct k as [[|j]| |]; inv_some. cbn. intros _. apply Hi. reflexivity.
  - destruct k as [[|j]| |]; inv_some. cbn. exact Hi.
  - destruct c; [|discriminate]. destruct k; inv_some. cbn. intros _. apply Hi. reflexivity.
Qed.

Lemma step_inv_d : forall (s s' : sys T) a, inv_d s -> step true s a = Some s' -> inv_d s'.
Proof.
  intros s s' a [Hi Hr] Hs. split; [eapply step_inv; eauto|].
  destruct s as [u c k g]. cbn in *. destruct a; cbn in Hs.
  - destruct c; [discriminate|]. destruct u as [|t r]; [discriminate|].
    destruct k as [[|j]| |]; cbn in Hs; inv_some; cbn; intro; discriminate.
  - destruct c; [discriminate|]. destruct u; inv_some. cbn. reflexivity.
  - destruct c; [|discriminate]. destruct k as [[|j]| |]; inv_some. cbn. reflexivity.
  - destruct k as [[|j]| |]; inv_some. cbn. intro; discriminate.
  - destruct c; [|discriminate]. destruct k; inv_some. cbn. reflexivity.
Qed.

(* every action of the repaired system lowers the measure by exactly one *)
Lemma step_mu : forall (s s' : sys T) a, inv s -> step true s a = Some s' -> mu s = S (mu s').
Proof.
  intros [u c k g] s' a Hi Hs. unfold inv in Hi. cbn in Hi. destruct a; cbn in Hs.
  - destruct c; [discriminate|]. destruct u as [|t r]; [discriminate|].
    destruct k as [[|j]| |]; cbn in Hs; inv_some; unfold mu; cbn; lia.
  - destruct c; [discriminate|]. destruct u; inv_some. unfold mu; cbn. destruct k; lia.
  - destruct c; [|discriminate]. rewrite (Hi eq_refl) in *. destruct k as [[|j]| |]; inv_some. unfold mu; cbn. lia.
  - destruct k as [[|j]| |]; inv_some. unfold mu; cbn. destruct c; lia.
  - destruct c; [|discriminate]. destruct k; inv_some. unfold mu; cbn. lia.
Qed.

(* without the drain an action lowers it by one or two *)
Lemma step_mu_nodrain : forall (s s' : sys T) a, inv s -> step false s a = Some s' -> mu s' < mu s.
Proof.
  intros [u c k g] s' a Hi Hs. unfold inv in Hi. cbn in Hi. destruct a; cbn in Hs.
  - destruct c; [discriminate|]. destruct u as [|t r]; [discriminate|].
    destruct k as [[|j]| |]; cbn in Hs; inv_some; unfold mu; cbn; lia.
  - destruct c; [discriminate|]. destruct u; inv_some. unfold mu; cbn. destruct k; lia.
  - destruct c; [|discriminate]. rewrite (Hi eq_refl) in *. destruct k as [[|j]| |]; inv_some. unfold mu; cbn. lia.
  - destruct k as [[|j]| |]; inv_some. unfold mu; cbn. destruct c; lia.
  - destruct c; [|discriminate]. destruct k; inv_some. unfold mu; cbn. lia.
Qed.

(* the measure is zero exactly in the final state *)
Lemma mu_zero_final : forall s : sys T, inv_d s -> (mu s = 0 <-> final s = true).
Proof.
  intros [u c k g] [Hi Hr]. unfold inv in Hi. cbn in *. unfold mu, final. cbn. split.
  - intro H. destruct c; [|lia]. destruct k; try lia; try reflexivity.
  - intro H. destruct c; [|discriminate]. destruct k; try discriminate. rewrite (Hi eq_refl). reflexivity.
Qed.

(* progress: in every state of the repaired system that is not final, something can happen;
   more precisely one of the five actions, chosen by the state alone *)
Lemma progress : forall s : sys T, inv_d s -> final s = false -> exists a s', step true s a = Some s'.
Proof.
  intros [u c k g] [Hi Hr] Hf. unfold inv in Hi. cbn in *. unfold final in Hf. cbn in Hf.
  destruct c.
  - (* closed *) rewrite (Hi eq_refl). destruct k as [[|j]| |].
    + exists AReturn. eexists. reflexivity.
    + exists ARecvEof. eexists. reflexivity.
    + exists ADrainEnd. eexists. reflexivity.
    + discriminate.
  - (* open *) destruct u as [|t r].
    + exists AClose. eexists. reflexivity.
    + destruct k as [[|j]| |].
      * exists AReturn. eexists. reflexivity.
      * exists ASync. eexists. reflexivity.
      * exists ASync. eexists. reflexivity.
      * specialize (Hr eq_refl). discriminate.
Qed.

(* the consumer never waits in vain: whenever it is in a receive (parser or drain loop), the tokenizer's
   next action is the matching send or the close, or the channel is already closed and the receive returns *)
Lemma no_blocking_lem : forall (s : sys T) c', inv s -> wants (cs s) = Some c' ->
  (exists s', step true s ASync = Some s') \/ (exists s', step true s AClose = Some s')
  \/ (exists s', step true s ARecvEof = Some s') \/ (exists s', step true s ADrainEnd = Some s').
Proof.
  intros [u c k g] c' Hi Hw. unfold inv in Hi. cbn in *. destruct c.
  - rewrite (Hi eq_refl). destruct k as [[|j]| |]; cbn in Hw; try discriminate.
    + right. right. left. eexists. reflexivity.
    + right. right. right. eexists. reflexivity.
  - destruct u as [|t r].
    + right. left. eexists. reflexivity.
    + left. cbn. rewrite Hw. eexists. reflexivity.
Qed.

(* ---- runs ---- *)
Lemma run_inv_d : forall tr (s s' : sys T), inv_d s -> run true s tr = Some s' -> inv_d s'.
Proof.
  induction tr as [|a tr IH]; intros s s' Hi Hr; cbn in Hr.
  - inv_some. exact Hi.
  - destruct (step true s a) as [s1|] eqn:E; [|discriminate]. eapply IH; [|exact Hr]. eapply step_inv_d; eauto.
Qed.

Lemma run_inv : forall drain tr (s s' : sys T), inv s -> run drain s tr = Some s' -> inv s'.
Proof.
  induction tr as [|a tr IH]; intros s s' Hi Hr; cbn in Hr.
  - inv_some. exact Hi.
  - destruct (step drain s a) as [s1|] eqn:E; [|discriminate]. eapply IH; [|exact Hr]. eapply step_inv; eauto.
Qed.

Lemma run_mu : forall tr (s s' : sys T), inv_d s -> run true s tr = Some s' -> mu s = length tr + mu s'.
Proof.
  induction tr as [|a tr IH]; intros s s' Hi Hr; cbn in Hr.
  - inv_some. reflexivity.
  - destruct (step true s a) as [s1|] eqn:E; [|discriminate].
    rewrite (step_mu _ _ _ (proj1 Hi) E). rewrite (IH s1 s' (step_inv_d _ _ _ Hi E) Hr). cbn. reflexivity.
Qed.

Lemma run_mu_nodrain : forall tr (s s' : sys T), inv s -> run false s tr = Some s' -> length tr + mu s' <= mu s.
Proof.
  induction tr as [|a tr IH]; intros s s' Hi Hr; cbn in Hr.
  - inv_some. cbn. lia.
  - destruct (step false s a) as [s1|] eqn:E; [|discriminate].
    pose proof (step_mu_nodrain _ _ _ Hi E). pose proof (IH s1 s' (step_inv _ _ _ _ Hi E) Hr). cbn. lia.
Qed.

Lemma mu_init : forall (toks : list T) k, mu (init toks k) = Nat.max (length toks) k + 3.
Proof. intros. unfold mu, init. cbn. lia. Qed.

(* a complete run exists from every state of the repaired system, and it has exactly mu s actions *)
Lemma complete_run_exists : forall n (s : sys T), inv_d s -> mu s = n ->
  exists tr s', run true s tr = Some s' /\ final s' = true /\ length tr = n.
Proof.
  induction n as [|n IH]; intros s Hi Hm.
  - exists [], s. split; [reflexivity|]. split; [|reflexivity]. apply mu_zero_final; assumption.
  - destruct (final s) eqn:Hf.
    + apply mu_zero_final in Hf; [lia|assumption].
    + destruct (progress _ Hi Hf) as [a [s1 E]].
      pose proof (step_mu _ _ _ (proj1 Hi) E) as Hm1.
      destruct (IH s1 (step_inv_d _ _ _ Hi E)) as [tr [s' [Hr [Hfin Hl]]]]; [lia|].
      exists (a :: tr), s'. split; [cbn; rewrite E; exact Hr|]. split; [exact Hfin|]. cbn. lia.
Qed.

(* ghost counter: tokens handed over + tokens unsent = all tokens *)
Lemma step_got : forall drain (s s' : sys T) a, step drain s a = Some s' ->
  got s' + length (unsent s') = got s + length (unsent s).
Proof.
  intros drain [u c k g] s' a Hs. destruct a; cbn in Hs.
  - destruct c; [discriminate|]. destruct u as [|t r]; [discriminate|]. destruct (wants k); inv_some. cbn. lia.
  - destruct c; [discriminate|]. destruct u; inv_some. reflexivity.
  - destruct c; [|discriminate]. destruct k as [[|j]| |]; inv_some. reflexivity.
  - destruct k as [[|j]| |]; inv_some. reflexivity.
  - destruct c; [|discriminate]. destruct k; inv_some. reflexivity.
Qed.

Lemma run_got : forall drain tr (s s' : sys T), run drain s tr = Some s' ->
  got s' + length (unsent s') = got s + length (unsent s).
Proof.
  induction tr as [|a tr IH]; intros s s' Hr; cbn in Hr.
  - inv_some. reflexivity.
  - destruct (step drain s a) as [s1|] eqn:E; [|discriminate]. rewrite (IH _ _ Hr). eapply step_got; eauto.
Qed.

(* ---- the repaired Parse: every interleaving ends with both goroutines returned ---- *)
Theorem parse_cannot_deadlock_lem : forall (toks : list T) k tr s,
  run true (init toks k) tr = Some s ->
  final s = true \/ exists a s', step true s a = Some s'.
Proof.
  intros toks k tr s Hr. pose proof (run_inv_d _ _ _ (inv_init toks k) Hr) as Hi.
  destruct (final s) eqn:Hf; [left; reflexivity|right; apply progress; assumption].
Qed.

Theorem no_blocking_run : forall (toks : list T) k tr s c',
  run true (init toks k) tr = Some s -> wants (cs s) = Some c' ->
  (exists s', step true s ASync = Some s') \/ (exists s', step true s AClose = Some s')
  \/ (exists s', step true s ARecvEof = Some s') \/ (exists s', step true s ADrainEnd = Some s').
Proof.
  intros toks k tr s c' Hr Hw. eapply no_blocking_lem; [|exact Hw].
  exact (proj1 (run_inv_d _ _ _ (inv_init toks k) Hr)).
Qed.

Theorem drain_terminates_producer_lem : forall (toks : list T) k,
  (* every schedule: its length is bounded, and when nothing more can happen both goroutines have
     returned and every token has been received *)
  (forall tr s, run true (init toks k) tr = Some s ->
     length tr <= Nat.max (length toks) k + 3
     /\ (length tr = Nat.max (length toks) k + 3 <-> final s = true)
     /\ (stuck true s -> closed s = true /\ cs s = CRet /\ got s = length toks))
  (* and there is a schedule that gets there *)
  /\ exists tr s, run true (init toks k) tr = Some s /\ final s = true.
Proof.
  intros toks k. split.
  - intros tr s Hr.
    pose proof (run_inv_d _ _ _ (inv_init toks k) Hr) as Hi.
    pose proof (run_mu _ _ _ (inv_init toks k) Hr) as Hm. rewrite mu_init in Hm.
    pose proof (mu_zero_final _ Hi) as Hz.
    split; [lia|]. split.
    + split; intro H; [apply Hz; lia|]. apply Hz in H. lia.
    + intro Hst. assert (Hf : final s = true).
      { destruct (final s) eqn:Hf; [reflexivity|]. destruct (progress _ Hi Hf) as [a [s1 E]]. rewrite (Hst a) in E. discriminate. }
      unfold final in Hf. apply andb_prop in Hf. destruct Hf as [Hc Hk].
      split; [exact Hc|]. split; [destruct (cs s); try discriminate; reflexivity|].
      pose proof (run_got _ _ _ _ Hr) as Hg. cbn in Hg. rewrite (proj1 Hi Hc) in Hg. cbn in Hg. lia.
  - destruct (complete_run_exists _ _ (inv_init toks k) eq_refl) as [tr [s [Hr [Hf _]]]]. exists tr, s. split; assumption.
Qed.

(* ---- Parse before the repair (no drain) ---- *)
(* while the channel is open every receive of the parser got a token *)
Definition inv_n (k0 : nat) (s : sys T) : Prop :=
  match cs s with
  | CParse j => got s + j <= k0 /\ (closed s = false -> got s + j = k0)
  | CDrain => False
  | CRet => got s <= k0 /\ (closed s = false -> got s = k0)
  end.

Lemma step_inv_n : forall k0 (s s' : sys T) a, inv_n k0 s -> step false s a = Some s' -> inv_n k0 s'.
Proof.
  intros k0 [u c k g] s' a Hn Hs. unfold inv_n in *. cbn in *. destruct a; cbn in Hs.
  - destruct c; [discriminate|]. destruct u as [|t r]; [discriminate|].
    destruct k as [[|j]| |]; cbn in Hs; inv_some; cbn; try contradiction. destruct Hn as [H1 H2]. specialize (H2 eq_refl). lia.
  - destruct c; [discriminate|]. destruct u; inv_some. cbn. destruct k; try contradiction; (split; [lia|intro; discriminate]).
  - destruct c; [|discriminate]. destruct k as [[|j]| |]; inv_some. cbn. split; [lia|intro; discriminate].
  - destruct k as [[|j]| |]; inv_some. cbn. destruct Hn as [H1 H2]. split; [lia|]. intro H. specialize (H2 H). lia.
  - destruct c; [|discriminate]. destruct k; inv_some. contradiction.
Qed.

Lemma run_inv_n : forall k0 tr (s s' : sys T), inv_n k0 s -> run false s tr = Some s' -> inv_n k0 s'.
Proof.
  induction tr as [|a tr IH]; intros s s' Hi Hr; cbn in Hr.
  - inv_some. exact Hi.
  - destruct (step false s a) as [s1|] eqn:E; [|discriminate]. eapply IH; [|exact Hr]. eapply step_inv_n; eauto.
Qed.

Theorem leak_iff_unsent_without_drain_lem : forall (toks : list T) k tr s,
  run false (init toks k) tr = Some s ->
  length tr <= Nat.max (length toks) k + 3
  /\ (stuck false s -> (closed s = false <-> k < length toks)).
Proof.
  intros toks k tr s Hr.
  assert (Hi0 : inv (init toks k)) by (intro H; discriminate H).
  split.
  { pose proof (run_mu_nodrain _ _ _ Hi0 Hr) as H. rewrite mu_init in H. lia. }
  intro Hst.
  pose proof (run_inv _ _ _ _ Hi0 Hr) as Hi.
  assert (Hn0 : inv_n k (init toks k)) by (unfold inv_n; cbn; split; [lia|intros _; reflexivity]).
  pose proof (run_inv_n _ _ _ _ Hn0 Hr) as Hn.
  pose proof (run_got _ _ _ _ Hr) as Hg. cbn in Hg.
  destruct s as [u c kk g]. unfold inv, inv_n in *. cbn in *.
  destruct c.
  - (* closed: everything was sent *)
    rewrite (Hi eq_refl) in Hg. cbn in Hg. split; [intro; discriminate|]. intro Hlt.
    destruct kk as [j| |]; try contradiction; lia.
  - (* open: nothing enabled means the parser has returned and a token is waiting *)
    split; [intros _|reflexivity].
    destruct u as [|t r].
    + specialize (Hst AClose). cbn in Hst. discriminate.
    + destruct kk as [[|j]| |].
      * specialize (Hst AReturn). cbn in Hst. discriminate.
      * specialize (Hst ASync). cbn in Hst. discriminate.
      * contradiction.
      * destruct Hn as [_ H2]. specialize (H2 eq_refl). cbn in Hg. lia.
Qed.

(* a maximal run of the unrepaired system exists for every k *)
Lemma nodrain_maximal_run : forall n (s : sys T), inv s -> mu s <= n ->
  exists tr s', run false s tr = Some s' /\ stuck false s'.
Proof.
  induction n as [|n IH]; intros s Hi Hm.
  - exists [], s. split; [reflexivity|]. intro a. destruct (step false s a) as [s1|] eqn:E; [|reflexivity].
    pose proof (step_mu_nodrain _ _ _ Hi E). lia.
  - assert (D : (exists a s1, step false s a = Some s1) \/ stuck false s).
    { unfold stuck.
      destruct (step false s ASync) eqn:E1; [left; eauto|].
      destruct (step false s AClose) eqn:E2; [left; eauto|].
      destruct (step false s ARecvEof) eqn:E3; [left; eauto|].
      destruct (step false s AReturn) eqn:E4; [left; eauto|].
      destruct (step false s ADrainEnd) eqn:E5; [left; eauto|].
      right. intros []; assumption. }
    destruct D as [[a [s1 E]]|Hst].
    + pose proof (step_mu_nodrain _ _ _ Hi E).
      destruct (IH s1 (step_inv _ _ _ _ Hi E)) as [tr [s' [Hr Hs']]]; [lia|].
      exists (a :: tr), s'. split; [cbn; rewrite E; exact Hr|exact Hs'].
    + exists [], s. split; [reflexivity|exact Hst].
Qed.

Theorem no_goroutine_left_before_repair_refuted_lem : forall (toks : list T) k, k < length toks ->
  exists tr s, run false (init toks k) tr = Some s /\ producer_blocked_forever false s.
Proof.
  intros toks k Hlt.
  assert (Hi0 : inv (init toks k)) by (intro H; discriminate H).
  destruct (nodrain_maximal_run _ _ Hi0 (le_n _)) as [tr [s [Hr Hst]]].
  exists tr, s. split; [exact Hr|]. split; [exact Hst|].
  apply (proj2 (leak_iff_unsent_without_drain_lem toks k tr _ Hr) Hst). exact Hlt.
Qed.

(* ---- a successful Parse has seen TokenEof: the tokenizer had closed the channel (drain or not) ---- *)
Lemma step_closed_mono : forall drain (s s' : sys T) a, step drain s a = Some s' -> closed s = true -> closed s' = true.
Proof.
  intros drain [u c k g] s' a Hs Hc. cbn in Hc. subst c. destruct a; cbn in Hs; try discriminate.
  - destruct k as [[|j]| |]; inv_some. reflexivity.
  - destruct k as [[|j]| |]; inv_some. reflexivity.
  - destruct k; inv_some. reflexivity.
Qed.

Lemma run_closed : forall drain tr (s s' : sys T), run drain s tr = Some s' ->
  closed s = true \/ In ARecvEof tr -> closed s' = true.
Proof.
  induction tr as [|a tr IH]; intros s s' Hr H; cbn in Hr.
  - inv_some. destruct H as [H|[]]. exact H.
  - destruct (step drain s a) as [s1|] eqn:E; [|discriminate]. apply (IH s1 s' Hr).
    destruct H as [H|[H|H]].
    + left. eapply step_closed_mono; eauto.
    + subst a. left. destruct s as [u c k g]. cbn in E. destruct c; [|discriminate].
      destruct k as [[|j]| |]; inv_some. reflexivity.
    + right. exact H.
Qed.

Theorem success_leaves_none_lem : forall drain (toks : list T) k tr s,
  run drain (init toks k) tr = Some s -> In ARecvEof tr ->
  closed s = true /\ got s = length toks.
Proof.
  intros drain toks k tr s Hr Hin.
  assert (Hc : closed s = true) by (eapply run_closed; [exact Hr|right; exact Hin]).
  split; [exact Hc|].
  assert (Hi0 : inv (init toks k)) by (intro H; discriminate H).
  pose proof (run_inv _ _ _ _ Hi0 Hr) as Hi. pose proof (run_got _ _ _ _ Hr) as Hg. cbn in Hg.
  rewrite (Hi Hc) in Hg. cbn in Hg. lia.
Qed.

(* ---- the canonical schedule of the correspondence run is a schedule ---- *)
Lemma canon_is_run : forall fuel drain (s : sys T), exists tr, run drain s tr = Some (canon fuel drain s).
Proof.
  induction fuel as [|f IH]; intros drain s.
  - exists []. reflexivity.
  - cbn [canon].
    destruct (step drain s ASync) as [s1|] eqn:E1.
    { destruct (IH drain s1) as [tr H]. exists (ASync :: tr). cbn [run]. rewrite E1. exact H. }
    destruct (step drain s AClose) as [s1|] eqn:E2.
    { destruct (IH drain s1) as [tr H]. exists (AClose :: tr). cbn [run]. rewrite E2. exact H. }
    destruct (step drain s ARecvEof) as [s1|] eqn:E3.
    { destruct (IH drain s1) as [tr H]. exists (ARecvEof :: tr). cbn [run]. rewrite E3. exact H. }
    destruct (step drain s AReturn) as [s1|] eqn:E4.
    { destruct (IH drain s1) as [tr H]. exists (AReturn :: tr). cbn [run]. rewrite E4. exact H. }
    destruct (step drain s ADrainEnd) as [s1|] eqn:E5.
    { destruct (IH drain s1) as [tr H]. exists (ADrainEnd :: tr). cbn [run]. rewrite E5. exact H. }
    exists []. reflexivity.
Qed.

End Proofs.

(* =============================================================================================
   list stages *)

(* iterator.ToChan after the consumer stopped: the unwrapped producer goes through its whole source *)
Lemma tochan_unwrapped_steps : forall n, tochan_steps false n = S n.
Proof. induction n as [|n IH]; cbn; [reflexivity|rewrite IH; reflexivity]. Qed.

Lemma tochan_wrapped_steps : forall n, tochan_steps true n <= 2.
Proof. destruct n; cbn; lia. Qed.

Section QuiesceProofs.
Context {A B C : Type}.
Variable f : nat -> A -> res B.
Variable yield : C -> res B -> C * bool.

Lemma nth_error_set_nth_other : forall (X : Type) (l : list X) w w' x, w <> w' ->
  nth_error (set_nth w' x l) w = nth_error l w.
Proof.
  induction l as [|y l IH]; intros w w' x Hne; destruct w'; cbn; try reflexivity.
  - destruct w; [congruence|reflexivity].
  - destruct w; [reflexivity|]. cbn. apply IH. congruence.
Qed.

(* once the collector has returned, a worker that holds a result holds it under every schedule *)
Lemma blocked_worker_step : forall (s : pstate) c w r,
  alive (col s) = false -> nth_error (workers s) w = Some (Some r) ->
  alive (col (ParMap.step f yield s c)) = false /\ nth_error (workers (ParMap.step f yield s c)) w = Some (Some r).
Proof.
  intros s c w r Ha Hw. destruct c as [w'|w'|]; cbn.
  - destruct (feederDone s); [split; assumption|].
    destruct (src s) as [|x rest]; [split; assumption|].
    destruct (nth_error (workers s) w') as [[r'|]|] eqn:E; try (split; assumption).
    cbn. split; [assumption|]. rewrite nth_error_set_nth_other; [assumption|]. intro; subst. rewrite Hw in E. discriminate.
  - destruct (nth_error (workers s) w') as [[r'|]|] eqn:E; try (split; assumption).
    rewrite Ha. split; assumption.
  - destruct (feederDone s); [split; assumption|].
    destruct (src s); [split; assumption|]. destruct (doneOpen (col s)); split; assumption.
Qed.

Lemma blocked_worker_forever : forall sched (s : pstate) w r,
  alive (col s) = false -> nth_error (workers s) w = Some (Some r) ->
  nth_error (workers (ParMap.run f yield s sched)) w = Some (Some r).
Proof.
  induction sched as [|c sched IH]; intros s w r Ha Hw; cbn; [assumption|].
  destruct (blocked_worker_step s c w r Ha Hw) as [Ha' Hw']. apply IH; assumption.
Qed.

Lemma not_quiet_of_blocked : forall (s : pstate (A := A) (B := B) (C := C)) w r,
  nth_error (workers s) w = Some (Some r) -> quiet s = false.
Proof.
  intros s w r Hw. unfold quiet. apply andb_false_iff. right.
  destruct (forallb idle (workers s)) eqn:E; [|reflexivity].
  rewrite forallb_forall in E. specialize (E (Some r) (nth_error_In _ _ Hw)). discriminate.
Qed.

Theorem stopped_stage_never_quiet : forall sched (s : pstate) w r,
  alive (col s) = false -> nth_error (workers s) w = Some (Some r) ->
  quiet (ParMap.run f yield s sched) = false.
Proof.
  intros sched s w r Ha Hw. eapply not_quiet_of_blocked. eapply blocked_worker_forever; eassumption.
Qed.

(* when no worker holds a result at the moment the collector returns (done is closed), one more step of the
   feeder (it sees `done` closed, or finds its source exhausted) and every goroutine of the stage has returned *)
Lemma quiet_after_stop : forall (s : pstate),
  doneOpen (col s) = false -> forallb idle (workers s) = true ->
  exists c, quiet (ParMap.step f yield s c) = true.
Proof.
  intros s Hd Hw. unfold quiet. destruct (feederDone s) eqn:Hf.
  - exists SeeDone. cbn. rewrite Hf. cbn. rewrite Hf, Hw. reflexivity.
  - destruct (src s) as [|x rest] eqn:Hs.
    + exists (Feed 0). cbn. rewrite Hf, Hs. cbn. exact Hw.
    + exists SeeDone. cbn. rewrite Hf, Hs, Hd. cbn. exact Hw.
Qed.

End QuiesceProofs.

(* a stage with 2 workers whose consumer takes one item: worker 1 is left with its result *)
Definition stop_example : pstate (A := nat) (B := nat) (C := list (res nat)) :=
  ParMap.run (fun _ x => ROk x) (take_yield 1) (par_init 12 2 [ROk 1; ROk 2; ROk 3] []) [Feed 0; Feed 1; Deliver 0].

Lemma par_stage_quiesces_refuted_lem :
  alive (col stop_example) = false /\ left_behind stop_example = 2
  /\ forall sched, quiet (ParMap.run (fun _ x => ROk x) (take_yield 1) stop_example sched) = false.
Proof.
  split; [vm_compute; reflexivity|]. split; [vm_compute; reflexivity|].
  intro sched. apply (stopped_stage_never_quiet (fun _ x => ROk x) (take_yield 1) sched stop_example 1 (13, ROk 2)); vm_compute; reflexivity.
Qed.

Lemma tochan_unwrapped_unbounded : forall bound, exists remaining, tochan_steps false remaining > bound.
Proof. intro b. exists b. rewrite tochan_unwrapped_steps. lia. Qed.

(* a panic of the source list: nothing is stranded when it is recovered into an error element; without that every
   waiting goroutine is stranded exactly if the source panics *)
Lemma stranded_recovered : forall w evs, stranded true w evs = 0.
Proof. intros w evs. induction evs as [|e r IH]; [reflexivity|]. destruct e; cbn; [exact IH|reflexivity]. Qed.

Lemma stranded_unrecovered : forall w evs, stranded false w evs = if existsb (fun e => match e with EvPanic => true | EvItem => false end) evs then w else 0.
Proof. intros w evs. induction evs as [|e r IH]; [reflexivity|]. destruct e; cbn; [exact IH|reflexivity]. Qed.

(* merge left on any path: with the deferred store both readers return within two steps; with a plain store behind the
   call a panic leaves them iterating their whole operand *)
Lemma merge_left_quiesces : forall e remaining, merge_reader_steps true e remaining <= 2.
Proof. intros e r. unfold merge_reader_steps. destruct e; cbn; apply tochan_wrapped_steps. Qed.

Lemma merge_plain_store_unbounded : forall bound, exists remaining, merge_reader_steps false MPanics remaining > bound.
Proof. intro b. exists b. unfold merge_reader_steps. cbn. rewrite tochan_unwrapped_steps. lia. Qed.
