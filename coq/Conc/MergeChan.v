(* Protocol model of value/list.go Merge = iterator.Merge over two iterator.ToChan producers, each guarded by
   stopWhen(&stopped):
     producer X (a goroutine): for every item of its list: read the stop flag (stopWhen) - if set, stop iterating;
        else select { c <- item | <-done }  (the `break` in the done case only leaves the select: the item is dropped
        and the loop goes on); at the end close(c)
     consumer (the calling goroutine): iterator.Merge's loop: take from aMain if it holds no a, from bMain if it holds
        no b, compare, yield one of them; when one channel is closed, yield what is held and copy the other channel;
        when it returns (both exhausted, or the downstream consumer said stop) the stop flag is set and both done
        channels are closed.
   Channels are unbuffered: a hand-over is one atomic step.  A schedule is a list of choices; a choice that is not
   enabled leaves the state unchanged.  The specification side (`merge_seq`) is the same merge algorithm reading
   the two LISTS directly - the sequential merge.  Definitions only; proofs in MergeChanProofs.v. *)
From P2 Require Import Base.Prelude Conc.ParMap.
Set Implicit Arguments.

Section MergeChan.
Context {V : Type}.
Variable less : V -> V -> res bool.          (* the comparison closure; may fail *)
Variable stopf : list (res V) -> bool.       (* the downstream consumer: given what it has received, does it stop? *)

Inductive cwait : Type := WaitA | WaitB | CopyA | CopyB | CDone.

Record mcons : Type := mkCons { ha : option (res V); hb : option (res V); cw : cwait; clog : list (res V) }.

(* yield(x): record it; the answer decides whether the loop goes on *)
Definition emit (h1 h2 : option (res V)) (log : list (res V)) (x : res V) (next : cwait) : mcons :=
  mkCons h1 h2 (if stopf (log ++ [x]) then CDone else next) (log ++ [x]).

(* both items present: `err` = a.err, else b.err, else the error of less; lessA is false when there is an error *)
Definition both (a b : res V) (log : list (res V)) : mcons :=
  let '(lessA, err) :=
    match a, b with
    | ROk va, ROk vb => match less va vb with ROk t => (t, false) | RErr => (false, true) end
    | _, _ => (false, true)
    end in
  if lessA then emit None (Some b) log a WaitA                         (* yield(a.val, err); isA = false *)
  else emit (Some a) None log (if err then RErr else b) WaitB.         (* yield(b.val, err); isB = false *)

(* the consumer receives x on the channel it is waiting on *)
Definition on_recv (c : mcons) (x : res V) : mcons :=
  match cw c with
  | WaitA => match hb c with
             | Some b => both x b (clog c)
             | None => mkCons (Some x) None WaitB (clog c)
             end
  | WaitB => match ha c with
             | Some a => both a x (clog c)
             | None => c                                             (* unreachable: a is always taken first *)
             end
  | CopyA => emit None None (clog c) x CopyA
  | CopyB => emit None None (clog c) x CopyB
  | CDone => c
  end.

(* the channel the consumer is waiting on turns out to be closed *)
Definition on_eof (c : mcons) : mcons :=
  match cw c with
  | WaitA => match hb c with
             | Some b => emit None None (clog c) b CopyB              (* if isB { yield(b) }; copyValues(bMain) *)
             | None => mkCons None None CopyB (clog c)
             end
  | WaitB => match ha c with
             | Some a => emit None None (clog c) a CopyA
             | None => mkCons None None CopyA (clog c)
             end
  | CopyA | CopyB => mkCons None None CDone (clog c)
  | CDone => c
  end.

Inductive side : Type := SA | SB.
Definition wants (c : mcons) : option side :=
  match cw c with WaitA | CopyA => Some SA | WaitB | CopyB => Some SB | CDone => None end.

Definition mcons_init : mcons := mkCons None None WaitA [].

(* ---- specification: the merge algorithm over the two lists, strictly sequential ------------------------- *)
Definition sstep (t : list (res V) * list (res V) * mcons) : list (res V) * list (res V) * mcons :=
  let '(la, lb, c) := t in
  match wants c with
  | Some SA => match la with x :: la' => (la', lb, on_recv c x) | [] => (la, lb, on_eof c) end
  | Some SB => match lb with x :: lb' => (la, lb', on_recv c x) | [] => (la, lb, on_eof c) end
  | None => t
  end.

Fixpoint siter (n : nat) (t : list (res V) * list (res V) * mcons) : list (res V) * list (res V) * mcons :=
  match n with O => t | S n' => siter n' (sstep t) end.

(* everything the downstream consumer is given by the sequential merge of la and lb *)
Definition merge_seq (la lb : list (res V)) : list (res V) :=
  clog (snd (siter (length la + length lb + 3) (la, lb, mcons_init))).

(* ---- the protocol ------------------------------------------------------------------------------------ *)
Inductive pphase : Type :=
| PIdle      (* about to take the next item of its list *)
| PReady     (* stop flag read as false; blocked in the select with the head item *)
| PClosed.   (* left the loop; the channel is closed *)

Record prod : Type := mkProd { pitems : list (res V); pph : pphase }.

Record mstate : Type := mkM { pa : prod; pb : prod; mc : mcons; stopped : bool; doneClosed : bool }.

Inductive mchoice : Type :=
| MCheck (s : side)     (* the producer takes the next item and reads the stop flag / finds its list exhausted *)
| MXfer (s : side)      (* select case `c <- item`, received by the consumer *)
| MSeeDone (s : side)   (* select case `<-done` *)
| MEof (s : side).      (* the consumer's receive finds the channel closed *)

Definition get (s : side) (m : mstate) : prod := match s with SA => pa m | SB => pb m end.
Definition set (s : side) (p : prod) (m : mstate) : mstate :=
  match s with
  | SA => mkM p (pb m) (mc m) (stopped m) (doneClosed m)
  | SB => mkM (pa m) p (mc m) (stopped m) (doneClosed m)
  end.
Definition side_eqb (a b : side) : bool := match a, b with SA, SA | SB, SB => true | _, _ => false end.
Definition is_done (c : mcons) : bool := match cw c with CDone => true | _ => false end.

(* the consumer moved to c': when it has returned, the stop flag is set and the done channels are closed *)
Definition with_cons (m : mstate) (c' : mcons) : mstate :=
  mkM (pa m) (pb m) c' (stopped m || is_done c') (doneClosed m || is_done c').

Definition wants_side (m : mstate) (s : side) : bool :=
  match wants (mc m) with Some s' => side_eqb s s' | None => false end.

Definition mstep (m : mstate) (ch : mchoice) : mstate :=
  match ch with
  | MCheck s =>
      let p := get s m in
      match pph p with
      | PIdle =>
          match pitems p with
          | [] => set s (mkProd [] PClosed) m
          | _ :: _ => set s (mkProd (pitems p) (if stopped m then PClosed else PReady)) m
          end
      | _ => m
      end
  | MXfer s =>
      let p := get s m in
      match pph p, pitems p with
      | PReady, x :: r => if wants_side m s then with_cons (set s (mkProd r PIdle) m) (on_recv (mc m) x) else m
      | _, _ => m
      end
  | MSeeDone s =>
      let p := get s m in
      match pph p, pitems p with
      | PReady, _ :: r => if doneClosed m then set s (mkProd r PIdle) m else m
      | _, _ => m
      end
  | MEof s =>
      let p := get s m in
      match pph p with
      | PClosed => if wants_side m s then with_cons m (on_eof (mc m)) else m
      | _ => m
      end
  end.

Definition mrun (m : mstate) (sched : list mchoice) : mstate := fold_left mstep sched m.

Definition minit (la lb : list (res V)) : mstate := mkM (mkProd la PIdle) (mkProd lb PIdle) mcons_init false false.

(* which choices can fire *)
Definition menabled (m : mstate) (ch : mchoice) : bool :=
  match ch with
  | MCheck s => match pph (get s m) with PIdle => true | _ => false end
  | MXfer s => match pph (get s m), pitems (get s m) with PReady, _ :: _ => wants_side m s | _, _ => false end
  | MSeeDone s => match pph (get s m), pitems (get s m) with PReady, _ :: _ => doneClosed m | _, _ => false end
  | MEof s => match pph (get s m) with PClosed => wants_side m s | _ => false end
  end.

Definition crank (c : mcons) : nat := match cw c with WaitA | WaitB => 2 | CopyA | CopyB => 1 | CDone => 0 end.
Definition prank (p : prod) : nat := 3 * length (pitems p) + match pph p with PIdle => 1 | _ => 0 end.
Definition mmeasure (m : mstate) : nat := prank (pa m) + prank (pb m) + crank (mc m).

(* a canonical completion (to make the protocol a function): serve the channel the consumer is waiting on *)
Definition mpick (m : mstate) : mchoice :=
  match wants (mc m) with
  | Some s => match pph (get s m) with PIdle => MCheck s | PReady => MXfer s | PClosed => MEof s end
  | None => MCheck SA
  end.
Fixpoint mdrive (n : nat) (m : mstate) : mstate :=
  match n with
  | O => m
  | S n' => if is_done (mc m) then m else mdrive n' (mstep m (mpick m))
  end.

End MergeChan.
