(* C19 - the generic generator funcGen.New[V] instantiated with a minimal value type: optional handlers
   (list / map / closure / string) absent, a table of binary and unary operators, constants, static
   functions, an optional ToBool and an optional number parser.

   Implementation side (follows the Go code branch by branch):
     parse_opt   Parser.Parse on the token list (Syn/Parse.v, optimizer nil) followed by the optimizer:
                 funcGen/optimizer.go Optimize ([opt_node]) driven by the AST.Optimize traversal of
                 parser2.go, including what parseLet does when an optimizer is set: the value of a let is
                 optimized at parse time and, if it became a constant, the name is bound as a constant
                 for the rest of the parse and the Let node disappears ([opt_all], substitution [sub]);
     gen_check   the error returns of funcGen.GenerateFunc (not found, redeclaration, arity of static
                 calls, node kinds whose handler is absent);
     exec        the closures GenerateFunc builds, fused with their execution on the value stack: a
                 threaded storage, Push at offs+size (offs = 0 in this fragment: Func.Eval starts from
                 NewEmptyStack().Init(args)), identifiers read by their compile-time index, call sites
                 compiled with reserved slots.
   Specification side: [sexp] / [denote] - the operators' own definitions under lexical scoping.
   Definitions only; proofs are in GenericProofs.v. *)
From P2 Require Import Base.Prelude Lex.Token Syn.Ast Syn.Parse Syn.Render.
Local Open Scope N_scope.

(* Some [f x1; ...; f xn] if every f xi is defined (left to right) *)
Section OMap.
Context {A B : Type}.
Variable f : A -> option B.
Fixpoint omap (l : list A) : option (list B) :=
  match l with
  | [] => Some []
  | x :: r => match f x with
              | Some v => match omap r with Some vs => Some (v :: vs) | None => None end
              | None => None
              end
  end.
End OMap.

Section Generic.
Variable V : Type.

(* Operator[V]{Operator, Impl, IsPure, IsCommutative}; Impl.Calc returns (V, error): None = error *)
Record binop := mkBin { b_name : str; b_impl : V -> V -> option V; b_pure : bool; b_comm : bool }.
(* UnaryOperator[V]{Operator, Impl} *)
Record unop := mkUn { u_name : str; u_impl : V -> option V }.
(* static function: Function[V]{Func, Args (-1 = any number), IsPure} *)
Record sfun := mkFn { f_name : str; f_args : Z; f_impl : list V -> option V; f_pure : bool }.

Record gcfg := mkG {
  g_ops : list binop;                       (* g.operators: lowest priority first *)
  g_unary : list unop;                      (* g.unary *)
  g_consts : list (str * V);                (* AddConstant *)
  g_funcs : list sfun;                      (* AddStaticFunction *)
  g_tobool : option (V -> option bool);     (* SetToBool: (bool, ok), None = not a bool *)
  g_num : option (str -> option V)          (* SetNumberParser: None = ParseNumber returns an error *)
}.

Variable cfg : gcfg.

Definition find_op (o : str) : option binop := find (fun b => str_eqb o (b_name b)) (g_ops cfg).
Definition find_un (o : str) : option unop := find (fun u => str_eqb o (u_name u)) (g_unary cfg).
Definition find_fn (f : str) : option sfun := find (fun s => str_eqb f (f_name s)) (g_funcs cfg).

(* f.argsNumberNotMatching(available) *)
Definition arity_mismatch (f : sfun) (n : nat) : bool :=
  (0 <=? f_args f)%Z && negb (f_args f =? Z.of_nat n)%Z.

(* ---------- the AST with constants of type V ---------- *)
Inductive gast :=
| GConst (v : V)
| GIdent (x : str) (isfunc : bool)
| GLet (x : str) (v i : gast)
| GIf (c t e : gast)
| GUn (op : str) (a : gast)
| GOp (op : str) (a b : gast)
| GCall (f : gast) (args : list gast)
| GOther.        (* a node kind whose handler is absent here (list, map, closure, method, switch, try) *)

(* a constant of the parser model is a code string: the image of a number or the name of a predefined
   constant (let-bound constants inherit the code of their value) *)
Definition dec (c : str) : option V :=
  match assoc c (g_consts cfg) with
  | Some v => Some v
  | None => match g_num cfg with Some np => np c | None => None end
  end.

Fixpoint of_ast (a : ast) : gast :=
  match a with
  | AConst c => match dec c with Some v => GConst v | None => GOther end
  | AIdent x f => GIdent x f
  | ALet x v i => GLet x (of_ast v) (of_ast i)
  | AIf c t e => GIf (of_ast c) (of_ast t) (of_ast e)
  | AUn o v => GUn o (of_ast v)
  | AOp o _ x y => GOp o (of_ast x) (of_ast y)
  | ACall f args => GCall (of_ast f) (map of_ast args)
  | _ => GOther
  end.

(* ---------- the parser configuration GetParser builds ---------- *)
Definition pcfg_of : pcfg :=
  mkPcfg (map b_name (g_ops cfg)) (map u_name (g_unary cfg))
         (match g_num cfg with
          | Some np => Some (fun img => match np img with Some _ => Some img | None => None end)
          | None => None
          end)
         None.

(* g.identifier.AddArgs(args, nil): constants and static functions, the arguments innermost *)
Definition ids_of (args : list str) : idents :=
  (match args with [] => [] | _ => [SArgs args] end)
  ++ map (fun f => id_function (f_name f)) (rev (g_funcs cfg))
  ++ map (fun kv => id_constant (fst kv) (fst kv)) (rev (g_consts cfg)).

(* ---------- funcGen/optimizer.go ---------- *)
Definition is_gconst (a : gast) : option V := match a with GConst v => Some v | _ => None end.

Fixpoint all_gconst (l : list gast) : option (list V) :=
  match l with
  | [] => Some []
  | x :: r => match is_gconst x, all_gconst r with
              | Some v, Some vs => Some (v :: vs)
              | _, _ => None
              end
  end.

(* optimizer.Optimize on one node whose children are optimized already *)
Definition opt_node (a : gast) : gast :=
  match a with
  | GOp op x y =>
      match find_op op with
      | Some o =>
          match is_gconst y with
          | Some bc =>
              match (if b_pure o then is_gconst x else None) with
              | Some ac => match b_impl o ac bc with Some co => GConst co | None => a end
              | None =>
                  if b_comm o then
                    match x with
                    | GOp op2 xa xb =>
                        if str_eqb op2 op then
                          match is_gconst xa with
                          | Some iac =>
                              match b_impl o iac bc with
                              | Some co => GOp op (GConst co) xb
                              | None => a
                              end
                          | None =>
                              match is_gconst xb with
                              | Some ibc =>
                                  match b_impl o ibc bc with
                                  | Some co => GOp op xa (GConst co)
                                  | None => a
                                  end
                              | None => a
                              end
                          end
                        else a
                    | _ => a
                    end
                  else a
              end
          | None => a
          end
      | None => a
      end
  | GUn op x =>
      match find_un op with
      | Some u =>
          match is_gconst x with
          | Some c => match u_impl u c with Some co => GConst co | None => a end
          | None => a
          end
      | None => a
      end
  | GIf c t e =>
      match g_tobool cfg with
      | Some tb =>
          match is_gconst c with
          | Some cv => match tb cv with Some b => if b then t else e | None => a end
          | None => a
          end
      | None => a
      end
  | GCall (GIdent f true) args =>
      match find_fn f with
      | Some fu =>
          if f_pure fu then
            if arity_mismatch fu (length args) then a
            else match all_gconst args with
                 | Some cs => match f_impl fu cs with Some v => GConst v | None => a end
                 | None => a
                 end
          else a
      | None => a
      end
  | _ => a
  end.

(* The traversal: children first (AST.Optimize), then the node.  [sub] holds the names the parser has
   bound by now through let: Some c = bound as a constant (parseLet: idents.AddConst), None = bound as a
   variable (idents.Add), which hides an outer constant of the same name. *)
Definition sub_t := list (str * option V).

Fixpoint opt_all (sub : sub_t) (a : gast) : gast :=
  match a with
  | GConst v => a
  | GIdent x f =>
      if f then a
      else match assoc x sub with Some (Some c) => GConst c | _ => a end
  | GLet x v i =>
      let v' := opt_all sub v in
      match is_gconst v' with
      | Some c => opt_all ((x, Some c) :: sub) i
      | None => GLet x v' (opt_all ((x, None) :: sub) i)
      end
  | GIf c t e => opt_node (GIf (opt_all sub c) (opt_all sub t) (opt_all sub e))
  | GUn op x => opt_node (GUn op (opt_all sub x))
  | GOp op x y => opt_node (GOp op (opt_all sub x) (opt_all sub y))
  | GCall f args => opt_node (GCall (opt_all sub f) (map (opt_all sub) args))
  | GOther => a
  end.

(* Parser.Parse with (opt = true) or without (SetOptimizer(nil)) the optimizer *)
Definition parse_opt (opt : bool) (args : list str) (ts : list tk) : pres gast :=
  match parse pcfg_of (ids_of args) ts with
  | POk a => let g := of_ast a in POk (if opt then opt_all [] g else g)
  | PErr => PErr
  | PPanic => PPanic
  | POOF => POOF
  end.

(* ---------- funcGen.GenerateFunc: compile-time side ---------- *)
Fixpoint index_of (x : str) (l : list str) : option nat :=
  match l with
  | [] => None
  | y :: r => if str_eqb y x then Some O else option_map S (index_of x r)
  end.

Definition in_am (x : str) (am : list str) : bool :=
  match index_of x am with Some _ => true | None => false end.

(* gc.reserve(n): n unnamed slots "\x00<index>" *)
Definition ph (k : nat) : str := [0; N.of_nat k].
Fixpoint reserve (am : list str) (n : nat) : list str :=
  match n with
  | O => am
  | S m => reserve (am ++ [ph (length am)]) m
  end.

(* the static function a call node is compiled to, if any: Func is an Ident with IsFunc that names one *)
Definition static_target (f : gast) : option sfun :=
  match f with
  | GIdent name true => find_fn name
  | _ => None
  end.

(* genArgList(a, gc, 0): argument i is compiled with gc.reserve(i) *)
Section CheckArgs.
Variable check1 : list str -> gast -> bool.
Fixpoint check_args (am : list str) (l : list gast) (i : nat) : bool :=
  match l with
  | [] => true
  | x :: r => check1 (reserve am i) x && check_args am r (S i)
  end.
End CheckArgs.

Fixpoint gen_check (am : list str) (a : gast) : bool :=
  match a with
  | GConst _ => true
  | GIdent x _ => in_am x am                                  (* cm is nil at top level *)
  | GLet x v i =>
      gen_check am v &&
      negb (match x with [] => true | _ => false end) && negb (in_am x am) &&   (* argsList.add *)
      gen_check (am ++ [x]) i
  | GIf c t e =>
      match g_tobool cfg with
      | Some _ => gen_check am c && gen_check am t && gen_check am e
      | None => false                                         (* falls out of the switch: not supported *)
      end
  | GUn _ x => gen_check am x
  | GOp _ x y => gen_check am x && gen_check am y
  | GCall f args =>
      match static_target f with
      | Some fu => negb (arity_mismatch fu (length args)) && check_args gen_check am args O
      | None => gen_check am f && check_args gen_check am args O
      end
  | GOther => false
  end.

(* ---------- the generated closures, executed ---------- *)
Inductive xres := XOk (v : V) | XErr | XPanic.

(* stackStorage.set *)
Definition st_set (n : nat) (v : V) (data : list V) : option (list V) :=
  if (n =? length data)%nat then Some (data ++ [v])
  else if (n <? length data)%nat then Some (firstn n data ++ v :: skipn (S n) data)
  else None.

Definition lift (r : option V) : xres := match r with Some v => XOk v | None => XErr end.

(* for i: v := argFunc_i(st); st.Push(v)   - argument i compiled with gc.reserve(i); None = all pushed *)
Section ExecArgs.
Variable exec1 : list str -> gast -> list V -> nat -> xres * list V.
Fixpoint exec_args (am : list str) (size : nat) (l : list gast) (i : nat) (data : list V) : option xres * list V :=
  match l with
  | [] => (None, data)
  | x :: r =>
      match exec1 (reserve am i) x data (size + i)%nat with
      | (XOk v, d1) =>
          match st_set (size + i) v d1 with
          | Some d2 => exec_args am size r (S i) d2
          | None => (Some XPanic, d1)
          end
      | (rx, d1) => (Some rx, d1)
      end
  end.
End ExecArgs.

Fixpoint exec (am : list str) (a : gast) (data : list V) (size : nat) {struct a} : xres * list V :=
  match a with
  | GConst v => (XOk v, data)
  | GIdent x _ =>
      match index_of x am with
      | Some i => match nth_error data i with
                  | Some v => (XOk v, data)
                  | None => (XPanic, data)              (* s.data[n]: index out of range *)
                  end
      | None => (XErr, data)                            (* excluded by gen_check *)
      end
  | GLet x v i =>
      match exec am v data size with
      | (XOk va, d1) =>
          match st_set size va d1 with                  (* st.Push(va) *)
          | Some d2 => exec (am ++ [x]) i d2 (S size)
          | None => (XPanic, d1)
          end
      | r => r
      end
  | GIf c t e =>
      match g_tobool cfg with
      | Some tb =>
          match exec am c data size with
          | (XOk cv, d1) =>
              match tb cv with
              | Some true => exec am t d1 size
              | Some false => exec am e d1 size
              | None => (XErr, d1)
              end
          | r => r
          end
      | None => (XErr, data)
      end
  | GUn op x =>
      match exec am x data size with
      | (XOk v, d1) =>
          match find_un op with
          | Some u => (lift (u_impl u v), d1)
          | None => (XPanic, d1)                        (* g.uMap[op].Impl is nil *)
          end
      | r => r
      end
  | GOp op x y =>
      match exec am x data size with
      | (XOk av, d1) =>
          match exec am y d1 size with
          | (XOk bv, d2) =>
              match find_op op with
              | Some o => (lift (b_impl o av bv), d2)
              | None => (XPanic, d2)                    (* g.opMap[op].Impl is nil *)
              end
          | r => r
          end
      | r => r
      end
  | GCall f args =>
      match static_target f with
      | Some fu =>
          match exec_args exec am size args O data with
          | (None, d1) =>
              (* fun.Func(st.CreateFrame(n), nil): the frame is data[size .. size+n) *)
              let frame := firstn (length args) (skipn size d1) in
              if (length frame =? length args)%nat then (lift (f_impl fu frame), d1) else (XPanic, d1)
          | (Some r, d1) => (r, d1)
          end
      | None =>
          match exec am f data size with
          | (XOk _, d1) => (XErr, d1)                   (* ExtractFunction: no closure handler - not a function *)
          | r => r
          end
      end
  | GOther => (XErr, data)
  end.

(* Generate + Func.Eval(vals...) *)
Inductive rres := ROk (v : V) | RErr | RPanic | RGenErr | RParseErr | RParsePanic | ROOF.

Definition run_gast (args : list str) (a : gast) (vals : list V) : rres :=
  if gen_check args a then
    match fst (exec args a vals (length vals)) with
    | XOk v => ROk v
    | XErr => RErr
    | XPanic => RPanic                                  (* recovered by generateIntern: an error *)
    end
  else RGenErr.

Definition run (opt : bool) (args : list str) (ts : list tk) (vals : list V) : rres :=
  match parse_opt opt args ts with
  | POk g => run_gast args g vals
  | PErr => RParseErr
  | PPanic => RParsePanic
  | POOF => ROOF
  end.

(* ==================== specification side ==================== *)
(* source expressions: the tree structure is the grouping the priorities must reproduce *)
Inductive sexp :=
| SNum (img : str)                       (* number literal *)
| SName (x : str)                        (* let-bound name, argument or predefined constant *)
| SUn (op : str) (e : sexp)
| SBin (op : str) (a b : sexp)
| SCall (f : str) (args : list sexp)
| SLet (x : str) (v i : sexp)
| SIf (c t e : sexp).

Definition obind {A B} (o : option A) (f : A -> option B) : option B :=
  match o with Some a => f a | None => None end.

(* the operators' own definitions; rho: innermost binding first; None = an error *)
Fixpoint denote (rho : list (str * V)) (e : sexp) : option V :=
  match e with
  | SNum img => match g_num cfg with Some np => np img | None => None end
  | SName x => match assoc x rho with Some v => Some v | None => assoc x (g_consts cfg) end
  | SUn op a =>
      obind (denote rho a) (fun v => obind (find_un op) (fun u => u_impl u v))
  | SBin op a b =>
      obind (denote rho a) (fun x => obind (denote rho b) (fun y =>
        obind (find_op op) (fun o => b_impl o x y)))
  | SCall f args =>
      match assoc f rho with
      | Some _ => None                                        (* a value is not a function *)
      | None =>
          obind (find_fn f) (fun fu =>
            if arity_mismatch fu (length args) then None
            else obind (omap (denote rho) args) (f_impl fu))
      end
  | SLet x v i => obind (denote rho v) (fun va => denote ((x, va) :: rho) i)
  | SIf c t e =>
      obind (denote rho c) (fun cv =>
        obind (g_tobool cfg) (fun tb =>
          match tb cv with
          | Some true => denote rho t
          | Some false => denote rho e
          | None => None
          end))
  end.

(* the environment of a call with named arguments (argsList.get: the first of equal names counts) *)
Definition rho_of (args : list str) (vals : list V) : list (str * V) := combine args vals.

(* ---------- rendering of source expressions ---------- *)
(* the expression fragment (no let / if) as a rendering tree of Syn/Render.v *)
Section ToRargs.
Variable to_rt1 : sexp -> option rt.
Fixpoint to_rargs (l : list sexp) : option rargs :=
  match l with
  | [] => Some RA_nil
  | [x] => option_map RA_last (to_rt1 x)
  | x :: r => match to_rt1 x, to_rargs r with
              | Some a, Some ra => Some (RA_cons a ra)
              | _, _ => None
              end
  end.
End ToRargs.

Fixpoint to_rt (e : sexp) : option rt :=
  match e with
  | SNum img => Some (RNum img)
  | SName x => Some (RIdent x)
  | SUn op a => option_map (RUn op) (to_rt a)
  | SBin op a b =>
      match level_of (map b_name (g_ops cfg)) op, to_rt a, to_rt b with
      | Some j, Some l, Some r => Some (RBin j l r)
      | _, _, _ => None
      end
  | SCall f args => option_map (RCall (RIdent f)) (to_rargs to_rt args)
  | SLet _ _ _ | SIf _ _ _ => None
  end.

Definition k_kw (s : str) : tk := (tKeyWord, s).
Definition k_semi : tk := (tSemicolon, s_semi).

(* tokens of a source expression with let / if forms; [d] places redundant parentheses in the
   expression fragments, which are written with the minimal parentheses the table demands *)
Fixpoint flat (d : rt -> nat) (e : sexp) : option (list tk) :=
  match e with
  | SLet x v i =>
      match flat d v, flat d i with
      | Some tv, Some ti => Some (k_kw s_let :: k_ident x :: k_op s_assign :: tv ++ k_semi :: ti)
      | _, _ => None
      end
  | SIf c t e' =>
      match flat d c, flat d t, flat d e' with
      | Some tc, Some tb, Some te => Some (k_kw s_if :: tc ++ k_kw s_then :: tb ++ k_kw s_else :: te)
      | _, _, _ => None
      end
  | _ => option_map (fun r => flatten pcfg_of (pp pcfg_of d r)) (to_rt e)
  end.

End Generic.

Arguments GConst {V} _. Arguments GIdent {V} _ _. Arguments GLet {V} _ _ _. Arguments GIf {V} _ _ _.
Arguments GUn {V} _ _. Arguments GOp {V} _ _ _. Arguments GCall {V} _ _. Arguments GOther {V}.
Arguments XOk {V} _. Arguments XErr {V}. Arguments XPanic {V}.
Arguments ROk {V} _. Arguments RErr {V}. Arguments RPanic {V}. Arguments RGenErr {V}.
Arguments RParseErr {V}. Arguments RParsePanic {V}. Arguments ROOF {V}.
Arguments mkBin {V} _ _ _ _. Arguments mkUn {V} _ _. Arguments mkFn {V} _ _ _ _.
Arguments mkG {V} _ _ _ _ _ _.
Arguments find_op {V} _ _. Arguments find_un {V} _ _. Arguments find_fn {V} _ _.
Arguments arity_mismatch {V} _ _. Arguments dec {V} _ _. Arguments of_ast {V} _ _.
Arguments pcfg_of {V} _. Arguments ids_of {V} _ _. Arguments is_gconst {V} _. Arguments all_gconst {V} _.
Arguments opt_node {V} _ _. Arguments opt_all {V} _ _ _. Arguments parse_opt {V} _ _ _ _.
Arguments static_target {V} _ _. Arguments gen_check {V} _ _ _. Arguments st_set {V} _ _ _.
Arguments lift {V} _. Arguments exec {V} _ _ _ _ _. Arguments run_gast {V} _ _ _ _.
Arguments run {V} _ _ _ _ _. Arguments denote {V} _ _ _. Arguments rho_of {V} _ _.
Arguments to_rt {V} _ _. Arguments check_args {V} _ _ _ _. Arguments exec_args {V} _ _ _ _ _ _. Arguments flat {V} _ _ _. Arguments obind {A B} _ _.
