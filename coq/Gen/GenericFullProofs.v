(* C19 on the full grammar: from the TOKENS of every well-formed rendering tree (let and if-then-else included),
   and from TEXT in every well-formed layout, the generated function - optimizer on or off - returns the value the
   operators' own definitions give to the tree.  Composes Syn/FullProofs.parse_complete_full (the parser model
   parses the tokens of a well-formed tree to the AST the tree denotes), Syn/TextToAst.text_to_ast (tokenizer model
   on every layout) and Gen/GenericProofs.gast_correct (optimizer + generator on any accepted AST). *)
From P2 Require Import Base.Prelude Base.PreludeProofs Lex.Token Syn.Ast Syn.Parse Syn.Render Syn.ParseProofs
  Gen.Generic Gen.GenericProofs Syn.Full Syn.FullProofs Syn.TextToAst Gen.GenericFull.
From P2 Require Lex.Tok Lex.TokProofs.
Require Import Lia.
Local Open Scope N_scope.

Section FullProofs.
Variable V : Type.
Variable cfg : gcfg V.
Hypothesis Hok : cfg_ok V cfg = true.

Notation pc := (pcfg_of cfg).

(* The tree denotes an AST the generator accepts without the optimizer: every name resolves, no let redeclares a
   visible name, every call is a call of a static function with the declared arity, if needs ToBool, no handler-less
   form occurs; identifiers are not reserved slot names.  A decidable predicate on the rendering tree. *)
Definition accepts (args : list str) (r : ft) : bool :=
  match ferase pc (ids_of cfg args) r with
  | Some (a, _) => names_ok V cfg (of_ast cfg a) && gen_check cfg args (of_ast cfg a)
  | None => false
  end.

(* ---------- the parser's scope chain against the two environments ---------- *)
(* rho: the lexical environment of the definitions (every let binds); env: the environment of the compiled tree
   (a let whose value is a literal constant was propagated by parseLet and binds nothing) *)
Inductive srel (args : list str) (vals : list V) : idents -> list (str * V) -> list (str * V) -> Prop :=
| srel_base : srel args vals (ids_of cfg args) (combine args vals) (combine args vals)
| srel_var : forall x w ids rho env, srel args vals ids rho env ->
    srel args vals (id_var x :: ids) ((x, w) :: rho) ((x, w) :: env)
| srel_const : forall x c w ids rho env, srel args vals ids rho env -> dec cfg c = Some w ->
    srel args vals (id_constant x c :: ids) ((x, w) :: rho) env.

Lemma resolve_skip s ids y : (forall i, s = SAdd i -> str_eqb y (id_name i) = false) ->
  (exists i, s = SAdd i) -> resolve (s :: ids) y = resolve ids y.
Proof. intros H [i ->]. unfold resolve. cbn [lookup]. rewrite (H i eq_refl). reflexivity. Qed.

Lemma srel_some args vals ids rho env : srel args vals ids rho env -> length args = length vals ->
  forall y v, assoc y rho = Some v ->
    (resolve ids y = Some (AIdent y false) /\ assoc y env = Some v) \/
    (exists c, resolve ids y = Some (AConst c) /\ dec cfg c = Some v).
Proof.
  intros S L. induction S as [|x w ids rho env S IH|x c w ids rho env S IH D]; intros y v H.
  - left. split; [|exact H]. apply resolve_arg.
    destruct (mem_str y args) eqn:E; [reflexivity|].
    apply (assoc_combine_mem V y args vals L) in E. rewrite E in H. discriminate.
  - cbn [assoc] in H. destruct (str_eqb y x) eqn:E.
    + inversion H. subst w. left. unfold resolve, id_var, id_plain. cbn [lookup id_name]. rewrite E.
      cbn [id_const id_this assoc]. rewrite E. auto.
    + assert (R : resolve (id_var x :: ids) y = resolve ids y).
      { unfold resolve, id_var, id_plain. cbn [lookup id_name]. rewrite E. reflexivity. }
      rewrite R. destruct (IH y v H) as [[A B]|A]; [left|right; exact A].
      split; [exact A|]. cbn [assoc]. rewrite E. exact B.
  - cbn [assoc] in H. destruct (str_eqb y x) eqn:E.
    + inversion H. subst w. right. exists c. unfold resolve, id_constant. cbn [lookup id_name]. rewrite E.
      cbn [id_const id_func id_val]. auto.
    + assert (R : resolve (id_constant x c :: ids) y = resolve ids y).
      { unfold resolve, id_constant. cbn [lookup id_name]. rewrite E. reflexivity. }
      rewrite R. exact (IH y v H).
Qed.

Lemma srel_none args vals ids rho env : srel args vals ids rho env ->
  forall y, assoc y rho = None ->
    resolve ids y = resolve (ids_of cfg args) y /\ assoc y (combine args vals) = None.
Proof.
  intros S. induction S as [|x w ids rho env S IH|x c w ids rho env S IH D]; intros y H.
  - auto.
  - cbn [assoc] in H. destruct (str_eqb y x) eqn:E; [discriminate|].
    destruct (IH y H) as [A B]. split; [|exact B]. rewrite <- A.
    unfold resolve, id_var, id_plain. cbn [lookup id_name]. rewrite E. reflexivity.
  - cbn [assoc] in H. destruct (str_eqb y x) eqn:E; [discriminate|].
    destruct (IH y H) as [A B]. split; [|exact B]. rewrite <- A.
    unfold resolve, id_constant. cbn [lookup id_name]. rewrite E. reflexivity.
Qed.

(* ---------- the value of the tree is the environment semantics of the AST it denotes ---------- *)
Definition DT (r : ft) : Prop := forall args vals ids rho env a u v,
  length args = length vals -> srel args vals ids rho env ->
  ferase pc ids r = Some (a, u) -> fdenote cfg rho r = Some v -> geval V cfg env (of_ast cfg a) = Some v.

Definition DA (fa : fargs) : Prop := forall args vals ids rho env l u vs,
  length args = length vals -> srel args vals ids rho env ->
  ferase_args pc ids fa = Some (l, u) -> fdenote_args cfg rho fa = Some vs ->
  omap (geval V cfg env) (map (of_ast cfg) l) = Some vs /\ length l = fargs_len fa.

Ltac novalue := unfold DT; intros; match goal with D : fdenote _ _ _ = Some _ |- _ => cbn in D; discriminate D end.

Lemma dyn_all : (forall r, DT r) /\ (forall a, DA a) /\ (forall c : fcases, True) /\ (forall m : fentries, True).
Proof.
  destruct (cfg_ok_parts V cfg Hok) as (H1 & H2 & H3).
  apply ft_all_ind with (P := DT) (P0 := DA) (P1 := fun _ => True) (P2 := fun _ => True); try (intros; exact I); try novalue.
  - (* identifier *)
    intros x args vals ids rho env a u v L S E D. rewrite ferase_FIdent in E. cbn [fdenote] in D.
    destruct (assoc x rho) as [w|] eqn:Ea.
    + inversion D. subst w. destruct (srel_some args vals ids rho env S L x v Ea) as [[R B]|(c & R & Dc)];
        rewrite R in E; inversion E; subst; cbn [of_ast geval]; [exact B|]. rewrite Dc. reflexivity.
    + destruct (srel_none args vals ids rho env S x Ea) as [R B]. rewrite R in E.
      assert (Hm : mem_str x args = false) by (apply (assoc_combine_mem V x args vals L); exact B).
      assert (Hf : find_fn cfg x = None).
      { destruct (find_fn cfg x) as [fu|] eqn:Ef; [|reflexivity]. unfold find_fn in Ef. apply find_some in Ef.
        destruct Ef as [Hin Ex]. apply str_eqb_eq in Ex. subst x. rewrite (H2 fu Hin) in D. discriminate. }
      rewrite (resolve_const V cfg args x v Hm Hf D) in E. inversion E. subst. cbn [of_ast]. unfold dec. rewrite D. reflexivity.
  - (* number *)
    intros i args vals ids rho env a u v L S E D. rewrite ferase_FNum in E. cbn [fdenote] in D.
    destruct (g_num V cfg) as [np|] eqn:En; [|discriminate].
    unfold pcfg_of in E. cbn [c_num] in E. rewrite En in E. cbv beta in E. rewrite D in E. inversion E. subst.
    assert (Ec : assoc i (g_consts V cfg) = None).
    { destruct (assoc i (g_consts V cfg)) as [w|] eqn:Ea; [|reflexivity].
      apply assoc_in in Ea. rewrite (H3 _ _ _ Ea eq_refl) in D. discriminate. }
    cbn [of_ast]. unfold dec. rewrite Ec, En, D. reflexivity.
  - (* parentheses *)
    intros r IH args vals ids rho env a u v L S E D. rewrite ferase_FParen in E. cbn [fdenote] in D.
    exact (IH _ _ _ _ _ _ _ _ L S E D).
  - (* binary *)
    intros j l IHl r IHr args vals ids rho env a u v L S E D. rewrite ferase_FBin in E. cbn [fdenote] in D.
    apply obind_some in D. destruct D as (xv & Dl & D). apply obind_some in D. destruct D as (yv & Dr & D).
    apply obind_some in D. destruct D as (name & En & D). apply obind_some in D. destruct D as (o & Eo & D).
    change (c_ops pc) with (map (b_name V) (g_ops V cfg)) in E. rewrite En in E.
    destruct (ferase pc ids l) as [[al ul]|] eqn:El; [|discriminate].
    destruct (ferase pc ids r) as [[ar ur]|] eqn:Er; [|discriminate]. inversion E. subst.
    cbn [of_ast geval]. rewrite (IHl _ _ _ _ _ _ _ _ L S El Dl). cbn [obind].
    rewrite (IHr _ _ _ _ _ _ _ _ L S Er Dr). cbn [obind]. rewrite Eo. exact D.
  - (* prefix *)
    intros uo e IHe args vals ids rho env a u v L S E D. rewrite ferase_FUn in E. cbn [fdenote] in D.
    apply obind_some in D. destruct D as (w & De & D).
    destruct (ferase pc ids e) as [[ae ue]|] eqn:Ee; [|discriminate]. inversion E. subst.
    cbn [of_ast geval]. rewrite (IHe _ _ _ _ _ _ _ _ L S Ee De). exact D.
  - (* call *)
    intros e _ fa IHa args vals ids rho env a u v L S E D.
    destruct e as [f| | | | | | | | | | | | | | | | | | ]; try (cbn in D; discriminate D).
    rewrite ferase_FCall, ferase_FIdent in E. cbn [fdenote] in D.
    destruct (assoc f rho) eqn:Ea; [discriminate|].
    apply obind_some in D. destruct D as (fu & Ef & D).
    destruct (arity_mismatch fu (fargs_len fa)) eqn:Ear; [discriminate|].
    apply obind_some in D. destruct D as (vs & Dvs & D).
    destruct (srel_none args vals ids rho env S f Ea) as [R B]. rewrite R in E.
    assert (Hm : mem_str f args = false) by (apply (assoc_combine_mem V f args vals L); exact B).
    rewrite (resolve_fn V cfg args f fu Hm Ef) in E.
    destruct (ferase_args pc ids fa) as [[l ua]|] eqn:El; [|discriminate]. inversion E. subst.
    destruct (IHa _ _ _ _ _ _ _ _ L S El Dvs) as [Hom Hlen].
    cbn [of_ast geval static_target]. rewrite Ef, map_length, Hlen, Ear, Hom. exact D.
  - (* let *)
    intros x fv IHv fb IHb args vals ids rho env a u v L S E D. rewrite ferase_FLet in E. cbn [fdenote] in D.
    apply obind_some in D. destruct D as (va & Dv & Db).
    destruct (ferase pc ids fv) as [[ev u1]|] eqn:Ev; [|discriminate].
    pose proof (IHv _ _ _ _ _ _ _ _ L S Ev Dv) as Gv.
    destruct (is_const ev) as [c|] eqn:Ec.
    + destruct ev; try discriminate. cbn in Ec. inversion Ec. subst. cbn [of_ast] in Gv.
      destruct (dec cfg c) as [w|] eqn:Dc; cbn [geval] in Gv; [|discriminate]. inversion Gv. subst w.
      destruct (ferase pc (id_constant x c :: ids) fb) as [[eb u2]|] eqn:Eb; [|discriminate]. inversion E. subst.
      exact (IHb _ _ _ _ _ _ _ _ L (srel_const args vals x c va ids rho env S Dc) Eb Db).
    + destruct (ferase pc (id_var x :: ids) fb) as [[eb u2]|] eqn:Eb; [|discriminate]. inversion E. subst.
      cbn [of_ast geval]. rewrite Gv. cbn [obind].
      exact (IHb _ _ _ _ _ _ _ _ L (srel_var args vals x va ids rho env S) Eb Db).
  - (* if *)
    intros fc IHc ft' IHt fe IHe args vals ids rho env a u v L S E D. rewrite ferase_FIf in E. cbn [fdenote] in D.
    apply obind_some in D. destruct D as (cv & Dc & D).
    destruct (ferase pc ids fc) as [[ec u1]|] eqn:Ec; [|discriminate].
    destruct (ferase pc ids ft') as [[et u2]|] eqn:Et; [|discriminate].
    destruct (ferase pc ids fe) as [[ee u3]|] eqn:Ee; [|discriminate]. inversion E. subst.
    cbn [of_ast geval]. rewrite (IHc _ _ _ _ _ _ _ _ L S Ec Dc). cbn [obind] in *.
    destruct (g_tobool V cfg) as [tb|]; [|discriminate]. cbn [obind] in *.
    destruct (tb cv) as [[|]|]; [exact (IHt _ _ _ _ _ _ _ _ L S Et D)|exact (IHe _ _ _ _ _ _ _ _ L S Ee D)|discriminate].
  - (* no arguments *)
    intros args vals ids rho env l u vs L S E D. rewrite ferase_args_FA_nil in E. inversion E. subst.
    cbn in D. inversion D. split; reflexivity.
  - (* last argument *)
    intros e IHe args vals ids rho env l u vs L S E D. rewrite ferase_args_FA_last in E.
    cbn [fdenote_args] in D. apply obind_some in D. destruct D as (w & De & D). inversion D. subst.
    destruct (ferase pc ids e) as [[ae ue]|] eqn:Ee; [|discriminate]. inversion E. subst.
    cbn [map omap fargs_len length]. rewrite (IHe _ _ _ _ _ _ _ _ L S Ee De). split; reflexivity.
  - (* more arguments *)
    intros e IHe fr IHr args vals ids rho env l u vs L S E D. rewrite ferase_args_FA_cons in E.
    cbn [fdenote_args] in D. apply obind_some in D. destruct D as (w & De & D).
    apply obind_some in D. destruct D as (ws & Dr & D). inversion D. subst.
    destruct (ferase pc ids e) as [[ae ue]|] eqn:Ee; [|discriminate].
    destruct (ferase_args pc ids fr) as [[lr ur]|] eqn:Er; [|discriminate]. inversion E. subst.
    destruct (IHr _ _ _ _ _ _ _ _ L S Er Dr) as [Hom Hlen].
    cbn [map omap fargs_len length]. rewrite (IHe _ _ _ _ _ _ _ _ L S Ee De), Hom, Hlen. split; reflexivity.
Qed.

(* ---------- the theorems ---------- *)
Lemma accepts_parts args r : accepts args r = true ->
  exists a u, ferase pc (ids_of cfg args) r = Some (a, u) /\
              names_ok V cfg (of_ast cfg a) = true /\ gen_check cfg args (of_ast cfg a) = true.
Proof.
  unfold accepts. destruct (ferase pc (ids_of cfg args) r) as [[a u]|]; [|discriminate].
  intros H. apply andb_prop in H. destruct H. eauto.
Qed.

(* from the parsed tree on: shared by the token and the text theorem *)
Lemma tree_parsed_correct : regroup_ok V cfg -> forall r a u args vals v (opt : bool),
  ferase pc (ids_of cfg args) r = Some (a, u) ->
  names_ok V cfg (of_ast cfg a) = true -> gen_check cfg args (of_ast cfg a) = true ->
  length args = length vals -> fdenote cfg (rho_of args vals) r = Some v ->
  run_gast cfg args (if opt then opt_all cfg [] (of_ast cfg a) else of_ast cfg a) vals = ROk v.
Proof.
  intros R r a u args vals v opt E N G L D. apply gast_correct; auto.
  exact (proj1 dyn_all r args vals _ _ _ a u v L (srel_base args vals) E D).
Qed.

(* tokens of every well-formed rendering tree *)
Theorem generic_tree_correct : regroup_ok V cfg -> forall r args vals v (opt : bool),
  fwf pc r = true -> accepts args r = true -> length args = length vals ->
  fdenote cfg (rho_of args vals) r = Some v ->
  run_tree cfg opt args r vals = ROk v.
Proof.
  intros R r args vals v opt W A L D. destruct (accepts_parts args r A) as (a & u & E & N & G).
  destruct (cfg_ok_parts V cfg Hok) as (H1 & _ & _).
  unfold run_tree, run, parse_opt. rewrite (parse_complete_full pc H1 (ids_of cfg args) r a u W E).
  exact (tree_parsed_correct R r a u args vals v opt E N G L D).
Qed.

(* text in every well-formed layout: lexemes separated by arbitrary runs of blanks, tabs, CR, LF, line and block
   comments, whose lexemes denote the tokens of the tree *)
Theorem generic_text_correct : regroup_ok V cfg -> forall tc items r args vals v (opt : bool),
  P2.Lex.TokProofs.ops_ok tc -> P2.Lex.TokProofs.wf_layout tc tInvalid false items ->
  P2.Lex.TokProofs.lexeme_tokens items = fflatten pc r ->
  fwf pc r = true -> accepts args r = true -> length args = length vals ->
  fdenote cfg (rho_of args vals) r = Some v ->
  run_text cfg tc opt args (P2.Lex.Tok.layout_text items) vals = ROk v.
Proof.
  intros R tc items r args vals v opt Ho Hw Hl W A L D. destruct (accepts_parts args r A) as (a & u & E & N & G).
  destruct (cfg_ok_parts V cfg Hok) as (H1 & _ & _).
  pose proof (text_to_ast tc pc (ids_of cfg args) items r a u Ho Hw Hl H1 W E) as P. unfold parse_tokens in P.
  unfold run_text, run, parse_opt. rewrite P.
  exact (tree_parsed_correct R r a u args vals v opt E N G L D).
Qed.

End FullProofs.
