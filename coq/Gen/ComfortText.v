(* Comfort-mode texts for the generic generator (C19): the text theorems of Gen/GenericFullProofs.v instantiated with
   the comfort rendering of Syn/RenderComfort.v - the text of a tree with multiplication signs left out and lexemes set
   tight evaluates to what the operators' definitions give for the tree, i.e. exactly like the explicit products.
   [float_tc]: the tokenizer as Parser.Parse configures it for example/minimal.go (comfort flag regenerated from the
   example: Generated/ExampleCfg.ex_float_comfort), keywords let / if / then / else, comments allowed. *)
From P2 Require Import Base.Prelude Sem.Num Lex.Token Syn.Ast Syn.Parse Syn.Render Syn.Full Gen.Generic Gen.GenericProofs
  Gen.Instances Gen.GenericFull Gen.GenericFullProofs Gen.InstanceProofs Generated.ExampleCfg Syn.RenderText Syn.RenderComfort.
From P2 Require Lex.Tok Lex.TokProofs.
Local Open Scope N_scope.

Definition float_tc : P2.Lex.Tok.tcfg :=
  P2.Lex.Tok.mkCfg (map (b_name fl) (g_ops fl float_cfg) ++ [[61]; [45; 62]] ++ map (u_name fl) (g_unary fl float_cfg))
        [] [s_let; s_if; s_then; s_else] true ex_float_comfort P2.Lex.Tok.MSimple
        (fun c => (97 <=? c) && (c <=? 122)) (fun c => (48 <=? c) && (c <=? 57)).

Theorem generic_text_comfort_correct : forall V (cfg : gcfg V), cfg_ok V cfg = true -> regroup_ok V cfg ->
  forall tc r ds args vals v (opt : bool),
    cspellable tc (pcfg_of cfg) r ds = true ->
    fwf (pcfg_of cfg) r = true -> accepts V cfg args r = true -> length args = length vals ->
    fdenote cfg (rho_of args vals) r = Some v ->
    run_text cfg tc opt args (render_comfort (pcfg_of cfg) r ds) vals = ROk v.
Proof.
  intros V cfg Hok R tc r ds args vals v opt H W A L D.
  unfold cspellable in H. apply andb_true_iff in H. destruct H as [_ Hs].
  destruct (comfort_layout tc (fflatten (pcfg_of cfg) r) ds Hs) as (Ho & Hw & Hl & Hx).
  unfold render_comfort. rewrite <- Hx.
  exact (generic_text_correct V cfg Hok R tc _ r args vals v opt Ho Hw Hl W A L D).
Qed.

Theorem float_text_comfort_correct : float_flags_justified ex_float_ops = true -> cfg_ok fl float_cfg = true ->
  forall tc r ds args vals v (opt : bool),
    cspellable tc (pcfg_of float_cfg) r ds = true ->
    fwf (pcfg_of float_cfg) r = true -> accepts fl float_cfg args r = true -> length args = length vals ->
    fdenote float_cfg (rho_of args vals) r = Some v ->
    run_text float_cfg tc opt args (render_comfort (pcfg_of float_cfg) r ds) vals = ROk v.
Proof. intros J H. exact (generic_text_comfort_correct fl float_cfg H (float_regroup_ok J)). Qed.

(* the trees of  2a ,  (a+1)(1-a) ,  2(a) ,  a b  on the float table ( + is operator 3, - 4, * 5 ) and the directives
   that write them so: t = lexeme set tight, o = sign left out, b = lexeme with a blank behind it *)
Definition cd_t := mkDir false []. Definition cd_o := mkDir true []. Definition cd_b := mkDir false [P2.Lex.Tok.SBlank].
Definition cx_a := FIdent [97]. Definition cx_b := FIdent [98].
Definition cx_2a : ft := FBin 5 (FNum [50]) cx_a.
Definition cx_prod : ft := FBin 5 (FParen (FBin 3 cx_a (FNum [49]))) (FParen (FBin 4 (FNum [49]) cx_a)).
Definition cx_2pa : ft := FBin 5 (FNum [50]) (FParen cx_a).
Definition cx_ab : ft := FBin 5 cx_a cx_b.
Definition cd_2a := [cd_t; cd_o; cd_t].
Definition cd_prod := [cd_t; cd_t; cd_t; cd_t; cd_t; cd_o; cd_t; cd_t; cd_t; cd_t; cd_t].
Definition cd_2pa := [cd_t; cd_o; cd_t; cd_t; cd_t].
Definition cd_ab := [cd_b; cd_o; cd_t].
