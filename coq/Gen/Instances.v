(* The two instances of the generic generator the property names, built from the tables regenerated from
   example/bool.go and example/minimal.go (Generated/ExampleCfg.v).
   bool: the operators ARE their regenerated truth tables (Impl.Calc called on all four operand pairs), so the
   flag obligations of Props/C19.v are statements about the real operator implementations.
   float: exact dyadic floats of Sem/Num.v; an operator is tied to its Num.v definition by its spelling
   (hand-written after example/minimal.go) and checked against the regenerated samples of the real
   implementations ([float_samples_ok]); None = the result is not exactly representable or outside the
   exact model (Inf/NaN arithmetic, transcendental functions): "inexact".
   Definitions only. *)
From P2 Require Import Base.Prelude Sem.Num Lex.Token Syn.Ast Syn.Parse Gen.Generic Generated.ExampleCfg.
Local Open Scope N_scope.

(* ---------- flags ---------- *)
Fixpoint set_flags {V} (fl : list bool) (ops : list (binop V)) : list (binop V) :=
  match fl, ops with
  | f :: fl', o :: ops' => mkBin (b_name V o) (b_impl V o) (b_pure V o) f :: set_flags fl' ops'
  | _, _ => ops
  end.

Definition with_flags {V} (fl : list bool) (c : gcfg V) : gcfg V :=
  mkG (set_flags fl (g_ops V c)) (g_unary V c) (g_consts V c) (g_funcs V c) (g_tobool V c) (g_num V c).

(* ---------- bool ---------- *)
Definition b2n (a b : bool) : nat := ((if a then 2 else 0) + (if b then 1 else 0))%nat.
Definition b1n (a : bool) : nat := if a then 1%nat else O.

Definition bool_binop (e : str * bool * bool * list (option bool)) : binop bool :=
  let '(name, pure, comm, tbl) := e in
  mkBin name (fun a b => nth (b2n a b) tbl None) pure comm.

Definition bool_unop (e : str * list (option bool)) : unop bool :=
  mkUn (fst e) (fun a => nth (b1n a) (snd e) None).

(* example/bool.go declares no static function; one that is added is outside the model (its calls are errors here) *)
Definition bool_fn (e : str * Z * bool) : sfun bool :=
  let '(name, args, pure) := e in mkFn name args (fun _ => None) pure.

Definition bool_tobool : option (bool -> option bool) :=
  if ex_bool_has_tobool then Some (fun a => nth (b1n a) ex_bool_tobool_tbl None) else None.

Definition bool_cfg : gcfg bool :=
  mkG (map bool_binop ex_bool_ops) (map bool_unop ex_bool_unary) ex_bool_consts (map bool_fn ex_bool_funcs)
      bool_tobool None.

Definition bool_args : list str := [[97]; [98]; [99]].

(* ---------- float ---------- *)
Definition fl_of_bool (b : bool) : fl := if b then FFin 1 0 else fl_zero.

Definition fl_beq (a b : fl) : bool :=
  match a, b with
  | FFin m e, FFin m' e' => (m =? m')%Z && (e =? e')%Z
  | FNegZero, FNegZero => true
  | FInf x, FInf y => Bool.eqb x y
  | FNaN, FNaN => true
  | _, _ => false
  end.

(* math.Pow for the exponents 0, 1, 2, 3 (repeated exact multiplication); anything else is outside the model *)
Definition fl_pow (a b : fl) : option fl :=
  match b with
  | FFin 0 0 => Some (FFin 1 0)
  | FFin 1 0 => Some a
  | FFin 1 1 => fl_mul a a
  | FFin 3 0 => match fl_mul a a with Some s => fl_mul s a | None => None end
  | _ => None
  end.

(* An arithmetic operator reads its operands as binary64 values: a term of type fl that is not the normal form of
   a representable finite value (FFin 2 0, FFin 1 5000, Inf, NaN) is outside the exact model - the operation is
   undefined (None) on it.  Every value the model ever produces (numbers, constants, results, the arguments the
   harness passes) is such a normal form, on which [fl_in] is the identity (Gen/InstanceProofs.v good_fl_in). *)
Definition fl_in (a : fl) : option fl :=
  match a with
  | FFin m e => mkfl m e
  | FNegZero => Some FNegZero
  | _ => None
  end.

Definition chk2 (f : fl -> fl -> option fl) (a b : fl) : option fl :=
  match fl_in a, fl_in b with
  | Some a', Some b' => f a' b'
  | _, _ => None
  end.

Definition float_binimpl (name : str) : fl -> fl -> option fl :=
  match name with
  | [61] => fun a b => Some (fl_of_bool (fl_eqb a b))      (* = *)
  | [60] => fun a b => Some (fl_of_bool (fl_ltb a b))      (* < *)
  | [62] => fun a b => Some (fl_of_bool (fl_ltb b a))      (* > *)
  | [43] => chk2 fl_add
  | [45] => chk2 fl_sub
  | [42] => chk2 fl_mul
  | [47] => chk2 fl_div
  | [94] => fl_pow
  | _ => fun _ _ => None
  end.

(* prefix operators: the example's negation, and the operators the correspondence run adds to copies of the
   example to vary the set of prefix operators (harness/c19.go c19PrefixImpl: + identity, ! and = "is zero",
   ^ square, ~ successor, * double) *)
Definition float_unimpl (name : str) : fl -> option fl :=
  match name with
  | [45] => fun a => Some (fl_neg a)
  | [43] => fun a => Some a
  | [33] | [61] => fun a => Some (fl_of_bool (is_zero a))
  | [94] => fun a => chk2 fl_mul a a
  | [126] => fun a => chk2 fl_add a (FFin 1 0)
  | [42] => fun a => chk2 fl_mul a (FFin 1 1)
  | _ => fun _ => None
  end.

Definition s_sqr : str := [115; 113; 114].
(* the functions the correspondence run registers on copies of the float example through every registration API
   (harness/c19.go c19AddFunctions), each looking at ALL the arguments it is given:
   sum / sum3 (AddGoFunction: s := 0; s += x for every argument), max (greatest argument, an error without one),
   cnt (AddStaticFunction, variadic: Stack.Size), avg2 ((x + y) / 2), half (AddSimpleFunction: x / 2) *)
Definition fl_sum (l : list fl) : option fl :=
  fold_left (fun acc x => match acc with Some s => chk2 fl_add s x | None => None end) l (Some fl_zero).
Definition fl_max (l : list fl) : option fl :=
  match l with
  | [] => None
  | x :: r => Some (fold_left (fun m y => if fl_ltb m y then y else m) r x)
  end.
Definition fl_two : fl := FFin 1 1.

Definition float_fnimpl (name : str) : list fl -> option fl :=
  match name with
  | [115; 113; 114] => fun l => match l with [x] => fl_mul x x | _ => None end          (* sqr *)
  | [115; 117; 109] | [115; 117; 109; 51] => fl_sum                                      (* sum, sum3 *)
  | [109; 97; 120] => fl_max                                                             (* max *)
  | [99; 110; 116] => fun l => mkfl (Z.of_nat (length l)) 0                              (* cnt *)
  | [97; 118; 103; 50] =>                                                                (* avg2 *)
      fun l => match l with
               | [x; y] => match chk2 fl_add x y with Some s => chk2 fl_div s fl_two | None => None end
               | _ => None
               end
  | [104; 97; 108; 102] => fun l => match l with [x] => chk2 fl_div x fl_two | _ => None end   (* half *)
  | _ => fun _ => None                                       (* sin cos tan exp ln sqrt: transcendental *)
  end.

(* strconv.ParseFloat on the images the tokenizer's number matcher accepts, for decimal images whose value is
   a dyadic rational (digits, optionally a point and digits); everything else is outside the model *)
Fixpoint dec_digits (s : str) (acc : Z) (nd : Z) : option (Z * Z * str) :=
  match s with
  | c :: r => if (48 <=? c) && (c <=? 57) then dec_digits r (acc * 10 + Z.of_N (c - 48))%Z (nd + 1)%Z
              else Some (acc, nd, s)
  | [] => Some (acc, nd, [])
  end.

Definition parse_dec (s : str) : option fl :=
  match dec_digits s 0%Z 0%Z with
  | Some (ip, nd, rest) =>
      if (nd =? 0)%Z then None else
      match rest with
      | [] => mkfl ip 0
      | 46 :: frac =>
          match dec_digits frac ip 0%Z with
          | Some (n, k, []) =>
              (* n / 10^k = (n / 5^k) * 2^-k when 5^k divides n *)
              let p := (5 ^ k)%Z in
              if (n mod p =? 0)%Z then mkfl (n / p)%Z (- k)%Z else None
          | _ => None
          end
      | _ => None
      end
  | None => None
  end.

Definition float_binop (e : str * bool * bool) : binop fl :=
  let '(name, pure, comm) := e in mkBin name (float_binimpl name) pure comm.
Definition float_unop (name : str) : unop fl := mkUn name (float_unimpl name).
Definition float_fn (e : str * Z * bool) : sfun fl :=
  let '(name, args, pure) := e in mkFn name args (float_fnimpl name) pure.

Definition float_tobool : option (fl -> option bool) :=
  if ex_float_has_tobool then Some (fun c => Some (negb (is_zero c))) else None.   (* c != 0 *)

Definition float_cfg : gcfg fl :=
  mkG (map float_binop ex_float_ops) (map float_unop ex_float_unary) ex_float_consts (map float_fn ex_float_funcs)
      float_tobool (if ex_float_has_number then Some parse_dec else None).

Definition float_args : list str := [[97]; [98]].

(* a ToBool that accepts only 0 and 1: every other value is "not a boolean" (ok = false) *)
Definition strict_tobool (c : fl) : option bool :=
  if is_zero c then Some false else if fl_eqb c (FFin 1 0) then Some true else None.

(* the float table with another set of prefix operators (registration order), the functions of the variants
   (arity and purity regenerated: ex_var_funcs) and, if [strict], the strict ToBool *)
Definition float_var_cfg (unary : list str) (strict : bool) : gcfg fl :=
  mkG (g_ops fl float_cfg) (map float_unop unary) (g_consts fl float_cfg) (map float_fn ex_var_funcs)
      (if strict then Some strict_tobool else g_tobool fl float_cfg) (g_num fl float_cfg).

(* Parser.Parse stores for every prefix operator the position of the binary operator of the same spelling
   (unaryEntry.opPos, -1 = none); the parser model computes it at each use ([op_pos] in Syn/Parse.v parse_unary).
   The regenerated tables of the real parsers - the two examples and every prefix-operator variant the run
   uses - must agree with the model for EVERY prefix operator. *)
Definition prefix_tables_ok (tbls : list (list str * list (str * Z))) : bool :=
  forallb (fun t => forallb (fun up => match op_pos (fst t) (fst up) with
                                       | Some k => (Z.of_nat k =? snd up)%Z
                                       | None => (snd up =? -1)%Z
                                       end) (snd t)) tbls.

(* the model operators agree with the real ones on every regenerated sample on which the model is defined *)
Definition opt_fl_agrees (m : option fl) (o : option fl) : bool :=
  match m with
  | Some v => match o with Some w => fl_beq v w | None => false end
  | None => true
  end.

Definition float_samples_ok : bool :=
  forallb (fun s => let '(name, a, b, r) := s in opt_fl_agrees (float_binimpl name a b) r) ex_float_op_samples &&
  forallb (fun s => let '(name, a, r) := s in opt_fl_agrees (float_unimpl name a) r) ex_float_un_samples &&
  forallb (fun s => match float_tobool with
                    | Some tb => match tb (fst s), snd s with
                                 | Some x, Some y => Bool.eqb x y
                                 | None, None => true
                                 | _, _ => false
                                 end
                    | None => false
                    end) ex_float_tobool_samples.

(* the operators that may be flagged commutative: sum and product (their regrouping law is proved in
   Sem/NumProofs.v and Gen/InstanceProofs.v); any other flagged operator fails this check *)
Definition float_flags_justified (ops : list (str * bool * bool)) : bool :=
  forallb (fun e => let '(name, _, comm) := e in negb comm || str_eqb name [43] || str_eqb name [42]) ops.

(* how many samples the model decides (non-vacuity of the obligation above) *)
Definition float_samples_defined : nat :=
  length (filter (fun s => let '(name, a, b, _) := s in
                           match float_binimpl name a b with Some _ => true | None => false end) ex_float_op_samples).
