(* Proofs about the generic generator model (Gen/Generic.v).
   geval        environment semantics of the AST with values (the bridge between the three parts)
   exec_sound   the generated code, executed on the threaded value stack, computes geval
                (slot discipline: Let is the only binder, call sites reserve the pushed arguments)
   opt_sound    the optimizer (with the constant propagation of parseLet) preserves geval and gen_check
   front_sound  parse . tokens: the rendered source expression is parsed to a tree whose geval is [denote]
   C19 theorems are assembled at the end. *)
From P2 Require Import Base.Prelude Base.PreludeProofs Lex.Token Syn.Ast Syn.Parse Syn.Render Syn.ParseProofs
  Syn.ParseCor Gen.Generic.
Require Import Lia.
Local Open Scope N_scope.

(* ---------- small facts ---------- *)
Lemma str_eqb_true_eq a b : str_eqb a b = true -> a = b.
Proof. apply str_eqb_eq. Qed.

Lemma str_eqb_false_neq a b : str_eqb a b = false -> a <> b.
Proof. intros H E. subst. rewrite str_eqb_refl in H. discriminate. Qed.

Lemma str_eqb_neq a b : a <> b -> str_eqb a b = false.
Proof. intros H. destruct (str_eqb a b) eqn:E; auto. apply str_eqb_eq in E. contradiction. Qed.

Lemma index_of_lt x l i : index_of x l = Some i -> (i < length l)%nat.
Proof.
  revert i. induction l as [|y r IH]; intros i H; cbn [index_of] in H; [discriminate|].
  destruct (str_eqb y x).
  - inversion H. cbn. lia.
  - destruct (index_of x r) as [j|]; cbn in H; [|discriminate]. inversion H. specialize (IH j eq_refl). cbn. lia.
Qed.

Lemma index_of_app_l x l m i : index_of x l = Some i -> index_of x (l ++ m) = Some i.
Proof.
  revert i. induction l as [|y r IH]; intros i H; cbn [index_of app] in *; [discriminate|].
  destruct (str_eqb y x); auto.
  destruct (index_of x r) as [j|]; cbn in H; [|discriminate]. rewrite (IH j eq_refl). exact H.
Qed.

Lemma index_of_app_r x l m : index_of x l = None ->
  index_of x (l ++ m) = option_map (fun j => (length l + j)%nat) (index_of x m).
Proof.
  induction l as [|y r IH]; intros H; cbn [index_of app length] in *.
  - destruct (index_of x m); reflexivity.
  - destruct (str_eqb y x); [discriminate|].
    destruct (index_of x r) as [j|]; cbn in H; [discriminate|]. rewrite (IH eq_refl).
    destruct (index_of x m); reflexivity.
Qed.

Lemma in_am_app x l m : in_am x (l ++ m) = in_am x l || in_am x m.
Proof.
  unfold in_am. destruct (index_of x l) as [i|] eqn:E.
  - rewrite (index_of_app_l _ _ m _ E). reflexivity.
  - rewrite (index_of_app_r _ _ m E). destruct (index_of x m); reflexivity.
Qed.

Lemma in_am_single x y : in_am x [y] = str_eqb y x.
Proof. unfold in_am. cbn. destruct (str_eqb y x); reflexivity. Qed.

Lemma reserve_app am n : exists ps, reserve am n = am ++ ps /\ length ps = n /\
  forall p, In p ps -> exists k, p = ph k.
Proof.
  revert am. induction n as [|n IH]; intros am; cbn [reserve].
  - exists []. rewrite app_nil_r. repeat split; auto. intros p [].
  - destruct (IH (am ++ [ph (length am)])) as (ps & E & L & P).
    exists (ph (length am) :: ps). rewrite E, <- app_assoc. cbn. repeat split; auto.
    intros p [<-|H]; eauto.
Qed.

Lemma reserve_length am n : length (reserve am n) = (length am + n)%nat.
Proof. destruct (reserve_app am n) as (ps & E & L & _). rewrite E, app_length. lia. Qed.

Lemma index_of_reserve x am n i : index_of x am = Some i -> index_of x (reserve am n) = Some i.
Proof. intros H. destruct (reserve_app am n) as (ps & E & _). rewrite E. apply index_of_app_l. exact H. Qed.

(* a name the tokenizer can produce is never a reserved slot name *)
Definition is_ph (x : str) : bool := match x with 0 :: _ => true | _ => false end.

Lemma in_am_reserve x am n : is_ph x = false -> in_am x (reserve am n) = in_am x am.
Proof.
  intros R. destruct (reserve_app am n) as (ps & E & _ & P). rewrite E, in_am_app.
  destruct (in_am x ps) eqn:I; [|apply orb_false_r].
  exfalso. unfold in_am in I. destruct (index_of x ps) as [i|] eqn:Ei; [|discriminate].
  clear I E. revert i Ei. induction ps as [|p r IH]; intros i Ei; cbn [index_of] in Ei; [discriminate|].
  destruct (str_eqb p x) eqn:Ep.
  - apply str_eqb_eq in Ep. subst p. destruct (P x (or_introl eq_refl)) as [k ->]. discriminate.
  - destruct (index_of x r) as [j|] eqn:Ej; [|discriminate].
    eapply IH; [|reflexivity]. intros q Hq. apply P. right. exact Hq.
Qed.

Section Proofs.
Variable V : Type.
Variable cfg : gcfg V.

Notation gast := (gast V).

(* ---------- induction principle with the nested list ---------- *)
Section GastInd.
Variable P : gast -> Prop.
Hypothesis HConst : forall v, P (GConst v).
Hypothesis HIdent : forall x f, P (GIdent x f).
Hypothesis HLet : forall x v i, P v -> P i -> P (GLet x v i).
Hypothesis HIf : forall c t e, P c -> P t -> P e -> P (GIf c t e).
Hypothesis HUn : forall op a, P a -> P (GUn op a).
Hypothesis HOp : forall op a b, P a -> P b -> P (GOp op a b).
Hypothesis HCall : forall f args, P f -> Forall P args -> P (GCall f args).
Hypothesis HOther : P GOther.

Fixpoint gast_ind' (a : gast) : P a :=
  match a with
  | GConst v => HConst v
  | GIdent x f => HIdent x f
  | GLet x v i => HLet x v i (gast_ind' v) (gast_ind' i)
  | GIf c t e => HIf c t e (gast_ind' c) (gast_ind' t) (gast_ind' e)
  | GUn op a => HUn op a (gast_ind' a)
  | GOp op a b => HOp op a b (gast_ind' a) (gast_ind' b)
  | GCall f args =>
      HCall f args (gast_ind' f)
        ((fix go (l : list gast) : Forall P l :=
            match l with
            | [] => Forall_nil P
            | x :: r => Forall_cons x (gast_ind' x) (go r)
            end) args)
  | GOther => HOther
  end.
End GastInd.

(* ---------- environment semantics of the AST ---------- *)
Fixpoint geval (env : list (str * V)) (a : gast) : option V :=
  match a with
  | GConst v => Some v
  | GIdent x isfunc => if isfunc then None else assoc x env   (* a static function is not a value *)
  | GLet x v i => obind (geval env v) (fun va => geval ((x, va) :: env) i)
  | GIf c t e =>
      obind (geval env c) (fun cv =>
        obind (g_tobool V cfg) (fun tb =>
          match tb cv with
          | Some true => geval env t
          | Some false => geval env e
          | None => None
          end))
  | GUn op x => obind (geval env x) (fun v => obind (find_un cfg op) (fun u => u_impl V u v))
  | GOp op x y =>
      obind (geval env x) (fun xv => obind (geval env y) (fun yv =>
        obind (find_op cfg op) (fun o => b_impl V o xv yv)))
  | GCall f args =>
      match static_target cfg f with
      | Some fu =>
          if arity_mismatch fu (length args) then None
          else obind (omap (geval env) args) (f_impl V fu)
      | None => None
      end
  | GOther => None
  end.

Lemma obind_some {A B} (o : option A) (f : A -> option B) v :
  obind o f = Some v -> exists a, o = Some a /\ f a = Some v.
Proof. destruct o; cbn; intros H; [eauto|discriminate]. Qed.

Lemma omap_length {A B} (f : A -> option B) l vs : omap f l = Some vs -> length vs = length l.
Proof.
  revert vs. induction l as [|x r IH]; intros vs H; cbn [omap] in H.
  - inversion H. reflexivity.
  - destruct (f x); [|discriminate]. destruct (omap f r) as [ws|]; [|discriminate].
    inversion H. cbn. rewrite (IH ws eq_refl). reflexivity.
Qed.

(* ---------- the generated code computes geval: slot discipline ---------- *)
Definition lookups (am : list str) (env : list (str * V)) (data : list V) : Prop :=
  forall x v, assoc x env = Some v -> exists i, index_of x am = Some i /\ nth_error data i = Some v.

Definition inv (am : list str) (env : list (str * V)) (data : list V) (size : nat) : Prop :=
  length am = size /\ (size <= length data)%nat /\ lookups am env data.

(* the frame below [size] is untouched, the storage only grows *)
Definition ext (data data' : list V) (size : nat) : Prop :=
  (length data <= length data')%nat /\ forall i, (i < size)%nat -> nth_error data' i = nth_error data i.

Lemma ext_refl data size : ext data data size.
Proof. split; auto. Qed.

Lemma ext_trans d0 d1 d2 s1 s2 : (s1 <= s2)%nat -> ext d0 d1 s1 -> ext d1 d2 s2 -> ext d0 d2 s1.
Proof.
  intros L [L1 H1] [L2 H2]. split; [lia|]. intros i Hi. rewrite H2 by lia. apply H1. exact Hi.
Qed.

Lemma lookups_ext am env d d' size : length am = size -> lookups am env d -> ext d d' size -> lookups am env d'.
Proof.
  intros L H [_ E] x v Hx. destruct (H x v Hx) as (i & Hi & Hn). exists i. split; auto.
  rewrite E; auto. apply index_of_lt in Hi. lia.
Qed.

Lemma inv_ext am env d d' size : inv am env d size -> ext d d' size -> inv am env d' size.
Proof.
  intros (L & B & H) E. split; [exact L|]. split; [destruct E; lia|]. eapply lookups_ext; eauto.
Qed.

Lemma nth_firstn_lt {A} (l : list A) : forall n i, (i < n)%nat -> nth_error (firstn n l) i = nth_error l i.
Proof.
  induction l as [|x r IH]; intros n i H; destruct n; try lia; cbn [firstn]; [reflexivity|].
  destruct i; [reflexivity|]. cbn [nth_error]. apply IH. lia.
Qed.

Lemma st_set_spec (size : nat) (v : V) d : (size <= length d)%nat ->
  exists d2, st_set size v d = Some d2 /\ ext d d2 size /\ nth_error d2 size = Some v /\ (S size <= length d2)%nat.
Proof.
  intros L. unfold st_set. destruct (Nat.eqb_spec size (length d)) as [E|NE].
  - exists (d ++ [v]). split; [reflexivity|]. split; [|split].
    + split; [rewrite app_length; cbn; lia|]. intros i Hi. apply nth_error_app1. lia.
    + rewrite nth_error_app2 by lia. rewrite E, Nat.sub_diag. reflexivity.
    + rewrite app_length. cbn. lia.
  - assert (Hlt : (size < length d)%nat) by lia.
    apply Nat.ltb_lt in Hlt. rewrite Hlt. apply Nat.ltb_lt in Hlt.
    exists (firstn size d ++ v :: skipn (S size) d).
    assert (Lf : length (firstn size d) = size) by (rewrite firstn_length; lia).
    split; [reflexivity|]. split; [|split].
    + split.
      * rewrite app_length, Lf. cbn [length]. rewrite skipn_length. lia.
      * intros i Hi. rewrite nth_error_app1 by lia. apply nth_firstn_lt. exact Hi.
    + rewrite nth_error_app2 by lia. rewrite Lf, Nat.sub_diag. reflexivity.
    + rewrite app_length, Lf. cbn [length]. rewrite skipn_length. lia.
Qed.

Definition frame_has (data : list V) (size : nat) (pushed : list V) : Prop :=
  forall j v, nth_error pushed j = Some v -> nth_error data (size + j)%nat = Some v.

Lemma skipn_nth (d : list V) n v : nth_error d n = Some v -> skipn n d = v :: skipn (S n) d.
Proof.
  revert d. induction n as [|n IH]; intros d H; destruct d as [|x r]; cbn in H; try discriminate.
  - inversion H. reflexivity.
  - cbn [skipn]. rewrite (IH r H). reflexivity.
Qed.

Lemma frame_extract vs : forall d size, frame_has d size vs -> firstn (length vs) (skipn size d) = vs.
Proof.
  induction vs as [|v r IH]; intros d size H; [reflexivity|].
  assert (H0 : nth_error d size = Some v) by (rewrite <- (Nat.add_0_r size); apply H; reflexivity).
  rewrite (skipn_nth _ _ _ H0). cbn [length firstn]. f_equal. apply IH.
  intros j w Hj. replace (S size + j)%nat with (size + S j)%nat by lia. apply H. exact Hj.
Qed.

Definition exec_ok (a : gast) : Prop :=
  forall am env data size v,
    gen_check cfg am a = true -> geval env a = Some v -> inv am env data size ->
    exists data', exec cfg am a data size = (XOk v, data') /\ ext data data' size.

Lemma exec_args_sound : forall args, Forall exec_ok args ->
  forall am env size i data vs pushed,
    check_args (gen_check cfg) am args i = true ->
    omap (geval env) args = Some vs ->
    length am = size -> lookups am env data -> (size + i <= length data)%nat ->
    frame_has data size pushed -> length pushed = i ->
    exists data', exec_args (exec cfg) am size args i data = (None, data') /\
                  ext data data' size /\ frame_has data' size (pushed ++ vs).
Proof.
  induction 1 as [|a r Ha Hr IH]; intros am env size i data vs pushed C E L Lk B F Lp;
    cbn [check_args omap exec_args] in *.
  - inversion E. subst vs. exists data. rewrite app_nil_r. split; [reflexivity|]. split; [apply ext_refl|exact F].
  - apply andb_prop in C. destruct C as [C1 C2].
    destruct (geval env a) as [v|] eqn:Ev; [|discriminate].
    destruct (omap (geval env) r) as [ws|] eqn:Ews; [|discriminate]. inversion E. subst vs. clear E.
    assert (I : inv (reserve am i) env data (size + i)).
    { split; [rewrite reserve_length; lia|]. split; [exact B|].
      intros x w Hx. destruct (Lk x w Hx) as (j & Hj & Hn). exists j. split; auto. apply index_of_reserve. exact Hj. }
    destruct (Ha _ _ _ _ _ C1 Ev I) as (d1 & X1 & E1). rewrite X1.
    assert (B1 : (size + i <= length d1)%nat) by (destruct E1; lia).
    destruct (st_set_spec (size + i) v d1 B1) as (d2 & S2 & E2 & N2 & B2). rewrite S2.
    assert (E02 : ext data d2 (size + i)) by (eapply ext_trans; [|exact E1|exact E2]; lia).
    assert (F2 : frame_has d2 size (pushed ++ [v])).
    { intros j w Hj. destruct (Nat.lt_ge_cases j (length pushed)) as [Hlt|Hge].
      - rewrite nth_error_app1 in Hj by exact Hlt. destruct E02 as [_ E02]. rewrite E02 by lia. apply F. exact Hj.
      - rewrite nth_error_app2 in Hj by exact Hge. destruct (j - length pushed)%nat as [|k] eqn:Ek.
        + cbn in Hj. inversion Hj. subst w. replace (size + j)%nat with (size + i)%nat by lia. exact N2.
        + cbn in Hj. destruct k; discriminate. }
    destruct (IH am env size (S i) d2 ws (pushed ++ [v]) C2 Ews L) as (d3 & X3 & E3 & F3).
    + eapply lookups_ext; [exact L|exact Lk|]. destruct E02 as [L02 H02]. split; [exact L02|]. intros k Hk. apply H02. lia.
    + lia.
    + exact F2.
    + rewrite app_length. cbn. lia.
    + exists d3. split; [exact X3|]. split.
      * eapply ext_trans; [|shelve|exact E3]. lia.
        Unshelve. destruct E02 as [L02 H02]. split; [exact L02|]. intros k Hk. apply H02. lia.
      * rewrite <- app_assoc in F3. exact F3.
Qed.

Theorem exec_sound : forall a, exec_ok a.
Proof.
  induction a as [v|x f|x va i IHv IHi|c t e IHc IHt IHe|op a IHa|op a b IHa IHb|f args IHf IHargs|] using gast_ind';
    intros am env data size r G E I; cbn [gen_check geval exec] in *.
  - (* const *) inversion E. subst. exists data. split; [reflexivity|apply ext_refl].
  - (* ident *) destruct f; [discriminate|]. destruct I as (L & B & Lk). destruct (Lk x r E) as (i & Hi & Hn). rewrite Hi, Hn.
    exists data. split; [reflexivity|apply ext_refl].
  - (* let *)
    apply andb_prop in G. destruct G as [G Gi]. apply andb_prop in G. destruct G as [G Gx].
    apply andb_prop in G. destruct G as [Gv Gn].
    apply obind_some in E. destruct E as (w & Ev & Ei).
    destruct (IHv _ _ _ _ _ Gv Ev I) as (d1 & X1 & E1). rewrite X1.
    assert (I1 : inv am env d1 size) by (eapply inv_ext; eauto).
    destruct I1 as (L & B1 & Lk1).
    destruct (st_set_spec size w d1 B1) as (d2 & S2 & E2 & N2 & B2). rewrite S2.
    assert (I2 : inv (am ++ [x]) ((x, w) :: env) d2 (S size)).
    { split; [rewrite app_length; cbn; lia|]. split; [exact B2|].
      intros y u Hy. cbn [assoc] in Hy. destruct (str_eqb y x) eqn:Eyx.
      - inversion Hy. subst u. apply str_eqb_eq in Eyx. subst y. exists size. split; [|exact N2].
        apply negb_true_iff in Gx. unfold in_am in Gx. destruct (index_of x am) eqn:Ex; [discriminate|].
        rewrite (index_of_app_r _ _ [x] Ex). cbn. rewrite str_eqb_refl. cbn. f_equal. lia.
      - destruct (Lk1 y u Hy) as (j & Hj & Hn). exists j. split; [apply index_of_app_l; exact Hj|].
        destruct E2 as [_ E2]. rewrite E2; auto. apply index_of_lt in Hj. lia. }
    destruct (IHi _ _ _ _ _ Gi Ei I2) as (d3 & X3 & E3). exists d3. split; [exact X3|].
    eapply ext_trans; [|exact E1|]. { apply Nat.le_refl. }
    eapply ext_trans; [|exact E2|exact E3]. lia.
  - (* if *)
    destruct (g_tobool V cfg) as [tb|] eqn:Etb; [|discriminate].
    apply andb_prop in G. destruct G as [G Ge]. apply andb_prop in G. destruct G as [Gc Gt].
    apply obind_some in E. destruct E as (cv & Ec & E). cbn [obind] in E.
    destruct (IHc _ _ _ _ _ Gc Ec I) as (d1 & X1 & E1). rewrite X1.
    assert (I1 : inv am env d1 size) by (eapply inv_ext; eauto).
    destruct (tb cv) as [[|]|]; [| |discriminate].
    + destruct (IHt _ _ _ _ _ Gt E I1) as (d2 & X2 & E2). exists d2. split; [exact X2|].
      eapply ext_trans; [|exact E1|exact E2]. lia.
    + destruct (IHe _ _ _ _ _ Ge E I1) as (d2 & X2 & E2). exists d2. split; [exact X2|].
      eapply ext_trans; [|exact E1|exact E2]. lia.
  - (* unary *)
    apply obind_some in E. destruct E as (w & Ea & E). apply obind_some in E. destruct E as (u & Eu & E).
    destruct (IHa _ _ _ _ _ G Ea I) as (d1 & X1 & E1). rewrite X1, Eu, E. exists d1. split; [reflexivity|exact E1].
  - (* binary *)
    apply andb_prop in G. destruct G as [Ga Gb].
    apply obind_some in E. destruct E as (xv & Ea & E). apply obind_some in E. destruct E as (yv & Eb & E).
    apply obind_some in E. destruct E as (o & Eo & E).
    destruct (IHa _ _ _ _ _ Ga Ea I) as (d1 & X1 & E1). rewrite X1.
    assert (I1 : inv am env d1 size) by (eapply inv_ext; eauto).
    destruct (IHb _ _ _ _ _ Gb Eb I1) as (d2 & X2 & E2). rewrite X2, Eo, E. exists d2. split; [reflexivity|].
    eapply ext_trans; [|exact E1|exact E2]. lia.
  - (* call *)
    destruct (static_target cfg f) as [fu|] eqn:Est; [|discriminate].
    apply andb_prop in G. destruct G as [Gar Gargs]. apply negb_true_iff in Gar. rewrite Gar in E.
    apply obind_some in E. destruct E as (vs & Evs & E).
    destruct I as (L & B & Lk).
    destruct (exec_args_sound args IHargs am env size O data vs [] Gargs Evs L Lk) as (d1 & X1 & E1 & F1).
    + lia. + intros j w Hj. destruct j; discriminate. + reflexivity.
    + rewrite X1. cbn [app] in F1. rewrite <- (omap_length _ _ _ Evs).
      rewrite (frame_extract vs d1 size F1). rewrite Nat.eqb_refl, E. exists d1. split; [reflexivity|exact E1].
  - discriminate.
Qed.

(* ---------- the optimizer preserves geval ---------- *)
(* What the commutative flag must guarantee (the regrouping of optimizer.go): for a flagged operator,
   whenever the constant operation c1 op c2 = c is defined,
     (c1 op x) op c2  may be replaced by  c op x     and     (x op c1) op c2  by  x op c
   for ALL x: wherever the original is defined, the regrouped form is defined with the same value. *)
Definition regroup_ok : Prop :=
  forall o, In o (g_ops V cfg) -> b_comm V o = true ->
    forall c1 c2 c, b_impl V o c1 c2 = Some c ->
      forall x y v,
        (b_impl V o c1 x = Some y -> b_impl V o y c2 = Some v -> b_impl V o c x = Some v) /\
        (b_impl V o x c1 = Some y -> b_impl V o y c2 = Some v -> b_impl V o x c = Some v).

Lemma is_gconst_some (a : gast) c : is_gconst a = Some c -> a = GConst c.
Proof. destruct a; cbn; intros H; inversion H; reflexivity. Qed.

Lemma find_op_in op o : find_op cfg op = Some o -> In o (g_ops V cfg).
Proof. unfold find_op. intros H. apply find_some in H. apply H. Qed.

Lemma all_gconst_omap env args cs : all_gconst args = Some cs -> omap (geval env) args = Some cs.
Proof.
  revert cs. induction args as [|a r IH]; intros cs H; cbn [all_gconst omap] in *.
  - exact H.
  - destruct (is_gconst a) as [c|] eqn:Ec; [|discriminate]. apply is_gconst_some in Ec. subst a.
    destruct (all_gconst r) as [vs|]; [|discriminate]. cbn [geval]. rewrite (IH vs eq_refl). exact H.
Qed.

Lemma opt_node_sound : regroup_ok -> forall env a v,
  geval env a = Some v -> geval env (opt_node cfg a) = Some v.
Proof.
  intros R env a v E. destruct a as [c|x f|x va i|c t e|op a|op a b|f args|]; cbn [opt_node]; try exact E.
  - (* if *)
    destruct (g_tobool V cfg) as [tb|] eqn:Etb; [|exact E].
    destruct (is_gconst c) as [cv|] eqn:Ec; [|exact E]. apply is_gconst_some in Ec. subst c.
    cbn [geval obind] in E. rewrite Etb in E. cbn [obind] in E.
    destruct (tb cv) as [[|]|]; [exact E|exact E|discriminate].
  - (* unary *)
    destruct (find_un cfg op) as [u|] eqn:Eu; [|exact E].
    destruct (is_gconst a) as [c|] eqn:Ec; [|exact E]. apply is_gconst_some in Ec. subst a.
    cbn [geval obind] in E. rewrite Eu in E. cbn [obind] in E.
    destruct (u_impl V u c) as [co|] eqn:Eco; [|discriminate]. exact E.
  - (* binary *)
    destruct (find_op cfg op) as [o|] eqn:Eo; [|exact E].
    destruct (is_gconst b) as [bc|] eqn:Eb; [|exact E]. apply is_gconst_some in Eb. subst b.
    destruct (if b_pure V o then is_gconst a else None) as [ac|] eqn:Ea.
    + destruct (b_pure V o); [|discriminate]. apply is_gconst_some in Ea. subst a.
      cbn [geval obind] in E. rewrite Eo in E. cbn [obind] in E.
      destruct (b_impl V o ac bc) as [co|]; [exact E|discriminate].
    + clear Ea. destruct (b_comm V o) eqn:Ecomm; [|exact E].
      destruct a as [c|x f|x va i|c t e|op1 a1|op2 xa xb|f args|]; try exact E.
      destruct (str_eqb op2 op) eqn:Eop; [|exact E]. apply str_eqb_eq in Eop. subst op2.
      pose proof (R o (find_op_in _ _ Eo) Ecomm) as Ro.
      destruct (is_gconst xa) as [iac|] eqn:Exa.
      * apply is_gconst_some in Exa. subst xa.
        destruct (b_impl V o iac bc) as [co|] eqn:Eco; [|exact E].
        cbn [geval obind] in E. rewrite Eo in E.
        apply obind_some in E. destruct E as (y & Ey & E). cbn [obind] in E.
        apply obind_some in Ey. destruct Ey as (xv & Exv & Ey). cbn [obind] in Ey.
        cbn [geval obind]. rewrite Exv. cbn [obind]. rewrite Eo. cbn [obind].
        destruct (Ro iac bc co Eco xv y v) as [H1 _]. apply H1; assumption.
      * destruct (is_gconst xb) as [ibc|] eqn:Exb; [|exact E].
        apply is_gconst_some in Exb. subst xb.
        destruct (b_impl V o ibc bc) as [co|] eqn:Eco; [|exact E].
        cbn [geval obind] in E. rewrite Eo in E.
        apply obind_some in E. destruct E as (y & Ey & E). cbn [obind] in E.
        apply obind_some in Ey. destruct Ey as (xv & Exv & Ey). cbn [obind] in Ey.
        cbn [geval obind]. rewrite Exv. cbn [obind]. rewrite Eo. cbn [obind].
        destruct (Ro ibc bc co Eco xv y v) as [_ H2]. apply H2; assumption.
  - (* call *)
    destruct f as [c|name isf|x va i|c t e|op a|op a b|f0 args0|]; try exact E.
    destruct isf; [|exact E].
    destruct (find_fn cfg name) as [fu|] eqn:Ef; [|exact E].
    destruct (f_pure V fu); [|exact E].
    cbn [geval static_target] in E. rewrite Ef in E.
    destruct (arity_mismatch fu (length args)) eqn:Ear; [discriminate|].
    destruct (all_gconst args) as [cs|] eqn:Ecs; [|cbn [geval static_target]; rewrite Ef, Ear; exact E].
    rewrite (all_gconst_omap env args cs Ecs) in E. cbn [obind] in E. rewrite E. reflexivity.
Qed.

(* the environment seen by the optimized tree: the names parseLet has bound as constants are gone *)
Definition env_rel (sub : sub_t V) (env env' : list (str * V)) : Prop :=
  forall x, match assoc x sub with
            | Some (Some c) => assoc x env = Some c
            | _ => assoc x env' = assoc x env
            end.

Lemma static_target_opt sub f fu : static_target cfg f = Some fu -> opt_all cfg sub f = f.
Proof.
  destruct f as [c|x isf|x va i|c t e|op a|op a b|f0 args0|]; cbn; try discriminate.
  destruct isf; [reflexivity|discriminate].
Qed.

Lemma omap_opt_all sub env env' args :
  Forall (fun a => forall sub env env' v, env_rel sub env env' -> geval env a = Some v ->
                                          geval env' (opt_all cfg sub a) = Some v) args ->
  env_rel sub env env' -> forall vs, omap (geval env) args = Some vs ->
  omap (geval env') (map (opt_all cfg sub) args) = Some vs.
Proof.
  intros F Rel. induction F as [|a r Ha _ IH]; intros vs E; cbn [omap map] in *; [exact E|].
  destruct (geval env a) as [v|] eqn:Ea; [|discriminate].
  destruct (omap (geval env) r) as [ws|]; [|discriminate].
  rewrite (Ha _ _ _ _ Rel Ea), (IH ws eq_refl). exact E.
Qed.

Theorem opt_all_sound : regroup_ok -> forall a sub env env' v,
  env_rel sub env env' -> geval env a = Some v -> geval env' (opt_all cfg sub a) = Some v.
Proof.
  intros R.
  induction a as [c|x f|x va i IHv IHi|c t e IHc IHt IHe|op a IHa|op a b IHa IHb|f args IHf IHargs|] using gast_ind';
    intros sub env env' v Rel E; cbn [opt_all].
  - exact E.
  - cbn [geval] in E. destruct f; [discriminate|]. specialize (Rel x).
    destruct (assoc x sub) as [[c|]|] eqn:Es; cbn [geval]; try (rewrite Rel; exact E).
    rewrite Rel in E. exact E.
  - (* let *)
    cbn [geval] in E. apply obind_some in E. destruct E as (w & Ev & Ei).
    pose proof (IHv _ _ _ _ Rel Ev) as Hv.
    destruct (is_gconst (opt_all cfg sub va)) as [c|] eqn:Ec.
    + apply is_gconst_some in Ec. rewrite Ec in Hv. cbn [geval] in Hv. inversion Hv. subst c.
      apply (IHi ((x, Some w) :: sub) ((x, w) :: env) env' v); [|exact Ei].
      intros y. cbn [assoc]. destruct (str_eqb y x); [reflexivity|]. apply Rel.
    + cbn [geval]. rewrite Hv. cbn [obind].
      apply (IHi ((x, None) :: sub) ((x, w) :: env) ((x, w) :: env') v); [|exact Ei].
      intros y. cbn [assoc]. destruct (str_eqb y x); [reflexivity|]. apply Rel.
  - (* if *)
    apply opt_node_sound; [exact R|]. cbn [geval] in *.
    apply obind_some in E. destruct E as (cv & Ec & E). rewrite (IHc _ _ _ _ Rel Ec). cbn [obind] in *.
    destruct (g_tobool V cfg) as [tb|]; [|discriminate]. cbn [obind] in *.
    destruct (tb cv) as [[|]|]; [eapply IHt; eauto|eapply IHe; eauto|discriminate].
  - (* unary *)
    apply opt_node_sound; [exact R|]. cbn [geval] in *.
    apply obind_some in E. destruct E as (w & Ea & E). rewrite (IHa _ _ _ _ Rel Ea). exact E.
  - (* binary *)
    apply opt_node_sound; [exact R|]. cbn [geval] in *.
    apply obind_some in E. destruct E as (xv & Ea & E). apply obind_some in E. destruct E as (yv & Eb & E).
    rewrite (IHa _ _ _ _ Rel Ea). cbn [obind]. rewrite (IHb _ _ _ _ Rel Eb). exact E.
  - (* call *)
    apply opt_node_sound; [exact R|]. cbn [geval] in *.
    destruct (static_target cfg f) as [fu|] eqn:Est; [|discriminate].
    rewrite (static_target_opt sub f fu Est), Est, map_length.
    destruct (arity_mismatch fu (length args)); [discriminate|].
    apply obind_some in E. destruct E as (vs & Evs & E).
    rewrite (omap_opt_all sub env env' args IHargs Rel vs Evs). exact E.
  - exact E.
Qed.

(* ---------- the optimizer preserves gen_check ---------- *)
(* every identifier and every let-bound name is a name the tokenizer can produce (not a reserved slot name),
   an identifier the parser flagged as a static function is the callee of a call of that function, and
   every call is such a call (without a closure handler any other call is an error at run time) *)
Fixpoint names_ok (a : gast) : bool :=
  match a with
  | GConst _ | GOther => true
  | GIdent x isfunc => negb (is_ph x) && negb isfunc     (* a static function occurs in call position only *)
  | GLet x v i => negb (is_ph x) && names_ok v && names_ok i
  | GIf c t e => names_ok c && names_ok t && names_ok e
  | GUn _ x => names_ok x
  | GOp _ x y => names_ok x && names_ok y
  | GCall f args =>
      match static_target cfg f with Some _ => forallb names_ok args | None => false end
  end.

Definition not_const (sub : sub_t V) (x : str) : Prop :=
  match assoc x sub with Some (Some _) => False | _ => True end.

Definition am_rel (sub : sub_t V) (am am' : list str) : Prop :=
  (forall x, is_ph x = false -> in_am x am' = true -> in_am x am = true) /\
  (forall x, is_ph x = false -> in_am x am = true -> not_const sub x -> in_am x am' = true).

Lemma am_rel_reserve sub am am' i : am_rel sub am am' -> am_rel sub (reserve am i) (reserve am' i).
Proof.
  intros [R1 R2]. split; intros x Hp; rewrite !in_am_reserve by exact Hp; auto.
Qed.

Lemma opt_node_check am a : gen_check cfg am a = true -> gen_check cfg am (opt_node cfg a) = true.
Proof.
  intros G. destruct a as [c|x f|x va i|c t e|op a|op a b|f args|]; cbn [opt_node]; try exact G.
  - destruct (g_tobool V cfg) as [tb|] eqn:Etb; [|exact G].
    destruct (is_gconst c) as [cv|]; [|exact G].
    cbn [gen_check] in G. rewrite Etb in G. apply andb_prop in G. destruct G as [G Ge].
    apply andb_prop in G. destruct G as [Gc Gt].
    destruct (tb cv) as [[|]|]; [exact Gt|exact Ge|cbn [gen_check]; rewrite Etb, Gc, Gt, Ge; reflexivity].
  - destruct (find_un cfg op); [|exact G]. destruct (is_gconst a); [|exact G].
    destruct (u_impl V u v); [reflexivity|exact G].
  - destruct (find_op cfg op) as [o|]; [|exact G].
    destruct (is_gconst b) as [bc|] eqn:Eb; [|exact G].
    destruct (if b_pure V o then is_gconst a else None).
    + destruct (b_impl V o v bc); [reflexivity|exact G].
    + destruct (b_comm V o); [|exact G].
      destruct a as [c|x f|x va i|c t e|op1 a1|op2 xa xb|f args|]; try exact G.
      destruct (str_eqb op2 op); [|exact G].
      cbn [gen_check] in G. apply andb_prop in G. destruct G as [G Gb].
      apply andb_prop in G. destruct G as [Gxa Gxb].
      destruct (is_gconst xa).
      * destruct (b_impl V o v bc); [cbn [gen_check]; exact Gxb|cbn [gen_check]; rewrite Gxa, Gxb, Gb; reflexivity].
      * destruct (is_gconst xb); [|cbn [gen_check]; rewrite Gxa, Gxb, Gb; reflexivity].
        destruct (b_impl V o v bc); [cbn [gen_check]; rewrite Gxa; reflexivity|cbn [gen_check]; rewrite Gxa, Gxb, Gb; reflexivity].
  - destruct f as [c|name isf|x va i|c t e|op a|op a b|f0 args0|]; try exact G.
    destruct isf; [|exact G]. destruct (find_fn cfg name) as [fu|]; [|exact G].
    destruct (f_pure V fu); [|exact G]. destruct (arity_mismatch fu (length args)); [exact G|].
    destruct (all_gconst args); [|exact G]. destruct (f_impl V fu l); [reflexivity|exact G].
Qed.

Definition check_ok (a : gast) : Prop :=
  forall sub am am', names_ok a = true -> am_rel sub am am' -> gen_check cfg am a = true ->
                     gen_check cfg am' (opt_all cfg sub a) = true.

Lemma check_args_opt sub args : Forall check_ok args -> forallb names_ok args = true ->
  forall am am' i, am_rel sub am am' -> check_args (gen_check cfg) am args i = true ->
  check_args (gen_check cfg) am' (map (opt_all cfg sub) args) i = true.
Proof.
  induction 1 as [|a r Ha _ IH]; intros N am am' i Rel C; cbn [check_args map forallb] in *; [reflexivity|].
  apply andb_prop in N. destruct N as [Na Nr]. apply andb_prop in C. destruct C as [Ca Cr].
  rewrite (Ha sub _ _ Na (am_rel_reserve sub am am' i Rel) Ca). cbn [andb]. apply IH with (am := am); assumption.
Qed.

Theorem opt_all_check : forall a, check_ok a.
Proof.
  induction a as [c|x f|x va i IHv IHi|c t e IHc IHt IHe|op a IHa|op a b IHa IHb|f args IHf IHargs|] using gast_ind';
    intros sub am am' N Rel G; cbn [opt_all names_ok] in *.
  - reflexivity.
  - cbn [gen_check] in G. apply andb_prop in N. destruct N as [N Nf]. apply negb_true_iff in N.
    destruct f; [discriminate|].
    destruct (assoc x sub) as [[c|]|] eqn:Es; cbn [gen_check]; [reflexivity| |];
      (destruct Rel as [_ R2]; apply R2; auto; unfold not_const; rewrite Es; exact I).
  - (* let *)
    cbn [gen_check] in G.
    apply andb_prop in G. destruct G as [G Gi]. apply andb_prop in G. destruct G as [G Gx].
    apply andb_prop in G. destruct G as [Gv Gn].
    apply andb_prop in N. destruct N as [N Ni]. apply andb_prop in N. destruct N as [Nx Nv].
    apply negb_true_iff in Nx. apply negb_true_iff in Gx.
    pose proof (IHv sub am am' Nv Rel Gv) as Hv.
    destruct Rel as [R1 R2].
    destruct (is_gconst (opt_all cfg sub va)) as [c|] eqn:Ec.
    + apply (IHi ((x, Some c) :: sub) (am ++ [x]) am' Ni); [|exact Gi]. split.
      * intros y Hy H. rewrite in_am_app. rewrite (R1 y Hy H). reflexivity.
      * intros y Hy H NC. unfold not_const in NC. cbn [assoc] in NC.
        rewrite in_am_app, in_am_single in H. rewrite (str_eqb_sym x y) in H.
        destruct (str_eqb y x); [contradiction|]. rewrite orb_false_r in H. apply R2; auto.
    + cbn [gen_check]. rewrite Hv, Gn. cbn [andb].
      assert (Hx : in_am x am' = false).
      { destruct (in_am x am') eqn:E; [|reflexivity]. rewrite (R1 x Nx E) in Gx. discriminate. }
      rewrite Hx. cbn [negb andb].
      apply (IHi ((x, None) :: sub) (am ++ [x]) (am' ++ [x]) Ni); [|exact Gi]. split.
      * intros y Hy H. rewrite in_am_app in *. apply orb_prop in H. destruct H as [H|H].
        -- rewrite (R1 y Hy H). reflexivity.
        -- rewrite H. apply orb_true_r.
      * intros y Hy H NC. unfold not_const in NC. cbn [assoc] in NC. rewrite in_am_app in *.
        rewrite in_am_single in *. rewrite (str_eqb_sym x y) in *.
        destruct (str_eqb y x); [apply orb_true_r|]. rewrite orb_false_r in *. apply R2; auto.
  - (* if *)
    apply opt_node_check. cbn [gen_check] in *. destruct (g_tobool V cfg); [|discriminate].
    apply andb_prop in G. destruct G as [G Ge]. apply andb_prop in G. destruct G as [Gc Gt].
    apply andb_prop in N. destruct N as [N Ne]. apply andb_prop in N. destruct N as [Nc Nt].
    rewrite (IHc _ _ _ Nc Rel Gc), (IHt _ _ _ Nt Rel Gt), (IHe _ _ _ Ne Rel Ge). reflexivity.
  - apply opt_node_check. cbn [gen_check] in *. apply IHa with (am := am); assumption.
  - apply opt_node_check. cbn [gen_check] in *.
    apply andb_prop in G. destruct G as [Ga Gb]. apply andb_prop in N. destruct N as [Na Nb].
    rewrite (IHa _ _ _ Na Rel Ga), (IHb _ _ _ Nb Rel Gb). reflexivity.
  - (* call *)
    apply opt_node_check. cbn [gen_check] in *.
    destruct (static_target cfg f) as [fu|] eqn:Est; [|discriminate].
    rewrite (static_target_opt sub f fu Est), Est, map_length.
    apply andb_prop in G. destruct G as [Gar Gargs]. rewrite Gar. cbn [andb].
    eapply check_args_opt; eauto.
  - exact G.
Qed.

(* ---------- AST level: optimizer on or off, the generated function computes geval ---------- *)
Lemma lookups_combine : forall args (vals : list V), lookups args (combine args vals) vals.
Proof.
  induction args as [|a r IH]; intros vals x v H; destruct vals as [|w ws]; cbn [combine assoc] in H; try discriminate.
  cbn [index_of]. rewrite (str_eqb_sym a x). destruct (str_eqb x a).
  - inversion H. subst. exists O. split; reflexivity.
  - destruct (IH ws x v H) as (j & Hj & Hn). exists (S j). rewrite Hj. split; [reflexivity|exact Hn].
Qed.

Theorem gast_correct : regroup_ok -> forall a args vals v,
  names_ok a = true -> gen_check cfg args a = true -> length args = length vals ->
  geval (combine args vals) a = Some v ->
  forall opt : bool, run_gast cfg args (if opt then opt_all cfg [] a else a) vals = ROk v.
Proof.
  intros R a args vals v N G L E opt.
  assert (I : inv args (combine args vals) vals (length vals)).
  { split; [exact L|]. split; [apply Nat.le_refl|apply lookups_combine]. }
  assert (H : gen_check cfg args (if opt then opt_all cfg [] a else a) = true /\
              geval (combine args vals) (if opt then opt_all cfg [] a else a) = Some v).
  { destruct opt; [|split; assumption]. split.
    - apply (opt_all_check a [] args args N); [|exact G]. split; auto.
    - apply (opt_all_sound R a [] (combine args vals) (combine args vals) v); [|exact E]. intros x. reflexivity. }
  destruct H as [G' E']. unfold run_gast. rewrite G'.
  destruct (exec_sound _ _ _ _ _ _ G' E' I) as (d & X & _). rewrite X. reflexivity.
Qed.

(* ---------- front end: the rendered source expression is parsed to a tree whose geval is denote ---------- *)
Section SexpInd.
Variable P : sexp -> Prop.
Hypothesis HNum : forall i, P (SNum i).
Hypothesis HName : forall x, P (SName x).
Hypothesis HUn : forall op e, P e -> P (SUn op e).
Hypothesis HBin : forall op a b, P a -> P b -> P (SBin op a b).
Hypothesis HCall : forall f args, Forall P args -> P (SCall f args).
Hypothesis HLet : forall x v i, P v -> P i -> P (SLet x v i).
Hypothesis HIf : forall c t e, P c -> P t -> P e -> P (SIf c t e).
Fixpoint sexp_ind' (e : sexp) : P e :=
  match e with
  | SNum i => HNum i
  | SName x => HName x
  | SUn op a => HUn op a (sexp_ind' a)
  | SBin op a b => HBin op a b (sexp_ind' a) (sexp_ind' b)
  | SCall f args =>
      HCall f args ((fix go (l : list sexp) : Forall P l :=
                       match l with
                       | [] => Forall_nil P
                       | x :: r => Forall_cons x (sexp_ind' x) (go r)
                       end) args)
  | SLet x v i => HLet x v i (sexp_ind' v) (sexp_ind' i)
  | SIf c t e => HIf c t e (sexp_ind' c) (sexp_ind' t) (sexp_ind' e)
  end.
End SexpInd.

(* names of a source expression: none is a reserved slot name *)
Fixpoint snames_ok (e : sexp) : bool :=
  match e with
  | SNum _ => true
  | SName x => negb (is_ph x)
  | SUn _ a => snames_ok a
  | SBin _ a b => snames_ok a && snames_ok b
  | SCall _ args => forallb snames_ok args
  | SLet x v i => negb (is_ph x) && snames_ok v && snames_ok i
  | SIf c t e => snames_ok c && snames_ok t && snames_ok e
  end.

(* side conditions on the table (decidable): distinct binary operators none of which is the arrow, static
   function names and constant names are different, a constant name is not a number *)
Definition cfg_ok : bool :=
  table_ok (pcfg_of cfg) &&
  forallb (fun f => match assoc (f_name V f) (g_consts V cfg) with None => true | Some _ => false end) (g_funcs V cfg) &&
  forallb (fun kv => match g_num V cfg with
                     | Some np => match np (fst kv) with None => true | Some _ => false end
                     | None => true
                     end) (g_consts V cfg).

Lemma assoc_in {A} x (l : list (str * A)) v : assoc x l = Some v -> In (x, v) l.
Proof.
  induction l as [|[k w] r IH]; cbn [assoc]; [discriminate|]. destruct (str_eqb x k) eqn:E.
  - intros H. inversion H. subst. apply str_eqb_eq in E. subst. left. reflexivity.
  - intros H. right. apply IH. exact H.
Qed.

Lemma assoc_none {A} x (l : list (str * A)) : assoc x l = None -> forall k w, In (k, w) l -> str_eqb x k = false.
Proof.
  induction l as [|[k0 w0] r IH]; cbn [assoc]; intros H k w Hin; [destruct Hin|].
  destruct (str_eqb x k0) eqn:E; [discriminate|]. destruct Hin as [Hin|Hin].
  - inversion Hin. subst. exact E.
  - eapply IH; eauto.
Qed.

Lemma assoc_combine_mem x args (vals : list V) : length args = length vals ->
  (assoc x (combine args vals) = None <-> mem_str x args = false).
Proof.
  revert vals. induction args as [|a r IH]; intros vals L; destruct vals as [|w ws]; cbn in L; try discriminate.
  - cbn. split; reflexivity.
  - cbn [combine assoc mem_str]. destruct (str_eqb x a); cbn [orb].
    + split; discriminate.
    + apply IH. lia.
Qed.

Lemma lookup_fn_miss l rest x : (forall f, In f l -> str_eqb x (f_name V f) = false) ->
  lookup (map (fun f => id_function (f_name V f)) l ++ rest) x = lookup rest x.
Proof.
  induction l as [|f r IH]; intros H; cbn [map app lookup]; [reflexivity|].
  cbn [id_function id_name]. rewrite (H f (or_introl eq_refl)). apply IH. intros g Hg. apply H. right. exact Hg.
Qed.

Lemma lookup_fn_hit l rest x : (exists f, In f l /\ str_eqb x (f_name V f) = true) ->
  lookup (map (fun f => id_function (f_name V f)) l ++ rest) x = Some (mkId x [] true true []).
Proof.
  induction l as [|f r IH]; intros (g & Hg & Eg); [destruct Hg|]. cbn [map app lookup id_function id_name].
  destruct (str_eqb x (f_name V f)) eqn:E.
  - apply str_eqb_eq in E. rewrite <- E. reflexivity.
  - apply IH. destruct Hg as [<-|Hg]; [rewrite E in Eg; discriminate|]. exists g. split; assumption.
Qed.

Lemma lookup_const_miss (l : list (str * V)) rest x : (forall k w, In (k, w) l -> str_eqb x k = false) ->
  lookup (map (fun kv => id_constant (fst kv) (fst kv)) l ++ rest) x = lookup rest x.
Proof.
  induction l as [|[k w] r IH]; intros H; cbn [map app lookup]; [reflexivity|].
  cbn [id_constant id_name fst]. rewrite (H k w (or_introl eq_refl)). apply IH. intros k' w' Hg. eapply H. right. exact Hg.
Qed.

Lemma lookup_const_hit (l : list (str * V)) rest x : (exists k w, In (k, w) l /\ str_eqb x k = true) ->
  lookup (map (fun kv => id_constant (fst kv) (fst kv)) l ++ rest) x = Some (mkId x [] true false x).
Proof.
  induction l as [|[k w] r IH]; intros (k' & w' & Hg & Eg); [destruct Hg|]. cbn [map app lookup id_constant id_name fst].
  destruct (str_eqb x k) eqn:E.
  - apply str_eqb_eq in E. rewrite <- E. reflexivity.
  - apply IH. destruct Hg as [Hg|Hg]; [inversion Hg; subst; rewrite E in Eg; discriminate|]. exists k', w'. split; assumption.
Qed.

Definition base_ids : idents :=
  map (fun f => id_function (f_name V f)) (rev (g_funcs V cfg)) ++
  map (fun kv => id_constant (fst kv) (fst kv)) (rev (g_consts V cfg)).

Lemma ids_of_lookup args x :
  lookup (ids_of cfg args) x = if mem_str x args then Some (id_plain x) else lookup base_ids x.
Proof.
  unfold ids_of. fold base_ids. destruct args as [|a r]; [reflexivity|]. reflexivity.
Qed.

Lemma resolve_arg args x : mem_str x args = true -> resolve (ids_of cfg args) x = Some (AIdent x false).
Proof. intros H. unfold resolve. rewrite ids_of_lookup, H. reflexivity. Qed.

Lemma resolve_fn args x fu : mem_str x args = false -> find_fn cfg x = Some fu ->
  resolve (ids_of cfg args) x = Some (AIdent x true).
Proof.
  intros H F. unfold resolve. rewrite ids_of_lookup, H. unfold base_ids. rewrite lookup_fn_hit; [reflexivity|].
  unfold find_fn in F. apply find_some in F. destruct F as [Hin E]. exists fu. split; [|exact E].
  apply -> in_rev. exact Hin.
Qed.

Lemma resolve_const args x v : mem_str x args = false -> find_fn cfg x = None ->
  assoc x (g_consts V cfg) = Some v -> resolve (ids_of cfg args) x = Some (AConst x).
Proof.
  intros H F C. unfold resolve. rewrite ids_of_lookup, H. unfold base_ids. rewrite lookup_fn_miss.
  - rewrite <- (app_nil_r (map _ (rev (g_consts V cfg)))). rewrite lookup_const_hit; [reflexivity|].
    exists x, v. split; [apply -> in_rev; apply assoc_in; exact C|apply str_eqb_refl].
  - intros f Hf. apply in_rev in Hf. unfold find_fn in F. apply (find_none _ _ F f Hf).
Qed.

Definition incl_am (args am : list str) : Prop := forall x, mem_str x args = true -> in_am x am = true.

Lemma incl_am_reserve args am i : incl_am args am -> incl_am args (reserve am i).
Proof.
  intros H x Hx. specialize (H x Hx). unfold in_am in *. destruct (index_of x am) as [j|] eqn:E; [|discriminate].
  rewrite (index_of_reserve _ _ i _ E). reflexivity.
Qed.

Lemma cfg_ok_parts : cfg_ok = true ->
  table_ok (pcfg_of cfg) = true /\
  (forall f, In f (g_funcs V cfg) -> assoc (f_name V f) (g_consts V cfg) = None) /\
  (forall k w np, In (k, w) (g_consts V cfg) -> g_num V cfg = Some np -> np k = None).
Proof.
  unfold cfg_ok. intros H. apply andb_prop in H. destruct H as [H H3]. apply andb_prop in H. destruct H as [H1 H2].
  split; [exact H1|]. split.
  - intros f Hf. rewrite forallb_forall in H2. specialize (H2 f Hf). destruct (assoc (f_name V f) (g_consts V cfg)); [discriminate|reflexivity].
  - intros k w np Hk En. rewrite forallb_forall in H3. specialize (H3 (k, w) Hk). rewrite En in H3. cbn [fst] in H3.
    destruct (np k); [discriminate|reflexivity].
Qed.

Definition front_res (args : list str) (vals : list V) (r : rt) (v : V) : Prop :=
  exists a, erase (pcfg_of cfg) (ids_of cfg args) r = Some a /\ shape (pcfg_of cfg) r = true /\
            geval (combine args vals) (of_ast cfg a) = Some v /\ names_ok (of_ast cfg a) = true /\
            forall am, incl_am args am -> gen_check cfg am (of_ast cfg a) = true.

Definition front_ok (e : sexp) : Prop := forall args vals r v,
  to_rt cfg e = Some r -> length args = length vals -> snames_ok e = true ->
  denote cfg (combine args vals) e = Some v -> front_res args vals r v.

Lemma to_rargs_cons2 (f : sexp -> option rt) x y r :
  to_rargs f (x :: y :: r) = match f x, to_rargs f (y :: r) with
                             | Some a, Some ra => Some (RA_cons a ra)
                             | _, _ => None
                             end.
Proof. reflexivity. Qed.

Lemma front_args (Hok : cfg_ok = true) : forall l, Forall front_ok l ->
  forall args vals ra vs, to_rargs (to_rt cfg) l = Some ra -> length args = length vals ->
  forallb snames_ok l = true -> omap (denote cfg (combine args vals)) l = Some vs ->
  exists al, erase_args (pcfg_of cfg) (ids_of cfg args) ra = Some al /\ shape_args (pcfg_of cfg) ra = true /\
             omap (geval (combine args vals)) (map (of_ast cfg) al) = Some vs /\ length al = length l /\
             forallb names_ok (map (of_ast cfg) al) = true /\
             forall am i, incl_am args am -> check_args (gen_check cfg) am (map (of_ast cfg) al) i = true.
Proof.
  induction 1 as [|x r Hx Hr IH]; intros args vals ra vs T L N D.
  - cbn in T. inversion T. subst ra. cbn in D. inversion D. subst vs. exists []. cbn. repeat split; auto.
  - cbn [forallb] in N. apply andb_prop in N. destruct N as [Nx Nr].
    cbn [omap] in D. destruct (denote cfg (combine args vals) x) as [v|] eqn:Dx; [|discriminate].
    destruct (omap (denote cfg (combine args vals)) r) as [ws|] eqn:Dr; [|discriminate]. inversion D. subst vs. clear D.
    destruct r as [|y r'].
    + cbn [to_rargs] in T. destruct (to_rt cfg x) as [rx|] eqn:Tx; [|discriminate]. cbn in T. inversion T. subst ra.
      destruct (Hx args vals rx v Tx L Nx Dx) as (a & Ea & Sa & Ga & Na & Ca).
      cbn in Dr. inversion Dr. subst ws.
      exists [a]. rewrite erase_args_last, Ea. change (shape_args (pcfg_of cfg) (RA_last rx)) with (shape (pcfg_of cfg) rx).
      cbn [option_map map omap forallb check_args length]. rewrite Sa, Ga, Na. cbn.
      repeat split; auto. intros am i Hi. rewrite (Ca _ (incl_am_reserve _ _ i Hi)). reflexivity.
    + rewrite to_rargs_cons2 in T. remember (y :: r') as rr.
      destruct (to_rt cfg x) as [rx|] eqn:Tx; [|discriminate].
      destruct (to_rargs (to_rt cfg) rr) as [rar|] eqn:Tr; [|discriminate]. inversion T. subst ra.
      destruct (Hx args vals rx v Tx L Nx Dx) as (a & Ea & Sa & Ga & Na & Ca).
      destruct (IH args vals rar ws eq_refl L Nr Dr) as (al & Eal & Sal & Gal & Lal & Nal & Cal).
      exists (a :: al). rewrite erase_args_cons, Ea, Eal.
      change (shape_args (pcfg_of cfg) (RA_cons rx rar)) with (shape (pcfg_of cfg) rx && shape_args (pcfg_of cfg) rar).
      cbn [map omap forallb check_args length]. rewrite Sa, Sal, Ga, Gal, Na, Nal, Lal.
      repeat split; auto. intros am i Hi. rewrite (Ca _ (incl_am_reserve _ _ i Hi)). cbn [andb]. apply Cal. exact Hi.
Qed.

Theorem front_sound : cfg_ok = true -> forall e, front_ok e.
Proof.
  intros Hok. destruct (cfg_ok_parts Hok) as (H1 & H2 & H3).
  induction e as [img|x|op e IHe|op a b IHa IHb|f cargs IHargs|x v i _ _|c t e _ _ _] using sexp_ind';
    intros args vals r w T L N D; cbn [to_rt] in T; try discriminate.
  - (* number *)
    inversion T. subst r. cbn [denote] in D. destruct (g_num V cfg) as [np|] eqn:En; [|discriminate].
    assert (Ec : assoc img (g_consts V cfg) = None).
    { destruct (assoc img (g_consts V cfg)) as [u|] eqn:Ea; [|reflexivity].
      apply assoc_in in Ea. rewrite (H3 _ _ _ Ea eq_refl) in D. discriminate. }
    exists (AConst img). unfold erase, pcfg_of. cbn [c_num]. rewrite En. cbn. rewrite D. cbn.
    split; [reflexivity|]. split; [reflexivity|]. unfold dec. rewrite Ec, En, D. cbn. repeat split; auto.
  - (* name *)
    inversion T. subst r. cbn [denote] in D. cbn [snames_ok] in N.
    destruct (assoc x (combine args vals)) as [u|] eqn:Ea.
    + inversion D. subst u.
      assert (Hm : mem_str x args = true).
      { destruct (mem_str x args) eqn:Em; [reflexivity|]. apply (assoc_combine_mem x args vals L) in Em. rewrite Em in Ea. discriminate. }
      exists (AIdent x false). cbn [erase]. rewrite (resolve_arg args x Hm). cbn [of_ast geval names_ok gen_check shape].
      rewrite Ea, N. repeat split; auto.
    + assert (Hm : mem_str x args = false) by (apply (assoc_combine_mem x args vals L); exact Ea).
      assert (Hf : find_fn cfg x = None).
      { destruct (find_fn cfg x) as [fu|] eqn:Ef; [|reflexivity]. unfold find_fn in Ef. apply find_some in Ef.
        destruct Ef as [Hin Ex]. apply str_eqb_eq in Ex. subst x. rewrite (H2 fu Hin) in D. discriminate. }
      exists (AConst x). cbn [erase]. rewrite (resolve_const args x w Hm Hf D). cbn [of_ast shape]. unfold dec. rewrite D.
      cbn. repeat split; auto.
  - (* unary *)
    destruct (to_rt cfg e) as [re|] eqn:Te; [|discriminate]. cbn in T. inversion T. subst r.
    cbn [denote] in D. apply obind_some in D. destruct D as (u & De & D). apply obind_some in D. destruct D as (uo & Eu & D).
    destruct (IHe args vals re u Te L N De) as (a & Ea & Sa & Ga & Na & Ca).
    exists (AUn op a). cbn [erase shape]. rewrite Ea, Sa. cbn [option_map of_ast geval names_ok gen_check].
    rewrite Ga. cbn [obind]. rewrite Eu. cbn [obind]. rewrite D, Na.
    assert (Hm : mem_str op (c_unary (pcfg_of cfg)) = true).
    { apply mem_str_In. unfold pcfg_of. cbn [c_unary]. unfold find_un in Eu. apply find_some in Eu.
      destruct Eu as [Hin Ex]. apply str_eqb_eq in Ex. subst op. apply in_map. exact Hin. }
    rewrite Hm. repeat split; auto.
  - (* binary *)
    destruct (level_of (map (b_name V) (g_ops V cfg)) op) as [j|] eqn:Ej; [|discriminate].
    destruct (to_rt cfg a) as [ra|] eqn:Ta; [|discriminate]. destruct (to_rt cfg b) as [rb|] eqn:Tb; [|discriminate].
    inversion T. subst r. cbn [snames_ok] in N. apply andb_prop in N. destruct N as [Na Nb].
    cbn [denote] in D. apply obind_some in D. destruct D as (xv & Da & D). apply obind_some in D. destruct D as (yv & Db & D).
    apply obind_some in D. destruct D as (o & Eo & D).
    destruct (IHa args vals ra xv Ta L Na Da) as (aa & Eaa & Saa & Gaa & Naa & Caa).
    destruct (IHb args vals rb yv Tb L Nb Db) as (ab & Eab & Sab & Gab & Nab & Cab).
    pose proof (level_of_some _ _ _ Ej) as Hn.
    exists (AOp op (N.of_nat j) aa ab). rewrite erase_RBin. cbn [shape].
    change (c_ops (pcfg_of cfg)) with (map (b_name V) (g_ops V cfg)).
    rewrite Hn, Eaa, Eab, Saa, Sab. cbn [of_ast geval names_ok gen_check].
    rewrite Gaa. cbn [obind]. rewrite Gab. cbn [obind]. rewrite Eo. cbn [obind]. rewrite D, Naa, Nab.
    assert (Hj : (j <? length (map (b_name V) (g_ops V cfg)))%nat = true).
    { apply Nat.ltb_lt. apply nth_error_Some. rewrite Hn. discriminate. }
    rewrite Hj. repeat split; auto. intros am Hi. rewrite (Caa _ Hi), (Cab _ Hi). reflexivity.
  - (* call *)
    destruct (to_rargs (to_rt cfg) cargs) as [ra|] eqn:Tr; [|discriminate]. cbn in T. inversion T. subst r.
    cbn [denote] in D. cbn [snames_ok] in N.
    destruct (assoc f (combine args vals)) eqn:Ea; [discriminate|].
    assert (Hm : mem_str f args = false) by (apply (assoc_combine_mem f args vals L); exact Ea).
    apply obind_some in D. destruct D as (fu & Ef & D).
    destruct (arity_mismatch fu (length cargs)) eqn:Ear; [discriminate|].
    apply obind_some in D. destruct D as (vs & Dvs & D).
    destruct (front_args Hok cargs IHargs args vals ra vs Tr L N Dvs) as (al & Eal & Sal & Gal & Lal & Nal & Cal).
    exists (ACall (AIdent f true) al). rewrite erase_RCall, erase_RIdent.
    change (shape (pcfg_of cfg) (RCall (RIdent f) ra)) with (shape_args (pcfg_of cfg) ra).
    rewrite (resolve_fn args f fu Hm Ef), Eal, Sal.
    cbn [of_ast geval names_ok gen_check static_target]. rewrite Ef, map_length, Lal, Ear, Gal. cbn [obind negb andb].
    rewrite D, Nal. repeat split; auto.
Qed.

Lemma mem_in_am x args : mem_str x args = true -> in_am x args = true.
Proof.
  unfold in_am. induction args as [|a r IH]; cbn [mem_str index_of]; [discriminate|].
  rewrite (str_eqb_sym a x). destruct (str_eqb x a); [reflexivity|]. cbn [orb]. intros H.
  specialize (IH H). destruct (index_of x r); [reflexivity|discriminate].
Qed.

(* ---------- the theorems of C19 for any value type and any table ---------- *)
(* token level, expression fragment: tokens of ANY parenthesisation [d] of the source expression e *)
Theorem generic_correct : cfg_ok = true -> regroup_ok ->
  forall e r d args vals v (opt : bool),
    to_rt cfg e = Some r -> snames_ok e = true -> length args = length vals ->
    denote cfg (rho_of args vals) e = Some v ->
    run cfg opt args (flatten (pcfg_of cfg) (pp (pcfg_of cfg) d r)) vals = ROk v.
Proof.
  intros Hok R e r d args vals v opt T N L D.
  destruct (front_sound Hok e args vals r v T L N D) as (a & Ea & Sa & Ga & Na & Ca).
  destruct (cfg_ok_parts Hok) as (H1 & _ & _).
  pose proof (pp_roundtrip_exact (pcfg_of cfg) (ids_of cfg args) H1 d r a Sa Ea) as P.
  unfold run, parse_opt. rewrite P.
  apply gast_correct; auto. apply Ca. intros x Hx. apply mem_in_am. exact Hx.
Qed.

End Proofs.

(* ---------- the regrouping law as a decidable check over a finite value type ---------- *)
Section Finite.
Variable V : Type.
Variable cfg : gcfg V.
Variable all : list V.
Hypothesis Hall : forall v, In v all.
Variable eqb : V -> V -> bool.
Hypothesis Heqb : forall a b, eqb a b = true -> a = b.

Definition same_def (r : option V) (v : V) : bool := match r with Some w => eqb w v | None => false end.

Definition regroup_at (o : binop V) (c1 c2 x : V) : bool :=
  match b_impl V o c1 c2 with
  | None => true
  | Some c =>
      (match b_impl V o c1 x with
       | Some y => match b_impl V o y c2 with Some v => same_def (b_impl V o c x) v | None => true end
       | None => true
       end) &&
      (match b_impl V o x c1 with
       | Some y => match b_impl V o y c2 with Some v => same_def (b_impl V o x c) v | None => true end
       | None => true
       end)
  end.

Definition regroup_check : bool :=
  forallb (fun o => negb (b_comm V o) ||
                    forallb (fun c1 => forallb (fun c2 => forallb (fun x => regroup_at o c1 c2 x) all) all) all)
          (g_ops V cfg).

Lemma regroup_check_ok : regroup_check = true -> regroup_ok V cfg.
Proof.
  intros H o Hin Hc c1 c2 c Ec x y v. unfold regroup_check in H. rewrite forallb_forall in H.
  specialize (H o Hin). rewrite Hc in H. cbn [negb orb] in H.
  rewrite forallb_forall in H. specialize (H c1 (Hall c1)).
  rewrite forallb_forall in H. specialize (H c2 (Hall c2)).
  rewrite forallb_forall in H. specialize (H x (Hall x)).
  unfold regroup_at in H. rewrite Ec in H. apply andb_prop in H. destruct H as [Ha Hb]. split.
  - intros E1 E2. rewrite E1, E2 in Ha. unfold same_def in Ha.
    destruct (b_impl V o c x) as [w|]; [|discriminate]. apply Heqb in Ha. subst. reflexivity.
  - intros E1 E2. rewrite E1, E2 in Hb. unfold same_def in Hb.
    destruct (b_impl V o x c) as [w|]; [|discriminate]. apply Heqb in Hb. subst. reflexivity.
Qed.
End Finite.

(* a table in which no operator is flagged commutative never regroups *)
Lemma regroup_ok_unflagged V (cfg : gcfg V) :
  forallb (fun o => negb (b_comm V o)) (g_ops V cfg) = true -> regroup_ok V cfg.
Proof.
  intros H o Hin Hc. rewrite forallb_forall in H. specialize (H o Hin). rewrite Hc in H. discriminate.
Qed.
