(* C19 for the two example instances: the obligations on the regenerated tables are decidable checks
   (evaluated in Props/C19.v by vm_compute); here they are connected to the generic theorems. *)
From P2 Require Import Base.Prelude Sem.Num Lex.Token Syn.Ast Syn.Parse Syn.Render Gen.Generic Gen.GenericProofs
  Gen.Instances Generated.ExampleCfg.
Require Import Lia.
Local Open Scope N_scope.

(* ---------- bool: a two-element domain ---------- *)
Definition bool_all : list bool := [false; true].
Lemma bool_all_in : forall b : bool, In b bool_all.
Proof. intros [|]; cbn; auto. Qed.
Lemma bool_eqb_eq : forall a b : bool, Bool.eqb a b = true -> a = b.
Proof. intros [|] [|]; cbn; congruence. Qed.

Fixpoint all_flags (n : nat) : list (list bool) :=
  match n with
  | O => [[]]
  | S m => flat_map (fun l => [false :: l; true :: l]) (all_flags m)
  end.

(* the table obligations of one bool table: side conditions and the regrouping law on all 8 triples per operator *)
Definition bool_table_ok (c : gcfg bool) : bool := cfg_ok bool c && regroup_check bool c bool_all Bool.eqb.

(* ... for every setting of the commutative flags *)
Definition bool_flags_ok : bool :=
  forallb (fun fl => bool_table_ok (with_flags fl bool_cfg)) (all_flags (length ex_bool_ops)).

Theorem bool_correct_cfg : forall c : gcfg bool, bool_table_ok c = true ->
  forall e r d args vals v (opt : bool),
    to_rt c e = Some r -> snames_ok e = true -> length args = length vals ->
    denote c (rho_of args vals) e = Some v ->
    run c opt args (flatten (pcfg_of c) (pp (pcfg_of c) d r)) vals = ROk v.
Proof.
  intros c H. apply andb_prop in H. destruct H as [H1 H2].
  apply (generic_correct bool c H1). exact (regroup_check_ok bool c bool_all bool_all_in Bool.eqb bool_eqb_eq H2).
Qed.

Theorem bool_correct_flags : bool_flags_ok = true ->
  forall fl, In fl (all_flags (length ex_bool_ops)) ->
  forall e r d args vals v (opt : bool),
    to_rt (with_flags fl bool_cfg) e = Some r -> snames_ok e = true -> length args = length vals ->
    denote (with_flags fl bool_cfg) (rho_of args vals) e = Some v ->
    run (with_flags fl bool_cfg) opt args
        (flatten (pcfg_of (with_flags fl bool_cfg)) (pp (pcfg_of (with_flags fl bool_cfg)) d r)) vals = ROk v.
Proof.
  intros H fl Hfl. unfold bool_flags_ok in H. rewrite forallb_forall in H.
  exact (bool_correct_cfg _ (H fl Hfl)).
Qed.

(* AST level (let / if forms included): whatever tree the parser delivers, with or without the optimizer the
   generated function computes the environment semantics of that tree *)
Theorem bool_ast_correct_cfg : forall c : gcfg bool, bool_table_ok c = true ->
  forall a args vals v,
    names_ok bool c a = true -> gen_check c args a = true -> length args = length vals ->
    geval bool c (combine args vals) a = Some v ->
    forall opt : bool, run_gast c args (if opt then opt_all c [] a else a) vals = ROk v.
Proof.
  intros c H. apply andb_prop in H. destruct H as [_ H2].
  apply (gast_correct bool c). exact (regroup_check_ok bool c bool_all bool_all_in Bool.eqb bool_eqb_eq H2).
Qed.

(* ---------- float ---------- *)
(* the table of example/minimal.go before the repair: '=' flagged commutative *)
Definition float_old_flags : list bool := true :: tl (map (fun o => snd o) ex_float_ops).
Definition float_cfg_old : gcfg fl := with_flags float_old_flags float_cfg.

Definition eq_old : binop fl := nth 0 (g_ops fl float_cfg_old) (mkBin [] (fun _ _ => None) false false).

(* (2 = a) = 1 at a = 2: 1 by the definitions, but regrouped to (2 = 1) = a, which is 0 *)
Theorem regroup_float_eq_refuted : ~ regroup_ok fl float_cfg_old.
Proof.
  intros H.
  assert (Hin : In eq_old (g_ops fl float_cfg_old)).
  { unfold eq_old. apply nth_In. vm_compute. lia. }
  assert (Hc : b_comm fl eq_old = true) by (vm_compute; reflexivity).
  assert (Ec : b_impl fl eq_old (FFin 1 1) (FFin 1 0) = Some fl_zero) by (vm_compute; reflexivity).
  destruct (H eq_old Hin Hc (FFin 1 1) (FFin 1 0) fl_zero Ec (FFin 1 1) (FFin 1 0) (FFin 1 0)) as [H1 _].
  assert (E1 : b_impl fl eq_old (FFin 1 1) (FFin 1 1) = Some (FFin 1 0)) by (vm_compute; reflexivity).
  assert (E2 : b_impl fl eq_old (FFin 1 0) (FFin 1 0) = Some (FFin 1 0)) by (vm_compute; reflexivity).
  specialize (H1 E1 E2). vm_compute in H1. discriminate.
Qed.

(* the strongest statement about the float table that is proved: the regrouping law is a hypothesis
   (it is the exact-arithmetic associativity of + and * on representable results; checked on a grid below) *)
Theorem float_correct_partial : forall c : gcfg fl, cfg_ok fl c = true -> regroup_ok fl c ->
  forall e r d args vals v (opt : bool),
    to_rt c e = Some r -> snames_ok e = true -> length args = length vals ->
    denote c (rho_of args vals) e = Some v ->
    run c opt args (flatten (pcfg_of c) (pp (pcfg_of c) d r)) vals = ROk v.
Proof. intros c H R. exact (generic_correct fl c H R). Qed.

(* without regrouping (no operator flagged) nothing is left to assume *)
Definition float_cfg_unflagged : gcfg fl := with_flags (map (fun _ => false) ex_float_ops) float_cfg.

Definition unflagged {V} (c : gcfg V) : bool := forallb (fun o => negb (b_comm V o)) (g_ops V c).

Theorem float_correct_unflagged : forall c : gcfg fl, cfg_ok fl c = true -> unflagged c = true ->
  forall e r d args vals v (opt : bool),
    to_rt c e = Some r -> snames_ok e = true -> length args = length vals ->
    denote c (rho_of args vals) e = Some v ->
    run c opt args (flatten (pcfg_of c) (pp (pcfg_of c) d r)) vals = ROk v.
Proof. intros c H U. exact (generic_correct fl c H (regroup_ok_unflagged fl c U)). Qed.

Theorem float_ast_correct_partial : forall c : gcfg fl, regroup_ok fl c ->
  forall a args vals v,
    names_ok fl c a = true -> gen_check c args a = true -> length args = length vals ->
    geval fl c (combine args vals) a = Some v ->
    forall opt : bool, run_gast c args (if opt then opt_all c [] a else a) vals = ROk v.
Proof. intros c R. exact (gast_correct fl c R). Qed.

(* the regrouping law of the flagged float operators on the property's grid of exactly representable operands *)
Definition float_grid : list fl :=
  [fl_zero; FFin 1 0; FFin (-1) 0; FFin 1 1; FFin 3 0; FFin (-3) 0; FFin 1 (-1); FFin (-3) (-1); FFin 1 2;
   FFin 1 (-2); FFin 1 3; FFin 5 (-1); FNegZero].
Definition float_regroup_on_grid (c : gcfg fl) : bool := regroup_check fl c float_grid fl_beq.
