(* C19 for the two example instances: the obligations on the regenerated tables are decidable checks
   (evaluated in Props/C19.v by vm_compute); here they are connected to the generic theorems. *)
From P2 Require Import Base.Prelude Base.PreludeProofs Sem.Num Sem.NumProofs Lex.Token Syn.Ast Syn.Parse Syn.Render
  Gen.Generic Gen.GenericProofs Gen.Instances Generated.ExampleCfg Syn.Full Gen.GenericFull Gen.GenericFullProofs.
From P2 Require Lex.Tok Lex.TokProofs.
Require Import Lia.
Local Open Scope N_scope.

(* ---------- bool: a two-element domain ---------- *)
Definition bool_all : list bool := [false; true].
Lemma bool_all_in : forall b : bool, In b bool_all.
Proof. intros [|]; cbn; auto. Qed.
Lemma bool_eqb_eq : forall a b : bool, Bool.eqb a b = true -> a = b.
Proof. intros [|] [|]; cbn; congruence. Qed.

Fixpoint all_flags (n : nat) : list (list bool) :=
  match n with
  | O => [[]]
  | S m => flat_map (fun l => [false :: l; true :: l]) (all_flags m)
  end.

(* the table obligations of one bool table: side conditions and the regrouping law on all 8 triples per operator *)
Definition bool_table_ok (c : gcfg bool) : bool := cfg_ok bool c && regroup_check bool c bool_all Bool.eqb.

(* ... for every setting of the commutative flags *)
Definition bool_flags_ok : bool :=
  forallb (fun fl => bool_table_ok (with_flags fl bool_cfg)) (all_flags (length ex_bool_ops)).

Theorem bool_correct_cfg : forall c : gcfg bool, bool_table_ok c = true ->
  forall e r d args vals v (opt : bool),
    to_rt c e = Some r -> snames_ok e = true -> length args = length vals ->
    denote c (rho_of args vals) e = Some v ->
    run c opt args (flatten (pcfg_of c) (pp (pcfg_of c) d r)) vals = ROk v.
Proof.
  intros c H. apply andb_prop in H. destruct H as [H1 H2].
  apply (generic_correct bool c H1). exact (regroup_check_ok bool c bool_all bool_all_in Bool.eqb bool_eqb_eq H2).
Qed.

Theorem bool_correct_flags : bool_flags_ok = true ->
  forall fl, In fl (all_flags (length ex_bool_ops)) ->
  forall e r d args vals v (opt : bool),
    to_rt (with_flags fl bool_cfg) e = Some r -> snames_ok e = true -> length args = length vals ->
    denote (with_flags fl bool_cfg) (rho_of args vals) e = Some v ->
    run (with_flags fl bool_cfg) opt args
        (flatten (pcfg_of (with_flags fl bool_cfg)) (pp (pcfg_of (with_flags fl bool_cfg)) d r)) vals = ROk v.
Proof.
  intros H fl Hfl. unfold bool_flags_ok in H. rewrite forallb_forall in H.
  exact (bool_correct_cfg _ (H fl Hfl)).
Qed.

(* AST level (let / if forms included): whatever tree the parser delivers, with or without the optimizer the
   generated function computes the environment semantics of that tree *)
Theorem bool_ast_correct_cfg : forall c : gcfg bool, bool_table_ok c = true ->
  forall a args vals v,
    names_ok bool c a = true -> gen_check c args a = true -> length args = length vals ->
    geval bool c (combine args vals) a = Some v ->
    forall opt : bool, run_gast c args (if opt then opt_all c [] a else a) vals = ROk v.
Proof.
  intros c H. apply andb_prop in H. destruct H as [_ H2].
  apply (gast_correct bool c). exact (regroup_check_ok bool c bool_all bool_all_in Bool.eqb bool_eqb_eq H2).
Qed.

(* ---------- float ---------- *)
(* the table of example/minimal.go before the repair: '=' flagged commutative *)
Definition float_old_flags : list bool := true :: tl (map (fun o => snd o) ex_float_ops).
Definition float_cfg_old : gcfg fl := with_flags float_old_flags float_cfg.

Definition eq_old : binop fl := nth 0 (g_ops fl float_cfg_old) (mkBin [] (fun _ _ => None) false false).

(* (2 = a) = 1 at a = 2: 1 by the definitions, but regrouped to (2 = 1) = a, which is 0 *)
Theorem regroup_float_eq_refuted : ~ regroup_ok fl float_cfg_old.
Proof.
  intros H.
  assert (Hin : In eq_old (g_ops fl float_cfg_old)).
  { unfold eq_old. apply nth_In. vm_compute. lia. }
  assert (Hc : b_comm fl eq_old = true) by (vm_compute; reflexivity).
  assert (Ec : b_impl fl eq_old (FFin 1 1) (FFin 1 0) = Some fl_zero) by (vm_compute; reflexivity).
  destruct (H eq_old Hin Hc (FFin 1 1) (FFin 1 0) fl_zero Ec (FFin 1 1) (FFin 1 0) (FFin 1 0)) as [H1 _].
  assert (E1 : b_impl fl eq_old (FFin 1 1) (FFin 1 1) = Some (FFin 1 0)) by (vm_compute; reflexivity).
  assert (E2 : b_impl fl eq_old (FFin 1 0) (FFin 1 0) = Some (FFin 1 0)) by (vm_compute; reflexivity).
  specialize (H1 E1 E2). vm_compute in H1. discriminate.
Qed.

(* ---------- the regrouping law of the flagged float operators, for ALL operands ---------- *)
Lemma fl_in_good a a' : fl_in a = Some a' -> good a'.
Proof.
  destruct a as [m e| | |]; cbn [fl_in]; try discriminate.
  - apply mkfl_good.
  - intros H. inversion H. exact I.
Qed.

Lemma good_fl_in a : good a -> fl_in a = Some a.
Proof. destruct a as [m e| | |]; cbn [fl_in good]; try tauto. apply good_mkfl. Qed.

(* an operation that regroups on well-formed values regroups, behind the operand check, on all terms *)
Section Chk.
Variable f : fl -> fl -> option fl.
Hypothesis f_comm : forall a b, f a b = f b a.
Hypothesis f_good : forall a b r, good a -> good b -> f a b = Some r -> good r.
Hypothesis f_regroup : forall c1 c2 x c y v, good c1 -> good c2 -> good x ->
  f c1 c2 = Some c -> f c1 x = Some y -> f y c2 = Some v -> f c x = Some v.

Lemma chk2_some a b r : chk2 f a b = Some r ->
  exists a' b', fl_in a = Some a' /\ fl_in b = Some b' /\ good a' /\ good b' /\ f a' b' = Some r /\ good r.
Proof.
  unfold chk2. destruct (fl_in a) as [a'|] eqn:Ea; [|discriminate]. destruct (fl_in b) as [b'|] eqn:Eb; [|discriminate].
  intros H. exists a', b'. pose proof (fl_in_good _ _ Ea). pose proof (fl_in_good _ _ Eb). eauto 10.
Qed.

Lemma chk2_regroup : forall c1 c2 c, chk2 f c1 c2 = Some c -> forall x y v,
  (chk2 f c1 x = Some y -> chk2 f y c2 = Some v -> chk2 f c x = Some v) /\
  (chk2 f x c1 = Some y -> chk2 f y c2 = Some v -> chk2 f x c = Some v).
Proof.
  intros c1 c2 c Hc x y v.
  destruct (chk2_some _ _ _ Hc) as (c1' & c2' & E1 & E2 & G1 & G2 & Fc & Gc).
  assert (Main : forall x', fl_in x = Some x' -> good x' -> f c1' x' = Some y -> good y ->
                            chk2 f y c2 = Some v -> f c x' = Some v).
  { intros x' Ex Gx Fy Gy Hv. unfold chk2 in Hv. rewrite (good_fl_in y Gy), E2 in Hv.
    exact (f_regroup c1' c2' x' c y v G1 G2 Gx Fc Fy Hv). }
  split; intros Hy Hv.
  - destruct (chk2_some _ _ _ Hy) as (a' & x' & Ea & Ex & _ & Gx & Fy & Gy).
    rewrite E1 in Ea. inversion Ea. subst a'.
    unfold chk2. rewrite (good_fl_in c Gc), Ex. exact (Main x' Ex Gx Fy Gy Hv).
  - destruct (chk2_some _ _ _ Hy) as (x' & a' & Ex & Ea & Gx & _ & Fy & Gy).
    rewrite E1 in Ea. inversion Ea. subst a'. rewrite f_comm in Fy.
    unfold chk2. rewrite Ex, (good_fl_in c Gc), f_comm. exact (Main x' Ex Gx Fy Gy Hv).
Qed.
End Chk.

Definition add_regroup := chk2_regroup fl_add fl_add_comm fl_add_good fl_add_regroup.
Definition mul_regroup := chk2_regroup fl_mul fl_mul_comm fl_mul_good fl_mul_regroup.

(* any float table whose flagged operators are among sum and product satisfies the regrouping law *)
Theorem float_regroup_ok : float_flags_justified ex_float_ops = true -> regroup_ok fl float_cfg.
Proof.
  intros J o Hin Hc. unfold float_cfg in Hin. cbn [g_ops] in Hin. apply in_map_iff in Hin.
  destruct Hin as ([[name pure] comm] & <- & Hin). cbn [float_binop b_comm b_impl] in *. subst comm.
  unfold float_flags_justified in J. rewrite forallb_forall in J. specialize (J _ Hin). cbn [negb orb] in J.
  apply orb_prop in J. destruct J as [J|J]; apply str_eqb_eq in J; subst name.
  - exact add_regroup.
  - exact mul_regroup.
Qed.

Theorem float_correct : float_flags_justified ex_float_ops = true -> cfg_ok fl float_cfg = true ->
  forall e r d args vals v (opt : bool),
    to_rt float_cfg e = Some r -> snames_ok e = true -> length args = length vals ->
    denote float_cfg (rho_of args vals) e = Some v ->
    run float_cfg opt args (flatten (pcfg_of float_cfg) (pp (pcfg_of float_cfg) d r)) vals = ROk v.
Proof. intros J H. exact (generic_correct fl float_cfg H (float_regroup_ok J)). Qed.

Theorem float_ast_correct : float_flags_justified ex_float_ops = true ->
  forall a args vals v,
    names_ok fl float_cfg a = true -> gen_check float_cfg args a = true -> length args = length vals ->
    geval fl float_cfg (combine args vals) a = Some v ->
    forall opt : bool, run_gast float_cfg args (if opt then opt_all float_cfg [] a else a) vals = ROk v.
Proof. intros J. exact (gast_correct fl float_cfg (float_regroup_ok J)). Qed.

(* a table as a parameter (any flags): with the regrouping law as the hypothesis *)
Theorem float_correct_partial : forall c : gcfg fl, cfg_ok fl c = true -> regroup_ok fl c ->
  forall e r d args vals v (opt : bool),
    to_rt c e = Some r -> snames_ok e = true -> length args = length vals ->
    denote c (rho_of args vals) e = Some v ->
    run c opt args (flatten (pcfg_of c) (pp (pcfg_of c) d r)) vals = ROk v.
Proof. intros c H R. exact (generic_correct fl c H R). Qed.

(* without regrouping (no operator flagged) nothing is left to assume *)
Definition float_cfg_unflagged : gcfg fl := with_flags (map (fun _ => false) ex_float_ops) float_cfg.

Definition unflagged {V} (c : gcfg V) : bool := forallb (fun o => negb (b_comm V o)) (g_ops V c).

Theorem float_correct_unflagged : forall c : gcfg fl, cfg_ok fl c = true -> unflagged c = true ->
  forall e r d args vals v (opt : bool),
    to_rt c e = Some r -> snames_ok e = true -> length args = length vals ->
    denote c (rho_of args vals) e = Some v ->
    run c opt args (flatten (pcfg_of c) (pp (pcfg_of c) d r)) vals = ROk v.
Proof. intros c H U. exact (generic_correct fl c H (regroup_ok_unflagged fl c U)). Qed.

(* the regrouping law of the flagged float operators on the property's grid of exactly representable operands *)
Definition float_grid : list fl :=
  [fl_zero; FFin 1 0; FFin (-1) 0; FFin 1 1; FFin 3 0; FFin (-3) 0; FFin 1 (-1); FFin (-3) (-1); FFin 1 2;
   FFin 1 (-2); FFin 1 3; FFin 5 (-1); FNegZero].
Definition float_regroup_on_grid (c : gcfg fl) : bool := regroup_check fl c float_grid fl_beq.

(* ---------- the full grammar (let, if-then-else), from tokens and from text ---------- *)
Theorem bool_tree_correct_cfg : forall c : gcfg bool, bool_table_ok c = true ->
  forall r args vals v (opt : bool),
    fwf (pcfg_of c) r = true -> accepts bool c args r = true -> length args = length vals ->
    fdenote c (rho_of args vals) r = Some v -> run_tree c opt args r vals = ROk v.
Proof.
  intros c H. apply andb_prop in H. destruct H as [H1 H2].
  exact (generic_tree_correct bool c H1 (regroup_check_ok bool c bool_all bool_all_in Bool.eqb bool_eqb_eq H2)).
Qed.

Theorem bool_text_correct_cfg : forall c : gcfg bool, bool_table_ok c = true ->
  forall tc items r args vals v (opt : bool),
    P2.Lex.TokProofs.ops_ok tc -> P2.Lex.TokProofs.wf_layout tc tInvalid false items ->
    P2.Lex.TokProofs.lexeme_tokens items = fflatten (pcfg_of c) r ->
    fwf (pcfg_of c) r = true -> accepts bool c args r = true -> length args = length vals ->
    fdenote c (rho_of args vals) r = Some v ->
    run_text c tc opt args (P2.Lex.Tok.layout_text items) vals = ROk v.
Proof.
  intros c H. apply andb_prop in H. destruct H as [H1 H2].
  exact (generic_text_correct bool c H1 (regroup_check_ok bool c bool_all bool_all_in Bool.eqb bool_eqb_eq H2)).
Qed.

Theorem float_tree_correct : float_flags_justified ex_float_ops = true -> cfg_ok fl float_cfg = true ->
  forall r args vals v (opt : bool),
    fwf (pcfg_of float_cfg) r = true -> accepts fl float_cfg args r = true -> length args = length vals ->
    fdenote float_cfg (rho_of args vals) r = Some v -> run_tree float_cfg opt args r vals = ROk v.
Proof. intros J H. exact (generic_tree_correct fl float_cfg H (float_regroup_ok J)). Qed.

Theorem float_text_correct : float_flags_justified ex_float_ops = true -> cfg_ok fl float_cfg = true ->
  forall tc items r args vals v (opt : bool),
    P2.Lex.TokProofs.ops_ok tc -> P2.Lex.TokProofs.wf_layout tc tInvalid false items ->
    P2.Lex.TokProofs.lexeme_tokens items = fflatten (pcfg_of float_cfg) r ->
    fwf (pcfg_of float_cfg) r = true -> accepts fl float_cfg args r = true -> length args = length vals ->
    fdenote float_cfg (rho_of args vals) r = Some v ->
    run_text float_cfg tc opt args (P2.Lex.Tok.layout_text items) vals = ROk v.
Proof. intros J H. exact (generic_text_correct fl float_cfg H (float_regroup_ok J)). Qed.
