(* C19 on the full grammar: the specification side on the rendering trees of Syn/Full.v.
   [fdenote cfg rho r] is the value the operators' own definitions give to the rendering tree r (an expression
   tree with explicit parentheses, let and if-then-else included) under lexical scoping: the tree structure is
   the grouping the declared priorities must reproduce ([fwf] says where parentheses may be left out).
   Supported forms = what a generic generator without list / map / closure / string handlers evaluates:
   identifiers, numbers, parentheses, binary and prefix operators, calls of static functions, let, if.
   Every other form (member access, method call, index, list and map literal, func, closure, switch, try) has
   no value here (None).  Definitions only. *)
From P2 Require Import Base.Prelude Lex.Token Syn.Ast Syn.Parse Syn.Render Gen.Generic Syn.Full.
From P2 Require Lex.Tok.
Local Open Scope N_scope.

Fixpoint fargs_len (a : fargs) : nat :=
  match a with
  | FA_nil => O
  | FA_last _ => 1%nat
  | FA_cons _ r => S (fargs_len r)
  end.

Section GenericFull.
Variable V : Type.
Variable cfg : gcfg V.

Fixpoint fdenote (rho : list (str * V)) (r : ft) {struct r} : option V :=
  match r with
  | FIdent x => match assoc x rho with Some v => Some v | None => assoc x (g_consts V cfg) end
  | FNum i => match g_num V cfg with Some np => np i | None => None end
  | FParen r' => fdenote rho r'
  | FBin j l r' =>
      (* the binary operator of level j, by its spelling *)
      obind (fdenote rho l) (fun x => obind (fdenote rho r') (fun y =>
        obind (nth_error (map (b_name V) (g_ops V cfg)) j) (fun name =>
          obind (find_op cfg name) (fun o => b_impl V o x y))))
  | FUn u e => obind (fdenote rho e) (fun v => obind (find_un cfg u) (fun uo => u_impl V uo v))
  | FCall (FIdent f) a =>
      match assoc f rho with
      | Some _ => None                                      (* a value is not a function *)
      | None =>
          obind (find_fn cfg f) (fun fu =>
            if arity_mismatch fu (fargs_len a) then None
            else obind (fdenote_args rho a) (f_impl V fu))
      end
  | FLet x v b => obind (fdenote rho v) (fun va => fdenote ((x, va) :: rho) b)
  | FIf c t e =>
      obind (fdenote rho c) (fun cv =>
        obind (g_tobool V cfg) (fun tb =>
          match tb cv with
          | Some true => fdenote rho t
          | Some false => fdenote rho e
          | None => None
          end))
  | _ => None
  end
with fdenote_args (rho : list (str * V)) (a : fargs) {struct a} : option (list V) :=
  match a with
  | FA_nil => Some []
  | FA_last e => obind (fdenote rho e) (fun v => Some [v])
  | FA_cons e r => obind (fdenote rho e) (fun v => obind (fdenote_args rho r) (fun vs => Some (v :: vs)))
  end.

(* Generate(text) + Eval: tokens of a rendering tree / tokens the tokenizer model sends *)
Definition run_tree (opt : bool) (args : list str) (r : ft) (vals : list V) : rres V :=
  run cfg opt args (fflatten (pcfg_of cfg) r) vals.

(* Generate(text) + Eval from the TEXT: the tokenizer model (Lex/Tok.v) configured by tc, then as above *)
Definition run_text (tc : P2.Lex.Tok.tcfg) (opt : bool) (args : list str) (text : list N) (vals : list V) : rres V :=
  run cfg opt args (map untok (P2.Lex.Tok.tokenize tc text)) vals.

End GenericFull.

Arguments fdenote {V} _ _ _. Arguments fdenote_args {V} _ _ _. Arguments run_tree {V} _ _ _ _ _. Arguments run_text {V} _ _ _ _ _ _.
