(* Non-vacuity of the text theorems of C19: a commented multi-line program with a let and an if-then-else for the
   bool instance (tokenizer configured as Parser.Parse configures it for the bool example with the keywords
   let / if / then / else, comments allowed as after GetParser().AllowComments()). *)
From P2 Require Import Base.Prelude Lex.Token Syn.Ast Syn.Parse Syn.Render Syn.Full Gen.Generic Gen.GenericProofs
  Gen.Instances Gen.GenericFull Gen.GenericFullProofs Gen.InstanceProofs Generated.ExampleCfg.
From P2 Require Import Lex.Tok Lex.TokProofs.
Local Open Scope N_scope.

(* operators of the bool table, then "=" and "->" and the prefix operators, as Parse hands them to the detector *)
Definition bool_tc : tcfg :=
  mkCfg (map (b_name bool) (g_ops bool bool_cfg) ++ [[61]; [45; 62]] ++ map (u_name bool) (g_unary bool bool_cfg))
        [] [s_let; s_if; s_then; s_else] true ex_bool_comfort MSimple
        (fun c => (97 <=? c) && (c <=? 122)) (fun c => (48 <=? c) && (c <=? 57)).

Lemma bool_tc_ops_ok : ops_ok bool_tc.
Proof.
  intros o H. vm_compute in H.
  repeat (destruct H as [<-|H]; [cbn; intuition discriminate|]). destruct H.
Qed.

(*  let x = a & b; // bind
    if x /* test */ then !c
    else x                      *)
Definition w_let := [108; 101; 116]. Definition w_if := [105; 102].
Definition w_then := [116; 104; 101; 110]. Definition w_else := [101; 108; 115; 101].
Definition ex_items : list item :=
  [ILex w_let [(tKeyWord, w_let)]; ISep [SBlank]; ILex [120] [(tIdent, [120])]; ISep [SBlank];
   ILex [61] [(tOperate, [61])]; ISep [SBlank]; ILex [97] [(tIdent, [97])]; ISep [SBlank];
   ILex [38] [(tOperate, [38])]; ISep [SBlank]; ILex [98] [(tIdent, [98])]; ILex [59] [(tSemicolon, [59])];
   ISep [SBlank; SLineC [98; 105; 110; 100] 10];
   ILex w_if [(tKeyWord, w_if)]; ISep [SBlank]; ILex [120] [(tIdent, [120])];
   ISep [SBlank; SBlockC [32; 116; 101; 115; 116; 32]; SBlank];
   ILex w_then [(tKeyWord, w_then)]; ISep [SBlank]; ILex [33] [(tOperate, [33])]; ILex [99] [(tIdent, [99])]; ISep [SLF];
   ILex w_else [(tKeyWord, w_else)]; ISep [SBlank]; ILex [120] [(tIdent, [120])]].

Definition ex_tree : ft :=
  FLet [120] (FBin 3 (FIdent [97]) (FIdent [98])) (FIf (FIdent [120]) (FUn [33] (FIdent [99])) (FIdent [120])).

Ltac side := first [exact I | intro ln; right; reflexivity | intro ln; left; reflexivity
                    | split; [reflexivity | intro ln; reflexivity]].
Ltac lexw c w := eapply wf_lex; [exact (lexeme_word bool_tc _ _ c w bool_tc_ops_ok eq_refl eq_refl eq_refl eq_refl eq_refl)
                                |reflexivity|side|].
Ltac lexo c := eapply wf_lex; [exact (lexeme_operator bool_tc _ _ c [] bool_tc_ops_ok eq_refl eq_refl eq_refl eq_refl)
                              |reflexivity|side|].
Ltac lexp c := eapply wf_lex; [exact (lexeme_punct bool_tc _ _ c _ bool_tc_ops_ok eq_refl)|reflexivity|side|].
Ltac sep := eapply wf_sep; [reflexivity|].

Example ex_items_wf : wf_layout bool_tc tInvalid false ex_items.
Proof.
  unfold ex_items.
  lexw 108 [101; 116]. sep. lexw 120 (@nil N). sep. lexo 61. sep. lexw 97 (@nil N). sep. lexo 38. sep.
  lexw 98 (@nil N). lexp 59. sep.
  lexw 105 [102]. sep. lexw 120 (@nil N). sep. lexw 116 [104; 101; 110]. sep. lexo 33. lexw 99 (@nil N). sep.
  lexw 101 [108; 115; 101]. sep. lexw 120 (@nil N). apply wf_nil.
Qed.

(* the text, as code points: 3 lines, a line comment and a block comment *)
Definition ex_text : list N := layout_text ex_items.

Example ex_lexemes : lexeme_tokens ex_items = fflatten (pcfg_of bool_cfg) ex_tree.
Proof. vm_compute. reflexivity. Qed.

Example ex_static : fwf (pcfg_of bool_cfg) ex_tree = true /\ accepts bool bool_cfg bool_args ex_tree = true.
Proof. vm_compute. split; reflexivity. Qed.

(* a = true, b = true, c = false: x = true, the if takes the then branch, !c = true *)
Example ex_value : fdenote bool_cfg (rho_of bool_args [true; true; false]) ex_tree = Some true.
Proof. vm_compute. reflexivity. Qed.

(* the theorem, instantiated: Generate(text).Eval(true, true, false), optimizer on and off *)
Theorem text_example : forall bt_ok : bool_table_ok bool_cfg = true, forall opt : bool,
  run_text bool_cfg bool_tc opt bool_args ex_text [true; true; false] = ROk true.
Proof.
  intros bt_ok opt.
  exact (bool_text_correct_cfg bool_cfg bt_ok bool_tc ex_items ex_tree bool_args [true; true; false] true opt
           bool_tc_ops_ok ex_items_wf ex_lexemes (proj1 ex_static) (proj2 ex_static) eq_refl ex_value).
Qed.

(* ... and the executable models (tokenizer, parser, optimizer, generator) compute the same from the text *)
Example text_example_model :
  ex_text = [108;101;116;32;120;32;61;32;97;32;38;32;98;59;32;47;47;98;105;110;100;10;
             105;102;32;120;32;47;42;32;116;101;115;116;32;42;47;32;116;104;101;110;32;33;99;10;
             101;108;115;101;32;120] /\
  run_text bool_cfg bool_tc true bool_args ex_text [true; true; false] = ROk true /\
  run_text bool_cfg bool_tc false bool_args ex_text [true; true; false] = ROk true /\
  run_text bool_cfg bool_tc true bool_args ex_text [true; false; false] = ROk false.
Proof. vm_compute. repeat split. Qed.
