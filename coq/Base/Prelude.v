(* Common definitions shared by all models: code-point strings, small list helpers. *)
From Coq Require Export List NArith ZArith Bool Lia.
Export ListNotations.

(* A string is the list of its Unicode code points (the model starts after UTF-8 decoding). *)
Definition str := list N.

Fixpoint str_eqb (a b : str) : bool :=
  match a, b with
  | [], [] => true
  | x :: a', y :: b' => N.eqb x y && str_eqb a' b'
  | _, _ => false
  end.

(* Lexicographic order on code points; coincides with Go's byte order on valid UTF-8. *)
Fixpoint str_ltb (a b : str) : bool :=
  match a, b with
  | [], [] => false
  | [], _ :: _ => true
  | _ :: _, [] => false
  | x :: a', y :: b' => if N.ltb x y then true else if N.eqb x y then str_ltb a' b' else false
  end.

Definition str_leb (a b : str) : bool := negb (str_ltb b a).

Fixpoint assoc {A} (k : str) (l : list (str * A)) : option A :=
  match l with
  | [] => None
  | (k', v) :: r => if str_eqb k k' then Some v else assoc k r
  end.

Fixpoint assocN {A} (k : N) (l : list (N * A)) : option A :=
  match l with
  | [] => None
  | (k', v) :: r => if N.eqb k k' then Some v else assocN k r
  end.

Fixpoint nrange (start : N) (count : nat) : list N :=
  match count with
  | O => []
  | S c => start :: nrange (N.succ start) c
  end.
