From P2 Require Import Base.Prelude.

Lemma str_eqb_refl : forall a, str_eqb a a = true.
Proof. induction a as [|x a IH]; simpl; [reflexivity|]. rewrite N.eqb_refl, IH. reflexivity. Qed.

Lemma str_eqb_eq : forall a b, str_eqb a b = true <-> a = b.
Proof.
  induction a as [|x a IH]; destruct b as [|y b]; simpl; split; intro H; try reflexivity; try discriminate.
  - apply andb_true_iff in H. destruct H as [H1 H2]. apply N.eqb_eq in H1. apply IH in H2. congruence.
  - inversion H; subst. rewrite N.eqb_refl. simpl. apply IH. reflexivity.
Qed.

Lemma str_eqb_sym : forall a b, str_eqb a b = str_eqb b a.
Proof.
  intros a b. destruct (str_eqb a b) eqn:E.
  - apply str_eqb_eq in E. subst. symmetry. apply str_eqb_refl.
  - destruct (str_eqb b a) eqn:E2; [|reflexivity]. apply str_eqb_eq in E2. subst.
    rewrite str_eqb_refl in E. discriminate.
Qed.

Lemma str_ltb_irrefl : forall a, str_ltb a a = false.
Proof. induction a as [|x a IH]; simpl; [reflexivity|]. rewrite N.ltb_irrefl, N.eqb_refl. exact IH. Qed.

Lemma str_ltb_trans : forall a b c, str_ltb a b = true -> str_ltb b c = true -> str_ltb a c = true.
Proof.
  induction a as [|x a IH]; destruct b as [|y b]; destruct c as [|z c]; simpl; intros H1 H2;
    try discriminate; try reflexivity.
  destruct (N.ltb_spec x y) as [Hxy|Hxy].
  - destruct (N.ltb_spec y z) as [Hyz|Hyz].
    + destruct (N.ltb_spec x z); [reflexivity|lia].
    + destruct (N.eqb_spec y z) as [->|]; [|discriminate].
      destruct (N.ltb_spec x z); [reflexivity|lia].
  - destruct (N.eqb_spec x y) as [->|]; [|discriminate].
    destruct (N.ltb_spec y z) as [Hyz|Hyz]; [reflexivity|].
    destruct (N.eqb_spec y z) as [->|]; [|discriminate]. eapply IH; eassumption.
Qed.

Lemma str_ltb_total : forall a b, str_ltb a b = false -> str_ltb b a = false -> a = b.
Proof.
  induction a as [|x a IH]; destruct b as [|y b]; simpl; intros H1 H2; try discriminate; try reflexivity.
  destruct (N.ltb_spec x y); [discriminate|]. destruct (N.ltb_spec y x); [discriminate|].
  assert (x = y) by lia. subst. rewrite N.eqb_refl in *. f_equal. apply IH; assumption.
Qed.

Lemma str_ltb_asym : forall a b, str_ltb a b = true -> str_ltb b a = false.
Proof.
  intros a b H. destruct (str_ltb b a) eqn:E; [|reflexivity].
  pose proof (str_ltb_trans _ _ _ H E) as T. rewrite str_ltb_irrefl in T. discriminate.
Qed.
