(* The line of a syntax error, from TEXT: the tokenizer model (Lex/Tok.v) composed with the position-carrying parser
   model (Syn/ParsePos.v) through the layouts of C15.  For every well-formed layout - lexemes separated by arbitrary
   runs of blanks, tabs, CR, LF, line and block comments - the line Parser.Parse reports for a syntax error is
   1 + the number of LF in the text in front of the lexeme the offending token belongs to (LF inside block comments
   included; CR alone does not count, CRLF counts once: token.go increments the line on '\n' only), and WHICH token is
   the offending one depends on the lexemes only, not on the layout. *)
From P2 Require Import Base.Prelude Lex.Token Syn.Ast Syn.Parse Syn.ParsePos Syn.ParsePosProofs Syn.TextToAst.
From P2 Require Lex.Tok Lex.TokProofs.
Require Import Lia.
Import P2.Lex.Tok P2.Lex.TokProofs.
Local Open Scope nat_scope.

Lemma tokens_of_layout : forall tc items, ops_ok tc -> wf_layout tc tInvalid false items ->
  tokenize tc (layout_text items) = expect items 1.
Proof. intros tc items Ho Hw. rewrite tokenize_lex by assumption. apply layout_correct; assumption. Qed.

Lemma untok_expect : forall items ln, map untok (expect items ln) = lexeme_tokens items.
Proof. intros items ln. rewrite untok_strip. apply strip_expect. Qed.

Lemma length_expect : forall items ln, length (expect items ln) = length (lexeme_tokens items).
Proof. intros items ln. rewrite <- (untok_expect items ln). rewrite map_length. reflexivity. Qed.

(* the token at position i of a layout, when i falls into the lexeme w: it carries the line w starts on *)
Lemma expect_nth_line : forall pre w toks post i t,
  length (lexeme_tokens pre) <= i < length (lexeme_tokens pre) + length toks ->
  nth_error (expect (pre ++ ILex w toks :: post) 1) i = Some t ->
  tline t = (1 + count_lf (layout_text pre))%N.
Proof.
  intros pre w toks post i t [Hlo Hhi] Hn. rewrite expect_app in Hn. cbn [expect] in Hn.
  rewrite nth_error_app2 in Hn by (rewrite length_expect; exact Hlo). rewrite length_expect in Hn.
  rewrite nth_error_app1 in Hn by (rewrite map_length; lia).
  apply nth_error_In in Hn. apply in_map_iff in Hn. destruct Hn as [p [Hp _]]. subst t. reflexivity.
Qed.

(* every position of the token list lies in exactly one lexeme *)
Lemma lexeme_of_index : forall items i, i < length (lexeme_tokens items) ->
  exists pre w toks post, items = pre ++ ILex w toks :: post
    /\ length (lexeme_tokens pre) <= i < length (lexeme_tokens pre) + length toks.
Proof.
  induction items as [|it items IH]; intros i Hi; [cbn in Hi; lia|].
  destruct it as [l|w toks].
  - destruct (IH i Hi) as [pre [w [toks [post [E H]]]]]. exists (ISep l :: pre), w, toks, post.
    split; [rewrite E; reflexivity|exact H].
  - unfold lexeme_tokens in Hi. cbn [flat_map] in Hi. rewrite app_length in Hi. fold (lexeme_tokens items) in Hi.
    destruct (Nat.ltb i (length toks)) eqn:E.
    + apply Nat.ltb_lt in E. exists [], w, toks, items. split; [reflexivity|]. cbn. lia.
    + apply Nat.ltb_ge in E. destruct (IH (i - length toks) ltac:(lia)) as [pre [w' [toks' [post [E' H]]]]].
      exists (ILex w toks :: pre), w', toks', post. split; [rewrite E'; reflexivity|].
      unfold lexeme_tokens. cbn [flat_map]. rewrite app_length. fold (lexeme_tokens pre). lia.
Qed.

(* the error line of a text: the offending token is token number i of the lexemes (decided by the position instance of
   the parser model on the lexemes alone); it belongs to the lexeme w; the line reported is 1 + the LFs in front of w *)
Theorem error_line_layout_lemma : forall (tc : tcfg) (pc : pcfg) (ids : idents) pre w toks post i,
  ops_ok tc -> wf_layout tc tInvalid false (pre ++ ILex w toks :: post) ->
  parse_idx pc ids (lexeme_tokens (pre ++ ILex w toks :: post)) = QErr (Some i) ->
  length (lexeme_tokens pre) <= i < length (lexeme_tokens pre) + length toks ->
  parse_pos pc ids (tokenize tc (layout_text (pre ++ ILex w toks :: post)))
  = QErr (Some (1 + count_lf (layout_text pre))%N).
Proof.
  intros tc pc ids pre w toks post i Ho Hw Hp Hi.
  rewrite (tokens_of_layout tc _ Ho Hw).
  rewrite <- (untok_expect _ 1%N) in Hp.
  destruct (error_at_token_reports_its_line pc ids _ i Hp) as [t [Ht Hr]].
  rewrite Hr. rewrite (expect_nth_line pre w toks post i t Hi Ht). reflexivity.
Qed.

(* without naming the lexeme: whenever the parser model fails at a token, there is a lexeme it belongs to and the line
   reported is the line that lexeme starts on *)
Theorem error_line_layout_exists_lemma : forall (tc : tcfg) (pc : pcfg) (ids : idents) items L,
  ops_ok tc -> wf_layout tc tInvalid false items ->
  parse_pos pc ids (tokenize tc (layout_text items)) = QErr (Some L) ->
  exists pre w toks post i, items = pre ++ ILex w toks :: post
    /\ parse_idx pc ids (lexeme_tokens items) = QErr (Some i)
    /\ length (lexeme_tokens pre) <= i < length (lexeme_tokens pre) + length toks
    /\ L = (1 + count_lf (layout_text pre))%N.
Proof.
  intros tc pc ids items L Ho Hw H.
  destruct (error_line_is_token_line_lemma pc ids _ L H) as [i [t [Hi [Ht HL]]]].
  rewrite (tokens_of_layout tc _ Ho Hw) in Hi, Ht. rewrite untok_expect in Hi.
  pose proof (parse_idx_in_range _ _ _ _ Hi) as Hr.
  destruct (lexeme_of_index items i Hr) as [pre [w [toks [post [E Hin]]]]].
  exists pre, w, toks, post, i. split; [exact E|]. split; [exact Hi|]. split; [exact Hin|].
  subst items. rewrite <- HL. apply (expect_nth_line pre w toks post i t Hin Ht).
Qed.

(* two well-formed layouts of the same lexemes: the same outcome, the same AST, an error at the SAME token (position
   in the lexeme list), each reporting the line that token has in its own text *)
Theorem error_token_layout_invariant_lemma : forall (tc : tcfg) (pc : pcfg) (ids : idents) items items',
  ops_ok tc -> wf_layout tc tInvalid false items -> wf_layout tc tInvalid false items' ->
  lexeme_tokens items = lexeme_tokens items' ->
  parse_pos pc ids (tokenize tc (layout_text items))
    = qmap nat N (line_at (tokenize tc (layout_text items))) (parse_idx pc ids (lexeme_tokens items))
  /\ parse_pos pc ids (tokenize tc (layout_text items'))
    = qmap nat N (line_at (tokenize tc (layout_text items'))) (parse_idx pc ids (lexeme_tokens items)).
Proof.
  intros tc pc ids items items' Ho H1 H2 He. split.
  - rewrite parse_pos_via_idx. rewrite (tokens_of_layout tc _ Ho H1) at 2. rewrite untok_expect. reflexivity.
  - rewrite parse_pos_via_idx. rewrite (tokens_of_layout tc _ Ho H2) at 2. rewrite untok_expect, He. reflexivity.
Qed.
