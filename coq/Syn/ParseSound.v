(* Soundness of the parser model on the expression fragment: a successful parse accounts for every token
   as a well-formed rendering of the tree it returns (no truncation, no regrouping). By induction on the
   fuel, one invariant per Go function. *)
From P2 Require Import Base.Prelude Base.PreludeProofs Lex.Token Syn.Ast Syn.Parse Syn.Render Syn.ParseRel Syn.ParseProofs.
Local Open Scope nat_scope.

Section Sound.
Variable cfg : pcfg.
Variable ids : idents.
Hypothesis Htable : table_ok cfg = true.
Let ops := c_ops cfg.
Let n := length ops.
Ltac nlia := unfold n, ops in *; lia.

Notation flatten := (flatten cfg).
Notation flatten_args := (flatten_args cfg).
Notation erase := (erase cfg ids).
Notation erase_args := (erase_args cfg ids).
Notation wf := (wf cfg).
Notation wf_args := (wf_args cfg).
Notation lvl := (lvl cfg).
Notation ab := (ab cfg).
Notation stops := (stops cfg).

(* ---------- soundness: a successful parse accounts for every token ---------- *)
Lemma frag_cons t ts : frag_toks (t :: ts) = true -> frag_tok t = true /\ frag_toks ts = true.
Proof. unfold frag_toks. cbn [forallb]. intros H. apply andb_true_iff in H. exact H. Qed.

Lemma frag_app a b : frag_toks (a ++ b) = true -> frag_toks b = true.
Proof. unfold frag_toks. rewrite forallb_app. intros H. apply andb_true_iff in H. tauto. Qed.

Lemma frag_adv ts : frag_toks ts = true -> frag_toks (adv ts) = true.
Proof. destruct ts; [auto|]. intros H. apply frag_cons in H. cbn [adv]. tauto. Qed.

Lemma frag_peek_kw ts s : frag_toks ts = true -> is_kw (peek ts) s = false.
Proof.
  destruct ts as [|[ty img] ts]; [reflexivity|]. intros H. apply frag_cons in H. destruct H as [H _].
  unfold frag_tok in H. cbn [peek]. unfold is_kw, typ_is. cbn [ktyp fst] in *. destruct ty; try discriminate; reflexivity.
Qed.

Lemma frag_peek_arrow ts : frag_toks ts = true -> is_op (peek ts) s_arrow = false.
Proof.
  destruct ts as [|[ty img] ts]; [reflexivity|]. intros H. apply frag_cons in H. destruct H as [H _].
  unfold frag_tok in H. cbn [peek]. unfold is_op, typ_is. cbn [ktyp kimg fst snd] in *.
  destruct ty; try reflexivity. cbn [ttype_eqb andb]. apply negb_true_iff in H. exact H.
Qed.

Lemma peek_typ ts ty : ktyp (peek ts) = ty -> ty <> tEof -> exists img ts1, ts = (ty, img) :: ts1.
Proof.
  destruct ts as [|[ty' img] ts1]; cbn [peek ktyp fst]; intros H Hn; [unfold tok_eof in H; cbn in H; congruence|].
  subst. eauto.
Qed.

Lemma ab_nonop r : wf r = true -> lvl r = S n -> ab r = n.
Proof.
  destruct r; cbn [Render.ab Render.lvl]; auto; intros W L; exfalso; rsimpl.
  - repeat (apply andb_true_iff in W; destruct W as [W ?]). apply Nat.ltb_lt in W. nlia.
  - nlia.
Qed.

Lemma stops_all rest : stops n rest.
Proof. intros j o Ho _. exact (nth_error_lt _ _ _ Ho). Qed.

Lemma identlist_suffix : forall f names ts names' ts',
  parse_identlist f names ts = POk (names', ts') -> exists pre, ts = pre ++ ts'.
Proof.
  induction f as [|f IH]; intros names ts names' ts' H; [discriminate|].
  cbn [parse_identlist] in H.
  destruct (typ_is (peek ts) tIdent); [|discriminate].
  destruct (mem_str (kimg (peek ts)) names); [discriminate|].
  destruct ts as [|t1 ts1]; cbn [peek adv] in H.
  - cbn in H. discriminate.
  - destruct ts1 as [|t2 ts2]; cbn [peek adv] in H.
    + cbn in H. discriminate.
    + destruct (ktyp t2); try discriminate.
      * inversion H; subst. exists [t1; t2]. reflexivity.
      * destruct (IH _ _ _ _ H) as [pre E]. exists (t1 :: t2 :: pre). rewrite E. reflexivity.
Qed.

(* the invariant a successful level-k parse establishes *)
Definition snd_level (k : nat) (ts : list tk) (e : ast) (rest : list tk) : Prop :=
  exists r, ts = flatten r ++ rest /\ wf r = true /\ erase r = Some e /\ k <= lvl r /\
            stops (Nat.min k (ab r)) rest.

Definition snd_nonop (ts : list tk) (e : ast) (rest : list tk) (lit : bool) : Prop :=
  exists r, ts = flatten r ++ rest /\ wf r = true /\ erase r = Some e /\ lvl r = S n /\
            (lit = true -> is_access r = false).

Record sound_at (f : nat) : Prop := {
  s_let : forall ts e u rest, parse_let cfg f ids ts = POk (e, u, rest) -> frag_toks ts = true ->
            snd_level 0 ts e rest;
  s_expr : forall ts e u rest, parse_expression cfg f ids ts = POk (e, u, rest) -> frag_toks ts = true ->
            snd_level 0 ts e rest;
  s_call : forall k ts e u rest, k <= n -> call_level cfg ids f k ts = POk (e, u, rest) -> frag_toks ts = true ->
            snd_level k ts e rest;
  s_loop : forall k o a u0 ts e u rest, nth_error ops k = Some o ->
            parse_op_loop cfg f k o a u0 ids ts = POk (e, u, rest) -> frag_toks ts = true ->
            forall ra, wf ra = true -> erase ra = Some a -> k <= lvl ra -> stops (Nat.min (S k) (ab ra)) ts ->
            exists r t, ts = t ++ rest /\ flatten r = flatten ra ++ t /\ wf r = true /\ erase r = Some e /\
                        k <= lvl r /\ stops (Nat.min k (ab r)) rest;
  s_nonop : forall ts e u rest, parse_nonop cfg f ids ts = POk (e, u, rest) -> frag_toks ts = true ->
            snd_nonop ts e rest false;
  s_postfix : forall a u0 ts e u rest, parse_postfix cfg f a u0 ids ts = POk (e, u, rest) -> frag_toks ts = true ->
            forall ra, wf ra = true -> erase ra = Some a -> lvl ra = S n ->
            (is_access ra = true -> typ_is (peek ts) tOpen = false) ->
            exists r t, ts = t ++ rest /\ flatten r = flatten ra ++ t /\ wf r = true /\ erase r = Some e /\
                        lvl r = S n;
  s_literal : forall ts e u rest, parse_literal cfg f ids ts = POk (e, u, rest) -> frag_toks ts = true ->
            snd_nonop ts e rest true;
  s_args : forall c kc ts args u rest, close_tok c kc ->
            parse_args cfg f c ids ts = POk (args, u, rest) -> frag_toks ts = true ->
            exists a, ts = flatten_args kc a ++ rest /\ wf_args a = true /\ erase_args a = Some args;
  s_args_loop : forall c kc acc u0 ts args u rest, close_tok c kc ->
            parse_args_loop cfg f c acc u0 ids ts = POk (args, u, rest) -> frag_toks ts = true ->
            exists a args', args = acc ++ args' /\ ts = flatten_args kc a ++ rest /\ wf_args a = true /\
                            erase_args a = Some args'
}.

Lemma close_tok_canon c kc t : close_tok c kc -> frag_tok t = true -> typ_is t c = true -> t = kc.
Proof.
  intros Hc Hf Ht. destruct t as [ty img]. apply typ_is_eq in Ht. cbn [ktyp fst] in Ht. subst ty.
  unfold frag_tok in Hf. cbn [ktyp kimg fst snd] in Hf.
  destruct Hc as [[-> ->]|[-> ->]]; apply str_eqb_eq in Hf; subst; reflexivity.
Qed.

Lemma peek_true ts ty : typ_is (peek ts) ty = true -> ty <> tEof -> exists img ts1, ts = (ty, img) :: ts1.
Proof. intros H. apply typ_is_eq in H. apply peek_typ. exact H. Qed.

Lemma sound_0 : sound_at 0.
Proof. constructor; intros; try discriminate.
  unfold call_level in *. destruct (_ <? _); discriminate.
Qed.

Ltac inv_pr H a u ts E :=
  match type of H with
  | match ?X with _ => _ end = _ => destruct X as [[[a u] ts]| | |] eqn:E; try discriminate
  end.

Lemma ops_nodup' : NoDup ops.
Proof. exact (ops_nodup cfg Htable). Qed.

Lemma nth_error_same j o o' : nth_error ops j = Some o -> nth_error ops j = Some o' -> o = o'.
Proof. congruence. Qed.

Section Step.
Variable f : nat.
Hypothesis IH : sound_at f.

Lemma step_expr : forall ts e u rest, parse_expression cfg (S f) ids ts = POk (e, u, rest) ->
  frag_toks ts = true -> snd_level 0 ts e rest.
Proof.
  intros ts e u rest H F. rewrite expression_is_level0 in H. exact (s_call f IH 0 ts e u rest (Nat.le_0_l n) H F).
Qed.

Lemma step_let : forall ts e u rest, parse_let cfg (S f) ids ts = POk (e, u, rest) ->
  frag_toks ts = true -> snd_level 0 ts e rest.
Proof.
  intros ts e u rest H F. rewrite parse_let_S_nokw in H by (apply frag_peek_kw; exact F).
  exact (s_expr f IH ts e u rest H F).
Qed.

Lemma peek_is_op ts o : is_op (peek ts) o = true -> ts = k_op o :: adv ts.
Proof.
  intros H. apply is_op_eq in H. destruct ts as [|t ts1]; cbn [peek adv] in *; [discriminate|]. subst. reflexivity.
Qed.

Lemma step_loop : forall k o a u0 ts e u rest, nth_error ops k = Some o ->
  parse_op_loop cfg (S f) k o a u0 ids ts = POk (e, u, rest) -> frag_toks ts = true ->
  forall ra, wf ra = true -> erase ra = Some a -> k <= lvl ra -> stops (Nat.min (S k) (ab ra)) ts ->
  exists r t, ts = t ++ rest /\ flatten r = flatten ra ++ t /\ wf r = true /\ erase r = Some e /\
              k <= lvl r /\ stops (Nat.min k (ab r)) rest.
Proof.
  intros k o a u0 ts e u rest Ho H F ra Wa Ea La Sa.
  assert (Hk : k < n) by (exact (nth_error_lt _ _ _ Ho)).
  rewrite parse_op_loop_S in H. destruct (is_op (peek ts) o) eqn:Eop.
  - pose proof (peek_is_op _ _ Eop) as Ets.
    inv_pr H b u2 ts2 Ec.
    assert (F1 : frag_toks (adv ts) = true) by (apply frag_adv; exact F).
    destruct (s_call f IH (S k) _ _ _ _ Hk Ec F1) as (rb & Etb & Wb & Eb & Lb & Sb).
    assert (Kab : k < ab ra).
    { specialize (Sa k o Ho Eop). lia. }
    assert (F2 : frag_toks ts2 = true) by (rewrite Etb in F1; eapply frag_app; exact F1).
    destruct (s_loop f IH k o _ _ _ _ _ _ Ho H F2 (RBin k ra rb)) as (r & t & Et & Fr & Wr & Er & Lr & Sr).
    + rsimpl. fold ops. fold n.
      rewrite (proj2 (Nat.ltb_lt _ _) Hk), Wa, Wb, (proj2 (Nat.leb_le _ _) La),
        (proj2 (Nat.ltb_lt _ _) Kab), (proj2 (Nat.leb_le _ _) Lb). reflexivity.
    + rsimpl. fold ops. rewrite Ho, Ea, Eb. reflexivity.
    + cbn [Render.lvl]. lia.
    + cbn [Render.ab]. exact Sb.
    + exists r, (k_op o :: flatten rb ++ t). repeat split; auto.
      * rewrite Ets, Etb, Et. cbn [app]. rewrite <- app_assoc. reflexivity.
      * rewrite Fr. rsimpl. fold ops. rewrite (nth_error_nth ops k [] Ho). rewrite <- app_assoc. reflexivity.
  - inversion H; subst. exists ra, []. rewrite app_nil_r. repeat split; auto.
    intros j o' Ho' Hop. specialize (Sa j o' Ho' Hop).
    assert (j <> k).
    { intros ->. rewrite (nth_error_same _ _ _ Ho' Ho) in Hop. congruence. }
    lia.
Qed.

Lemma step_op : forall k ts e u rest, k < n -> parse_op cfg (S f) k ids ts = POk (e, u, rest) ->
  frag_toks ts = true -> snd_level k ts e rest.
Proof.
  intros k ts e u rest Hk H F. rewrite parse_op_S in H. fold ops in H.
  destruct (nth_error ops k) as [o|] eqn:Ho; [|discriminate].
  inv_pr H a u1 ts1 Ec.
  destruct (s_call f IH (S k) _ _ _ _ Hk Ec F) as (ra & Eta & Wa & Ea & La & Sa).
  assert (F1 : frag_toks ts1 = true) by (rewrite Eta in F; eapply frag_app; exact F).
  destruct (s_loop f IH k o _ _ _ _ _ _ Ho H F1 ra Wa Ea ltac:(lia) Sa) as (r & t & Et & Fr & Wr & Er & Lr & Sr).
  exists r. repeat split; auto. rewrite Eta, Et, Fr. rewrite <- app_assoc. reflexivity.
Qed.

Lemma step_unary : forall ts e u rest, parse_unary cfg (S f) ids ts = POk (e, u, rest) ->
  frag_toks ts = true -> snd_level n ts e rest.
Proof.
  intros ts e u rest H F. rewrite parse_unary_S in H. fold ops in H.
  destruct (head_unary cfg ts) eqn:HU.
  - unfold head_unary in HU. apply andb_true_iff in HU. destruct HU as [HU1 HU2].
    destruct (peek_true _ _ HU1 ltac:(discriminate)) as (uimg & ts1 & Ets). subst ts.
    cbn [peek adv kimg snd] in *. apply frag_cons in F. destruct F as [_ F1].
    destruct (op_pos ops uimg) as [p|] eqn:Ep.
    + rewrite (op_pos_level _ _ ops_nodup') in Ep.
      assert (Hp : nth_error ops p = Some uimg) by (apply level_of_some; exact Ep).
      assert (Hpn : p < n) by (exact (nth_error_lt _ _ _ Hp)).
      inv_pr H inner u1 ts2 Ec. inversion H; subst. clear H.
      destruct (s_call f IH (S p) _ _ _ _ Hpn Ec F1) as (r0 & Et0 & W0 & E0 & L0 & S0).
      exists (RUn uimg r0). rsimpl. fold ops. rewrite Ep, E0, HU2, W0. cbn [Render.lvl Render.ab]. fold ops. rewrite Ep.
      repeat split; auto.
      * rewrite Et0. reflexivity.
      * cbn [andb]. apply Nat.leb_le. exact L0.
      * eapply stops_mono; [|exact S0]. fold n. lia.
    + rewrite (op_pos_level _ _ ops_nodup') in Ep.
      inv_pr H inner u1 ts2 Ec. inversion H; subst. clear H.
      destruct (s_nonop f IH _ _ _ _ Ec F1) as (r0 & Et0 & W0 & E0 & L0 & _).
      exists (RUn uimg r0). rsimpl. fold ops. rewrite Ep, E0, HU2, W0. cbn [Render.lvl Render.ab]. fold ops. rewrite Ep.
      repeat split; auto.
      * rewrite Et0. reflexivity.
      * cbn [andb]. apply Nat.eqb_eq. exact L0.
      * eapply stops_mono; [|apply stops_all]. fold n. fold ops. lia.
  - destruct (s_nonop f IH _ _ _ _ H F) as (r0 & Et0 & W0 & E0 & L0 & _).
    exists r0. repeat split; auto; try nlia.
    rewrite (ab_nonop r0 W0 L0). eapply stops_mono; [|apply stops_all]. fold n. fold ops. lia.
Qed.

Lemma step_call : forall k ts e u rest, k <= n -> call_level cfg ids (S f) k ts = POk (e, u, rest) ->
  frag_toks ts = true -> snd_level k ts e rest.
Proof.
  intros k ts e u rest Hk H F. unfold call_level in H. fold ops in H. fold n in H.
  destruct (k <? n) eqn:Ek.
  - apply Nat.ltb_lt in Ek. eapply step_op; eauto.
  - apply Nat.ltb_ge in Ek. assert (k = n) by lia. subst k. eapply step_unary; eauto.
Qed.

Lemma step_nonop : forall ts e u rest, parse_nonop cfg (S f) ids ts = POk (e, u, rest) ->
  frag_toks ts = true -> snd_nonop ts e rest false.
Proof.
  intros ts e u rest H F. rewrite parse_nonop_S in H. inv_pr H a u1 ts1 Ec.
  destruct (s_literal f IH _ _ _ _ Ec F) as (r0 & Et0 & W0 & E0 & L0 & A0).
  assert (F1 : frag_toks ts1 = true) by (rewrite Et0 in F; eapply frag_app; exact F).
  destruct (s_postfix f IH _ _ _ _ _ _ H F1 r0 W0 E0 L0) as (r & t & Et & Fr & Wr & Er & Lr).
  - intros Hx. rewrite (A0 eq_refl) in Hx. discriminate.
  - exists r. repeat split; auto; [|discriminate]. rewrite Et0, Et, Fr, <- app_assoc. reflexivity.
Qed.

Lemma canon_tok ty img c : frag_tok (ty, img) = true ->
  match ty with
  | tOpen => c = [40%N] | tClose => c = [41%N] | tOpenBracket => c = [91%N] | tCloseBracket => c = [93%N]
  | tDot => c = [46%N] | tComma => c = [44%N] | _ => c = img
  end -> img = c.
Proof.
  unfold frag_tok. cbn [ktyp kimg fst snd]. intros H E.
  destruct ty; try (symmetry; exact E); try discriminate; apply str_eqb_eq in H; congruence.
Qed.

Lemma step_postfix : forall a u0 ts e u rest, parse_postfix cfg (S f) a u0 ids ts = POk (e, u, rest) ->
  frag_toks ts = true ->
  forall ra, wf ra = true -> erase ra = Some a -> lvl ra = S n ->
  (is_access ra = true -> typ_is (peek ts) tOpen = false) ->
  exists r t, ts = t ++ rest /\ flatten r = flatten ra ++ t /\ wf r = true /\ erase r = Some e /\ lvl r = S n.
Proof.
  intros a u0 ts e u rest H F ra Wa Ea La Aa. rewrite parse_postfix_S in H.
  assert (Ln : (lvl ra =? S n) = true) by (apply Nat.eqb_eq; exact La).
  destruct (ktyp (peek ts)) eqn:Ety;
    try (inversion H; subst; exists ra, []; rewrite app_nil_r; repeat split; auto; fail).
  - (* tOpen: call *)
    destruct (peek_typ _ _ Ety ltac:(discriminate)) as (img & ts1 & Ets). subst ts. cbn [adv peek] in *.
    apply frag_cons in F. destruct F as [Ft F1].
    rewrite (canon_tok _ _ [40%N] Ft eq_refl) in *.
    destruct (parse_args cfg f tClose ids ts1) as [[[args u2] ts2]| | |] eqn:Ec; try discriminate.
    destruct (s_args f IH tClose k_close _ _ _ _ ltac:(left; auto) Ec F1) as (a0 & Et0 & W0 & E0).
    assert (F2 : frag_toks ts2 = true) by (rewrite Et0 in F1; eapply frag_app; exact F1).
    assert (Na : is_access ra = false).
    { destruct (is_access ra); [|reflexivity]. specialize (Aa eq_refl). discriminate. }
    destruct (s_postfix f IH _ _ _ _ _ _ H F2 (RCall ra a0)) as (r & t & Et & Fr & Wr & Er & Lr).
    + rsimpl. fold ops. fold n. rewrite Wa, Ln, Na, W0. reflexivity.
    + rsimpl. rewrite Ea, E0. reflexivity.
    + reflexivity.
    + intros Hx. discriminate.
    + exists r, (k_open :: flatten_args k_close a0 ++ t). repeat split; auto.
      * rewrite Et0, Et. cbn [app]. rewrite <- app_assoc. reflexivity.
      * rewrite Fr. rsimpl. rewrite <- app_assoc. reflexivity.
  - (* tOpenBracket: index *)
    destruct (peek_typ _ _ Ety ltac:(discriminate)) as (img & ts1 & Ets). subst ts. cbn [adv peek] in *.
    apply frag_cons in F. destruct F as [Ft F1].
    rewrite (canon_tok _ _ [91%N] Ft eq_refl) in *.
    inv_pr H idx u2 ts2 Ec.
    destruct (s_expr f IH _ _ _ _ Ec F1) as (ri & Eti & Wi & Ei & _ & _).
    assert (F2 : frag_toks ts2 = true) by (rewrite Eti in F1; eapply frag_app; exact F1).
    destruct (typ_is (peek ts2) tCloseBracket) eqn:Ecb; cbn [negb] in H; [|discriminate].
    destruct (peek_true _ _ Ecb ltac:(discriminate)) as (img2 & ts3 & Ets2). subst ts2. cbn [adv] in *.
    apply frag_cons in F2. destruct F2 as [Ft2 F3].
    rewrite (canon_tok _ _ [93%N] Ft2 eq_refl) in *.
    destruct (s_postfix f IH _ _ _ _ _ _ H F3 (RIndex ra ri)) as (r & t & Et & Fr & Wr & Er & Lr).
    + rsimpl. fold ops. fold n. rewrite Wa, Ln, Wi. reflexivity.
    + rsimpl. rewrite Ea, Ei. reflexivity.
    + reflexivity.
    + intros Hx. discriminate.
    + exists r, (k_obr :: flatten ri ++ k_cbr :: t). repeat split; auto.
      * rewrite Eti, Et. cbn [app]. rewrite <- app_assoc. reflexivity.
      * rewrite Fr. rsimpl. rewrite <- app_assoc. cbn [app]. rewrite <- app_assoc. reflexivity.
  - (* tDot: member access or method call *)
    destruct (peek_typ _ _ Ety ltac:(discriminate)) as (img & ts1 & Ets). subst ts. cbn [adv peek] in *.
    apply frag_cons in F. destruct F as [Ft F1].
    rewrite (canon_tok _ _ [46%N] Ft eq_refl) in *.
    destruct (typ_is (peek ts1) tIdent) eqn:Eid; cbn [negb] in H; [|discriminate].
    destruct (peek_true _ _ Eid ltac:(discriminate)) as (x & ts2 & Ets1). subst ts1. cbn [adv peek kimg snd] in *.
    apply frag_cons in F1. destruct F1 as [_ F2].
    destruct (typ_is (peek ts2) tOpen) eqn:Eop; cbn [negb] in H.
    + destruct (peek_true _ _ Eop ltac:(discriminate)) as (img3 & ts3 & Ets2). subst ts2. cbn [adv] in *.
      apply frag_cons in F2. destruct F2 as [Ft3 F3].
      rewrite (canon_tok _ _ [40%N] Ft3 eq_refl) in *.
      destruct (parse_args cfg f tClose ids ts3) as [[[args u2] ts4]| | |] eqn:Ec; try discriminate.
      destruct (s_args f IH tClose k_close _ _ _ _ ltac:(left; auto) Ec F3) as (a0 & Et0 & W0 & E0).
      assert (F4 : frag_toks ts4 = true) by (rewrite Et0 in F3; eapply frag_app; exact F3).
      destruct (s_postfix f IH _ _ _ _ _ _ H F4 (RMethod ra x a0)) as (r & t & Et & Fr & Wr & Er & Lr).
      * rsimpl. fold ops. fold n. rewrite Wa, Ln, W0. reflexivity.
      * rsimpl. rewrite Ea, E0. reflexivity.
      * reflexivity.
      * intros Hx. discriminate.
      * exists r, (k_dot :: k_ident x :: k_open :: flatten_args k_close a0 ++ t). repeat split; auto.
        -- rewrite Et0, Et. cbn [app]. rewrite <- app_assoc. reflexivity.
        -- rewrite Fr. rsimpl. rewrite <- app_assoc. reflexivity.
    + destruct (s_postfix f IH _ _ _ _ _ _ H F2 (RAccess ra x)) as (r & t & Et & Fr & Wr & Er & Lr).
      * rsimpl. fold ops. fold n. rewrite Wa, Ln. reflexivity.
      * rsimpl. rewrite Ea. reflexivity.
      * reflexivity.
      * intros _. exact Eop.
      * exists r, (k_dot :: k_ident x :: t). repeat split; auto.
        -- rewrite Et. reflexivity.
        -- rewrite Fr. rsimpl. rewrite <- app_assoc. reflexivity.
Qed.

Lemma step_literal : forall ts e u rest, parse_literal cfg (S f) ids ts = POk (e, u, rest) ->
  frag_toks ts = true -> snd_nonop ts e rest true.
Proof.
  intros ts e u rest H F. rewrite parse_literal_S in H.
  destruct ts as [|[ty img] ts1]; [cbn in H; discriminate|].
  cbn [peek adv ktyp kimg fst snd] in H. apply frag_cons in F. destruct F as [Ft F1].
  destruct ty; try discriminate; try (cbn in Ft; discriminate).
  - (* tIdent *)
    rewrite (frag_peek_arrow _ F1) in H.
    destruct (resolve ids img) as [a|] eqn:Er; [|discriminate]. inversion H; subst.
    exists (RIdent img). rsimpl. repeat split; auto.
  - (* tOpen *)
    rewrite (canon_tok _ _ [40%N] Ft eq_refl) in *.
    destruct (typ_is (peek ts1) tIdent && typ_is (peek2 ts1) tComma) eqn:Ecl.
    + exfalso. destruct (parse_identlist (S (length ts1)) [] ts1) as [[names ts2]| | |] eqn:Eil; try discriminate.
      destruct (identlist_suffix _ _ _ _ _ Eil) as [pre Epre].
      assert (F2 : frag_toks ts2 = true) by (rewrite Epre in F1; eapply frag_app; exact F1).
      rewrite (frag_peek_arrow _ F2) in H. cbn [negb] in H. discriminate.
    + inv_pr H e0 u0 ts2 Ec.
      destruct (s_expr f IH _ _ _ _ Ec F1) as (r0 & Et0 & W0 & E0 & _ & _).
      assert (F2 : frag_toks ts2 = true) by (rewrite Et0 in F1; eapply frag_app; exact F1).
      destruct (typ_is (peek ts2) tClose) eqn:Ecp; cbn [negb] in H; [|discriminate].
      destruct (peek_true _ _ Ecp ltac:(discriminate)) as (img2 & ts3 & Ets2). subst ts2. cbn [adv] in *.
      apply frag_cons in F2. destruct F2 as [Ft2 _].
      rewrite (canon_tok _ _ [41%N] Ft2 eq_refl) in *.
      inversion H; subst. exists (RParen r0). rsimpl. repeat split; auto.
      cbn [app]. rewrite <- app_assoc. reflexivity.
  - (* tOpenBracket *)
    rewrite (canon_tok _ _ [91%N] Ft eq_refl) in *.
    destruct (parse_args cfg f tCloseBracket ids ts1) as [[[args u2] ts2]| | |] eqn:Ec; try discriminate.
    destruct (s_args f IH tCloseBracket k_cbr _ _ _ _ ltac:(right; auto) Ec F1) as (a0 & Et0 & W0 & E0).
    inversion H; subst. exists (RList a0). rsimpl. rewrite E0. repeat split; auto.
  - (* tNumber *)
    destruct (c_num cfg) as [np|] eqn:Enp; [|discriminate].
    destruct (np img) as [c|] eqn:Ec; [|discriminate]. inversion H; subst.
    exists (RNum img). rsimpl. rewrite Enp, Ec. repeat split; auto.
  - (* tString *)
    destruct (c_strh cfg) as [sh|] eqn:Esh; [|discriminate]. inversion H; subst.
    exists (RStr img). rsimpl. rewrite Esh. repeat split; auto.
Qed.

Lemma step_args : forall c kc ts args u rest, close_tok c kc ->
  parse_args cfg (S f) c ids ts = POk (args, u, rest) -> frag_toks ts = true ->
  exists a, ts = flatten_args kc a ++ rest /\ wf_args a = true /\ erase_args a = Some args.
Proof.
  intros c kc ts args u rest Hc H F. rewrite parse_args_S in H.
  destruct (typ_is (peek ts) c) eqn:Ec.
  - inversion H; subst.
    assert (Hne : c <> tEof) by (destruct Hc as [[-> _]|[-> _]]; discriminate).
    destruct (peek_true _ _ Ec Hne) as (img & ts1 & Ets). subst ts. cbn [adv peek] in *.
    apply frag_cons in F. destruct F as [Ft _].
    rewrite (close_tok_canon c kc _ Hc Ft Ec). exists RA_nil. rsimpl. repeat split; auto.
  - destruct (s_args_loop f IH c kc _ _ _ _ _ _ Hc H F) as (a & args' & Ea & Et & Wa & Era).
    exists a. cbn [app] in Ea. subst args'. repeat split; auto.
Qed.

Lemma step_args_loop : forall c kc acc u0 ts args u rest, close_tok c kc ->
  parse_args_loop cfg (S f) c acc u0 ids ts = POk (args, u, rest) -> frag_toks ts = true ->
  exists a args', args = acc ++ args' /\ ts = flatten_args kc a ++ rest /\ wf_args a = true /\
                  erase_args a = Some args'.
Proof.
  intros c kc acc u0 ts args u rest Hc H F. rewrite parse_args_loop_S in H.
  assert (Hne : c <> tEof) by (destruct Hc as [[-> _]|[-> _]]; discriminate).
  destruct (parse_let cfg f ids ts) as [[[el u1] ts1]| | |] eqn:El; try discriminate.
  destruct (s_let f IH _ _ _ _ El F) as (r0 & Et0 & W0 & E0 & _ & _).
  assert (F1 : frag_toks ts1 = true) by (rewrite Et0 in F; eapply frag_app; exact F).
  destruct (typ_is (peek ts1) c) eqn:Ec.
  - inversion H; subst.
    destruct (peek_true _ _ Ec Hne) as (img & ts2 & Ets). subst ts1. cbn [adv peek] in *.
    apply frag_cons in F1. destruct F1 as [Ft _].
    rewrite (close_tok_canon c kc _ Hc Ft Ec). exists (RA_last r0), [el]. rsimpl. rewrite E0.
    repeat split; auto. rewrite <- app_assoc. reflexivity.
  - destruct (typ_is (peek ts1) tComma) eqn:Ecm; cbn [negb] in H; [|discriminate].
    destruct (peek_true _ _ Ecm ltac:(discriminate)) as (img & ts2 & Ets). subst ts1. cbn [adv peek] in *.
    apply frag_cons in F1. destruct F1 as [Ft F2].
    rewrite (canon_tok _ _ [44%N] Ft eq_refl) in *.
    destruct (typ_is (peek ts2) c) eqn:Ec2.
    + inversion H; subst.
      destruct (peek_true _ _ Ec2 Hne) as (img3 & ts3 & Ets3). subst ts2. cbn [adv peek] in *.
      apply frag_cons in F2. destruct F2 as [Ft3 _].
      rewrite (close_tok_canon c kc _ Hc Ft3 Ec2). exists (RA_cons r0 RA_nil), [el]. rsimpl. rewrite E0.
      repeat split; auto; [rewrite <- app_assoc; reflexivity|rewrite W0; reflexivity].
    + destruct (s_args_loop f IH c kc _ _ _ _ _ _ Hc H F2) as (a & args' & Ea & Et & Wa & Era).
      exists (RA_cons r0 a), (el :: args'). rsimpl. rewrite E0, Era, W0, Wa. repeat split; auto.
      * rewrite Ea, <- app_assoc. reflexivity.
      * rewrite Et0. rewrite Et at 1. rewrite <- app_assoc. reflexivity.
Qed.

End Step.

Lemma sound_all : forall f, sound_at f.
Proof.
  induction f as [|f IH]; [exact sound_0|]. constructor.
  - exact (step_let f IH).
  - exact (step_expr f IH).
  - exact (step_call f IH).
  - exact (step_loop f IH).
  - exact (step_nonop f IH).
  - exact (step_postfix f IH).
  - exact (step_literal f IH).
  - exact (step_args f IH).
  - exact (step_args_loop f IH).
Qed.

(* a successful parse accounts for every token: the whole input is a well-formed rendering of the result *)
Theorem parse_sound : forall f ts e, frag_toks ts = true ->
  parse_fuel cfg f ids ts = POk e -> renders cfg ids e ts.
Proof.
  intros f ts e F H. unfold parse_fuel in H.
  destruct (parse_let cfg f ids ts) as [[[a u] rest]| | |] eqn:El; try discriminate.
  destruct (typ_is (peek rest) tEof) eqn:Ee; [|discriminate]. inversion H; subst a. clear H.
  destruct (s_let f (sound_all f) _ _ _ _ El F) as (r & Et & W & E & _ & _).
  assert (F1 : frag_toks rest = true) by (rewrite Et in F; eapply frag_app; exact F).
  destruct rest as [|[ty img] rest'].
  - exists r. rewrite app_nil_r in Et. auto.
  - exfalso. apply frag_cons in F1. destruct F1 as [Ft _]. apply typ_is_eq in Ee. cbn [peek ktyp fst] in Ee. subst ty.
    cbn in Ft. discriminate.
Qed.

End Sound.
