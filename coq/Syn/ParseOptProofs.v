(* Proofs about Syn/ParseOpt.v (the parser model with the optimizer calls): one-step equations, no panic under the
   recover, linear fuel, and equality with Syn/Parse.v when there is no optimizer.
   The equations and the totality argument are the ones of Syn/ParseRel.v / Syn/ParseTotal.v, transcribed for the
   renamed functions (the optimizer adds two case distinctions to parseLet and one to Parse). *)
From P2 Require Import Base.Prelude Base.PreludeProofs Lex.Token Syn.Ast Syn.Parse Syn.ParseRel Syn.ParseOpt.
Local Open Scope nat_scope.

Section Eqs.
Variable cfg : pcfg.
Variable optimizer : option (ast -> ores).
Variable recovers : osite -> bool.
Variable ids : idents.
Let ops := c_ops cfg.
Let n := length ops.

(* nextParserCall(level-1): parseOp(level) below the number of operators, parseUnary at it *)
Definition ocall_level (f level : nat) (ts : list tk) : pr ast :=
  if level <? n then oparse_op cfg optimizer recovers f level ids ts else oparse_unary cfg optimizer recovers f ids ts.

(* ---------- one-step unfoldings of the model (all by computation) ---------- *)
Lemma oparse_expression_S f ts :
  oparse_expression cfg optimizer recovers (S f) ids ts = if n =? 0 then oparse_unary cfg optimizer recovers f ids ts else oparse_op cfg optimizer recovers f 0 ids ts.
Proof. reflexivity. Qed.

Lemma oparse_op_S f k ts :
  oparse_op cfg optimizer recovers (S f) k ids ts =
  match nth_error ops k with
  | None => PPanic
  | Some operator =>
      match ocall_level f (S k) ts with
      | POk (a, u, ts1) => oparse_op_loop cfg optimizer recovers f k operator a u ids ts1
      | r => r
      end
  end.
Proof. reflexivity. Qed.

Lemma oparse_op_loop_S f k operator a u ts :
  oparse_op_loop cfg optimizer recovers (S f) k operator a u ids ts =
  if is_op (peek ts) operator then
    match ocall_level f (S k) (adv ts) with
    | POk (b, u2, ts2) => oparse_op_loop cfg optimizer recovers f k operator (AOp operator (N.of_nat k) a b) (u ++ u2) ids ts2
    | r => r
    end
  else POk (a, u, ts).
Proof. reflexivity. Qed.

Lemma oparse_unary_S f ts :
  oparse_unary cfg optimizer recovers (S f) ids ts =
  if head_unary cfg ts then
    match (match op_pos ops (kimg (peek ts)) with
           | Some p => ocall_level f (S p) (adv ts)
           | None => oparse_nonop cfg optimizer recovers f ids (adv ts)
           end) with
    | POk (inner, u, ts2) => POk (AUn (kimg (peek ts)) inner, u, ts2)
    | r => r
    end
  else oparse_nonop cfg optimizer recovers f ids ts.
Proof. reflexivity. Qed.

Lemma oparse_nonop_S f ts :
  oparse_nonop cfg optimizer recovers (S f) ids ts =
  match oparse_literal cfg optimizer recovers f ids ts with
  | POk (e, u, ts1) => oparse_postfix cfg optimizer recovers f e u ids ts1
  | r => r
  end.
Proof. reflexivity. Qed.

Lemma oparse_args_S f c ts :
  oparse_args cfg optimizer recovers (S f) c ids ts =
  if typ_is (peek ts) c then POk ([], [], adv ts) else oparse_args_loop cfg optimizer recovers f c [] [] ids ts.
Proof. reflexivity. Qed.

Lemma oparse_args_loop_S f c acc u ts :
  oparse_args_loop cfg optimizer recovers (S f) c acc u ids ts =
  match oparse_let cfg optimizer recovers f ids ts with
  | POk (element, u1, ts1) =>
      if typ_is (peek ts1) c then POk (acc ++ [element], u ++ u1, adv ts1)
      else if negb (typ_is (peek ts1) tComma) then PErr
      else if typ_is (peek (adv ts1)) c then POk (acc ++ [element], u ++ u1, adv (adv ts1))
      else oparse_args_loop cfg optimizer recovers f c (acc ++ [element]) (u ++ u1) ids (adv ts1)
  | PErr => PErr | PPanic => PPanic | POOF => POOF
  end.
Proof. reflexivity. Qed.

Lemma oparse_postfix_S f e u ts :
  oparse_postfix cfg optimizer recovers (S f) e u ids ts =
  match ktyp (peek ts) with
  | tDot =>
      if negb (typ_is (peek (adv ts)) tIdent) then PErr else
      if negb (typ_is (peek (adv (adv ts))) tOpen)
      then oparse_postfix cfg optimizer recovers f (AAccess (kimg (peek (adv ts))) e) u ids (adv (adv ts))
      else
        match oparse_args cfg optimizer recovers f tClose ids (adv (adv (adv ts))) with
        | POk (args, u2, ts4) => oparse_postfix cfg optimizer recovers f (AMethod (kimg (peek (adv ts))) args e) (u ++ u2) ids ts4
        | PErr => PErr | PPanic => PPanic | POOF => POOF
        end
  | tOpen =>
      match oparse_args cfg optimizer recovers f tClose ids (adv ts) with
      | POk (args, u2, ts2) => oparse_postfix cfg optimizer recovers f (ACall e args) (u ++ u2) ids ts2
      | PErr => PErr | PPanic => PPanic | POOF => POOF
      end
  | tOpenBracket =>
      match oparse_expression cfg optimizer recovers f ids (adv ts) with
      | POk (idx, u2, ts2) =>
          if negb (typ_is (peek ts2) tCloseBracket) then PErr
          else oparse_postfix cfg optimizer recovers f (AIndex idx e) (u ++ u2) ids (adv ts2)
      | r => r
      end
  | _ => POk (e, u, ts)
  end.
Proof. reflexivity. Qed.

Lemma oparse_literal_S f ts :
  oparse_literal cfg optimizer recovers (S f) ids ts =
  match ktyp (peek ts) with
  | tIdent =>
      if is_op (peek (adv ts)) s_arrow then
        match oparse_let cfg optimizer recovers f (SArgs [kimg (peek ts)] :: ids) (adv (adv ts)) with
        | POk (e, ub, ts3) =>
            POk (AClosure [kimg (peek ts)] e (outers_of ids [kimg (peek ts)] ub) false [],
                 escape (SArgs [kimg (peek ts)]) ub, ts3)
        | r => r
        end
      else
        match resolve ids (kimg (peek ts)) with
        | Some a => POk (a, [kimg (peek ts)], adv ts)
        | None => PErr
        end
  | tKeyWord =>
      if str_eqb (kimg (peek ts)) s_try then
        match oparse_let cfg optimizer recovers f ids (adv ts) with
        | POk (tryExp, u1, ts2) =>
            if negb (is_kw (peek ts2) s_catch) then PErr else
            match oparse_let cfg optimizer recovers f ids (adv ts2) with
            | POk (catchExp, u2, ts4) => POk (ATry tryExp catchExp, u1 ++ u2, ts4)
            | r => r
            end
        | r => r
        end
      else if str_eqb (kimg (peek ts)) s_if then
        match oparse_expression cfg optimizer recovers f ids (adv ts) with
        | POk (cond, u1, ts2) =>
            if negb (is_kw (peek ts2) s_then) then PErr else
            match oparse_let cfg optimizer recovers f ids (adv ts2) with
            | POk (thenExp, u2, ts4) =>
                if negb (is_kw (peek ts4) s_else) then PErr else
                match oparse_let cfg optimizer recovers f ids (adv ts4) with
                | POk (elseExp, u3, ts6) => POk (AIf cond thenExp elseExp, u1 ++ u2 ++ u3, ts6)
                | r => r
                end
            | r => r
            end
        | r => r
        end
      else if str_eqb (kimg (peek ts)) s_switch then
        match oparse_expression cfg optimizer recovers f ids (adv ts) with
        | POk (sv, u1, ts2) => oparse_switch cfg optimizer recovers f sv [] u1 ids ts2
        | r => r
        end
      else PErr
  | tOpenCurly => oparse_map cfg optimizer recovers f [] [] ids (adv ts)
  | tOpenBracket =>
      match oparse_args cfg optimizer recovers f tCloseBracket ids (adv ts) with
      | POk (args, u, ts2) => POk (AListLit args, u, ts2)
      | PErr => PErr | PPanic => PPanic | POOF => POOF
      end
  | tNumber =>
      match c_num cfg with
      | Some np => match np (kimg (peek ts)) with
                   | Some c => POk (AConst c, [], adv ts)
                   | None => PErr
                   end
      | None => PErr
      end
  | tString =>
      match c_strh cfg with
      | Some sh => POk (AConst (sh (kimg (peek ts))), [], adv ts)
      | None => PErr
      end
  | tOpen =>
      if typ_is (peek (adv ts)) tIdent && typ_is (peek2 (adv ts)) tComma then
        match parse_identlist (S (length (adv ts))) [] (adv ts) with
        | POk (names, ts2) =>
            if negb (is_op (peek ts2) s_arrow) then PErr else
            match oparse_let cfg optimizer recovers f (SArgs names :: ids) (adv ts2) with
            | POk (e, ub, ts4) =>
                POk (AClosure names e (outers_of ids names ub) false [], escape (SArgs names) ub, ts4)
            | r => r
            end
        | PErr => PErr | PPanic => PPanic | POOF => POOF
        end
      else
        match oparse_expression cfg optimizer recovers f ids (adv ts) with
        | POk (e, u, ts2) => if negb (typ_is (peek ts2) tClose) then PErr else POk (e, u, adv ts2)
        | r => r
        end
  | _ => PErr
  end.
Proof. reflexivity. Qed.

Lemma oparse_let_S f ts :
  oparse_let cfg optimizer recovers (S f) ids ts =
  if is_kw (peek ts) s_let then
    if negb (typ_is (peek (adv ts)) tIdent) then PErr else
    if negb (is_op (peek (adv (adv ts))) s_assign) then PErr else
    match oparse_expression cfg optimizer recovers f ids (adv (adv (adv ts))) with
    | POk (exp0, u1, ts4) =>
        if negb (typ_is (peek ts4) tSemicolon && str_eqb (kimg (peek ts4)) s_semi) then PErr else
        match run_opt optimizer recovers SiteLet exp0 with
        | POk exp =>
        match is_const exp with
        | Some c =>
            match oparse_let cfg optimizer recovers f (id_constant (kimg (peek (adv ts))) c :: ids) (adv ts4) with
            | POk (inner, u2, ts6) =>
                POk (inner, u1 ++ escape (id_constant (kimg (peek (adv ts))) c) u2, ts6)
            | r => r
            end
        | None =>
            match oparse_let cfg optimizer recovers f (id_var (kimg (peek (adv ts))) :: ids) (adv ts4) with
            | POk (inner, u2, ts6) =>
                POk (ALet (kimg (peek (adv ts))) exp inner, u1 ++ escape (id_var (kimg (peek (adv ts)))) u2, ts6)
            | r => r
            end
        end
        | PErr => PErr | PPanic => PPanic | POOF => POOF
        end
    | r => r
    end
  else if is_kw (peek ts) s_func then
    if negb (typ_is (peek (adv ts)) tIdent) then PErr else
    if negb (typ_is (peek (adv (adv ts))) tOpen) then PErr else
    match parse_identlist (S (length (adv (adv (adv ts))))) [] (adv (adv (adv ts))) with
    | POk (names, ts4) =>
        match oparse_let cfg optimizer recovers f (SThis (kimg (peek (adv ts))) :: SArgs names :: ids) ts4 with
        | POk (exp, ub, ts5) =>
            if negb (typ_is (peek ts5) tSemicolon && str_eqb (kimg (peek ts5)) s_semi) then PErr else
            match run_opt optimizer recovers SiteFunc
                    (AClosure names exp
                       (outers_of ids names (escape (SThis (kimg (peek (adv ts)))) ub))
                       (mem_str (kimg (peek (adv ts))) ub) (kimg (peek (adv ts)))) with
            | POk clo =>
            match is_const clo with
            | Some c =>
                match oparse_let cfg optimizer recovers f (id_constant (kimg (peek (adv ts))) c :: ids) (adv ts5) with
                | POk (inner, u2, ts7) =>
                    POk (inner, escape (SArgs names) (escape (SThis (kimg (peek (adv ts)))) ub)
                                 ++ escape (id_constant (kimg (peek (adv ts))) c) u2, ts7)
                | r => r
                end
            | None =>
                match oparse_let cfg optimizer recovers f (id_var (kimg (peek (adv ts))) :: ids) (adv ts5) with
                | POk (inner, u2, ts7) =>
                    POk (ALet (kimg (peek (adv ts))) clo inner,
                         escape (SArgs names) (escape (SThis (kimg (peek (adv ts)))) ub)
                           ++ escape (id_var (kimg (peek (adv ts)))) u2, ts7)
                | r => r
                end
            end
            | PErr => PErr | PPanic => PPanic | POOF => POOF
            end
        | r => r
        end
    | PErr => PErr | PPanic => PPanic | POOF => POOF
    end
  else oparse_expression cfg optimizer recovers f ids ts.
Proof. reflexivity. Qed.

Lemma oparse_switch_S f sv cases u ts :
  oparse_switch cfg optimizer recovers (S f) sv cases u ids ts =
  if typ_is (peek ts) tKeyWord then
    if str_eqb (kimg (peek ts)) s_case then
      match oparse_expression cfg optimizer recovers f ids (adv ts) with
      | POk (cc, u1, ts2) =>
          if negb (typ_is (peek ts2) tColon) then PErr else
          match oparse_let cfg optimizer recovers f ids (adv ts2) with
          | POk (res, u2, ts4) => oparse_switch cfg optimizer recovers f sv (cases ++ [(cc, res)]) (u ++ u1 ++ u2) ids ts4
          | r => r
          end
      | r => r
      end
    else if str_eqb (kimg (peek ts)) s_default then
      match oparse_let cfg optimizer recovers f ids (adv ts) with
      | POk (res, u1, ts2) => POk (ASwitch sv cases res, u ++ u1, ts2)
      | r => r
      end
    else PErr
  else PErr.
Proof. reflexivity. Qed.

Lemma oparse_map_S f m u ts :
  oparse_map cfg optimizer recovers (S f) m u ids ts =
  match ktyp (peek ts) with
  | tCloseCurly => POk (AMapLit m, u, adv ts)
  | tIdent =>
      if mem_str (kimg (peek ts)) (map fst m) then PErr else
      if negb (typ_is (peek (adv ts)) tColon) then PErr else
      match oparse_let cfg optimizer recovers f ids (adv (adv ts)) with
      | POk (entry, u1, ts3) =>
          if typ_is (peek ts3) tComma then oparse_map cfg optimizer recovers f (m ++ [(kimg (peek ts), entry)]) (u ++ u1) ids (adv ts3)
          else if negb (typ_is (peek ts3) tCloseCurly) then PErr
          else oparse_map cfg optimizer recovers f (m ++ [(kimg (peek ts), entry)]) (u ++ u1) ids ts3
      | r => r
      end
  | _ => PErr
  end.
Proof. reflexivity. Qed.

(* parseLet on a token that is not the keyword let or func *)
Lemma oexpression_is_level0 f ts : oparse_expression cfg optimizer recovers (S f) ids ts = ocall_level f 0 ts.
Proof.
  rewrite oparse_expression_S. unfold ocall_level. destruct n; reflexivity.
Qed.


End Eqs.

(* ================================================================================================
   totality (transcribed from Syn/ParseTotal.v) *)
Section Total.
Variable cfg : pcfg.
Variable optimizer : option (ast -> ores).
Variable recovers : osite -> bool.
Hypothesis Hrec : forall s, recovers s = true.     (* every call site is parser2.Optimize, with the recover *)
Let ops := c_ops cfg.
Let n := length ops.

(* the optimizer call itself: under the recover no panic reaches the parser; it never runs out of (model) fuel *)
Lemma run_opt_no_panic : forall s a, run_opt optimizer recovers s a <> PPanic.
Proof.
  intros s a. unfold run_opt. destruct optimizer as [o|]; [|discriminate].
  destruct (o a); [discriminate|]. rewrite Hrec. discriminate.
Qed.

Lemma run_opt_no_oof : forall (o : option (ast -> ores)) r s a, run_opt o r s a <> POOF.
Proof.
  intros o r s a. unfold run_opt. destruct o as [o|]; [|discriminate].
  destruct (o a); [discriminate|]. destruct (r s); discriminate.
Qed.

Lemma oidentlist_no_panic : forall f names ts, parse_identlist f names ts <> PPanic.
Proof.
  induction f as [|f IH]; intros names ts; cbn [parse_identlist]; [discriminate|].
  destruct (typ_is (peek ts) tIdent); [|discriminate].
  destruct (mem_str (kimg (peek ts)) names); [discriminate|].
  destruct (ktyp (peek (adv ts))); try discriminate. apply IH.
Qed.

(* ---------- no panic ---------- *)
Record onp_at (f : nat) : Prop := {
  onp_let : forall ids ts, oparse_let cfg optimizer recovers f ids ts <> PPanic;
  onp_expr : forall ids ts, oparse_expression cfg optimizer recovers f ids ts <> PPanic;
  onp_op : forall k ids ts, k < n -> oparse_op cfg optimizer recovers f k ids ts <> PPanic;
  onp_loop : forall k o a u ids ts, k < n -> oparse_op_loop cfg optimizer recovers f k o a u ids ts <> PPanic;
  onp_unary : forall ids ts, oparse_unary cfg optimizer recovers f ids ts <> PPanic;
  onp_nonop : forall ids ts, oparse_nonop cfg optimizer recovers f ids ts <> PPanic;
  onp_postfix : forall e u ids ts, oparse_postfix cfg optimizer recovers f e u ids ts <> PPanic;
  onp_literal : forall ids ts, oparse_literal cfg optimizer recovers f ids ts <> PPanic;
  onp_switch : forall sv cs u ids ts, oparse_switch cfg optimizer recovers f sv cs u ids ts <> PPanic;
  onp_args : forall c ids ts, oparse_args cfg optimizer recovers f c ids ts <> PPanic;
  onp_args_loop : forall c acc u ids ts, oparse_args_loop cfg optimizer recovers f c acc u ids ts <> PPanic;
  onp_map : forall m u ids ts, oparse_map cfg optimizer recovers f m u ids ts <> PPanic
}.

Lemma onp_call f (IH : onp_at f) k ids ts : k <= n -> ocall_level cfg optimizer recovers ids f k ts <> PPanic.
Proof.
  intros Hk. unfold ocall_level. fold ops. fold n. destruct (k <? n) eqn:E.
  - apply Nat.ltb_lt in E. apply (onp_op f IH); exact E.
  - apply (onp_unary f IH).
Qed.

Ltac osplit_all :=
  repeat match goal with
  | |- context [match ?x with _ => _ end] => destruct x eqn:?
  | |- context [if ?x then _ else _] => destruct x eqn:?
  end.

Ltac onp_close f IH :=
  try discriminate;
  try (exfalso; match goal with
       | E : oparse_let _ _ _ _ _ _ = PPanic |- _ => exact (onp_let f IH _ _ E)
       | E : oparse_expression _ _ _ _ _ _ = PPanic |- _ => exact (onp_expr f IH _ _ E)
       | E : oparse_nonop _ _ _ _ _ _ = PPanic |- _ => exact (onp_nonop f IH _ _ E)
       | E : oparse_literal _ _ _ _ _ _ = PPanic |- _ => exact (onp_literal f IH _ _ E)
       | E : oparse_args _ _ _ _ _ _ _ = PPanic |- _ => exact (onp_args f IH _ _ _ E)
       | E : parse_identlist _ _ _ = PPanic |- _ => exact (oidentlist_no_panic _ _ _ E)
       | E : run_opt _ _ _ _ = PPanic |- _ => exact (run_opt_no_panic _ _ E)
       end);
  try apply (onp_let f IH); try apply (onp_expr f IH); try apply (onp_postfix f IH); try apply (onp_switch f IH);
  try apply (onp_args_loop f IH); try apply (onp_map f IH); try apply (onp_nonop f IH).

Lemma onp_step f : onp_at f -> onp_at (S f).
Proof.
  intros IH. constructor.
  - intros ids ts. rewrite oparse_let_S. osplit_all; onp_close f IH.
  - intros ids ts. rewrite oparse_expression_S. fold ops. fold n. destruct (n =? 0) eqn:E.
    + apply (onp_unary f IH).
    + apply (onp_op f IH). apply Nat.eqb_neq in E. lia.
  - intros k ids ts Hk. rewrite oparse_op_S. fold ops.
    destruct (nth_error ops k) as [o|] eqn:Ho; [|apply nth_error_None in Ho; unfold n in Hk; lia].
    destruct (ocall_level cfg optimizer recovers ids f (S k) ts) as [[[a u] ts1]| | |] eqn:Ec; try discriminate.
    + apply (onp_loop f IH). exact Hk.
    + exfalso. exact (onp_call f IH (S k) ids ts Hk Ec).
  - intros k o a u ids ts Hk. rewrite oparse_op_loop_S. destruct (is_op (peek ts) o); [|discriminate].
    destruct (ocall_level cfg optimizer recovers ids f (S k) (adv ts)) as [[[b u2] ts2]| | |] eqn:Ec; try discriminate.
    + apply (onp_loop f IH). exact Hk.
    + exfalso. exact (onp_call f IH (S k) ids _ Hk Ec).
  - intros ids ts. rewrite oparse_unary_S. fold ops. destruct (head_unary cfg ts); [|apply (onp_nonop f IH)].
    destruct (op_pos ops (kimg (peek ts))) as [p|] eqn:Ep.
    + destruct (ocall_level cfg optimizer recovers ids f (S p) (adv ts)) as [[[b u2] ts2]| | |] eqn:Ec; try discriminate.
      exfalso. refine (onp_call f IH (S p) ids _ _ Ec).
      (* op_pos only returns positions of the table *)
      assert (G : forall l i acc q, op_pos_from (kimg (peek ts)) l i acc = Some q ->
                  (exists q0, acc = Some q0 /\ q = q0) \/ (i <= q < i + length l)).
      { induction l as [|o l IHl]; intros i acc q H; cbn [op_pos_from] in H.
        - left. eauto.
        - destruct (IHl _ _ _ H) as [(q0 & E1 & E2)|Hr].
          + destruct (str_eqb (kimg (peek ts)) o).
            * inversion E1; subst. right. cbn [length]. lia.
            * left. eauto.
          + right. cbn [length]. lia. }
      destruct (G ops 0 None p Ep) as [(q0 & E1 & _)|Hr]; [discriminate|]. unfold n. lia.
    + destruct (oparse_nonop cfg optimizer recovers f ids (adv ts)) as [[[b u2] ts2]| | |] eqn:Ec; try discriminate.
      exfalso. exact (onp_nonop f IH _ _ Ec).
  - intros ids ts. rewrite oparse_nonop_S. osplit_all; onp_close f IH.
  - intros e u ids ts. rewrite oparse_postfix_S. osplit_all; onp_close f IH.
  - intros ids ts. rewrite oparse_literal_S. osplit_all; onp_close f IH.
  - intros sv cs u ids ts. rewrite oparse_switch_S. osplit_all; onp_close f IH.
  - intros c ids ts. rewrite oparse_args_S. osplit_all; onp_close f IH.
  - intros c acc u ids ts. rewrite oparse_args_loop_S. osplit_all; onp_close f IH.
  - intros m u ids ts. rewrite oparse_map_S. osplit_all; onp_close f IH.
Qed.

Lemma onp_all : forall f, onp_at f.
Proof.
  induction f as [|f IH]; [constructor; intros; discriminate|]. apply onp_step. exact IH.
Qed.

Theorem oparse_no_panic : forall f ids ts, oparse_fuel cfg optimizer recovers f ids ts <> PPanic.
Proof.
  intros f ids ts. unfold oparse_fuel.
  destruct (oparse_let cfg optimizer recovers f ids ts) as [[[a u] rest]| | |] eqn:E; try discriminate.
  - destruct (typ_is (peek rest) tEof); [|discriminate]. apply run_opt_no_panic.
  - exfalso. exact (onp_let f (onp_all f) _ _ E).
Qed.

(* ---------- a parse function never hands back more tokens than it was given ---------- *)
Lemma oadv_le (ts : list tk) : length (adv ts) <= length ts.
Proof. destruct ts; cbn [adv length]; lia. Qed.

Lemma oidentlist_shrink : forall f names ts names' ts',
  parse_identlist f names ts = POk (names', ts') -> length ts' <= length ts.
Proof.
  induction f as [|f IH]; intros names ts names' ts' H; [discriminate|]. cbn [parse_identlist] in H.
  destruct (typ_is (peek ts) tIdent); [|discriminate].
  destruct (mem_str (kimg (peek ts)) names); [discriminate|].
  pose proof (oadv_le ts). pose proof (oadv_le (adv ts)).
  destruct (ktyp (peek (adv ts))); try discriminate.
  - inversion H; subst. lia.
  - apply IH in H. lia.
Qed.

Record osh_at (f : nat) : Prop := {
  osh_let : forall ids ts e u rest, oparse_let cfg optimizer recovers f ids ts = POk (e, u, rest) -> length rest <= length ts;
  osh_expr : forall ids ts e u rest, oparse_expression cfg optimizer recovers f ids ts = POk (e, u, rest) -> length rest <= length ts;
  osh_op : forall k ids ts e u rest, oparse_op cfg optimizer recovers f k ids ts = POk (e, u, rest) -> length rest <= length ts;
  osh_loop : forall k o a u0 ids ts e u rest,
      oparse_op_loop cfg optimizer recovers f k o a u0 ids ts = POk (e, u, rest) -> length rest <= length ts;
  osh_unary : forall ids ts e u rest, oparse_unary cfg optimizer recovers f ids ts = POk (e, u, rest) -> length rest <= length ts;
  osh_nonop : forall ids ts e u rest, oparse_nonop cfg optimizer recovers f ids ts = POk (e, u, rest) -> length rest <= length ts;
  osh_postfix : forall a u0 ids ts e u rest,
      oparse_postfix cfg optimizer recovers f a u0 ids ts = POk (e, u, rest) -> length rest <= length ts;
  osh_literal : forall ids ts e u rest, oparse_literal cfg optimizer recovers f ids ts = POk (e, u, rest) -> length rest <= length ts;
  osh_switch : forall sv cs u0 ids ts e u rest,
      oparse_switch cfg optimizer recovers f sv cs u0 ids ts = POk (e, u, rest) -> length rest <= length ts;
  osh_args : forall c ids ts e u rest, oparse_args cfg optimizer recovers f c ids ts = POk (e, u, rest) -> length rest <= length ts;
  osh_args_loop : forall c acc u0 ids ts e u rest,
      oparse_args_loop cfg optimizer recovers f c acc u0 ids ts = POk (e, u, rest) -> length rest <= length ts;
  osh_map : forall m u0 ids ts e u rest, oparse_map cfg optimizer recovers f m u0 ids ts = POk (e, u, rest) -> length rest <= length ts
}.

Lemma osh_call f (IH : osh_at f) k ids ts e u rest :
  ocall_level cfg optimizer recovers ids f k ts = POk (e, u, rest) -> length rest <= length ts.
Proof.
  unfold ocall_level. destruct (_ <? _); [apply (osh_op f IH)|apply (osh_unary f IH)].
Qed.

Ltac osplit_hyp H :=
  repeat match type of H with
  | context [match ?x with _ => _ end] => destruct x eqn:?; try discriminate
  | context [if ?x then _ else _] => destruct x eqn:?; try discriminate
  end;
  repeat match goal with
  | H' : context [match ?x with _ => _ end] |- _ =>
      match type of H' with _ = POk _ => destruct x eqn:?; try discriminate end
  end.

Ltac oknown t r := match goal with _ : length r <= length t |- _ => idtac end.

Ltac osh_facts f IH :=
  repeat match goal with
  | E : oparse_let cfg optimizer recovers f _ ?t = POk (_, _, ?r) |- _ => tryif oknown t r then fail else pose proof (osh_let f IH _ _ _ _ _ E)
  | E : oparse_expression cfg optimizer recovers f _ ?t = POk (_, _, ?r) |- _ => tryif oknown t r then fail else pose proof (osh_expr f IH _ _ _ _ _ E)
  | E : ocall_level cfg optimizer recovers _ f _ ?t = POk (_, _, ?r) |- _ => tryif oknown t r then fail else pose proof (osh_call f IH _ _ _ _ _ _ E)
  | E : oparse_op_loop cfg optimizer recovers f _ _ _ _ _ ?t = POk (_, _, ?r) |- _ => tryif oknown t r then fail else pose proof (osh_loop f IH _ _ _ _ _ _ _ _ _ E)
  | E : oparse_nonop cfg optimizer recovers f _ ?t = POk (_, _, ?r) |- _ => tryif oknown t r then fail else pose proof (osh_nonop f IH _ _ _ _ _ E)
  | E : oparse_postfix cfg optimizer recovers f _ _ _ ?t = POk (_, _, ?r) |- _ => tryif oknown t r then fail else pose proof (osh_postfix f IH _ _ _ _ _ _ _ E)
  | E : oparse_literal cfg optimizer recovers f _ ?t = POk (_, _, ?r) |- _ => tryif oknown t r then fail else pose proof (osh_literal f IH _ _ _ _ _ E)
  | E : oparse_switch cfg optimizer recovers f _ _ _ _ ?t = POk (_, _, ?r) |- _ => tryif oknown t r then fail else pose proof (osh_switch f IH _ _ _ _ _ _ _ _ E)
  | E : oparse_args cfg optimizer recovers f _ _ ?t = POk (_, _, ?r) |- _ => tryif oknown t r then fail else pose proof (osh_args f IH _ _ _ _ _ _ E)
  | E : oparse_args_loop cfg optimizer recovers f _ _ _ _ ?t = POk (_, _, ?r) |- _ => tryif oknown t r then fail else pose proof (osh_args_loop f IH _ _ _ _ _ _ _ _ E)
  | E : oparse_map cfg optimizer recovers f _ _ _ ?t = POk (_, _, ?r) |- _ => tryif oknown t r then fail else pose proof (osh_map f IH _ _ _ _ _ _ _ E)
  | E : parse_identlist _ _ ?t = POk (_, ?r) |- _ => tryif oknown t r then fail else pose proof (oidentlist_shrink _ _ _ _ _ E)
  end.

Ltac oadv_known x := match goal with _ : length (adv x) <= length x |- _ => idtac end.
Ltac oadv_facts :=
  repeat match goal with
  | |- context [adv ?x] => tryif oadv_known x then fail else pose proof (oadv_le x)
  | _ : context [adv ?x] |- _ => tryif oadv_known x then fail else pose proof (oadv_le x)
  end.

Ltac osh_finish f IH H :=
  osplit_hyp H; try (inversion H; subst); osh_facts f IH; oadv_facts; lia.

Lemma osh_step f : osh_at f -> osh_at (S f).
Proof.
  intros IH. constructor.
  - intros ids ts e u rest H. rewrite oparse_let_S in H. osh_finish f IH H.
  - intros ids ts e u rest H. rewrite oparse_expression_S in H.
    destruct (_ =? 0); [apply (osh_unary f IH) in H|apply (osh_op f IH) in H]; exact H.
  - intros k ids ts e u rest H. rewrite oparse_op_S in H. osh_finish f IH H.
  - intros k o a u0 ids ts e u rest H. rewrite oparse_op_loop_S in H. osh_finish f IH H.
  - intros ids ts e u rest H. rewrite oparse_unary_S in H. osh_finish f IH H.
  - intros ids ts e u rest H. rewrite oparse_nonop_S in H. osh_finish f IH H.
  - intros a u0 ids ts e u rest H. rewrite oparse_postfix_S in H. osh_finish f IH H.
  - intros ids ts e u rest H. rewrite oparse_literal_S in H. osh_finish f IH H.
  - intros sv cs u0 ids ts e u rest H. rewrite oparse_switch_S in H. osh_finish f IH H.
  - intros c ids ts e u rest H. rewrite oparse_args_S in H. osh_finish f IH H.
  - intros c acc u0 ids ts e u rest H. rewrite oparse_args_loop_S in H. osh_finish f IH H.
  - intros m u0 ids ts e u rest H. rewrite oparse_map_S in H. osh_finish f IH H.
Qed.

Lemma osh_all : forall f, osh_at f.
Proof. induction f as [|f IH]; [constructor; intros; discriminate|]. apply osh_step. exact IH. Qed.

(* ---------- fuel linear in the number of tokens suffices ---------- *)
Definition obA (m : nat) : nat := 2 * m + 12.
Definition oc_lev (k : nat) : nat := 3 + (n - k).

Lemma opeek_strict (ts : list tk) : ktyp (peek ts) <> tEof -> length ts = S (length (adv ts)).
Proof. destruct ts; cbn [peek adv length]; [intros H; exfalso; apply H; reflexivity|reflexivity]. Qed.

Lemma ostrict_typ ts ty : ktyp (peek ts) = ty -> ty <> tEof -> length ts = S (length (adv ts)).
Proof. intros H Hn. apply opeek_strict. congruence. Qed.

Lemma ottype_eqb_true a b : ttype_eqb a b = true -> a = b.
Proof. destruct a, b; simpl; intros H; try discriminate; reflexivity. Qed.

Lemma ostrict_typ_is ts ty : typ_is (peek ts) ty = true -> ty <> tEof -> length ts = S (length (adv ts)).
Proof. unfold typ_is. intros H. apply ottype_eqb_true in H. apply ostrict_typ. exact H. Qed.

Lemma ostrict_kw ts s : is_kw (peek ts) s = true -> length ts = S (length (adv ts)).
Proof.
  unfold is_kw. intros H. apply andb_true_iff in H. destruct H as [H _].
  apply (ostrict_typ_is ts tKeyWord H). discriminate.
Qed.

Lemma ostrict_op ts s : is_op (peek ts) s = true -> length ts = S (length (adv ts)).
Proof.
  unfold is_op. intros H. apply andb_true_iff in H. destruct H as [H _].
  apply (ostrict_typ_is ts tOperate H). discriminate.
Qed.

Lemma ostrict_unary ts : head_unary cfg ts = true -> length ts = S (length (adv ts)).
Proof.
  unfold head_unary. intros H. apply andb_true_iff in H. destruct H as [H _].
  apply (ostrict_typ_is ts tOperate H). discriminate.
Qed.

Lemma oidentlist_fuel : forall f names ts, length ts < f -> parse_identlist f names ts <> POOF.
Proof.
  induction f as [|f IH]; intros names ts Hf; [lia|]. cbn [parse_identlist].
  destruct (typ_is (peek ts) tIdent) eqn:E1; [|discriminate].
  destruct (mem_str (kimg (peek ts)) names); [discriminate|].
  pose proof (ostrict_typ_is _ _ E1 ltac:(discriminate)). pose proof (oadv_le (adv ts)).
  destruct (ktyp (peek (adv ts))); try discriminate. apply IH. lia.
Qed.

Record ooo_at (f : nat) : Prop := {
  ooo_let : forall ids ts, f >= obA n * length ts + (n + 5) -> oparse_let cfg optimizer recovers f ids ts <> POOF;
  ooo_expr : forall ids ts, f >= obA n * length ts + (n + 4) -> oparse_expression cfg optimizer recovers f ids ts <> POOF;
  ooo_call : forall k ids ts, f >= obA n * length ts + oc_lev k -> ocall_level cfg optimizer recovers ids f k ts <> POOF;
  ooo_loop : forall k o a u ids ts, f >= obA n * length ts + 1 -> oparse_op_loop cfg optimizer recovers f k o a u ids ts <> POOF;
  ooo_nonop : forall ids ts, f >= obA n * length ts + 2 -> oparse_nonop cfg optimizer recovers f ids ts <> POOF;
  ooo_postfix : forall e u ids ts, f >= obA n * length ts + 1 -> oparse_postfix cfg optimizer recovers f e u ids ts <> POOF;
  ooo_literal : forall ids ts, f >= obA n * length ts + 1 -> oparse_literal cfg optimizer recovers f ids ts <> POOF;
  ooo_switch : forall sv cs u ids ts, f >= obA n * length ts + 1 -> oparse_switch cfg optimizer recovers f sv cs u ids ts <> POOF;
  ooo_args : forall c ids ts, f >= obA n * length ts + (n + 7) -> oparse_args cfg optimizer recovers f c ids ts <> POOF;
  ooo_args_loop : forall c acc u ids ts, f >= obA n * length ts + (n + 6) -> oparse_args_loop cfg optimizer recovers f c acc u ids ts <> POOF;
  ooo_map : forall m u ids ts, f >= obA n * length ts + 1 -> oparse_map cfg optimizer recovers f m u ids ts <> POOF
}.

Lemma obA_big : obA n >= n + 8.
Proof. unfold obA. lia. Qed.

Ltac ostrict_known t := match goal with _ : length t = S (length (adv t)) |- _ => idtac end.
Ltac ostrict_facts :=
  repeat match goal with
  | E : negb _ = false |- _ => apply negb_false_iff in E
  | E : _ && _ = true |- _ => apply andb_true_iff in E; destruct E
  | E : ktyp (peek ?t) = ?ty |- _ =>
      tryif ostrict_known t then fail else pose proof (ostrict_typ t ty E ltac:(discriminate))
  | E : typ_is (peek ?t) ?ty = true |- _ =>
      tryif ostrict_known t then fail else pose proof (ostrict_typ_is t ty E ltac:(discriminate))
  | E : is_kw (peek ?t) _ = true |- _ => tryif ostrict_known t then fail else pose proof (ostrict_kw t _ E)
  | E : is_op (peek ?t) _ = true |- _ => tryif ostrict_known t then fail else pose proof (ostrict_op t _ E)
  | E : head_unary cfg ?t = true |- _ => tryif ostrict_known t then fail else pose proof (ostrict_unary t E)
  end.

(* the fuel that is left suffices for a call on t': t' is shorter than ts, or as long with a smaller constant *)
Ltac ofuel_side HF :=
  pose proof obA_big;
  match type of HF with
  | S _ >= obA n * length ?ts + _ =>
      match goal with
      | |- _ >= obA n * length ?t' + _ =>
          first [ let Hs := fresh "Hs" in
                  assert (Hs : length t' + 1 <= length ts) by lia;
                  apply (Nat.mul_le_mono_l _ _ (obA n)) in Hs;
                  rewrite Nat.mul_add_distr_l, Nat.mul_1_r in Hs; unfold oc_lev in *; lia
                | let Hs := fresh "Hs" in
                  assert (Hs : length t' <= length ts) by lia;
                  apply (Nat.mul_le_mono_l _ _ (obA n)) in Hs; unfold oc_lev in *; lia ]
      end
  end.

Ltac ooo_close f IH HF :=
  try discriminate;
  ostrict_facts; osh_facts f (osh_all f); oadv_facts;
  first
  [ exfalso; match goal with
    | E : oparse_let cfg optimizer recovers f _ _ = POOF |- _ => refine (ooo_let f IH _ _ _ E); ofuel_side HF
    | E : oparse_expression cfg optimizer recovers f _ _ = POOF |- _ => refine (ooo_expr f IH _ _ _ E); ofuel_side HF
    | E : ocall_level cfg optimizer recovers _ f _ _ = POOF |- _ => refine (ooo_call f IH _ _ _ _ E); ofuel_side HF
    | E : oparse_nonop cfg optimizer recovers f _ _ = POOF |- _ => refine (ooo_nonop f IH _ _ _ E); ofuel_side HF
    | E : oparse_literal cfg optimizer recovers f _ _ = POOF |- _ => refine (ooo_literal f IH _ _ _ E); ofuel_side HF
    | E : oparse_args cfg optimizer recovers f _ _ _ = POOF |- _ => refine (ooo_args f IH _ _ _ _ E); ofuel_side HF
    | E : parse_identlist _ _ _ = POOF |- _ => refine (oidentlist_fuel _ _ _ _ E); lia
    | E : run_opt _ _ _ _ = POOF |- _ => exact (run_opt_no_oof _ _ _ _ E)
    end
  | apply (ooo_let f IH); ofuel_side HF
  | apply (ooo_expr f IH); ofuel_side HF
  | apply (ooo_loop f IH); ofuel_side HF
  | apply (ooo_nonop f IH); ofuel_side HF
  | apply (ooo_postfix f IH); ofuel_side HF
  | apply (ooo_switch f IH); ofuel_side HF
  | apply (ooo_args_loop f IH); ofuel_side HF
  | apply (ooo_map f IH); ofuel_side HF ].

Lemma ooo_step f : ooo_at f -> ooo_at (S f).
Proof.
  intros IH. constructor.
  - intros ids ts HF. rewrite oparse_let_S. osplit_all; ooo_close f IH HF.
  - intros ids ts HF. rewrite oexpression_is_level0. apply (ooo_call f IH). unfold oc_lev. lia.
  - intros k ids ts HF. unfold ocall_level. fold ops. fold n. destruct (k <? n) eqn:Ek.
    + apply Nat.ltb_lt in Ek. rewrite oparse_op_S. fold ops.
      destruct (nth_error ops k) as [o|] eqn:Ho; [|discriminate].
      destruct (ocall_level cfg optimizer recovers ids f (S k) ts) as [[[a u] ts1]| | |] eqn:Ec; try discriminate.
      * pose proof (osh_call f (osh_all f) _ _ _ _ _ _ Ec). apply (ooo_loop f IH).
        assert (Hs : length ts1 <= length ts) by lia. apply (Nat.mul_le_mono_l _ _ (obA n)) in Hs.
        unfold oc_lev in HF. lia.
      * exfalso. refine (ooo_call f IH _ _ _ _ Ec). unfold oc_lev in *. lia.
    + rewrite oparse_unary_S. fold ops. unfold oc_lev in HF.
      destruct (head_unary cfg ts) eqn:HU.
      * pose proof (ostrict_unary _ HU) as Hst.
        assert (Hs : length (adv ts) + 1 <= length ts) by lia.
        apply (Nat.mul_le_mono_l _ _ (obA n)) in Hs. rewrite Nat.mul_add_distr_l, Nat.mul_1_r in Hs.
        pose proof obA_big.
        destruct (op_pos ops (kimg (peek ts))) as [p|].
        -- destruct (ocall_level cfg optimizer recovers ids f (S p) (adv ts)) as [[[b u2] ts2]| | |] eqn:Ec; try discriminate.
           exfalso. refine (ooo_call f IH _ _ _ _ Ec). unfold oc_lev. lia.
        -- destruct (oparse_nonop cfg optimizer recovers f ids (adv ts)) as [[[b u2] ts2]| | |] eqn:Ec; try discriminate.
           exfalso. refine (ooo_nonop f IH _ _ _ Ec). lia.
      * apply (ooo_nonop f IH). lia.
  - intros k o a u ids ts HF. rewrite oparse_op_loop_S. osplit_all; ooo_close f IH HF.
  - intros ids ts HF. rewrite oparse_nonop_S. osplit_all; ooo_close f IH HF.
  - intros e u ids ts HF. rewrite oparse_postfix_S. rewrite ?oexpression_is_level0. osplit_all; ooo_close f IH HF.
  - intros ids ts HF. rewrite oparse_literal_S. osplit_all; ooo_close f IH HF.
  - intros sv cs u ids ts HF. rewrite oparse_switch_S. osplit_all; ooo_close f IH HF.
  - intros c ids ts HF. rewrite oparse_args_S. osplit_all; ooo_close f IH HF.
  - intros c acc u ids ts HF. rewrite oparse_args_loop_S. osplit_all; ooo_close f IH HF.
  - intros m u ids ts HF. rewrite oparse_map_S. osplit_all; ooo_close f IH HF.
Qed.

Lemma ooo_all : forall f, ooo_at f.
Proof.
  induction f as [|f IH]; [|apply ooo_step; exact IH].
  constructor; intros; exfalso; unfold oc_lev in *; lia.
Qed.

(* Parser.Parse on any token list, any configuration: with fuel linear in the number of tokens the model
   returns an AST or an error - it neither runs out of fuel nor panics *)
Theorem oparse_total : forall ids ts f, f >= fuel_for cfg ts ->
  match oparse_fuel cfg optimizer recovers f ids ts with POk _ | PErr => True | PPanic | POOF => False end.
Proof.
  intros ids ts f Hf. unfold oparse_fuel.
  destruct (oparse_let cfg optimizer recovers f ids ts) as [[[a u] rest]| | |] eqn:E.
  - destruct (typ_is (peek rest) tEof); [|exact I].
    destruct (run_opt optimizer recovers SiteFinal a) eqn:Er; try exact I.
    + exact (run_opt_no_panic _ _ Er).
    + exact (run_opt_no_oof _ _ _ _ Er).
  - exact I.
  - exact (onp_let f (onp_all f) _ _ E).
  - refine (ooo_let f (ooo_all f) _ _ _ E). unfold fuel_for in Hf. fold ops in Hf. fold n in Hf.
    change (2 * n + 12) with (obA n) in Hf. rewrite Nat.mul_add_distr_l in Hf.
    pose proof obA_big. lia.
Qed.


End Total.

