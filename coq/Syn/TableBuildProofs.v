(* The table AddOpBehind promises: the new operator binds exactly one level tighter than its anchor, every operator
   that was above the anchor moves up by one level, everything else stays. *)
From P2 Require Import Base.Prelude Base.PreludeProofs Syn.Parse Syn.Render Syn.ParseProofs Syn.TableBuild.
Local Open Scope nat_scope.

Lemma level_of_cons_ne x o r : str_eqb x o = false -> level_of (o :: r) x = option_map S (level_of r x).
Proof. intros H. cbn [level_of]. rewrite H. reflexivity. Qed.

Theorem insert_behind_priority : forall tbl anchor op p,
  NoDup tbl -> ~ In op tbl -> level_of tbl anchor = Some p ->
  exists tbl', insert_behind anchor op tbl = Some tbl' /\
    level_of tbl' anchor = Some p /\ level_of tbl' op = Some (S p) /\
    (forall x q, level_of tbl x = Some q -> level_of tbl' x = Some (if q <=? p then q else S q)) /\
    length tbl' = S (length tbl).
Proof.
  induction tbl as [|o r IH]; intros anchor op p ND Hop Hl; [discriminate|].
  inversion ND as [|? ? Ho NDr]; subst.
  assert (Hoo : str_eqb op o = false).
  { destruct (str_eqb op o) eqn:E; [|reflexivity]. apply str_eqb_eq in E. subst. exfalso. apply Hop. left. reflexivity. }
  cbn [level_of] in Hl. cbn [insert_behind].
  destruct (str_eqb anchor o) eqn:Ea.
  - apply str_eqb_eq in Ea. subst anchor. inversion Hl; subst p. rewrite str_eqb_refl.
    eexists. split; [reflexivity|]. repeat split.
    + cbn [level_of]. rewrite str_eqb_refl. reflexivity.
    + cbn [level_of]. rewrite Hoo, str_eqb_refl. reflexivity.
    + intros x q Hx. cbn [level_of] in *. destruct (str_eqb x o) eqn:Ex.
      * inversion Hx; subst. reflexivity.
      * assert (Hxop : str_eqb x op = false).
        { destruct (str_eqb x op) eqn:E; [|reflexivity]. apply str_eqb_eq in E. subst. exfalso. apply Hop. right.
          destruct (level_of r op) eqn:L; [|discriminate]. eapply nth_error_In. apply level_of_some. exact L. }
        rewrite Hxop. destruct (level_of r x) as [q'|]; [|discriminate]. cbn [option_map] in *. inversion Hx; subst.
        reflexivity.
  - rewrite str_eqb_sym, Ea.
    destruct (level_of r anchor) as [p'|] eqn:Lp; [|discriminate]. cbn [option_map] in Hl. inversion Hl; subst p.
    destruct (IH anchor op p' NDr (fun H => Hop (or_intror H)) Lp) as (r' & Ei & La & Lo & Lx & Len).
    rewrite Ei. eexists. split; [reflexivity|]. repeat split.
    + cbn [level_of]. rewrite Ea, La. reflexivity.
    + cbn [level_of]. rewrite Hoo, Lo. reflexivity.
    + intros x q Hx. cbn [level_of] in *. destruct (str_eqb x o); [inversion Hx; subst; reflexivity|].
      destruct (level_of r x) as [q'|] eqn:Lq; [|discriminate]. cbn [option_map] in Hx. inversion Hx; subst q.
      rewrite (Lx x q' Lq). cbn [option_map]. destruct (q' <=? p') eqn:E; cbn [Nat.leb]; rewrite E; reflexivity.
    + cbn [length]. rewrite Len. reflexivity.
Qed.
