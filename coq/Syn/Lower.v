(* From the parser's AST (Syn/Ast.v, what Syn/Parse.v and the theorems of C03 speak about) to the AST of the semantic
   models (Sem/Syntax.v, what C01 / C02 speak about), for the value configuration value.New():
     - Operate / Unary keep the operator spelling (Priority is dropped),
     - a FunctionCall whose callee is an identifier marked IsFunc is a static call (AStatic),
     - Const[V]: the parser model carries constants as descriptions ("n:" + number image, "s:" + string content,
       "c:" + name of a constant of the generator); [lower_const] is value.FunctionGenerator.ParseNumber /
       FromString / the constant table.  Numbers: a decimal integer in the int64 range is an Int (strconv.Atoi);
       otherwise strconv.ParseFloat - modelled only where the decimal is exactly a binary64 value (then ParseFloat
       returns it exactly); anything else (exponents, decimals that need rounding) is outside the model: None.
   This is the translation the two AST dumps of the harness imply (verif_hooks_parse.go VerifParseDump for Syn,
   harness/c01.go c01DumpAst for Sem); it is hand-written and tied by the text-to-ast condition of the C01 run.
   Definitions only. *)
From P2 Require Import Base.Prelude Sem.Num Sem.Syntax Generated.ValueCfg.
From P2 Require Syn.Ast Syn.Parse.
Local Open Scope N_scope.

Notation XAst := P2.Syn.Ast.ast.

(* ---------- number images ---------- *)
Fixpoint dec_digits (s : str) (acc : Z) : option Z :=
  match s with
  | [] => Some acc
  | c :: r => if (48 <=? c) && (c <=? 57) then dec_digits r (10 * acc + Z.of_N (c - 48))%Z else None
  end.

Fixpoint split_dot (s : str) (pre : str) : str * option str :=
  match s with
  | [] => (rev pre, None)
  | c :: r => if c =? 46 then (rev pre, Some r) else split_dot r (c :: pre)
  end.

(* strconv.Atoi, else strconv.ParseFloat where the decimal is exactly representable *)
Definition parse_number (img : str) : option value :=
  match split_dot img [] with
  | (ip, None) =>
      match ip with
      | [] => None
      | _ => match dec_digits ip 0 with
             | Some z => if (z <? two63)%Z then Some (VInt z)
                         else match mkfl z 0 with Some f => Some (VFloat f) | None => None end
             | None => None
             end
      end
  | (ip, Some fp) =>
      match ip, dec_digits ip 0, dec_digits fp 0 with
      | _ :: _, Some zi, Some zf =>
          let k := Z.of_nat (length fp) in
          let num := (zi * 10 ^ k + zf)%Z in
          if (num mod 5 ^ k =? 0)%Z
          then match mkfl (num / 5 ^ k) (- k) with Some f => Some (VFloat f) | None => None end
          else None
      | _, _, _ => None
      end
  end.

(* the constants of value.New(): pi = math.Pi exactly, true, false *)
Definition value_consts : list (str * value) :=
  [([112; 105], VFloat (FFin 884279719003555 (-48))); ([116; 114; 117; 101], VBool true);
   ([102; 97; 108; 115; 101], VBool false)].

Definition lower_const (c : str) : option value :=
  match c with
  | 110 :: 58 :: img => parse_number img
  | 115 :: 58 :: s => Some (VStr s)
  | 99 :: 58 :: nm => assoc nm value_consts
  | _ => None
  end.

(* ---------- the translation ---------- *)
Fixpoint lower (a : XAst) : option ast :=
  let fix lst (l : list XAst) : option (list ast) :=
    match l with
    | [] => Some []
    | x :: r => match lower x, lst r with Some y, Some ys => Some (y :: ys) | _, _ => None end
    end in
  match a with
  | P2.Syn.Ast.ALet n v i =>
      match lower v, lower i with Some v', Some i' => Some (ALet n v' i') | _, _ => None end
  | P2.Syn.Ast.AIf c t e =>
      match lower c, lower t, lower e with Some c', Some t', Some e' => Some (AIf c' t' e') | _, _, _ => None end
  | P2.Syn.Ast.ATry t c =>
      match lower t, lower c with Some t', Some c' => Some (ATry t' c') | _, _ => None end
  | P2.Syn.Ast.ASwitch v cs d =>
      match lower v,
            (fix go (l : list (XAst * XAst)) : option (list (ast * ast)) :=
               match l with
               | [] => Some []
               | (c, r) :: l' =>
                   match lower c, lower r, go l' with
                   | Some c', Some r', Some l'' => Some ((c', r') :: l'')
                   | _, _, _ => None
                   end
               end) cs,
            lower d with
      | Some v', Some cs', Some d' => Some (ASwitch v' cs' d')
      | _, _, _ => None
      end
  | P2.Syn.Ast.AOp op _ x y =>
      match lower x, lower y with Some x', Some y' => Some (AOp op x' y') | _, _ => None end
  | P2.Syn.Ast.AUn op v => match lower v with Some v' => Some (AUnary op v') | None => None end
  | P2.Syn.Ast.AAccess k m => match lower m with Some m' => Some (AMember m' k) | None => None end
  | P2.Syn.Ast.AMethod nm args v =>
      match lower v, lst args with Some v', Some args' => Some (AMethod v' nm args') | _, _ => None end
  | P2.Syn.Ast.AIndex i l =>
      match lower l, lower i with Some l', Some i' => Some (AIndex l' i') | _, _ => None end
  | P2.Syn.Ast.AClosure ns b o r t =>
      match lower b with Some b' => Some (AClosure ns b' o r t) | None => None end
  | P2.Syn.Ast.AMapLit es =>
      match (fix go (l : list (str * XAst)) : option (list (str * ast)) :=
               match l with
               | [] => Some []
               | (k, x) :: l' =>
                   match lower x, go l' with Some x', Some l'' => Some ((k, x') :: l'') | _, _ => None end
               end) es with
      | Some es' => Some (AMap es')
      | None => None
      end
  | P2.Syn.Ast.AListLit l => match lst l with Some l' => Some (AList l') | None => None end
  | P2.Syn.Ast.AIdent x _ => Some (AIdent x)
  | P2.Syn.Ast.AConst c => match lower_const c with Some v => Some (AConst v) | None => None end
  | P2.Syn.Ast.ACall f args =>
      match f with
      | P2.Syn.Ast.AIdent x true => match lst args with Some args' => Some (AStatic x args') | None => None end
      | _ => match lower f, lst args with Some f', Some args' => Some (ACall f' args') | _, _ => None end
      end
  end.

(* ---------- the value configuration of the parser model ---------- *)
Definition value_num (img : str) : option str :=
  if (1 <? length (filter (N.eqb 46) img))%nat then None else Some (110 :: 58 :: img).
Definition value_strh (s : str) : str := 115 :: 58 :: s.

Definition value_pcfg : P2.Syn.Parse.pcfg :=
  P2.Syn.Parse.mkPcfg (map fst vcfg_ops) vcfg_unary (Some value_num) (Some value_strh).

(* g.identifier of value.New() followed by AddArgs(argnames) (Generate(exp, argnames...)) *)
Definition value_base : P2.Syn.Parse.idents :=
  map (fun e => P2.Syn.Parse.id_function (fst (fst e))) vcfg_statics ++
  map (fun nv => P2.Syn.Parse.id_constant (fst nv) (99 :: 58 :: fst nv)) value_consts.

Definition value_ids (argnames : list str) : P2.Syn.Parse.idents :=
  match argnames with
  | [] => value_base
  | _ => P2.Syn.Parse.SArgs argnames :: value_base
  end.
