(* Corollaries of completeness and soundness: printer round trips, a rendering denotes one tree,
   renderings are balanced (so unbalanced input is rejected). *)
From P2 Require Import Base.Prelude Base.PreludeProofs Lex.Token Syn.Ast Syn.Parse Syn.Render Syn.ParseRel
  Syn.ParseProofs Syn.ParseSound Syn.ParseTotal.
Local Open Scope nat_scope.

Section Cor.
Variable cfg : pcfg.
Variable ids : idents.
Let ops := c_ops cfg.
Let n := length ops.
Ltac nlia := unfold n, ops in *; lia.

Notation flatten := (flatten cfg).
Notation flatten_args := (flatten_args cfg).
Notation erase := (erase cfg ids).
Notation erase_args := (erase_args cfg ids).
Notation wf := (wf cfg).
Notation wf_args := (wf_args cfg).
Notation lvl := (lvl cfg).
Notation ab := (ab cfg).
Notation pp := (pp cfg).
Notation pp_args := (pp_args cfg).
Notation shape := (shape cfg).
Notation shape_args := (shape_args cfg).

(* ---------- printers ---------- *)
Lemma pp_RBin d j l r : pp d (RBin j l r) =
  parens (d (RBin j l r)) (RBin j (need ((j <=? lvl (pp d l)) && (j <? ab (pp d l))) (pp d l))
                                  (need (S j <=? lvl (pp d r)) (pp d r))).
Proof. reflexivity. Qed.
Lemma pp_RUn d u e : pp d (RUn u e) =
  parens (d (RUn u e)) (RUn u (need (match level_of ops u with
                                     | Some p => S p <=? lvl (pp d e)
                                     | None => lvl (pp d e) =? S n
                                     end) (pp d e))).
Proof. reflexivity. Qed.
Lemma pp_RAccess d e x : pp d (RAccess e x) = parens (d (RAccess e x)) (RAccess (need (lvl (pp d e) =? S n) (pp d e)) x).
Proof. reflexivity. Qed.
Lemma pp_RMethod d e x a : pp d (RMethod e x a) =
  parens (d (RMethod e x a)) (RMethod (need (lvl (pp d e) =? S n) (pp d e)) x (pp_args d a)).
Proof. reflexivity. Qed.
Lemma pp_RCall d e a : pp d (RCall e a) =
  parens (d (RCall e a)) (RCall (need ((lvl (pp d e) =? S n) && negb (is_access (pp d e))) (pp d e)) (pp_args d a)).
Proof. reflexivity. Qed.
Lemma pp_RIndex d e i : pp d (RIndex e i) =
  parens (d (RIndex e i)) (RIndex (need (lvl (pp d e) =? S n) (pp d e)) (pp d i)).
Proof. reflexivity. Qed.
Lemma pp_RList d a : pp d (RList a) = parens (d (RList a)) (RList (pp_args d a)).
Proof. reflexivity. Qed.
Lemma pp_RParen d r : pp d (RParen r) = pp d r. Proof. reflexivity. Qed.
Lemma pp_args_last d e : pp_args d (RA_last e) = RA_last (pp d e). Proof. reflexivity. Qed.
Lemma pp_args_cons d e r : pp_args d (RA_cons e r) = RA_cons (pp d e) (pp_args d r). Proof. reflexivity. Qed.
Lemma shape_RBin j l r : shape (RBin j l r) = (j <? n) && shape l && shape r. Proof. reflexivity. Qed.
Lemma shape_RUn u e : shape (RUn u e) = mem_str u (c_unary cfg) && shape e. Proof. reflexivity. Qed.
Lemma shape_RMethod e x a : shape (RMethod e x a) = shape e && shape_args a. Proof. reflexivity. Qed.
Lemma shape_RCall e a : shape (RCall e a) = shape e && shape_args a. Proof. reflexivity. Qed.
Lemma shape_RIndex e i : shape (RIndex e i) = shape e && shape i. Proof. reflexivity. Qed.
Lemma shape_RList a : shape (RList a) = shape_args a. Proof. reflexivity. Qed.
Lemma shape_RAccess e x : shape (RAccess e x) = shape e. Proof. reflexivity. Qed.
Lemma shape_RParen r : shape (RParen r) = shape r. Proof. reflexivity. Qed.
Lemma shape_args_last e : shape_args (RA_last e) = shape e. Proof. reflexivity. Qed.
Lemma shape_args_cons e r : shape_args (RA_cons e r) = shape e && shape_args r. Proof. reflexivity. Qed.

Lemma wf_parens k r : wf (parens k r) = wf r.
Proof. induction k; cbn [parens]; rsimpl; auto. Qed.
Lemma erase_parens k r : erase (parens k r) = erase r.
Proof. induction k; cbn [parens]; rsimpl; auto. Qed.

Lemma need_true x : need true x = x. Proof. reflexivity. Qed.
Lemma need_false x : need false x = RParen x. Proof. reflexivity. Qed.
Lemma wf_need b x : wf (need b x) = wf x. Proof. destruct b; reflexivity. Qed.
Lemma erase_need b x : erase (need b x) = erase x. Proof. destruct b; reflexivity. Qed.

Lemma pp_erase d : (forall r, erase (pp d r) = erase r) /\ (forall a, erase_args (pp_args d a) = erase_args a).
Proof.
  apply rt_rargs_ind; intros;
    try rewrite pp_RBin; try rewrite pp_RUn; try rewrite pp_RAccess; try rewrite pp_RMethod; try rewrite pp_RCall;
    try rewrite pp_RIndex; try rewrite pp_RList; try rewrite pp_RParen; try rewrite pp_args_last; try rewrite pp_args_cons;
    try rewrite erase_parens; rsimpl; repeat rewrite erase_need;
    try (cbn [Render.pp]; rewrite erase_parens; reflexivity);
    repeat match goal with H : _ = _ |- _ => rewrite H; clear H end; try reflexivity.
Qed.

Lemma pp_wf d : (forall r, shape r = true -> wf (pp d r) = true) /\
                (forall a, shape_args a = true -> wf_args (pp_args d a) = true).
Proof.
  apply rt_rargs_ind.
  - intros x _. cbn [Render.pp]. rewrite wf_parens. reflexivity.
  - intros x _. cbn [Render.pp]. rewrite wf_parens. reflexivity.
  - intros x _. cbn [Render.pp]. rewrite wf_parens. reflexivity.
  - intros r IH Sh. rewrite pp_RParen. rewrite shape_RParen in Sh. auto.
  - intros j l IHl r IHr Sh. rewrite shape_RBin in Sh.
    apply andb_true_iff in Sh. destruct Sh as [Sh Sr]. apply andb_true_iff in Sh. destruct Sh as [Sj Sl].
    rewrite pp_RBin, wf_parens. rsimpl. fold ops. fold n. rewrite Sj, !wf_need, (IHl Sl), (IHr Sr). cbn [andb].
    apply Nat.ltb_lt in Sj.
    assert (H1 : (j <=? lvl (need ((j <=? lvl (pp d l)) && (j <? ab (pp d l))) (pp d l))) &&
                 (j <? ab (need ((j <=? lvl (pp d l)) && (j <? ab (pp d l))) (pp d l))) = true).
    { destruct ((j <=? lvl (pp d l)) && (j <? ab (pp d l))) eqn:E.
      - rewrite need_true. exact E.
      - rewrite need_false. cbn [Render.lvl Render.ab]. fold ops. fold n.
        apply andb_true_iff. split; [apply Nat.leb_le|apply Nat.ltb_lt]; lia. }
    apply andb_true_iff in H1. destruct H1 as [H1 H2]. rewrite H1, H2. cbn [andb].
    destruct (S j <=? lvl (pp d r)) eqn:E.
    + rewrite need_true. exact E.
    + rewrite need_false. cbn [Render.lvl]. fold ops. fold n. apply Nat.leb_le. lia.
  - intros u e IH Sh. rewrite shape_RUn in Sh. apply andb_true_iff in Sh. destruct Sh as [Su Se].
    rewrite pp_RUn, wf_parens. rsimpl. fold ops. fold n. rewrite Su, wf_need, (IH Se). cbn [andb].
    destruct (level_of ops u) as [p|] eqn:Lp.
    + destruct (S p <=? lvl (pp d e)) eqn:E.
      * rewrite need_true. exact E.
      * rewrite need_false. cbn [Render.lvl]. fold ops. fold n. apply Nat.leb_le.
        pose proof (nth_error_lt _ _ _ (level_of_some _ _ _ Lp)). nlia.
    + destruct (lvl (pp d e) =? S n) eqn:E.
      * rewrite need_true. exact E.
      * rewrite need_false. cbn [Render.lvl]. fold ops. fold n. apply Nat.eqb_refl.
  - intros e IH x Sh. rewrite shape_RAccess in Sh.
    rewrite pp_RAccess, wf_parens. rsimpl. fold ops. fold n. rewrite wf_need, (IH Sh). cbn [andb].
    destruct (lvl (pp d e) =? S n) eqn:E; [rewrite need_true; exact E|rewrite need_false; cbn [Render.lvl]; fold ops; fold n; apply Nat.eqb_refl].
  - intros e IH x a IHa Sh. rewrite shape_RMethod in Sh. apply andb_true_iff in Sh. destruct Sh as [Se Sa].
    rewrite pp_RMethod, wf_parens. rsimpl. fold ops. fold n. rewrite wf_need, (IH Se), (IHa Sa). cbn [andb]. rewrite andb_true_r.
    destruct (lvl (pp d e) =? S n) eqn:E; [rewrite need_true; exact E|rewrite need_false; cbn [Render.lvl]; fold ops; fold n; apply Nat.eqb_refl].
  - intros e IH a IHa Sh. rewrite shape_RCall in Sh. apply andb_true_iff in Sh. destruct Sh as [Se Sa].
    rewrite pp_RCall, wf_parens. rsimpl. fold ops. fold n. rewrite wf_need, (IH Se), (IHa Sa). cbn [andb]. rewrite andb_true_r.
    destruct ((lvl (pp d e) =? S n) && negb (is_access (pp d e))) eqn:E.
    + rewrite need_true. exact E.
    + rewrite need_false. cbn [Render.lvl is_access]. fold ops. fold n. rewrite Nat.eqb_refl. reflexivity.
  - intros e IH i IHi Sh. rewrite shape_RIndex in Sh. apply andb_true_iff in Sh. destruct Sh as [Se Si].
    rewrite pp_RIndex, wf_parens. rsimpl. fold ops. fold n. rewrite wf_need, (IH Se), (IHi Si). cbn [andb]. rewrite andb_true_r.
    destruct (lvl (pp d e) =? S n) eqn:E; [rewrite need_true; exact E|rewrite need_false; cbn [Render.lvl]; fold ops; fold n; apply Nat.eqb_refl].
  - intros a IHa Sh. rewrite shape_RList in Sh. rewrite pp_RList, wf_parens. rsimpl. auto.
  - reflexivity.
  - intros e IH Sh. rewrite shape_args_last in Sh. rewrite pp_args_last. rsimpl. auto.
  - intros e IH r IHr Sh. rewrite shape_args_cons in Sh. apply andb_true_iff in Sh. destruct Sh as [Se Sr].
    rewrite pp_args_cons. rsimpl. rewrite (IH Se), (IHr Sr). reflexivity.
Qed.

(* ---------- renderings are balanced ---------- *)
Lemma bal_flatten :
  (forall r st rest, balanced_from st (flatten r ++ rest) = balanced_from st rest) /\
  (forall a c kc st rest, close_tok c kc ->
     balanced_from (c :: st) (flatten_args kc a ++ rest) = balanced_from st rest).
Proof.
  apply rt_rargs_ind.
  - intros x st rest. rsimpl. reflexivity.
  - intros x st rest. rsimpl. reflexivity.
  - intros x st rest. rsimpl. reflexivity.
  - intros r IH st rest. rsimpl. cbn [app]. rewrite <- app_assoc. cbn. rewrite IH. reflexivity.
  - intros j l IHl r IHr st rest. rsimpl. rewrite <- app_assoc. cbn [app]. rewrite IHl. cbn. apply IHr.
  - intros u e IH st rest. rsimpl. cbn. apply IH.
  - intros e IH x st rest. rsimpl. rewrite <- app_assoc. rewrite IH. reflexivity.
  - intros e IH x a IHa st rest. rsimpl. rewrite <- app_assoc. rewrite IH. cbn. apply IHa. left. auto.
  - intros e IH a IHa st rest. rsimpl. rewrite <- app_assoc. rewrite IH. cbn. apply IHa. left. auto.
  - intros e IH i IHi st rest. rsimpl. rewrite <- app_assoc. rewrite IH. cbn. rewrite <- app_assoc. rewrite IHi. reflexivity.
  - intros a IHa st rest. rsimpl. cbn. apply IHa. right. auto.
  - intros c kc st rest Hc. rsimpl. destruct Hc as [[-> ->]|[-> ->]]; reflexivity.
  - intros e IH c kc st rest Hc. rsimpl. rewrite <- app_assoc. rewrite IH. destruct Hc as [[-> ->]|[-> ->]]; reflexivity.
  - intros e IH r IHr c kc st rest Hc. rsimpl. rewrite <- app_assoc. rewrite IH. cbn. apply IHr. exact Hc.
Qed.

Lemma renders_balanced e ts : renders cfg ids e ts -> balanced ts = true.
Proof.
  intros (r & _ & _ & <-). unfold balanced. rewrite <- (app_nil_r (flatten r)).
  rewrite (proj1 bal_flatten). reflexivity.
Qed.

Hypothesis Htable : table_ok cfg = true.

(* the three printers of the property: any amount of redundant parentheses (choice function d),
   none (pp_min), all (pp_full) *)
Theorem pp_roundtrip : forall d r e, shape r = true -> erase r = Some e ->
  exists f0, forall f, f0 <= f -> parse_fuel cfg f ids (flatten (pp d r)) = POk e.
Proof.
  intros d r e Sh E. apply (parse_complete cfg ids Htable).
  - apply (proj1 (pp_wf d)). exact Sh.
  - rewrite (proj1 (pp_erase d)). exact E.
Qed.

(* a token list is a rendering of at most one tree *)
Theorem renders_unique : forall e e' ts, renders cfg ids e ts -> renders cfg ids e' ts -> e = e'.
Proof.
  intros e e' ts (r & W & E & <-) (r' & W' & E' & Efl).
  destruct (parse_complete cfg ids Htable r e W E) as [f0 H].
  destruct (parse_complete cfg ids Htable r' e' W' E') as [f1 H'].
  specialize (H (Nat.max f0 f1) ltac:(lia)). specialize (H' (Nat.max f0 f1) ltac:(lia)).
  rewrite Efl in H'. congruence.
Qed.

(* structurally malformed input is rejected *)
Theorem reject_nonrendering : forall f ts, frag_toks ts = true ->
  (forall e, ~ renders cfg ids e ts) -> forall e, parse_fuel cfg f ids ts <> POk e.
Proof. intros f ts F H e P. exact (H e (parse_sound cfg ids Htable f ts e F P)). Qed.

Theorem reject_unbalanced : forall f ts, frag_toks ts = true -> balanced ts = false ->
  forall e, parse_fuel cfg f ids ts <> POk e.
Proof.
  intros f ts F B e P. pose proof (renders_balanced e ts (parse_sound cfg ids Htable f ts e F P)). congruence.
Qed.

(* the same with the canonical, linear fuel of [parse] (ParseTotal: more fuel never changes a result) *)
Theorem parse_complete_exact : forall r e, wf r = true -> erase r = Some e ->
  parse cfg ids (flatten r) = POk e.
Proof.
  intros r e W E. destruct (parse_complete cfg ids Htable r e W E) as [f0 H].
  apply (parse_fuel_stable cfg f0); [apply H; lia|discriminate].
Qed.

Theorem pp_roundtrip_exact : forall d r e, shape r = true -> erase r = Some e ->
  parse cfg ids (flatten (pp d r)) = POk e.
Proof.
  intros d r e Sh E. apply parse_complete_exact.
  - apply (proj1 (pp_wf d)). exact Sh.
  - rewrite (proj1 (pp_erase d)). exact E.
Qed.

End Cor.
