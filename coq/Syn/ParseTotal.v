(* Totality of the parser model (parser half of C04), for EVERY configuration - any operator table incl. the
   empty one, any identifier chain - and every token list of the full grammar:
     parse_no_panic : no fuel, no input makes the model panic (parseOp is only ever asked for levels that exist);
     parse_total    : with fuel (2*|ops| + 12) * (|tokens| + 2) the result is an AST or an error, never
                      out-of-fuel: the number of calls is linear in the number of tokens. *)
From P2 Require Import Base.Prelude Base.PreludeProofs Lex.Token Syn.Ast Syn.Parse Syn.ParseRel.
Local Open Scope nat_scope.

Section Total.
Variable cfg : pcfg.
Let ops := c_ops cfg.
Let n := length ops.

Lemma identlist_no_panic : forall f names ts, parse_identlist f names ts <> PPanic.
Proof.
  induction f as [|f IH]; intros names ts; cbn [parse_identlist]; [discriminate|].
  destruct (typ_is (peek ts) tIdent); [|discriminate].
  destruct (mem_str (kimg (peek ts)) names); [discriminate|].
  destruct (ktyp (peek (adv ts))); try discriminate. apply IH.
Qed.

(* ---------- no panic ---------- *)
Record np_at (f : nat) : Prop := {
  np_let : forall ids ts, parse_let cfg f ids ts <> PPanic;
  np_expr : forall ids ts, parse_expression cfg f ids ts <> PPanic;
  np_op : forall k ids ts, k < n -> parse_op cfg f k ids ts <> PPanic;
  np_loop : forall k o a u ids ts, k < n -> parse_op_loop cfg f k o a u ids ts <> PPanic;
  np_unary : forall ids ts, parse_unary cfg f ids ts <> PPanic;
  np_nonop : forall ids ts, parse_nonop cfg f ids ts <> PPanic;
  np_postfix : forall e u ids ts, parse_postfix cfg f e u ids ts <> PPanic;
  np_literal : forall ids ts, parse_literal cfg f ids ts <> PPanic;
  np_switch : forall sv cs u ids ts, parse_switch cfg f sv cs u ids ts <> PPanic;
  np_args : forall c ids ts, parse_args cfg f c ids ts <> PPanic;
  np_args_loop : forall c acc u ids ts, parse_args_loop cfg f c acc u ids ts <> PPanic;
  np_map : forall m u ids ts, parse_map cfg f m u ids ts <> PPanic
}.

Lemma np_call f (IH : np_at f) k ids ts : k <= n -> call_level cfg ids f k ts <> PPanic.
Proof.
  intros Hk. unfold call_level. fold ops. fold n. destruct (k <? n) eqn:E.
  - apply Nat.ltb_lt in E. apply (np_op f IH); exact E.
  - apply (np_unary f IH).
Qed.

Ltac split_all :=
  repeat match goal with
  | |- context [match ?x with _ => _ end] => destruct x eqn:?
  | |- context [if ?x then _ else _] => destruct x eqn:?
  end.

Ltac np_close f IH :=
  try discriminate;
  try (exfalso; match goal with
       | E : parse_let _ _ _ _ = PPanic |- _ => exact (np_let f IH _ _ E)
       | E : parse_expression _ _ _ _ = PPanic |- _ => exact (np_expr f IH _ _ E)
       | E : parse_nonop _ _ _ _ = PPanic |- _ => exact (np_nonop f IH _ _ E)
       | E : parse_literal _ _ _ _ = PPanic |- _ => exact (np_literal f IH _ _ E)
       | E : parse_args _ _ _ _ _ = PPanic |- _ => exact (np_args f IH _ _ _ E)
       | E : parse_identlist _ _ _ = PPanic |- _ => exact (identlist_no_panic _ _ _ E)
       end);
  try apply (np_let f IH); try apply (np_expr f IH); try apply (np_postfix f IH); try apply (np_switch f IH);
  try apply (np_args_loop f IH); try apply (np_map f IH); try apply (np_nonop f IH).

Lemma np_step f : np_at f -> np_at (S f).
Proof.
  intros IH. constructor.
  - intros ids ts. rewrite parse_let_S. split_all; np_close f IH.
  - intros ids ts. rewrite parse_expression_S. fold ops. fold n. destruct (n =? 0) eqn:E.
    + apply (np_unary f IH).
    + apply (np_op f IH). apply Nat.eqb_neq in E. lia.
  - intros k ids ts Hk. rewrite parse_op_S. fold ops.
    destruct (nth_error ops k) as [o|] eqn:Ho; [|apply nth_error_None in Ho; unfold n in Hk; lia].
    destruct (call_level cfg ids f (S k) ts) as [[[a u] ts1]| | |] eqn:Ec; try discriminate.
    + apply (np_loop f IH). exact Hk.
    + exfalso. exact (np_call f IH (S k) ids ts Hk Ec).
  - intros k o a u ids ts Hk. rewrite parse_op_loop_S. destruct (is_op (peek ts) o); [|discriminate].
    destruct (call_level cfg ids f (S k) (adv ts)) as [[[b u2] ts2]| | |] eqn:Ec; try discriminate.
    + apply (np_loop f IH). exact Hk.
    + exfalso. exact (np_call f IH (S k) ids _ Hk Ec).
  - intros ids ts. rewrite parse_unary_S. fold ops. destruct (head_unary cfg ts); [|apply (np_nonop f IH)].
    destruct (op_pos ops (kimg (peek ts))) as [p|] eqn:Ep.
    + destruct (call_level cfg ids f (S p) (adv ts)) as [[[b u2] ts2]| | |] eqn:Ec; try discriminate.
      exfalso. refine (np_call f IH (S p) ids _ _ Ec).
      (* op_pos only returns positions of the table *)
      assert (G : forall l i acc q, op_pos_from (kimg (peek ts)) l i acc = Some q ->
                  (exists q0, acc = Some q0 /\ q = q0) \/ (i <= q < i + length l)).
      { induction l as [|o l IHl]; intros i acc q H; cbn [op_pos_from] in H.
        - left. eauto.
        - destruct (IHl _ _ _ H) as [(q0 & E1 & E2)|Hr].
          + destruct (str_eqb (kimg (peek ts)) o).
            * inversion E1; subst. right. cbn [length]. lia.
            * left. eauto.
          + right. cbn [length]. lia. }
      destruct (G ops 0 None p Ep) as [(q0 & E1 & _)|Hr]; [discriminate|]. unfold n. lia.
    + destruct (parse_nonop cfg f ids (adv ts)) as [[[b u2] ts2]| | |] eqn:Ec; try discriminate.
      exfalso. exact (np_nonop f IH _ _ Ec).
  - intros ids ts. rewrite parse_nonop_S. split_all; np_close f IH.
  - intros e u ids ts. rewrite parse_postfix_S. split_all; np_close f IH.
  - intros ids ts. rewrite parse_literal_S. split_all; np_close f IH.
  - intros sv cs u ids ts. rewrite parse_switch_S. split_all; np_close f IH.
  - intros c ids ts. rewrite parse_args_S. split_all; np_close f IH.
  - intros c acc u ids ts. rewrite parse_args_loop_S. split_all; np_close f IH.
  - intros m u ids ts. rewrite parse_map_S. split_all; np_close f IH.
Qed.

Lemma np_all : forall f, np_at f.
Proof.
  induction f as [|f IH]; [constructor; intros; discriminate|]. apply np_step. exact IH.
Qed.

Theorem parse_no_panic : forall f ids ts, parse_fuel cfg f ids ts <> PPanic.
Proof.
  intros f ids ts. unfold parse_fuel.
  destruct (parse_let cfg f ids ts) as [[[a u] rest]| | |] eqn:E; try discriminate.
  - destruct (typ_is (peek rest) tEof); discriminate.
  - exfalso. exact (np_let f (np_all f) _ _ E).
Qed.

(* ---------- a parse function never hands back more tokens than it was given ---------- *)
Lemma adv_le (ts : list tk) : length (adv ts) <= length ts.
Proof. destruct ts; cbn [adv length]; lia. Qed.

Lemma identlist_shrink : forall f names ts names' ts',
  parse_identlist f names ts = POk (names', ts') -> length ts' <= length ts.
Proof.
  induction f as [|f IH]; intros names ts names' ts' H; [discriminate|]. cbn [parse_identlist] in H.
  destruct (typ_is (peek ts) tIdent); [|discriminate].
  destruct (mem_str (kimg (peek ts)) names); [discriminate|].
  pose proof (adv_le ts). pose proof (adv_le (adv ts)).
  destruct (ktyp (peek (adv ts))); try discriminate.
  - inversion H; subst. lia.
  - apply IH in H. lia.
Qed.

Record sh_at (f : nat) : Prop := {
  sh_let : forall ids ts e u rest, parse_let cfg f ids ts = POk (e, u, rest) -> length rest <= length ts;
  sh_expr : forall ids ts e u rest, parse_expression cfg f ids ts = POk (e, u, rest) -> length rest <= length ts;
  sh_op : forall k ids ts e u rest, parse_op cfg f k ids ts = POk (e, u, rest) -> length rest <= length ts;
  sh_loop : forall k o a u0 ids ts e u rest,
      parse_op_loop cfg f k o a u0 ids ts = POk (e, u, rest) -> length rest <= length ts;
  sh_unary : forall ids ts e u rest, parse_unary cfg f ids ts = POk (e, u, rest) -> length rest <= length ts;
  sh_nonop : forall ids ts e u rest, parse_nonop cfg f ids ts = POk (e, u, rest) -> length rest <= length ts;
  sh_postfix : forall a u0 ids ts e u rest,
      parse_postfix cfg f a u0 ids ts = POk (e, u, rest) -> length rest <= length ts;
  sh_literal : forall ids ts e u rest, parse_literal cfg f ids ts = POk (e, u, rest) -> length rest <= length ts;
  sh_switch : forall sv cs u0 ids ts e u rest,
      parse_switch cfg f sv cs u0 ids ts = POk (e, u, rest) -> length rest <= length ts;
  sh_args : forall c ids ts e u rest, parse_args cfg f c ids ts = POk (e, u, rest) -> length rest <= length ts;
  sh_args_loop : forall c acc u0 ids ts e u rest,
      parse_args_loop cfg f c acc u0 ids ts = POk (e, u, rest) -> length rest <= length ts;
  sh_map : forall m u0 ids ts e u rest, parse_map cfg f m u0 ids ts = POk (e, u, rest) -> length rest <= length ts
}.

Lemma sh_call f (IH : sh_at f) k ids ts e u rest :
  call_level cfg ids f k ts = POk (e, u, rest) -> length rest <= length ts.
Proof.
  unfold call_level. destruct (_ <? _); [apply (sh_op f IH)|apply (sh_unary f IH)].
Qed.

Ltac split_hyp H :=
  repeat match type of H with
  | context [match ?x with _ => _ end] => destruct x eqn:?; try discriminate
  | context [if ?x then _ else _] => destruct x eqn:?; try discriminate
  end;
  repeat match goal with
  | H' : context [match ?x with _ => _ end] |- _ =>
      match type of H' with _ = POk _ => destruct x eqn:?; try discriminate end
  end.

Ltac known t r := match goal with _ : length r <= length t |- _ => idtac end.

Ltac sh_facts f IH :=
  repeat match goal with
  | E : parse_let cfg f _ ?t = POk (_, _, ?r) |- _ => tryif known t r then fail else pose proof (sh_let f IH _ _ _ _ _ E)
  | E : parse_expression cfg f _ ?t = POk (_, _, ?r) |- _ => tryif known t r then fail else pose proof (sh_expr f IH _ _ _ _ _ E)
  | E : call_level cfg _ f _ ?t = POk (_, _, ?r) |- _ => tryif known t r then fail else pose proof (sh_call f IH _ _ _ _ _ _ E)
  | E : parse_op_loop cfg f _ _ _ _ _ ?t = POk (_, _, ?r) |- _ => tryif known t r then fail else pose proof (sh_loop f IH _ _ _ _ _ _ _ _ _ E)
  | E : parse_nonop cfg f _ ?t = POk (_, _, ?r) |- _ => tryif known t r then fail else pose proof (sh_nonop f IH _ _ _ _ _ E)
  | E : parse_postfix cfg f _ _ _ ?t = POk (_, _, ?r) |- _ => tryif known t r then fail else pose proof (sh_postfix f IH _ _ _ _ _ _ _ E)
  | E : parse_literal cfg f _ ?t = POk (_, _, ?r) |- _ => tryif known t r then fail else pose proof (sh_literal f IH _ _ _ _ _ E)
  | E : parse_switch cfg f _ _ _ _ ?t = POk (_, _, ?r) |- _ => tryif known t r then fail else pose proof (sh_switch f IH _ _ _ _ _ _ _ _ E)
  | E : parse_args cfg f _ _ ?t = POk (_, _, ?r) |- _ => tryif known t r then fail else pose proof (sh_args f IH _ _ _ _ _ _ E)
  | E : parse_args_loop cfg f _ _ _ _ ?t = POk (_, _, ?r) |- _ => tryif known t r then fail else pose proof (sh_args_loop f IH _ _ _ _ _ _ _ _ E)
  | E : parse_map cfg f _ _ _ ?t = POk (_, _, ?r) |- _ => tryif known t r then fail else pose proof (sh_map f IH _ _ _ _ _ _ _ E)
  | E : parse_identlist _ _ ?t = POk (_, ?r) |- _ => tryif known t r then fail else pose proof (identlist_shrink _ _ _ _ _ E)
  end.

Ltac adv_known x := match goal with _ : length (adv x) <= length x |- _ => idtac end.
Ltac adv_facts :=
  repeat match goal with
  | |- context [adv ?x] => tryif adv_known x then fail else pose proof (adv_le x)
  | _ : context [adv ?x] |- _ => tryif adv_known x then fail else pose proof (adv_le x)
  end.

Ltac sh_finish f IH H :=
  split_hyp H; try (inversion H; subst); sh_facts f IH; adv_facts; lia.

Lemma sh_step f : sh_at f -> sh_at (S f).
Proof.
  intros IH. constructor.
  - intros ids ts e u rest H. rewrite parse_let_S in H. sh_finish f IH H.
  - intros ids ts e u rest H. rewrite parse_expression_S in H.
    destruct (_ =? 0); [apply (sh_unary f IH) in H|apply (sh_op f IH) in H]; exact H.
  - intros k ids ts e u rest H. rewrite parse_op_S in H. sh_finish f IH H.
  - intros k o a u0 ids ts e u rest H. rewrite parse_op_loop_S in H. sh_finish f IH H.
  - intros ids ts e u rest H. rewrite parse_unary_S in H. sh_finish f IH H.
  - intros ids ts e u rest H. rewrite parse_nonop_S in H. sh_finish f IH H.
  - intros a u0 ids ts e u rest H. rewrite parse_postfix_S in H. sh_finish f IH H.
  - intros ids ts e u rest H. rewrite parse_literal_S in H. sh_finish f IH H.
  - intros sv cs u0 ids ts e u rest H. rewrite parse_switch_S in H. sh_finish f IH H.
  - intros c ids ts e u rest H. rewrite parse_args_S in H. sh_finish f IH H.
  - intros c acc u0 ids ts e u rest H. rewrite parse_args_loop_S in H. sh_finish f IH H.
  - intros m u0 ids ts e u rest H. rewrite parse_map_S in H. sh_finish f IH H.
Qed.

Lemma sh_all : forall f, sh_at f.
Proof. induction f as [|f IH]; [constructor; intros; discriminate|]. apply sh_step. exact IH. Qed.

(* ---------- fuel linear in the number of tokens suffices ---------- *)
Definition bA (m : nat) : nat := 2 * m + 12.
Definition c_lev (k : nat) : nat := 3 + (n - k).

Lemma peek_strict (ts : list tk) : ktyp (peek ts) <> tEof -> length ts = S (length (adv ts)).
Proof. destruct ts; cbn [peek adv length]; [intros H; exfalso; apply H; reflexivity|reflexivity]. Qed.

Lemma strict_typ ts ty : ktyp (peek ts) = ty -> ty <> tEof -> length ts = S (length (adv ts)).
Proof. intros H Hn. apply peek_strict. congruence. Qed.

Lemma ttype_eqb_true a b : ttype_eqb a b = true -> a = b.
Proof. destruct a, b; simpl; intros H; try discriminate; reflexivity. Qed.

Lemma strict_typ_is ts ty : typ_is (peek ts) ty = true -> ty <> tEof -> length ts = S (length (adv ts)).
Proof. unfold typ_is. intros H. apply ttype_eqb_true in H. apply strict_typ. exact H. Qed.

Lemma strict_kw ts s : is_kw (peek ts) s = true -> length ts = S (length (adv ts)).
Proof.
  unfold is_kw. intros H. apply andb_true_iff in H. destruct H as [H _].
  apply (strict_typ_is ts tKeyWord H). discriminate.
Qed.

Lemma strict_op ts s : is_op (peek ts) s = true -> length ts = S (length (adv ts)).
Proof.
  unfold is_op. intros H. apply andb_true_iff in H. destruct H as [H _].
  apply (strict_typ_is ts tOperate H). discriminate.
Qed.

Lemma strict_unary ts : head_unary cfg ts = true -> length ts = S (length (adv ts)).
Proof.
  unfold head_unary. intros H. apply andb_true_iff in H. destruct H as [H _].
  apply (strict_typ_is ts tOperate H). discriminate.
Qed.

Lemma identlist_fuel : forall f names ts, length ts < f -> parse_identlist f names ts <> POOF.
Proof.
  induction f as [|f IH]; intros names ts Hf; [lia|]. cbn [parse_identlist].
  destruct (typ_is (peek ts) tIdent) eqn:E1; [|discriminate].
  destruct (mem_str (kimg (peek ts)) names); [discriminate|].
  pose proof (strict_typ_is _ _ E1 ltac:(discriminate)). pose proof (adv_le (adv ts)).
  destruct (ktyp (peek (adv ts))); try discriminate. apply IH. lia.
Qed.

Record oo_at (f : nat) : Prop := {
  oo_let : forall ids ts, f >= bA n * length ts + (n + 5) -> parse_let cfg f ids ts <> POOF;
  oo_expr : forall ids ts, f >= bA n * length ts + (n + 4) -> parse_expression cfg f ids ts <> POOF;
  oo_call : forall k ids ts, f >= bA n * length ts + c_lev k -> call_level cfg ids f k ts <> POOF;
  oo_loop : forall k o a u ids ts, f >= bA n * length ts + 1 -> parse_op_loop cfg f k o a u ids ts <> POOF;
  oo_nonop : forall ids ts, f >= bA n * length ts + 2 -> parse_nonop cfg f ids ts <> POOF;
  oo_postfix : forall e u ids ts, f >= bA n * length ts + 1 -> parse_postfix cfg f e u ids ts <> POOF;
  oo_literal : forall ids ts, f >= bA n * length ts + 1 -> parse_literal cfg f ids ts <> POOF;
  oo_switch : forall sv cs u ids ts, f >= bA n * length ts + 1 -> parse_switch cfg f sv cs u ids ts <> POOF;
  oo_args : forall c ids ts, f >= bA n * length ts + (n + 7) -> parse_args cfg f c ids ts <> POOF;
  oo_args_loop : forall c acc u ids ts, f >= bA n * length ts + (n + 6) -> parse_args_loop cfg f c acc u ids ts <> POOF;
  oo_map : forall m u ids ts, f >= bA n * length ts + 1 -> parse_map cfg f m u ids ts <> POOF
}.

Lemma bA_big : bA n >= n + 8.
Proof. unfold bA. lia. Qed.

Ltac strict_known t := match goal with _ : length t = S (length (adv t)) |- _ => idtac end.
Ltac strict_facts :=
  repeat match goal with
  | E : negb _ = false |- _ => apply negb_false_iff in E
  | E : _ && _ = true |- _ => apply andb_true_iff in E; destruct E
  | E : ktyp (peek ?t) = ?ty |- _ =>
      tryif strict_known t then fail else pose proof (strict_typ t ty E ltac:(discriminate))
  | E : typ_is (peek ?t) ?ty = true |- _ =>
      tryif strict_known t then fail else pose proof (strict_typ_is t ty E ltac:(discriminate))
  | E : is_kw (peek ?t) _ = true |- _ => tryif strict_known t then fail else pose proof (strict_kw t _ E)
  | E : is_op (peek ?t) _ = true |- _ => tryif strict_known t then fail else pose proof (strict_op t _ E)
  | E : head_unary cfg ?t = true |- _ => tryif strict_known t then fail else pose proof (strict_unary t E)
  end.

(* the fuel that is left suffices for a call on t': t' is shorter than ts, or as long with a smaller constant *)
Ltac fuel_side HF :=
  pose proof bA_big;
  match type of HF with
  | S _ >= bA n * length ?ts + _ =>
      match goal with
      | |- _ >= bA n * length ?t' + _ =>
          first [ let Hs := fresh "Hs" in
                  assert (Hs : length t' + 1 <= length ts) by lia;
                  apply (Nat.mul_le_mono_l _ _ (bA n)) in Hs;
                  rewrite Nat.mul_add_distr_l, Nat.mul_1_r in Hs; unfold c_lev in *; lia
                | let Hs := fresh "Hs" in
                  assert (Hs : length t' <= length ts) by lia;
                  apply (Nat.mul_le_mono_l _ _ (bA n)) in Hs; unfold c_lev in *; lia ]
      end
  end.

Ltac oo_close f IH HF :=
  try discriminate;
  strict_facts; sh_facts f (sh_all f); adv_facts;
  first
  [ exfalso; match goal with
    | E : parse_let cfg f _ _ = POOF |- _ => refine (oo_let f IH _ _ _ E); fuel_side HF
    | E : parse_expression cfg f _ _ = POOF |- _ => refine (oo_expr f IH _ _ _ E); fuel_side HF
    | E : call_level cfg _ f _ _ = POOF |- _ => refine (oo_call f IH _ _ _ _ E); fuel_side HF
    | E : parse_nonop cfg f _ _ = POOF |- _ => refine (oo_nonop f IH _ _ _ E); fuel_side HF
    | E : parse_literal cfg f _ _ = POOF |- _ => refine (oo_literal f IH _ _ _ E); fuel_side HF
    | E : parse_args cfg f _ _ _ = POOF |- _ => refine (oo_args f IH _ _ _ _ E); fuel_side HF
    | E : parse_identlist _ _ _ = POOF |- _ => refine (identlist_fuel _ _ _ _ E); lia
    end
  | apply (oo_let f IH); fuel_side HF
  | apply (oo_expr f IH); fuel_side HF
  | apply (oo_loop f IH); fuel_side HF
  | apply (oo_nonop f IH); fuel_side HF
  | apply (oo_postfix f IH); fuel_side HF
  | apply (oo_switch f IH); fuel_side HF
  | apply (oo_args_loop f IH); fuel_side HF
  | apply (oo_map f IH); fuel_side HF ].

Lemma oo_step f : oo_at f -> oo_at (S f).
Proof.
  intros IH. constructor.
  - intros ids ts HF. rewrite parse_let_S. split_all; oo_close f IH HF.
  - intros ids ts HF. rewrite expression_is_level0. apply (oo_call f IH). unfold c_lev. lia.
  - intros k ids ts HF. unfold call_level. fold ops. fold n. destruct (k <? n) eqn:Ek.
    + apply Nat.ltb_lt in Ek. rewrite parse_op_S. fold ops.
      destruct (nth_error ops k) as [o|] eqn:Ho; [|discriminate].
      destruct (call_level cfg ids f (S k) ts) as [[[a u] ts1]| | |] eqn:Ec; try discriminate.
      * pose proof (sh_call f (sh_all f) _ _ _ _ _ _ Ec). apply (oo_loop f IH).
        assert (Hs : length ts1 <= length ts) by lia. apply (Nat.mul_le_mono_l _ _ (bA n)) in Hs.
        unfold c_lev in HF. lia.
      * exfalso. refine (oo_call f IH _ _ _ _ Ec). unfold c_lev in *. lia.
    + rewrite parse_unary_S. fold ops. unfold c_lev in HF.
      destruct (head_unary cfg ts) eqn:HU.
      * pose proof (strict_unary _ HU) as Hst.
        assert (Hs : length (adv ts) + 1 <= length ts) by lia.
        apply (Nat.mul_le_mono_l _ _ (bA n)) in Hs. rewrite Nat.mul_add_distr_l, Nat.mul_1_r in Hs.
        pose proof bA_big.
        destruct (op_pos ops (kimg (peek ts))) as [p|].
        -- destruct (call_level cfg ids f (S p) (adv ts)) as [[[b u2] ts2]| | |] eqn:Ec; try discriminate.
           exfalso. refine (oo_call f IH _ _ _ _ Ec). unfold c_lev. lia.
        -- destruct (parse_nonop cfg f ids (adv ts)) as [[[b u2] ts2]| | |] eqn:Ec; try discriminate.
           exfalso. refine (oo_nonop f IH _ _ _ Ec). lia.
      * apply (oo_nonop f IH). lia.
  - intros k o a u ids ts HF. rewrite parse_op_loop_S. split_all; oo_close f IH HF.
  - intros ids ts HF. rewrite parse_nonop_S. split_all; oo_close f IH HF.
  - intros e u ids ts HF. rewrite parse_postfix_S. rewrite ?expression_is_level0. split_all; oo_close f IH HF.
  - intros ids ts HF. rewrite parse_literal_S. split_all; oo_close f IH HF.
  - intros sv cs u ids ts HF. rewrite parse_switch_S. split_all; oo_close f IH HF.
  - intros c ids ts HF. rewrite parse_args_S. split_all; oo_close f IH HF.
  - intros c acc u ids ts HF. rewrite parse_args_loop_S. split_all; oo_close f IH HF.
  - intros m u ids ts HF. rewrite parse_map_S. split_all; oo_close f IH HF.
Qed.

Lemma oo_all : forall f, oo_at f.
Proof.
  induction f as [|f IH]; [|apply oo_step; exact IH].
  constructor; intros; exfalso; unfold c_lev in *; lia.
Qed.

(* Parser.Parse on any token list, any configuration: with fuel linear in the number of tokens the model
   returns an AST or an error - it neither runs out of fuel nor panics *)
Theorem parse_total : forall ids ts f, f >= fuel_for cfg ts ->
  match parse_fuel cfg f ids ts with POk _ | PErr => True | PPanic | POOF => False end.
Proof.
  intros ids ts f Hf. unfold parse_fuel.
  destruct (parse_let cfg f ids ts) as [[[a u] rest]| | |] eqn:E.
  - destruct (typ_is (peek rest) tEof); exact I.
  - exact I.
  - exact (np_let f (np_all f) _ _ E).
  - refine (oo_let f (oo_all f) _ _ _ E). unfold fuel_for in Hf. fold ops in Hf. fold n in Hf.
    change (2 * n + 12) with (bA n) in Hf. rewrite Nat.mul_add_distr_l in Hf.
    pose proof bA_big. lia.
Qed.

(* ---------- more fuel never changes a result ---------- *)
Record mo_at (f : nat) : Prop := {
  mo_let : forall ids ts r, parse_let cfg f ids ts = r -> r <> POOF -> parse_let cfg (S f) ids ts = r;
  mo_expr : forall ids ts r, parse_expression cfg f ids ts = r -> r <> POOF -> parse_expression cfg (S f) ids ts = r;
  mo_call : forall k ids ts r, call_level cfg ids f k ts = r -> r <> POOF -> call_level cfg ids (S f) k ts = r;
  mo_loop : forall k o a u ids ts r, parse_op_loop cfg f k o a u ids ts = r -> r <> POOF ->
            parse_op_loop cfg (S f) k o a u ids ts = r;
  mo_nonop : forall ids ts r, parse_nonop cfg f ids ts = r -> r <> POOF -> parse_nonop cfg (S f) ids ts = r;
  mo_postfix : forall e u ids ts r, parse_postfix cfg f e u ids ts = r -> r <> POOF ->
            parse_postfix cfg (S f) e u ids ts = r;
  mo_literal : forall ids ts r, parse_literal cfg f ids ts = r -> r <> POOF -> parse_literal cfg (S f) ids ts = r;
  mo_switch : forall sv cs u ids ts r, parse_switch cfg f sv cs u ids ts = r -> r <> POOF ->
            parse_switch cfg (S f) sv cs u ids ts = r;
  mo_args : forall c ids ts r, parse_args cfg f c ids ts = r -> r <> POOF -> parse_args cfg (S f) c ids ts = r;
  mo_args_loop : forall c acc u ids ts r, parse_args_loop cfg f c acc u ids ts = r -> r <> POOF ->
            parse_args_loop cfg (S f) c acc u ids ts = r;
  mo_map : forall m u ids ts r, parse_map cfg f m u ids ts = r -> r <> POOF -> parse_map cfg (S f) m u ids ts = r
}.

Ltac mono_rw f IH E :=
  match type of E with
  | parse_let cfg f _ _ = _ => rewrite (mo_let f IH _ _ _ E ltac:(discriminate))
  | parse_expression cfg f _ _ = _ => rewrite (mo_expr f IH _ _ _ E ltac:(discriminate))
  | call_level cfg _ f _ _ = _ => rewrite (mo_call f IH _ _ _ _ E ltac:(discriminate))
  | parse_nonop cfg f _ _ = _ => rewrite (mo_nonop f IH _ _ _ E ltac:(discriminate))
  | parse_literal cfg f _ _ = _ => rewrite (mo_literal f IH _ _ _ E ltac:(discriminate))
  | parse_args cfg f _ _ _ = _ => rewrite (mo_args f IH _ _ _ _ E ltac:(discriminate))
  | _ => idtac
  end.

Ltac mono_walk f IH :=
  repeat match goal with
  | Hr : ?R <> POOF |- _ = ?R =>
      match R with
      | context [match ?x with _ => _ end] =>
          let E := fresh "E" in
          destruct x eqn:E; try (exfalso; apply Hr; reflexivity); mono_rw f IH E
      | context [if ?x then _ else _] => destruct x eqn:?
      end
  end;
  try reflexivity;
  match goal with
  | Hr : _ <> POOF |- parse_let _ _ _ _ = _ => exact (mo_let f IH _ _ _ eq_refl Hr)
  | Hr : _ <> POOF |- parse_expression _ _ _ _ = _ => exact (mo_expr f IH _ _ _ eq_refl Hr)
  | Hr : _ <> POOF |- call_level _ _ _ _ _ = _ => exact (mo_call f IH _ _ _ _ eq_refl Hr)
  | Hr : _ <> POOF |- parse_op_loop _ _ _ _ _ _ _ _ = _ => exact (mo_loop f IH _ _ _ _ _ _ _ eq_refl Hr)
  | Hr : _ <> POOF |- parse_nonop _ _ _ _ = _ => exact (mo_nonop f IH _ _ _ eq_refl Hr)
  | Hr : _ <> POOF |- parse_postfix _ _ _ _ _ _ = _ => exact (mo_postfix f IH _ _ _ _ _ eq_refl Hr)
  | Hr : _ <> POOF |- parse_switch _ _ _ _ _ _ _ = _ => exact (mo_switch f IH _ _ _ _ _ _ eq_refl Hr)
  | Hr : _ <> POOF |- parse_args_loop _ _ _ _ _ _ _ = _ => exact (mo_args_loop f IH _ _ _ _ _ _ eq_refl Hr)
  | Hr : _ <> POOF |- parse_map _ _ _ _ _ _ = _ => exact (mo_map f IH _ _ _ _ _ eq_refl Hr)
  | _ => idtac
  end.

Lemma mo_step f : mo_at f -> mo_at (S f).
Proof.
  intros IH. constructor.
  - intros ids ts r H Hr. subst r. rewrite parse_let_S in Hr |- *. rewrite (parse_let_S cfg ids f ts). mono_walk f IH.
  - intros ids ts r H Hr. subst r. rewrite !expression_is_level0 in *. exact (mo_call f IH _ _ _ _ eq_refl Hr).
  - intros k ids ts r H Hr. subst r. unfold call_level in Hr |- *. destruct (_ <? _).
    + rewrite parse_op_S in Hr |- *. rewrite (parse_op_S cfg ids f k ts). mono_walk f IH.
    + rewrite parse_unary_S in Hr |- *. rewrite (parse_unary_S cfg ids f ts).
      destruct (head_unary cfg ts); [|exact (mo_nonop f IH _ _ _ eq_refl Hr)].
      destruct (op_pos (c_ops cfg) (kimg (peek ts))) as [p|]; mono_walk f IH.
  - intros k o a u ids ts r H Hr. subst r. rewrite parse_op_loop_S in Hr |- *.
    rewrite (parse_op_loop_S cfg ids f k o a u ts). mono_walk f IH.
  - intros ids ts r H Hr. subst r. rewrite parse_nonop_S in Hr |- *. rewrite (parse_nonop_S cfg ids f ts). mono_walk f IH.
  - intros e u ids ts r H Hr. subst r. rewrite parse_postfix_S in Hr |- *.
    rewrite (parse_postfix_S cfg ids f e u ts). mono_walk f IH.
  - intros ids ts r H Hr. subst r. rewrite parse_literal_S in Hr |- *. rewrite (parse_literal_S cfg ids f ts). mono_walk f IH.
  - intros sv cs u ids ts r H Hr. subst r. rewrite parse_switch_S in Hr |- *.
    rewrite (parse_switch_S cfg ids f sv cs u ts). mono_walk f IH.
  - intros c ids ts r H Hr. subst r. rewrite parse_args_S in Hr |- *. rewrite (parse_args_S cfg ids f c ts). mono_walk f IH.
  - intros c acc u ids ts r H Hr. subst r. rewrite parse_args_loop_S in Hr |- *.
    rewrite (parse_args_loop_S cfg ids f c acc u ts). mono_walk f IH.
  - intros m u ids ts r H Hr. subst r. rewrite parse_map_S in Hr |- *. rewrite (parse_map_S cfg ids f m u ts). mono_walk f IH.
Qed.

Lemma mo_all : forall f, mo_at f.
Proof.
  induction f as [|f IH]; [|apply mo_step; exact IH].
  constructor; intros; subst; exfalso; try (apply H0; reflexivity).
  apply H0. unfold call_level. destruct (_ <? _); reflexivity.
Qed.

Lemma parse_fuel_mono : forall f f' ids ts r, f <= f' ->
  parse_fuel cfg f ids ts = r -> r <> POOF -> parse_fuel cfg f' ids ts = r.
Proof.
  intros f f' ids ts r Hle. induction Hle as [|f' Hle IH]; [auto|].
  intros H Hr. specialize (IH H Hr). unfold parse_fuel in *.
  destruct (parse_let cfg f' ids ts) as [[[a u] rest]| | |] eqn:E.
  - rewrite (mo_let f' (mo_all f') _ _ _ E ltac:(discriminate)). exact IH.
  - rewrite (mo_let f' (mo_all f') _ _ _ E ltac:(discriminate)). exact IH.
  - rewrite (mo_let f' (mo_all f') _ _ _ E ltac:(discriminate)). exact IH.
  - subst r. exfalso. apply Hr. reflexivity.
Qed.

(* whatever some fuel computes, the canonical fuel of [parse] computes *)
Theorem parse_fuel_stable : forall f ids ts r, parse_fuel cfg f ids ts = r -> r <> POOF -> parse cfg ids ts = r.
Proof.
  intros f ids ts r H Hr. unfold parse.
  pose proof (parse_total ids ts (fuel_for cfg ts) (Nat.le_refl _)) as T.
  destruct (parse_fuel cfg (fuel_for cfg ts) ids ts) eqn:E; try contradiction.
  - pose proof (parse_fuel_mono (fuel_for cfg ts) (Nat.max f (fuel_for cfg ts)) _ _ _ ltac:(lia) E ltac:(discriminate)).
    pose proof (parse_fuel_mono f (Nat.max f (fuel_for cfg ts)) _ _ _ ltac:(lia) H Hr). congruence.
  - pose proof (parse_fuel_mono (fuel_for cfg ts) (Nat.max f (fuel_for cfg ts)) _ _ _ ltac:(lia) E ltac:(discriminate)).
    pose proof (parse_fuel_mono f (Nat.max f (fuel_for cfg ts)) _ _ _ ltac:(lia) H Hr). congruence.
Qed.

(* only a token of TYPE operator is ever read as an operator: on any other token - a string literal or a quoted
   identifier spelling the operator included - the loop of parseOp stops and parseUnary goes on to the literal *)
Theorem only_operator_tokens : forall f k o a u ids ts, typ_is (peek ts) tOperate = false ->
  parse_op_loop cfg (S f) k o a u ids ts = POk (a, u, ts) /\
  parse_unary cfg (S f) ids ts = parse_nonop cfg f ids ts.
Proof.
  intros f k o a u ids ts H. split.
  - rewrite parse_op_loop_S. unfold is_op. rewrite H. reflexivity.
  - rewrite parse_unary_S. unfold head_unary. rewrite H. reflexivity.
Qed.

End Total.
