(* C16 for the FULL grammar: qualification of full-grammar rendering trees (definitions).
   [fqualify bd r]: every identifier use that is a free attribute - not in the list bd of names bound by the
   enclosing let / func / closure parameters, not the map m, not a constant or static function of the generator's
   identifiers B - is written ( m . x ); binders extend bd for their scope. *)
From P2 Require Import Base.Prelude Lex.Token Syn.Ast Syn.Parse Syn.Render Syn.Full Syn.Qualify.
Local Open Scope N_scope.

Section QF.
Variable m : str.
Variable B : idents.

Definition attrb (bd : list str) (x : str) : bool :=
  negb (mem_str x bd) && negb (str_eqb x m) &&
  match lookup B x with Some i => negb (id_const i) | None => true end.

Definition qnb (bd : list str) (x : str) : str := if attrb bd x then m else x.

(* the names a stack of local layers binds *)
Fixpoint bnames (L : idents) : list str :=
  match L with
  | [] => []
  | SAdd i :: r => id_name i :: bnames r
  | SThis f :: r => f :: bnames r
  | SArgs ns :: r => ns ++ bnames r
  | SMap _ :: r => bnames r
  end.

Fixpoint fqualify (bd : list str) (r : ft) : ft :=
  match r with
  | FIdent x => if attrb bd x then FParen (FAccess (FIdent m) x) else FIdent x
  | FNum _ | FStr _ => r
  | FParen r' => FParen (fqualify bd r')
  | FBin j l r' => FBin j (fqualify bd l) (fqualify bd r')
  | FUn u e => FUn u (fqualify bd e)
  | FAccess e x => FAccess (fqualify bd e) x
  | FMethod e x a => FMethod (fqualify bd e) x (fqualify_args bd a)
  | FCall e a => FCall (fqualify bd e) (fqualify_args bd a)
  | FIndex e i => FIndex (fqualify bd e) (fqualify bd i)
  | FList a => FList (fqualify_args bd a)
  | FLet x v b => FLet x (fqualify bd v) (fqualify (x :: bd) b)
  | FFunc f ps fb b => FFunc f ps (fqualify (f :: ps ++ bd) fb) (fqualify (f :: bd) b)
  | FIf c t e => FIf (fqualify bd c) (fqualify bd t) (fqualify bd e)
  | FTry t c => FTry (fqualify bd t) (fqualify bd c)
  | FSwitch v cs d => FSwitch (fqualify bd v) (fqualify_cases bd cs) (fqualify bd d)
  | FClo1 x b => FClo1 x (fqualify (x :: bd) b)
  | FCloN ps b => FCloN ps (fqualify (ps ++ bd) b)
  | FMap es => FMap (fqualify_entries bd es)
  end
with fqualify_args (bd : list str) (a : fargs) : fargs :=
  match a with
  | FA_nil => FA_nil
  | FA_last e => FA_last (fqualify bd e)
  | FA_cons e r => FA_cons (fqualify bd e) (fqualify_args bd r)
  end
with fqualify_cases (bd : list str) (cs : fcases) : fcases :=
  match cs with
  | FC_nil => FC_nil
  | FC_cons c r rest => FC_cons (fqualify bd c) (fqualify bd r) (fqualify_cases bd rest)
  end
with fqualify_entries (bd : list str) (es : fentries) : fentries :=
  match es with
  | FE_nil => FE_nil
  | FE_last k v => FE_last k (fqualify bd v)
  | FE_cons k v r => FE_cons k (fqualify bd v) (fqualify_entries bd r)
  end.

(* the program does not rebind the map argument *)
Fixpoint fresh (r : ft) : bool :=
  match r with
  | FIdent _ | FNum _ | FStr _ => true
  | FParen r' => fresh r'
  | FBin _ l r' => fresh l && fresh r'
  | FUn _ e => fresh e
  | FAccess e _ => fresh e
  | FMethod e _ a => fresh e && fresh_args a
  | FCall e a => fresh e && fresh_args a
  | FIndex e i => fresh e && fresh i
  | FList a => fresh_args a
  | FLet x v b => negb (str_eqb m x) && fresh v && fresh b
  | FFunc f ps fb b => negb (str_eqb m f) && negb (mem_str m ps) && fresh fb && fresh b
  | FIf c t e => fresh c && fresh t && fresh e
  | FTry t c => fresh t && fresh c
  | FSwitch v cs d => fresh v && fresh_cases cs && fresh d
  | FClo1 x b => negb (str_eqb m x) && fresh b
  | FCloN ps b => negb (mem_str m ps) && fresh b
  | FMap es => fresh_entries es
  end
with fresh_args (a : fargs) : bool :=
  match a with
  | FA_nil => true
  | FA_last e => fresh e
  | FA_cons e r => fresh e && fresh_args r
  end
with fresh_cases (cs : fcases) : bool :=
  match cs with
  | FC_nil => true
  | FC_cons c r rest => fresh c && fresh r && fresh_cases rest
  end
with fresh_entries (es : fentries) : bool :=
  match es with
  | FE_nil => true
  | FE_last _ v => fresh v
  | FE_cons _ v r => fresh v && fresh_entries r
  end.

End QF.
