(* C16 for the FULL grammar: in implicit-attribute mode a program parses to the same annotated AST as its qualified
   form parses in plain mode - for every well-formed tree of the full grammar (let / func / if / switch / try /
   closures / map literals included), under every stack of enclosing binders. *)
From P2 Require Import Base.Prelude Base.PreludeProofs Lex.Token Syn.Ast Syn.Parse Syn.Render Syn.ParseRel
  Syn.ParseProofs Syn.ParseTotal Syn.Full Syn.FullRel Syn.FullProofs Syn.FullSound Syn.Qualify Syn.QualifyProofs Syn.QualifyFull.
Local Open Scope nat_scope.

Section QFP.
Variable cfg : pcfg.
Variable m : str.
Variable B : idents.
Hypothesis Hm : m <> [].

Notation wm := (wm_chain m B).
Notation pl := (pl_chain m B).
Notation attrb := (QualifyFull.attrb m B).
Notation qnb := (QualifyFull.qnb m B).
Notation fqualify := (QualifyFull.fqualify m B).
Notation fqualify_args := (QualifyFull.fqualify_args m B).
Notation fqualify_cases := (QualifyFull.fqualify_cases m B).
Notation fqualify_entries := (QualifyFull.fqualify_entries m B).
Notation fresh := (QualifyFull.fresh m).
Notation fresh_args := (QualifyFull.fresh_args m).
Notation fresh_cases := (QualifyFull.fresh_cases m).
Notation fresh_entries := (QualifyFull.fresh_entries m).
Notation ferase := (Full.ferase cfg).
Notation ferase_args := (Full.ferase_args cfg).
Notation ferase_cases := (Full.ferase_cases cfg).
Notation ferase_entries := (Full.ferase_entries cfg).

Lemma fqualify_FIdent bd x : fqualify bd (FIdent x) =
  if attrb bd x then FParen (FAccess (FIdent m) x) else FIdent x.
Proof. reflexivity. Qed.
Lemma fqualify_FNum bd w1 : fqualify bd (FNum w1) =
  (FNum w1).
Proof. reflexivity. Qed.
Lemma fqualify_FStr bd w1 : fqualify bd (FStr w1) =
  (FStr w1).
Proof. reflexivity. Qed.
Lemma fqualify_FParen bd r' : fqualify bd (FParen r') =
  FParen (fqualify bd r').
Proof. reflexivity. Qed.
Lemma fqualify_FBin bd j l r' : fqualify bd (FBin j l r') =
  FBin j (fqualify bd l) (fqualify bd r').
Proof. reflexivity. Qed.
Lemma fqualify_FUn bd u e : fqualify bd (FUn u e) =
  FUn u (fqualify bd e).
Proof. reflexivity. Qed.
Lemma fqualify_FAccess bd e x : fqualify bd (FAccess e x) =
  FAccess (fqualify bd e) x.
Proof. reflexivity. Qed.
Lemma fqualify_FMethod bd e x a : fqualify bd (FMethod e x a) =
  FMethod (fqualify bd e) x (fqualify_args bd a).
Proof. reflexivity. Qed.
Lemma fqualify_FCall bd e a : fqualify bd (FCall e a) =
  FCall (fqualify bd e) (fqualify_args bd a).
Proof. reflexivity. Qed.
Lemma fqualify_FIndex bd e i : fqualify bd (FIndex e i) =
  FIndex (fqualify bd e) (fqualify bd i).
Proof. reflexivity. Qed.
Lemma fqualify_FList bd a : fqualify bd (FList a) =
  FList (fqualify_args bd a).
Proof. reflexivity. Qed.
Lemma fqualify_FLet bd x v b : fqualify bd (FLet x v b) =
  FLet x (fqualify bd v) (fqualify (x :: bd) b).
Proof. reflexivity. Qed.
Lemma fqualify_FFunc bd f ps fb b : fqualify bd (FFunc f ps fb b) =
  FFunc f ps (fqualify (f :: ps ++ bd) fb) (fqualify (f :: bd) b).
Proof. reflexivity. Qed.
Lemma fqualify_FIf bd c t e : fqualify bd (FIf c t e) =
  FIf (fqualify bd c) (fqualify bd t) (fqualify bd e).
Proof. reflexivity. Qed.
Lemma fqualify_FTry bd t c : fqualify bd (FTry t c) =
  FTry (fqualify bd t) (fqualify bd c).
Proof. reflexivity. Qed.
Lemma fqualify_FSwitch bd v cs d : fqualify bd (FSwitch v cs d) =
  FSwitch (fqualify bd v) (fqualify_cases bd cs) (fqualify bd d).
Proof. reflexivity. Qed.
Lemma fqualify_FClo1 bd x b : fqualify bd (FClo1 x b) =
  FClo1 x (fqualify (x :: bd) b).
Proof. reflexivity. Qed.
Lemma fqualify_FCloN bd ps b : fqualify bd (FCloN ps b) =
  FCloN ps (fqualify (ps ++ bd) b).
Proof. reflexivity. Qed.
Lemma fqualify_FMap bd es : fqualify bd (FMap es) =
  FMap (fqualify_entries bd es).
Proof. reflexivity. Qed.
Lemma fqualify_args_FA_nil bd : fqualify_args bd FA_nil =
  FA_nil.
Proof. reflexivity. Qed.
Lemma fqualify_args_FA_last bd e : fqualify_args bd (FA_last e) =
  FA_last (fqualify bd e).
Proof. reflexivity. Qed.
Lemma fqualify_args_FA_cons bd e r : fqualify_args bd (FA_cons e r) =
  FA_cons (fqualify bd e) (fqualify_args bd r).
Proof. reflexivity. Qed.
Lemma fqualify_cases_FC_nil bd : fqualify_cases bd FC_nil =
  FC_nil.
Proof. reflexivity. Qed.
Lemma fqualify_cases_FC_cons bd c r rest : fqualify_cases bd (FC_cons c r rest) =
  FC_cons (fqualify bd c) (fqualify bd r) (fqualify_cases bd rest).
Proof. reflexivity. Qed.
Lemma fqualify_entries_FE_nil bd : fqualify_entries bd FE_nil =
  FE_nil.
Proof. reflexivity. Qed.
Lemma fqualify_entries_FE_last bd k v : fqualify_entries bd (FE_last k v) =
  FE_last k (fqualify bd v).
Proof. reflexivity. Qed.
Lemma fqualify_entries_FE_cons bd k v r : fqualify_entries bd (FE_cons k v r) =
  FE_cons k (fqualify bd v) (fqualify_entries bd r).
Proof. reflexivity. Qed.
Lemma fresh_FIdent w1 : fresh (FIdent w1) =
  true.
Proof. reflexivity. Qed.
Lemma fresh_FNum w1 : fresh (FNum w1) =
  true.
Proof. reflexivity. Qed.
Lemma fresh_FStr w1 : fresh (FStr w1) =
  true.
Proof. reflexivity. Qed.
Lemma fresh_FParen r' : fresh (FParen r') =
  fresh r'.
Proof. reflexivity. Qed.
Lemma fresh_FBin w1 l r' : fresh (FBin w1 l r') =
  fresh l && fresh r'.
Proof. reflexivity. Qed.
Lemma fresh_FUn w1 e : fresh (FUn w1 e) =
  fresh e.
Proof. reflexivity. Qed.
Lemma fresh_FAccess e w1 : fresh (FAccess e w1) =
  fresh e.
Proof. reflexivity. Qed.
Lemma fresh_FMethod e w1 a : fresh (FMethod e w1 a) =
  fresh e && fresh_args a.
Proof. reflexivity. Qed.
Lemma fresh_FCall e a : fresh (FCall e a) =
  fresh e && fresh_args a.
Proof. reflexivity. Qed.
Lemma fresh_FIndex e i : fresh (FIndex e i) =
  fresh e && fresh i.
Proof. reflexivity. Qed.
Lemma fresh_FList a : fresh (FList a) =
  fresh_args a.
Proof. reflexivity. Qed.
Lemma fresh_FLet x v b : fresh (FLet x v b) =
  negb (str_eqb m x) && fresh v && fresh b.
Proof. reflexivity. Qed.
Lemma fresh_FFunc f ps fb b : fresh (FFunc f ps fb b) =
  negb (str_eqb m f) && negb (mem_str m ps) && fresh fb && fresh b.
Proof. reflexivity. Qed.
Lemma fresh_FIf c t e : fresh (FIf c t e) =
  fresh c && fresh t && fresh e.
Proof. reflexivity. Qed.
Lemma fresh_FTry t c : fresh (FTry t c) =
  fresh t && fresh c.
Proof. reflexivity. Qed.
Lemma fresh_FSwitch v cs d : fresh (FSwitch v cs d) =
  fresh v && fresh_cases cs && fresh d.
Proof. reflexivity. Qed.
Lemma fresh_FClo1 x b : fresh (FClo1 x b) =
  negb (str_eqb m x) && fresh b.
Proof. reflexivity. Qed.
Lemma fresh_FCloN ps b : fresh (FCloN ps b) =
  negb (mem_str m ps) && fresh b.
Proof. reflexivity. Qed.
Lemma fresh_FMap es : fresh (FMap es) =
  fresh_entries es.
Proof. reflexivity. Qed.
Lemma fresh_args_FA_nil  : fresh_args FA_nil =
  true.
Proof. reflexivity. Qed.
Lemma fresh_args_FA_last e : fresh_args (FA_last e) =
  fresh e.
Proof. reflexivity. Qed.
Lemma fresh_args_FA_cons e r : fresh_args (FA_cons e r) =
  fresh e && fresh_args r.
Proof. reflexivity. Qed.
Lemma fresh_cases_FC_nil  : fresh_cases FC_nil =
  true.
Proof. reflexivity. Qed.
Lemma fresh_cases_FC_cons c r rest : fresh_cases (FC_cons c r rest) =
  fresh c && fresh r && fresh_cases rest.
Proof. reflexivity. Qed.
Lemma fresh_entries_FE_nil  : fresh_entries FE_nil =
  true.
Proof. reflexivity. Qed.
Lemma fresh_entries_FE_last w1 v : fresh_entries (FE_last w1 v) =
  fresh v.
Proof. reflexivity. Qed.
Lemma fresh_entries_FE_cons w1 v r : fresh_entries (FE_cons w1 v r) =
  fresh v && fresh_entries r.
Proof. reflexivity. Qed.
Hint Rewrite fqualify_FIdent fqualify_FNum fqualify_FStr fqualify_FParen fqualify_FBin fqualify_FUn fqualify_FAccess fqualify_FMethod fqualify_FCall fqualify_FIndex fqualify_FList fqualify_FLet fqualify_FFunc fqualify_FIf fqualify_FTry fqualify_FSwitch fqualify_FClo1 fqualify_FCloN fqualify_FMap fqualify_args_FA_nil fqualify_args_FA_last fqualify_args_FA_cons fqualify_cases_FC_nil fqualify_cases_FC_cons fqualify_entries_FE_nil fqualify_entries_FE_last fqualify_entries_FE_cons fresh_FIdent fresh_FNum fresh_FStr fresh_FParen fresh_FBin fresh_FUn fresh_FAccess fresh_FMethod fresh_FCall fresh_FIndex fresh_FList fresh_FLet fresh_FFunc fresh_FIf fresh_FTry fresh_FSwitch fresh_FClo1 fresh_FCloN fresh_FMap fresh_args_FA_nil fresh_args_FA_last fresh_args_FA_cons fresh_cases_FC_nil fresh_cases_FC_cons fresh_entries_FE_nil fresh_entries_FE_last fresh_entries_FE_cons : qrnd.
Ltac qsimpl := autorewrite with qrnd in *.

(* ---------- bound names ---------- *)
Definition nonmap (s : scope) : bool := match s with SMap _ => false | _ => true end.

Lemma bnames_cons s L x : nonmap s = true -> mem_str x (bnames (s :: L)) = answers s x || mem_str x (bnames L).
Proof.
  destruct s as [i|t|f|ns]; intros H; try discriminate; cbn [bnames answers mem_str]; try reflexivity.
  apply mem_str_app.
Qed.

Lemma bnames_bound : forall L x, local L = true -> mem_str x (bnames L) = bound_in L x.
Proof.
  induction L as [|s L IH]; intros x HL; [reflexivity|].
  cbn [local forallb] in HL. apply andb_true_iff in HL. destruct HL as [Hs HL].
  rewrite bnames_cons by (destruct s; auto; discriminate). cbn [bound_in existsb]. fold (bound_in L x).
  rewrite IH by assumption. reflexivity.
Qed.

Lemma attrb_free L x : local L = true -> attrb (bnames L) x = free_attr m B L x.
Proof. intros HL. unfold QualifyFull.attrb, free_attr. rewrite bnames_bound by assumption. reflexivity. Qed.

Lemma qnb_qname L x : local L = true -> qnb (bnames L) x = qname m B L x.
Proof. intros HL. unfold QualifyFull.qnb, qname. rewrite attrb_free by assumption. reflexivity. Qed.

Lemma escape_filter s u : nonmap s = true -> escape s u = filter (fun x => negb (answers s x)) u.
Proof. destruct s; intros H; try discriminate; reflexivity. Qed.

Lemma qnb_bound s L x : nonmap s = true -> answers s x = true -> qnb (bnames (s :: L)) x = x.
Proof.
  intros Hs Ax. unfold QualifyFull.qnb, QualifyFull.attrb. rewrite (bnames_cons s L x Hs), Ax. reflexivity.
Qed.

Lemma qnb_unbound s L x : nonmap s = true -> answers s x = false -> qnb (bnames (s :: L)) x = qnb (bnames L) x.
Proof.
  intros Hs Ax. unfold QualifyFull.qnb, QualifyFull.attrb. rewrite (bnames_cons s L x Hs), Ax. reflexivity.
Qed.

Lemma qnb_answers s bd x : answers s m = false -> answers s x = false -> answers s (qnb bd x) = false.
Proof. intros Hsm Ax. unfold QualifyFull.qnb. destruct (attrb bd x); assumption. Qed.

Lemma escape_map s L u : nonmap s = true -> answers s m = false ->
  escape s (map (qnb (bnames (s :: L))) u) = map (qnb (bnames L)) (escape s u).
Proof.
  intros Hs Hsm. rewrite !escape_filter by assumption.
  induction u as [|x u IH]; [reflexivity|]. cbn [map filter].
  destruct (answers s x) eqn:Ax.
  - rewrite (qnb_bound s L x Hs Ax), Ax. cbn [negb]. exact IH.
  - rewrite (qnb_unbound s L x Hs Ax), (qnb_answers s (bnames L) x Hsm Ax). cbn [negb map]. f_equal. exact IH.
Qed.

Lemma mem_map_q bd f u : mem_str f bd = true -> str_eqb f m = false -> mem_str f (map (qnb bd) u) = mem_str f u.
Proof.
  intros Hf Hfm. induction u as [|x u IH]; [reflexivity|]. cbn [map mem_str]. rewrite IH. f_equal.
  unfold QualifyFull.qnb, QualifyFull.attrb. destruct (mem_str x bd) eqn:Mx; [reflexivity|]. cbn [negb andb].
  destruct (negb (str_eqb x m) && match lookup B x with Some i => negb (id_const i) | None => true end); [|reflexivity].
  rewrite Hfm. destruct (str_eqb f x) eqn:E; [|reflexivity]. apply str_eqb_eq in E. subst. congruence.
Qed.

Lemma outers_q L ps u : local L = true -> bound_in L m = false -> mem_str m ps = false ->
  outers_of (wm L) ps u = outers_of (pl L) ps (map (qnb (ps ++ bnames L)) u).
Proof.
  intros HL Hb Hmp. rewrite (outers_agree m B Hm L ps u HL Hb Hmp). f_equal. apply map_ext. intros x.
  symmetry. exact (qnb_qname (SArgs ps :: L) x ltac:(cbn [local forallb]; exact HL)).
Qed.

(* ---------- qualification keeps the shape ---------- *)
Lemma fq_shape : forall bd r,
  flvl cfg (fqualify bd r) = flvl cfg r /\ fab cfg (fqualify bd r) = fab cfg r /\
  open_tail (fqualify bd r) = open_tail r /\ letform (fqualify bd r) = letform r /\
  fis_access (fqualify bd r) = fis_access r.
Proof.
  intros bd r. revert bd.
  induction r using ft_mut with (P0 := fun _ => True) (P1 := fun _ => True) (P2 := fun _ => True); auto; intros bd; qsimpl;
    try (repeat split; reflexivity).
  - destruct (attrb bd x); repeat split; reflexivity.
  - cbn [Full.flvl Full.fab open_tail letform fis_access]. destruct (IHr2 bd) as (_ & E2 & E3 & _). auto.
  - cbn [Full.flvl Full.fab open_tail letform fis_access]. destruct (IHr bd) as (_ & E2 & E3 & _). rewrite E2. auto.
Qed.

Lemma fq_base bd e : fbase cfg (fqualify bd e) = fbase cfg e.
Proof. unfold fbase. destruct (fq_shape bd e) as (E1 & _ & E3 & _). rewrite E1, E3. reflexivity. Qed.

Lemma fq_keys : forall bd es, entry_keys (fqualify_entries bd es) = entry_keys es.
Proof. intros bd. induction es; qsimpl; cbn [entry_keys]; congruence. Qed.

Lemma fq_wf : (forall r bd, fwf cfg (fqualify bd r) = fwf cfg r) /\
              (forall a bd, fwf_args cfg (fqualify_args bd a) = fwf_args cfg a) /\
              (forall cs bd, fwf_cases cfg (fqualify_cases bd cs) = fwf_cases cfg cs) /\
              (forall es bd, fwf_entries cfg (fqualify_entries bd es) = fwf_entries cfg es).
Proof.
  apply ft_all_ind; intros; qsimpl; try reflexivity; fsimpl;
    repeat match goal with
    | |- context [Full.flvl cfg (fqualify ?b ?r)] => rewrite (proj1 (fq_shape b r))
    | |- context [Full.fab cfg (fqualify ?b ?r)] => rewrite (proj1 (proj2 (fq_shape b r)))
    | |- context [letform (fqualify ?b ?r)] => rewrite (proj1 (proj2 (proj2 (proj2 (fq_shape b r)))))
    | |- context [fis_access (fqualify ?b ?r)] => rewrite (proj2 (proj2 (proj2 (proj2 (fq_shape b r)))))
    | |- context [Full.fbase cfg (fqualify ?b ?r)] => rewrite (fq_base b r)
    | |- context [entry_keys (fqualify_entries ?b ?r)] => rewrite (fq_keys b r)
    | H : forall bd, _ = _ |- _ => rewrite H; clear H
    end; try reflexivity.
  destruct (attrb bd x); [|reflexivity]. fsimpl. unfold fbase. cbn [Full.flvl open_tail]. rewrite Nat.eqb_refl. reflexivity.
Qed.

(* ---------- the annotated AST is the same in both modes ---------- *)
Definition QE (r : ft) : Prop := forall L e u, local L = true -> bound_in L m = false -> fresh r = true ->
  ferase (wm L) r = Some (e, u) -> ferase (pl L) (fqualify (bnames L) r) = Some (e, map (qnb (bnames L)) u).
Definition QA (a : fargs) : Prop := forall L e u, local L = true -> bound_in L m = false -> fresh_args a = true ->
  ferase_args (wm L) a = Some (e, u) -> ferase_args (pl L) (fqualify_args (bnames L) a) = Some (e, map (qnb (bnames L)) u).
Definition QC (a : fcases) : Prop := forall L e u, local L = true -> bound_in L m = false -> fresh_cases a = true ->
  ferase_cases (wm L) a = Some (e, u) -> ferase_cases (pl L) (fqualify_cases (bnames L) a) = Some (e, map (qnb (bnames L)) u).
Definition QM (a : fentries) : Prop := forall L e u, local L = true -> bound_in L m = false -> fresh_entries a = true ->
  ferase_entries (wm L) a = Some (e, u) -> ferase_entries (pl L) (fqualify_entries (bnames L) a) = Some (e, map (qnb (bnames L)) u).

Ltac split_fresh F :=
  repeat match type of F with
  | _ && _ = true => let F2 := fresh "F" in apply andb_true_iff in F; destruct F as [F F2]
  end.

Lemma layer_ok s L : nonmap s = true -> answers s m = false -> local L = true -> bound_in L m = false ->
  local (s :: L) = true /\ bound_in (s :: L) m = false.
Proof.
  intros Hs Hsm HL Hb. split.
  - cbn [local forallb]. fold (local L). rewrite HL. destruct s; try reflexivity; discriminate.
  - cbn [bound_in existsb]. fold (bound_in L m). rewrite Hsm, Hb. reflexivity.
Qed.

Lemma qe_all : (forall r, QE r) /\ (forall a, QA a) /\ (forall cs, QC cs) /\ (forall es, QM es).
Proof.
  apply ft_all_ind.
  - (* FIdent *) intros x L e u HL Hb F E. qsimpl. fsimpl.
    destruct (resolve (wm L) x) as [a|] eqn:Er; [|discriminate]. inversion E; subst e u. clear E.
    cbn [map]. unfold QualifyFull.qnb. rewrite (attrb_free L x HL).
    destruct (free_attr m B L x) eqn:Fa.
    + fsimpl. rewrite (resolve_map_pl m B L HL Hb). rewrite (resolve_attr m B Hm L x HL Fa) in Er. inversion Er; subst.
      reflexivity.
    + fsimpl. rewrite <- (resolve_nonattr m B L x HL Fa), Er. reflexivity.
  - (* FNum *) intros i L e u HL Hb F E. qsimpl. fsimpl. destruct (c_num cfg) as [np|]; [|discriminate].
    destruct (np i); [|discriminate]. inversion E; subst. reflexivity.
  - (* FStr *) intros x L e u HL Hb F E. qsimpl. fsimpl. destruct (c_strh cfg); [|discriminate]. inversion E; subst. reflexivity.
  - (* FParen *) intros r IH L e u HL Hb F E. qsimpl. fsimpl. exact (IH L e u HL Hb F E).
  - (* FBin *) intros j l IHl r IHr L e u HL Hb F E. qsimpl. fsimpl. split_fresh F.
    destruct (nth_error (c_ops cfg) j) as [o|]; [|discriminate].
    destruct (Full.ferase cfg (wm L) l) as [[a ua]|] eqn:Ea; [|discriminate].
    destruct (Full.ferase cfg (wm L) r) as [[b ub]|] eqn:Eb; [|discriminate]. inversion E; subst e u. clear E.
    rewrite (IHl L a ua HL Hb F Ea), (IHr L b ub HL Hb F0 Eb), map_app. reflexivity.
  - (* FUn *) intros u0 e0 IH L e u HL Hb F E. qsimpl. fsimpl.
    destruct (Full.ferase cfg (wm L) e0) as [[a ua]|] eqn:Ea; [|discriminate]. inversion E; subst e u. clear E.
    rewrite (IH L a ua HL Hb F Ea). reflexivity.
  - (* FAccess *) intros e0 IH x L e u HL Hb F E. qsimpl. fsimpl.
    destruct (Full.ferase cfg (wm L) e0) as [[a ua]|] eqn:Ea; [|discriminate]. inversion E; subst e u. clear E.
    rewrite (IH L a ua HL Hb F Ea). reflexivity.
  - (* FMethod *) intros e0 IH x a0 IHa L e u HL Hb F E. qsimpl. fsimpl. split_fresh F.
    destruct (Full.ferase cfg (wm L) e0) as [[v uv]|] eqn:Ev; [|discriminate].
    destruct (Full.ferase_args cfg (wm L) a0) as [[args ua]|] eqn:Eargs; [|discriminate]. inversion E; subst e u. clear E.
    rewrite (IH L v uv HL Hb F Ev), (IHa L args ua HL Hb F0 Eargs), map_app. reflexivity.
  - (* FCall *) intros e0 IH a0 IHa L e u HL Hb F E. qsimpl. fsimpl. split_fresh F.
    destruct (Full.ferase cfg (wm L) e0) as [[v uv]|] eqn:Ev; [|discriminate].
    destruct (Full.ferase_args cfg (wm L) a0) as [[args ua]|] eqn:Eargs; [|discriminate]. inversion E; subst e u. clear E.
    rewrite (IH L v uv HL Hb F Ev), (IHa L args ua HL Hb F0 Eargs), map_app. reflexivity.
  - (* FIndex *) intros e0 IH i IHi L e u HL Hb F E. qsimpl. fsimpl. split_fresh F.
    destruct (Full.ferase cfg (wm L) e0) as [[v uv]|] eqn:Ev; [|discriminate].
    destruct (Full.ferase cfg (wm L) i) as [[ix ui]|] eqn:Ei; [|discriminate]. inversion E; subst e u. clear E.
    rewrite (IH L v uv HL Hb F Ev), (IHi L ix ui HL Hb F0 Ei), map_app. reflexivity.
  - (* FList *) intros a0 IHa L e u HL Hb F E. qsimpl. fsimpl.
    destruct (Full.ferase_args cfg (wm L) a0) as [[args ua]|] eqn:Eargs; [|discriminate]. inversion E; subst e u. clear E.
    rewrite (IHa L args ua HL Hb F Eargs). reflexivity.
  - (* FLet *) intros x v IHv b IHb L e u HL Hb F E. qsimpl. fsimpl. split_fresh F. apply negb_true_iff in F.
    destruct (Full.ferase cfg (wm L) v) as [[ev u1]|] eqn:Ev; [|discriminate].
    rewrite (IHv L ev u1 HL Hb F1 Ev).
    destruct (is_const ev) as [c|].
    + destruct (Full.ferase cfg (id_constant x c :: wm L) b) as [[eb u2]|] eqn:Eb; [|discriminate].
      inversion E; subst e u. clear E.
      destruct (layer_ok (id_constant x c) L eq_refl F HL Hb) as [HL' Hb'].
      pose proof (IHb (id_constant x c :: L) eb u2 HL' Hb' F0 Eb) as Rb.
      change (pl (id_constant x c :: L)) with (id_constant x c :: pl L) in Rb. cbn [bnames id_constant id_name] in Rb.
      pose proof (escape_map (id_constant x c) L u2 eq_refl F) as Em.
      change (bnames (id_constant x c :: L)) with (x :: bnames L) in Em.
      rewrite Rb, map_app, Em. reflexivity.
    + destruct (Full.ferase cfg (id_var x :: wm L) b) as [[eb u2]|] eqn:Eb; [|discriminate].
      inversion E; subst e u. clear E.
      destruct (layer_ok (id_var x) L eq_refl F HL Hb) as [HL' Hb'].
      pose proof (IHb (id_var x :: L) eb u2 HL' Hb' F0 Eb) as Rb.
      change (pl (id_var x :: L)) with (id_var x :: pl L) in Rb. cbn [bnames id_var id_plain id_name] in Rb.
      pose proof (escape_map (id_var x) L u2 eq_refl F) as Em.
      change (bnames (id_var x :: L)) with (x :: bnames L) in Em.
      rewrite Rb, map_app, Em. reflexivity.
  - (* FFunc *) intros f ps fb IHfb b IHb L e u HL Hb F E. qsimpl. fsimpl. split_fresh F.
    apply negb_true_iff in F, F2.
    destruct (Full.ferase cfg (SThis f :: SArgs ps :: wm L) fb) as [[efb ub]|] eqn:Efb; [|discriminate].
    destruct (Full.ferase cfg (id_var f :: wm L) b) as [[eb u2]|] eqn:Eb; [|discriminate].
    inversion E; subst e u. clear E.
    destruct (layer_ok (SArgs ps) L eq_refl F2 HL Hb) as [HL1 Hb1].
    destruct (layer_ok (SThis f) (SArgs ps :: L) eq_refl F HL1 Hb1) as [HL2 Hb2].
    destruct (layer_ok (id_var f) L eq_refl F HL Hb) as [HL3 Hb3].
    pose proof (IHfb (SThis f :: SArgs ps :: L) efb ub HL2 Hb2 F1 Efb) as Rfb.
    change (pl (SThis f :: SArgs ps :: L)) with (SThis f :: SArgs ps :: pl L) in Rfb. cbn [bnames] in Rfb.
    pose proof (IHb (id_var f :: L) eb u2 HL3 Hb3 F0 Eb) as Rb.
    change (pl (id_var f :: L)) with (id_var f :: pl L) in Rb. cbn [bnames id_var id_plain id_name] in Rb.
    rewrite Rfb, Rb.
    assert (E1 : escape (SThis f) (map (qnb (f :: ps ++ bnames L)) ub) = map (qnb (ps ++ bnames L)) (escape (SThis f) ub))
      by (exact (escape_map (SThis f) (SArgs ps :: L) ub eq_refl F)).
    assert (E2 : forall w, escape (SArgs ps) (map (qnb (ps ++ bnames L)) w) = map (qnb (bnames L)) (escape (SArgs ps) w))
      by (intros w; exact (escape_map (SArgs ps) L w eq_refl F2)).
    pose proof (escape_map (id_var f) L u2 eq_refl F) as Em.
    change (bnames (id_var f :: L)) with (f :: bnames L) in Em.
    rewrite E1, E2, map_app, Em.
    rewrite <- (outers_q L ps (escape (SThis f) ub) HL Hb F2).
    rewrite (mem_map_q (f :: ps ++ bnames L) f ub); [reflexivity|cbn [mem_str]; rewrite str_eqb_refl; reflexivity|].
    rewrite str_eqb_sym. exact F.
  - (* FIf *) intros c IHc t IHt e0 IHe L e u HL Hb F E. qsimpl. fsimpl. split_fresh F.
    destruct (Full.ferase cfg (wm L) c) as [[ec u1]|] eqn:Ec; [|discriminate].
    destruct (Full.ferase cfg (wm L) t) as [[et u2]|] eqn:Et; [|discriminate].
    destruct (Full.ferase cfg (wm L) e0) as [[ee u3]|] eqn:Ee; [|discriminate]. inversion E; subst e u. clear E.
    rewrite (IHc L ec u1 HL Hb F Ec), (IHt L et u2 HL Hb F1 Et), (IHe L ee u3 HL Hb F0 Ee), !map_app. reflexivity.
  - (* FTry *) intros t IHt c IHc L e u HL Hb F E. qsimpl. fsimpl. split_fresh F.
    destruct (Full.ferase cfg (wm L) t) as [[et u1]|] eqn:Et; [|discriminate].
    destruct (Full.ferase cfg (wm L) c) as [[ec u2]|] eqn:Ec; [|discriminate]. inversion E; subst e u. clear E.
    rewrite (IHt L et u1 HL Hb F Et), (IHc L ec u2 HL Hb F0 Ec), map_app. reflexivity.
  - (* FSwitch *) intros v IHv cs IHcs d IHd L e u HL Hb F E. qsimpl. fsimpl. split_fresh F.
    destruct (Full.ferase cfg (wm L) v) as [[ev u1]|] eqn:Ev; [|discriminate].
    destruct (Full.ferase_cases cfg (wm L) cs) as [[ecs u2]|] eqn:Ecs; [|discriminate].
    destruct (Full.ferase cfg (wm L) d) as [[ed u3]|] eqn:Ed; [|discriminate]. inversion E; subst e u. clear E.
    rewrite (IHv L ev u1 HL Hb F Ev), (IHcs L ecs u2 HL Hb F1 Ecs), (IHd L ed u3 HL Hb F0 Ed), !map_app. reflexivity.
  - (* FClo1 *) intros x b IHb L e u HL Hb F E. qsimpl. fsimpl. split_fresh F. apply negb_true_iff in F.
    destruct (Full.ferase cfg (SArgs [x] :: wm L) b) as [[eb ub]|] eqn:Eb; [|discriminate]. inversion E; subst e u. clear E.
    assert (Fx : answers (SArgs [x]) m = false) by (cbn [answers mem_str]; rewrite F; reflexivity).
    destruct (layer_ok (SArgs [x]) L eq_refl Fx HL Hb) as [HL' Hb'].
    pose proof (IHb (SArgs [x] :: L) eb ub HL' Hb' F0 Eb) as Rb.
    change (pl (SArgs [x] :: L)) with (SArgs [x] :: pl L) in Rb. cbn [bnames app] in Rb.
    pose proof (outers_q L [x] ub HL Hb Fx) as Eo. cbn [app] in Eo.
    pose proof (escape_map (SArgs [x]) L ub eq_refl Fx) as Em. cbn [bnames app] in Em.
    rewrite Rb, <- Eo, Em. reflexivity.
  - (* FCloN *) intros ps b IHb L e u HL Hb F E. qsimpl. fsimpl. split_fresh F. apply negb_true_iff in F.
    destruct (Full.ferase cfg (SArgs ps :: wm L) b) as [[eb ub]|] eqn:Eb; [|discriminate]. inversion E; subst e u. clear E.
    destruct (layer_ok (SArgs ps) L eq_refl F HL Hb) as [HL' Hb'].
    pose proof (IHb (SArgs ps :: L) eb ub HL' Hb' F0 Eb) as Rb.
    change (pl (SArgs ps :: L)) with (SArgs ps :: pl L) in Rb. cbn [bnames] in Rb.
    pose proof (outers_q L ps ub HL Hb F) as Eo.
    pose proof (escape_map (SArgs ps) L ub eq_refl F) as Em. cbn [bnames] in Em.
    rewrite Rb, <- Eo, Em. reflexivity.
  - (* FMap *) intros es IH L e u HL Hb F E. qsimpl. fsimpl.
    destruct (Full.ferase_entries cfg (wm L) es) as [[l ul]|] eqn:El; [|discriminate]. inversion E; subst e u. clear E.
    rewrite (IH L l ul HL Hb F El). reflexivity.
  - (* FA_nil *) intros L e u HL Hb F E. qsimpl. fsimpl. inversion E; subst. reflexivity.
  - (* FA_last *) intros e0 IH L e u HL Hb F E. qsimpl. fsimpl.
    destruct (Full.ferase cfg (wm L) e0) as [[x ux]|] eqn:Ex; [|discriminate]. inversion E; subst e u. clear E.
    rewrite (IH L x ux HL Hb F Ex). reflexivity.
  - (* FA_cons *) intros e0 IH r IHr L e u HL Hb F E. qsimpl. fsimpl. split_fresh F.
    destruct (Full.ferase cfg (wm L) e0) as [[x ux]|] eqn:Ex; [|discriminate].
    destruct (Full.ferase_args cfg (wm L) r) as [[l ul]|] eqn:El; [|discriminate]. inversion E; subst e u. clear E.
    rewrite (IH L x ux HL Hb F Ex), (IHr L l ul HL Hb F0 El), map_app. reflexivity.
  - (* FC_nil *) intros L e u HL Hb F E. qsimpl. fsimpl. inversion E; subst. reflexivity.
  - (* FC_cons *) intros c IHc r IHr rest IHrest L e u HL Hb F E. qsimpl. fsimpl. split_fresh F.
    destruct (Full.ferase cfg (wm L) c) as [[ec u1]|] eqn:Ec; [|discriminate].
    destruct (Full.ferase cfg (wm L) r) as [[er u2]|] eqn:Er; [|discriminate].
    destruct (Full.ferase_cases cfg (wm L) rest) as [[l ul]|] eqn:El; [|discriminate]. inversion E; subst e u. clear E.
    rewrite (IHc L ec u1 HL Hb F Ec), (IHr L er u2 HL Hb F1 Er), (IHrest L l ul HL Hb F0 El), !map_app. reflexivity.
  - (* FE_nil *) intros L e u HL Hb F E. qsimpl. fsimpl. inversion E; subst. reflexivity.
  - (* FE_last *) intros k v IH L e u HL Hb F E. qsimpl. fsimpl.
    destruct (Full.ferase cfg (wm L) v) as [[x ux]|] eqn:Ex; [|discriminate]. inversion E; subst e u. clear E.
    rewrite (IH L x ux HL Hb F Ex). reflexivity.
  - (* FE_cons *) intros k v IH r IHr L e u HL Hb F E. qsimpl. fsimpl. split_fresh F.
    destruct (Full.ferase cfg (wm L) v) as [[x ux]|] eqn:Ex; [|discriminate].
    destruct (Full.ferase_entries cfg (wm L) r) as [[l ul]|] eqn:El; [|discriminate]. inversion E; subst e u. clear E.
    rewrite (IH L x ux HL Hb F Ex), (IHr L l ul HL Hb F0 El), map_app. reflexivity.
Qed.

(* withmap_is_qualify for the FULL grammar, under any stack L of enclosing binders that does not rebind m:
   GenerateWithMap's parse of the program and Generate's parse of the qualified program give the same annotated AST *)
Theorem withmap_is_qualify_full : table_ok cfg = true ->
  forall L r e u, local L = true -> bound_in L m = false -> fresh r = true ->
  fwf cfg r = true -> ferase (wm L) r = Some (e, u) ->
  parse cfg (wm L) (fflatten cfg r) = POk e /\
  parse cfg (pl L) (fflatten cfg (fqualify (bnames L) r)) = POk e.
Proof.
  intros Ht L r e u HL Hb F W E. split.
  - exact (parse_complete_full cfg Ht (wm L) r e u W E).
  - apply (parse_complete_full cfg Ht (pl L) _ e (map (qnb (bnames L)) u)).
    + rewrite (proj1 fq_wf). exact W.
    + exact (proj1 qe_all r L e u HL Hb F E).
Qed.

(* the same starting from TEXT (tokens): whatever GenerateWithMap's parser accepts is the rendering of a program tree,
   and the qualified program of that tree parses in plain mode to the same annotated AST *)
Theorem withmap_is_qualify_tokens : table_ok cfg = true ->
  forall L ts e, local L = true -> bound_in L m = false -> full_toks ts = true ->
  parse cfg (wm L) ts = POk e ->
  exists r, fflatten cfg r = ts /\ fwf cfg r = true /\
            (fresh r = true -> parse cfg (pl L) (fflatten cfg (fqualify (bnames L) r)) = POk e).
Proof.
  intros Ht L ts e HL Hb F H.
  destruct (parse_sound_full cfg Ht _ (wm L) ts e F H) as (r & u & W & E & Et).
  exists r. repeat split; auto. intros Fr.
  exact (proj2 (withmap_is_qualify_full Ht L r e u HL Hb Fr W E)).
Qed.

End QFP.

(* ---------- histories of one generator ---------- *)
(* The model's generator state is just its identifier chain: AddConstant puts a constant on top of g.identifier
   (g.identifier = g.identifier.AddConst(n, c)); GenerateWithMap(exp, m) reads the CURRENT chain.  A history is a
   list of such operations. *)
Inductive hop :=
| HAddConst (n v : str)            (* AddConstant(n, v) *)
| HGenerate (m : str) (exp : ft).  (* GenerateWithMap(exp, m) *)

(* every GenerateWithMap of the history, started in state B, agrees with Generate of the program qualified relative
   to exactly the constants registered before it *)
Fixpoint hist_ok (cfg : pcfg) (B : idents) (h : list hop) : Prop :=
  match h with
  | [] => True
  | HAddConst n v :: r => hist_ok cfg (id_constant n v :: B) r
  | HGenerate m exp :: r =>
      (m <> [] -> forall e u, fresh m exp = true -> fwf cfg exp = true ->
         ferase cfg (wm_chain m B []) exp = Some (e, u) ->
         parse cfg (wm_chain m B []) (fflatten cfg exp) = POk e /\
         parse cfg (pl_chain m B []) (fflatten cfg (fqualify m B [] exp)) = POk e) /\
      hist_ok cfg B r
  end.

(* a corollary of withmap_is_qualify_full, which holds for EVERY chain B: the state of the generator enters only as B *)
Theorem withmap_history : forall cfg, table_ok cfg = true -> forall h B, hist_ok cfg B h.
Proof.
  intros cfg Ht. induction h as [|[n v|m exp] h IH]; intros B; cbn [hist_ok]; auto.
  split; [|apply IH]. intros Hm e u F W E.
  exact (withmap_is_qualify_full cfg m B Hm Ht [] exp e u eq_refl eq_refl F W E).
Qed.
