(* Completeness of the parser model for the FULL grammar: every well-formed rendering tree (Syn/Full.v) is parsed,
   for every operator table and every identifier chain, to exactly the annotated AST [ferase] computes -
   let / func (with constant propagation), if, switch, try, closures with OuterIdents / Recursive / ThisName,
   list and map literals included. *)
From P2 Require Import Base.Prelude Base.PreludeProofs Lex.Token Syn.Ast Syn.Parse Syn.Render Syn.ParseRel
  Syn.ParseProofs Syn.ParseTotal Syn.Full Syn.FullRel.
Local Open Scope nat_scope.

Section FP.
Variable cfg : pcfg.
Hypothesis Htable : table_ok cfg = true.
Let ops := c_ops cfg.
Let n := length ops.
Ltac nlia := unfold n, ops in *; lia.

Notation fflatten := (Full.fflatten cfg).
Notation fflatten_args := (Full.fflatten_args cfg).
Notation fflatten_cases := (Full.fflatten_cases cfg).
Notation fflatten_entries := (Full.fflatten_entries cfg).
Notation ferase := (Full.ferase cfg).
Notation ferase_args := (Full.ferase_args cfg).
Notation ferase_cases := (Full.ferase_cases cfg).
Notation ferase_entries := (Full.ferase_entries cfg).
Notation fwf := (Full.fwf cfg).
Notation fwf_args := (Full.fwf_args cfg).
Notation fwf_cases := (Full.fwf_cases cfg).
Notation fwf_entries := (Full.fwf_entries cfg).
Notation flvl := (Full.flvl cfg).
Notation fab := (Full.fab cfg).
Notation fbase := (Full.fbase cfg).
Notation stops := (stops cfg).
Notation PE := (FullRel.PE cfg).
Notation PX := (FullRel.PX cfg).
Notation PL := (FullRel.PL cfg).
Notation LP := (FullRel.LP cfg).
Notation PN := (FullRel.PN cfg).
Notation PLit := (FullRel.PLit cfg).
Notation PF := (FullRel.PF cfg).
Notation PA := (FullRel.PA cfg).
Notation PAL := (FullRel.PAL cfg).
Notation PSw := (FullRel.PSw cfg).
Notation PM := (FullRel.PM cfg).

(* ---------- unfolding equations of the mutually recursive specification functions ---------- *)
Lemma fflatten_FIdent x : fflatten (FIdent x) =
  [k_ident x].
Proof. reflexivity. Qed.
Lemma fflatten_FNum i : fflatten (FNum i) =
  [k_num i].
Proof. reflexivity. Qed.
Lemma fflatten_FStr s : fflatten (FStr s) =
  [k_str s].
Proof. reflexivity. Qed.
Lemma fflatten_FParen r' : fflatten (FParen r') =
  k_open :: fflatten r' ++ [k_close].
Proof. reflexivity. Qed.
Lemma fflatten_FBin j l r' : fflatten (FBin j l r') =
  fflatten l ++ k_op (nth j ops []) :: fflatten r'.
Proof. reflexivity. Qed.
Lemma fflatten_FUn u e : fflatten (FUn u e) =
  k_op u :: fflatten e.
Proof. reflexivity. Qed.
Lemma fflatten_FAccess e x : fflatten (FAccess e x) =
  fflatten e ++ [k_dot; k_ident x].
Proof. reflexivity. Qed.
Lemma fflatten_FMethod e x a : fflatten (FMethod e x a) =
  fflatten e ++ k_dot :: k_ident x :: k_open :: fflatten_args k_close a.
Proof. reflexivity. Qed.
Lemma fflatten_FCall e a : fflatten (FCall e a) =
  fflatten e ++ k_open :: fflatten_args k_close a.
Proof. reflexivity. Qed.
Lemma fflatten_FIndex e i : fflatten (FIndex e i) =
  fflatten e ++ k_obr :: fflatten i ++ [k_cbr].
Proof. reflexivity. Qed.
Lemma fflatten_FList a : fflatten (FList a) =
  k_obr :: fflatten_args k_cbr a.
Proof. reflexivity. Qed.
Lemma fflatten_FLet x v b : fflatten (FLet x v b) =
  k_kw s_let :: k_ident x :: k_op s_assign :: fflatten v ++ k_semi :: fflatten b.
Proof. reflexivity. Qed.
Lemma fflatten_FFunc f ps fb b : fflatten (FFunc f ps fb b) =
  k_kw s_func :: k_ident f :: k_open :: flatten_names ps ++ fflatten fb ++ k_semi :: fflatten b.
Proof. reflexivity. Qed.
Lemma fflatten_FIf c t e : fflatten (FIf c t e) =
  k_kw s_if :: fflatten c ++ k_kw s_then :: fflatten t ++ k_kw s_else :: fflatten e.
Proof. reflexivity. Qed.
Lemma fflatten_FTry t c : fflatten (FTry t c) =
  k_kw s_try :: fflatten t ++ k_kw s_catch :: fflatten c.
Proof. reflexivity. Qed.
Lemma fflatten_FSwitch v cs d : fflatten (FSwitch v cs d) =
  k_kw s_switch :: fflatten v ++ fflatten_cases cs ++ k_kw s_default :: fflatten d.
Proof. reflexivity. Qed.
Lemma fflatten_FClo1 x b : fflatten (FClo1 x b) =
  k_ident x :: k_op s_arrow :: fflatten b.
Proof. reflexivity. Qed.
Lemma fflatten_FCloN ps b : fflatten (FCloN ps b) =
  k_open :: flatten_names ps ++ k_op s_arrow :: fflatten b.
Proof. reflexivity. Qed.
Lemma fflatten_FMap m : fflatten (FMap m) =
  k_ocurly :: fflatten_entries m.
Proof. reflexivity. Qed.
Lemma fflatten_args_FA_nil c : fflatten_args c FA_nil =
  [c].
Proof. reflexivity. Qed.
Lemma fflatten_args_FA_last c e : fflatten_args c (FA_last e) =
  fflatten e ++ [c].
Proof. reflexivity. Qed.
Lemma fflatten_args_FA_cons c e r : fflatten_args c (FA_cons e r) =
  fflatten e ++ k_comma :: fflatten_args c r.
Proof. reflexivity. Qed.
Lemma fflatten_cases_FC_nil  : fflatten_cases FC_nil =
  [].
Proof. reflexivity. Qed.
Lemma fflatten_cases_FC_cons c r rest : fflatten_cases (FC_cons c r rest) =
  k_kw s_case :: fflatten c ++ k_colon :: fflatten r ++ fflatten_cases rest.
Proof. reflexivity. Qed.
Lemma fflatten_entries_FE_nil  : fflatten_entries FE_nil =
  [k_ccurly].
Proof. reflexivity. Qed.
Lemma fflatten_entries_FE_last k v : fflatten_entries (FE_last k v) =
  k_ident k :: k_colon :: fflatten v ++ [k_ccurly].
Proof. reflexivity. Qed.
Lemma fflatten_entries_FE_cons k v r : fflatten_entries (FE_cons k v r) =
  k_ident k :: k_colon :: fflatten v ++ k_comma :: fflatten_entries r.
Proof. reflexivity. Qed.
Lemma ferase_FIdent ids x : ferase ids (FIdent x) =
  match resolve ids x with Some a => Some (a, [x]) | None => None end.
Proof. reflexivity. Qed.
Lemma ferase_FNum ids i : ferase ids (FNum i) =
  match c_num cfg with
      | Some np => match np i with Some c => Some (AConst c, []) | None => None end
      | None => None
      end.
Proof. reflexivity. Qed.
Lemma ferase_FStr ids s : ferase ids (FStr s) =
  match c_strh cfg with Some sh => Some (AConst (sh s), []) | None => None end.
Proof. reflexivity. Qed.
Lemma ferase_FParen ids r' : ferase ids (FParen r') =
  ferase ids r'.
Proof. reflexivity. Qed.
Lemma ferase_FBin ids j l r' : ferase ids (FBin j l r') =
  match nth_error ops j, ferase ids l, ferase ids r' with
      | Some o, Some (a, ua), Some (b, ub) => Some (AOp o (N.of_nat j) a b, ua ++ ub)
      | _, _, _ => None
      end.
Proof. reflexivity. Qed.
Lemma ferase_FUn ids u e : ferase ids (FUn u e) =
  match ferase ids e with Some (a, ua) => Some (AUn u a, ua) | None => None end.
Proof. reflexivity. Qed.
Lemma ferase_FAccess ids e x : ferase ids (FAccess e x) =
  match ferase ids e with Some (a, ua) => Some (AAccess x a, ua) | None => None end.
Proof. reflexivity. Qed.
Lemma ferase_FMethod ids e x a : ferase ids (FMethod e x a) =
  match ferase ids e, ferase_args ids a with
      | Some (v, uv), Some (args, ua) => Some (AMethod x args v, uv ++ ua)
      | _, _ => None
      end.
Proof. reflexivity. Qed.
Lemma ferase_FCall ids e a : ferase ids (FCall e a) =
  match ferase ids e, ferase_args ids a with
      | Some (f, uf), Some (args, ua) => Some (ACall f args, uf ++ ua)
      | _, _ => None
      end.
Proof. reflexivity. Qed.
Lemma ferase_FIndex ids e i : ferase ids (FIndex e i) =
  match ferase ids e, ferase ids i with
      | Some (l, ul), Some (ix, ui) => Some (AIndex ix l, ul ++ ui)
      | _, _ => None
      end.
Proof. reflexivity. Qed.
Lemma ferase_FList ids a : ferase ids (FList a) =
  match ferase_args ids a with Some (args, ua) => Some (AListLit args, ua) | None => None end.
Proof. reflexivity. Qed.
Lemma ferase_FLet ids x v b : ferase ids (FLet x v b) =
  match ferase ids v with
      | Some (ev, u1) =>
          match is_const ev with
          | Some c =>
              match ferase (id_constant x c :: ids) b with
              | Some (eb, u2) => Some (eb, u1 ++ escape (id_constant x c) u2)
              | None => None
              end
          | None =>
              match ferase (id_var x :: ids) b with
              | Some (eb, u2) => Some (ALet x ev eb, u1 ++ escape (id_var x) u2)
              | None => None
              end
          end
      | None => None
      end.
Proof. reflexivity. Qed.
Lemma ferase_FFunc ids f ps fb b : ferase ids (FFunc f ps fb b) =
  match ferase (SThis f :: SArgs ps :: ids) fb with
      | Some (efb, ub) =>
          match ferase (id_var f :: ids) b with
          | Some (eb, u2) =>
              Some (ALet f (AClosure ps efb (outers_of ids ps (escape (SThis f) ub)) (mem_str f ub) f) eb,
                    escape (SArgs ps) (escape (SThis f) ub) ++ escape (id_var f) u2)
          | None => None
          end
      | None => None
      end.
Proof. reflexivity. Qed.
Lemma ferase_FIf ids c t e : ferase ids (FIf c t e) =
  match ferase ids c, ferase ids t, ferase ids e with
      | Some (ec, u1), Some (et, u2), Some (ee, u3) => Some (AIf ec et ee, u1 ++ u2 ++ u3)
      | _, _, _ => None
      end.
Proof. reflexivity. Qed.
Lemma ferase_FTry ids t c : ferase ids (FTry t c) =
  match ferase ids t, ferase ids c with
      | Some (et, u1), Some (ec, u2) => Some (ATry et ec, u1 ++ u2)
      | _, _ => None
      end.
Proof. reflexivity. Qed.
Lemma ferase_FSwitch ids v cs d : ferase ids (FSwitch v cs d) =
  match ferase ids v, ferase_cases ids cs, ferase ids d with
      | Some (ev, u1), Some (ecs, u2), Some (ed, u3) => Some (ASwitch ev ecs ed, (u1 ++ u2) ++ u3)
      | _, _, _ => None
      end.
Proof. reflexivity. Qed.
Lemma ferase_FClo1 ids x b : ferase ids (FClo1 x b) =
  match ferase (SArgs [x] :: ids) b with
      | Some (eb, ub) => Some (AClosure [x] eb (outers_of ids [x] ub) false [], escape (SArgs [x]) ub)
      | None => None
      end.
Proof. reflexivity. Qed.
Lemma ferase_FCloN ids ps b : ferase ids (FCloN ps b) =
  match ferase (SArgs ps :: ids) b with
      | Some (eb, ub) => Some (AClosure ps eb (outers_of ids ps ub) false [], escape (SArgs ps) ub)
      | None => None
      end.
Proof. reflexivity. Qed.
Lemma ferase_FMap ids m : ferase ids (FMap m) =
  match ferase_entries ids m with Some (es, u) => Some (AMapLit es, u) | None => None end.
Proof. reflexivity. Qed.
Lemma ferase_args_FA_nil ids : ferase_args ids FA_nil =
  Some ([], []).
Proof. reflexivity. Qed.
Lemma ferase_args_FA_last ids e : ferase_args ids (FA_last e) =
  match ferase ids e with Some (x, u) => Some ([x], u) | None => None end.
Proof. reflexivity. Qed.
Lemma ferase_args_FA_cons ids e r : ferase_args ids (FA_cons e r) =
  match ferase ids e, ferase_args ids r with
      | Some (x, u), Some (l, ul) => Some (x :: l, u ++ ul)
      | _, _ => None
      end.
Proof. reflexivity. Qed.
Lemma ferase_cases_FC_nil ids : ferase_cases ids FC_nil =
  Some ([], []).
Proof. reflexivity. Qed.
Lemma ferase_cases_FC_cons ids c r rest : ferase_cases ids (FC_cons c r rest) =
  match ferase ids c, ferase ids r, ferase_cases ids rest with
      | Some (ec, u1), Some (er, u2), Some (l, ul) => Some ((ec, er) :: l, (u1 ++ u2) ++ ul)
      | _, _, _ => None
      end.
Proof. reflexivity. Qed.
Lemma ferase_entries_FE_nil ids : ferase_entries ids FE_nil =
  Some ([], []).
Proof. reflexivity. Qed.
Lemma ferase_entries_FE_last ids k v : ferase_entries ids (FE_last k v) =
  match ferase ids v with Some (x, u) => Some ([(k, x)], u) | None => None end.
Proof. reflexivity. Qed.
Lemma ferase_entries_FE_cons ids k v r : ferase_entries ids (FE_cons k v r) =
  match ferase ids v, ferase_entries ids r with
      | Some (x, u), Some (l, ul) => Some ((k, x) :: l, u ++ ul)
      | _, _ => None
      end.
Proof. reflexivity. Qed.
Lemma fwf_FIdent w1 : fwf (FIdent w1) =
  true.
Proof. reflexivity. Qed.
Lemma fwf_FNum w1 : fwf (FNum w1) =
  true.
Proof. reflexivity. Qed.
Lemma fwf_FStr w1 : fwf (FStr w1) =
  true.
Proof. reflexivity. Qed.
Lemma fwf_FParen r' : fwf (FParen r') =
  fwf r' && negb (letform r').
Proof. reflexivity. Qed.
Lemma fwf_FBin j l r' : fwf (FBin j l r') =
  (j <? n)%nat && fwf l && fwf r' && (j <=? flvl l)%nat && (j <? fab l)%nat && (S j <=? flvl r')%nat.
Proof. reflexivity. Qed.
Lemma fwf_FUn u e : fwf (FUn u e) =
  mem_str u (c_unary cfg) && fwf e &&
      match level_of ops u with
      | Some p => (S p <=? flvl e)%nat
      | None => (flvl e =? S n)%nat
      end.
Proof. reflexivity. Qed.
Lemma fwf_FAccess e w1 : fwf (FAccess e w1) =
  fwf e && fbase e.
Proof. reflexivity. Qed.
Lemma fwf_FMethod e w1 a : fwf (FMethod e w1 a) =
  fwf e && fbase e && fwf_args a.
Proof. reflexivity. Qed.
Lemma fwf_FCall e a : fwf (FCall e a) =
  fwf e && fbase e && negb (fis_access e) && fwf_args a.
Proof. reflexivity. Qed.
Lemma fwf_FIndex e i : fwf (FIndex e i) =
  fwf e && fbase e && fwf i && negb (letform i).
Proof. reflexivity. Qed.
Lemma fwf_FList a : fwf (FList a) =
  fwf_args a.
Proof. reflexivity. Qed.
Lemma fwf_FLet w1 v b : fwf (FLet w1 v b) =
  fwf v && negb (letform v) && fwf b.
Proof. reflexivity. Qed.
Lemma fwf_FFunc w1 ps fb b : fwf (FFunc w1 ps fb b) =
  negb (match ps with [] => true | _ => false end) && nodup_str ps && fwf fb && fwf b.
Proof. reflexivity. Qed.
Lemma fwf_FIf c t e : fwf (FIf c t e) =
  fwf c && negb (letform c) && fwf t && fwf e.
Proof. reflexivity. Qed.
Lemma fwf_FTry t c : fwf (FTry t c) =
  fwf t && fwf c.
Proof. reflexivity. Qed.
Lemma fwf_FSwitch v cs d : fwf (FSwitch v cs d) =
  fwf v && negb (letform v) && fwf_cases cs && fwf d.
Proof. reflexivity. Qed.
Lemma fwf_FClo1 w1 b : fwf (FClo1 w1 b) =
  fwf b.
Proof. reflexivity. Qed.
Lemma fwf_FCloN ps b : fwf (FCloN ps b) =
  (2 <=? length ps)%nat && nodup_str ps && fwf b.
Proof. reflexivity. Qed.
Lemma fwf_FMap m : fwf (FMap m) =
  nodup_str (entry_keys m) && fwf_entries m.
Proof. reflexivity. Qed.
Lemma fwf_args_FA_nil  : fwf_args FA_nil =
  true.
Proof. reflexivity. Qed.
Lemma fwf_args_FA_last e : fwf_args (FA_last e) =
  fwf e.
Proof. reflexivity. Qed.
Lemma fwf_args_FA_cons e r : fwf_args (FA_cons e r) =
  fwf e && fwf_args r.
Proof. reflexivity. Qed.
Lemma fwf_cases_FC_nil  : fwf_cases FC_nil =
  true.
Proof. reflexivity. Qed.
Lemma fwf_cases_FC_cons c r rest : fwf_cases (FC_cons c r rest) =
  fwf c && negb (letform c) && fwf r && fwf_cases rest.
Proof. reflexivity. Qed.
Lemma fwf_entries_FE_nil  : fwf_entries FE_nil =
  true.
Proof. reflexivity. Qed.
Lemma fwf_entries_FE_last w1 v : fwf_entries (FE_last w1 v) =
  fwf v.
Proof. reflexivity. Qed.
Lemma fwf_entries_FE_cons w1 v r : fwf_entries (FE_cons w1 v r) =
  fwf v && fwf_entries r.
Proof. reflexivity. Qed.
Hint Rewrite fflatten_FIdent fflatten_FNum fflatten_FStr fflatten_FParen fflatten_FBin fflatten_FUn fflatten_FAccess fflatten_FMethod fflatten_FCall fflatten_FIndex fflatten_FList fflatten_FLet fflatten_FFunc fflatten_FIf fflatten_FTry fflatten_FSwitch fflatten_FClo1 fflatten_FCloN fflatten_FMap fflatten_args_FA_nil fflatten_args_FA_last fflatten_args_FA_cons fflatten_cases_FC_nil fflatten_cases_FC_cons fflatten_entries_FE_nil fflatten_entries_FE_last fflatten_entries_FE_cons ferase_FIdent ferase_FNum ferase_FStr ferase_FParen ferase_FBin ferase_FUn ferase_FAccess ferase_FMethod ferase_FCall ferase_FIndex ferase_FList ferase_FLet ferase_FFunc ferase_FIf ferase_FTry ferase_FSwitch ferase_FClo1 ferase_FCloN ferase_FMap ferase_args_FA_nil ferase_args_FA_last ferase_args_FA_cons ferase_cases_FC_nil ferase_cases_FC_cons ferase_entries_FE_nil ferase_entries_FE_last ferase_entries_FE_cons fwf_FIdent fwf_FNum fwf_FStr fwf_FParen fwf_FBin fwf_FUn fwf_FAccess fwf_FMethod fwf_FCall fwf_FIndex fwf_FList fwf_FLet fwf_FFunc fwf_FIf fwf_FTry fwf_FSwitch fwf_FClo1 fwf_FCloN fwf_FMap fwf_args_FA_nil fwf_args_FA_last fwf_args_FA_cons fwf_cases_FC_nil fwf_cases_FC_cons fwf_entries_FE_nil fwf_entries_FE_last fwf_entries_FE_cons : frnd.
Ltac fsimpl := autorewrite with frnd in *.

Lemma ops_nodup_f : NoDup ops.
Proof. exact (ops_nodup cfg Htable). Qed.

Lemma fab_le : forall r, fab r <= n.
Proof.
  induction r using ft_mut with (P0 := fun _ => True) (P1 := fun _ => True) (P2 := fun _ => True);
    cbn [Full.fab]; auto; try nlia.
  destruct (level_of (c_ops cfg) u); nlia.
Qed.

Lemma open_tail_fab : forall r, open_tail r = true -> fab r = 0.
Proof.
  induction r using ft_mut with (P0 := fun _ => True) (P1 := fun _ => True) (P2 := fun _ => True);
    cbn [open_tail Full.fab]; auto; try discriminate.
  intros H. rewrite (IHr H). destruct (level_of (c_ops cfg) u); [apply Nat.min_0_r|reflexivity].
Qed.

(* ---------- first tokens ---------- *)
Definition fstart (ty : ttype) : bool :=
  match ty with tIdent | tNumber | tString | tOpen | tOpenBracket | tOperate | tKeyWord | tOpenCurly => true | _ => false end.
Definition fatom (ty : ttype) : bool :=
  match ty with tIdent | tNumber | tString | tOpen | tOpenBracket | tKeyWord | tOpenCurly => true | _ => false end.

Lemma fflatten_start : forall r, exists t t', fflatten r = t :: t' /\ fstart (ktyp t) = true.
Proof.
  induction r using ft_mut with (P0 := fun _ => True) (P1 := fun _ => True) (P2 := fun _ => True); auto; fsimpl;
    try (eexists; eexists; split; reflexivity);
    try (destruct IHr as (t & t' & E & S); rewrite E; cbn [app]; eauto; fail);
    try (destruct IHr1 as (t & t' & E & S); rewrite E; cbn [app]; eauto; fail).
Qed.

Lemma letform_flvl r : letform r = true -> flvl r = 0 /\ fab r = 0.
Proof. destruct r; cbn; try discriminate; auto. Qed.

(* the first token of a well-formed tree that is no let / func is not the keyword let or func *)
Lemma fflatten_nokw : forall r, fwf r = true -> letform r = false ->
  exists t t', fflatten r = t :: t' /\ is_kw t s_let = false /\ is_kw t s_func = false.
Proof.
  induction r using ft_mut with (P0 := fun _ => True) (P1 := fun _ => True) (P2 := fun _ => True); auto;
    intros W L; try discriminate; fsimpl;
    try (eexists; eexists; split; [reflexivity|split; reflexivity]).
  - (* FBin *) repeat (apply andb_true_iff in W; destruct W as [W ?]).
    destruct (letform r1) eqn:L1.
    + destruct (letform_flvl _ L1) as [_ E]. apply Nat.ltb_lt in H0. lia.
    + destruct (IHr1 H3 eq_refl) as (t & t' & E & K). rewrite E. cbn [app]. eauto.
  - (* FAccess *) apply andb_true_iff in W. destruct W as [W B]. unfold Full.fbase in B.
    apply andb_true_iff in B. destruct B as [B _]. apply Nat.eqb_eq in B.
    destruct (letform r) eqn:L1; [destruct (letform_flvl _ L1); nlia|].
    destruct (IHr W eq_refl) as (t & t' & E & K). rewrite E. cbn [app]. eauto.
  - (* FMethod *) repeat (apply andb_true_iff in W; destruct W as [W ?]). unfold Full.fbase in H0.
    apply andb_true_iff in H0. destruct H0 as [B _]. apply Nat.eqb_eq in B.
    destruct (letform r) eqn:L1; [destruct (letform_flvl _ L1); nlia|].
    destruct (IHr W eq_refl) as (t & t' & E & K). rewrite E. cbn [app]. eauto.
  - (* FCall *) repeat (apply andb_true_iff in W; destruct W as [W ?]). unfold Full.fbase in H1.
    apply andb_true_iff in H1. destruct H1 as [B _]. apply Nat.eqb_eq in B.
    destruct (letform r) eqn:L1; [destruct (letform_flvl _ L1); nlia|].
    destruct (IHr W eq_refl) as (t & t' & E & K). rewrite E. cbn [app]. eauto.
  - (* FIndex *) repeat (apply andb_true_iff in W; destruct W as [W ?]). unfold Full.fbase in H1.
    apply andb_true_iff in H1. destruct H1 as [B _]. apply Nat.eqb_eq in B.
    destruct (letform r1) eqn:L1; [destruct (letform_flvl _ L1); nlia|].
    destruct (IHr1 W eq_refl) as (t & t' & E & K). rewrite E. cbn [app]. eauto.
Qed.

(* ... and the first token of a literal / postfix form is no operator *)
Lemma fflatten_atom : forall r, fwf r = true -> flvl r = S n ->
  exists t t', fflatten r = t :: t' /\ fatom (ktyp t) = true.
Proof.
  induction r using ft_mut with (P0 := fun _ => True) (P1 := fun _ => True) (P2 := fun _ => True); auto;
    intros W L; fsimpl; try (eexists; eexists; split; reflexivity);
    try (exfalso; cbn [Full.flvl] in L; nlia).
  - (* FBin *) exfalso. repeat (apply andb_true_iff in W; destruct W as [W ?]). apply Nat.ltb_lt in W.
    cbn [Full.flvl] in L. nlia.
  - apply andb_true_iff in W. destruct W as [W B]. unfold Full.fbase in B.
    apply andb_true_iff in B. destruct B as [B _]. apply Nat.eqb_eq in B.
    destruct (IHr W B) as (t & t' & E & K). rewrite E. cbn [app]. eauto.
  - repeat (apply andb_true_iff in W; destruct W as [W ?]). unfold Full.fbase in H0.
    apply andb_true_iff in H0. destruct H0 as [B _]. apply Nat.eqb_eq in B.
    destruct (IHr W B) as (t & t' & E & K). rewrite E. cbn [app]. eauto.
  - repeat (apply andb_true_iff in W; destruct W as [W ?]). unfold Full.fbase in H1.
    apply andb_true_iff in H1. destruct H1 as [B _]. apply Nat.eqb_eq in B.
    destruct (IHr W B) as (t & t' & E & K). rewrite E. cbn [app]. eauto.
  - repeat (apply andb_true_iff in W; destruct W as [W ?]). unfold Full.fbase in H1.
    apply andb_true_iff in H1. destruct H1 as [B _]. apply Nat.eqb_eq in B.
    destruct (IHr1 W B) as (t & t' & E & K). rewrite E. cbn [app]. eauto.
Qed.

(* ---------- a parenthesised tree is never mistaken for a parameter list ---------- *)
Lemma fflatten_nic : forall r rest, ktyp (peek rest) <> tComma -> no_ident_comma (fflatten r ++ rest).
Proof.
  induction r using ft_mut with (P0 := fun _ => True) (P1 := fun _ => True) (P2 := fun _ => True); auto;
    intros rest Hc; fsimpl; try (apply nic_cons_not_ident; cbn; discriminate).
  - (* FIdent *) unfold no_ident_comma. cbn [app peek peek2]. apply typ_is_false in Hc.
    destruct rest; cbn [peek] in *; rewrite Hc; apply andb_false_r.
  - rewrite <- app_assoc. apply IHr1. cbn. discriminate.
  - rewrite <- app_assoc. apply IHr. cbn. discriminate.
  - rewrite <- app_assoc. apply IHr. cbn. discriminate.
  - rewrite <- app_assoc. apply IHr. cbn. discriminate.
  - rewrite <- app_assoc. apply IHr1. cbn. discriminate.
  - (* FClo1 *) reflexivity.
Qed.

(* ---------- parameter lists ---------- *)
Lemma mem_str_app a x y : mem_str a (x ++ y) = mem_str a x || mem_str a y.
Proof. induction x as [|b x IH]; cbn; [reflexivity|]. rewrite IH. apply orb_assoc. Qed.

Lemma nodup_mid acc p rest : nodup_str (acc ++ p :: rest) = true -> mem_str p acc = false.
Proof.
  induction acc as [|a acc IH]; cbn; [reflexivity|]. intros H. apply andb_true_iff in H. destruct H as [H1 H2].
  rewrite (IH H2), orb_false_r. apply negb_true_iff in H1. rewrite mem_str_app in H1. apply orb_false_iff in H1.
  destruct H1 as [_ H1]. cbn in H1. apply orb_false_iff in H1. destruct H1 as [H1 _]. rewrite str_eqb_sym. exact H1.
Qed.

Lemma identlist_names : forall ps acc R f, ps <> [] -> nodup_str (acc ++ ps) = true -> length ps <= f ->
  parse_identlist f acc (flatten_names ps ++ R) = POk (acc ++ ps, R).
Proof.
  induction ps as [|p ps IH]; intros acc R f Hne Hnd Hf; [congruence|].
  destruct f as [|f]; [cbn in Hf; lia|].
  pose proof (nodup_mid acc p ps Hnd) as Hm.
  destruct ps as [|q ps].
  - cbn [flatten_names app parse_identlist peek adv]. unfold typ_is. cbn [ktyp k_ident fst ttype_eqb kimg snd].
    rewrite Hm. reflexivity.
  - cbn [flatten_names app parse_identlist peek adv]. unfold typ_is. cbn [ktyp k_ident fst ttype_eqb kimg snd k_comma].
    rewrite Hm.
    replace (acc ++ p :: q :: ps) with ((acc ++ [p]) ++ q :: ps) by (rewrite <- app_assoc; reflexivity).
    apply IH; [discriminate| |cbn in *; lia]. rewrite <- app_assoc. exact Hnd.
Qed.

(* ---------- the completeness statements ---------- *)
Definition contL ids (k : nat) (e : ast) (u : list str) (rest : list tk) (e' : ast) (u' : list str) (rest' : list tk) : Prop :=
  match nth_error ops k with
  | Some o => LP ids k o e u rest e' u' rest'
  | None => e' = e /\ u' = u /\ rest' = rest
  end.

Lemma contL_refl ids k b e u rest : stops (Nat.min k b) rest -> contL ids k e u rest e u rest.
Proof.
  intros H. unfold contL. destruct (nth_error ops k) as [o|] eqn:Ho; [|auto].
  apply LP_stop. destruct (is_op (peek rest) o) eqn:E; [|reflexivity].
  specialize (H k o Ho E). lia.
Qed.

Lemma fdescend ids t e u b m : m <= n ->
  (forall rest e' u' rest', post_stop rest -> stops (Nat.min (S m) b) rest -> contL ids m e u rest e' u' rest' ->
     PL ids m (t ++ rest) e' u' rest') ->
  forall d k, m = k + d -> k <= n -> forall rest e' u' rest', post_stop rest -> stops (Nat.min (S k) b) rest ->
     contL ids k e u rest e' u' rest' -> PL ids k (t ++ rest) e' u' rest'.
Proof.
  intros Hmn H. induction d as [|d IH]; intros k Hm Hk rest e' u' rest' Hp Hs Hc.
  - rewrite Nat.add_0_r in Hm. subst k. apply H; auto.
  - unfold contL in Hc. destruct (nth_error ops k) as [o|] eqn:Ho.
    + eapply PL_lvl; [exact Ho| |exact Hc].
      assert (Hk' : S k <= n) by (pose proof (nth_error_lt _ _ _ Ho); nlia).
      apply (IH (S k)); auto; try lia.
      * eapply stops_mono; [|exact Hs]. lia.
      * apply (contL_refl ids (S k) b). exact Hs.
    + destruct Hc as (-> & -> & ->). exfalso. apply nth_error_None in Ho. nlia.
Qed.

Definition noarrow (rest : list tk) : Prop := is_op (peek rest) s_arrow = false.

(* operand of level k, followed by rest, with the loop of level k running on *)
Definition CL (r : ft) : Prop := forall ids e u, fwf r = true -> ferase ids r = Some (e, u) -> letform r = false ->
  forall k, k <= flvl r -> k <= n -> forall rest e' u' rest',
    post_stop rest -> stops (Nat.min (S k) (fab r)) rest -> contL ids k e u rest e' u' rest' ->
    PL ids k (fflatten r ++ rest) e' u' rest'.

(* literal / postfix form followed by rest, with the postfix loop running on *)
Definition CN (r : ft) : Prop := forall ids e u, fwf r = true -> ferase ids r = Some (e, u) -> flvl r = S n ->
  forall rest e' u' rest', PF ids e u rest e' u' rest' -> noarrow rest ->
    (fis_access r = true -> typ_is (peek rest) tOpen = false) ->
    (open_tail r = true -> post_stop rest /\ stops 0 rest) ->
    PN ids (fflatten r ++ rest) e' u' rest'.

(* a parseLet position *)
Definition CE (r : ft) : Prop := forall ids e u, fwf r = true -> ferase ids r = Some (e, u) ->
  forall rest, post_stop rest -> stops 0 rest -> PE ids (fflatten r ++ rest) e u rest.

Definition CT (r : ft) : Prop := CL r /\ CN r /\ CE r.

Definition CA (a : fargs) : Prop := forall ids args u, fwf_args a = true -> ferase_args ids a = Some (args, u) ->
  forall c kc rest, close_tok c kc ->
    PA ids c (fflatten_args kc a ++ rest) args u rest /\
    (a <> FA_nil -> forall acc ua, PAL ids c acc ua (fflatten_args kc a ++ rest) (acc ++ args) (ua ++ u) rest).

(* the case list of a switch, followed by rest, with the switch loop running on *)
Definition CC (cs : fcases) : Prop := forall ids l u, fwf_cases cs = true -> ferase_cases ids cs = Some (l, u) ->
  forall sv acc ua rest e' u' rest', post_stop rest -> stops 0 rest ->
    PSw ids sv (acc ++ l) (ua ++ u) rest e' u' rest' ->
    PSw ids sv acc ua (fflatten_cases cs ++ rest) e' u' rest'.

Definition CM (m : fentries) : Prop := forall ids l u, fwf_entries m = true -> ferase_entries ids m = Some (l, u) ->
  forall acc ua rest, nodup_str (map fst acc ++ entry_keys m) = true ->
    PM ids acc ua (fflatten_entries m ++ rest) (AMapLit (acc ++ l)) (ua ++ u) rest.

Lemma plain_tok rest : typ_is (peek rest) tOperate = false -> post_head rest = false ->
  post_stop rest /\ forall b, stops b rest.
Proof. exact (plain_follow cfg rest). Qed.

Lemma CL_PL0 r ids e u rest : CL r -> fwf r = true -> ferase ids r = Some (e, u) -> letform r = false ->
  post_stop rest -> stops 0 rest -> PL ids 0 (fflatten r ++ rest) e u rest.
Proof.
  intros HC W E L Hp Hs. apply (HC ids e u W E L 0); auto; try lia.
  - eapply stops_mono; [|exact Hs]. lia.
  - apply (contL_refl ids 0 0). exact Hs.
Qed.

Lemma CL_PX r ids e u rest : CL r -> fwf r = true -> ferase ids r = Some (e, u) -> letform r = false ->
  post_stop rest -> stops 0 rest -> PX ids (fflatten r ++ rest) e u rest.
Proof. intros. apply PX_intro. apply CL_PL0; auto. Qed.

Lemma CL_CE r : CL r -> letform r = false -> CE r.
Proof.
  intros HC L ids e u W E rest Hp Hs. destruct (fflatten_nokw r W L) as (t & t' & Et & K1 & K2).
  apply PE_expr; [| |apply CL_PX; auto]; rewrite Et; cbn [app peek]; assumption.
Qed.

Lemma fatom_not_unary t ts : fatom (ktyp t) = true -> head_unary cfg (t :: ts) = false.
Proof. unfold head_unary, typ_is. cbn [peek]. destruct (ktyp t); simpl; congruence. Qed.

Lemma nonop_CL r : flvl r = S n -> CN r -> CL r.
Proof.
  intros L HN ids e u W E _ k _ Hk rest e' u' rest' Hp Hs Hc.
  apply (fdescend ids (fflatten r) e u (fab r) n (Nat.le_refl n)) with (d := n - k); auto; try lia.
  clear k Hk rest e' u' rest' Hp Hs Hc. intros rest e' u' rest' Hp Hs Hc.
  unfold contL in Hc. replace (nth_error ops n) with (@None str) in Hc
    by (symmetry; apply nth_error_None; nlia).
  destruct Hc as (-> & -> & ->).
  destruct (fflatten_atom r W L) as (t & t' & Et & St).
  apply PL_nonop.
  - rewrite Et. apply fatom_not_unary. exact St.
  - destruct Hp as [Hp1 Hp2]. apply (HN ids e u W E L); auto.
    + apply PF_stop. exact Hp1.
    + intros _. apply post_head_open. exact Hp1.
    + intros Ho. split; [split; assumption|]. rewrite (open_tail_fab r Ho) in Hs.
      eapply stops_mono; [|exact Hs]. lia.
Qed.

Lemma CT_of_CN r : flvl r = S n -> letform r = false -> CN r -> CT r.
Proof. intros L Lf HN. pose proof (nonop_CL r L HN) as HL. split; [exact HL|split; [exact HN|apply CL_CE; assumption]]. Qed.

Lemma is_op_k_op_f o x : is_op (k_op o) x = str_eqb o x.
Proof. reflexivity. Qed.

Lemma nth_error_inj_f j j' o : nth_error ops j = Some o -> nth_error ops j' = Some o -> j = j'.
Proof.
  intros H1 H2. pose proof (level_of_nth _ _ _ ops_nodup_f H1). pose proof (level_of_nth _ _ _ ops_nodup_f H2). congruence.
Qed.

Lemma arrow_not_op_f : forall j, nth_error ops j <> Some s_arrow.
Proof. exact (arrow_not_op cfg Htable). Qed.

Lemma fargs_start : forall a kc, a <> FA_nil -> exists t t', fflatten_args kc a = t :: t' /\ fstart (ktyp t) = true.
Proof.
  intros a kc Ha. destruct a as [|e|e r]; [congruence| |]; fsimpl;
    destruct (fflatten_start e) as (t & t' & E & S); rewrite E; cbn [app]; eauto.
Qed.

Lemma fstart_not_close t c kc : fstart (ktyp t) = true -> close_tok c kc -> typ_is t c = false.
Proof. unfold typ_is. intros H [[-> _]|[-> _]]; destruct (ktyp t); simpl in *; congruence. Qed.

Ltac plain H1 H2 rest0 :=
  assert (Hpl : post_stop rest0 /\ forall b, stops b rest0) by (apply plain_tok; reflexivity);
  destruct Hpl as [H1 H2].

Lemma complete_ident x : CT (FIdent x).
Proof.
  apply CT_of_CN; try reflexivity.
  intros ids e u W E L rest e' u' rest' HPF Harr Hacc Hop. fsimpl. cbn [app].
  destruct (resolve ids x) as [a|] eqn:Er; [|discriminate]. inversion E; subst.
  eapply PN_intro; [apply (PLit_ident cfg ids (k_ident x :: rest) e); [reflexivity|exact Harr|exact Er]|exact HPF].
Qed.

Lemma complete_num i : CT (FNum i).
Proof.
  apply CT_of_CN; try reflexivity.
  intros ids e u W E L rest e' u' rest' HPF Harr Hacc Hop. fsimpl. cbn [app].
  destruct (c_num cfg) as [np|] eqn:Enp; [|discriminate]. destruct (np i) as [c|] eqn:Ec; [|discriminate].
  inversion E; subst.
  eapply PN_intro; [exact (PLit_num cfg ids (k_num i :: rest) np c eq_refl Enp Ec)|exact HPF].
Qed.

Lemma complete_str x : CT (FStr x).
Proof.
  apply CT_of_CN; try reflexivity.
  intros ids e u W E L rest e' u' rest' HPF Harr Hacc Hop. fsimpl. cbn [app].
  destruct (c_strh cfg) as [sh|] eqn:Esh; [|discriminate]. inversion E; subst.
  eapply PN_intro; [exact (PLit_str cfg ids (k_str x :: rest) sh eq_refl Esh)|exact HPF].
Qed.

Lemma complete_paren r : CT r -> CT (FParen r).
Proof.
  intros (IHL & _ & _). apply CT_of_CN; try reflexivity.
  intros ids e u W E L rest e' u' rest' HPF Harr Hacc Hop. fsimpl. cbn [app]. rewrite <- app_assoc. cbn [app].
  apply andb_true_iff in W. destruct W as [W Wl]. apply negb_true_iff in Wl.
  plain F1 F2 (k_close :: rest).
  eapply PN_intro; [|exact HPF].
  apply (PLit_paren cfg ids (k_open :: fflatten r ++ k_close :: rest) e u (k_close :: rest)).
  - reflexivity.
  - apply fflatten_nic. cbn. discriminate.
  - cbn [adv]. apply CL_PX; auto.
  - reflexivity.
Qed.

Lemma complete_bin j l r : CT l -> CT r -> CT (FBin j l r).
Proof.
  intros (IHl & _ & _) (IHr & _ & _).
  assert (HL : CL (FBin j l r)).
  { intros ids e u W E _ k Hk Hkn rest e' u' rest' Hp Hs Hc. fsimpl. cbn [Full.flvl Full.fab] in *.
    repeat (apply andb_true_iff in W; destruct W as [W ?]).
    apply Nat.ltb_lt in W. rename H into Wr', H0 into Wab, H1 into Wl', H2 into Wr, H3 into Wl.
    apply Nat.leb_le in Wr', Wl'. apply Nat.ltb_lt in Wab.
    destruct (nth_error ops j) as [o|] eqn:Ho; [|discriminate].
    destruct (Full.ferase cfg ids l) as [[a ua]|] eqn:Ea; [|discriminate].
    destruct (Full.ferase cfg ids r) as [[b ub]|] eqn:Eb; [|discriminate].
    inversion E; subst e u. clear E.
    assert (Ll : letform l = false).
    { destruct (letform l) eqn:X; [|reflexivity]. destruct (letform_flvl _ X). lia. }
    assert (Lr : letform r = false).
    { destruct (letform r) eqn:X; [|reflexivity]. destruct (letform_flvl _ X). lia. }
    assert (Hjn : j <= n) by nlia.
    apply (fdescend ids (fflatten (FBin j l r)) (AOp o (N.of_nat j) a b) (ua ++ ub) (fab r) j Hjn) with (d := j - k);
      auto; try lia.
    clear k Hk Hkn rest e' u' rest' Hp Hs Hc. intros rest e' u' rest' Hp Hs Hc.
    unfold contL in Hc. rewrite Ho in Hc.
    fsimpl. rewrite (nth_error_nth ops j [] Ho). rewrite <- app_assoc. cbn [app].
    apply (IHl ids a ua Wl Ea Ll j); auto.
    - split; [reflexivity|]. cbn [peek]. rewrite is_op_k_op_f. destruct (str_eqb o s_arrow) eqn:Ar; [|reflexivity].
      apply str_eqb_eq in Ar. subst o. exfalso. exact (arrow_not_op_f j Ho).
    - intros j' o' Ho' Hop. cbn [peek] in Hop. rewrite is_op_k_op_f in Hop. apply str_eqb_eq in Hop. subst o'.
      rewrite (nth_error_inj_f _ _ _ Ho' Ho). lia.
    - unfold contL. rewrite Ho.
      apply (LP_step cfg ids j o a ua (k_op o :: fflatten r ++ rest) b ub rest e' u' rest').
      + cbn [peek]. rewrite is_op_k_op_f. apply str_eqb_refl.
      + cbn [adv]. apply (IHr ids b ub Wr Eb Lr (S j)); auto; try nlia.
        * eapply stops_mono; [|exact Hs]. lia.
        * apply (contL_refl ids (S j) (fab r)). exact Hs.
      + exact Hc. }
  split; [exact HL|split].
  - intros ids e u W E L. exfalso. fsimpl. cbn [Full.flvl] in L.
    repeat (apply andb_true_iff in W; destruct W as [W ?]). apply Nat.ltb_lt in W. nlia.
  - apply CL_CE; [exact HL|reflexivity].
Qed.

Lemma complete_un u0 e0 : CT e0 -> CT (FUn u0 e0).
Proof.
  intros (IHe & IHN & _).
  assert (HL : CL (FUn u0 e0)).
  { intros ids e u W E _ k Hk Hkn rest e' u' rest' Hp Hs Hc. fsimpl. cbn [Full.flvl] in *.
    apply andb_true_iff in W. destruct W as [W Wc]. apply andb_true_iff in W. destruct W as [Wu We].
    destruct (Full.ferase cfg ids e0) as [[a ua]|] eqn:Ea; [|discriminate].
    inversion E; subst e u. clear E.
    apply (fdescend ids (fflatten (FUn u0 e0)) (AUn u0 a) ua (fab (FUn u0 e0)) n (Nat.le_refl n)) with (d := n - k);
      auto; try nlia.
    clear k Hk Hkn rest e' u' rest' Hp Hs Hc. intros rest e' u' rest' Hp Hs Hc.
    unfold contL in Hc. replace (nth_error ops n) with (@None str) in Hc by (symmetry; apply nth_error_None; nlia).
    destruct Hc as (-> & -> & ->). fsimpl. cbn [Full.fab] in Hs. fold ops in Hs, Wc.
    assert (HU : head_unary cfg (k_op u0 :: fflatten e0 ++ rest) = true) by (unfold head_unary; cbn [peek]; exact Wu).
    destruct (level_of ops u0) as [p|] eqn:Lp.
    - apply Nat.leb_le in Wc.
      assert (Hp' : nth_error ops p = Some u0) by (apply level_of_some; exact Lp).
      assert (Hpn : p < n) by (exact (nth_error_lt _ _ _ Hp')).
      assert (Le : letform e0 = false).
      { destruct (letform e0) eqn:X; [|reflexivity]. destruct (letform_flvl _ X). lia. }
      apply (PL_un_bin cfg ids (k_op u0 :: fflatten e0 ++ rest) p a ua rest HU).
      + cbn [peek]. change (kimg (k_op u0)) with u0. fold ops. rewrite (op_pos_level _ _ ops_nodup_f). exact Lp.
      + cbn [adv]. apply (IHe ids a ua We Ea Le (S p)); auto; try lia.
        * eapply stops_mono; [|exact Hs]. lia.
        * apply (contL_refl ids (S p) (fab e0)). eapply stops_mono; [|exact Hs]. lia.
    - apply Nat.eqb_eq in Wc. destruct Hp as [Hp1 Hp2].
      apply (PL_un_pure cfg ids (k_op u0 :: fflatten e0 ++ rest) a ua rest HU).
      + cbn [peek]. change (kimg (k_op u0)) with u0. fold ops. rewrite (op_pos_level _ _ ops_nodup_f). exact Lp.
      + cbn [adv]. apply (IHN ids a ua We Ea Wc); auto.
        * apply PF_stop. exact Hp1.
        * intros _. apply post_head_open. exact Hp1.
        * intros Ho. split; [split; assumption|]. rewrite (open_tail_fab e0 Ho) in Hs.
          eapply stops_mono; [|exact Hs]. lia. }
  split; [exact HL|split].
  - intros ids e u W E L. exfalso. cbn [Full.flvl] in L. nlia.
  - apply CL_CE; [exact HL|reflexivity].
Qed.

Lemma fbase_inv e : fbase e = true -> flvl e = S n /\ open_tail e = false.
Proof.
  unfold Full.fbase. intros H. apply andb_true_iff in H. destruct H as [H1 H2].
  apply Nat.eqb_eq in H1. apply negb_true_iff in H2. auto.
Qed.

Lemma complete_access e0 x : CT e0 -> CT (FAccess e0 x).
Proof.
  intros (_ & IHN & _). apply CT_of_CN; try reflexivity.
  intros ids e u W E L rest e' u' rest' HPF Harr Hacc Hop. fsimpl.
  apply andb_true_iff in W. destruct W as [We Wb]. destruct (fbase_inv _ Wb) as [Wl Wo].
  destruct (Full.ferase cfg ids e0) as [[a ua]|] eqn:Ea; [|discriminate]. inversion E; subst e u. clear E.
  rewrite <- app_assoc. cbn [app].
  apply (IHN ids a ua We Ea Wl); [|reflexivity|reflexivity|intros X; congruence].
  apply (PF_access cfg ids a ua (k_dot :: k_ident x :: rest) e' u' rest'); try reflexivity.
  - cbn [adv]. apply Hacc. reflexivity.
  - exact HPF.
Qed.

Lemma complete_method e0 x a0 : CT e0 -> CA a0 -> CT (FMethod e0 x a0).
Proof.
  intros (_ & IHN & _) IHA. apply CT_of_CN; try reflexivity.
  intros ids e u W E L rest e' u' rest' HPF Harr Hacc Hop. fsimpl.
  apply andb_true_iff in W. destruct W as [W Wa]. apply andb_true_iff in W. destruct W as [We Wb].
  destruct (fbase_inv _ Wb) as [Wl Wo].
  destruct (Full.ferase cfg ids e0) as [[v uv]|] eqn:Ev; [|discriminate].
  destruct (Full.ferase_args cfg ids a0) as [[args ua]|] eqn:Eargs; [|discriminate].
  inversion E; subst e u. clear E.
  rewrite <- app_assoc. cbn [app].
  apply (IHN ids v uv We Ev Wl); [|reflexivity|reflexivity|intros X; congruence].
  apply (PF_method cfg ids v uv (k_dot :: k_ident x :: k_open :: fflatten_args k_close a0 ++ rest) args ua rest e' u' rest');
    try reflexivity.
  - cbn [adv]. apply (IHA ids args ua Wa Eargs tClose k_close rest). left. auto.
  - exact HPF.
Qed.

Lemma complete_call e0 a0 : CT e0 -> CA a0 -> CT (FCall e0 a0).
Proof.
  intros (_ & IHN & _) IHA. apply CT_of_CN; try reflexivity.
  intros ids e u W E L rest e' u' rest' HPF Harr Hacc Hop. fsimpl.
  apply andb_true_iff in W. destruct W as [W Wa]. apply andb_true_iff in W. destruct W as [W Wacc].
  apply andb_true_iff in W. destruct W as [We Wb]. apply negb_true_iff in Wacc.
  destruct (fbase_inv _ Wb) as [Wl Wo].
  destruct (Full.ferase cfg ids e0) as [[v uv]|] eqn:Ev; [|discriminate].
  destruct (Full.ferase_args cfg ids a0) as [[args ua]|] eqn:Eargs; [|discriminate].
  inversion E; subst e u. clear E.
  rewrite <- app_assoc. cbn [app].
  apply (IHN ids v uv We Ev Wl); [|reflexivity|intros X; congruence|intros X; congruence].
  apply (PF_call cfg ids v uv (k_open :: fflatten_args k_close a0 ++ rest) args ua rest e' u' rest'); try reflexivity.
  - cbn [adv]. apply (IHA ids args ua Wa Eargs tClose k_close rest). left. auto.
  - exact HPF.
Qed.

Lemma complete_index e0 i : CT e0 -> CT i -> CT (FIndex e0 i).
Proof.
  intros (_ & IHN & _) (IHi & _ & _). apply CT_of_CN; try reflexivity.
  intros ids e u W E L rest e' u' rest' HPF Harr Hacc Hop. fsimpl.
  repeat (apply andb_true_iff in W; destruct W as [W ?]). rename H into Wil, H0 into Wi, H1 into Wb.
  apply negb_true_iff in Wil. destruct (fbase_inv _ Wb) as [Wl Wo].
  destruct (Full.ferase cfg ids e0) as [[v uv]|] eqn:Ev; [|discriminate].
  destruct (Full.ferase cfg ids i) as [[ix ui]|] eqn:Ei; [|discriminate].
  inversion E; subst e u. clear E.
  rewrite <- app_assoc. cbn [app]. rewrite <- app_assoc. cbn [app].
  plain F1 F2 (k_cbr :: rest).
  apply (IHN ids v uv W Ev Wl); [|reflexivity|reflexivity|intros X; congruence].
  apply (PF_index cfg ids v uv (k_obr :: fflatten i ++ k_cbr :: rest) ix ui (k_cbr :: rest) e' u' rest'); try reflexivity.
  - cbn [adv]. apply CL_PX; auto.
  - exact HPF.
Qed.

Lemma complete_list a0 : CA a0 -> CT (FList a0).
Proof.
  intros IHA. apply CT_of_CN; try reflexivity.
  intros ids e u W E L rest e' u' rest' HPF Harr Hacc Hop. fsimpl.
  destruct (Full.ferase_args cfg ids a0) as [[args ua]|] eqn:Eargs; [|discriminate].
  inversion E; subst e u. clear E. cbn [app].
  eapply PN_intro; [|exact HPF].
  apply (PLit_list cfg ids (k_obr :: fflatten_args k_cbr a0 ++ rest) args ua rest); [reflexivity|].
  cbn [adv]. apply (IHA ids args ua W Eargs tCloseBracket k_cbr rest). right. auto.
Qed.

Lemma complete_args_nil : CA FA_nil.
Proof.
  intros ids args u W E c kc rest Hc. fsimpl. inversion E; subst.
  split; [|congruence]. cbn [app].
  apply (PA_nil cfg ids c (kc :: rest)). destruct Hc as [[-> ->]|[-> ->]]; reflexivity.
Qed.

Lemma close_plain c kc rest : close_tok c kc -> post_stop (kc :: rest) /\ forall b, stops b (kc :: rest).
Proof. intros Hc. apply plain_tok; destruct Hc as [[-> ->]|[-> ->]]; reflexivity. Qed.

Lemma complete_args_last e0 : CT e0 -> CA (FA_last e0).
Proof.
  intros (_ & _ & IHE) ids args u W E c kc rest Hc. fsimpl.
  destruct (Full.ferase cfg ids e0) as [[x ux]|] eqn:Ex; [|discriminate]. inversion E; subst args u. clear E.
  rewrite <- app_assoc. cbn [app].
  assert (Tc : typ_is kc c = true) by (destruct Hc as [[-> ->]|[-> ->]]; reflexivity).
  destruct (close_plain c kc rest Hc) as [F1 F2].
  assert (HL : forall acc ua, PAL ids c acc ua (fflatten e0 ++ kc :: rest) (acc ++ [x]) (ua ++ ux) rest).
  { intros acc ua. apply (PAL_last cfg ids c acc ua (fflatten e0 ++ kc :: rest) x ux (kc :: rest)).
    - apply IHE; auto.
    - exact Tc. }
  split; [|intros _; exact HL].
  apply PA_some; [|exact (HL [] [])].
  destruct (fflatten_start e0) as (t & t' & Et & St). rewrite Et. cbn [app peek].
  eapply fstart_not_close; eauto.
Qed.

Lemma complete_args_cons e0 r : CT e0 -> CA r -> CA (FA_cons e0 r).
Proof.
  intros (_ & _ & IHE) IHA ids args u W E c kc rest Hc. fsimpl.
  apply andb_true_iff in W. destruct W as [We Wr].
  destruct (Full.ferase cfg ids e0) as [[x ux]|] eqn:Ex; [|discriminate].
  destruct (Full.ferase_args cfg ids r) as [[l ul]|] eqn:El; [|discriminate].
  inversion E; subst args u. clear E. rewrite <- app_assoc. cbn [app].
  assert (Tc : typ_is k_comma c = false) by (destruct Hc as [[-> _]|[-> _]]; reflexivity).
  plain F1 F2 (k_comma :: fflatten_args kc r ++ rest).
  assert (HE : PE ids (fflatten e0 ++ k_comma :: fflatten_args kc r ++ rest) x ux (k_comma :: fflatten_args kc r ++ rest))
    by (apply IHE; auto).
  assert (HL : forall acc ua, PAL ids c acc ua (fflatten e0 ++ k_comma :: fflatten_args kc r ++ rest) (acc ++ x :: l) (ua ++ ux ++ ul) rest).
  { intros acc ua. destruct (IHA ids l ul Wr El c kc rest Hc) as [_ HA].
    destruct r as [|e1|e1 r1].
    - fsimpl. inversion El; subst l ul. rewrite app_nil_r. cbn [app] in *.
      apply (PAL_trailing cfg ids c acc ua _ x ux (k_comma :: kc :: rest) HE Tc); [reflexivity|].
      cbn [adv peek]. destruct Hc as [[-> ->]|[-> ->]]; reflexivity.
    - replace (acc ++ x :: l) with ((acc ++ [x]) ++ l) by (rewrite <- app_assoc; reflexivity).
      replace (ua ++ ux ++ ul) with ((ua ++ ux) ++ ul) by (rewrite <- app_assoc; reflexivity).
      apply (PAL_more cfg ids c acc ua _ x ux (k_comma :: fflatten_args kc (FA_last e1) ++ rest) _ _ rest HE Tc);
        [reflexivity| |].
      + cbn [adv]. destruct (fargs_start (FA_last e1) kc) as (t & t' & Et & St); [congruence|].
        rewrite Et. cbn [app peek]. eapply fstart_not_close; eauto.
      + cbn [adv]. apply HA. congruence.
    - replace (acc ++ x :: l) with ((acc ++ [x]) ++ l) by (rewrite <- app_assoc; reflexivity).
      replace (ua ++ ux ++ ul) with ((ua ++ ux) ++ ul) by (rewrite <- app_assoc; reflexivity).
      apply (PAL_more cfg ids c acc ua _ x ux (k_comma :: fflatten_args kc (FA_cons e1 r1) ++ rest) _ _ rest HE Tc);
        [reflexivity| |].
      + cbn [adv]. destruct (fargs_start (FA_cons e1 r1) kc) as (t & t' & Et & St); [congruence|].
        rewrite Et. cbn [app peek]. eapply fstart_not_close; eauto.
      + cbn [adv]. apply HA. congruence. }
  split; [|intros _; exact HL].
  apply PA_some; [|exact (HL [] [])].
  destruct (fflatten_start e0) as (t & t' & Et & St). rewrite Et. cbn [app peek].
  eapply fstart_not_close; eauto.
Qed.

(* ---------- binding constructs and the keyword literals ---------- *)
Lemma CT_letform r : letform r = true -> CE r -> CT r.
Proof.
  intros L HE. split; [|split; [|exact HE]].
  - intros ids e u W E L'. congruence.
  - intros ids e u W E Lv. destruct (letform_flvl _ L). nlia.
Qed.

Lemma complete_let x v b : CT v -> CT b -> CT (FLet x v b).
Proof.
  intros (IHv & _ & _) (_ & _ & IHb). apply CT_letform; [reflexivity|].
  intros ids e u W E rest Hp Hs. fsimpl.
  apply andb_true_iff in W. destruct W as [W Wb]. apply andb_true_iff in W. destruct W as [Wv Wl].
  apply negb_true_iff in Wl.
  destruct (Full.ferase cfg ids v) as [[ev u1]|] eqn:Ev; [|discriminate].
  cbn [app]. rewrite <- app_assoc. cbn [app].
  plain F1 F2 (k_semi :: fflatten b ++ rest).
  assert (HX : PX ids (fflatten v ++ k_semi :: fflatten b ++ rest) ev u1 (k_semi :: fflatten b ++ rest))
    by (apply CL_PX; auto).
  destruct (is_const ev) as [c|] eqn:Ec.
  - destruct (Full.ferase cfg (id_constant x c :: ids) b) as [[eb u2]|] eqn:Eb; [|discriminate].
    inversion E; subst e u. clear E.
    apply (PE_let_const cfg ids (k_kw s_let :: k_ident x :: k_op s_assign :: fflatten v ++ k_semi :: fflatten b ++ rest)
                        ev u1 (k_semi :: fflatten b ++ rest) c eb u2 rest); try reflexivity; auto.
    cbn [adv peek]. apply IHb; auto.
  - destruct (Full.ferase cfg (id_var x :: ids) b) as [[eb u2]|] eqn:Eb; [|discriminate].
    inversion E; subst e u. clear E.
    apply (PE_let_var cfg ids (k_kw s_let :: k_ident x :: k_op s_assign :: fflatten v ++ k_semi :: fflatten b ++ rest)
                      ev u1 (k_semi :: fflatten b ++ rest) eb u2 rest); try reflexivity; auto.
    cbn [adv peek]. apply IHb; auto.
Qed.

Lemma flatten_names_len ps R : length ps <= S (length (flatten_names ps ++ R)).
Proof.
  induction ps as [|p ps IH]; [cbn; lia|]. destruct ps as [|q ps]; [cbn; lia|].
  cbn [flatten_names app length] in *. lia.
Qed.

Lemma complete_func f ps fb b : CT fb -> CT b -> CT (FFunc f ps fb b).
Proof.
  intros (_ & _ & IHfb) (_ & _ & IHb). apply CT_letform; [reflexivity|].
  intros ids e u W E rest Hp Hs. fsimpl.
  repeat (apply andb_true_iff in W; destruct W as [W ?]). rename H into Wb, H0 into Wfb, H1 into Wnd.
  assert (Hne : ps <> []) by (destruct ps; [discriminate|discriminate]).
  destruct (Full.ferase cfg (SThis f :: SArgs ps :: ids) fb) as [[efb ub]|] eqn:Efb; [|discriminate].
  destruct (Full.ferase cfg (id_var f :: ids) b) as [[eb u2]|] eqn:Eb; [|discriminate].
  inversion E; subst e u. clear E.
  cbn [app]. rewrite <- !app_assoc. cbn [app].
  plain F1 F2 (k_semi :: fflatten b ++ rest).
  apply (PE_func cfg ids (k_kw s_func :: k_ident f :: k_open :: flatten_names ps ++ fflatten fb ++ k_semi :: fflatten b ++ rest)
                 ps (fflatten fb ++ k_semi :: fflatten b ++ rest) efb ub (k_semi :: fflatten b ++ rest) eb u2 rest);
    try reflexivity.
  - cbn [adv]. apply (identlist_names ps [] _ _ Hne Wnd). apply flatten_names_len.
  - apply IHfb; auto.
  - cbn [adv peek]. apply IHb; auto.
Qed.

Lemma kw_plain s rest : post_stop (k_kw s :: rest) /\ forall b, stops b (k_kw s :: rest).
Proof. apply plain_tok; reflexivity. Qed.

Lemma complete_if c t e0 : CT c -> CT t -> CT e0 -> CT (FIf c t e0).
Proof.
  intros (IHc & _ & _) (_ & _ & IHt) (_ & _ & IHe). apply CT_of_CN; try reflexivity.
  intros ids e u W E L rest e' u' rest' HPF Harr Hacc Hop. fsimpl.
  repeat (apply andb_true_iff in W; destruct W as [W ?]). rename H into We, H0 into Wt, H1 into Wl.
  apply negb_true_iff in Wl. destruct (Hop eq_refl) as [Hp Hs].
  destruct (Full.ferase cfg ids c) as [[ec u1]|] eqn:Ec; [|discriminate].
  destruct (Full.ferase cfg ids t) as [[et u2]|] eqn:Et; [|discriminate].
  destruct (Full.ferase cfg ids e0) as [[ee u3]|] eqn:Ee; [|discriminate].
  inversion E; subst e u. clear E.
  cbn [app]. repeat (rewrite <- app_assoc; cbn [app]).
  destruct (kw_plain s_then (fflatten t ++ k_kw s_else :: fflatten e0 ++ rest)) as [A1 A2].
  destruct (kw_plain s_else (fflatten e0 ++ rest)) as [B1 B2].
  eapply PN_intro; [|exact HPF].
  apply (PLit_if cfg ids (k_kw s_if :: fflatten c ++ k_kw s_then :: fflatten t ++ k_kw s_else :: fflatten e0 ++ rest)
                 ec u1 (k_kw s_then :: fflatten t ++ k_kw s_else :: fflatten e0 ++ rest)
                 et u2 (k_kw s_else :: fflatten e0 ++ rest) ee u3 rest); try reflexivity.
  - cbn [adv]. apply CL_PX; auto.
  - cbn [adv]. apply IHt; auto.
  - cbn [adv]. apply IHe; auto.
Qed.

Lemma complete_try t c : CT t -> CT c -> CT (FTry t c).
Proof.
  intros (_ & _ & IHt) (_ & _ & IHc). apply CT_of_CN; try reflexivity.
  intros ids e u W E L rest e' u' rest' HPF Harr Hacc Hop. fsimpl.
  apply andb_true_iff in W. destruct W as [Wt Wc]. destruct (Hop eq_refl) as [Hp Hs].
  destruct (Full.ferase cfg ids t) as [[et u1]|] eqn:Et; [|discriminate].
  destruct (Full.ferase cfg ids c) as [[ec u2]|] eqn:Ec; [|discriminate].
  inversion E; subst e u. clear E.
  cbn [app]. repeat (rewrite <- app_assoc; cbn [app]).
  destruct (kw_plain s_catch (fflatten c ++ rest)) as [A1 A2].
  eapply PN_intro; [|exact HPF].
  apply (PLit_try cfg ids (k_kw s_try :: fflatten t ++ k_kw s_catch :: fflatten c ++ rest)
                  et u1 (k_kw s_catch :: fflatten c ++ rest) ec u2 rest); try reflexivity.
  - cbn [adv]. apply IHt; auto.
  - cbn [adv]. apply IHc; auto.
Qed.

Lemma complete_clo1 x b : CT b -> CT (FClo1 x b).
Proof.
  intros (_ & _ & IHb). apply CT_of_CN; try reflexivity.
  intros ids e u W E L rest e' u' rest' HPF Harr Hacc Hop. fsimpl. destruct (Hop eq_refl) as [Hp Hs].
  destruct (Full.ferase cfg (SArgs [x] :: ids) b) as [[eb ub]|] eqn:Eb; [|discriminate].
  inversion E; subst e u. clear E. cbn [app].
  eapply PN_intro; [|exact HPF].
  apply (PLit_clo1 cfg ids (k_ident x :: k_op s_arrow :: fflatten b ++ rest) eb ub rest); try reflexivity.
  cbn [adv peek]. apply IHb; auto.
Qed.

Lemma complete_cloN ps b : CT b -> CT (FCloN ps b).
Proof.
  intros (_ & _ & IHb). apply CT_of_CN; try reflexivity.
  intros ids e u W E L rest e' u' rest' HPF Harr Hacc Hop. fsimpl. destruct (Hop eq_refl) as [Hp Hs].
  apply andb_true_iff in W. destruct W as [W Wb]. apply andb_true_iff in W. destruct W as [Wlen Wnd].
  apply Nat.leb_le in Wlen.
  destruct (Full.ferase cfg (SArgs ps :: ids) b) as [[eb ub]|] eqn:Eb; [|discriminate].
  inversion E; subst e u. clear E. cbn [app]. rewrite <- app_assoc. cbn [app].
  destruct ps as [|p1 [|p2 ps]]; try (cbn in Wlen; lia).
  eapply PN_intro; [|exact HPF].
  apply (PLit_cloN cfg ids (k_open :: flatten_names (p1 :: p2 :: ps) ++ k_op s_arrow :: fflatten b ++ rest)
                   (p1 :: p2 :: ps) (k_op s_arrow :: fflatten b ++ rest) eb ub rest); try reflexivity.
  - cbn [adv]. apply (identlist_names (p1 :: p2 :: ps) [] _ _ ltac:(discriminate) Wnd). apply flatten_names_len.
  - cbn [adv]. apply IHb; auto.
Qed.

(* ---------- switch ---------- *)
Lemma complete_cases_nil : CC FC_nil.
Proof.
  intros ids l u W E sv acc ua rest e' u' rest' Hp Hs H. fsimpl. inversion E; subst l u.
  rewrite !app_nil_r in H. exact H.
Qed.

Lemma cases_head_plain cs rest : post_stop rest -> stops 0 rest ->
  post_stop (fflatten_cases cs ++ rest) /\ stops 0 (fflatten_cases cs ++ rest).
Proof.
  intros Hp Hs. destruct cs as [|c r cs]; fsimpl; [split; assumption|].
  cbn [app]. destruct (kw_plain s_case ((fflatten c ++ k_colon :: fflatten r ++ fflatten_cases cs) ++ rest)) as [A1 A2].
  split; [exact A1|apply A2].
Qed.

Lemma complete_cases_cons c r cs : CT c -> CT r -> CC cs -> CC (FC_cons c r cs).
Proof.
  intros (IHc & _ & _) (_ & _ & IHr) IHcs ids l u W E sv acc ua rest e' u' rest' Hp Hs H. fsimpl.
  repeat (apply andb_true_iff in W; destruct W as [W ?]). rename H0 into Wcs, H1 into Wr, H2 into Wl.
  apply negb_true_iff in Wl.
  destruct (Full.ferase cfg ids c) as [[ec u1]|] eqn:Ec; [|discriminate].
  destruct (Full.ferase cfg ids r) as [[er u2]|] eqn:Er; [|discriminate].
  destruct (Full.ferase_cases cfg ids cs) as [[l0 ul]|] eqn:El; [|discriminate].
  inversion E; subst l u. clear E.
  cbn [app]. repeat (rewrite <- app_assoc; cbn [app]).
  plain A1 A2 (k_colon :: fflatten r ++ fflatten_cases cs ++ rest).
  destruct (cases_head_plain cs rest Hp Hs) as [B1 B2].
  apply (PSw_case cfg ids sv acc ua (k_kw s_case :: fflatten c ++ k_colon :: fflatten r ++ fflatten_cases cs ++ rest)
                  ec u1 (k_colon :: fflatten r ++ fflatten_cases cs ++ rest) er u2 (fflatten_cases cs ++ rest) e' u' rest');
    try reflexivity.
  - cbn [adv]. apply CL_PX; auto.
  - cbn [adv]. apply IHr; auto.
  - apply (IHcs ids l0 ul Wcs El sv (acc ++ [(ec, er)]) (ua ++ u1 ++ u2) rest e' u' rest' Hp Hs).
    replace ((acc ++ [(ec, er)]) ++ l0) with (acc ++ (ec, er) :: l0) by (rewrite <- app_assoc; reflexivity).
    replace ((ua ++ u1 ++ u2) ++ ul) with (ua ++ (u1 ++ u2) ++ ul) by (rewrite <- !app_assoc; reflexivity).
    exact H.
Qed.

Lemma complete_switch v cs d : CT v -> CC cs -> CT d -> CT (FSwitch v cs d).
Proof.
  intros (IHv & _ & _) IHcs (_ & _ & IHd). apply CT_of_CN; try reflexivity.
  intros ids e u W E L rest e' u' rest' HPF Harr Hacc Hop. fsimpl. destruct (Hop eq_refl) as [Hp Hs].
  repeat (apply andb_true_iff in W; destruct W as [W ?]). rename H into Wd, H0 into Wcs, H1 into Wl.
  apply negb_true_iff in Wl.
  destruct (Full.ferase cfg ids v) as [[ev u1]|] eqn:Ev; [|discriminate].
  destruct (Full.ferase_cases cfg ids cs) as [[ecs u2]|] eqn:Ecs; [|discriminate].
  destruct (Full.ferase cfg ids d) as [[ed u3]|] eqn:Ed; [|discriminate].
  inversion E; subst e u. clear E.
  cbn [app]. repeat (rewrite <- app_assoc; cbn [app]).
  destruct (kw_plain s_default (fflatten d ++ rest)) as [A1 A2].
  destruct (cases_head_plain cs (k_kw s_default :: fflatten d ++ rest) A1 (A2 0)) as [B1 B2].
  eapply PN_intro; [|exact HPF].
  apply (PLit_switch cfg ids (k_kw s_switch :: fflatten v ++ fflatten_cases cs ++ k_kw s_default :: fflatten d ++ rest)
                     ev u1 (fflatten_cases cs ++ k_kw s_default :: fflatten d ++ rest)); try reflexivity.
  - cbn [adv]. apply CL_PX; auto.
  - apply (IHcs ids ecs u2 Wcs Ecs ev [] u1 (k_kw s_default :: fflatten d ++ rest) _ _ _ A1 (A2 0)).
    cbn [app]. apply (PSw_default cfg ids ev ecs (u1 ++ u2) (k_kw s_default :: fflatten d ++ rest) ed u3 rest);
      try reflexivity.
    cbn [adv]. apply IHd; auto.
Qed.

(* ---------- map literals ---------- *)
Lemma complete_entries_nil : CM FE_nil.
Proof.
  intros ids l u W E acc ua rest Hnd. fsimpl. inversion E; subst l u. rewrite !app_nil_r. cbn [app].
  apply (PM_close cfg ids acc ua (k_ccurly :: rest)). reflexivity.
Qed.

Lemma nodup_key acc k ks : nodup_str (map fst acc ++ k :: ks) = true ->
  mem_str k (map (@fst str ast) acc) = false /\ forall x : ast, nodup_str (map fst (acc ++ [(k, x)]) ++ ks) = true.
Proof.
  intros H. split; [exact (nodup_mid _ _ _ H)|]. intros x. rewrite map_app. cbn [map fst].
  rewrite <- app_assoc. exact H.
Qed.

Lemma complete_entries_last k v : CT v -> CM (FE_last k v).
Proof.
  intros (_ & _ & IHv) ids l u W E acc ua rest Hnd. fsimpl. cbn [entry_keys] in Hnd.
  destruct (Full.ferase cfg ids v) as [[x ux]|] eqn:Ex; [|discriminate]. inversion E; subst l u. clear E.
  destruct (nodup_key acc k [] Hnd) as [Hm _].
  cbn [app]. rewrite <- app_assoc. cbn [app].
  plain A1 A2 (k_ccurly :: rest).
  apply (PM_nocomma cfg ids acc ua (k_ident k :: k_colon :: fflatten v ++ k_ccurly :: rest) x ux (k_ccurly :: rest));
    try reflexivity.
  - exact Hm.
  - cbn [adv]. apply IHv; auto.
  - apply (PM_close cfg ids (acc ++ [(k, x)]) (ua ++ ux) (k_ccurly :: rest)). reflexivity.
Qed.

Lemma complete_entries_cons k v r : CT v -> CM r -> CM (FE_cons k v r).
Proof.
  intros (_ & _ & IHv) IHr ids l u W E acc ua rest Hnd. fsimpl. cbn [entry_keys] in Hnd.
  apply andb_true_iff in W. destruct W as [Wv Wr].
  destruct (Full.ferase cfg ids v) as [[x ux]|] eqn:Ex; [|discriminate].
  destruct (Full.ferase_entries cfg ids r) as [[l0 ul]|] eqn:El; [|discriminate].
  inversion E; subst l u. clear E.
  destruct (nodup_key acc k (entry_keys r) Hnd) as [Hm Hnd'].
  cbn [app]. rewrite <- app_assoc. cbn [app].
  plain A1 A2 (k_comma :: fflatten_entries r ++ rest).
  apply (PM_comma cfg ids acc ua (k_ident k :: k_colon :: fflatten v ++ k_comma :: fflatten_entries r ++ rest)
                  x ux (k_comma :: fflatten_entries r ++ rest)); try reflexivity.
  - exact Hm.
  - cbn [adv]. apply IHv; auto.
  - cbn [adv].
    replace (acc ++ (k, x) :: l0) with ((acc ++ [(k, x)]) ++ l0) by (rewrite <- app_assoc; reflexivity).
    replace (ua ++ ux ++ ul) with ((ua ++ ux) ++ ul) by (rewrite <- app_assoc; reflexivity).
    apply (IHr ids l0 ul Wr El). apply Hnd'.
Qed.

Lemma complete_map m : CM m -> CT (FMap m).
Proof.
  intros IHm. apply CT_of_CN; try reflexivity.
  intros ids e u W E L rest e' u' rest' HPF Harr Hacc Hop. fsimpl.
  apply andb_true_iff in W. destruct W as [Wnd Wm].
  destruct (Full.ferase_entries cfg ids m) as [[es ue]|] eqn:Ee; [|discriminate].
  inversion E; subst e u. clear E. cbn [app].
  eapply PN_intro; [|exact HPF].
  apply (PLit_map cfg ids (k_ocurly :: fflatten_entries m ++ rest)); [reflexivity|].
  cbn [adv]. exact (IHm ids es ue Wm Ee [] [] rest Wnd).
Qed.

(* ---------- all trees ---------- *)
Theorem complete_full : (forall r, CT r) /\ (forall a, CA a) /\ (forall cs, CC cs) /\ (forall m, CM m).
Proof.
  apply ft_all_ind.
  - exact complete_ident.
  - exact complete_num.
  - exact complete_str.
  - exact complete_paren.
  - intros j l Hl r Hr. exact (complete_bin j l r Hl Hr).
  - intros u e He. exact (complete_un u e He).
  - intros e He x. exact (complete_access e x He).
  - intros e He x a Ha. exact (complete_method e x a He Ha).
  - intros e He a Ha. exact (complete_call e a He Ha).
  - intros e He i Hi. exact (complete_index e i He Hi).
  - exact complete_list.
  - intros x v Hv b Hb. exact (complete_let x v b Hv Hb).
  - intros f ps fb Hfb b Hb. exact (complete_func f ps fb b Hfb Hb).
  - intros c Hc t Ht e He. exact (complete_if c t e Hc Ht He).
  - intros t Ht c Hc. exact (complete_try t c Ht Hc).
  - intros v Hv cs Hcs d Hd. exact (complete_switch v cs d Hv Hcs Hd).
  - intros x b Hb. exact (complete_clo1 x b Hb).
  - intros ps b Hb. exact (complete_cloN ps b Hb).
  - exact complete_map.
  - exact complete_args_nil.
  - intros e He. exact (complete_args_last e He).
  - intros e He r Hr. exact (complete_args_cons e r He Hr).
  - exact complete_cases_nil.
  - intros c Hc r Hr rest Hrest. exact (complete_cases_cons c r rest Hc Hr Hrest).
  - exact complete_entries_nil.
  - intros k v Hv. exact (complete_entries_last k v Hv).
  - intros k v Hv r Hr. exact (complete_entries_cons k v r Hv Hr).
Qed.

(* Parser.Parse on the tokens of any well-formed tree of the full grammar, for every table and every chain *)
Theorem parse_complete_full : forall ids r e u, fwf r = true -> ferase ids r = Some (e, u) ->
  parse cfg ids (fflatten r) = POk e.
Proof.
  intros ids r e u W E.
  assert (F : post_stop [] /\ forall b, stops b []) by (apply plain_tok; reflexivity). destruct F as [F1 F2].
  destruct (proj1 complete_full r) as (_ & _ & HE).
  pose proof (HE ids e u W E [] F1 (F2 0)) as H. rewrite app_nil_r in H.
  destruct H as [f0 H]. apply (parse_fuel_stable cfg f0); [|discriminate].
  unfold parse_fuel. rewrite (H f0 (Nat.le_refl _)). reflexivity.
Qed.

End FP.

Global Hint Rewrite fflatten_FIdent fflatten_FNum fflatten_FStr fflatten_FParen fflatten_FBin fflatten_FUn fflatten_FAccess fflatten_FMethod fflatten_FCall fflatten_FIndex fflatten_FList fflatten_FLet fflatten_FFunc fflatten_FIf fflatten_FTry fflatten_FSwitch fflatten_FClo1 fflatten_FCloN fflatten_FMap fflatten_args_FA_nil fflatten_args_FA_last fflatten_args_FA_cons fflatten_cases_FC_nil fflatten_cases_FC_cons fflatten_entries_FE_nil fflatten_entries_FE_last fflatten_entries_FE_cons ferase_FIdent ferase_FNum ferase_FStr ferase_FParen ferase_FBin ferase_FUn ferase_FAccess ferase_FMethod ferase_FCall ferase_FIndex ferase_FList ferase_FLet ferase_FFunc ferase_FIf ferase_FTry ferase_FSwitch ferase_FClo1 ferase_FCloN ferase_FMap ferase_args_FA_nil ferase_args_FA_last ferase_args_FA_cons ferase_cases_FC_nil ferase_cases_FC_cons ferase_entries_FE_nil ferase_entries_FE_last ferase_entries_FE_cons fwf_FIdent fwf_FNum fwf_FStr fwf_FParen fwf_FBin fwf_FUn fwf_FAccess fwf_FMethod fwf_FCall fwf_FIndex fwf_FList fwf_FLet fwf_FFunc fwf_FIf fwf_FTry fwf_FSwitch fwf_FClo1 fwf_FCloN fwf_FMap fwf_args_FA_nil fwf_args_FA_last fwf_args_FA_cons fwf_cases_FC_nil fwf_cases_FC_cons fwf_entries_FE_nil fwf_entries_FE_last fwf_entries_FE_cons : frnd.
Ltac fsimpl := autorewrite with frnd in *.
