(* The canonical TEXT of a rendering tree, and a decidable condition under which it reads back.

   [render_text pc r] writes every token of the canonical token stream [fflatten pc r] as its lexeme - identifiers
   and keywords as words (identifiers that are not ASCII words between single quotes), numbers as they are, strings
   as string literals with escapes, operators and punctuation literally - each followed by ONE blank.

   [spellable tc pc r] is a boolean: the tokenizer configuration has no comfort mode (no implicit '*'), no operator
   contains a blank/line break/NUL, a blank is neither a letter nor a digit, the operator table of the parser is
   usable, and every token has a lexeme the scanner of C15 reads back as exactly this token when a blank follows:
     identifier  a word of letters that is neither a keyword nor a text operator; otherwise quotable (no NUL, no ')
     keyword     a word of letters in the keyword table
     number      a string the number matcher accepts from its first rune on
     string      no NUL
     operator    a complete path in the operator trie that no longer operator extends over the blank,
                 spelled without typographic aliases, forming no comment opener
     punctuation the single rune of its type
   Under this condition the text is a well-formed layout (Lex/TokProofs.v) of the canonical tokens; the round trip
   text -> tokens -> AST then follows from text_to_ast, with no layout hypothesis left. *)
From P2 Require Import Base.Prelude Base.PreludeProofs Lex.Token Syn.Ast Syn.Parse Syn.Render Syn.Full Syn.FullProofs Syn.TextToAst.
From P2 Require Lex.Tok Lex.TokProofs.
Module T := P2.Lex.Tok.
Module TP := P2.Lex.TokProofs.
Local Open Scope N_scope.

(* ------------------------------------------------------------------ the text *)
Definition ascii_letter (c : N) : bool :=
  ((65 <=? c) && (c <=? 90)) || ((97 <=? c) && (c <=? 122)) || (c =? 95).
Definition ascii_digit (c : N) : bool := (48 <=? c) && (c <=? 57).
Definition ascii_word (s : str) : bool :=
  match s with
  | [] => false
  | c :: w => ascii_letter c && forallb (fun d => ascii_letter d || ascii_digit d) w
  end.

Definition tok_text (t : tk) : list N :=
  match fst t with
  | tString => T.string_literal (snd t)
  | tIdent => if ascii_word (snd t) then snd t else T.quoted_ident (snd t)
  | _ => snd t
  end.

Definition render_toks (ts : list tk) : list N := flat_map (fun t => tok_text t ++ [32]) ts.
Definition render_text (pc : pcfg) (r : ft) : list N := render_toks (fflatten pc r).

(* ------------------------------------------------------------------ the decidable condition *)
Definition freeb (b : N) (ops : list str) : bool := forallb (fun o => negb (existsb (N.eqb b) o)) ops.

Definition cfg_spell (tc : T.tcfg) : bool :=
  negb (T.c_comfort tc) && forallb (fun b => freeb b (T.c_ops tc)) [0; 32; 9; 13; 10]
  && negb (T.c_letter tc 32) && negb (T.c_number tc 32).

Definition is_none {A} (o : option A) : bool := match o with None => true | Some _ => false end.

Definition word_ok (tc : T.tcfg) (s : str) : bool :=
  match s with
  | [] => false
  | c :: w => TP.wordhead c && forallb TP.plainc w && negb (T.number_start tc c) && T.ident_start tc c
              && TP.chain (T.ident_valid tc) 0 (c :: w) && is_none (assoc s (T.c_textops tc))
  end.

Definition number_ok (tc : T.tcfg) (s : str) : bool :=
  match s with
  | [] => false
  | c :: w => TP.wordhead c && forallb TP.plainc w && T.number_start tc c && TP.chain (T.number_valid tc) 0 (c :: w)
  end.

Definition operator_ok (tc : T.tcfg) (s : str) : bool :=
  match s with
  | [] => false
  | c :: w => TP.headok (T.alias c) && negb (T.number_start tc (T.alias c)) && negb (T.ident_start tc (T.alias c))
              && TP.trie_alive (T.c_ops tc) s && T.end_valid (TP.trie_walk (T.c_ops tc) s)
              && forallb (fun d => T.alias d =? d) s && TP.noopen (T.c_comments tc) s [32]
  end.

Definition punct_ok (ty : ttype) (s : str) : bool :=
  match s with
  | [n] => match T.single_tok n with Some ty' => ttype_eqb ty ty' | None => false end
  | _ => false
  end.

Definition spell_tok (tc : T.tcfg) (t : tk) : bool :=
  (T.count_lf (tok_text t) =? 0) &&
  match fst t with
  | tIdent => if ascii_word (snd t)
              then word_ok tc (snd t) && negb (T.mem_str (snd t) (T.c_keywords tc))
              else negb (existsb (N.eqb 0) (snd t)) && negb (existsb (N.eqb 39) (snd t))
  | tKeyWord => word_ok tc (snd t) && T.mem_str (snd t) (T.c_keywords tc)
  | tNumber => number_ok tc (snd t)
  | tString => negb (existsb (N.eqb 0) (snd t))
  | tOperate => operator_ok tc (snd t)
  | tOpen => str_eqb (snd t) [40]
  | tClose => str_eqb (snd t) [41]
  | tEof | tInvalid => false
  | ty => punct_ok ty (snd t)
  end.

Definition spellable_toks (tc : T.tcfg) (ts : list tk) : bool := cfg_spell tc && forallb (spell_tok tc) ts.
Definition spellable (tc : T.tcfg) (pc : pcfg) (r : ft) : bool :=
  table_ok pc && spellable_toks tc (fflatten pc r).

(* ------------------------------------------------------------------ the layout of the text *)
Definition tok_items (t : tk) : list T.item := [T.ILex (tok_text t) [t]; T.ISep [T.SBlank]].
Definition layout_of (ts : list tk) : list T.item := flat_map tok_items ts.

Lemma layout_of_text : forall ts, T.layout_text (layout_of ts) = render_toks ts.
Proof.
  induction ts as [|t ts IH]; [reflexivity|].
  change (T.layout_text (layout_of (t :: ts))) with (tok_text t ++ 32 :: T.layout_text (layout_of ts)).
  rewrite IH. unfold render_toks. cbn [flat_map]. rewrite <- app_assoc. reflexivity.
Qed.

Lemma layout_of_tokens : forall ts, TP.lexeme_tokens (layout_of ts) = ts.
Proof.
  induction ts as [|t ts IH]; [reflexivity|].
  change (TP.lexeme_tokens (layout_of (t :: ts))) with (t :: TP.lexeme_tokens (layout_of ts)).
  rewrite IH. reflexivity.
Qed.

(* ------------------------------------------------------------------ what the configuration condition gives *)
Lemma freeb_free : forall b ops, freeb b ops = true -> TP.free b ops.
Proof.
  intros b ops H o Ho Hin. unfold freeb in H. rewrite forallb_forall in H. specialize (H o Ho).
  apply negb_true_iff in H.
  assert (E : existsb (N.eqb b) o = true) by (apply existsb_exists; exists b; split; [exact Hin|apply N.eqb_refl]).
  congruence.
Qed.

Record cfg_facts (tc : T.tcfg) : Prop := mkFacts {
  cf_comfort : T.c_comfort tc = false;
  cf_ok : TP.ops_ok tc;
  cf_clean : TP.ops_clean tc;
  cf_letter : T.c_letter tc 32 = false;
  cf_number : T.c_number tc 32 = false }.

Lemma cfg_spell_facts : forall tc, cfg_spell tc = true -> cfg_facts tc.
Proof.
  intros tc H. unfold cfg_spell in H.
  apply andb_true_iff in H. destruct H as [H Hn]. apply andb_true_iff in H. destruct H as [H Hl].
  apply andb_true_iff in H. destruct H as [Hc Hf]. apply negb_true_iff in Hc, Hl, Hn.
  cbn [forallb] in Hf.
  apply andb_true_iff in Hf. destruct Hf as [F0 Hf]. apply andb_true_iff in Hf. destruct Hf as [F32 Hf].
  apply andb_true_iff in Hf. destruct Hf as [F9 Hf]. apply andb_true_iff in Hf. destruct Hf as [F13 Hf].
  apply andb_true_iff in Hf. destruct Hf as [F10 _].
  apply freeb_free in F0, F32, F9, F13, F10.
  constructor; try assumption. repeat split; assumption.
Qed.

Lemma not_in_of_existsb : forall b s, negb (existsb (N.eqb b) s) = true -> ~ In b s.
Proof.
  intros b s H Hin. apply negb_true_iff in H.
  assert (E : existsb (N.eqb b) s = true) by (apply existsb_exists; exists b; split; [exact Hin|apply N.eqb_refl]).
  congruence.
Qed.

Lemma noopen_head : forall cm w a r, TP.noopen cm w (a :: r) = TP.noopen cm w [a].
Proof.
  induction w as [|c w IH]; intros a r; [reflexivity|]. cbn [TP.noopen]. rewrite IH. f_equal. f_equal.
  unfold TP.opener. destruct w; reflexivity.
Qed.

Lemma stops_ident_blank : forall tc p r, cfg_facts tc -> TP.stops tc (T.ident_valid tc) p (32 :: r).
Proof.
  intros tc p r F. apply TP.stops_rune; [discriminate|].
  change (T.alias 32) with 32. unfold T.ident_valid. rewrite (cf_letter tc F), (cf_number tc F). reflexivity.
Qed.

Lemma stops_number_blank : forall tc p r, cfg_facts tc -> TP.stops tc (T.number_valid tc) p (32 :: r).
Proof.
  intros tc p r F. apply TP.stops_rune; [discriminate|].
  change (T.alias 32) with 32. unfold T.number_valid. rewrite (cf_number tc F). cbn. rewrite !andb_false_r. reflexivity.
Qed.

(* a word: keyword or identifier, as the tables say *)
Lemma word_lexeme : forall tc lb s, cfg_facts tc -> word_ok tc s = true ->
  TP.lexeme_at tc tInvalid lb s
    [(if T.mem_str s (T.c_keywords tc) then tKeyWord else tIdent, s)] tInvalid
    (TP.stops tc (T.ident_valid tc) (last (tl s) (hd 0 s))).
Proof.
  intros tc lb s F H. destruct s as [|c w]; [discriminate|]. unfold word_ok in H.
  apply andb_true_iff in H. destruct H as [H Ha]. apply andb_true_iff in H. destruct H as [H Hc].
  apply andb_true_iff in H. destruct H as [H Hid]. apply andb_true_iff in H. destruct H as [H Hnum].
  apply andb_true_iff in H. destruct H as [Hh Hp]. apply negb_true_iff in Hnum.
  pose proof (TP.lexeme_word tc tInvalid lb c w (cf_ok tc F) Hh Hp Hnum Hid Hc) as L.
  unfold TP.word_result in L. destruct (assoc (c :: w) (T.c_textops tc)); [discriminate|].
  cbn [hd tl]. destruct (T.mem_str (c :: w) (T.c_keywords tc)); cbn [fst snd] in L; [exact L|].
  rewrite (TP.no_comfort_bookkeeping tc (cf_comfort tc F)) in L. exact L.
Qed.

Lemma punct_lexeme : forall tc ty s lb, cfg_facts tc -> punct_ok ty s = true ->
  exists C, TP.lexeme_at tc tInvalid lb s [(ty, s)] tInvalid C /\ (forall r, C (32 :: r)).
Proof.
  intros tc ty s lb F H. destruct s as [|n [|m s]]; try discriminate. unfold punct_ok in H.
  destruct (T.single_tok n) as [ty'|] eqn:E; [|discriminate].
  assert (ty = ty') by (destruct ty, ty'; try discriminate; reflexivity). subst ty'.
  exists TP.anything. split; [|intro r; exact I].
  exact (TP.lexeme_punct tc tInvalid lb n ty (cf_ok tc F) E).
Qed.

(* every spellable token followed by a blank is a lexeme denoting exactly this token *)
Lemma spell_tok_lexeme : forall tc t lb, cfg_facts tc -> spell_tok tc t = true ->
  exists C, TP.lexeme_at tc tInvalid lb (tok_text t) [t] tInvalid C /\ (forall r, C (32 :: r)).
Proof.
  intros tc [ty s] lb F H. unfold spell_tok in H. apply andb_true_iff in H. destruct H as [_ H].
  pose proof (cf_ok tc F) as Ho. pose proof (cf_comfort tc F) as Hcf.
  unfold tok_text. cbn [fst snd] in *. destruct ty; try discriminate.
  - (* identifier *)
    destruct (ascii_word s) eqn:Ea.
    + apply andb_true_iff in H. destruct H as [Hw Hk]. apply negb_true_iff in Hk.
      pose proof (word_lexeme tc lb s F Hw) as L. rewrite Hk in L.
      eexists. split; [exact L|]. intro r. apply stops_ident_blank. exact F.
    + apply andb_true_iff in H. destruct H as [H0 H39].
      apply not_in_of_existsb in H0. apply not_in_of_existsb in H39.
      pose proof (TP.lexeme_quoted tc tInvalid lb s Ho H0 H39) as L.
      rewrite (TP.no_comfort_bookkeeping tc Hcf) in L.
      exists TP.anything. split; [exact L|]. intro r. exact I.
  - (* keyword *)
    apply andb_true_iff in H. destruct H as [Hw Hk].
    pose proof (word_lexeme tc lb s F Hw) as L. rewrite Hk in L.
    eexists. split; [exact L|]. intro r. apply stops_ident_blank. exact F.
  - (* ( *)
    apply str_eqb_eq in H. subst s. exists TP.anything. split; [|intro r; exact I].
    exact (TP.lexeme_open tc tInvalid lb Ho).
  - (* ) *)
    apply str_eqb_eq in H. subst s. exists TP.anything. split; [|intro r; exact I].
    pose proof (TP.lexeme_close tc tInvalid lb Ho) as L. rewrite (TP.no_comfort_bookkeeping tc Hcf) in L. exact L.
  - apply punct_lexeme; assumption.
  - apply punct_lexeme; assumption.
  - apply punct_lexeme; assumption.
  - apply punct_lexeme; assumption.
  - apply punct_lexeme; assumption.
  - apply punct_lexeme; assumption.
  - apply punct_lexeme; assumption.
  - apply punct_lexeme; assumption.
  - (* number *)
    destruct s as [|c w]; [discriminate|]. unfold number_ok in H.
    apply andb_true_iff in H. destruct H as [H Hc]. apply andb_true_iff in H. destruct H as [H Hnum].
    apply andb_true_iff in H. destruct H as [Hh Hp].
    pose proof (TP.lexeme_number tc tInvalid lb c w Ho Hh Hp Hnum Hc) as L.
    rewrite (TP.no_comfort_bookkeeping tc Hcf) in L.
    eexists. split; [exact L|]. intro r. apply stops_number_blank. exact F.
  - (* string *)
    apply not_in_of_existsb in H. exists TP.anything. split; [|intro r; exact I].
    exact (TP.lexeme_string tc tInvalid lb s Ho H).
  - (* operator *)
    destruct s as [|c w]; [discriminate|]. unfold operator_ok in H.
    apply andb_true_iff in H. destruct H as [H Hno]. apply andb_true_iff in H. destruct H as [H Hal].
    apply andb_true_iff in H. destruct H as [H Hev]. apply andb_true_iff in H. destruct H as [H Hta].
    apply andb_true_iff in H. destruct H as [H Hid]. apply andb_true_iff in H. destruct H as [Hh Hnum].
    apply negb_true_iff in Hid, Hnum.
    pose proof (TP.lexeme_operator tc tInvalid lb c w Ho Hh Hnum Hid Hta) as L.
    unfold TP.op_tok in L. rewrite Hev in L.
    assert (Hm : map T.alias (c :: w) = c :: w).
    { clear - Hal. induction (c :: w) as [|d l IH]; [reflexivity|]. cbn [forallb map] in *.
      apply andb_true_iff in Hal. destruct Hal as [Hd Hl]. apply N.eqb_eq in Hd. rewrite Hd, IH by assumption. reflexivity. }
    rewrite Hm in L. eexists. split; [exact L|]. intro r.
    apply (TP.op_follows_sep tc (c :: w) T.SBlank r (cf_clean tc F) eq_refl eq_refl).
    change (T.sep_text T.SBlank ++ r) with (32 :: r). rewrite noopen_head. exact Hno.
Qed.

Lemma spellable_layout : forall tc ts lb, cfg_facts tc -> forallb (spell_tok tc) ts = true ->
  TP.wf_layout tc tInvalid lb (layout_of ts).
Proof.
  intros tc ts. induction ts as [|t ts IH]; intros lb F H; [constructor|].
  cbn [forallb] in H. apply andb_true_iff in H. destruct H as [Ht Hts].
  destruct (spell_tok_lexeme tc t lb F Ht) as (C & L & HC).
  change (layout_of (t :: ts)) with (T.ILex (tok_text t) [t] :: T.ISep [T.SBlank] :: layout_of ts).
  apply (TP.wf_lex tc tInvalid lb (tok_text t) [t] tInvalid C); [exact L| | |].
  - unfold spell_tok in Ht. apply andb_true_iff in Ht. destruct Ht as [Hc _]. apply N.eqb_eq in Hc. exact Hc.
  - change (T.layout_text (T.ISep [T.SBlank] :: layout_of ts)) with (32 :: T.layout_text (layout_of ts)). apply HC.
  - apply TP.wf_sep; [reflexivity|]. apply IH; assumption.
Qed.

(* the canonical text is a well-formed layout of the canonical tokens *)
Theorem render_layout : forall tc ts, spellable_toks tc ts = true ->
  TP.ops_ok tc /\ TP.wf_layout tc tInvalid false (layout_of ts) /\
  TP.lexeme_tokens (layout_of ts) = ts /\ T.layout_text (layout_of ts) = render_toks ts.
Proof.
  intros tc ts H. unfold spellable_toks in H. apply andb_true_iff in H. destruct H as [Hc Hs].
  pose proof (cfg_spell_facts tc Hc) as F.
  split; [exact (cf_ok tc F)|]. split; [apply spellable_layout; assumption|].
  split; [apply layout_of_tokens|apply layout_of_text].
Qed.

(* the canonical text tokenizes to the canonical tokens *)
Theorem render_tokenize : forall tc ts, spellable_toks tc ts = true ->
  map untok (T.tokenize tc (render_toks ts)) = ts.
Proof.
  intros tc ts H. destruct (render_layout tc ts H) as (Ho & Hw & Hl & Ht).
  rewrite <- Ht. rewrite (TP.tokenize_lex tc _ Ho). rewrite (TP.layout_correct tc _ _ _ Ho Hw).
  rewrite untok_strip, TP.strip_expect. exact Hl.
Qed.

(* text -> tokens -> AST for the canonical text of a rendering tree: no layout hypothesis, everything decidable *)
Theorem render_roundtrip : forall tc pc ids r e u,
  spellable tc pc r = true -> fwf pc r = true -> ferase pc ids r = Some (e, u) ->
  parse_tokens pc ids (T.tokenize tc (render_text pc r)) = POk e.
Proof.
  intros tc pc ids r e u H W E. unfold spellable in H. apply andb_true_iff in H. destruct H as [Ht Hs].
  destruct (render_layout tc (fflatten pc r) Hs) as (Ho & Hw & Hl & Hx).
  unfold render_text. rewrite <- Hx.
  exact (text_to_ast tc pc ids (layout_of (fflatten pc r)) r e u Ho Hw Hl Ht W E).
Qed.
