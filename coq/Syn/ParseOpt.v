(* The parser model of Syn/Parse.v WITH the optimizer calls of parser2.go (C04: containment of optimizer panics).

   GENERATED ONCE from the text of Syn/Parse.v (Section Parser) by renaming every parse function parse_x to oparse_x and
   inserting the three calls of parser2.Optimize where parser2.go has them:
     parseLet, let branch :   if p.optimizer != nil { exp = Optimize(exp, p.optimizer) }   then  exp is a *Const[V] ?
     parseLet, func branch:   if p.optimizer != nil { clo = Optimize(clo, p.optimizer) }   then  clo is a *Const[V] ?
                              (a closure folded to a constant binds the name as a constant, like a let value)
     Parse                :   if p.optimizer != nil { ast = Optimize(ast, p.optimizer) }   behind the EOF check
   Syn/Parse.v itself is unchanged (C03 and C19 depend on it); ParseOptProofs.oparse_none_same shows that without an
   optimizer this model IS Syn/Parse.v, function by function.

   The optimizer is a Section variable and may do anything an implementation of the interface
        type Optimizer interface { Optimize(AST) AST }
   can do: return some AST (OOk) or panic (OPanic) - there is no error result in the interface.  parser2.Optimize is
        func Optimize(ast AST, optimizer Optimizer) (astRet AST) {
            defer func() { if rec := recover(); rec != nil { log.Print(...); astRet = ast } }()
            ast.Optimize(optimizer)              // rewrites the children IN PLACE, bottom up
            return optimizer.Optimize(ast) }
   so after a recovered panic the caller goes on with the root it handed in, whose subtrees may already have been
   rewritten: OPanic carries that tree (any tree - the theorems quantify over it).  Whether a call site runs the
   optimizer under the recover is the Section variable `recovers` (parser2.go: all three do, `fun _ => true`); a site
   that calls the optimizer without it (opt(...) instead of Optimize(...)) lets the panic through.
   Definitions only; proofs are in Syn/ParseOptProofs.v. *)
From P2 Require Import Base.Prelude Lex.Token Syn.Ast Syn.Parse.
Local Open Scope N_scope.

Inductive ores := OOk (a : ast) | OPanic (left_behind : ast).
Inductive osite := SiteLet | SiteFunc | SiteFinal.

Section ParserOpt.
Variable cfg : pcfg.
Variable optimizer : option (ast -> ores).   (* p.optimizer; None = nil *)
Variable recovers : osite -> bool.           (* the call at this site is parser2.Optimize (with the recover) *)
Let ops := c_ops cfg.
Let nops := length ops.

Definition run_opt (s : osite) (a : ast) : pres ast :=
  match optimizer with
  | None => POk a
  | Some o =>
      match o a with
      | OOk a' => POk a'
      | OPanic a' => if recovers s then POk a' else PPanic
      end
  end.

Fixpoint oparse_let (fuel : nat) (ids : idents) (ts : list tk) {struct fuel} : pr ast :=
  match fuel with O => POOF | S f =>
    let t := peek ts in
    if is_kw t s_let then
      let ts1 := adv ts in
      let t1 := peek ts1 in let ts2 := adv ts1 in
      if negb (typ_is t1 tIdent) then PErr else
      let name := kimg t1 in
      let t2 := peek ts2 in let ts3 := adv ts2 in
      if negb (is_op t2 s_assign) then PErr else
      match oparse_expression f ids ts3 with
      | POk (exp0, u1, ts4) =>
          let t4 := peek ts4 in let ts5 := adv ts4 in
          if negb (typ_is t4 tSemicolon && str_eqb (kimg t4) s_semi) then PErr else
          (* if p.optimizer != nil { exp = Optimize(exp, p.optimizer) } *)
          match run_opt SiteLet exp0 with
          | POk exp =>
          match is_const exp with
          | Some c =>
              let layer := id_constant name c in
              match oparse_let f (layer :: ids) ts5 with
              | POk (inner, u2, ts6) => POk (inner, u1 ++ escape layer u2, ts6)
              | r => r
              end
          | None =>
              let layer := id_var name in
              match oparse_let f (layer :: ids) ts5 with
              | POk (inner, u2, ts6) => POk (ALet name exp inner, u1 ++ escape layer u2, ts6)
              | r => r
              end
          end
          | PErr => PErr | PPanic => PPanic | POOF => POOF
          end
      | r => r
      end
    else if is_kw t s_func then
      let ts1 := adv ts in
      let t1 := peek ts1 in let ts2 := adv ts1 in
      if negb (typ_is t1 tIdent) then PErr else
      let name := kimg t1 in
      let t2 := peek ts2 in let ts3 := adv ts2 in
      if negb (typ_is t2 tOpen) then PErr else
      match parse_identlist (S (length ts3)) [] ts3 with
      | POk (names, ts4) =>
          match oparse_let f (SThis name :: SArgs names :: ids) ts4 with
          | POk (exp, ub, ts5) =>
              let t5 := peek ts5 in let ts6 := adv ts5 in
              if negb (typ_is t5 tSemicolon && str_eqb (kimg t5) s_semi) then PErr else
              let recursive := mem_str name ub in
              let ua := escape (SThis name) ub in
              let clo0 := AClosure names exp (outers_of ids names ua) recursive name in
              (* if p.optimizer != nil { clo = Optimize(clo, p.optimizer) };  if c, ok := clo is a *Const[V] ... *)
              match run_opt SiteFunc clo0 with
              | POk clo =>
              match is_const clo with
              | Some c =>
                  let layer := id_constant name c in
                  match oparse_let f (layer :: ids) ts6 with
                  | POk (inner, u2, ts7) => POk (inner, escape (SArgs names) ua ++ escape layer u2, ts7)
                  | r => r
                  end
              | None =>
                  let layer := id_var name in
                  match oparse_let f (layer :: ids) ts6 with
                  | POk (inner, u2, ts7) =>
                      POk (ALet name clo inner, escape (SArgs names) ua ++ escape layer u2, ts7)
                  | r => r
                  end
              end
              | PErr => PErr | PPanic => PPanic | POOF => POOF
              end
          | r => r
          end
      | PErr => PErr | PPanic => PPanic | POOF => POOF
      end
    else oparse_expression f ids ts
  end

(* parseExpression *)
with oparse_expression (fuel : nat) (ids : idents) (ts : list tk) {struct fuel} : pr ast :=
  match fuel with O => POOF | S f =>
    if (nops =? 0)%nat then oparse_unary f ids ts else oparse_op f O ids ts
  end

(* parseOp(op): next := nextParserCall(op); operator := p.operators[op]; a := next(); loop *)
with oparse_op (fuel : nat) (op : nat) (ids : idents) (ts : list tk) {struct fuel} : pr ast :=
  match fuel with O => POOF | S f =>
    match nth_error ops op with
    | None => PPanic                                   (* p.operators[op]: index out of range *)
    | Some operator =>
        match (if (S op <? nops)%nat then oparse_op f (S op) ids ts else oparse_unary f ids ts) with
        | POk (a, u, ts1) => oparse_op_loop f op operator a u ids ts1
        | r => r
        end
    end
  end

with oparse_op_loop (fuel : nat) (op : nat) (operator : str) (a : ast) (u : list str)
                   (ids : idents) (ts : list tk) {struct fuel} : pr ast :=
  match fuel with O => POOF | S f =>
    if is_op (peek ts) operator then
      let ts1 := adv ts in
      match (if (S op <? nops)%nat then oparse_op f (S op) ids ts1 else oparse_unary f ids ts1) with
      | POk (b, u2, ts2) => oparse_op_loop f op operator (AOp operator (N.of_nat op) a b) (u ++ u2) ids ts2
      | r => r
      end
    else POk (a, u, ts)
  end

(* parseUnary *)
with oparse_unary (fuel : nat) (ids : idents) (ts : list tk) {struct fuel} : pr ast :=
  match fuel with O => POOF | S f =>
    let t := peek ts in
    if typ_is t tOperate && mem_str (kimg t) (c_unary cfg) then
      let ts1 := adv ts in
      match (match op_pos ops (kimg t) with
             | Some p => (* also a binary operator: nextParserCall(opPos) *)
                 if (S p <? nops)%nat then oparse_op f (S p) ids ts1 else oparse_unary f ids ts1
             | None => oparse_nonop f ids ts1
             end) with
      | POk (inner, u, ts2) => POk (AUn (kimg t) inner, u, ts2)
      | r => r
      end
    else oparse_nonop f ids ts
  end

(* parseNonOperator *)
with oparse_nonop (fuel : nat) (ids : idents) (ts : list tk) {struct fuel} : pr ast :=
  match fuel with O => POOF | S f =>
    match oparse_literal f ids ts with
    | POk (e, u, ts1) => oparse_postfix f e u ids ts1
    | r => r
    end
  end

with oparse_postfix (fuel : nat) (e : ast) (u : list str) (ids : idents) (ts : list tk) {struct fuel} : pr ast :=
  match fuel with O => POOF | S f =>
    match ktyp (peek ts) with
    | tDot =>
        let ts1 := adv ts in
        let t := peek ts1 in let ts2 := adv ts1 in
        if negb (typ_is t tIdent) then PErr else
        let name := kimg t in
        if negb (typ_is (peek ts2) tOpen) then oparse_postfix f (AAccess name e) u ids ts2
        else
          let ts3 := adv ts2 in
          match oparse_args f tClose ids ts3 with
          | POk (args, u2, ts4) => oparse_postfix f (AMethod name args e) (u ++ u2) ids ts4
          | PErr => PErr | PPanic => PPanic | POOF => POOF
          end
    | tOpen =>
        let ts1 := adv ts in
        match oparse_args f tClose ids ts1 with
        | POk (args, u2, ts2) => oparse_postfix f (ACall e args) (u ++ u2) ids ts2
        | PErr => PErr | PPanic => PPanic | POOF => POOF
        end
    | tOpenBracket =>
        let ts1 := adv ts in
        match oparse_expression f ids ts1 with
        | POk (idx, u2, ts2) =>
            let t := peek ts2 in let ts3 := adv ts2 in
            if negb (typ_is t tCloseBracket) then PErr
            else oparse_postfix f (AIndex idx e) (u ++ u2) ids ts3
        | r => r
        end
    | _ => POk (e, u, ts)
    end
  end

(* parseLiteral *)
with oparse_literal (fuel : nat) (ids : idents) (ts : list tk) {struct fuel} : pr ast :=
  match fuel with O => POOF | S f =>
    let t := peek ts in let ts1 := adv ts in
    match ktyp t with
    | tIdent =>
        let name := kimg t in
        if is_op (peek ts1) s_arrow then
          let ts2 := adv ts1 in
          match oparse_let f (SArgs [name] :: ids) ts2 with
          | POk (e, ub, ts3) =>
              POk (AClosure [name] e (outers_of ids [name] ub) false [], escape (SArgs [name]) ub, ts3)
          | r => r
          end
        else
          match resolve ids name with
          | Some a => POk (a, [name], ts1)
          | None => PErr
          end
    | tKeyWord =>
        let name := kimg t in
        if str_eqb name s_try then
          match oparse_let f ids ts1 with
          | POk (tryExp, u1, ts2) =>
              let t2 := peek ts2 in let ts3 := adv ts2 in
              if negb (is_kw t2 s_catch) then PErr else
              match oparse_let f ids ts3 with
              | POk (catchExp, u2, ts4) => POk (ATry tryExp catchExp, u1 ++ u2, ts4)
              | r => r
              end
          | r => r
          end
        else if str_eqb name s_if then
          match oparse_expression f ids ts1 with
          | POk (cond, u1, ts2) =>
              let t2 := peek ts2 in let ts3 := adv ts2 in
              if negb (is_kw t2 s_then) then PErr else
              match oparse_let f ids ts3 with
              | POk (thenExp, u2, ts4) =>
                  let t4 := peek ts4 in let ts5 := adv ts4 in
                  if negb (is_kw t4 s_else) then PErr else
                  match oparse_let f ids ts5 with
                  | POk (elseExp, u3, ts6) => POk (AIf cond thenExp elseExp, u1 ++ u2 ++ u3, ts6)
                  | r => r
                  end
              | r => r
              end
          | r => r
          end
        else if str_eqb name s_switch then
          match oparse_expression f ids ts1 with
          | POk (sv, u1, ts2) => oparse_switch f sv [] u1 ids ts2
          | r => r
          end
        else PErr
    | tOpenCurly => oparse_map f [] [] ids ts1
    | tOpenBracket =>
        match oparse_args f tCloseBracket ids ts1 with
        | POk (args, u, ts2) => POk (AListLit args, u, ts2)
        | PErr => PErr | PPanic => PPanic | POOF => POOF
        end
    | tNumber =>
        match c_num cfg with
        | Some np => match np (kimg t) with
                     | Some c => POk (AConst c, [], ts1)
                     | None => PErr
                     end
        | None => PErr
        end
    | tString =>
        match c_strh cfg with
        | Some sh => POk (AConst (sh (kimg t)), [], ts1)
        | None => PErr
        end
    | tOpen =>
        if typ_is (peek ts1) tIdent && typ_is (peek2 ts1) tComma then
          match parse_identlist (S (length ts1)) [] ts1 with
          | POk (names, ts2) =>
              let t2 := peek ts2 in let ts3 := adv ts2 in
              if negb (is_op t2 s_arrow) then PErr else
              match oparse_let f (SArgs names :: ids) ts3 with
              | POk (e, ub, ts4) =>
                  POk (AClosure names e (outers_of ids names ub) false [], escape (SArgs names) ub, ts4)
              | r => r
              end
          | PErr => PErr | PPanic => PPanic | POOF => POOF
          end
        else
          match oparse_expression f ids ts1 with
          | POk (e, u, ts2) =>
              let t2 := peek ts2 in let ts3 := adv ts2 in
              if negb (typ_is t2 tClose) then PErr else POk (e, u, ts3)
          | r => r
          end
    | _ => PErr
    end
  end

(* the for loop of the switch branch of parseLiteral *)
with oparse_switch (fuel : nat) (sv : ast) (cases : list (ast * ast)) (u : list str)
                  (ids : idents) (ts : list tk) {struct fuel} : pr ast :=
  match fuel with O => POOF | S f =>
    let t := peek ts in let ts1 := adv ts in
    if typ_is t tKeyWord then
      if str_eqb (kimg t) s_case then
        match oparse_expression f ids ts1 with
        | POk (cc, u1, ts2) =>
            let t2 := peek ts2 in let ts3 := adv ts2 in
            if negb (typ_is t2 tColon) then PErr else
            match oparse_let f ids ts3 with
            | POk (res, u2, ts4) => oparse_switch f sv (cases ++ [(cc, res)]) (u ++ u1 ++ u2) ids ts4
            | r => r
            end
        | r => r
        end
      else if str_eqb (kimg t) s_default then
        match oparse_let f ids ts1 with
        | POk (res, u1, ts2) => POk (ASwitch sv cases res, u ++ u1, ts2)
        | r => r
        end
      else PErr
    else PErr
  end

(* parseArgs(closeList): the opening token is already consumed *)
with oparse_args (fuel : nat) (close : ttype) (ids : idents) (ts : list tk) {struct fuel}
  : pr (list ast) :=
  match fuel with O => POOF | S f =>
    if typ_is (peek ts) close then POk ([], [], adv ts)
    else oparse_args_loop f close [] [] ids ts
  end

with oparse_args_loop (fuel : nat) (close : ttype) (acc : list ast) (u : list str)
                     (ids : idents) (ts : list tk) {struct fuel} : pr (list ast) :=
  match fuel with O => POOF | S f =>
    match oparse_let f ids ts with
    | POk (element, u1, ts1) =>
        let args := acc ++ [element] in
        let t := peek ts1 in let ts2 := adv ts1 in
        if typ_is t close then POk (args, u ++ u1, ts2)
        else if negb (typ_is t tComma) then PErr
        else if typ_is (peek ts2) close then POk (args, u ++ u1, adv ts2)
        else oparse_args_loop f close args (u ++ u1) ids ts2
    | PErr => PErr | PPanic => PPanic | POOF => POOF
    end
  end

(* parseMap: the opening brace is already consumed *)
with oparse_map (fuel : nat) (m : list (str * ast)) (u : list str) (ids : idents) (ts : list tk)
               {struct fuel} : pr ast :=
  match fuel with O => POOF | S f =>
    let t := peek ts in let ts1 := adv ts in
    match ktyp t with
    | tCloseCurly => POk (AMapLit m, u, ts1)
    | tIdent =>
        if mem_str (kimg t) (map fst m) then PErr else
        let c := peek ts1 in let ts2 := adv ts1 in
        if negb (typ_is c tColon) then PErr else
        match oparse_let f ids ts2 with
        | POk (entry, u1, ts3) =>
            let m' := m ++ [(kimg t, entry)] in
            if typ_is (peek ts3) tComma then oparse_map f m' (u ++ u1) ids (adv ts3)
            else if negb (typ_is (peek ts3) tCloseCurly) then PErr
            else oparse_map f m' (u ++ u1) ids ts3
        | r => r
        end
    | _ => PErr
    end
  end.

(* Parser.Parse after tokenizing: parseLet, then the next token must be EOF *)
Definition oparse_fuel (fuel : nat) (ids : idents) (ts : list tk) : pres ast :=
  match oparse_let fuel ids ts with
  | POk (a, _, rest) =>
      if typ_is (peek rest) tEof
      then run_opt SiteFinal a        (* if p.optimizer != nil { ast = Optimize(ast, p.optimizer) } *)
      else PErr
  | PErr => PErr | PPanic => PPanic | POOF => POOF
  end.

(* fuel that always suffices (ParseOptProofs.oparse_total): linear in the number of tokens *)

Definition oparse (ids : idents) (ts : list tk) : pres ast := oparse_fuel (fuel_for cfg ts) ids ts.

(* on the tokens of Lex/Token.v *)
Definition oparse_tokens (ids : idents) (ts : list token) : pres ast := oparse ids (map untok ts).

End ParserOpt.
