(* Syn/ParsePos.v against Syn/Parse.v (erasure: forgetting the positions gives the parser model of C03 / C04, function by
   function), and naturality in the annotation (the parser never looks at what a token carries besides type and image),
   from which: the line of a syntax error is the line of the token the position instance identifies. *)
From P2 Require Import Base.Prelude Base.PreludeProofs Lex.Token Syn.Ast Syn.Parse Syn.ParseRel Syn.ParsePos.
Require Import Lia.
Local Open Scope nat_scope.

Ltac no_inner x :=
  lazymatch x with
  | context [match _ with _ => _ end] => fail
  | context [if _ then _ else _] => fail
  | _ => idtac
  end.

(* ================================================================================================ one step of every function
   (generated from the text of Syn/ParsePos.v; each is the S-branch of the definition, by reflexivity) *)
Section Unfold.
Variable A : Type.
Variable cfg : pcfg.
Let ops := c_ops cfg.
Let nops := length ops.
Local Notation pparse_identlist := (ParsePos.pparse_identlist A).
Local Notation pparse_let := (ParsePos.pparse_let A cfg).
Local Notation pparse_expression := (ParsePos.pparse_expression A cfg).
Local Notation pparse_op := (ParsePos.pparse_op A cfg).
Local Notation pparse_op_loop := (ParsePos.pparse_op_loop A cfg).
Local Notation pparse_unary := (ParsePos.pparse_unary A cfg).
Local Notation pparse_nonop := (ParsePos.pparse_nonop A cfg).
Local Notation pparse_postfix := (ParsePos.pparse_postfix A cfg).
Local Notation pparse_literal := (ParsePos.pparse_literal A cfg).
Local Notation pparse_switch := (ParsePos.pparse_switch A cfg).
Local Notation pparse_args := (ParsePos.pparse_args A cfg).
Local Notation pparse_args_loop := (ParsePos.pparse_args_loop A cfg).
Local Notation pparse_map := (ParsePos.pparse_map A cfg).
Local Notation atk := (ParsePos.atk A).
Local Open Scope N_scope.

Lemma pparse_let_S f ids ts :
  pparse_let (S f) ids ts =
    let t := ppeek ts in
    if is_kw t s_let then
      let ts1 := padv ts in
      let t1 := ppeek ts1 in let ts2 := padv ts1 in
      if negb (typ_is t1 tIdent) then QErr (ann ts1) else
      let name := kimg t1 in
      let t2 := ppeek ts2 in let ts3 := padv ts2 in
      if negb (is_op t2 s_assign) then QErr (ann ts2) else
      match pparse_expression f ids ts3 with
      | QOk (exp, u1, ts4) =>
          let t4 := ppeek ts4 in let ts5 := padv ts4 in
          if negb (typ_is t4 tSemicolon && str_eqb (kimg t4) s_semi) then QErr (ann ts4) else
          match is_const exp with
          | Some c =>
              let layer := id_constant name c in
              match pparse_let f (layer :: ids) ts5 with
              | QOk (inner, u2, ts6) => QOk (inner, u1 ++ escape layer u2, ts6)
              | r => r
              end
          | None =>
              let layer := id_var name in
              match pparse_let f (layer :: ids) ts5 with
              | QOk (inner, u2, ts6) => QOk (ALet name exp inner, u1 ++ escape layer u2, ts6)
              | r => r
              end
          end
      | r => r
      end
    else if is_kw t s_func then
      let ts1 := padv ts in
      let t1 := ppeek ts1 in let ts2 := padv ts1 in
      if negb (typ_is t1 tIdent) then QErr (ann ts1) else
      let name := kimg t1 in
      let t2 := ppeek ts2 in let ts3 := padv ts2 in
      if negb (typ_is t2 tOpen) then QErr (ann ts2) else
      match pparse_identlist (S (length ts3)) [] ts3 with
      | QOk (names, ts4) =>
          match pparse_let f (SThis name :: SArgs names :: ids) ts4 with
          | QOk (exp, ub, ts5) =>
              let t5 := ppeek ts5 in let ts6 := padv ts5 in
              if negb (typ_is t5 tSemicolon && str_eqb (kimg t5) s_semi) then QErr (ann ts5) else
              let recursive := mem_str name ub in
              let ua := escape (SThis name) ub in
              let clo := AClosure names exp (outers_of ids names ua) recursive name in
              let layer := id_var name in
              match pparse_let f (layer :: ids) ts6 with
              | QOk (inner, u2, ts7) =>
                  QOk (ALet name clo inner, escape (SArgs names) ua ++ escape layer u2, ts7)
              | r => r
              end
          | r => r
          end
      | QErr a => QErr a | QPanic => QPanic | QOOF => QOOF
      end
    else pparse_expression f ids ts.
Proof. reflexivity. Qed.

Lemma pparse_expression_S f ids ts :
  pparse_expression (S f) ids ts =
    if (nops =? 0)%nat then pparse_unary f ids ts else pparse_op f O ids ts.
Proof. reflexivity. Qed.

Lemma pparse_op_S f op ids ts :
  pparse_op (S f) op ids ts =
    match nth_error ops op with
    | None => QPanic                                   
    | Some operator =>
        match (if (S op <? nops)%nat then pparse_op f (S op) ids ts else pparse_unary f ids ts) with
        | QOk (a, u, ts1) => pparse_op_loop f op operator a u ids ts1
        | r => r
        end
    end.
Proof. reflexivity. Qed.

Lemma pparse_op_loop_S f op operator a u ids ts :
  pparse_op_loop (S f) op operator a u ids ts =
    if is_op (ppeek ts) operator then
      let ts1 := padv ts in
      match (if (S op <? nops)%nat then pparse_op f (S op) ids ts1 else pparse_unary f ids ts1) with
      | QOk (b, u2, ts2) => pparse_op_loop f op operator (AOp operator (N.of_nat op) a b) (u ++ u2) ids ts2
      | r => r
      end
    else QOk (a, u, ts).
Proof. reflexivity. Qed.

Lemma pparse_unary_S f ids ts :
  pparse_unary (S f) ids ts =
    let t := ppeek ts in
    if typ_is t tOperate && mem_str (kimg t) (c_unary cfg) then
      let ts1 := padv ts in
      match (match op_pos ops (kimg t) with
             | Some p => 
                 if (S p <? nops)%nat then pparse_op f (S p) ids ts1 else pparse_unary f ids ts1
             | None => pparse_nonop f ids ts1
             end) with
      | QOk (inner, u, ts2) => QOk (AUn (kimg t) inner, u, ts2)
      | r => r
      end
    else pparse_nonop f ids ts.
Proof. reflexivity. Qed.

Lemma pparse_nonop_S f ids ts :
  pparse_nonop (S f) ids ts =
    match pparse_literal f ids ts with
    | QOk (e, u, ts1) => pparse_postfix f e u ids ts1
    | r => r
    end.
Proof. reflexivity. Qed.

Lemma pparse_postfix_S f e u ids ts :
  pparse_postfix (S f) e u ids ts =
    match ktyp (ppeek ts) with
    | tDot =>
        let ts1 := padv ts in
        let t := ppeek ts1 in let ts2 := padv ts1 in
        if negb (typ_is t tIdent) then QErr (ann ts1) else
        let name := kimg t in
        if negb (typ_is (ppeek ts2) tOpen) then pparse_postfix f (AAccess name e) u ids ts2
        else
          let ts3 := padv ts2 in
          match pparse_args f tClose ids ts3 with
          | QOk (args, u2, ts4) => pparse_postfix f (AMethod name args e) (u ++ u2) ids ts4
          | QErr a => QErr a | QPanic => QPanic | QOOF => QOOF
          end
    | tOpen =>
        let ts1 := padv ts in
        match pparse_args f tClose ids ts1 with
        | QOk (args, u2, ts2) => pparse_postfix f (ACall e args) (u ++ u2) ids ts2
        | QErr a => QErr a | QPanic => QPanic | QOOF => QOOF
        end
    | tOpenBracket =>
        let ts1 := padv ts in
        match pparse_expression f ids ts1 with
        | QOk (idx, u2, ts2) =>
            let t := ppeek ts2 in let ts3 := padv ts2 in
            if negb (typ_is t tCloseBracket) then QErr (ann ts2)
            else pparse_postfix f (AIndex idx e) (u ++ u2) ids ts3
        | r => r
        end
    | _ => QOk (e, u, ts)
    end.
Proof. reflexivity. Qed.

Lemma pparse_literal_S f ids ts :
  pparse_literal (S f) ids ts =
    let t := ppeek ts in let ts1 := padv ts in
    match ktyp t with
    | tIdent =>
        let name := kimg t in
        if is_op (ppeek ts1) s_arrow then
          let ts2 := padv ts1 in
          match pparse_let f (SArgs [name] :: ids) ts2 with
          | QOk (e, ub, ts3) =>
              QOk (AClosure [name] e (outers_of ids [name] ub) false [], escape (SArgs [name]) ub, ts3)
          | r => r
          end
        else
          match resolve ids name with
          | Some a => QOk (a, [name], ts1)
          | None => QErr (ann ts)
          end
    | tKeyWord =>
        let name := kimg t in
        if str_eqb name s_try then
          match pparse_let f ids ts1 with
          | QOk (tryExp, u1, ts2) =>
              let t2 := ppeek ts2 in let ts3 := padv ts2 in
              if negb (is_kw t2 s_catch) then QErr (ann ts2) else
              match pparse_let f ids ts3 with
              | QOk (catchExp, u2, ts4) => QOk (ATry tryExp catchExp, u1 ++ u2, ts4)
              | r => r
              end
          | r => r
          end
        else if str_eqb name s_if then
          match pparse_expression f ids ts1 with
          | QOk (cond, u1, ts2) =>
              let t2 := ppeek ts2 in let ts3 := padv ts2 in
              if negb (is_kw t2 s_then) then QErr (ann ts2) else
              match pparse_let f ids ts3 with
              | QOk (thenExp, u2, ts4) =>
                  let t4 := ppeek ts4 in let ts5 := padv ts4 in
                  if negb (is_kw t4 s_else) then QErr (ann ts4) else
                  match pparse_let f ids ts5 with
                  | QOk (elseExp, u3, ts6) => QOk (AIf cond thenExp elseExp, u1 ++ u2 ++ u3, ts6)
                  | r => r
                  end
              | r => r
              end
          | r => r
          end
        else if str_eqb name s_switch then
          match pparse_expression f ids ts1 with
          | QOk (sv, u1, ts2) => pparse_switch f sv [] u1 ids ts2
          | r => r
          end
        else QErr (ann ts)
    | tOpenCurly => pparse_map f [] [] ids ts1
    | tOpenBracket =>
        match pparse_args f tCloseBracket ids ts1 with
        | QOk (args, u, ts2) => QOk (AListLit args, u, ts2)
        | QErr a => QErr a | QPanic => QPanic | QOOF => QOOF
        end
    | tNumber =>
        match c_num cfg with
        | Some np => match np (kimg t) with
                     | Some c => QOk (AConst c, [], ts1)
                     | None => QErr (ann ts)
                     end
        | None => QErr (ann ts)
        end
    | tString =>
        match c_strh cfg with
        | Some sh => QOk (AConst (sh (kimg t)), [], ts1)
        | None => QErr (ann ts)
        end
    | tOpen =>
        if typ_is (ppeek ts1) tIdent && typ_is (ppeek2 ts1) tComma then
          match pparse_identlist (S (length ts1)) [] ts1 with
          | QOk (names, ts2) =>
              let t2 := ppeek ts2 in let ts3 := padv ts2 in
              if negb (is_op t2 s_arrow) then QErr (ann ts2) else
              match pparse_let f (SArgs names :: ids) ts3 with
              | QOk (e, ub, ts4) =>
                  QOk (AClosure names e (outers_of ids names ub) false [], escape (SArgs names) ub, ts4)
              | r => r
              end
          | QErr a => QErr a | QPanic => QPanic | QOOF => QOOF
          end
        else
          match pparse_expression f ids ts1 with
          | QOk (e, u, ts2) =>
              let t2 := ppeek ts2 in let ts3 := padv ts2 in
              if negb (typ_is t2 tClose) then QErr (ann ts2) else QOk (e, u, ts3)
          | r => r
          end
    | _ => QErr (ann ts)
    end.
Proof. reflexivity. Qed.

Lemma pparse_switch_S f sv cases u ids ts :
  pparse_switch (S f) sv cases u ids ts =
    let t := ppeek ts in let ts1 := padv ts in
    if typ_is t tKeyWord then
      if str_eqb (kimg t) s_case then
        match pparse_expression f ids ts1 with
        | QOk (cc, u1, ts2) =>
            let t2 := ppeek ts2 in let ts3 := padv ts2 in
            if negb (typ_is t2 tColon) then QErr (ann ts2) else
            match pparse_let f ids ts3 with
            | QOk (res, u2, ts4) => pparse_switch f sv (cases ++ [(cc, res)]) (u ++ u1 ++ u2) ids ts4
            | r => r
            end
        | r => r
        end
      else if str_eqb (kimg t) s_default then
        match pparse_let f ids ts1 with
        | QOk (res, u1, ts2) => QOk (ASwitch sv cases res, u ++ u1, ts2)
        | r => r
        end
      else QErr (ann ts)
    else QErr (ann ts).
Proof. reflexivity. Qed.

Lemma pparse_args_S f close ids ts :
  pparse_args (S f) close ids ts =
    if typ_is (ppeek ts) close then QOk ([], [], padv ts)
    else pparse_args_loop f close [] [] ids ts.
Proof. reflexivity. Qed.

Lemma pparse_args_loop_S f close acc u ids ts :
  pparse_args_loop (S f) close acc u ids ts =
    match pparse_let f ids ts with
    | QOk (element, u1, ts1) =>
        let args := acc ++ [element] in
        let t := ppeek ts1 in let ts2 := padv ts1 in
        if typ_is t close then QOk (args, u ++ u1, ts2)
        else if negb (typ_is t tComma) then QErr (ann ts1)
        else if typ_is (ppeek ts2) close then QOk (args, u ++ u1, padv ts2)
        else pparse_args_loop f close args (u ++ u1) ids ts2
    | QErr a => QErr a | QPanic => QPanic | QOOF => QOOF
    end.
Proof. reflexivity. Qed.

Lemma pparse_map_S f m u ids ts :
  pparse_map (S f) m u ids ts =
    let t := ppeek ts in let ts1 := padv ts in
    match ktyp t with
    | tCloseCurly => QOk (AMapLit m, u, ts1)
    | tIdent =>
        if mem_str (kimg t) (map fst m) then QErr (ann ts) else
        let c := ppeek ts1 in let ts2 := padv ts1 in
        if negb (typ_is c tColon) then QErr (ann ts1) else
        match pparse_let f ids ts2 with
        | QOk (entry, u1, ts3) =>
            let m' := m ++ [(kimg t, entry)] in
            if typ_is (ppeek ts3) tComma then pparse_map f m' (u ++ u1) ids (padv ts3)
            else if negb (typ_is (ppeek ts3) tCloseCurly) then QErr (ann ts3)
            else pparse_map f m' (u ++ u1) ids ts3
        | r => r
        end
    | _ => QErr (ann ts)
    end.
Proof. reflexivity. Qed.

End Unfold.

(* ================================================================================================ erasure *)
Section Erase.
Variable A : Type.
Variable cfg : pcfg.
Let ops := c_ops cfg.
Let n := length ops.

Definition erase3 {R : Type} (r : qres A (R * list str * list (atk A))) : pres (R * list str * list tk) :=
  match r with
  | QOk (x, u, ts) => POk (x, u, toks_of ts)
  | QErr _ => PErr | QPanic => PPanic | QOOF => POOF
  end.
Definition erase2 (r : qres A (list str * list (atk A))) : pres (list str * list tk) :=
  match r with
  | QOk (x, ts) => POk (x, toks_of ts)
  | QErr _ => PErr | QPanic => PPanic | QOOF => POOF
  end.

Lemma adv_toks : forall ts : list (atk A), adv (toks_of ts) = toks_of (padv ts).
Proof. intros [|t ts]; reflexivity. Qed.
Lemma length_toks : forall ts : list (atk A), length (toks_of ts) = length ts.
Proof. intros ts. apply map_length. Qed.

Lemma identlist_erase : forall f names (ts : list (atk A)),
  parse_identlist f names (toks_of ts) = erase2 (pparse_identlist A f names ts).
Proof.
  induction f as [|f IH]; intros names ts; [reflexivity|].
  cbn [parse_identlist pparse_identlist]. unfold ppeek. rewrite !adv_toks, IH.
  repeat first [ reflexivity
               | match goal with
                 | |- context [match ?x with _ => _ end] => no_inner x; destruct x eqn:?
                 | |- context [if ?x then _ else _] => no_inner x; destruct x eqn:?
                 end ].
Qed.

Record erase_at (f : nat) : Prop := {
  er_let : forall ids ts, parse_let cfg f ids (toks_of ts) = erase3 (pparse_let A cfg f ids ts);
  er_expr : forall ids ts, parse_expression cfg f ids (toks_of ts) = erase3 (pparse_expression A cfg f ids ts);
  er_op : forall k ids ts, parse_op cfg f k ids (toks_of ts) = erase3 (pparse_op A cfg f k ids ts);
  er_loop : forall k o a u ids ts, parse_op_loop cfg f k o a u ids (toks_of ts) = erase3 (pparse_op_loop A cfg f k o a u ids ts);
  er_unary : forall ids ts, parse_unary cfg f ids (toks_of ts) = erase3 (pparse_unary A cfg f ids ts);
  er_nonop : forall ids ts, parse_nonop cfg f ids (toks_of ts) = erase3 (pparse_nonop A cfg f ids ts);
  er_postfix : forall e u ids ts, parse_postfix cfg f e u ids (toks_of ts) = erase3 (pparse_postfix A cfg f e u ids ts);
  er_literal : forall ids ts, parse_literal cfg f ids (toks_of ts) = erase3 (pparse_literal A cfg f ids ts);
  er_switch : forall sv cs u ids ts, parse_switch cfg f sv cs u ids (toks_of ts) = erase3 (pparse_switch A cfg f sv cs u ids ts);
  er_args : forall c ids ts, parse_args cfg f c ids (toks_of ts) = erase3 (pparse_args A cfg f c ids ts);
  er_args_loop : forall c acc u ids ts, parse_args_loop cfg f c acc u ids (toks_of ts) = erase3 (pparse_args_loop A cfg f c acc u ids ts);
  er_map : forall m u ids ts, parse_map cfg f m u ids (toks_of ts) = erase3 (pparse_map A cfg f m u ids ts)
}.

Ltac er_rw IH :=
  rewrite ?adv_toks, ?length_toks;
  rewrite ?(er_let _ IH), ?(er_expr _ IH), ?(er_op _ IH), ?(er_loop _ IH), ?(er_unary _ IH), ?(er_nonop _ IH),
          ?(er_postfix _ IH), ?(er_literal _ IH), ?(er_switch _ IH), ?(er_args _ IH), ?(er_args_loop _ IH), ?(er_map _ IH),
          ?identlist_erase.

Ltac not_erased x :=
  lazymatch x with
  | erase3 _ => fail
  | erase2 _ => fail
  | _ => idtac
  end.

Ltac er_unf :=
  cbn [parse_let parse_expression parse_op parse_op_loop parse_unary parse_nonop parse_postfix parse_literal parse_switch
       parse_args parse_args_loop parse_map
       pparse_let pparse_expression pparse_op pparse_op_loop pparse_unary pparse_nonop pparse_postfix pparse_literal
       pparse_switch pparse_args pparse_args_loop pparse_map].

Ltac er_walk IH :=
  unfold ppeek, ppeek2, call_level, head_unary;
  repeat (er_rw IH; cbn [erase3 erase2];
          first [ reflexivity
                | match goal with
                  | |- context [match ?x with _ => _ end] => no_inner x; not_erased x; destruct x eqn:?
                  | |- context [if ?x then _ else _] => no_inner x; destruct x eqn:?
                  end ]).

Lemma erase_step f : erase_at f -> erase_at (S f).
Proof.
  intros IH. constructor.
  - intros ids ts. rewrite parse_let_S, pparse_let_S; cbv zeta. er_walk IH.
  - intros ids ts. rewrite parse_expression_S, pparse_expression_S; cbv zeta. er_walk IH.
  - intros k ids ts. rewrite parse_op_S, pparse_op_S; cbv zeta. er_walk IH.
  - intros k o a u ids ts. rewrite parse_op_loop_S, pparse_op_loop_S; cbv zeta. er_walk IH.
  - intros ids ts. rewrite parse_unary_S, pparse_unary_S; cbv zeta. er_walk IH.
  - intros ids ts. rewrite parse_nonop_S, pparse_nonop_S; cbv zeta. er_walk IH.
  - intros e u ids ts. rewrite parse_postfix_S, pparse_postfix_S; cbv zeta. er_walk IH.
  - intros ids ts. rewrite parse_literal_S, pparse_literal_S; cbv zeta. er_walk IH.
  - intros sv cs u ids ts. rewrite parse_switch_S, pparse_switch_S; cbv zeta. er_walk IH.
  - intros c ids ts. rewrite parse_args_S, pparse_args_S; cbv zeta. er_walk IH.
  - intros c acc u ids ts. rewrite parse_args_loop_S, pparse_args_loop_S; cbv zeta. er_walk IH.
  - intros m u ids ts. rewrite parse_map_S, pparse_map_S; cbv zeta. er_walk IH.
Qed.

Lemma erase_all : forall f, erase_at f.
Proof. induction f as [|f IH]; [constructor; intros; reflexivity|]. apply erase_step. exact IH. Qed.

Theorem pparse_fuel_erase : forall f ids (ts : list (atk A)),
  erase (pparse_fuel A cfg f ids ts) = parse_fuel cfg f ids (toks_of ts).
Proof.
  intros f ids ts. unfold pparse_fuel, parse_fuel. rewrite (er_let f (erase_all f)).
  destruct (pparse_let A cfg f ids ts) as [[[a u] rest]|a| |]; cbn [erase3 erase]; try reflexivity.
  unfold ppeek. destruct (typ_is (peek (toks_of rest)) tEof); reflexivity.
Qed.

Theorem pparse_erase : forall ids (ts : list (atk A)), erase (pparse A cfg ids ts) = parse cfg ids (toks_of ts).
Proof. intros ids ts. unfold pparse, parse. apply pparse_fuel_erase. Qed.

End Erase.

(* ================================================================================================ naturality
   the parser never looks at the annotation: re-annotating the tokens re-annotates the error, nothing else *)
Section Natural.
Variables A B : Type.
Variable g : A -> B.
Variable cfg : pcfg.

Definition amap (ts : list (atk A)) : list (atk B) := map (fun p => (fst p, g (snd p))) ts.

Definition qmap3 {R : Type} (r : qres A (R * list str * list (atk A))) : qres B (R * list str * list (atk B)) :=
  match r with
  | QOk (x, u, ts) => QOk (x, u, amap ts)
  | QErr a => QErr (option_map g a) | QPanic => QPanic | QOOF => QOOF
  end.
Definition qmap2 (r : qres A (list str * list (atk A))) : qres B (list str * list (atk B)) :=
  match r with
  | QOk (x, ts) => QOk (x, amap ts)
  | QErr a => QErr (option_map g a) | QPanic => QPanic | QOOF => QOOF
  end.
Definition qmap {R : Type} (r : qres A R) : qres B R :=
  match r with QOk x => QOk x | QErr a => QErr (option_map g a) | QPanic => QPanic | QOOF => QOOF end.

Lemma toks_amap : forall ts, toks_of (amap ts) = toks_of ts.
Proof. intros ts. unfold toks_of, amap. rewrite map_map. reflexivity. Qed.
Lemma padv_amap : forall ts, padv (amap ts) = amap (padv ts).
Proof. intros [|t ts]; reflexivity. Qed.
Lemma ann_amap : forall ts, ann (amap ts) = option_map g (ann ts).
Proof. intros [|[t a] ts]; reflexivity. Qed.
Lemma length_amap : forall ts, length (amap ts) = length ts.
Proof. intros ts. apply map_length. Qed.

Ltac not_mapped x :=
  lazymatch x with
  | qmap3 _ => fail
  | qmap2 _ => fail
  | _ => idtac
  end.

Lemma identlist_natural : forall f names ts,
  pparse_identlist B f names (amap ts) = qmap2 (pparse_identlist A f names ts).
Proof.
  induction f as [|f IH]; intros names ts; [reflexivity|].
  cbn [pparse_identlist]. unfold ppeek. rewrite !padv_amap, !toks_amap, !ann_amap, IH.
  repeat first [ reflexivity
               | match goal with
                 | |- context [match ?x with _ => _ end] => no_inner x; not_mapped x; destruct x eqn:?
                 | |- context [if ?x then _ else _] => no_inner x; destruct x eqn:?
                 end ].
Qed.

Record nat_at (f : nat) : Prop := {
  na_let : forall ids ts, pparse_let B cfg f ids (amap ts) = qmap3 (pparse_let A cfg f ids ts);
  na_expr : forall ids ts, pparse_expression B cfg f ids (amap ts) = qmap3 (pparse_expression A cfg f ids ts);
  na_op : forall k ids ts, pparse_op B cfg f k ids (amap ts) = qmap3 (pparse_op A cfg f k ids ts);
  na_loop : forall k o a u ids ts, pparse_op_loop B cfg f k o a u ids (amap ts) = qmap3 (pparse_op_loop A cfg f k o a u ids ts);
  na_unary : forall ids ts, pparse_unary B cfg f ids (amap ts) = qmap3 (pparse_unary A cfg f ids ts);
  na_nonop : forall ids ts, pparse_nonop B cfg f ids (amap ts) = qmap3 (pparse_nonop A cfg f ids ts);
  na_postfix : forall e u ids ts, pparse_postfix B cfg f e u ids (amap ts) = qmap3 (pparse_postfix A cfg f e u ids ts);
  na_literal : forall ids ts, pparse_literal B cfg f ids (amap ts) = qmap3 (pparse_literal A cfg f ids ts);
  na_switch : forall sv cs u ids ts, pparse_switch B cfg f sv cs u ids (amap ts) = qmap3 (pparse_switch A cfg f sv cs u ids ts);
  na_args : forall c ids ts, pparse_args B cfg f c ids (amap ts) = qmap3 (pparse_args A cfg f c ids ts);
  na_args_loop : forall c acc u ids ts, pparse_args_loop B cfg f c acc u ids (amap ts) = qmap3 (pparse_args_loop A cfg f c acc u ids ts);
  na_map : forall m u ids ts, pparse_map B cfg f m u ids (amap ts) = qmap3 (pparse_map A cfg f m u ids ts)
}.

Ltac na_rw IH :=
  rewrite ?padv_amap, ?toks_amap, ?ann_amap, ?length_amap;
  rewrite ?(na_let _ IH), ?(na_expr _ IH), ?(na_op _ IH), ?(na_loop _ IH), ?(na_unary _ IH), ?(na_nonop _ IH),
          ?(na_postfix _ IH), ?(na_literal _ IH), ?(na_switch _ IH), ?(na_args _ IH), ?(na_args_loop _ IH), ?(na_map _ IH),
          ?identlist_natural.

Ltac na_walk IH :=
  cbv zeta; unfold ppeek, ppeek2;
  repeat (na_rw IH; cbn [qmap3 qmap2];
          first [ reflexivity
                | match goal with
                  | |- context [match ?x with _ => _ end] => no_inner x; not_mapped x; destruct x eqn:?
                  | |- context [if ?x then _ else _] => no_inner x; destruct x eqn:?
                  end ]).

Lemma natural_step f : nat_at f -> nat_at (S f).
Proof.
  intros IH. constructor.
  - intros ids ts. rewrite !pparse_let_S. na_walk IH.
  - intros ids ts. rewrite !pparse_expression_S. na_walk IH.
  - intros k ids ts. rewrite !pparse_op_S. na_walk IH.
  - intros k o a u ids ts. rewrite !pparse_op_loop_S. na_walk IH.
  - intros ids ts. rewrite !pparse_unary_S. na_walk IH.
  - intros ids ts. rewrite !pparse_nonop_S. na_walk IH.
  - intros e u ids ts. rewrite !pparse_postfix_S. na_walk IH.
  - intros ids ts. rewrite !pparse_literal_S. na_walk IH.
  - intros sv cs u ids ts. rewrite !pparse_switch_S. na_walk IH.
  - intros c ids ts. rewrite !pparse_args_S. na_walk IH.
  - intros c acc u ids ts. rewrite !pparse_args_loop_S. na_walk IH.
  - intros m u ids ts. rewrite !pparse_map_S. na_walk IH.
Qed.

Lemma natural_all : forall f, nat_at f.
Proof. induction f as [|f IH]; [constructor; intros; reflexivity|]. apply natural_step. exact IH. Qed.

Theorem pparse_fuel_natural : forall f ids ts,
  pparse_fuel B cfg f ids (amap ts) = qmap (pparse_fuel A cfg f ids ts).
Proof.
  intros f ids ts. unfold pparse_fuel. rewrite (na_let f (natural_all f)).
  destruct (pparse_let A cfg f ids ts) as [[[a u] rest]|a| |]; cbn [qmap3 qmap]; try reflexivity.
  unfold ppeek. rewrite toks_amap, ann_amap. destruct (typ_is (peek (toks_of rest)) tEof); reflexivity.
Qed.

Theorem pparse_natural : forall ids ts, pparse B cfg ids (amap ts) = qmap (pparse A cfg ids ts).
Proof. intros ids ts. unfold pparse. rewrite toks_amap. apply pparse_fuel_natural. Qed.

End Natural.

(* ================================================================================================ consequences *)

(* forgetting the line: the parser model of C03 / C04 (every theorem over Syn/Parse.v transfers) *)
Lemma toks_with_line : forall ts : list token, toks_of (map with_line ts) = map untok ts.
Proof. intros ts. unfold toks_of. rewrite map_map. reflexivity. Qed.

Theorem parse_pos_erase : forall cfg ids (ts : list token),
  erase (parse_pos cfg ids ts) = parse_tokens cfg ids ts.
Proof. intros cfg ids ts. unfold parse_pos, parse_tokens. rewrite pparse_erase, toks_with_line. reflexivity. Qed.

(* the numbered tokens, re-annotated *)
Lemma amap_number_from : forall (B : Type) (g : nat -> B) (h : token -> B) (l : list token) k,
  (forall j t, nth_error l j = Some t -> g (k + j) = h t) ->
  amap nat B g (number_from k (map untok l)) = map (fun t => (untok t, h t)) l.
Proof.
  intros B g h. induction l as [|x l IH]; intros k H; [reflexivity|].
  cbn [map number_from amap fst snd]. f_equal.
  - f_equal. rewrite <- (H 0 x eq_refl). f_equal. lia.
  - apply IH. intros j t Hj. rewrite <- (H (S j) t Hj). f_equal. lia.
Qed.

Lemma amap_number_id : forall (h : nat -> nat) (l : list tk) k,
  (forall j, j < length l -> h (k + j) = k + j) -> amap nat nat h (number_from k l) = number_from k l.
Proof.
  intros h. induction l as [|x l IH]; intros k H; [reflexivity|].
  cbn [number_from amap map fst snd]. f_equal.
  - f_equal. specialize (H 0 ltac:(cbn; lia)). rewrite Nat.add_0_r in H. exact H.
  - apply IH. intros j Hj. specialize (H (S j) ltac:(cbn; lia)). rewrite <- plus_n_Sm in H. exact H.
Qed.

Definition tok_default : token := mkTok tEof [] 0%N.
Definition line_at (ts : list token) (i : nat) : N := tline (nth i ts tok_default).

(* THE tie between the two instances: the line reported is the line of the token whose position the position
   instance reports (and the AST / the outcome kind are those of the position instance) *)
Theorem parse_pos_via_idx : forall cfg ids (ts : list token),
  parse_pos cfg ids ts = qmap nat N (line_at ts) (parse_idx cfg ids (map untok ts)).
Proof.
  intros cfg ids ts. unfold parse_pos, parse_idx. rewrite <- pparse_natural. f_equal.
  symmetry. apply (amap_number_from N (line_at ts) tline ts 0).
  intros j t Hj. unfold line_at. cbn [Nat.add]. rewrite (nth_error_nth _ _ _ Hj). reflexivity.
Qed.

(* the position reported is a position of the stream (a free theorem: an out-of-range position could be renamed) *)
Theorem parse_idx_in_range : forall cfg ids (tks : list tk) i,
  parse_idx cfg ids tks = QErr (Some i) -> i < length tks.
Proof.
  intros cfg ids tks i H. unfold parse_idx in H.
  destruct (Nat.ltb i (length tks)) eqn:E; [apply Nat.ltb_lt; exact E|exfalso].
  assert (Hh : forall v, qmap nat nat (fun j => if Nat.ltb j (length tks) then j else v)
                          (pparse nat cfg ids (number_from 0 tks)) = pparse nat cfg ids (number_from 0 tks)).
  { intros v. rewrite <- pparse_natural. f_equal. apply amap_number_id.
    intros j Hj. cbn [Nat.add]. apply Nat.ltb_lt in Hj. rewrite Hj. reflexivity. }
  pose proof (Hh 0) as H0. pose proof (Hh 1) as H1. rewrite H in H0, H1. cbn [qmap option_map] in H0, H1.
  rewrite E in H0, H1. congruence.
Qed.

Theorem error_line_is_token_line_lemma : forall cfg ids (ts : list token) L,
  parse_pos cfg ids ts = QErr (Some L) ->
  exists i t, parse_idx cfg ids (map untok ts) = QErr (Some i) /\ nth_error ts i = Some t /\ tline t = L.
Proof.
  intros cfg ids ts L H. rewrite parse_pos_via_idx in H.
  destruct (parse_idx cfg ids (map untok ts)) as [a|[i|]| |] eqn:E; cbn [qmap option_map] in H; try discriminate.
  pose proof (parse_idx_in_range _ _ _ _ E) as Hi. rewrite map_length in Hi.
  destruct (nth_error ts i) as [t|] eqn:Ht; [|apply nth_error_None in Ht; lia].
  exists i, t. split; [reflexivity|]. split; [exact Ht|].
  injection H as H. unfold line_at in H. rewrite (nth_error_nth _ _ _ Ht) in H. exact H.
Qed.

(* ... and conversely: the position instance decides everything *)
Theorem error_at_token_reports_its_line : forall cfg ids (ts : list token) i,
  parse_idx cfg ids (map untok ts) = QErr (Some i) ->
  exists t, nth_error ts i = Some t /\ parse_pos cfg ids ts = QErr (Some (tline t)).
Proof.
  intros cfg ids ts i E. pose proof (parse_idx_in_range _ _ _ _ E) as Hi. rewrite map_length in Hi.
  destruct (nth_error ts i) as [t|] eqn:Ht; [|apply nth_error_None in Ht; lia].
  exists t. split; [reflexivity|]. rewrite parse_pos_via_idx, E. cbn [qmap option_map].
  unfold line_at. rewrite (nth_error_nth _ _ _ Ht). reflexivity.
Qed.

(* an error built from the pseudo token TokenEof (the input ended too early) carries no line, whatever the lines are *)
Theorem error_at_eof_has_no_line : forall cfg ids (ts : list token),
  parse_pos cfg ids ts = QErr None <-> parse_idx cfg ids (map untok ts) = QErr None.
Proof.
  intros cfg ids ts. rewrite parse_pos_via_idx.
  destruct (parse_idx cfg ids (map untok ts)) as [a|[i|]| |]; cbn [qmap option_map]; split; intros H;
    try discriminate; reflexivity.
Qed.

(* the outcome kind and the AST do not depend on the lines *)
Theorem parse_pos_ok_iff : forall cfg ids (ts : list token) a,
  parse_pos cfg ids ts = QOk a <-> parse_tokens cfg ids ts = POk a.
Proof.
  intros cfg ids ts a. rewrite <- parse_pos_erase.
  destruct (parse_pos cfg ids ts) as [x|l| |]; cbn [erase]; split; intros H; try discriminate; congruence.
Qed.
