(* Soundness of the parser model for the FULL grammar: whatever Parser.Parse accepts is, token for token, a
   well-formed rendering (Syn/Full.v) of the annotated AST it returns - no truncation, no regrouping, and the
   annotations (constant propagation, OuterIdents, Recursive, ThisName) are the ones the scope stack demands.
   By induction on the fuel, one invariant per Go function. *)
From P2 Require Import Base.Prelude Base.PreludeProofs Lex.Token Syn.Ast Syn.Parse Syn.Render Syn.ParseRel
  Syn.ParseProofs Syn.ParseTotal Syn.Full Syn.FullRel Syn.FullProofs.
Local Open Scope nat_scope.

Section FS.
Variable cfg : pcfg.
Hypothesis Htable : table_ok cfg = true.
Let ops := c_ops cfg.
Let n := length ops.
Ltac nlia := unfold n, ops in *; lia.

Notation fflatten := (Full.fflatten cfg).
Notation fflatten_args := (Full.fflatten_args cfg).
Notation fflatten_cases := (Full.fflatten_cases cfg).
Notation fflatten_entries := (Full.fflatten_entries cfg).
Notation ferase := (Full.ferase cfg).
Notation ferase_args := (Full.ferase_args cfg).
Notation ferase_cases := (Full.ferase_cases cfg).
Notation ferase_entries := (Full.ferase_entries cfg).
Notation fwf := (Full.fwf cfg).
Notation fwf_args := (Full.fwf_args cfg).
Notation fwf_cases := (Full.fwf_cases cfg).
Notation fwf_entries := (Full.fwf_entries cfg).
Notation flvl := (Full.flvl cfg).
Notation fab := (Full.fab cfg).
Notation fbase := (Full.fbase cfg).
Notation stops := (stops cfg).

(* ---------- tokens ---------- *)
Lemma full_cons t ts : full_toks (t :: ts) = true -> full_tok t = true /\ full_toks ts = true.
Proof. unfold full_toks. cbn [forallb]. intros H. apply andb_true_iff in H. exact H. Qed.

Lemma full_app a b : full_toks (a ++ b) = true -> full_toks b = true.
Proof. unfold full_toks. rewrite forallb_app. intros H. apply andb_true_iff in H. tauto. Qed.

Lemma full_adv ts : full_toks ts = true -> full_toks (adv ts) = true.
Proof. destruct ts; [auto|]. intros H. apply full_cons in H. cbn [adv]. tauto. Qed.

Lemma peek_typ ts ty : ktyp (peek ts) = ty -> ty <> tEof -> exists img ts1, ts = (ty, img) :: ts1.
Proof.
  destruct ts as [|[ty' img] ts1]; cbn [peek ktyp fst]; intros H Hn; [unfold tok_eof in H; cbn in H; congruence|].
  subst. eauto.
Qed.

Lemma peek_true ts ty : typ_is (peek ts) ty = true -> ty <> tEof -> exists img ts1, ts = (ty, img) :: ts1.
Proof. intros H. apply typ_is_eq in H. apply peek_typ. exact H. Qed.

Lemma canon ty img c : full_tok (ty, img) = true ->
  match ty with
  | tOpen => c = [40%N] | tClose => c = [41%N] | tOpenBracket => c = [91%N] | tCloseBracket => c = [93%N]
  | tOpenCurly => c = [123%N] | tCloseCurly => c = [125%N] | tDot => c = [46%N] | tComma => c = [44%N]
  | tColon => c = [58%N] | tSemicolon => c = [59%N] | tEof => False | _ => c = img
  end -> img = c.
Proof.
  unfold full_tok. cbn [ktyp kimg fst snd]. intros H E.
  destruct ty; try (symmetry; exact E); try discriminate; try contradiction; apply str_eqb_eq in H; congruence.
Qed.

Lemma close_canon c kc t : close_tok c kc -> full_tok t = true -> typ_is t c = true -> t = kc.
Proof.
  intros Hc Hf Ht. destruct t as [ty img]. apply typ_is_eq in Ht. cbn [ktyp fst] in Ht. subst ty.
  unfold full_tok in Hf. cbn [ktyp kimg fst snd] in Hf.
  destruct Hc as [[-> ->]|[-> ->]]; apply str_eqb_eq in Hf; subst; reflexivity.
Qed.

Lemma peek_is_op ts o : is_op (peek ts) o = true -> ts = k_op o :: adv ts.
Proof.
  intros H. apply is_op_eq in H. destruct ts as [|t ts1]; cbn [peek adv] in *; [discriminate|]. subst. reflexivity.
Qed.

Lemma peek_is_kw ts s : is_kw (peek ts) s = true -> ts = k_kw s :: adv ts.
Proof.
  unfold is_kw. intros H. apply andb_true_iff in H. destruct H as [H1 H2]. apply typ_is_eq in H1. apply str_eqb_eq in H2.
  destruct ts as [|[ty img] ts1]; cbn [peek adv ktyp kimg fst snd] in *; [discriminate|]. subst. reflexivity.
Qed.

Lemma flvl_le r : fwf r = true -> flvl r <= S n.
Proof.
  destruct r; cbn [Full.flvl]; intros W; try nlia. fsimpl.
  repeat (apply andb_true_iff in W; destruct W as [W ?]). apply Nat.ltb_lt in W. nlia.
Qed.

Lemma stops_all rest : stops n rest.
Proof. intros j o Ho _. exact (nth_error_lt _ _ _ Ho). Qed.

Lemma stops_fab_closed r rest : open_tail r = false -> fwf r = true -> flvl r = S n -> stops (fab r) rest.
Proof.
  intros Ho W L. destruct r; cbn [Full.fab Full.flvl open_tail] in *; try discriminate; try apply stops_all; exfalso.
  - fsimpl. repeat (apply andb_true_iff in W; destruct W as [W ?]). apply Nat.ltb_lt in W. nlia.
  - nlia.
Qed.

(* ---------- the invariants ---------- *)
Definition SndL ids (k : nat) (ts : list tk) (e : ast) (u : list str) (rest : list tk) : Prop :=
  exists r, ts = fflatten r ++ rest /\ fwf r = true /\ ferase ids r = Some (e, u) /\ k <= flvl r /\
            letform r = false /\ stops (Nat.min k (fab r)) rest /\ post_head rest = false.

Definition SndE ids (ts : list tk) (e : ast) (u : list str) (rest : list tk) : Prop :=
  exists r, ts = fflatten r ++ rest /\ fwf r = true /\ ferase ids r = Some (e, u) /\
            stops 0 rest /\ post_head rest = false.

Record fsound_at (f : nat) : Prop := {
  fs_let : forall ids ts e u rest, parse_let cfg f ids ts = POk (e, u, rest) -> full_toks ts = true ->
      SndE ids ts e u rest;
  fs_expr : forall ids ts e u rest, parse_expression cfg f ids ts = POk (e, u, rest) -> full_toks ts = true ->
      SndL ids 0 ts e u rest;
  fs_call : forall ids k ts e u rest, k <= n -> call_level cfg ids f k ts = POk (e, u, rest) -> full_toks ts = true ->
      SndL ids k ts e u rest;
  fs_loop : forall ids k o a u0 ts e u rest, nth_error ops k = Some o ->
      parse_op_loop cfg f k o a u0 ids ts = POk (e, u, rest) -> full_toks ts = true ->
      forall ra, fwf ra = true -> ferase ids ra = Some (a, u0) -> k <= flvl ra -> letform ra = false ->
      stops (Nat.min (S k) (fab ra)) ts -> post_head ts = false ->
      exists r t, ts = t ++ rest /\ fflatten r = fflatten ra ++ t /\ fwf r = true /\ ferase ids r = Some (e, u) /\
                  k <= flvl r /\ letform r = false /\ stops (Nat.min k (fab r)) rest /\ post_head rest = false;
  fs_nonop : forall ids ts e u rest, parse_nonop cfg f ids ts = POk (e, u, rest) -> full_toks ts = true ->
      SndL ids (S n) ts e u rest;
  fs_postfix : forall ids a u0 ts e u rest, parse_postfix cfg f a u0 ids ts = POk (e, u, rest) -> full_toks ts = true ->
      forall ra, fwf ra = true -> ferase ids ra = Some (a, u0) -> flvl ra = S n ->
      (fis_access ra = true -> typ_is (peek ts) tOpen = false) ->
      (open_tail ra = true -> post_head ts = false) -> stops (fab ra) ts ->
      exists r t, ts = t ++ rest /\ fflatten r = fflatten ra ++ t /\ fwf r = true /\ ferase ids r = Some (e, u) /\
                  flvl r = S n /\ stops (fab r) rest /\ post_head rest = false;
  fs_literal : forall ids ts e u rest, parse_literal cfg f ids ts = POk (e, u, rest) -> full_toks ts = true ->
      exists r, ts = fflatten r ++ rest /\ fwf r = true /\ ferase ids r = Some (e, u) /\ flvl r = S n /\
                fis_access r = false /\ (open_tail r = true -> post_head rest = false) /\ stops (fab r) rest;
  fs_args : forall ids c kc ts args u rest, close_tok c kc ->
      parse_args cfg f c ids ts = POk (args, u, rest) -> full_toks ts = true ->
      exists a, ts = fflatten_args kc a ++ rest /\ fwf_args a = true /\ ferase_args ids a = Some (args, u);
  fs_args_loop : forall ids c kc acc u0 ts args u rest, close_tok c kc ->
      parse_args_loop cfg f c acc u0 ids ts = POk (args, u, rest) -> full_toks ts = true ->
      exists a args' u', args = acc ++ args' /\ u = u0 ++ u' /\ ts = fflatten_args kc a ++ rest /\
                         fwf_args a = true /\ ferase_args ids a = Some (args', u');
  fs_switch : forall ids sv cs u0 ts e u rest, parse_switch cfg f sv cs u0 ids ts = POk (e, u, rest) ->
      full_toks ts = true ->
      exists cases d l ul ed ud, ts = fflatten_cases cases ++ k_kw s_default :: fflatten d ++ rest /\
        fwf_cases cases = true /\ fwf d = true /\ ferase_cases ids cases = Some (l, ul) /\
        ferase ids d = Some (ed, ud) /\ e = ASwitch sv (cs ++ l) ed /\ u = (u0 ++ ul) ++ ud /\
        stops 0 rest /\ post_head rest = false;
  fs_map : forall ids m u0 ts e u rest, parse_map cfg f m u0 ids ts = POk (e, u, rest) -> full_toks ts = true ->
      nodup_str (map fst m) = true ->
      exists es l ul, ts = fflatten_entries es ++ rest /\ fwf_entries es = true /\
        ferase_entries ids es = Some (l, ul) /\ e = AMapLit (m ++ l) /\ u = u0 ++ ul /\
        nodup_str (map fst m ++ entry_keys es) = true
}.

Lemma fsound_0 : fsound_at 0.
Proof.
  constructor; intros; try discriminate.
  unfold call_level in *. destruct (_ <? _); discriminate.
Qed.

Ltac inv_pr H a u ts E :=
  match type of H with
  | match ?X with _ => _ end = _ => destruct X as [[[a u] ts]| | |] eqn:E; try discriminate
  end.

Lemma ops_nodup_s : NoDup ops.
Proof. exact (ops_nodup cfg Htable). Qed.

Lemma letform_excl r k : 1 <= k -> k <= flvl r -> letform r = false.
Proof. intros H1 H2. destruct (letform r) eqn:X; [|reflexivity]. destruct (letform_flvl cfg _ X). lia. Qed.

Lemma nodup_snoc acc p : nodup_str acc = true -> mem_str p acc = false -> nodup_str (acc ++ [p]) = true.
Proof.
  induction acc as [|a acc IHa]; cbn; intros H M; [reflexivity|].
  apply andb_true_iff in H. destruct H as [H1 H2]. apply orb_false_iff in M. destruct M as [M1 M2].
  rewrite (IHa H2 M2), andb_true_r. apply negb_true_iff. rewrite mem_str_app. apply negb_true_iff in H1. rewrite H1.
  cbn. rewrite orb_false_r. rewrite str_eqb_sym. exact M1.
Qed.

Lemma identlist_sound : forall f acc ts names ts', full_toks ts = true -> nodup_str acc = true ->
  parse_identlist f acc ts = POk (names, ts') ->
  exists ps, ps <> [] /\ names = acc ++ ps /\ ts = flatten_names ps ++ ts' /\ nodup_str names = true.
Proof.
  induction f as [|f IHf]; intros acc ts names ts' F Nd H; [discriminate|]. cbn [parse_identlist] in H.
  destruct (typ_is (peek ts) tIdent) eqn:E1; [|discriminate].
  destruct (mem_str (kimg (peek ts)) acc) eqn:M; [discriminate|].
  destruct (peek_true _ _ E1 ltac:(discriminate)) as (p & ts1 & Ets). subst ts. cbn [peek adv kimg snd] in *.
  apply full_cons in F. destruct F as [_ F1].
  pose proof (nodup_snoc acc p Nd M) as Nd'.
  destruct (ktyp (peek ts1)) eqn:E2; try discriminate.
  - (* close *) inversion H; subst.
    destruct (peek_typ _ _ E2 ltac:(discriminate)) as (img & ts2 & Ets). subst ts1. cbn [adv] in *.
    apply full_cons in F1. destruct F1 as [Ft _]. rewrite (canon _ _ [41%N] Ft eq_refl).
    exists [p]. repeat split; auto. discriminate.
  - (* comma *)
    destruct (peek_typ _ _ E2 ltac:(discriminate)) as (img & ts2 & Ets). subst ts1. cbn [adv] in *.
    apply full_cons in F1. destruct F1 as [Ft F2]. rewrite (canon _ _ [44%N] Ft eq_refl).
    destruct (IHf _ _ _ _ F2 Nd' H) as (ps & Hne & En & Et & Hn).
    exists (p :: ps). repeat split; auto; [discriminate|rewrite En, <- app_assoc; reflexivity|].
    rewrite Et. destruct ps; [congruence|reflexivity].
Qed.

Section Step.
Variable f : nat.
Hypothesis IH : fsound_at f.

Lemma fstep_expr : forall ids ts e u rest, parse_expression cfg (S f) ids ts = POk (e, u, rest) ->
  full_toks ts = true -> SndL ids 0 ts e u rest.
Proof.
  intros ids ts e u rest H F. rewrite expression_is_level0 in H.
  exact (fs_call f IH ids 0 ts e u rest (Nat.le_0_l n) H F).
Qed.

Lemma fstep_loop : forall ids k o a u0 ts e u rest, nth_error ops k = Some o ->
  parse_op_loop cfg (S f) k o a u0 ids ts = POk (e, u, rest) -> full_toks ts = true ->
  forall ra, fwf ra = true -> ferase ids ra = Some (a, u0) -> k <= flvl ra -> letform ra = false ->
  stops (Nat.min (S k) (fab ra)) ts -> post_head ts = false ->
  exists r t, ts = t ++ rest /\ fflatten r = fflatten ra ++ t /\ fwf r = true /\ ferase ids r = Some (e, u) /\
              k <= flvl r /\ letform r = false /\ stops (Nat.min k (fab r)) rest /\ post_head rest = false.
Proof.
  intros ids k o a u0 ts e u rest Ho H F ra Wa Ea La Lfa Sa Pa.
  assert (Hk : k < n) by (exact (nth_error_lt _ _ _ Ho)).
  rewrite parse_op_loop_S in H. destruct (is_op (peek ts) o) eqn:Eop.
  - pose proof (peek_is_op _ _ Eop) as Ets.
    inv_pr H b u2 ts2 Ec.
    assert (F1 : full_toks (adv ts) = true) by (apply full_adv; exact F).
    destruct (fs_call f IH ids (S k) _ _ _ _ Hk Ec F1) as (rb & Etb & Wb & Eb & Lb & Lfb & Sb & Pb).
    assert (Kab : k < fab ra) by (specialize (Sa k o Ho Eop); lia).
    assert (F2 : full_toks ts2 = true) by (rewrite Etb in F1; eapply full_app; exact F1).
    destruct (fs_loop f IH ids k o _ _ _ _ _ _ Ho H F2 (FBin k ra rb)) as (r & t & Et & Fr & Wr & Er & Lr & Lfr & Sr & Pr).
    + fsimpl. fold ops. fold n.
      rewrite (proj2 (Nat.ltb_lt _ _) Hk), Wa, Wb, (proj2 (Nat.leb_le _ _) La),
        (proj2 (Nat.ltb_lt _ _) Kab), (proj2 (Nat.leb_le _ _) Lb). reflexivity.
    + fsimpl. fold ops. rewrite Ho, Ea, Eb. reflexivity.
    + cbn [Full.flvl]. lia.
    + reflexivity.
    + cbn [Full.fab]. exact Sb.
    + exact Pb.
    + exists r, (k_op o :: fflatten rb ++ t). repeat split; auto.
      * rewrite Ets, Etb, Et. cbn [app]. rewrite <- app_assoc. reflexivity.
      * rewrite Fr. fsimpl. fold ops. rewrite (nth_error_nth ops k [] Ho). rewrite <- app_assoc. reflexivity.
  - inversion H; subst. exists ra, []. rewrite app_nil_r. repeat split; auto.
    intros j o' Ho' Hop. specialize (Sa j o' Ho' Hop).
    assert (j <> k).
    { intros ->. assert (X : Some o' = Some o) by (transitivity (nth_error (c_ops cfg) k); [symmetry; exact Ho'|exact Ho]).
      inversion X; subst. rewrite Hop in Eop. discriminate. }
    lia.
Qed.

Lemma fstep_op : forall ids k ts e u rest, k < n -> parse_op cfg (S f) k ids ts = POk (e, u, rest) ->
  full_toks ts = true -> SndL ids k ts e u rest.
Proof.
  intros ids k ts e u rest Hk H F. rewrite parse_op_S in H. fold ops in H.
  destruct (nth_error ops k) as [o|] eqn:Ho; [|discriminate].
  inv_pr H a u1 ts1 Ec.
  destruct (fs_call f IH ids (S k) _ _ _ _ Hk Ec F) as (ra & Eta & Wa & Ea & La & Lfa & Sa & Pa).
  assert (F1 : full_toks ts1 = true) by (rewrite Eta in F; eapply full_app; exact F).
  destruct (fs_loop f IH ids k o _ _ _ _ _ _ Ho H F1 ra Wa Ea ltac:(lia) Lfa Sa Pa)
    as (r & t & Et & Fr & Wr & Er & Lr & Lfr & Sr & Pr).
  exists r. repeat split; auto. rewrite Eta, Et, Fr. rewrite <- app_assoc. reflexivity.
Qed.

Lemma fstep_unary : forall ids ts e u rest, parse_unary cfg (S f) ids ts = POk (e, u, rest) ->
  full_toks ts = true -> SndL ids n ts e u rest.
Proof.
  intros ids ts e u rest H F. rewrite parse_unary_S in H. fold ops in H.
  destruct (head_unary cfg ts) eqn:HU.
  - unfold head_unary in HU. apply andb_true_iff in HU. destruct HU as [HU1 HU2].
    destruct (peek_true _ _ HU1 ltac:(discriminate)) as (uimg & ts1 & Ets). subst ts.
    cbn [peek adv kimg snd] in *. apply full_cons in F. destruct F as [_ F1].
    destruct (op_pos ops uimg) as [p|] eqn:Ep.
    + rewrite (op_pos_level _ _ ops_nodup_s) in Ep.
      assert (Hp : nth_error ops p = Some uimg) by (apply level_of_some; exact Ep).
      assert (Hpn : p < n) by (exact (nth_error_lt _ _ _ Hp)).
      inv_pr H inner u1 ts2 Ec. inversion H; subst. clear H.
      destruct (fs_call f IH ids (S p) _ _ _ _ Hpn Ec F1) as (r0 & Et0 & W0 & E0 & L0 & Lf0 & S0 & P0).
      exists (FUn uimg r0). fsimpl. fold ops. rewrite Ep, E0, HU2, W0. cbn [Full.flvl Full.fab letform]. fold ops. rewrite Ep.
      repeat split; auto.
      * rewrite Et0. reflexivity.
      * cbn [andb]. apply Nat.leb_le. exact L0.
      * eapply stops_mono; [|exact S0]. fold n. lia.
    + rewrite (op_pos_level _ _ ops_nodup_s) in Ep.
      inv_pr H inner u1 ts2 Ec. inversion H; subst. clear H.
      destruct (fs_nonop f IH ids _ _ _ _ Ec F1) as (r0 & Et0 & W0 & E0 & L0 & Lf0 & S0 & P0).
      pose proof (flvl_le r0 W0) as Lle. assert (L0' : flvl r0 = S n) by nlia.
      exists (FUn uimg r0). fsimpl. fold ops. rewrite Ep, E0, HU2, W0. cbn [Full.flvl Full.fab letform]. fold ops. rewrite Ep.
      repeat split; auto.
      * rewrite Et0. reflexivity.
      * cbn [andb]. apply Nat.eqb_eq. exact L0'.
      * eapply stops_mono; [|exact S0]. pose proof (fab_le cfg r0). fold n. fold ops. nlia.
  - destruct (fs_nonop f IH ids _ _ _ _ H F) as (r0 & Et0 & W0 & E0 & L0 & Lf0 & S0 & P0).
    exists r0. repeat split; auto; try nlia.
    eapply stops_mono; [|exact S0]. pose proof (fab_le cfg r0). nlia.
Qed.

Lemma fstep_call : forall ids k ts e u rest, k <= n -> call_level cfg ids (S f) k ts = POk (e, u, rest) ->
  full_toks ts = true -> SndL ids k ts e u rest.
Proof.
  intros ids k ts e u rest Hk H F. unfold call_level in H. fold ops in H. fold n in H.
  destruct (k <? n) eqn:Ek.
  - apply Nat.ltb_lt in Ek. eapply fstep_op; eauto.
  - apply Nat.ltb_ge in Ek. assert (k = n) by lia. subst k. eapply fstep_unary; eauto.
Qed.

Lemma fstep_nonop : forall ids ts e u rest, parse_nonop cfg (S f) ids ts = POk (e, u, rest) ->
  full_toks ts = true -> SndL ids (S n) ts e u rest.
Proof.
  intros ids ts e u rest H F. rewrite parse_nonop_S in H. inv_pr H a u1 ts1 Ec.
  destruct (fs_literal f IH ids _ _ _ _ Ec F) as (r0 & Et0 & W0 & E0 & L0 & A0 & O0 & S0).
  assert (F1 : full_toks ts1 = true) by (rewrite Et0 in F; eapply full_app; exact F).
  destruct (fs_postfix f IH ids _ _ _ _ _ _ H F1 r0 W0 E0 L0) as (r & t & Et & Fr & Wr & Er & Lr & Sr & Pr).
  - intros Hx. congruence.
  - exact O0.
  - exact S0.
  - exists r. repeat split; auto.
    + rewrite Et0, Et, Fr, <- app_assoc. reflexivity.
    + lia.
    + eapply letform_excl; [|rewrite Lr; apply Nat.le_refl]. lia.
    + eapply stops_mono; [|exact Sr]. pose proof (fab_le cfg r). nlia.
Qed.

Lemma fbase_of r : flvl r = S n -> open_tail r = false -> fbase r = true.
Proof. intros L O. unfold Full.fbase. rewrite L, O, Nat.eqb_refl. reflexivity. Qed.

Lemma fstep_postfix : forall ids a u0 ts e u rest, parse_postfix cfg (S f) a u0 ids ts = POk (e, u, rest) ->
  full_toks ts = true ->
  forall ra, fwf ra = true -> ferase ids ra = Some (a, u0) -> flvl ra = S n ->
  (fis_access ra = true -> typ_is (peek ts) tOpen = false) ->
  (open_tail ra = true -> post_head ts = false) -> stops (fab ra) ts ->
  exists r t, ts = t ++ rest /\ fflatten r = fflatten ra ++ t /\ fwf r = true /\ ferase ids r = Some (e, u) /\
              flvl r = S n /\ stops (fab r) rest /\ post_head rest = false.
Proof.
  intros ids a u0 ts e u rest H F ra Wa Ea La Aa Oa Sa. rewrite parse_postfix_S in H.
  assert (Closed : post_head ts = true -> fbase ra = true).
  { intros P. apply fbase_of; [exact La|]. destruct (open_tail ra); [|reflexivity]. rewrite (Oa eq_refl) in P. discriminate. }
  destruct (ktyp (peek ts)) eqn:Ety;
    try (inversion H; subst; exists ra, []; rewrite app_nil_r; repeat split; auto;
         unfold post_head; rewrite Ety; reflexivity).
  - (* tOpen: call *)
    assert (Bs : fbase ra = true) by (apply Closed; unfold post_head; rewrite Ety; reflexivity).
    destruct (peek_typ _ _ Ety ltac:(discriminate)) as (img & ts1 & Ets). subst ts. cbn [adv peek] in *.
    apply full_cons in F. destruct F as [Ft F1].
    rewrite (canon _ _ [40%N] Ft eq_refl) in *.
    destruct (parse_args cfg f tClose ids ts1) as [[[args u2] ts2]| | |] eqn:Ec; try discriminate.
    destruct (fs_args f IH ids tClose k_close _ _ _ _ ltac:(left; auto) Ec F1) as (a0 & Et0 & W0 & E0).
    assert (F2 : full_toks ts2 = true) by (rewrite Et0 in F1; eapply full_app; exact F1).
    assert (Na : fis_access ra = false).
    { destruct (fis_access ra); [|reflexivity]. specialize (Aa eq_refl). discriminate. }
    destruct (fs_postfix f IH ids _ _ _ _ _ _ H F2 (FCall ra a0)) as (r & t & Et & Fr & Wr & Er & Lr & Sr & Pr).
    + fsimpl. rewrite Wa, Bs, Na, W0. reflexivity.
    + fsimpl. rewrite Ea, E0. reflexivity.
    + reflexivity.
    + intros Hx. discriminate.
    + intros Hx. discriminate.
    + apply stops_all.
    + exists r, (k_open :: fflatten_args k_close a0 ++ t). repeat split; auto.
      * rewrite Et0, Et. cbn [app]. rewrite <- app_assoc. reflexivity.
      * rewrite Fr. fsimpl. rewrite <- app_assoc. reflexivity.
  - (* tOpenBracket: index *)
    assert (Bs : fbase ra = true) by (apply Closed; unfold post_head; rewrite Ety; reflexivity).
    destruct (peek_typ _ _ Ety ltac:(discriminate)) as (img & ts1 & Ets). subst ts. cbn [adv peek] in *.
    apply full_cons in F. destruct F as [Ft F1].
    rewrite (canon _ _ [91%N] Ft eq_refl) in *.
    inv_pr H idx u2 ts2 Ec.
    destruct (fs_expr f IH ids _ _ _ _ Ec F1) as (ri & Eti & Wi & Ei & _ & Lfi & _ & _).
    assert (F2 : full_toks ts2 = true) by (rewrite Eti in F1; eapply full_app; exact F1).
    destruct (typ_is (peek ts2) tCloseBracket) eqn:Ecb; cbn [negb] in H; [|discriminate].
    destruct (peek_true _ _ Ecb ltac:(discriminate)) as (img2 & ts3 & Ets2). subst ts2. cbn [adv] in *.
    apply full_cons in F2. destruct F2 as [Ft2 F3].
    rewrite (canon _ _ [93%N] Ft2 eq_refl) in *.
    destruct (fs_postfix f IH ids _ _ _ _ _ _ H F3 (FIndex ra ri)) as (r & t & Et & Fr & Wr & Er & Lr & Sr & Pr).
    + fsimpl. rewrite Wa, Bs, Wi, Lfi. reflexivity.
    + fsimpl. rewrite Ea, Ei. reflexivity.
    + reflexivity.
    + intros Hx. discriminate.
    + intros Hx. discriminate.
    + apply stops_all.
    + exists r, (k_obr :: fflatten ri ++ k_cbr :: t). repeat split; auto.
      * rewrite Eti, Et. cbn [app]. rewrite <- app_assoc. reflexivity.
      * rewrite Fr. fsimpl. rewrite <- app_assoc. cbn [app]. rewrite <- app_assoc. reflexivity.
  - (* tDot: member access or method call *)
    assert (Bs : fbase ra = true) by (apply Closed; unfold post_head; rewrite Ety; reflexivity).
    destruct (peek_typ _ _ Ety ltac:(discriminate)) as (img & ts1 & Ets). subst ts. cbn [adv peek] in *.
    apply full_cons in F. destruct F as [Ft F1].
    rewrite (canon _ _ [46%N] Ft eq_refl) in *.
    destruct (typ_is (peek ts1) tIdent) eqn:Eid; cbn [negb] in H; [|discriminate].
    destruct (peek_true _ _ Eid ltac:(discriminate)) as (x & ts2 & Ets1). subst ts1. cbn [adv peek kimg snd] in *.
    apply full_cons in F1. destruct F1 as [_ F2].
    destruct (typ_is (peek ts2) tOpen) eqn:Eop; cbn [negb] in H.
    + destruct (peek_true _ _ Eop ltac:(discriminate)) as (img3 & ts3 & Ets2). subst ts2. cbn [adv] in *.
      apply full_cons in F2. destruct F2 as [Ft3 F3].
      rewrite (canon _ _ [40%N] Ft3 eq_refl) in *.
      destruct (parse_args cfg f tClose ids ts3) as [[[args u2] ts4]| | |] eqn:Ec; try discriminate.
      destruct (fs_args f IH ids tClose k_close _ _ _ _ ltac:(left; auto) Ec F3) as (a0 & Et0 & W0 & E0).
      assert (F4 : full_toks ts4 = true) by (rewrite Et0 in F3; eapply full_app; exact F3).
      destruct (fs_postfix f IH ids _ _ _ _ _ _ H F4 (FMethod ra x a0)) as (r & t & Et & Fr & Wr & Er & Lr & Sr & Pr).
      * fsimpl. rewrite Wa, Bs, W0. reflexivity.
      * fsimpl. rewrite Ea, E0. reflexivity.
      * reflexivity.
      * intros Hx. discriminate.
      * intros Hx. discriminate.
      * apply stops_all.
      * exists r, (k_dot :: k_ident x :: k_open :: fflatten_args k_close a0 ++ t). repeat split; auto.
        -- rewrite Et0, Et. cbn [app]. rewrite <- app_assoc. reflexivity.
        -- rewrite Fr. fsimpl. rewrite <- app_assoc. reflexivity.
    + destruct (fs_postfix f IH ids _ _ _ _ _ _ H F2 (FAccess ra x)) as (r & t & Et & Fr & Wr & Er & Lr & Sr & Pr).
      * fsimpl. rewrite Wa, Bs. reflexivity.
      * fsimpl. rewrite Ea. reflexivity.
      * reflexivity.
      * intros _. exact Eop.
      * intros Hx. discriminate.
      * apply stops_all.
      * exists r, (k_dot :: k_ident x :: t). repeat split; auto.
        -- rewrite Et. reflexivity.
        -- rewrite Fr. fsimpl. rewrite <- app_assoc. reflexivity.
Qed.

Lemma fstep_args : forall ids c kc ts args u rest, close_tok c kc ->
  parse_args cfg (S f) c ids ts = POk (args, u, rest) -> full_toks ts = true ->
  exists a, ts = fflatten_args kc a ++ rest /\ fwf_args a = true /\ ferase_args ids a = Some (args, u).
Proof.
  intros ids c kc ts args u rest Hc H F. rewrite parse_args_S in H.
  destruct (typ_is (peek ts) c) eqn:Ec.
  - inversion H; subst.
    assert (Hne : c <> tEof) by (destruct Hc as [[-> _]|[-> _]]; discriminate).
    destruct (peek_true _ _ Ec Hne) as (img & ts1 & Ets). subst ts. cbn [adv peek] in *.
    apply full_cons in F. destruct F as [Ft _].
    rewrite (close_canon c kc _ Hc Ft Ec). exists FA_nil. fsimpl. repeat split; auto.
  - destruct (fs_args_loop f IH ids c kc _ _ _ _ _ _ Hc H F) as (a & args' & u' & Ea & Eu & Et & Wa & Era).
    exists a. cbn [app] in Ea, Eu. subst args' u'. repeat split; auto.
Qed.

Lemma fstep_args_loop : forall ids c kc acc u0 ts args u rest, close_tok c kc ->
  parse_args_loop cfg (S f) c acc u0 ids ts = POk (args, u, rest) -> full_toks ts = true ->
  exists a args' u', args = acc ++ args' /\ u = u0 ++ u' /\ ts = fflatten_args kc a ++ rest /\
                     fwf_args a = true /\ ferase_args ids a = Some (args', u').
Proof.
  intros ids c kc acc u0 ts args u rest Hc H F. rewrite parse_args_loop_S in H.
  assert (Hne : c <> tEof) by (destruct Hc as [[-> _]|[-> _]]; discriminate).
  destruct (parse_let cfg f ids ts) as [[[el u1] ts1]| | |] eqn:El; try discriminate.
  destruct (fs_let f IH ids _ _ _ _ El F) as (r0 & Et0 & W0 & E0 & _ & _).
  assert (F1 : full_toks ts1 = true) by (rewrite Et0 in F; eapply full_app; exact F).
  destruct (typ_is (peek ts1) c) eqn:Ec.
  - inversion H; subst.
    destruct (peek_true _ _ Ec Hne) as (img & ts2 & Ets). subst ts1. cbn [adv peek] in *.
    apply full_cons in F1. destruct F1 as [Ft _].
    rewrite (close_canon c kc _ Hc Ft Ec). exists (FA_last r0), [el], u1. fsimpl. rewrite E0.
    repeat split; auto. rewrite <- app_assoc. reflexivity.
  - destruct (typ_is (peek ts1) tComma) eqn:Ecm; cbn [negb] in H; [|discriminate].
    destruct (peek_true _ _ Ecm ltac:(discriminate)) as (img & ts2 & Ets). subst ts1. cbn [adv peek] in *.
    apply full_cons in F1. destruct F1 as [Ft F2].
    rewrite (canon _ _ [44%N] Ft eq_refl) in *.
    destruct (typ_is (peek ts2) c) eqn:Ec2.
    + inversion H; subst.
      destruct (peek_true _ _ Ec2 Hne) as (img3 & ts3 & Ets3). subst ts2. cbn [adv peek] in *.
      apply full_cons in F2. destruct F2 as [Ft3 _].
      rewrite (close_canon c kc _ Hc Ft3 Ec2). exists (FA_cons r0 FA_nil), [el], u1. fsimpl. rewrite E0, W0.
      repeat split; auto; [rewrite <- app_assoc; reflexivity|rewrite app_nil_r; reflexivity].
    + destruct (fs_args_loop f IH ids c kc _ _ _ _ _ _ Hc H F2) as (a & args' & u' & Ea & Eu & Et & Wa & Era).
      exists (FA_cons r0 a), (el :: args'), (u1 ++ u'). fsimpl. rewrite E0, Era, W0, Wa. repeat split; auto.
      * rewrite Ea, <- app_assoc. reflexivity.
      * rewrite Eu, <- app_assoc. reflexivity.
      * rewrite Et0. rewrite Et at 1. rewrite <- app_assoc. reflexivity.
Qed.

Ltac kw_tok Hk ts :=
  let E := fresh "Ekw" in pose proof (peek_is_kw _ _ Hk) as E.

Lemma fstep_literal : forall ids ts e u rest, parse_literal cfg (S f) ids ts = POk (e, u, rest) ->
  full_toks ts = true ->
  exists r, ts = fflatten r ++ rest /\ fwf r = true /\ ferase ids r = Some (e, u) /\ flvl r = S n /\
            fis_access r = false /\ (open_tail r = true -> post_head rest = false) /\ stops (fab r) rest.
Proof.
  intros ids ts e u rest H F. rewrite parse_literal_S in H.
  destruct ts as [|[ty img] ts1]; [cbn in H; discriminate|].
  cbn [peek adv ktyp kimg fst snd] in H. apply full_cons in F. destruct F as [Ft F1].
  destruct ty; try discriminate.
  - (* tIdent *)
    destruct (is_op (peek ts1) s_arrow) eqn:Ear.
    + pose proof (peek_is_op _ _ Ear) as Ets. inv_pr H eb ub ts3 Ec. injection H as He Hu Hr; subst e u rest.
      assert (F2 : full_toks (adv ts1) = true) by (apply full_adv; exact F1).
      destruct (fs_let f IH _ _ _ _ _ Ec F2) as (r0 & Et0 & W0 & E0 & S0 & P0).
      exists (FClo1 img r0). fsimpl. rewrite E0. repeat split; auto.
      rewrite Ets, Et0. reflexivity.
    + destruct (resolve ids img) as [a|] eqn:Er; [|discriminate]. injection H as He Hu Hr; subst e u rest.
      exists (FIdent img). fsimpl. rewrite Er. repeat split; auto; [discriminate|apply stops_all].
  - (* tKeyWord *)
    destruct (str_eqb img s_try) eqn:Etry.
    { apply str_eqb_eq in Etry. subst img.
      inv_pr H et u1 ts2 Ec1.
      destruct (fs_let f IH _ _ _ _ _ Ec1 F1) as (r1 & Et1 & W1 & E1 & _ & _).
      assert (F2 : full_toks ts2 = true) by (rewrite Et1 in F1; eapply full_app; exact F1).
      destruct (is_kw (peek ts2) s_catch) eqn:Ek; cbn [negb] in H; [|discriminate].
      pose proof (peek_is_kw _ _ Ek) as Ets2.
      inv_pr H ec u2 ts4 Ec2. injection H as He Hu Hr; subst e u rest.
      destruct (fs_let f IH _ _ _ _ _ Ec2 (full_adv _ F2)) as (r2 & Et2 & W2 & E2 & S2 & P2).
      exists (FTry r1 r2). fsimpl. rewrite E1, E2, W1, W2. repeat split; auto.
      rewrite Et1, Ets2, Et2. cbn [app]. repeat (rewrite <- app_assoc; cbn [app]). reflexivity. }
    destruct (str_eqb img s_if) eqn:Eif.
    { apply str_eqb_eq in Eif. subst img.
      inv_pr H ec u1 ts2 Ec1.
      destruct (fs_expr f IH _ _ _ _ _ Ec1 F1) as (rc & Etc & Wc & Ecc & _ & Lfc & _ & _).
      assert (F2 : full_toks ts2 = true) by (rewrite Etc in F1; eapply full_app; exact F1).
      destruct (is_kw (peek ts2) s_then) eqn:Ek; cbn [negb] in H; [|discriminate].
      pose proof (peek_is_kw _ _ Ek) as Ets2.
      inv_pr H et u2 ts4 Ec2.
      destruct (fs_let f IH _ _ _ _ _ Ec2 (full_adv _ F2)) as (rt & Ett & Wt & Et' & _ & _).
      assert (F4 : full_toks ts4 = true) by (pose proof (full_adv _ F2) as X; rewrite Ett in X; eapply full_app; exact X).
      destruct (is_kw (peek ts4) s_else) eqn:Ek2; cbn [negb] in H; [|discriminate].
      pose proof (peek_is_kw _ _ Ek2) as Ets4.
      inv_pr H ee u3 ts6 Ec3. injection H as He Hu Hr; subst e u rest.
      destruct (fs_let f IH _ _ _ _ _ Ec3 (full_adv _ F4)) as (re & Ete & We & Ee' & S3 & P3).
      exists (FIf rc rt re). fsimpl. rewrite Ecc, Et', Ee', Wc, Wt, We, Lfc. repeat split; auto.
      rewrite Etc, Ets2, Ett, Ets4, Ete. cbn [app]. repeat (rewrite <- app_assoc; cbn [app]). reflexivity. }
    destruct (str_eqb img s_switch) eqn:Esw; [|discriminate].
    apply str_eqb_eq in Esw. subst img.
    inv_pr H sv u1 ts2 Ec1.
    destruct (fs_expr f IH _ _ _ _ _ Ec1 F1) as (rv & Etv & Wv & Ev & _ & Lfv & _ & _).
    assert (F2 : full_toks ts2 = true) by (rewrite Etv in F1; eapply full_app; exact F1).
    destruct (fs_switch f IH _ _ _ _ _ _ _ _ H F2) as (cases & d & l & ul & ed & ud & Et & Wcs & Wd & Ecs & Ed & Ee & Eu & S3 & P3).
    subst e u. exists (FSwitch rv cases d). fsimpl. rewrite Ev, Ecs, Ed, Wv, Wcs, Wd, Lfv. repeat split; auto.
    rewrite Etv, Et. cbn [app]. repeat (rewrite <- app_assoc; cbn [app]). reflexivity.
  - (* tOpen *)
    rewrite (canon _ _ [40%N] Ft eq_refl) in *.
    destruct (typ_is (peek ts1) tIdent && typ_is (peek2 ts1) tComma) eqn:Ecl.
    + destruct (parse_identlist (S (length ts1)) [] ts1) as [[names ts2]| | |] eqn:Eil; try discriminate.
      destruct (identlist_sound _ [] _ _ _ F1 eq_refl Eil) as (ps & Hne & En & Et & Hnd). cbn [app] in En. subst names.
      assert (F2 : full_toks ts2 = true) by (rewrite Et in F1; eapply full_app; exact F1).
      destruct (is_op (peek ts2) s_arrow) eqn:Ear; cbn [negb] in H; [|discriminate].
      pose proof (peek_is_op _ _ Ear) as Ets2.
      inv_pr H eb ub ts4 Ec. injection H as He Hu Hr; subst e u rest.
      destruct (fs_let f IH _ _ _ _ _ Ec (full_adv _ F2)) as (r0 & Et0 & W0 & E0 & S0 & P0).
      assert (Hlen : 2 <= length ps).
      { destruct ps as [|p1 [|p2 ps]]; [congruence| |cbn; lia].
        exfalso. rewrite Et in Ecl. cbn in Ecl. discriminate. }
      exists (FCloN ps r0). fsimpl. rewrite E0, W0, Hnd, (proj2 (Nat.leb_le _ _) Hlen). repeat split; auto.
      rewrite Et, Ets2, Et0. cbn [app]. repeat (rewrite <- app_assoc; cbn [app]). reflexivity.
    + inv_pr H e0 u0 ts2 Ec.
      destruct (fs_expr f IH _ _ _ _ _ Ec F1) as (r0 & Et0 & W0 & E0 & _ & Lf0 & _ & _).
      assert (F2 : full_toks ts2 = true) by (rewrite Et0 in F1; eapply full_app; exact F1).
      destruct (typ_is (peek ts2) tClose) eqn:Ecp; cbn [negb] in H; [|discriminate].
      destruct (peek_true _ _ Ecp ltac:(discriminate)) as (img2 & ts3 & Ets2). subst ts2. cbn [adv] in *.
      apply full_cons in F2. destruct F2 as [Ft2 _].
      rewrite (canon _ _ [41%N] Ft2 eq_refl) in *.
      injection H as He Hu Hr; subst e u rest. exists (FParen r0). fsimpl. rewrite W0, Lf0. repeat split; auto; [|discriminate|apply stops_all].
      rewrite Et0. cbn [app]. rewrite <- app_assoc. reflexivity.
  - (* tOpenBracket *)
    rewrite (canon _ _ [91%N] Ft eq_refl) in *.
    destruct (parse_args cfg f tCloseBracket ids ts1) as [[[args u2] ts2]| | |] eqn:Ec; try discriminate.
    destruct (fs_args f IH ids tCloseBracket k_cbr _ _ _ _ ltac:(right; auto) Ec F1) as (a0 & Et0 & W0 & E0).
    injection H as He Hu Hr; subst e u rest. exists (FList a0). fsimpl. rewrite E0. repeat split; auto; [rewrite Et0; reflexivity|discriminate|apply stops_all].
  - (* tOpenCurly *)
    rewrite (canon _ _ [123%N] Ft eq_refl) in *.
    destruct (fs_map f IH _ _ _ _ _ _ _ H F1 eq_refl) as (es & l & ul & Et & Wes & Ees & Ee & Eu & Hnd).
    cbn [app map] in Ee, Eu, Hnd. subst e u.
    exists (FMap es). fsimpl. rewrite Ees, Wes, Hnd. repeat split; auto; [rewrite Et; reflexivity|discriminate|apply stops_all].
  - (* tNumber *)
    destruct (c_num cfg) as [np|] eqn:Enp; [|discriminate].
    destruct (np img) as [c|] eqn:Ec; [|discriminate]. injection H as He Hu Hr; subst e u rest.
    exists (FNum img). fsimpl. rewrite Enp, Ec. repeat split; auto; [discriminate|apply stops_all].
  - (* tString *)
    destruct (c_strh cfg) as [sh|] eqn:Esh; [|discriminate]. injection H as He Hu Hr; subst e u rest.
    exists (FStr img). fsimpl. rewrite Esh. repeat split; auto; [discriminate|apply stops_all].
Qed.

Lemma fstep_switch : forall ids sv cs u0 ts e u rest, parse_switch cfg (S f) sv cs u0 ids ts = POk (e, u, rest) ->
  full_toks ts = true ->
  exists cases d l ul ed ud, ts = fflatten_cases cases ++ k_kw s_default :: fflatten d ++ rest /\
    fwf_cases cases = true /\ fwf d = true /\ ferase_cases ids cases = Some (l, ul) /\
    ferase ids d = Some (ed, ud) /\ e = ASwitch sv (cs ++ l) ed /\ u = (u0 ++ ul) ++ ud /\
    stops 0 rest /\ post_head rest = false.
Proof.
  intros ids sv cs u0 ts e u rest H F. rewrite parse_switch_S in H.
  destruct (typ_is (peek ts) tKeyWord) eqn:Ek; [|discriminate].
  destruct (peek_true _ _ Ek ltac:(discriminate)) as (img & ts1 & Ets). subst ts. cbn [peek adv kimg snd] in *.
  apply full_cons in F. destruct F as [_ F1].
  destruct (str_eqb img s_case) eqn:Ecase.
  - apply str_eqb_eq in Ecase. subst img.
    inv_pr H cc u1 ts2 Ec1.
    destruct (fs_expr f IH _ _ _ _ _ Ec1 F1) as (rc & Etc & Wc & Ecc & _ & Lfc & _ & _).
    assert (F2 : full_toks ts2 = true) by (rewrite Etc in F1; eapply full_app; exact F1).
    destruct (typ_is (peek ts2) tColon) eqn:Ecol; cbn [negb] in H; [|discriminate].
    destruct (peek_true _ _ Ecol ltac:(discriminate)) as (img2 & ts3 & Ets2). subst ts2. cbn [adv] in *.
    apply full_cons in F2. destruct F2 as [Ft2 F3]. rewrite (canon _ _ [58%N] Ft2 eq_refl) in *.
    inv_pr H res u2 ts4 Ec2.
    destruct (fs_let f IH _ _ _ _ _ Ec2 F3) as (rr & Etr & Wr & Er & _ & _).
    assert (F4 : full_toks ts4 = true) by (rewrite Etr in F3; eapply full_app; exact F3).
    destruct (fs_switch f IH _ _ _ _ _ _ _ _ H F4) as (cases & d & l & ul & ed & ud & Et & Wcs & Wd & Ecs & Ed & Ee & Eu & S3 & P3).
    exists (FC_cons rc rr cases), d, ((cc, res) :: l), ((u1 ++ u2) ++ ul), ed, ud. fsimpl.
    rewrite Ecc, Er, Ecs, Wc, Wr, Wcs, Lfc. repeat split; auto.
    + rewrite Etc, Etr, Et. cbn [app]. repeat (rewrite <- app_assoc; cbn [app]). reflexivity.
    + rewrite Ee, <- app_assoc. reflexivity.
    + rewrite Eu. repeat rewrite <- app_assoc. reflexivity.
  - destruct (str_eqb img s_default) eqn:Edef; [|discriminate]. apply str_eqb_eq in Edef. subst img.
    inv_pr H res u1 ts2 Ec1. injection H as He Hu Hr; subst e u rest.
    destruct (fs_let f IH _ _ _ _ _ Ec1 F1) as (rd & Etd & Wd & Ed & S3 & P3).
    exists FC_nil, rd, [], [], res, u1. fsimpl. rewrite !app_nil_r. repeat split; auto.
    rewrite Etd. reflexivity.
Qed.

Lemma entries_close es rest ts : ts = fflatten_entries es ++ rest -> ktyp (peek ts) = tCloseCurly -> es = FE_nil.
Proof. intros E K. destruct es; [reflexivity| |]; fsimpl; subst ts; cbn in K; discriminate. Qed.

Lemma fstep_map : forall ids m u0 ts e u rest, parse_map cfg (S f) m u0 ids ts = POk (e, u, rest) ->
  full_toks ts = true -> nodup_str (map fst m) = true ->
  exists es l ul, ts = fflatten_entries es ++ rest /\ fwf_entries es = true /\
    ferase_entries ids es = Some (l, ul) /\ e = AMapLit (m ++ l) /\ u = u0 ++ ul /\
    nodup_str (map fst m ++ entry_keys es) = true.
Proof.
  intros ids m u0 ts e u rest H F Nd. rewrite parse_map_S in H.
  destruct (ktyp (peek ts)) eqn:Ety; try discriminate.
  - (* tIdent *)
    destruct (peek_typ _ _ Ety ltac:(discriminate)) as (k & ts1 & Ets). subst ts. cbn [peek adv kimg snd] in *.
    apply full_cons in F. destruct F as [_ F1].
    destruct (mem_str k (map fst m)) eqn:Mk; [discriminate|].
    destruct (typ_is (peek ts1) tColon) eqn:Ecol; cbn [negb] in H; [|discriminate].
    destruct (peek_true _ _ Ecol ltac:(discriminate)) as (img2 & ts2 & Ets1). subst ts1. cbn [adv] in *.
    apply full_cons in F1. destruct F1 as [Ft1 F2]. rewrite (canon _ _ [58%N] Ft1 eq_refl) in *.
    inv_pr H entry u1 ts3 Ec.
    destruct (fs_let f IH _ _ _ _ _ Ec F2) as (rv & Etv & Wv & Ev & _ & _).
    assert (F3 : full_toks ts3 = true) by (rewrite Etv in F2; eapply full_app; exact F2).
    assert (Nd' : nodup_str (map fst (m ++ [(k, entry)])) = true).
    { rewrite map_app. cbn [map fst]. apply nodup_snoc; assumption. }
    destruct (typ_is (peek ts3) tComma) eqn:Ecm.
    + destruct (peek_true _ _ Ecm ltac:(discriminate)) as (img3 & ts4 & Ets3). subst ts3. cbn [adv] in *.
      apply full_cons in F3. destruct F3 as [Ft3 F4]. rewrite (canon _ _ [44%N] Ft3 eq_refl) in *.
      destruct (fs_map f IH _ _ _ _ _ _ _ H F4 Nd') as (es & l & ul & Et & Wes & Ees & Ee & Eu & Hnd).
      exists (FE_cons k rv es), ((k, entry) :: l), (u1 ++ ul). fsimpl. cbn [entry_keys].
      rewrite Ev, Ees, Wv, Wes. repeat split; auto.
      * rewrite Etv, Et. cbn [app]. rewrite <- app_assoc. reflexivity.
      * rewrite Ee, <- app_assoc. reflexivity.
      * rewrite Eu, <- app_assoc. reflexivity.
      * rewrite map_app in Hnd. cbn [map fst] in Hnd. rewrite <- app_assoc in Hnd. exact Hnd.
    + destruct (typ_is (peek ts3) tCloseCurly) eqn:Ecc; cbn [negb] in H; [|discriminate].
      destruct (fs_map f IH _ _ _ _ _ _ _ H F3 Nd') as (es & l & ul & Et & Wes & Ees & Ee & Eu & Hnd).
      apply typ_is_eq in Ecc. pose proof (entries_close es rest ts3 Et Ecc) as X. subst es. fsimpl.
      injection Ees as El Eul. subst l ul.
      exists (FE_last k rv), [(k, entry)], u1. fsimpl. cbn [entry_keys]. rewrite Ev. repeat split; auto.
      * rewrite Etv, Et. cbn [app]. rewrite <- app_assoc. reflexivity.
      * rewrite Ee, app_nil_r. reflexivity.
      * rewrite Eu, app_nil_r. reflexivity.
      * cbn [entry_keys] in Hnd. rewrite app_nil_r, map_app in Hnd. exact Hnd.
  - (* tCloseCurly *)
    destruct (peek_typ _ _ Ety ltac:(discriminate)) as (img & ts1 & Ets). subst ts. cbn [adv] in *.
    apply full_cons in F. destruct F as [Ft _]. rewrite (canon _ _ [125%N] Ft eq_refl) in *.
    injection H as He Hu Hr; subst e u rest.
    exists FE_nil, [], []. fsimpl. cbn [entry_keys]. rewrite !app_nil_r. repeat split; auto.
Qed.

Lemma semi_tok ts : typ_is (peek ts) tSemicolon && str_eqb (kimg (peek ts)) s_semi = true -> ts = k_semi :: adv ts.
Proof.
  intros H. apply andb_true_iff in H. destruct H as [H1 H2]. apply typ_is_eq in H1. apply str_eqb_eq in H2.
  destruct ts as [|[ty img] ts1]; cbn [peek adv ktyp kimg fst snd] in *; [discriminate|]. subst. reflexivity.
Qed.

Lemma ident_tok ts : typ_is (peek ts) tIdent = true -> ts = k_ident (kimg (peek ts)) :: adv ts.
Proof.
  intros H. apply typ_is_eq in H. destruct ts as [|[ty img] ts1]; cbn [peek adv ktyp kimg fst snd] in *; [discriminate|].
  subst. reflexivity.
Qed.

Lemma fstep_let : forall ids ts e u rest, parse_let cfg (S f) ids ts = POk (e, u, rest) ->
  full_toks ts = true -> SndE ids ts e u rest.
Proof.
  intros ids ts e u rest H F. rewrite parse_let_S in H.
  destruct (is_kw (peek ts) s_let) eqn:Klet.
  - pose proof (peek_is_kw _ _ Klet) as E0.
    destruct (typ_is (peek (adv ts)) tIdent) eqn:Eid; cbn [negb] in H; [|discriminate].
    pose proof (ident_tok _ Eid) as E1.
    destruct (is_op (peek (adv (adv ts))) s_assign) eqn:Eas; cbn [negb] in H; [|discriminate].
    pose proof (peek_is_op _ _ Eas) as E2.
    set (x := kimg (peek (adv ts))) in *.
    assert (F3 : full_toks (adv (adv (adv ts))) = true) by (repeat apply full_adv; exact F).
    inv_pr H exp u1 ts4 Ec1.
    destruct (fs_expr f IH _ _ _ _ _ Ec1 F3) as (rv & Etv & Wv & Ev & _ & Lfv & _ & _).
    assert (F4 : full_toks ts4 = true) by (rewrite Etv in F3; eapply full_app; exact F3).
    destruct (typ_is (peek ts4) tSemicolon && str_eqb (kimg (peek ts4)) s_semi) eqn:Esemi; cbn [negb] in H; [|discriminate].
    pose proof (semi_tok _ Esemi) as E4.
    assert (Tok : ts = k_kw s_let :: k_ident x :: k_op s_assign :: fflatten rv ++ k_semi :: adv ts4).
    { rewrite E0 at 1. rewrite E1 at 1. rewrite E2 at 1. rewrite Etv. rewrite E4 at 1. reflexivity. }
    destruct (is_const exp) as [c|] eqn:Econst.
    + inv_pr H inner u2 ts6 Ec2. injection H as He Hu Hr; subst e u rest.
      destruct (fs_let f IH _ _ _ _ _ Ec2 (full_adv _ F4)) as (rb & Etb & Wb & Eb & S3 & P3).
      exists (FLet x rv rb). fsimpl. rewrite Ev, Econst, Eb, Wv, Wb, Lfv. repeat split; auto.
      rewrite Tok, Etb. cbn [app]. rewrite <- app_assoc. reflexivity.
    + inv_pr H inner u2 ts6 Ec2. injection H as He Hu Hr; subst e u rest.
      destruct (fs_let f IH _ _ _ _ _ Ec2 (full_adv _ F4)) as (rb & Etb & Wb & Eb & S3 & P3).
      exists (FLet x rv rb). fsimpl. rewrite Ev, Econst, Eb, Wv, Wb, Lfv. repeat split; auto.
      rewrite Tok, Etb. cbn [app]. rewrite <- app_assoc. reflexivity.
  - destruct (is_kw (peek ts) s_func) eqn:Kfunc.
    + pose proof (peek_is_kw _ _ Kfunc) as E0.
      destruct (typ_is (peek (adv ts)) tIdent) eqn:Eid; cbn [negb] in H; [|discriminate].
      pose proof (ident_tok _ Eid) as E1.
      destruct (typ_is (peek (adv (adv ts))) tOpen) eqn:Eop; cbn [negb] in H; [|discriminate].
      set (fn := kimg (peek (adv ts))) in *.
      assert (F2 : full_toks (adv (adv ts)) = true) by (repeat apply full_adv; exact F).
      destruct (peek_true _ _ Eop ltac:(discriminate)) as (img & ts3 & E2).
      assert (E3 : adv (adv (adv ts)) = ts3) by (rewrite E2; reflexivity).
      rewrite E2 in F2. apply full_cons in F2. destruct F2 as [Ft2 F3]. rewrite (canon _ _ [40%N] Ft2 eq_refl) in E2.
      rewrite E3 in H.
      match type of H with context [parse_identlist ?a ?b ?c] =>
        destruct (parse_identlist a b c) as [[names ts4]| | |] eqn:Eil; try discriminate end.
      destruct (identlist_sound _ [] _ _ _ F3 eq_refl Eil) as (ps & Hne & En & Et & Hnd). cbn [app] in En. subst names.
      assert (F4 : full_toks ts4 = true) by (rewrite Et in F3; eapply full_app; exact F3).
      inv_pr H exp ub ts5 Ec1.
      destruct (fs_let f IH _ _ _ _ _ Ec1 F4) as (rfb & Etf & Wf & Ef & _ & _).
      assert (F5 : full_toks ts5 = true) by (rewrite Etf in F4; eapply full_app; exact F4).
      destruct (typ_is (peek ts5) tSemicolon && str_eqb (kimg (peek ts5)) s_semi) eqn:Esemi; cbn [negb] in H; [|discriminate].
      pose proof (semi_tok _ Esemi) as E5.
      inv_pr H inner u2 ts7 Ec2. injection H as He Hu Hr; subst e u rest.
      destruct (fs_let f IH _ _ _ _ _ Ec2 (full_adv _ F5)) as (rb & Etb & Wb & Eb & S3 & P3).
      exists (FFunc fn ps rfb rb). fsimpl. rewrite Ef, Eb, Wf, Wb, Hnd.
      assert (Hps : negb match ps with [] => true | _ :: _ => false end = true) by (destruct ps; [congruence|reflexivity]).
      rewrite Hps. repeat split; auto.
      rewrite E0 at 1. rewrite E1 at 1. rewrite E2 at 1. rewrite Et, Etf. rewrite E5 at 1. rewrite Etb.
      cbn [app]. repeat (rewrite <- app_assoc; cbn [app]). reflexivity.
    + destruct (fs_expr f IH _ _ _ _ _ H F) as (r & Et & W & E & _ & _ & S3 & P3).
      exists r. repeat split; auto.
Qed.

End Step.

Lemma fsound_all : forall f, fsound_at f.
Proof.
  induction f as [|f IH]; [exact fsound_0|]. constructor.
  - exact (fstep_let f IH).
  - exact (fstep_expr f IH).
  - exact (fstep_call f IH).
  - exact (fstep_loop f IH).
  - exact (fstep_nonop f IH).
  - exact (fstep_postfix f IH).
  - exact (fstep_literal f IH).
  - exact (fstep_args f IH).
  - exact (fstep_args_loop f IH).
  - exact (fstep_switch f IH).
  - exact (fstep_map f IH).
Qed.

(* whatever Parser.Parse accepts is, token for token, a well-formed rendering of the annotated AST it returns *)
Theorem parse_sound_full : forall f ids ts e, full_toks ts = true ->
  parse_fuel cfg f ids ts = POk e -> frenders cfg ids e ts.
Proof.
  intros f ids ts e F H. unfold parse_fuel in H.
  destruct (parse_let cfg f ids ts) as [[[a u] rest]| | |] eqn:El; try discriminate.
  destruct (typ_is (peek rest) tEof) eqn:Ee; [|discriminate]. inversion H; subst a. clear H.
  destruct (fs_let f (fsound_all f) _ _ _ _ _ El F) as (r & Et & W & E & _ & _).
  assert (F1 : full_toks rest = true) by (rewrite Et in F; eapply full_app; exact F).
  destruct rest as [|[ty img] rest'].
  - exists r, u. rewrite app_nil_r in Et. auto.
  - exfalso. apply full_cons in F1. destruct F1 as [Ft _]. apply typ_is_eq in Ee. cbn [peek ktyp fst] in Ee. subst ty.
    cbn in Ft. discriminate.
Qed.

End FS.

(* the full grammar, both directions: on tokens as the tokenizer writes them, Parser.Parse returns the AST e exactly
   when the token list is a well-formed rendering of e under the identifier chain *)
Theorem parse_iff_renders : forall cfg, table_ok cfg = true -> forall ids ts e, full_toks ts = true ->
  (parse cfg ids ts = POk e <-> frenders cfg ids e ts).
Proof.
  intros cfg Ht ids ts e F. split.
  - intros H. exact (parse_sound_full cfg Ht (fuel_for cfg ts) ids ts e F H).
  - intros (r & u & W & E & <-). exact (parse_complete_full cfg Ht ids r e u W E).
Qed.
