(* The expression fragment of the parser model as a big-step relation (one relation per Go function:
   PE parseLet/parseExpression, PL parseOp(level) and parseUnary, LP the loop of parseOp, PN
   parseNonOperator, PF its postfix loop, PLit parseLiteral, PA/PAL parseArgs and its loop), and the
   proof that the executable model computes every derivation of the relation (fun_complete).
   The relation separates the fuel bookkeeping from the grouping argument of ParseProofs.v. *)
From P2 Require Import Base.Prelude Base.PreludeProofs Lex.Token Syn.Ast Syn.Parse.
Local Open Scope nat_scope.

Section Rel.
Variable cfg : pcfg.
Variable ids : idents.
Let ops := c_ops cfg.
Let n := length ops.

(* nextParserCall(level-1): parseOp(level) below the number of operators, parseUnary at it *)
Definition call_level (f level : nat) (ts : list tk) : pr ast :=
  if level <? n then parse_op cfg f level ids ts else parse_unary cfg f ids ts.

Definition head_unary (ts : list tk) : bool :=
  typ_is (peek ts) tOperate && mem_str (kimg (peek ts)) (c_unary cfg).

Definition post_head (ts : list tk) : bool :=
  match ktyp (peek ts) with tDot | tOpen | tOpenBracket => true | _ => false end.

(* ---------- one-step unfoldings of the model (all by computation) ---------- *)
Lemma parse_expression_S f ts :
  parse_expression cfg (S f) ids ts = if n =? 0 then parse_unary cfg f ids ts else parse_op cfg f 0 ids ts.
Proof. reflexivity. Qed.

Lemma parse_op_S f k ts :
  parse_op cfg (S f) k ids ts =
  match nth_error ops k with
  | None => PPanic
  | Some operator =>
      match call_level f (S k) ts with
      | POk (a, u, ts1) => parse_op_loop cfg f k operator a u ids ts1
      | r => r
      end
  end.
Proof. reflexivity. Qed.

Lemma parse_op_loop_S f k operator a u ts :
  parse_op_loop cfg (S f) k operator a u ids ts =
  if is_op (peek ts) operator then
    match call_level f (S k) (adv ts) with
    | POk (b, u2, ts2) => parse_op_loop cfg f k operator (AOp operator (N.of_nat k) a b) (u ++ u2) ids ts2
    | r => r
    end
  else POk (a, u, ts).
Proof. reflexivity. Qed.

Lemma parse_unary_S f ts :
  parse_unary cfg (S f) ids ts =
  if head_unary ts then
    match (match op_pos ops (kimg (peek ts)) with
           | Some p => call_level f (S p) (adv ts)
           | None => parse_nonop cfg f ids (adv ts)
           end) with
    | POk (inner, u, ts2) => POk (AUn (kimg (peek ts)) inner, u, ts2)
    | r => r
    end
  else parse_nonop cfg f ids ts.
Proof. reflexivity. Qed.

Lemma parse_nonop_S f ts :
  parse_nonop cfg (S f) ids ts =
  match parse_literal cfg f ids ts with
  | POk (e, u, ts1) => parse_postfix cfg f e u ids ts1
  | r => r
  end.
Proof. reflexivity. Qed.

Lemma parse_args_S f c ts :
  parse_args cfg (S f) c ids ts =
  if typ_is (peek ts) c then POk ([], [], adv ts) else parse_args_loop cfg f c [] [] ids ts.
Proof. reflexivity. Qed.

Lemma parse_args_loop_S f c acc u ts :
  parse_args_loop cfg (S f) c acc u ids ts =
  match parse_let cfg f ids ts with
  | POk (element, u1, ts1) =>
      if typ_is (peek ts1) c then POk (acc ++ [element], u ++ u1, adv ts1)
      else if negb (typ_is (peek ts1) tComma) then PErr
      else if typ_is (peek (adv ts1)) c then POk (acc ++ [element], u ++ u1, adv (adv ts1))
      else parse_args_loop cfg f c (acc ++ [element]) (u ++ u1) ids (adv ts1)
  | PErr => PErr | PPanic => PPanic | POOF => POOF
  end.
Proof. reflexivity. Qed.

Lemma parse_postfix_S f e u ts :
  parse_postfix cfg (S f) e u ids ts =
  match ktyp (peek ts) with
  | tDot =>
      if negb (typ_is (peek (adv ts)) tIdent) then PErr else
      if negb (typ_is (peek (adv (adv ts))) tOpen)
      then parse_postfix cfg f (AAccess (kimg (peek (adv ts))) e) u ids (adv (adv ts))
      else
        match parse_args cfg f tClose ids (adv (adv (adv ts))) with
        | POk (args, u2, ts4) => parse_postfix cfg f (AMethod (kimg (peek (adv ts))) args e) (u ++ u2) ids ts4
        | PErr => PErr | PPanic => PPanic | POOF => POOF
        end
  | tOpen =>
      match parse_args cfg f tClose ids (adv ts) with
      | POk (args, u2, ts2) => parse_postfix cfg f (ACall e args) (u ++ u2) ids ts2
      | PErr => PErr | PPanic => PPanic | POOF => POOF
      end
  | tOpenBracket =>
      match parse_expression cfg f ids (adv ts) with
      | POk (idx, u2, ts2) =>
          if negb (typ_is (peek ts2) tCloseBracket) then PErr
          else parse_postfix cfg f (AIndex idx e) (u ++ u2) ids (adv ts2)
      | r => r
      end
  | _ => POk (e, u, ts)
  end.
Proof. reflexivity. Qed.

Lemma parse_literal_S f ts :
  parse_literal cfg (S f) ids ts =
  match ktyp (peek ts) with
  | tIdent =>
      if is_op (peek (adv ts)) s_arrow then
        match parse_let cfg f (SArgs [kimg (peek ts)] :: ids) (adv (adv ts)) with
        | POk (e, ub, ts3) =>
            POk (AClosure [kimg (peek ts)] e (outers_of ids [kimg (peek ts)] ub) false [],
                 escape (SArgs [kimg (peek ts)]) ub, ts3)
        | r => r
        end
      else
        match resolve ids (kimg (peek ts)) with
        | Some a => POk (a, [kimg (peek ts)], adv ts)
        | None => PErr
        end
  | tKeyWord =>
      if str_eqb (kimg (peek ts)) s_try then
        match parse_let cfg f ids (adv ts) with
        | POk (tryExp, u1, ts2) =>
            if negb (is_kw (peek ts2) s_catch) then PErr else
            match parse_let cfg f ids (adv ts2) with
            | POk (catchExp, u2, ts4) => POk (ATry tryExp catchExp, u1 ++ u2, ts4)
            | r => r
            end
        | r => r
        end
      else if str_eqb (kimg (peek ts)) s_if then
        match parse_expression cfg f ids (adv ts) with
        | POk (cond, u1, ts2) =>
            if negb (is_kw (peek ts2) s_then) then PErr else
            match parse_let cfg f ids (adv ts2) with
            | POk (thenExp, u2, ts4) =>
                if negb (is_kw (peek ts4) s_else) then PErr else
                match parse_let cfg f ids (adv ts4) with
                | POk (elseExp, u3, ts6) => POk (AIf cond thenExp elseExp, u1 ++ u2 ++ u3, ts6)
                | r => r
                end
            | r => r
            end
        | r => r
        end
      else if str_eqb (kimg (peek ts)) s_switch then
        match parse_expression cfg f ids (adv ts) with
        | POk (sv, u1, ts2) => parse_switch cfg f sv [] u1 ids ts2
        | r => r
        end
      else PErr
  | tOpenCurly => parse_map cfg f [] [] ids (adv ts)
  | tOpenBracket =>
      match parse_args cfg f tCloseBracket ids (adv ts) with
      | POk (args, u, ts2) => POk (AListLit args, u, ts2)
      | PErr => PErr | PPanic => PPanic | POOF => POOF
      end
  | tNumber =>
      match c_num cfg with
      | Some np => match np (kimg (peek ts)) with
                   | Some c => POk (AConst c, [], adv ts)
                   | None => PErr
                   end
      | None => PErr
      end
  | tString =>
      match c_strh cfg with
      | Some sh => POk (AConst (sh (kimg (peek ts))), [], adv ts)
      | None => PErr
      end
  | tOpen =>
      if typ_is (peek (adv ts)) tIdent && typ_is (peek2 (adv ts)) tComma then
        match parse_identlist (S (length (adv ts))) [] (adv ts) with
        | POk (names, ts2) =>
            if negb (is_op (peek ts2) s_arrow) then PErr else
            match parse_let cfg f (SArgs names :: ids) (adv ts2) with
            | POk (e, ub, ts4) =>
                POk (AClosure names e (outers_of ids names ub) false [], escape (SArgs names) ub, ts4)
            | r => r
            end
        | PErr => PErr | PPanic => PPanic | POOF => POOF
        end
      else
        match parse_expression cfg f ids (adv ts) with
        | POk (e, u, ts2) => if negb (typ_is (peek ts2) tClose) then PErr else POk (e, u, adv ts2)
        | r => r
        end
  | _ => PErr
  end.
Proof. reflexivity. Qed.

Lemma parse_let_S f ts :
  parse_let cfg (S f) ids ts =
  if is_kw (peek ts) s_let then
    if negb (typ_is (peek (adv ts)) tIdent) then PErr else
    if negb (is_op (peek (adv (adv ts))) s_assign) then PErr else
    match parse_expression cfg f ids (adv (adv (adv ts))) with
    | POk (exp, u1, ts4) =>
        if negb (typ_is (peek ts4) tSemicolon && str_eqb (kimg (peek ts4)) s_semi) then PErr else
        match is_const exp with
        | Some c =>
            match parse_let cfg f (id_constant (kimg (peek (adv ts))) c :: ids) (adv ts4) with
            | POk (inner, u2, ts6) =>
                POk (inner, u1 ++ escape (id_constant (kimg (peek (adv ts))) c) u2, ts6)
            | r => r
            end
        | None =>
            match parse_let cfg f (id_var (kimg (peek (adv ts))) :: ids) (adv ts4) with
            | POk (inner, u2, ts6) =>
                POk (ALet (kimg (peek (adv ts))) exp inner, u1 ++ escape (id_var (kimg (peek (adv ts)))) u2, ts6)
            | r => r
            end
        end
    | r => r
    end
  else if is_kw (peek ts) s_func then
    if negb (typ_is (peek (adv ts)) tIdent) then PErr else
    if negb (typ_is (peek (adv (adv ts))) tOpen) then PErr else
    match parse_identlist (S (length (adv (adv (adv ts))))) [] (adv (adv (adv ts))) with
    | POk (names, ts4) =>
        match parse_let cfg f (SThis (kimg (peek (adv ts))) :: SArgs names :: ids) ts4 with
        | POk (exp, ub, ts5) =>
            if negb (typ_is (peek ts5) tSemicolon && str_eqb (kimg (peek ts5)) s_semi) then PErr else
            match parse_let cfg f (id_var (kimg (peek (adv ts))) :: ids) (adv ts5) with
            | POk (inner, u2, ts7) =>
                POk (ALet (kimg (peek (adv ts)))
                          (AClosure names exp
                             (outers_of ids names (escape (SThis (kimg (peek (adv ts)))) ub))
                             (mem_str (kimg (peek (adv ts))) ub) (kimg (peek (adv ts))))
                          inner,
                     escape (SArgs names) (escape (SThis (kimg (peek (adv ts)))) ub)
                       ++ escape (id_var (kimg (peek (adv ts)))) u2, ts7)
            | r => r
            end
        | r => r
        end
    | PErr => PErr | PPanic => PPanic | POOF => POOF
    end
  else parse_expression cfg f ids ts.
Proof. reflexivity. Qed.

Lemma parse_switch_S f sv cases u ts :
  parse_switch cfg (S f) sv cases u ids ts =
  if typ_is (peek ts) tKeyWord then
    if str_eqb (kimg (peek ts)) s_case then
      match parse_expression cfg f ids (adv ts) with
      | POk (cc, u1, ts2) =>
          if negb (typ_is (peek ts2) tColon) then PErr else
          match parse_let cfg f ids (adv ts2) with
          | POk (res, u2, ts4) => parse_switch cfg f sv (cases ++ [(cc, res)]) (u ++ u1 ++ u2) ids ts4
          | r => r
          end
      | r => r
      end
    else if str_eqb (kimg (peek ts)) s_default then
      match parse_let cfg f ids (adv ts) with
      | POk (res, u1, ts2) => POk (ASwitch sv cases res, u ++ u1, ts2)
      | r => r
      end
    else PErr
  else PErr.
Proof. reflexivity. Qed.

Lemma parse_map_S f m u ts :
  parse_map cfg (S f) m u ids ts =
  match ktyp (peek ts) with
  | tCloseCurly => POk (AMapLit m, u, adv ts)
  | tIdent =>
      if mem_str (kimg (peek ts)) (map fst m) then PErr else
      if negb (typ_is (peek (adv ts)) tColon) then PErr else
      match parse_let cfg f ids (adv (adv ts)) with
      | POk (entry, u1, ts3) =>
          if typ_is (peek ts3) tComma then parse_map cfg f (m ++ [(kimg (peek ts), entry)]) (u ++ u1) ids (adv ts3)
          else if negb (typ_is (peek ts3) tCloseCurly) then PErr
          else parse_map cfg f (m ++ [(kimg (peek ts), entry)]) (u ++ u1) ids ts3
      | r => r
      end
  | _ => PErr
  end.
Proof. reflexivity. Qed.

(* parseLet on a token that is not the keyword let or func *)
Lemma parse_let_S_nokw f ts :
  is_kw (peek ts) s_let = false -> is_kw (peek ts) s_func = false ->
  parse_let cfg (S f) ids ts = parse_expression cfg f ids ts.
Proof. intros H1 H2. cbn [parse_let]. rewrite H1, H2. reflexivity. Qed.

(* the branches of parseLiteral the fragment uses *)
Lemma parse_literal_ident f ts a :
  ktyp (peek ts) = tIdent -> is_op (peek (adv ts)) s_arrow = false ->
  resolve ids (kimg (peek ts)) = Some a ->
  parse_literal cfg (S f) ids ts = POk (a, [kimg (peek ts)], adv ts).
Proof. intros H1 H2 H3. cbn [parse_literal]. rewrite H1, H2, H3. reflexivity. Qed.

Lemma parse_literal_num f ts np c :
  ktyp (peek ts) = tNumber -> c_num cfg = Some np -> np (kimg (peek ts)) = Some c ->
  parse_literal cfg (S f) ids ts = POk (AConst c, [], adv ts).
Proof. intros H1 H2 H3. cbn [parse_literal]. rewrite H1, H2, H3. reflexivity. Qed.

Lemma parse_literal_str f ts sh :
  ktyp (peek ts) = tString -> c_strh cfg = Some sh ->
  parse_literal cfg (S f) ids ts = POk (AConst (sh (kimg (peek ts))), [], adv ts).
Proof. intros H1 H2. cbn [parse_literal]. rewrite H1, H2. reflexivity. Qed.

Lemma parse_literal_paren f ts :
  ktyp (peek ts) = tOpen ->
  typ_is (peek (adv ts)) tIdent && typ_is (peek2 (adv ts)) tComma = false ->
  parse_literal cfg (S f) ids ts =
  match parse_expression cfg f ids (adv ts) with
  | POk (e, u, ts2) => if negb (typ_is (peek ts2) tClose) then PErr else POk (e, u, adv ts2)
  | r => r
  end.
Proof. intros H1 H2. cbn [parse_literal]. rewrite H1, H2. reflexivity. Qed.

Lemma parse_literal_list f ts :
  ktyp (peek ts) = tOpenBracket ->
  parse_literal cfg (S f) ids ts =
  match parse_args cfg f tCloseBracket ids (adv ts) with
  | POk (args, u, ts2) => POk (AListLit args, u, ts2)
  | PErr => PErr | PPanic => PPanic | POOF => POOF
  end.
Proof. intros H1. cbn [parse_literal]. rewrite H1. reflexivity. Qed.

(* ---------- the relation ---------- *)
Inductive PE : list tk -> ast -> list tk -> Prop :=
| PE_intro ts e rest :
    is_kw (peek ts) s_let = false -> is_kw (peek ts) s_func = false ->
    PL 0 ts e rest -> PE ts e rest

with PL : nat -> list tk -> ast -> list tk -> Prop :=
| PL_lvl k o ts a mid e rest :
    nth_error ops k = Some o -> PL (S k) ts a mid -> LP k o a mid e rest -> PL k ts e rest
| PL_un_bin ts p e rest :
    head_unary ts = true -> op_pos ops (kimg (peek ts)) = Some p ->
    PL (S p) (adv ts) e rest -> PL n ts (AUn (kimg (peek ts)) e) rest
| PL_un_pure ts e rest :
    head_unary ts = true -> op_pos ops (kimg (peek ts)) = None ->
    PN (adv ts) e rest -> PL n ts (AUn (kimg (peek ts)) e) rest
| PL_nonop ts e rest :
    head_unary ts = false -> PN ts e rest -> PL n ts e rest

with LP : nat -> str -> ast -> list tk -> ast -> list tk -> Prop :=
| LP_stop k o a ts : is_op (peek ts) o = false -> LP k o a ts a ts
| LP_step k o a ts b mid e rest :
    is_op (peek ts) o = true -> PL (S k) (adv ts) b mid ->
    LP k o (AOp o (N.of_nat k) a b) mid e rest -> LP k o a ts e rest

with PN : list tk -> ast -> list tk -> Prop :=
| PN_intro ts a mid e rest : PLit ts a mid -> PF a mid e rest -> PN ts e rest

with PLit : list tk -> ast -> list tk -> Prop :=
| PLit_ident ts a :
    ktyp (peek ts) = tIdent -> is_op (peek (adv ts)) s_arrow = false ->
    resolve ids (kimg (peek ts)) = Some a -> PLit ts a (adv ts)
| PLit_num ts np c :
    ktyp (peek ts) = tNumber -> c_num cfg = Some np -> np (kimg (peek ts)) = Some c ->
    PLit ts (AConst c) (adv ts)
| PLit_str ts sh :
    ktyp (peek ts) = tString -> c_strh cfg = Some sh -> PLit ts (AConst (sh (kimg (peek ts)))) (adv ts)
| PLit_paren ts e mid :
    ktyp (peek ts) = tOpen ->
    typ_is (peek (adv ts)) tIdent && typ_is (peek2 (adv ts)) tComma = false ->
    PL 0 (adv ts) e mid -> typ_is (peek mid) tClose = true -> PLit ts e (adv mid)
| PLit_list ts args rest :
    ktyp (peek ts) = tOpenBracket -> PA tCloseBracket (adv ts) args rest -> PLit ts (AListLit args) rest

with PF : ast -> list tk -> ast -> list tk -> Prop :=
| PF_stop a ts : post_head ts = false -> PF a ts a ts
| PF_access a ts e rest :
    ktyp (peek ts) = tDot -> typ_is (peek (adv ts)) tIdent = true ->
    typ_is (peek (adv (adv ts))) tOpen = false ->
    PF (AAccess (kimg (peek (adv ts))) a) (adv (adv ts)) e rest -> PF a ts e rest
| PF_method a ts args mid e rest :
    ktyp (peek ts) = tDot -> typ_is (peek (adv ts)) tIdent = true ->
    typ_is (peek (adv (adv ts))) tOpen = true ->
    PA tClose (adv (adv (adv ts))) args mid ->
    PF (AMethod (kimg (peek (adv ts))) args a) mid e rest -> PF a ts e rest
| PF_call a ts args mid e rest :
    ktyp (peek ts) = tOpen -> PA tClose (adv ts) args mid -> PF (ACall a args) mid e rest -> PF a ts e rest
| PF_index a ts idx mid e rest :
    ktyp (peek ts) = tOpenBracket -> PL 0 (adv ts) idx mid -> typ_is (peek mid) tCloseBracket = true ->
    PF (AIndex idx a) (adv mid) e rest -> PF a ts e rest

with PA : ttype -> list tk -> list ast -> list tk -> Prop :=
| PA_nil c ts : typ_is (peek ts) c = true -> PA c ts [] (adv ts)
| PA_some c ts args rest : typ_is (peek ts) c = false -> PAL c [] ts args rest -> PA c ts args rest

with PAL : ttype -> list ast -> list tk -> list ast -> list tk -> Prop :=
| PAL_last c acc ts e mid :
    PE ts e mid -> typ_is (peek mid) c = true -> PAL c acc ts (acc ++ [e]) (adv mid)
| PAL_trailing c acc ts e mid :
    PE ts e mid -> typ_is (peek mid) c = false -> typ_is (peek mid) tComma = true ->
    typ_is (peek (adv mid)) c = true -> PAL c acc ts (acc ++ [e]) (adv (adv mid))
| PAL_more c acc ts e mid args rest :
    PE ts e mid -> typ_is (peek mid) c = false -> typ_is (peek mid) tComma = true ->
    typ_is (peek (adv mid)) c = false -> PAL c (acc ++ [e]) (adv mid) args rest ->
    PAL c acc ts args rest.

Scheme PE_m := Minimality for PE Sort Prop
  with PL_m := Minimality for PL Sort Prop
  with LP_m := Minimality for LP Sort Prop
  with PN_m := Minimality for PN Sort Prop
  with PLit_m := Minimality for PLit Sort Prop
  with PF_m := Minimality for PF Sort Prop
  with PA_m := Minimality for PA Sort Prop
  with PAL_m := Minimality for PAL Sort Prop.
Combined Scheme prel_ind from PE_m, PL_m, LP_m, PN_m, PLit_m, PF_m, PA_m, PAL_m.

Lemma nth_error_lt {A} (l : list A) k x : nth_error l k = Some x -> k < length l.
Proof. intros H. apply nth_error_Some. rewrite H. discriminate. Qed.

(* no derivation above the unary level *)
Lemma PL_level_le : forall k ts e rest, PL k ts e rest -> k <= n.
Proof.
  intros k ts e rest H. destruct H as [k o ts a mid e rest Ho _ _| | |]; try (unfold n; lia).
  pose proof (nth_error_lt _ _ _ Ho). unfold n. lia.
Qed.

Lemma expression_is_level0 f ts : parse_expression cfg (S f) ids ts = call_level f 0 ts.
Proof.
  rewrite parse_expression_S. unfold call_level. destruct n; reflexivity.
Qed.

(* ---------- the executable model computes every derivation ---------- *)
Definition ok_from {A} (run : nat -> pr A) (e : A) (rest : list tk) : Prop :=
  exists f0, forall f, f0 <= f -> exists u, run f = POk (e, u, rest).

Lemma fun_complete :
  (forall ts e rest, PE ts e rest -> ok_from (fun f => parse_let cfg f ids ts) e rest) /\
  (forall k ts e rest, PL k ts e rest -> ok_from (fun f => call_level f k ts) e rest) /\
  (forall k o a ts e rest, LP k o a ts e rest ->
     exists f0, forall f, f0 <= f -> forall u0, exists u, parse_op_loop cfg f k o a u0 ids ts = POk (e, u, rest)) /\
  (forall ts e rest, PN ts e rest -> ok_from (fun f => parse_nonop cfg f ids ts) e rest) /\
  (forall ts e rest, PLit ts e rest -> ok_from (fun f => parse_literal cfg f ids ts) e rest) /\
  (forall a ts e rest, PF a ts e rest ->
     exists f0, forall f, f0 <= f -> forall u0, exists u, parse_postfix cfg f a u0 ids ts = POk (e, u, rest)) /\
  (forall c ts args rest, PA c ts args rest -> ok_from (fun f => parse_args cfg f c ids ts) args rest) /\
  (forall c acc ts args rest, PAL c acc ts args rest ->
     exists f0, forall f, f0 <= f -> forall u0, exists u, parse_args_loop cfg f c acc u0 ids ts = POk (args, u, rest)).
Proof.
  apply prel_ind; unfold ok_from.
  - (* PE_intro *)
    intros ts e rest K1 K2 _ [f0 IH]. exists (S (S f0)). intros [|[|f]] Hf; try lia.
    rewrite parse_let_S_nokw by assumption. rewrite expression_is_level0. apply IH. lia.
  - (* PL_lvl *)
    intros k o ts a mid e rest Ho _ [f1 IH1] _ [f2 IH2]. exists (S (Nat.max f1 f2)).
    intros [|f] Hf; [lia|].
    assert (Hk : k < n) by (exact (nth_error_lt _ _ _ Ho)).
    unfold call_level at 1. apply Nat.ltb_lt in Hk. rewrite Hk.
    rewrite parse_op_S, Ho. destruct (IH1 f ltac:(lia)) as [u1 E1]. rewrite E1.
    apply IH2. lia.
  - (* PL_un_bin *)
    intros ts p e rest Hu Hp _ [f0 IH]. exists (S f0). intros [|f] Hf; [lia|].
    unfold call_level at 1. rewrite Nat.ltb_irrefl. rewrite parse_unary_S, Hu, Hp.
    destruct (IH f ltac:(lia)) as [u E]. rewrite E. eauto.
  - (* PL_un_pure *)
    intros ts e rest Hu Hp _ [f0 IH]. exists (S f0). intros [|f] Hf; [lia|].
    unfold call_level. rewrite Nat.ltb_irrefl. rewrite parse_unary_S, Hu, Hp.
    destruct (IH f ltac:(lia)) as [u E]. rewrite E. eauto.
  - (* PL_nonop *)
    intros ts e rest Hu _ [f0 IH]. exists (S f0). intros [|f] Hf; [lia|].
    unfold call_level. rewrite Nat.ltb_irrefl. rewrite parse_unary_S, Hu. apply IH. lia.
  - (* LP_stop *)
    intros k o a ts Ho. exists 1. intros [|f] Hf u0; [lia|].
    rewrite parse_op_loop_S, Ho. eauto.
  - (* LP_step *)
    intros k o a ts b mid e rest Ho _ [f1 IH1] _ [f2 IH2]. exists (S (Nat.max f1 f2)).
    intros [|f] Hf u0; [lia|].
    rewrite parse_op_loop_S, Ho. destruct (IH1 f ltac:(lia)) as [u1 E1]. rewrite E1.
    apply IH2. lia.
  - (* PN_intro *)
    intros ts a mid e rest _ [f1 IH1] _ [f2 IH2]. exists (S (Nat.max f1 f2)).
    intros [|f] Hf; [lia|]. rewrite parse_nonop_S.
    destruct (IH1 f ltac:(lia)) as [u1 E1]. rewrite E1. apply IH2. lia.
  - (* PLit_ident *)
    intros ts a H1 H2 H3. exists 1. intros [|f] Hf; [lia|].
    rewrite (parse_literal_ident f ts a H1 H2 H3). eauto.
  - (* PLit_num *)
    intros ts np c H1 H2 H3. exists 1. intros [|f] Hf; [lia|].
    rewrite (parse_literal_num f ts np c H1 H2 H3). eauto.
  - (* PLit_str *)
    intros ts sh H1 H2. exists 1. intros [|f] Hf; [lia|].
    rewrite (parse_literal_str f ts sh H1 H2). eauto.
  - (* PLit_paren *)
    intros ts e mid H1 H2 _ [f0 IH] Hc. exists (S (S f0)). intros [|[|f]] Hf; try lia.
    rewrite (parse_literal_paren _ ts H1 H2). rewrite expression_is_level0.
    destruct (IH f ltac:(lia)) as [u E]. rewrite E, Hc. cbn [negb]. eauto.
  - (* PLit_list *)
    intros ts args rest H1 _ [f0 IH]. exists (S f0). intros [|f] Hf; [lia|].
    rewrite (parse_literal_list f ts H1). destruct (IH f ltac:(lia)) as [u E]. rewrite E. eauto.
  - (* PF_stop *)
    intros a ts Hp. exists 1. intros [|f] Hf u0; [lia|]. rewrite parse_postfix_S.
    unfold post_head in Hp. destruct (ktyp (peek ts)); try discriminate; eauto.
  - (* PF_access *)
    intros a ts e rest H1 H2 H3 _ [f0 IH]. exists (S f0). intros [|f] Hf u0; [lia|].
    rewrite parse_postfix_S, H1, H2, H3. cbn [negb]. apply IH. lia.
  - (* PF_method *)
    intros a ts args mid e rest H1 H2 H3 _ [f1 IH1] _ [f2 IH2]. exists (S (Nat.max f1 f2)).
    intros [|f] Hf u0; [lia|].
    rewrite parse_postfix_S, H1, H2, H3. cbn [negb].
    destruct (IH1 f ltac:(lia)) as [u1 E1]. rewrite E1. apply IH2. lia.
  - (* PF_call *)
    intros a ts args mid e rest H1 _ [f1 IH1] _ [f2 IH2]. exists (S (Nat.max f1 f2)).
    intros [|f] Hf u0; [lia|].
    rewrite parse_postfix_S, H1. destruct (IH1 f ltac:(lia)) as [u1 E1]. rewrite E1. apply IH2. lia.
  - (* PF_index *)
    intros a ts idx mid e rest H1 _ [f1 IH1] Hc _ [f2 IH2]. exists (S (S (Nat.max f1 f2))).
    intros [|[|f]] Hf u0; try lia.
    rewrite parse_postfix_S, H1. rewrite expression_is_level0.
    destruct (IH1 f ltac:(lia)) as [u1 E1]. rewrite E1, Hc. cbn [negb]. apply IH2. lia.
  - (* PA_nil *)
    intros c ts Hc. exists 1. intros [|f] Hf; [lia|]. rewrite parse_args_S, Hc. eauto.
  - (* PA_some *)
    intros c ts args rest Hc _ [f0 IH]. exists (S f0). intros [|f] Hf; [lia|].
    rewrite parse_args_S, Hc. apply IH. lia.
  - (* PAL_last *)
    intros c acc ts e mid _ [f0 IH] Hc. exists (S f0). intros [|f] Hf u0; [lia|].
    rewrite parse_args_loop_S. destruct (IH f ltac:(lia)) as [u1 E1]. rewrite E1, Hc. eauto.
  - (* PAL_trailing *)
    intros c acc ts e mid _ [f0 IH] Hc Hcomma Hc2. exists (S f0). intros [|f] Hf u0; [lia|].
    rewrite parse_args_loop_S. destruct (IH f ltac:(lia)) as [u1 E1]. rewrite E1, Hc, Hcomma, Hc2.
    cbn [negb]. eauto.
  - (* PAL_more *)
    intros c acc ts e mid args rest _ [f1 IH1] Hc Hcomma Hc2 _ [f2 IH2]. exists (S (Nat.max f1 f2)).
    intros [|f] Hf u0; [lia|].
    rewrite parse_args_loop_S. destruct (IH1 f ltac:(lia)) as [u1 E1]. rewrite E1, Hc, Hcomma, Hc2.
    cbn [negb]. apply IH2. lia.
Qed.

End Rel.
