(* Specification side of C03: what it means that a token list is a rendering of an expression tree
   for a given operator table.  Independent of the parsing algorithm: a rendering tree [rt] is an
   expression tree with explicit parentheses; [flatten] writes its tokens, [erase] gives the AST it
   denotes (grouping = tree structure, Priority = position in the table), and [wf] states where
   parentheses may be omitted:
     - operands of the binary operator of level j: left operand of level >= j (left associative),
       right operand of level >= j+1;
     - a prefix operator that is also the binary operator of level p takes an operand of level >= p+1,
       a pure prefix operator takes a postfix expression;
     - postfix forms (.name, .name(args), (args), [index]) apply to postfix expressions only, and a
       call never applies to a bare member access (that is a method call);
     - follow bound: an unparenthesised operand that ends in a prefix operator of level p may be
       followed only by operators of level <= p ([ab], "maximal following operand").
   Definitions only. *)
From P2 Require Import Base.Prelude Lex.Token Syn.Ast Syn.Parse.
Local Open Scope N_scope.

Inductive rt :=
| RIdent (name : str)
| RNum (img : str)
| RStr (s : str)
| RParen (r : rt)
| RBin (j : nat) (l r : rt)
| RUn (u : str) (e : rt)
| RAccess (e : rt) (name : str)
| RMethod (e : rt) (name : str) (a : rargs)
| RCall (e : rt) (a : rargs)
| RIndex (e : rt) (i : rt)
| RList (a : rargs)
with rargs :=
| RA_nil                          (* just the closing token: no (more) elements *)
| RA_last (e : rt)                (* e close *)
| RA_cons (e : rt) (r : rargs).   (* e , r      (r = RA_nil: trailing comma) *)

Scheme rt_mut := Induction for rt Sort Prop
  with rargs_mut := Induction for rargs Sort Prop.
Combined Scheme rt_rargs_ind from rt_mut, rargs_mut.

Definition k_op (s : str) : tk := (tOperate, s).
Definition k_ident (s : str) : tk := (tIdent, s).
Definition k_num (s : str) : tk := (tNumber, s).
Definition k_str (s : str) : tk := (tString, s).
Definition k_open : tk := (tOpen, [40]).
Definition k_close : tk := (tClose, [41]).
Definition k_obr : tk := (tOpenBracket, [91]).
Definition k_cbr : tk := (tCloseBracket, [93]).
Definition k_dot : tk := (tDot, [46]).
Definition k_comma : tk := (tComma, [44]).

(* first position of a spelling in the table *)
Fixpoint level_of (ops : list str) (u : str) : option nat :=
  match ops with
  | [] => None
  | o :: r => if str_eqb u o then Some O else option_map S (level_of r u)
  end.

Fixpoint parens (k : nat) (r : rt) : rt :=
  match k with O => r | S k' => RParen (parens k' r) end.

Section Render.
Variable cfg : pcfg.
Variable ids : idents.
Let ops := c_ops cfg.
Let n := length ops.

Fixpoint flatten (r : rt) : list tk :=
  match r with
  | RIdent x => [k_ident x]
  | RNum i => [k_num i]
  | RStr s => [k_str s]
  | RParen r' => k_open :: flatten r' ++ [k_close]
  | RBin j l r' => flatten l ++ k_op (nth j ops []) :: flatten r'
  | RUn u e => k_op u :: flatten e
  | RAccess e x => flatten e ++ [k_dot; k_ident x]
  | RMethod e x a => flatten e ++ k_dot :: k_ident x :: k_open :: flatten_args k_close a
  | RCall e a => flatten e ++ k_open :: flatten_args k_close a
  | RIndex e i => flatten e ++ k_obr :: flatten i ++ [k_cbr]
  | RList a => k_obr :: flatten_args k_cbr a
  end
with flatten_args (c : tk) (a : rargs) : list tk :=
  match a with
  | RA_nil => [c]
  | RA_last e => flatten e ++ [c]
  | RA_cons e r => flatten e ++ k_comma :: flatten_args c r
  end.

(* the AST a rendering tree denotes; None if an atom does not denote (unknown identifier, number
   the number parser rejects, literal kind not configured) or an operator level is not in the table *)
Fixpoint erase (r : rt) : option ast :=
  match r with
  | RIdent x => resolve ids x
  | RNum i => match c_num cfg with Some np => option_map AConst (np i) | None => None end
  | RStr s => match c_strh cfg with Some sh => Some (AConst (sh s)) | None => None end
  | RParen r' => erase r'
  | RBin j l r' =>
      match nth_error ops j, erase l, erase r' with
      | Some o, Some a, Some b => Some (AOp o (N.of_nat j) a b)
      | _, _, _ => None
      end
  | RUn u e => option_map (AUn u) (erase e)
  | RAccess e x => option_map (AAccess x) (erase e)
  | RMethod e x a =>
      match erase e, erase_args a with
      | Some v, Some args => Some (AMethod x args v)
      | _, _ => None
      end
  | RCall e a =>
      match erase e, erase_args a with
      | Some f, Some args => Some (ACall f args)
      | _, _ => None
      end
  | RIndex e i =>
      match erase e, erase i with
      | Some l, Some ix => Some (AIndex ix l)
      | _, _ => None
      end
  | RList a => option_map AListLit (erase_args a)
  end
with erase_args (a : rargs) : option (list ast) :=
  match a with
  | RA_nil => Some []
  | RA_last e => option_map (fun x => [x]) (erase e)
  | RA_cons e r =>
      match erase e, erase_args r with
      | Some x, Some l => Some (x :: l)
      | _, _ => None
      end
  end.

(* level of a rendering: binary j, prefix n, postfix/atom/parenthesised n+1 *)
Definition lvl (r : rt) : nat :=
  match r with RBin j _ _ => j | RUn _ _ => n | _ => S n end.

(* follow bound: operators of level >= ab r directly after r would be taken into r's last operand *)
Fixpoint ab (r : rt) : nat :=
  match r with
  | RBin _ _ r' => ab r'
  | RUn u e => match level_of ops u with Some p => Nat.min (S p) (ab e) | None => n end
  | _ => n
  end.

Definition is_access (r : rt) : bool := match r with RAccess _ _ => true | _ => false end.

Fixpoint wf (r : rt) : bool :=
  match r with
  | RIdent _ | RNum _ | RStr _ => true
  | RParen r' => wf r'
  | RBin j l r' =>
      (j <? n)%nat && wf l && wf r' && (j <=? lvl l)%nat && (j <? ab l)%nat && (S j <=? lvl r')%nat
  | RUn u e =>
      mem_str u (c_unary cfg) && wf e &&
      match level_of ops u with
      | Some p => (S p <=? lvl e)%nat
      | None => (lvl e =? S n)%nat
      end
  | RAccess e _ => wf e && (lvl e =? S n)%nat
  | RMethod e _ a => wf e && (lvl e =? S n)%nat && wf_args a
  | RCall e a => wf e && (lvl e =? S n)%nat && negb (is_access e) && wf_args a
  | RIndex e i => wf e && (lvl e =? S n)%nat && wf i
  | RList a => wf_args a
  end
with wf_args (a : rargs) : bool :=
  match a with
  | RA_nil => true
  | RA_last e => wf e
  | RA_cons e r => wf e && wf_args r
  end.

(* THE specification relation: token list t is a rendering of the tree e *)
Definition renders (e : ast) (t : list tk) : Prop :=
  exists r, wf r = true /\ erase r = Some e /\ flatten r = t.

(* ---------- printers: surface tree (parentheses in the input are ignored) -> rendering tree ---------- *)
(* [d] chooses how many redundant pairs of parentheses are put around each node. *)
Definition need (b : bool) (r : rt) : rt := if b then r else RParen r.

Fixpoint pp (d : rt -> nat) (r : rt) : rt :=
  match r with
  | RIdent _ | RNum _ | RStr _ => parens (d r) r
  | RParen r' => pp d r'
  | RBin j l r' =>
      let l' := pp d l in let r'' := pp d r' in
      parens (d r) (RBin j (need ((j <=? lvl l')%nat && (j <? ab l')%nat) l') (need (S j <=? lvl r'')%nat r''))
  | RUn u e =>
      let e' := pp d e in
      parens (d r) (RUn u (need (match level_of ops u with
                                 | Some p => (S p <=? lvl e')%nat
                                 | None => (lvl e' =? S n)%nat
                                 end) e'))
  | RAccess e x => let e' := pp d e in parens (d r) (RAccess (need (lvl e' =? S n)%nat e') x)
  | RMethod e x a =>
      let e' := pp d e in parens (d r) (RMethod (need (lvl e' =? S n)%nat e') x (pp_args d a))
  | RCall e a =>
      let e' := pp d e in
      parens (d r) (RCall (need ((lvl e' =? S n)%nat && negb (is_access e')) e') (pp_args d a))
  | RIndex e i => let e' := pp d e in parens (d r) (RIndex (need (lvl e' =? S n)%nat e') (pp d i))
  | RList a => parens (d r) (RList (pp_args d a))
  end
with pp_args (d : rt -> nat) (a : rargs) : rargs :=
  match a with
  | RA_nil => RA_nil
  | RA_last e => RA_last (pp d e)
  | RA_cons e r => RA_cons (pp d e) (pp_args d r)
  end.

Definition is_atom (r : rt) : bool :=
  match r with RIdent _ | RNum _ | RStr _ => true | _ => false end.

Definition pp_min : rt -> rt := pp (fun _ => O).
Definition pp_full : rt -> rt := pp (fun r => if is_atom r then O else 1%nat).

(* a surface tree is meaningful for the table: levels exist, prefix operators are declared *)
Fixpoint shape (r : rt) : bool :=
  match r with
  | RIdent _ | RNum _ | RStr _ => true
  | RParen r' => shape r'
  | RBin j l r' => (j <? n)%nat && shape l && shape r'
  | RUn u e => mem_str u (c_unary cfg) && shape e
  | RAccess e _ => shape e
  | RMethod e _ a => shape e && shape_args a
  | RCall e a => shape e && shape_args a
  | RIndex e i => shape e && shape i
  | RList a => shape_args a
  end
with shape_args (a : rargs) : bool :=
  match a with
  | RA_nil => true
  | RA_last e => shape e
  | RA_cons e r => shape e && shape_args r
  end.

End Render.

(* ---------- side conditions on tables and token lists ---------- *)
Fixpoint nodup_str (l : list str) : bool :=
  match l with [] => true | x :: r => negb (mem_str x r) && nodup_str r end.

(* pairwise distinct binary operators, none of them the closure arrow *)
Definition table_ok (cfg : pcfg) : bool :=
  nodup_str (c_ops cfg) && negb (mem_str s_arrow (c_ops cfg)).

(* tokens of the expression fragment, as the tokenizer writes them *)
Definition frag_tok (t : tk) : bool :=
  match ktyp t with
  | tIdent | tNumber | tString => true
  | tOperate => negb (str_eqb (kimg t) s_arrow)
  | tOpen => str_eqb (kimg t) [40]
  | tClose => str_eqb (kimg t) [41]
  | tOpenBracket => str_eqb (kimg t) [91]
  | tCloseBracket => str_eqb (kimg t) [93]
  | tDot => str_eqb (kimg t) [46]
  | tComma => str_eqb (kimg t) [44]
  | _ => false
  end.
Definition frag_toks (ts : list tk) : bool := forallb frag_tok ts.

(* brackets are balanced and properly nested *)
Fixpoint balanced_from (stack : list ttype) (ts : list tk) : bool :=
  match ts with
  | [] => match stack with [] => true | _ => false end
  | t :: r =>
      match ktyp t with
      | tOpen => balanced_from (tClose :: stack) r
      | tOpenBracket => balanced_from (tCloseBracket :: stack) r
      | tOpenCurly => balanced_from (tCloseCurly :: stack) r
      | tClose | tCloseBracket | tCloseCurly =>
          match stack with
          | c :: s => if ttype_eqb c (ktyp t) then balanced_from s r else false
          | [] => false
          end
      | _ => balanced_from stack r
      end
  end.
Definition balanced (ts : list tk) : bool := balanced_from [] ts.
