(* Position-carrying model of parser2.go: Syn/Parse.v function by function (same fuel, same structure, same tests on
   the same tokens), on tokens that carry an ANNOTATION, and with an error result that carries the annotation of the
   token the Go code builds the error from (t.Errorf / unexpected(..., t) / found.Errorf / t.EnhanceErrorf: the
   embedded Line of that Token becomes errorWithLine.line).

   Every error of parser2.go is created from the token returned by the tokenizer.Next() call just before it (never
   from the previous token, never from a token that was only peeked):
     parseLet        no identifier behind let / func; missing = ; missing ( ; missing ; behind the value / the body
     parseNonOperator  missing identifier behind . ; missing ]
     parseLiteral    identifier not found; missing catch / then / else; a keyword that starts no expression; case or
                     default expected; missing : behind a case; not a number (EnhanceErrorf keeps the line of the number
                     token); number / string without a handler and every other token type (unexpected token type);
                     missing -> behind a parameter list; missing )
     parseArgs       neither the closer nor a comma behind an element
     parseMap        key used twice; missing : ; neither , nor } behind an entry (found := tokenizer.Next(), commit
                     8ea594d); a key that is not an identifier
     parseIdentList  not an identifier; used twice; neither , nor )
     Parse           a token behind the complete expression (expected EOF)
   In the model: the error carries  ann ts'  where ts' is the token list whose head is that token.  Behind the end of
   the stream Next() yields the pseudo token TokenEof = Token{tEof, "EOF", -1}: ann [] = None (line -1: Error() prints
   no line for it, VerifLine returns -1).

   The annotation type is a parameter: instantiated with lines (N) this is the line the real parser reports,
   instantiated with positions (nat) it identifies WHICH token the error is built from (Syn/ParsePosProofs.v relates
   the two by naturality).  Definitions only. *)
From P2 Require Import Base.Prelude Lex.Token Syn.Ast Syn.Parse.
Local Open Scope N_scope.

Section Pos.
Variable A : Type.                        (* what a token carries besides type and image *)

Definition atk := (tk * A)%type.
Definition toks_of (ts : list atk) : list tk := map fst ts.

Inductive qres (R : Type) :=
| QOk (r : R)
| QErr (a : option A)   (* an error value built from a token: Some a = a token of the stream annotated a, None = TokenEof *)
| QPanic
| QOOF.
Arguments QOk {R} _. Arguments QErr {R} _. Arguments QPanic {R}. Arguments QOOF {R}.

(* Peek / PeekPeek / Next: the same tokens as Parse.peek / peek2 / adv on the erased list *)
Definition ppeek (ts : list atk) : tk := peek (toks_of ts).
Definition ppeek2 (ts : list atk) : tk := peek2 (toks_of ts).
Definition padv (ts : list atk) : list atk := match ts with _ :: r => r | [] => [] end.
(* the Line embedded in the token Next() returns *)
Definition ann (ts : list atk) : option A := match ts with (_, a) :: _ => Some a | [] => None end.

Definition qr (R : Type) := qres (R * list str * list atk).

Variable cfg : pcfg.
Let ops := c_ops cfg.
Let nops := length ops.

(* parseIdentList: the opening parenthesis is already consumed *)
Fixpoint pparse_identlist (fuel : nat) (names : list str) (ts : list atk) : qres (list str * list atk) :=
  match fuel with O => QOOF | S f =>
    let t := ppeek ts in let ts1 := padv ts in
    if typ_is t tIdent then
      if mem_str (kimg t) names then QErr (ann ts)
      else
        let names' := names ++ [kimg t] in
        let t2 := ppeek ts1 in let ts2 := padv ts1 in
        match ktyp t2 with
        | tClose => QOk (names', ts2)
        | tComma => pparse_identlist f names' ts2
        | _ => QErr (ann ts1)
        end
    else QErr (ann ts)
  end.

Fixpoint pparse_let (fuel : nat) (ids : idents) (ts : list atk) {struct fuel} : qr ast :=
  match fuel with O => QOOF | S f =>
    let t := ppeek ts in
    if is_kw t s_let then
      let ts1 := padv ts in
      let t1 := ppeek ts1 in let ts2 := padv ts1 in
      if negb (typ_is t1 tIdent) then QErr (ann ts1) else
      let name := kimg t1 in
      let t2 := ppeek ts2 in let ts3 := padv ts2 in
      if negb (is_op t2 s_assign) then QErr (ann ts2) else
      match pparse_expression f ids ts3 with
      | QOk (exp, u1, ts4) =>
          let t4 := ppeek ts4 in let ts5 := padv ts4 in
          if negb (typ_is t4 tSemicolon && str_eqb (kimg t4) s_semi) then QErr (ann ts4) else
          match is_const exp with
          | Some c =>
              let layer := id_constant name c in
              match pparse_let f (layer :: ids) ts5 with
              | QOk (inner, u2, ts6) => QOk (inner, u1 ++ escape layer u2, ts6)
              | r => r
              end
          | None =>
              let layer := id_var name in
              match pparse_let f (layer :: ids) ts5 with
              | QOk (inner, u2, ts6) => QOk (ALet name exp inner, u1 ++ escape layer u2, ts6)
              | r => r
              end
          end
      | r => r
      end
    else if is_kw t s_func then
      let ts1 := padv ts in
      let t1 := ppeek ts1 in let ts2 := padv ts1 in
      if negb (typ_is t1 tIdent) then QErr (ann ts1) else
      let name := kimg t1 in
      let t2 := ppeek ts2 in let ts3 := padv ts2 in
      if negb (typ_is t2 tOpen) then QErr (ann ts2) else
      match pparse_identlist (S (length ts3)) [] ts3 with
      | QOk (names, ts4) =>
          match pparse_let f (SThis name :: SArgs names :: ids) ts4 with
          | QOk (exp, ub, ts5) =>
              let t5 := ppeek ts5 in let ts6 := padv ts5 in
              if negb (typ_is t5 tSemicolon && str_eqb (kimg t5) s_semi) then QErr (ann ts5) else
              let recursive := mem_str name ub in
              let ua := escape (SThis name) ub in
              let clo := AClosure names exp (outers_of ids names ua) recursive name in
              let layer := id_var name in
              match pparse_let f (layer :: ids) ts6 with
              | QOk (inner, u2, ts7) =>
                  QOk (ALet name clo inner, escape (SArgs names) ua ++ escape layer u2, ts7)
              | r => r
              end
          | r => r
          end
      | QErr a => QErr a | QPanic => QPanic | QOOF => QOOF
      end
    else pparse_expression f ids ts
  end

(* parseExpression *)
with pparse_expression (fuel : nat) (ids : idents) (ts : list atk) {struct fuel} : qr ast :=
  match fuel with O => QOOF | S f =>
    if (nops =? 0)%nat then pparse_unary f ids ts else pparse_op f O ids ts
  end

(* parseOp(op): next := nextParserCall(op); operator := p.operators[op]; a := next(); loop *)
with pparse_op (fuel : nat) (op : nat) (ids : idents) (ts : list atk) {struct fuel} : qr ast :=
  match fuel with O => QOOF | S f =>
    match nth_error ops op with
    | None => QPanic                                   (* p.operators[op]: index out of range *)
    | Some operator =>
        match (if (S op <? nops)%nat then pparse_op f (S op) ids ts else pparse_unary f ids ts) with
        | QOk (a, u, ts1) => pparse_op_loop f op operator a u ids ts1
        | r => r
        end
    end
  end

with pparse_op_loop (fuel : nat) (op : nat) (operator : str) (a : ast) (u : list str)
                   (ids : idents) (ts : list atk) {struct fuel} : qr ast :=
  match fuel with O => QOOF | S f =>
    if is_op (ppeek ts) operator then
      let ts1 := padv ts in
      match (if (S op <? nops)%nat then pparse_op f (S op) ids ts1 else pparse_unary f ids ts1) with
      | QOk (b, u2, ts2) => pparse_op_loop f op operator (AOp operator (N.of_nat op) a b) (u ++ u2) ids ts2
      | r => r
      end
    else QOk (a, u, ts)
  end

(* parseUnary *)
with pparse_unary (fuel : nat) (ids : idents) (ts : list atk) {struct fuel} : qr ast :=
  match fuel with O => QOOF | S f =>
    let t := ppeek ts in
    if typ_is t tOperate && mem_str (kimg t) (c_unary cfg) then
      let ts1 := padv ts in
      match (match op_pos ops (kimg t) with
             | Some p => (* also a binary operator: nextParserCall(opPos) *)
                 if (S p <? nops)%nat then pparse_op f (S p) ids ts1 else pparse_unary f ids ts1
             | None => pparse_nonop f ids ts1
             end) with
      | QOk (inner, u, ts2) => QOk (AUn (kimg t) inner, u, ts2)
      | r => r
      end
    else pparse_nonop f ids ts
  end

(* parseNonOperator *)
with pparse_nonop (fuel : nat) (ids : idents) (ts : list atk) {struct fuel} : qr ast :=
  match fuel with O => QOOF | S f =>
    match pparse_literal f ids ts with
    | QOk (e, u, ts1) => pparse_postfix f e u ids ts1
    | r => r
    end
  end

with pparse_postfix (fuel : nat) (e : ast) (u : list str) (ids : idents) (ts : list atk) {struct fuel} : qr ast :=
  match fuel with O => QOOF | S f =>
    match ktyp (ppeek ts) with
    | tDot =>
        let ts1 := padv ts in
        let t := ppeek ts1 in let ts2 := padv ts1 in
        if negb (typ_is t tIdent) then QErr (ann ts1) else
        let name := kimg t in
        if negb (typ_is (ppeek ts2) tOpen) then pparse_postfix f (AAccess name e) u ids ts2
        else
          let ts3 := padv ts2 in
          match pparse_args f tClose ids ts3 with
          | QOk (args, u2, ts4) => pparse_postfix f (AMethod name args e) (u ++ u2) ids ts4
          | QErr a => QErr a | QPanic => QPanic | QOOF => QOOF
          end
    | tOpen =>
        let ts1 := padv ts in
        match pparse_args f tClose ids ts1 with
        | QOk (args, u2, ts2) => pparse_postfix f (ACall e args) (u ++ u2) ids ts2
        | QErr a => QErr a | QPanic => QPanic | QOOF => QOOF
        end
    | tOpenBracket =>
        let ts1 := padv ts in
        match pparse_expression f ids ts1 with
        | QOk (idx, u2, ts2) =>
            let t := ppeek ts2 in let ts3 := padv ts2 in
            if negb (typ_is t tCloseBracket) then QErr (ann ts2)
            else pparse_postfix f (AIndex idx e) (u ++ u2) ids ts3
        | r => r
        end
    | _ => QOk (e, u, ts)
    end
  end

(* parseLiteral *)
with pparse_literal (fuel : nat) (ids : idents) (ts : list atk) {struct fuel} : qr ast :=
  match fuel with O => QOOF | S f =>
    let t := ppeek ts in let ts1 := padv ts in
    match ktyp t with
    | tIdent =>
        let name := kimg t in
        if is_op (ppeek ts1) s_arrow then
          let ts2 := padv ts1 in
          match pparse_let f (SArgs [name] :: ids) ts2 with
          | QOk (e, ub, ts3) =>
              QOk (AClosure [name] e (outers_of ids [name] ub) false [], escape (SArgs [name]) ub, ts3)
          | r => r
          end
        else
          match resolve ids name with
          | Some a => QOk (a, [name], ts1)
          | None => QErr (ann ts)
          end
    | tKeyWord =>
        let name := kimg t in
        if str_eqb name s_try then
          match pparse_let f ids ts1 with
          | QOk (tryExp, u1, ts2) =>
              let t2 := ppeek ts2 in let ts3 := padv ts2 in
              if negb (is_kw t2 s_catch) then QErr (ann ts2) else
              match pparse_let f ids ts3 with
              | QOk (catchExp, u2, ts4) => QOk (ATry tryExp catchExp, u1 ++ u2, ts4)
              | r => r
              end
          | r => r
          end
        else if str_eqb name s_if then
          match pparse_expression f ids ts1 with
          | QOk (cond, u1, ts2) =>
              let t2 := ppeek ts2 in let ts3 := padv ts2 in
              if negb (is_kw t2 s_then) then QErr (ann ts2) else
              match pparse_let f ids ts3 with
              | QOk (thenExp, u2, ts4) =>
                  let t4 := ppeek ts4 in let ts5 := padv ts4 in
                  if negb (is_kw t4 s_else) then QErr (ann ts4) else
                  match pparse_let f ids ts5 with
                  | QOk (elseExp, u3, ts6) => QOk (AIf cond thenExp elseExp, u1 ++ u2 ++ u3, ts6)
                  | r => r
                  end
              | r => r
              end
          | r => r
          end
        else if str_eqb name s_switch then
          match pparse_expression f ids ts1 with
          | QOk (sv, u1, ts2) => pparse_switch f sv [] u1 ids ts2
          | r => r
          end
        else QErr (ann ts)
    | tOpenCurly => pparse_map f [] [] ids ts1
    | tOpenBracket =>
        match pparse_args f tCloseBracket ids ts1 with
        | QOk (args, u, ts2) => QOk (AListLit args, u, ts2)
        | QErr a => QErr a | QPanic => QPanic | QOOF => QOOF
        end
    | tNumber =>
        match c_num cfg with
        | Some np => match np (kimg t) with
                     | Some c => QOk (AConst c, [], ts1)
                     | None => QErr (ann ts)
                     end
        | None => QErr (ann ts)
        end
    | tString =>
        match c_strh cfg with
        | Some sh => QOk (AConst (sh (kimg t)), [], ts1)
        | None => QErr (ann ts)
        end
    | tOpen =>
        if typ_is (ppeek ts1) tIdent && typ_is (ppeek2 ts1) tComma then
          match pparse_identlist (S (length ts1)) [] ts1 with
          | QOk (names, ts2) =>
              let t2 := ppeek ts2 in let ts3 := padv ts2 in
              if negb (is_op t2 s_arrow) then QErr (ann ts2) else
              match pparse_let f (SArgs names :: ids) ts3 with
              | QOk (e, ub, ts4) =>
                  QOk (AClosure names e (outers_of ids names ub) false [], escape (SArgs names) ub, ts4)
              | r => r
              end
          | QErr a => QErr a | QPanic => QPanic | QOOF => QOOF
          end
        else
          match pparse_expression f ids ts1 with
          | QOk (e, u, ts2) =>
              let t2 := ppeek ts2 in let ts3 := padv ts2 in
              if negb (typ_is t2 tClose) then QErr (ann ts2) else QOk (e, u, ts3)
          | r => r
          end
    | _ => QErr (ann ts)
    end
  end

(* the for loop of the switch branch of parseLiteral *)
with pparse_switch (fuel : nat) (sv : ast) (cases : list (ast * ast)) (u : list str)
                  (ids : idents) (ts : list atk) {struct fuel} : qr ast :=
  match fuel with O => QOOF | S f =>
    let t := ppeek ts in let ts1 := padv ts in
    if typ_is t tKeyWord then
      if str_eqb (kimg t) s_case then
        match pparse_expression f ids ts1 with
        | QOk (cc, u1, ts2) =>
            let t2 := ppeek ts2 in let ts3 := padv ts2 in
            if negb (typ_is t2 tColon) then QErr (ann ts2) else
            match pparse_let f ids ts3 with
            | QOk (res, u2, ts4) => pparse_switch f sv (cases ++ [(cc, res)]) (u ++ u1 ++ u2) ids ts4
            | r => r
            end
        | r => r
        end
      else if str_eqb (kimg t) s_default then
        match pparse_let f ids ts1 with
        | QOk (res, u1, ts2) => QOk (ASwitch sv cases res, u ++ u1, ts2)
        | r => r
        end
      else QErr (ann ts)
    else QErr (ann ts)
  end

(* parseArgs(closeList): the opening token is already consumed *)
with pparse_args (fuel : nat) (close : ttype) (ids : idents) (ts : list atk) {struct fuel}
  : qr (list ast) :=
  match fuel with O => QOOF | S f =>
    if typ_is (ppeek ts) close then QOk ([], [], padv ts)
    else pparse_args_loop f close [] [] ids ts
  end

with pparse_args_loop (fuel : nat) (close : ttype) (acc : list ast) (u : list str)
                     (ids : idents) (ts : list atk) {struct fuel} : qr (list ast) :=
  match fuel with O => QOOF | S f =>
    match pparse_let f ids ts with
    | QOk (element, u1, ts1) =>
        let args := acc ++ [element] in
        let t := ppeek ts1 in let ts2 := padv ts1 in
        if typ_is t close then QOk (args, u ++ u1, ts2)
        else if negb (typ_is t tComma) then QErr (ann ts1)
        else if typ_is (ppeek ts2) close then QOk (args, u ++ u1, padv ts2)
        else pparse_args_loop f close args (u ++ u1) ids ts2
    | QErr a => QErr a | QPanic => QPanic | QOOF => QOOF
    end
  end

(* parseMap: the opening brace is already consumed *)
with pparse_map (fuel : nat) (m : list (str * ast)) (u : list str) (ids : idents) (ts : list atk)
               {struct fuel} : qr ast :=
  match fuel with O => QOOF | S f =>
    let t := ppeek ts in let ts1 := padv ts in
    match ktyp t with
    | tCloseCurly => QOk (AMapLit m, u, ts1)
    | tIdent =>
        if mem_str (kimg t) (map fst m) then QErr (ann ts) else
        let c := ppeek ts1 in let ts2 := padv ts1 in
        if negb (typ_is c tColon) then QErr (ann ts1) else
        match pparse_let f ids ts2 with
        | QOk (entry, u1, ts3) =>
            let m' := m ++ [(kimg t, entry)] in
            if typ_is (ppeek ts3) tComma then pparse_map f m' (u ++ u1) ids (padv ts3)
            else if negb (typ_is (ppeek ts3) tCloseCurly) then QErr (ann ts3)
            else pparse_map f m' (u ++ u1) ids ts3
        | r => r
        end
    | _ => QErr (ann ts)
    end
  end.

(* Parser.Parse after tokenizing: parseLet, then t := tokenizer.Next(); t.typ != tEof -> unexpected("EOF", t) *)
Definition pparse_fuel (fuel : nat) (ids : idents) (ts : list atk) : qres ast :=
  match pparse_let fuel ids ts with
  | QOk (a, _, rest) => if typ_is (ppeek rest) tEof then QOk a else QErr (ann rest)
  | QErr a => QErr a | QPanic => QPanic | QOOF => QOOF
  end.

Definition pparse (ids : idents) (ts : list atk) : qres ast := pparse_fuel (fuel_for cfg (toks_of ts)) ids ts.

End Pos.

Arguments QOk {A R} _. Arguments QErr {A R} _. Arguments QPanic {A R}. Arguments QOOF {A R}.
Arguments ppeek {A} _. Arguments ppeek2 {A} _. Arguments padv {A} _. Arguments ann {A} _. Arguments toks_of {A} _.

(* ---------- the two instances ---------- *)
(* tokens of Lex/Token.v with their lines: what Parser.Parse receives *)
Definition with_line (t : token) : tk * N := (untok t, tline t).
(* the line Parser.Parse reports for the tokens ts: QErr (Some l) = an error "... in line l", QErr None = an error
   built from TokenEof (no line) *)
Definition parse_pos (cfg : pcfg) (ids : idents) (ts : list token) : qres N ast :=
  pparse N cfg ids (map with_line ts).

(* tokens numbered by their position in the stream: which token the error is built from *)
Fixpoint number_from {X : Type} (i : nat) (l : list X) : list (X * nat) :=
  match l with [] => [] | x :: r => (x, i) :: number_from (S i) r end.
Definition parse_idx (cfg : pcfg) (ids : idents) (ts : list tk) : qres nat ast :=
  pparse nat cfg ids (number_from O ts).

(* forgetting the position *)
Definition erase {A R : Type} (r : qres A R) : pres R :=
  match r with QOk x => POk x | QErr _ => PErr | QPanic => PPanic | QOOF => POOF end.
