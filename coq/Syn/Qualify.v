(* C16 - implicit-attribute mode (GenerateWithMap) against explicit member access: definitions.

   GenerateWithMap(exp, m) parses exp with the chain   g.identifier.AddMap(m).AddArgs([m])   ,
   Generate(exp', m)        parses exp' with            g.identifier.AddArgs([m])             .
   Inside the program the parser pushes local layers L (let / func / closure parameters, constants found
   by let) on top of either chain.  [free_attr] is the specification of "x is an attribute use": x is not bound by
   a local layer, is not the map itself, and is not a constant or static function of the generator; it is
   defined on the chain WITHOUT the AddMap layer.  [qualify] writes every such identifier as ( m . x ). *)
From P2 Require Import Base.Prelude Lex.Token Syn.Ast Syn.Parse Syn.Render.
Local Open Scope N_scope.

Section Qualify.
Variable m : str.          (* the name of the map argument *)
Variable B : idents.       (* g.identifier: the generator's constants and static functions *)

Definition wm_chain (L : idents) : idents := L ++ [SArgs [m]; SMap m] ++ B.
Definition pl_chain (L : idents) : idents := L ++ [SArgs [m]] ++ B.

(* the layer answers the lookup of x itself *)
Definition answers (s : scope) (x : str) : bool :=
  match s with
  | SAdd i => str_eqb x (id_name i)
  | SThis n => str_eqb x n
  | SArgs ns => mem_str x ns
  | SMap _ => true
  end.
Definition bound_in (L : idents) (x : str) : bool := existsb (fun s => answers s x) L.

(* layers the parser pushes: everything but AddMap *)
Definition local (L : idents) : bool :=
  forallb (fun s => match s with SMap _ => false | _ => true end) L.

Definition free_attr (L : idents) (x : str) : bool :=
  negb (bound_in L x) && negb (str_eqb x m) &&
  match lookup B x with Some i => negb (id_const i) | None => true end.

(* the name a lookup of x concerns after qualification *)
Definition qname (L : idents) (x : str) : str := if free_attr L x then m else x.

Fixpoint qualify (L : idents) (r : rt) : rt :=
  match r with
  | RIdent x => if free_attr L x then RParen (RAccess (RIdent m) x) else RIdent x
  | RNum _ | RStr _ => r
  | RParen r' => RParen (qualify L r')
  | RBin j l r' => RBin j (qualify L l) (qualify L r')
  | RUn u e => RUn u (qualify L e)
  | RAccess e x => RAccess (qualify L e) x
  | RMethod e x a => RMethod (qualify L e) x (qualify_args L a)
  | RCall e a => RCall (qualify L e) (qualify_args L a)
  | RIndex e i => RIndex (qualify L e) (qualify L i)
  | RList a => RList (qualify_args L a)
  end
with qualify_args (L : idents) (a : rargs) : rargs :=
  match a with
  | RA_nil => RA_nil
  | RA_last e => RA_last (qualify L e)
  | RA_cons e r => RA_cons (qualify L e) (qualify_args L r)
  end.

(* AddArgs before the repair "closures inside GenerateWithMap expressions capture the implicit map": the
   attribute NAME was recorded instead of the map *)
Definition outers_of_old (c : idents) (names : list str) (u : list str) : list str :=
  dedup (filter (fun n => negb (mem_str n names) &&
                          match lookup c n with Some i => negb (id_const i) | None => false end) u) [].

End Qualify.
