(* T3 of the plan: TEXT to AST by theorem.  Composition of the tokenizer model (Lex/Tok.v, property C15) with the
   parser model (Syn/Parse.v, property C03) through the layouts of C15:
   for EVERY well-formed layout - lexemes separated by arbitrary runs of blanks, tabs, CR, LF, line and block
   comments - whose lexemes denote the tokens of a well-formed rendering tree of the full grammar, tokenizing the
   text and parsing the tokens yields exactly the annotated AST the tree denotes.  Lines do not matter to the AST. *)
From P2 Require Import Base.Prelude Lex.Token Syn.Ast Syn.Parse Syn.Render Syn.Full Syn.FullProofs.
From P2 Require Lex.Tok Lex.TokProofs.

Lemma untok_strip (toks : list token) : map untok toks = map P2.Lex.Tok.strip_line toks.
Proof. apply map_ext. intros t. reflexivity. Qed.

Theorem text_to_ast : forall (tc : P2.Lex.Tok.tcfg) (pc : pcfg) (ids : idents) items r e u,
  P2.Lex.TokProofs.ops_ok tc -> P2.Lex.TokProofs.wf_layout tc tInvalid false items ->
  P2.Lex.TokProofs.lexeme_tokens items = fflatten pc r ->
  table_ok pc = true -> fwf pc r = true -> ferase pc ids r = Some (e, u) ->
  parse_tokens pc ids (P2.Lex.Tok.tokenize tc (P2.Lex.Tok.layout_text items)) = POk e.
Proof.
  intros tc pc ids items r e u Ho Hw Hl Ht W E. unfold parse_tokens.
  rewrite (P2.Lex.TokProofs.tokenize_lex tc _ Ho).
  rewrite (P2.Lex.TokProofs.layout_correct tc _ _ items Ho Hw).
  rewrite untok_strip, P2.Lex.TokProofs.strip_expect, Hl.
  exact (parse_complete_full pc Ht ids r e u W E).
Qed.

(* any two well-formed layouts of the same lexemes give the same AST (or the same error) *)
Theorem text_layout_irrelevant : forall (tc : P2.Lex.Tok.tcfg) (pc : pcfg) (ids : idents) items items',
  P2.Lex.TokProofs.ops_ok tc ->
  P2.Lex.TokProofs.wf_layout tc tInvalid false items -> P2.Lex.TokProofs.wf_layout tc tInvalid false items' ->
  P2.Lex.TokProofs.lexeme_tokens items = P2.Lex.TokProofs.lexeme_tokens items' ->
  parse_tokens pc ids (P2.Lex.Tok.tokenize tc (P2.Lex.Tok.layout_text items))
  = parse_tokens pc ids (P2.Lex.Tok.tokenize tc (P2.Lex.Tok.layout_text items')).
Proof.
  intros tc pc ids items items' Ho H1 H2 He. unfold parse_tokens. rewrite !untok_strip.
  rewrite (P2.Lex.TokProofs.layout_invariance_lemma tc items items' Ho H1 H2 He). reflexivity.
Qed.
