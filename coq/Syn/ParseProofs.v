(* Proofs about the parser model (Syn/Parse.v) against the specification side (Syn/Render.v):
   completeness (every well-formed rendering parses to the tree it denotes), soundness (a successful
   parse accounts for every token as a well-formed rendering of its result), printer round trips,
   rejection of unbalanced input, absence of panics, a fuel bound. *)
From P2 Require Import Base.Prelude Base.PreludeProofs Lex.Token Syn.Ast Syn.Parse Syn.Render Syn.ParseRel.
Local Open Scope nat_scope.

(* ---------- small facts ---------- *)
Lemma ttype_eqb_eq a b : ttype_eqb a b = true <-> a = b.
Proof. split; [destruct a, b; simpl; intros H; try discriminate; reflexivity | intros ->; destruct b; reflexivity]. Qed.

Lemma typ_is_eq t ty : typ_is t ty = true <-> ktyp t = ty.
Proof. unfold typ_is. apply ttype_eqb_eq. Qed.

Lemma typ_is_false t ty : typ_is t ty = false <-> ktyp t <> ty.
Proof.
  unfold typ_is. split.
  - intros H E. apply ttype_eqb_eq in E. congruence.
  - intros H. destruct (ttype_eqb (ktyp t) ty) eqn:E; [|reflexivity]. apply ttype_eqb_eq in E. contradiction.
Qed.

Lemma is_op_eq t s : is_op t s = true <-> t = k_op s.
Proof.
  unfold is_op, k_op. destruct t as [ty img]. unfold typ_is, ktyp, kimg. simpl. split.
  - intros H. apply andb_true_iff in H. destruct H as [H1 H2].
    apply ttype_eqb_eq in H1. apply str_eqb_eq in H2. subst. reflexivity.
  - intros H. inversion H; subst. simpl. apply str_eqb_refl.
Qed.

Lemma mem_str_In s l : mem_str s l = true <-> In s l.
Proof.
  induction l as [|x l IH]; simpl; [split; [discriminate|tauto]|].
  rewrite orb_true_iff, IH, str_eqb_eq. split; intros [H|H]; auto.
Qed.

Lemma mem_str_false s l : mem_str s l = false <-> ~ In s l.
Proof.
  split.
  - intros H I. apply mem_str_In in I. congruence.
  - intros H. destruct (mem_str s l) eqn:E; [|reflexivity]. apply mem_str_In in E. contradiction.
Qed.

Lemma nodup_str_NoDup l : nodup_str l = true -> NoDup l.
Proof.
  induction l as [|x l IH]; simpl; intros H; [constructor|].
  apply andb_true_iff in H. destruct H as [H1 H2]. constructor; auto.
  apply negb_true_iff in H1. apply mem_str_false in H1. exact H1.
Qed.

Lemma level_of_none ops u : ~ In u ops -> level_of ops u = None.
Proof.
  induction ops as [|o r IH]; simpl; intros H; [reflexivity|].
  destruct (str_eqb u o) eqn:E; [apply str_eqb_eq in E; subst; tauto|]. rewrite IH; auto.
Qed.

Lemma level_of_nth ops j o : NoDup ops -> nth_error ops j = Some o -> level_of ops o = Some j.
Proof.
  intros ND. revert j. induction ND as [|x l Hx ND IH]; intros j H; [destruct j; discriminate|].
  destruct j as [|j]; simpl in *.
  - inversion H; subst. rewrite str_eqb_refl. reflexivity.
  - destruct (str_eqb o x) eqn:E.
    + apply str_eqb_eq in E. subst. exfalso. apply Hx. eapply nth_error_In; eauto.
    + rewrite (IH _ H). reflexivity.
Qed.

Lemma level_of_some ops u p : level_of ops u = Some p -> nth_error ops p = Some u.
Proof.
  revert p. induction ops as [|o r IH]; simpl; intros p H; [discriminate|].
  destruct (str_eqb u o) eqn:E.
  - inversion H; subst. apply str_eqb_eq in E. subst. reflexivity.
  - destruct (level_of r u) as [q|] eqn:L; simpl in H; [|discriminate]. inversion H; subst. simpl. auto.
Qed.

Lemma op_pos_from_level ops u i acc : NoDup ops ->
  op_pos_from u ops i acc = match level_of ops u with Some p => Some (i + p) | None => acc end.
Proof.
  intros ND. revert i acc. induction ND as [|x l Hx ND IH]; intros i acc; simpl; [reflexivity|].
  rewrite IH. destruct (str_eqb u x) eqn:E.
  - apply str_eqb_eq in E. subst. rewrite (level_of_none _ _ Hx). f_equal. lia.
  - destruct (level_of l u); simpl; [f_equal; lia|reflexivity].
Qed.

Lemma op_pos_level ops u : NoDup ops -> op_pos ops u = level_of ops u.
Proof. intros ND. unfold op_pos. rewrite op_pos_from_level by assumption. destruct (level_of ops u); reflexivity. Qed.

Section Proofs.
Variable cfg : pcfg.
Variable ids : idents.
Hypothesis Htable : table_ok cfg = true.
Let ops := c_ops cfg.
Let n := length ops.

Ltac nlia := unfold n, ops in *; lia.

Lemma ops_nodup : NoDup ops.
Proof.
  unfold table_ok in Htable. apply andb_true_iff in Htable. destruct Htable as [H _].
  apply nodup_str_NoDup. exact H.
Qed.

Lemma arrow_not_op : forall j, nth_error ops j <> Some s_arrow.
Proof.
  intros j H. unfold table_ok in Htable. apply andb_true_iff in Htable. destruct Htable as [_ H2].
  apply negb_true_iff in H2. apply mem_str_false in H2. apply H2. eapply nth_error_In; eauto.
Qed.

Notation flatten := (flatten cfg).
Notation flatten_args := (flatten_args cfg).
Notation erase := (erase cfg ids).
Notation erase_args := (erase_args cfg ids).
Notation wf := (wf cfg).
Notation wf_args := (wf_args cfg).
Notation lvl := (lvl cfg).
Notation ab := (ab cfg).
Notation PE := (PE cfg ids).
Notation PL := (PL cfg ids).
Notation LP := (LP cfg ids).
Notation PN := (PN cfg ids).
Notation PLit := (PLit cfg ids).
Notation PF := (PF cfg ids).
Notation PA := (PA cfg ids).
Notation PAL := (PAL cfg ids).

(* ---------- unfolding equations of the mutually recursive specification functions ---------- *)
Lemma flatten_RIdent x : flatten (RIdent x) = [k_ident x]. Proof. reflexivity. Qed.
Lemma flatten_RNum i : flatten (RNum i) = [k_num i]. Proof. reflexivity. Qed.
Lemma flatten_RStr x : flatten (RStr x) = [k_str x]. Proof. reflexivity. Qed.
Lemma flatten_RParen r : flatten (RParen r) = k_open :: flatten r ++ [k_close]. Proof. reflexivity. Qed.
Lemma flatten_RBin j l r : flatten (RBin j l r) = flatten l ++ k_op (nth j ops []) :: flatten r. Proof. reflexivity. Qed.
Lemma flatten_RUn u e : flatten (RUn u e) = k_op u :: flatten e. Proof. reflexivity. Qed.
Lemma flatten_RAccess e x : flatten (RAccess e x) = flatten e ++ [k_dot; k_ident x]. Proof. reflexivity. Qed.
Lemma flatten_RMethod e x a :
  flatten (RMethod e x a) = flatten e ++ k_dot :: k_ident x :: k_open :: flatten_args k_close a.
Proof. reflexivity. Qed.
Lemma flatten_RCall e a : flatten (RCall e a) = flatten e ++ k_open :: flatten_args k_close a. Proof. reflexivity. Qed.
Lemma flatten_RIndex e i : flatten (RIndex e i) = flatten e ++ k_obr :: flatten i ++ [k_cbr]. Proof. reflexivity. Qed.
Lemma flatten_RList a : flatten (RList a) = k_obr :: flatten_args k_cbr a. Proof. reflexivity. Qed.
Lemma flatten_args_nil c : flatten_args c RA_nil = [c]. Proof. reflexivity. Qed.
Lemma flatten_args_last c e : flatten_args c (RA_last e) = flatten e ++ [c]. Proof. reflexivity. Qed.
Lemma flatten_args_cons c e r : flatten_args c (RA_cons e r) = flatten e ++ k_comma :: flatten_args c r.
Proof. reflexivity. Qed.

Lemma erase_RIdent x : erase (RIdent x) = resolve ids x. Proof. reflexivity. Qed.
Lemma erase_RNum i :
  erase (RNum i) = match c_num cfg with Some np => option_map AConst (np i) | None => None end.
Proof. reflexivity. Qed.
Lemma erase_RStr x :
  erase (RStr x) = match c_strh cfg with Some sh => Some (AConst (sh x)) | None => None end.
Proof. reflexivity. Qed.
Lemma erase_RParen r : erase (RParen r) = erase r. Proof. reflexivity. Qed.
Lemma erase_RBin j l r :
  erase (RBin j l r) = match nth_error ops j, erase l, erase r with
                       | Some o, Some a, Some b => Some (AOp o (N.of_nat j) a b)
                       | _, _, _ => None
                       end.
Proof. reflexivity. Qed.
Lemma erase_RUn u e : erase (RUn u e) = option_map (AUn u) (erase e). Proof. reflexivity. Qed.
Lemma erase_RAccess e x : erase (RAccess e x) = option_map (AAccess x) (erase e). Proof. reflexivity. Qed.
Lemma erase_RMethod e x a :
  erase (RMethod e x a) = match erase e, erase_args a with
                          | Some v, Some args => Some (AMethod x args v)
                          | _, _ => None
                          end.
Proof. reflexivity. Qed.
Lemma erase_RCall e a :
  erase (RCall e a) = match erase e, erase_args a with
                      | Some f, Some args => Some (ACall f args)
                      | _, _ => None
                      end.
Proof. reflexivity. Qed.
Lemma erase_RIndex e i :
  erase (RIndex e i) = match erase e, erase i with
                       | Some l, Some ix => Some (AIndex ix l)
                       | _, _ => None
                       end.
Proof. reflexivity. Qed.
Lemma erase_RList a : erase (RList a) = option_map AListLit (erase_args a). Proof. reflexivity. Qed.
Lemma erase_args_nil : erase_args RA_nil = Some []. Proof. reflexivity. Qed.
Lemma erase_args_last e : erase_args (RA_last e) = option_map (fun x => [x]) (erase e). Proof. reflexivity. Qed.
Lemma erase_args_cons e r :
  erase_args (RA_cons e r) = match erase e, erase_args r with
                             | Some x, Some l => Some (x :: l)
                             | _, _ => None
                             end.
Proof. reflexivity. Qed.

Lemma wf_RParen r : wf (RParen r) = wf r. Proof. reflexivity. Qed.
Lemma wf_RBin j l r :
  wf (RBin j l r) = (j <? n) && wf l && wf r && (j <=? lvl l) && (j <? ab l) && (S j <=? lvl r).
Proof. reflexivity. Qed.
Lemma wf_RUn u e :
  wf (RUn u e) = mem_str u (c_unary cfg) && wf e &&
                 match level_of ops u with Some p => S p <=? lvl e | None => lvl e =? S n end.
Proof. reflexivity. Qed.
Lemma wf_RAccess e x : wf (RAccess e x) = wf e && (lvl e =? S n). Proof. reflexivity. Qed.
Lemma wf_RMethod e x a : wf (RMethod e x a) = wf e && (lvl e =? S n) && wf_args a. Proof. reflexivity. Qed.
Lemma wf_RCall e a : wf (RCall e a) = wf e && (lvl e =? S n) && negb (is_access e) && wf_args a.
Proof. reflexivity. Qed.
Lemma wf_RIndex e i : wf (RIndex e i) = wf e && (lvl e =? S n) && wf i. Proof. reflexivity. Qed.
Lemma wf_RList a : wf (RList a) = wf_args a. Proof. reflexivity. Qed.
Lemma wf_args_nil : wf_args RA_nil = true. Proof. reflexivity. Qed.
Lemma wf_args_last e : wf_args (RA_last e) = wf e. Proof. reflexivity. Qed.
Lemma wf_args_cons e r : wf_args (RA_cons e r) = wf e && wf_args r. Proof. reflexivity. Qed.

Hint Rewrite flatten_RIdent flatten_RNum flatten_RStr flatten_RParen flatten_RBin flatten_RUn flatten_RAccess
  flatten_RMethod flatten_RCall flatten_RIndex flatten_RList flatten_args_nil flatten_args_last flatten_args_cons
  erase_RIdent erase_RNum erase_RStr erase_RParen erase_RBin erase_RUn erase_RAccess erase_RMethod erase_RCall
  erase_RIndex erase_RList erase_args_nil erase_args_last erase_args_cons
  wf_RParen wf_RBin wf_RUn wf_RAccess wf_RMethod wf_RCall wf_RIndex wf_RList wf_args_nil wf_args_last wf_args_cons : rnd.
Ltac rsimpl := autorewrite with rnd in *.

Lemma ab_le : forall r, ab r <= n.
Proof.
  induction r using rt_mut with (P0 := fun _ => True); cbn [Render.ab]; auto; try nlia.
  destruct (level_of (c_ops cfg) u); nlia.
Qed.

(* ---------- shape of the first tokens of a rendering ---------- *)
Definition start_typ (ty : ttype) : bool :=
  match ty with tIdent | tNumber | tString | tOpen | tOpenBracket | tOperate => true | _ => false end.
Definition atom_start (ty : ttype) : bool :=
  match ty with tIdent | tNumber | tString | tOpen | tOpenBracket => true | _ => false end.

Lemma flatten_start : forall r, exists t t', flatten r = t :: t' /\ start_typ (ktyp t) = true.
Proof.
  induction r using rt_mut with (P0 := fun _ => True); cbn [Render.flatten]; auto;
    try (eexists; eexists; split; [reflexivity|reflexivity]);
    try (destruct IHr as (t & t' & E & S); rewrite E; simpl; eauto; fail);
    try (destruct IHr1 as (t & t' & E & S); rewrite E; simpl; eauto; fail).
Qed.

Lemma flatten_start_nonop : forall r, wf r = true -> lvl r = S n ->
  exists t t', flatten r = t :: t' /\ atom_start (ktyp t) = true.
Proof.
  induction r using rt_mut with (P0 := fun _ => True);
    cbn [Render.flatten Render.wf Render.lvl]; auto; intros W L;
    try (eexists; eexists; split; [reflexivity|reflexivity]).
  - (* RBin *) exfalso. repeat (apply andb_true_iff in W; destruct W as [W ?]).
    apply Nat.ltb_lt in W. nlia.
  - (* RUn *) exfalso. nlia.
  - (* RAccess *) apply andb_true_iff in W. destruct W as [W1 W2]. apply Nat.eqb_eq in W2.
    destruct (IHr W1 W2) as (t & t' & E & S). rewrite E. simpl. eauto.
  - (* RMethod *) repeat (apply andb_true_iff in W; destruct W as [W ?]). apply Nat.eqb_eq in H0.
    destruct (IHr W H0) as (t & t' & E & S). rewrite E. simpl. eauto.
  - (* RCall *) repeat (apply andb_true_iff in W; destruct W as [W ?]). apply Nat.eqb_eq in H1.
    destruct (IHr W H1) as (t & t' & E & S). rewrite E. simpl. eauto.
  - (* RIndex *) repeat (apply andb_true_iff in W; destruct W as [W ?]). apply Nat.eqb_eq in H0.
    destruct (IHr1 W H0) as (t & t' & E & S). rewrite E. simpl. eauto.
Qed.

(* a parenthesised rendering is never mistaken for the parameter list of a closure *)
Definition no_ident_comma (ts : list tk) : Prop :=
  typ_is (peek ts) tIdent && typ_is (peek2 ts) tComma = false.

Lemma nic_cons_not_ident t ts : ktyp t <> tIdent -> no_ident_comma (t :: ts).
Proof.
  intros H. unfold no_ident_comma. cbn [peek]. apply typ_is_false in H. rewrite H. reflexivity.
Qed.

Lemma nic_app t ts rest : no_ident_comma ((t :: ts) ++ rest) ->
  forall rest', ts <> [] \/ ktyp (peek rest') <> tComma -> no_ident_comma ((t :: ts) ++ rest').
Proof.
  intros H rest' C. unfold no_ident_comma in *. cbn [app peek] in *.
  destruct (typ_is t tIdent); [|reflexivity]. cbn [andb] in *.
  destruct ts as [|t2 ts]; cbn [app peek2] in *; [|exact H].
  destruct C as [C|C]; [congruence|]. apply typ_is_false in C.
  destruct rest'; cbn [peek] in *; exact C.
Qed.

Lemma flatten_nic : forall r rest, ktyp (peek rest) <> tComma -> no_ident_comma (flatten r ++ rest).
Proof.
  induction r using rt_mut with (P0 := fun _ => True); cbn [Render.flatten]; auto; intros rest Hc;
    try (apply nic_cons_not_ident; cbn; discriminate).
  - (* RIdent *) unfold no_ident_comma. cbn [app peek peek2]. apply typ_is_false in Hc.
    destruct rest; cbn [peek] in *; rewrite Hc; apply andb_false_r.
  - (* RBin *) rewrite <- app_assoc. apply IHr1. cbn. discriminate.
  - (* RAccess *) rewrite <- app_assoc. apply IHr. cbn. discriminate.
  - (* RMethod *) rewrite <- app_assoc. apply IHr. cbn. discriminate.
  - (* RCall *) rewrite <- app_assoc. apply IHr. cbn. discriminate.
  - (* RIndex *) rewrite <- app_assoc. apply IHr1. cbn. discriminate.
Qed.

(* ---------- completeness: every well-formed rendering is parsed to the tree it denotes ---------- *)
(* what may follow an operand so that every loop that is still open stops *)
Definition post_stop (rest : list tk) : Prop :=
  post_head rest = false /\ is_op (peek rest) s_arrow = false.

(* the first token of rest is not a table operator of a level >= b *)
Definition stops (b : nat) (rest : list tk) : Prop :=
  forall j o, nth_error ops j = Some o -> is_op (peek rest) o = true -> j < b.

(* after a level-k operand: the loop of level k runs on (below the unary level) *)
Definition contL (k : nat) (e : ast) (rest : list tk) (e' : ast) (rest' : list tk) : Prop :=
  match nth_error ops k with
  | Some o => LP k o e rest e' rest'
  | None => e' = e /\ rest' = rest
  end.

Lemma stops_mono b b' rest : b <= b' -> stops b rest -> stops b' rest.
Proof. intros L H j o Ho Hop. specialize (H j o Ho Hop). lia. Qed.

Lemma contL_refl k b e rest : stops (Nat.min k b) rest -> contL k e rest e rest.
Proof.
  intros H. unfold contL. destruct (nth_error ops k) as [o|] eqn:Ho; [|auto].
  apply LP_stop. destruct (is_op (peek rest) o) eqn:E; [|reflexivity].
  specialize (H k o Ho E). lia.
Qed.

Lemma descend t e b m : m <= n ->
  (forall rest e' rest', post_stop rest -> stops (Nat.min (S m) b) rest -> contL m e rest e' rest' ->
     PL m (t ++ rest) e' rest') ->
  forall d k, m = k + d -> k <= n -> forall rest e' rest', post_stop rest -> stops (Nat.min (S k) b) rest ->
     contL k e rest e' rest' -> PL k (t ++ rest) e' rest'.
Proof.
  intros Hmn H. induction d as [|d IH]; intros k Hm Hk rest e' rest' Hp Hs Hc.
  - rewrite Nat.add_0_r in Hm. subst k. apply H; auto.
  - unfold contL in Hc. destruct (nth_error ops k) as [o|] eqn:Ho.
    + eapply PL_lvl; [exact Ho| |exact Hc].
      assert (Hk' : S k <= n) by (pose proof (nth_error_lt _ _ _ Ho); nlia).
      apply (IH (S k)); auto; try lia.
      * eapply stops_mono; [|exact Hs]. lia.
      * apply (contL_refl (S k) b). exact Hs.
    + (* k >= n, but k < m: no level above the unary level is ever asked for *)
      destruct Hc as [-> ->]. exfalso. apply nth_error_None in Ho. nlia.
Qed.

Definition CL (r : rt) : Prop := forall e, wf r = true -> erase r = Some e ->
  forall k, k <= lvl r -> k <= n -> forall rest e' rest',
    post_stop rest -> stops (Nat.min (S k) (ab r)) rest -> contL k e rest e' rest' ->
    PL k (flatten r ++ rest) e' rest'.

Definition CN (r : rt) : Prop := forall e, wf r = true -> erase r = Some e -> lvl r = S n ->
  forall rest e' rest', PF e rest e' rest' -> is_op (peek rest) s_arrow = false ->
    (is_access r = true -> typ_is (peek rest) tOpen = false) ->
    PN (flatten r ++ rest) e' rest'.

Definition close_tok (c : ttype) (kc : tk) : Prop :=
  (c = tClose /\ kc = k_close) \/ (c = tCloseBracket /\ kc = k_cbr).

Definition CA (a : rargs) : Prop := forall args, wf_args a = true -> erase_args a = Some args ->
  forall c kc rest, close_tok c kc ->
    PA c (flatten_args kc a ++ rest) args rest /\
    (a <> RA_nil -> forall acc, PAL c acc (flatten_args kc a ++ rest) (acc ++ args) rest).

Lemma post_head_open rest : post_head rest = false -> typ_is (peek rest) tOpen = false.
Proof. unfold post_head, typ_is. destruct (ktyp (peek rest)); simpl; congruence. Qed.

(* a token that is no operator and opens no postfix form ends every open loop *)
Lemma plain_follow rest : typ_is (peek rest) tOperate = false -> post_head rest = false ->
  post_stop rest /\ forall b, stops b rest.
Proof.
  intros H1 H2. split; [split; [exact H2|unfold is_op; rewrite H1; reflexivity]|].
  intros b j o _ Hop. unfold is_op in Hop. rewrite H1 in Hop. discriminate.
Qed.

Lemma start_not_kw t s : start_typ (ktyp t) = true -> is_kw t s = false.
Proof. unfold is_kw, typ_is. destruct (ktyp t); simpl; congruence. Qed.

Lemma start_not_close t c kc : start_typ (ktyp t) = true -> close_tok c kc -> typ_is t c = false.
Proof. unfold typ_is. intros H [[-> _]|[-> _]]; destruct (ktyp t); simpl in *; congruence. Qed.

Lemma atom_not_unary t ts : atom_start (ktyp t) = true -> head_unary cfg (t :: ts) = false.
Proof. unfold head_unary, typ_is. cbn [peek]. destruct (ktyp t); simpl; congruence. Qed.

Lemma nonop_CL r : lvl r = S n -> CN r -> CL r.
Proof.
  intros L HN e W E k _ Hk rest e' rest' Hp Hs Hc.
  apply (descend (flatten r) e (ab r) n (Nat.le_refl n)) with (d := n - k); auto; try lia.
  clear k Hk rest e' rest' Hp Hs Hc. intros rest e' rest' [Hp1 Hp2] _ Hc.
  unfold contL in Hc. replace (nth_error ops n) with (@None str) in Hc
    by (symmetry; apply nth_error_None; nlia).
  destruct Hc as [-> ->].
  destruct (flatten_start_nonop r W L) as (t & t' & Et & St).
  apply PL_nonop.
  - rewrite Et. apply atom_not_unary. exact St.
  - apply (HN e W E L); auto. + apply PF_stop; exact Hp1. + intros _. apply post_head_open; exact Hp1.
Qed.

Lemma CL_PL0 r e rest : CL r -> wf r = true -> erase r = Some e ->
  post_stop rest -> stops 0 rest -> PL 0 (flatten r ++ rest) e rest.
Proof.
  intros HC W E Hp Hs. apply (HC e W E 0); auto; try lia.
  - eapply stops_mono; [|exact Hs]. lia.
  - apply (contL_refl 0 0). exact Hs.
Qed.

Lemma CL_PE r e rest : CL r -> wf r = true -> erase r = Some e ->
  post_stop rest -> stops 0 rest -> PE (flatten r ++ rest) e rest.
Proof.
  intros HC W E Hp Hs. destruct (flatten_start r) as (t & t' & Et & St).
  apply PE_intro; [| |apply CL_PL0; auto]; rewrite Et; cbn [app peek]; apply start_not_kw; exact St.
Qed.

Lemma is_op_k_op o s : is_op (k_op o) s = str_eqb o s.
Proof. reflexivity. Qed.

Lemma nth_error_inj j j' o : nth_error ops j = Some o -> nth_error ops j' = Some o -> j = j'.
Proof.
  intros H1 H2. pose proof (level_of_nth _ _ _ ops_nodup H1). pose proof (level_of_nth _ _ _ ops_nodup H2). congruence.
Qed.

Lemma flatten_args_start : forall a kc, a <> RA_nil ->
  exists t t', flatten_args kc a = t :: t' /\ start_typ (ktyp t) = true.
Proof.
  intros a kc Ha. destruct a as [|e|e r]; [congruence| |]; rsimpl;
    destruct (flatten_start e) as (t & t' & E & S); rewrite E; cbn [app]; eauto.
Qed.

Lemma complete_all : (forall r, CL r /\ CN r) /\ (forall a, CA a).
Proof.
  apply rt_rargs_ind.
  - (* RIdent *)
    intros x. assert (HN : CN (RIdent x)).
    { intros e W E L rest e' rest' HPF Harr Hacc. rsimpl. cbn [app].
      eapply PN_intro; [apply PLit_ident; [reflexivity|exact Harr|exact E]|exact HPF]. }
    split; [apply nonop_CL; [reflexivity|exact HN]|exact HN].
  - (* RNum *)
    intros img. assert (HN : CN (RNum img)).
    { intros e W E L rest e' rest' HPF Harr Hacc. rsimpl. cbn [app].
      destruct (c_num cfg) as [np|] eqn:Enp; [|discriminate].
      destruct (np img) as [c|] eqn:Ec; [|discriminate]. inversion E; subst.
      eapply PN_intro; [eapply PLit_num; [reflexivity|exact Enp|exact Ec]|exact HPF]. }
    split; [apply nonop_CL; [reflexivity|exact HN]|exact HN].
  - (* RStr *)
    intros st. assert (HN : CN (RStr st)).
    { intros e W E L rest e' rest' HPF Harr Hacc. rsimpl. cbn [app].
      destruct (c_strh cfg) as [sh|] eqn:Esh; [|discriminate]. inversion E; subst.
      eapply PN_intro; [exact (PLit_str cfg ids (k_str st :: rest) sh eq_refl Esh)|exact HPF]. }
    split; [apply nonop_CL; [reflexivity|exact HN]|exact HN].
  - (* RParen *)
    intros r0 [IHL _]. assert (HN : CN (RParen r0)).
    { intros e W E L rest e' rest' HPF Harr Hacc. rsimpl.
      cbn [app]. rewrite <- app_assoc. cbn [app].
      assert (F : post_stop (k_close :: rest) /\ forall b, stops b (k_close :: rest))
        by (apply plain_follow; reflexivity).
      destruct F as [F1 F2].
      eapply PN_intro; [|exact HPF].
      apply (PLit_paren cfg ids (k_open :: flatten r0 ++ k_close :: rest) e (k_close :: rest)).
      - reflexivity.
      - apply flatten_nic. cbn. discriminate.
      - cbn [adv]. apply CL_PL0; auto.
      - reflexivity. }
    split; [apply nonop_CL; [reflexivity|exact HN]|exact HN].
  - (* RBin *)
    intros j l [IHl _] r0 [IHr _]. split.
    + intros e W E k Hk Hkn rest e' rest' Hp Hs Hc.
      rsimpl. cbn [Render.lvl Render.ab] in *.
      repeat (apply andb_true_iff in W; destruct W as [W ?]).
      apply Nat.ltb_lt in W. rename H into Wr', H0 into Wab, H1 into Wl', H2 into Wr, H3 into Wl.
      apply Nat.leb_le in Wr', Wl'. apply Nat.ltb_lt in Wab.
      fold ops in E. destruct (nth_error ops j) as [o|] eqn:Ho; [|discriminate].
      destruct (Render.erase cfg ids l) as [a|] eqn:Ea; [|discriminate].
      destruct (Render.erase cfg ids r0) as [b|] eqn:Eb; [|discriminate].
      inversion E; subst e. clear E.
      assert (Hjn : j <= n) by nlia.
      apply (descend (flatten (RBin j l r0)) (AOp o (N.of_nat j) a b) (ab r0) j Hjn) with (d := j - k); auto; try lia.
      clear k Hk Hkn rest e' rest' Hp Hs Hc. intros rest e' rest' Hp Hs Hc.
      unfold contL in Hc. rewrite Ho in Hc.
      rsimpl. rewrite (nth_error_nth ops j [] Ho).
      rewrite <- app_assoc. cbn [app].
      apply (IHl a Wl Ea j); auto.
      * split; [reflexivity|]. cbn [peek]. rewrite is_op_k_op. destruct (str_eqb o s_arrow) eqn:Ar; [|reflexivity].
        apply str_eqb_eq in Ar. subst o. exfalso. exact (arrow_not_op j Ho).
      * intros j' o' Ho' Hop. cbn [peek] in Hop. rewrite is_op_k_op in Hop. apply str_eqb_eq in Hop. subst o'.
        rewrite (nth_error_inj _ _ _ Ho' Ho). lia.
      * unfold contL. rewrite Ho.
        apply (LP_step cfg ids j o a (k_op o :: flatten r0 ++ rest) b rest e' rest').
        -- cbn [peek]. rewrite is_op_k_op. apply str_eqb_refl.
        -- cbn [adv]. apply (IHr b Wr Eb (S j)); auto; try nlia.
           ++ eapply stops_mono; [|exact Hs]. lia.
           ++ apply (contL_refl (S j) (ab r0)). exact Hs.
        -- exact Hc.
    + intros e W E L. exfalso. rsimpl. cbn [Render.lvl] in *.
      repeat (apply andb_true_iff in W; destruct W as [W ?]). apply Nat.ltb_lt in W. nlia.
  - (* RUn *)
    intros u e0 [IHe IHN]. split.
    + intros e W E k Hk Hkn rest e' rest' Hp Hs Hc.
      rsimpl. cbn [Render.lvl] in *.
      apply andb_true_iff in W. destruct W as [W Wc]. apply andb_true_iff in W. destruct W as [Wu We].
      destruct (Render.erase cfg ids e0) as [a|] eqn:Ea; [|discriminate]. cbn [option_map] in E.
      inversion E; subst e. clear E.
      apply (descend (flatten (RUn u e0)) (AUn u a) (ab (RUn u e0)) n (Nat.le_refl n)) with (d := n - k); auto; try nlia.
      clear k Hk Hkn rest e' rest' Hp Hs Hc. intros rest e' rest' Hp Hs Hc.
      unfold contL in Hc. replace (nth_error ops n) with (@None str) in Hc
        by (symmetry; apply nth_error_None; nlia).
      destruct Hc as [-> ->]. rsimpl. cbn [app]. cbn [Render.ab] in Hs. fold ops in Hs, Wc.
      assert (HU : head_unary cfg (k_op u :: flatten e0 ++ rest) = true)
        by (unfold head_unary; cbn [peek]; exact Wu).
      destruct (level_of ops u) as [p|] eqn:Lp.
      * apply Nat.leb_le in Wc.
        assert (Hp' : nth_error ops p = Some u) by (apply level_of_some; exact Lp).
        assert (Hpn : p < n) by (exact (nth_error_lt _ _ _ Hp')).
        apply (PL_un_bin cfg ids (k_op u :: flatten e0 ++ rest) p a rest HU).
        -- cbn [peek]. change (kimg (k_op u)) with u. fold ops. rewrite (op_pos_level _ _ ops_nodup). exact Lp.
        -- cbn [adv]. apply (IHe a We Ea (S p)); auto; try lia.
           ++ eapply stops_mono; [|exact Hs]. lia.
           ++ apply (contL_refl (S p) (ab e0)). eapply stops_mono; [|exact Hs]. lia.
      * apply Nat.eqb_eq in Wc. destruct Hp as [Hp1 Hp2].
        apply (PL_un_pure cfg ids (k_op u :: flatten e0 ++ rest) a rest HU).
        -- cbn [peek]. change (kimg (k_op u)) with u. fold ops. rewrite (op_pos_level _ _ ops_nodup). exact Lp.
        -- cbn [adv]. apply (IHN a We Ea Wc); auto.
           ++ apply PF_stop. exact Hp1.
           ++ intros _. apply post_head_open. exact Hp1.
    + intros e W E L. exfalso. cbn [Render.lvl] in L. nlia.
  - (* RAccess *)
    intros e0 [_ IHN] x. assert (HN : CN (RAccess e0 x)).
    { intros e W E L rest e' rest' HPF Harr Hacc. rsimpl.
      apply andb_true_iff in W. destruct W as [We Wl]. apply Nat.eqb_eq in Wl.
      destruct (Render.erase cfg ids e0) as [a|] eqn:Ea; [|discriminate]. cbn [option_map] in E.
      inversion E; subst e. clear E.
      rewrite <- app_assoc. cbn [app].
      apply (IHN a We Ea Wl); [|reflexivity|reflexivity].
      apply (PF_access cfg ids a (k_dot :: k_ident x :: rest) e' rest'); try reflexivity.
      - cbn [adv]. apply Hacc. reflexivity.
      - exact HPF. }
    split; [apply nonop_CL; [reflexivity|exact HN]|exact HN].
  - (* RMethod *)
    intros e0 [_ IHN] x a0 IHA. assert (HN : CN (RMethod e0 x a0)).
    { intros e W E L rest e' rest' HPF Harr Hacc. rsimpl.
      apply andb_true_iff in W. destruct W as [W Wa]. apply andb_true_iff in W. destruct W as [We Wl].
      apply Nat.eqb_eq in Wl.
      destruct (Render.erase cfg ids e0) as [v|] eqn:Ev; [|discriminate].
      destruct (Render.erase_args cfg ids a0) as [args|] eqn:Eargs; [|discriminate].
      inversion E; subst e. clear E.
      rewrite <- app_assoc. cbn [app].
      apply (IHN v We Ev Wl); [|reflexivity|reflexivity].
      apply (PF_method cfg ids v (k_dot :: k_ident x :: k_open :: flatten_args k_close a0 ++ rest) args rest e' rest');
        try reflexivity.
      - cbn [adv]. apply (IHA args Wa Eargs tClose k_close rest). left. auto.
      - exact HPF. }
    split; [apply nonop_CL; [reflexivity|exact HN]|exact HN].
  - (* RCall *)
    intros e0 [_ IHN] a0 IHA. assert (HN : CN (RCall e0 a0)).
    { intros e W E L rest e' rest' HPF Harr Hacc. rsimpl.
      apply andb_true_iff in W. destruct W as [W Wa]. apply andb_true_iff in W. destruct W as [W Wacc].
      apply andb_true_iff in W. destruct W as [We Wl]. apply Nat.eqb_eq in Wl. apply negb_true_iff in Wacc.
      destruct (Render.erase cfg ids e0) as [v|] eqn:Ev; [|discriminate].
      destruct (Render.erase_args cfg ids a0) as [args|] eqn:Eargs; [|discriminate].
      inversion E; subst e. clear E.
      rewrite <- app_assoc. cbn [app].
      apply (IHN v We Ev Wl); [|reflexivity|intros Hx; congruence].
      apply (PF_call cfg ids v (k_open :: flatten_args k_close a0 ++ rest) args rest e' rest'); try reflexivity.
      - cbn [adv]. apply (IHA args Wa Eargs tClose k_close rest). left. auto.
      - exact HPF. }
    split; [apply nonop_CL; [reflexivity|exact HN]|exact HN].
  - (* RIndex *)
    intros e0 [_ IHN] i [IHi _]. assert (HN : CN (RIndex e0 i)).
    { intros e W E L rest e' rest' HPF Harr Hacc. rsimpl.
      apply andb_true_iff in W. destruct W as [W Wi]. apply andb_true_iff in W. destruct W as [We Wl].
      apply Nat.eqb_eq in Wl.
      destruct (Render.erase cfg ids e0) as [v|] eqn:Ev; [|discriminate].
      destruct (Render.erase cfg ids i) as [ix|] eqn:Ei; [|discriminate].
      inversion E; subst e. clear E.
      rewrite <- app_assoc. cbn [app]. rewrite <- app_assoc. cbn [app].
      assert (F : post_stop (k_cbr :: rest) /\ forall b, stops b (k_cbr :: rest))
        by (apply plain_follow; reflexivity).
      destruct F as [F1 F2].
      apply (IHN v We Ev Wl); [|reflexivity|reflexivity].
      apply (PF_index cfg ids v (k_obr :: flatten i ++ k_cbr :: rest) ix (k_cbr :: rest) e' rest'); try reflexivity.
      - cbn [adv]. apply CL_PL0; auto.
      - exact HPF. }
    split; [apply nonop_CL; [reflexivity|exact HN]|exact HN].
  - (* RList *)
    intros a0 IHA. assert (HN : CN (RList a0)).
    { intros e W E L rest e' rest' HPF Harr Hacc. rsimpl.
      destruct (Render.erase_args cfg ids a0) as [args|] eqn:Eargs; [|discriminate].
      cbn [option_map] in E. inversion E; subst e. clear E. cbn [app].
      eapply PN_intro; [|exact HPF].
      apply (PLit_list cfg ids (k_obr :: flatten_args k_cbr a0 ++ rest) args rest); [reflexivity|].
      cbn [adv]. apply (IHA args W Eargs tCloseBracket k_cbr rest). right. auto. }
    split; [apply nonop_CL; [reflexivity|exact HN]|exact HN].
  - (* RA_nil *)
    intros args W E c kc rest Hc. rsimpl. inversion E; subst.
    split; [|congruence]. cbn [app].
    apply (PA_nil cfg ids c (kc :: rest)). destruct Hc as [[-> ->]|[-> ->]]; reflexivity.
  - (* RA_last *)
    intros e0 [IHe _] args W E c kc rest Hc. rsimpl.
    destruct (Render.erase cfg ids e0) as [x|] eqn:Ex; [|discriminate]. cbn [option_map] in E.
    inversion E; subst args. clear E. rewrite <- app_assoc. cbn [app].
    assert (Tc : typ_is kc c = true) by (destruct Hc as [[-> ->]|[-> ->]]; reflexivity).
    assert (F : post_stop (kc :: rest) /\ forall b, stops b (kc :: rest))
      by (apply plain_follow; destruct Hc as [[-> ->]|[-> ->]]; reflexivity).
    destruct F as [F1 F2].
    assert (HL : forall acc, PAL c acc (flatten e0 ++ kc :: rest) (acc ++ [x]) rest).
    { intros acc. apply (PAL_last cfg ids c acc (flatten e0 ++ kc :: rest) x (kc :: rest)).
      - apply CL_PE; auto.
      - exact Tc. }
    split; [|intros _; exact HL].
    apply PA_some; [|exact (HL [])].
    destruct (flatten_start e0) as (t & t' & Et & St). rewrite Et. cbn [app peek].
    eapply start_not_close; eauto.
  - (* RA_cons *)
    intros e0 [IHe _] r IHA args W E c kc rest Hc. rsimpl.
    apply andb_true_iff in W. destruct W as [We Wr].
    destruct (Render.erase cfg ids e0) as [x|] eqn:Ex; [|discriminate].
    destruct (Render.erase_args cfg ids r) as [l|] eqn:El; [|discriminate].
    inversion E; subst args. clear E. rewrite <- app_assoc. cbn [app].
    assert (Tc : typ_is k_comma c = false) by (destruct Hc as [[-> _]|[-> _]]; reflexivity).
    assert (F : post_stop (k_comma :: flatten_args kc r ++ rest) /\ forall b, stops b (k_comma :: flatten_args kc r ++ rest))
      by (apply plain_follow; reflexivity).
    destruct F as [F1 F2].
    assert (HE : PE (flatten e0 ++ k_comma :: flatten_args kc r ++ rest) x (k_comma :: flatten_args kc r ++ rest))
      by (apply CL_PE; auto).
    assert (HL : forall acc, PAL c acc (flatten e0 ++ k_comma :: flatten_args kc r ++ rest) (acc ++ x :: l) rest).
    { intros acc. destruct (IHA l Wr El c kc rest Hc) as [_ HA].
      destruct r as [|e1|e1 r1].
      - (* trailing comma *)
        rsimpl. inversion El; subst l. cbn [app] in *.
        apply (PAL_trailing cfg ids c acc _ x (k_comma :: kc :: rest) HE Tc); [reflexivity|].
        cbn [adv peek]. destruct Hc as [[-> ->]|[-> ->]]; reflexivity.
      - replace (acc ++ x :: l) with ((acc ++ [x]) ++ l) by (rewrite <- app_assoc; reflexivity).
        apply (PAL_more cfg ids c acc _ x (k_comma :: flatten_args kc (RA_last e1) ++ rest) ((acc ++ [x]) ++ l) rest HE Tc);
          [reflexivity| |].
        + cbn [adv]. destruct (flatten_args_start (RA_last e1) kc) as (t & t' & Et & St); [congruence|].
          rewrite Et. cbn [app peek]. eapply start_not_close; eauto.
        + cbn [adv]. apply HA. congruence.
      - replace (acc ++ x :: l) with ((acc ++ [x]) ++ l) by (rewrite <- app_assoc; reflexivity).
        apply (PAL_more cfg ids c acc _ x (k_comma :: flatten_args kc (RA_cons e1 r1) ++ rest) ((acc ++ [x]) ++ l) rest HE Tc);
          [reflexivity| |].
        + cbn [adv]. destruct (flatten_args_start (RA_cons e1 r1) kc) as (t & t' & Et & St); [congruence|].
          rewrite Et. cbn [app peek]. eapply start_not_close; eauto.
        + cbn [adv]. apply HA. congruence. }
    split; [|intros _; exact HL].
    apply PA_some; [|exact (HL [])].
    destruct (flatten_start e0) as (t & t' & Et & St). rewrite Et. cbn [app peek].
    eapply start_not_close; eauto.
Qed.

Lemma eof_follow : post_stop [] /\ forall b, stops b [].
Proof. apply plain_follow; reflexivity. Qed.

(* every well-formed rendering is parsed, as a whole, to the tree it denotes *)
Theorem parse_complete : forall r e, wf r = true -> erase r = Some e ->
  exists f0, forall f, f0 <= f -> parse_fuel cfg f ids (flatten r) = POk e.
Proof.
  intros r e W E. destruct eof_follow as [F1 F2].
  assert (HPE : PE (flatten r ++ []) e []) by (apply CL_PE; auto; apply complete_all).
  rewrite app_nil_r in HPE.
  destruct (proj1 (fun_complete cfg ids) _ _ _ HPE) as [f0 H].
  exists f0. intros f Hf. destruct (H f Hf) as [u Eu]. unfold parse_fuel. rewrite Eu. reflexivity.
Qed.


End Proofs.

Global Hint Rewrite flatten_RIdent flatten_RNum flatten_RStr flatten_RParen flatten_RBin flatten_RUn flatten_RAccess
  flatten_RMethod flatten_RCall flatten_RIndex flatten_RList flatten_args_nil flatten_args_last flatten_args_cons
  erase_RIdent erase_RNum erase_RStr erase_RParen erase_RBin erase_RUn erase_RAccess erase_RMethod erase_RCall
  erase_RIndex erase_RList erase_args_nil erase_args_last erase_args_cons
  wf_RParen wf_RBin wf_RUn wf_RAccess wf_RMethod wf_RCall wf_RIndex wf_RList wf_args_nil wf_args_last wf_args_cons : rnd.
Ltac rsimpl := autorewrite with rnd in *.
