(* Executable model of parser2.go (Parser.Parse and the parse* functions), one Gallina function per Go
   function, branch by branch.  The parser consumes the token list the tokenizer goroutine sends
   (Peek / PeekPeek / Next over a channel: beyond the end every read yields TokenEof).
   Definitions only; proofs are in ParseRel.v / ParseProofs.v.

   Identifiers: the Go code chains closures (add / AddMap / AddThis / AddArgs) whose lookups have side
   effects on two kinds of cells (the `used *bool` of AddThis and the `outersUsed *[]string` of
   AddArgs).  The model keeps the chain as a first-order scope stack with a pure lookup, and every
   parse function returns, besides its result, the list of names it looked up in the chain it was
   given (in order).  A cell is then a function of the lookups that reach its layer:
     AddThis(n).used        = n occurs among the lookups reaching the layer
     AddArgs(names).outers  = the lookups that pass the layer (not in names) and are found below as
                              non-constants, first occurrences in order
   and a layer passes on exactly the lookups it does not answer itself (escape). *)
From P2 Require Import Base.Prelude Lex.Token Syn.Ast.
Local Open Scope N_scope.

(* ---------- outcomes ---------- *)
Inductive pres (A : Type) :=
| POk (a : A)
| PErr          (* an error value is returned *)
| PPanic        (* a Go panic (index out of range) *)
| POOF.         (* the model ran out of fuel: a modelling artefact, excluded by the theorems *)
Arguments POk {A} _. Arguments PErr {A}. Arguments PPanic {A}. Arguments POOF {A}.

(* ---------- the token channel ---------- *)
(* The parser never looks at the line of a token (lines only decorate AST nodes and error messages,
   neither of which is modelled), so it runs on (type, image) pairs. *)
Definition tk := (ttype * str)%type.
Definition ktyp (t : tk) : ttype := fst t.
Definition kimg (t : tk) : str := snd t.
Definition untok (t : token) : tk := (ttyp t, timg t).
Definition tok_eof : tk := (tEof, [69; 79; 70]).       (* TokenEof *)
Definition peek (ts : list tk) : tk := match ts with t :: _ => t | [] => tok_eof end.
Definition peek2 (ts : list tk) : tk := match ts with _ :: t :: _ => t | _ => tok_eof end.
Definition adv (ts : list tk) : list tk := match ts with _ :: r => r | [] => [] end.

(* result, names looked up, remaining tokens *)
Definition pr (A : Type) := pres (A * list str * list tk).

Definition typ_is (t : tk) (ty : ttype) : bool := ttype_eqb (ktyp t) ty.
Definition is_kw (t : tk) (s : str) : bool := typ_is t tKeyWord && str_eqb (kimg t) s.
Definition is_op (t : tk) (s : str) : bool := typ_is t tOperate && str_eqb (kimg t) s.

Definition s_let : str := [108; 101; 116].
Definition s_func : str := [102; 117; 110; 99].
Definition s_try : str := [116; 114; 121].
Definition s_catch : str := [99; 97; 116; 99; 104].
Definition s_if : str := [105; 102].
Definition s_then : str := [116; 104; 101; 110].
Definition s_else : str := [101; 108; 115; 101].
Definition s_switch : str := [115; 119; 105; 116; 99; 104].
Definition s_case : str := [99; 97; 115; 101].
Definition s_default : str := [100; 101; 102; 97; 117; 108; 116].
Definition s_assign : str := [61].
Definition s_arrow : str := [45; 62].
Definition s_semi : str := [59].

Fixpoint mem_str (s : str) (l : list str) : bool :=
  match l with [] => false | x :: r => str_eqb s x || mem_str s r end.

(* ---------- Identifiers ---------- *)
(* Identifier[V]{Name, ThisName, IsConst, IsFunc, Const} *)
Record ident := mkId { id_name : str; id_this : str; id_const : bool; id_func : bool; id_val : str }.

Inductive scope :=
| SAdd (i : ident)              (* c.add(i): AddConst / Add / AddFunc *)
| SMap (this : str)             (* c.AddMap(this) *)
| SThis (n : str)               (* c.AddThis(n, &used) *)
| SArgs (names : list str).     (* c.AddArgs(names, &outersUsed), names non-empty *)

Definition idents := list scope.   (* innermost first; [] is the nil function *)

Definition id_plain (n : str) : ident := mkId n [] false false [].
Definition id_var (n : str) : scope := SAdd (id_plain n).
Definition id_constant (n v : str) : scope := SAdd (mkId n [] true false v).
Definition id_function (n : str) : scope := SAdd (mkId n [] true true []).

Fixpoint lookup (c : idents) (name : str) : option ident :=
  match c with
  | [] => None
  | SAdd i :: c' => if str_eqb name (id_name i) then Some i else lookup c' name
  | SMap this :: c' =>
      match lookup c' name with
      | Some i => if id_const i then Some i else Some (mkId name this false false [])
      | None => Some (mkId name this false false [])
      end
  | SThis n :: c' => if str_eqb name n then Some (id_plain name) else lookup c' name
  | SArgs names :: c' => if mem_str name names then Some (id_plain name) else lookup c' name
  end.

(* the lookups a layer hands on to the chain below it *)
Definition escape (s : scope) (u : list str) : list str :=
  match s with
  | SAdd i => filter (fun n => negb (str_eqb n (id_name i))) u
  | SMap _ => u
  | SThis n0 => filter (fun n => negb (str_eqb n n0)) u
  | SArgs names => filter (fun n => negb (mem_str n names)) u
  end.

Fixpoint dedup (l : list str) (seen : list str) : list str :=
  match l with
  | [] => []
  | x :: r => if mem_str x seen then dedup r seen else x :: dedup r (x :: seen)
  end.

(* *outersUsed after the body of AddArgs(names) over chain c saw the lookups u: a lookup that passes the layer
   and is found below as a non-constant records the identifier - or, for an attribute of an implicit map
   (ThisName set), the map *)
Definition outers_of (c : idents) (names : list str) (u : list str) : list str :=
  dedup (flat_map (fun n =>
           if mem_str n names then []
           else match lookup c n with
                | Some i => if id_const i then []
                            else match id_this i with [] => [n] | this => [this] end
                | None => []
                end) u) [].

(* ---------- configuration ---------- *)
Record pcfg := mkPcfg {
  c_ops : list str;                      (* p.operators, ascending priority *)
  c_unary : list str;                    (* keys of p.unary *)
  c_num : option (str -> option str);    (* numberParser (nil / ParseNumber, None = error) *)
  c_strh : option (str -> str)           (* stringHandler *)
}.

(* opPos as Parser.Parse computes it: the last position of the spelling in p.operators *)
Fixpoint op_pos_from (u : str) (ops : list str) (i : nat) (acc : option nat) : option nat :=
  match ops with
  | [] => acc
  | o :: r => op_pos_from u r (S i) (if str_eqb u o then Some i else acc)
  end.
Definition op_pos (ops : list str) (u : str) : option nat := op_pos_from u ops O None.

Section Parser.
Variable cfg : pcfg.
Let ops := c_ops cfg.
Let nops := length ops.

(* parseIdentList: the opening parenthesis is already consumed *)
Fixpoint parse_identlist (fuel : nat) (names : list str) (ts : list tk) : pres (list str * list tk) :=
  match fuel with O => POOF | S f =>
    let t := peek ts in let ts1 := adv ts in
    if typ_is t tIdent then
      if mem_str (kimg t) names then PErr
      else
        let names' := names ++ [kimg t] in
        let t2 := peek ts1 in let ts2 := adv ts1 in
        match ktyp t2 with
        | tClose => POk (names', ts2)
        | tComma => parse_identlist f names' ts2
        | _ => PErr
        end
    else PErr
  end.

(* resolution of an identifier that is not a closure parameter (parseLiteral, case tIdent) *)
Definition resolve (ids : idents) (name : str) : option ast :=
  match lookup ids name with
  | Some i =>
      if id_const i then (if id_func i then Some (AIdent name true) else Some (AConst (id_val i)))
      else match id_this i with
           | [] => Some (AIdent name false)
           | this => Some (AAccess name (AIdent this false))
           end
  | None => None
  end.

Fixpoint parse_let (fuel : nat) (ids : idents) (ts : list tk) {struct fuel} : pr ast :=
  match fuel with O => POOF | S f =>
    let t := peek ts in
    if is_kw t s_let then
      let ts1 := adv ts in
      let t1 := peek ts1 in let ts2 := adv ts1 in
      if negb (typ_is t1 tIdent) then PErr else
      let name := kimg t1 in
      let t2 := peek ts2 in let ts3 := adv ts2 in
      if negb (is_op t2 s_assign) then PErr else
      match parse_expression f ids ts3 with
      | POk (exp, u1, ts4) =>
          let t4 := peek ts4 in let ts5 := adv ts4 in
          if negb (typ_is t4 tSemicolon && str_eqb (kimg t4) s_semi) then PErr else
          match is_const exp with
          | Some c =>
              let layer := id_constant name c in
              match parse_let f (layer :: ids) ts5 with
              | POk (inner, u2, ts6) => POk (inner, u1 ++ escape layer u2, ts6)
              | r => r
              end
          | None =>
              let layer := id_var name in
              match parse_let f (layer :: ids) ts5 with
              | POk (inner, u2, ts6) => POk (ALet name exp inner, u1 ++ escape layer u2, ts6)
              | r => r
              end
          end
      | r => r
      end
    else if is_kw t s_func then
      let ts1 := adv ts in
      let t1 := peek ts1 in let ts2 := adv ts1 in
      if negb (typ_is t1 tIdent) then PErr else
      let name := kimg t1 in
      let t2 := peek ts2 in let ts3 := adv ts2 in
      if negb (typ_is t2 tOpen) then PErr else
      match parse_identlist (S (length ts3)) [] ts3 with
      | POk (names, ts4) =>
          match parse_let f (SThis name :: SArgs names :: ids) ts4 with
          | POk (exp, ub, ts5) =>
              let t5 := peek ts5 in let ts6 := adv ts5 in
              if negb (typ_is t5 tSemicolon && str_eqb (kimg t5) s_semi) then PErr else
              let recursive := mem_str name ub in
              let ua := escape (SThis name) ub in
              let clo := AClosure names exp (outers_of ids names ua) recursive name in
              let layer := id_var name in
              match parse_let f (layer :: ids) ts6 with
              | POk (inner, u2, ts7) =>
                  POk (ALet name clo inner, escape (SArgs names) ua ++ escape layer u2, ts7)
              | r => r
              end
          | r => r
          end
      | PErr => PErr | PPanic => PPanic | POOF => POOF
      end
    else parse_expression f ids ts
  end

(* parseExpression *)
with parse_expression (fuel : nat) (ids : idents) (ts : list tk) {struct fuel} : pr ast :=
  match fuel with O => POOF | S f =>
    if (nops =? 0)%nat then parse_unary f ids ts else parse_op f O ids ts
  end

(* parseOp(op): next := nextParserCall(op); operator := p.operators[op]; a := next(); loop *)
with parse_op (fuel : nat) (op : nat) (ids : idents) (ts : list tk) {struct fuel} : pr ast :=
  match fuel with O => POOF | S f =>
    match nth_error ops op with
    | None => PPanic                                   (* p.operators[op]: index out of range *)
    | Some operator =>
        match (if (S op <? nops)%nat then parse_op f (S op) ids ts else parse_unary f ids ts) with
        | POk (a, u, ts1) => parse_op_loop f op operator a u ids ts1
        | r => r
        end
    end
  end

with parse_op_loop (fuel : nat) (op : nat) (operator : str) (a : ast) (u : list str)
                   (ids : idents) (ts : list tk) {struct fuel} : pr ast :=
  match fuel with O => POOF | S f =>
    if is_op (peek ts) operator then
      let ts1 := adv ts in
      match (if (S op <? nops)%nat then parse_op f (S op) ids ts1 else parse_unary f ids ts1) with
      | POk (b, u2, ts2) => parse_op_loop f op operator (AOp operator (N.of_nat op) a b) (u ++ u2) ids ts2
      | r => r
      end
    else POk (a, u, ts)
  end

(* parseUnary *)
with parse_unary (fuel : nat) (ids : idents) (ts : list tk) {struct fuel} : pr ast :=
  match fuel with O => POOF | S f =>
    let t := peek ts in
    if typ_is t tOperate && mem_str (kimg t) (c_unary cfg) then
      let ts1 := adv ts in
      match (match op_pos ops (kimg t) with
             | Some p => (* also a binary operator: nextParserCall(opPos) *)
                 if (S p <? nops)%nat then parse_op f (S p) ids ts1 else parse_unary f ids ts1
             | None => parse_nonop f ids ts1
             end) with
      | POk (inner, u, ts2) => POk (AUn (kimg t) inner, u, ts2)
      | r => r
      end
    else parse_nonop f ids ts
  end

(* parseNonOperator *)
with parse_nonop (fuel : nat) (ids : idents) (ts : list tk) {struct fuel} : pr ast :=
  match fuel with O => POOF | S f =>
    match parse_literal f ids ts with
    | POk (e, u, ts1) => parse_postfix f e u ids ts1
    | r => r
    end
  end

with parse_postfix (fuel : nat) (e : ast) (u : list str) (ids : idents) (ts : list tk) {struct fuel} : pr ast :=
  match fuel with O => POOF | S f =>
    match ktyp (peek ts) with
    | tDot =>
        let ts1 := adv ts in
        let t := peek ts1 in let ts2 := adv ts1 in
        if negb (typ_is t tIdent) then PErr else
        let name := kimg t in
        if negb (typ_is (peek ts2) tOpen) then parse_postfix f (AAccess name e) u ids ts2
        else
          let ts3 := adv ts2 in
          match parse_args f tClose ids ts3 with
          | POk (args, u2, ts4) => parse_postfix f (AMethod name args e) (u ++ u2) ids ts4
          | PErr => PErr | PPanic => PPanic | POOF => POOF
          end
    | tOpen =>
        let ts1 := adv ts in
        match parse_args f tClose ids ts1 with
        | POk (args, u2, ts2) => parse_postfix f (ACall e args) (u ++ u2) ids ts2
        | PErr => PErr | PPanic => PPanic | POOF => POOF
        end
    | tOpenBracket =>
        let ts1 := adv ts in
        match parse_expression f ids ts1 with
        | POk (idx, u2, ts2) =>
            let t := peek ts2 in let ts3 := adv ts2 in
            if negb (typ_is t tCloseBracket) then PErr
            else parse_postfix f (AIndex idx e) (u ++ u2) ids ts3
        | r => r
        end
    | _ => POk (e, u, ts)
    end
  end

(* parseLiteral *)
with parse_literal (fuel : nat) (ids : idents) (ts : list tk) {struct fuel} : pr ast :=
  match fuel with O => POOF | S f =>
    let t := peek ts in let ts1 := adv ts in
    match ktyp t with
    | tIdent =>
        let name := kimg t in
        if is_op (peek ts1) s_arrow then
          let ts2 := adv ts1 in
          match parse_let f (SArgs [name] :: ids) ts2 with
          | POk (e, ub, ts3) =>
              POk (AClosure [name] e (outers_of ids [name] ub) false [], escape (SArgs [name]) ub, ts3)
          | r => r
          end
        else
          match resolve ids name with
          | Some a => POk (a, [name], ts1)
          | None => PErr
          end
    | tKeyWord =>
        let name := kimg t in
        if str_eqb name s_try then
          match parse_let f ids ts1 with
          | POk (tryExp, u1, ts2) =>
              let t2 := peek ts2 in let ts3 := adv ts2 in
              if negb (is_kw t2 s_catch) then PErr else
              match parse_let f ids ts3 with
              | POk (catchExp, u2, ts4) => POk (ATry tryExp catchExp, u1 ++ u2, ts4)
              | r => r
              end
          | r => r
          end
        else if str_eqb name s_if then
          match parse_expression f ids ts1 with
          | POk (cond, u1, ts2) =>
              let t2 := peek ts2 in let ts3 := adv ts2 in
              if negb (is_kw t2 s_then) then PErr else
              match parse_let f ids ts3 with
              | POk (thenExp, u2, ts4) =>
                  let t4 := peek ts4 in let ts5 := adv ts4 in
                  if negb (is_kw t4 s_else) then PErr else
                  match parse_let f ids ts5 with
                  | POk (elseExp, u3, ts6) => POk (AIf cond thenExp elseExp, u1 ++ u2 ++ u3, ts6)
                  | r => r
                  end
              | r => r
              end
          | r => r
          end
        else if str_eqb name s_switch then
          match parse_expression f ids ts1 with
          | POk (sv, u1, ts2) => parse_switch f sv [] u1 ids ts2
          | r => r
          end
        else PErr
    | tOpenCurly => parse_map f [] [] ids ts1
    | tOpenBracket =>
        match parse_args f tCloseBracket ids ts1 with
        | POk (args, u, ts2) => POk (AListLit args, u, ts2)
        | PErr => PErr | PPanic => PPanic | POOF => POOF
        end
    | tNumber =>
        match c_num cfg with
        | Some np => match np (kimg t) with
                     | Some c => POk (AConst c, [], ts1)
                     | None => PErr
                     end
        | None => PErr
        end
    | tString =>
        match c_strh cfg with
        | Some sh => POk (AConst (sh (kimg t)), [], ts1)
        | None => PErr
        end
    | tOpen =>
        if typ_is (peek ts1) tIdent && typ_is (peek2 ts1) tComma then
          match parse_identlist (S (length ts1)) [] ts1 with
          | POk (names, ts2) =>
              let t2 := peek ts2 in let ts3 := adv ts2 in
              if negb (is_op t2 s_arrow) then PErr else
              match parse_let f (SArgs names :: ids) ts3 with
              | POk (e, ub, ts4) =>
                  POk (AClosure names e (outers_of ids names ub) false [], escape (SArgs names) ub, ts4)
              | r => r
              end
          | PErr => PErr | PPanic => PPanic | POOF => POOF
          end
        else
          match parse_expression f ids ts1 with
          | POk (e, u, ts2) =>
              let t2 := peek ts2 in let ts3 := adv ts2 in
              if negb (typ_is t2 tClose) then PErr else POk (e, u, ts3)
          | r => r
          end
    | _ => PErr
    end
  end

(* the for loop of the switch branch of parseLiteral *)
with parse_switch (fuel : nat) (sv : ast) (cases : list (ast * ast)) (u : list str)
                  (ids : idents) (ts : list tk) {struct fuel} : pr ast :=
  match fuel with O => POOF | S f =>
    let t := peek ts in let ts1 := adv ts in
    if typ_is t tKeyWord then
      if str_eqb (kimg t) s_case then
        match parse_expression f ids ts1 with
        | POk (cc, u1, ts2) =>
            let t2 := peek ts2 in let ts3 := adv ts2 in
            if negb (typ_is t2 tColon) then PErr else
            match parse_let f ids ts3 with
            | POk (res, u2, ts4) => parse_switch f sv (cases ++ [(cc, res)]) (u ++ u1 ++ u2) ids ts4
            | r => r
            end
        | r => r
        end
      else if str_eqb (kimg t) s_default then
        match parse_let f ids ts1 with
        | POk (res, u1, ts2) => POk (ASwitch sv cases res, u ++ u1, ts2)
        | r => r
        end
      else PErr
    else PErr
  end

(* parseArgs(closeList): the opening token is already consumed *)
with parse_args (fuel : nat) (close : ttype) (ids : idents) (ts : list tk) {struct fuel}
  : pr (list ast) :=
  match fuel with O => POOF | S f =>
    if typ_is (peek ts) close then POk ([], [], adv ts)
    else parse_args_loop f close [] [] ids ts
  end

with parse_args_loop (fuel : nat) (close : ttype) (acc : list ast) (u : list str)
                     (ids : idents) (ts : list tk) {struct fuel} : pr (list ast) :=
  match fuel with O => POOF | S f =>
    match parse_let f ids ts with
    | POk (element, u1, ts1) =>
        let args := acc ++ [element] in
        let t := peek ts1 in let ts2 := adv ts1 in
        if typ_is t close then POk (args, u ++ u1, ts2)
        else if negb (typ_is t tComma) then PErr
        else if typ_is (peek ts2) close then POk (args, u ++ u1, adv ts2)
        else parse_args_loop f close args (u ++ u1) ids ts2
    | PErr => PErr | PPanic => PPanic | POOF => POOF
    end
  end

(* parseMap: the opening brace is already consumed *)
with parse_map (fuel : nat) (m : list (str * ast)) (u : list str) (ids : idents) (ts : list tk)
               {struct fuel} : pr ast :=
  match fuel with O => POOF | S f =>
    let t := peek ts in let ts1 := adv ts in
    match ktyp t with
    | tCloseCurly => POk (AMapLit m, u, ts1)
    | tIdent =>
        if mem_str (kimg t) (map fst m) then PErr else
        let c := peek ts1 in let ts2 := adv ts1 in
        if negb (typ_is c tColon) then PErr else
        match parse_let f ids ts2 with
        | POk (entry, u1, ts3) =>
            let m' := m ++ [(kimg t, entry)] in
            if typ_is (peek ts3) tComma then parse_map f m' (u ++ u1) ids (adv ts3)
            else if negb (typ_is (peek ts3) tCloseCurly) then PErr
            else parse_map f m' (u ++ u1) ids ts3
        | r => r
        end
    | _ => PErr
    end
  end.

(* Parser.Parse after tokenizing: parseLet, then the next token must be EOF *)
Definition parse_fuel (fuel : nat) (ids : idents) (ts : list tk) : pres ast :=
  match parse_let fuel ids ts with
  | POk (a, _, rest) => if typ_is (peek rest) tEof then POk a else PErr
  | PErr => PErr | PPanic => PPanic | POOF => POOF
  end.

(* fuel that always suffices (ParseProofs.parse_total): linear in the number of tokens *)
Definition fuel_for (ts : list tk) : nat := (2 * nops + 12) * (length ts + 2).

Definition parse (ids : idents) (ts : list tk) : pres ast := parse_fuel (fuel_for ts) ids ts.

(* on the tokens of Lex/Token.v *)
Definition parse_tokens (ids : idents) (ts : list token) : pres ast := parse ids (map untok ts).

End Parser.
