(* COMFORT-MODE text of a rendering tree: the canonical token stream written with some multiplication signs LEFT OUT
   and with or without a blank behind every lexeme, and a decidable condition under which the tokenizer of token.go
   (comfort mode on or off) reads the text back to exactly the canonical tokens.

   token.go, run(): with comfortEnabled the scanner remembers lastTokenType = tNumber / tIdent / tClose behind a number,
   an identifier (plain or quoted) and ')' - every other token resets it to tInvalid, blanks and line breaks keep it and
   set lastWasBlank - and sends the token  *  in front of
      a number, an identifier, a quoted identifier    when lastTokenType is tNumber, tIdent or tClose
      '('                                             when lastTokenType is tNumber or tClose, or tIdent AND a blank was seen
   ( a (b)  is the product,  a(b)  the call ).  Keywords and text operators neither receive nor cause a product.

   A directive [cdir] per token says: [d_omit] - write nothing for this token (allowed for the operator token  *  only);
   [d_sep] - the separator run written behind the lexeme: any list of blanks, tabs, CR, LF, line comments and block
   comments (Lex/Tok.sep; [] = the next lexeme follows directly).  Missing directives mean "written, one blank behind":
   [crender_toks ts []] is the canonical text of Syn/RenderText.v.

   [cok tc lt lb pend ts ds] walks the tokens with the scanner's bookkeeping (lastTokenType lt, lastWasBlank lb, pend =
   a  *  has been left out and is owed by the next lexeme) and demands
     - an omitted token is the operator  *  and no other omission is pending;
     - a written token is spellable (Syn/RenderText.spell_tok), and the scanner inserts  *  in front of it EXACTLY when
       one is owed ([ins_before]): omission only where the comfort rule re-inserts the sign, and no written pair of
       lexemes where the rule would insert a sign that the token stream does not have ( f (x)  as a call,  (f)(x) ,  2 (x) );
     - the separators are well formed (comments only where the configuration allows them, none running to the end of
       the input) and an operator forms no comment opener with what follows ( / in front of a comment );
     - a lexeme with nothing behind it ends where the scanner stops ([tight_ok]): a word / number in front of a rune
       its matcher rejects, an operator in front of a rune that neither extends it in the operator trie nor opens a
       comment, punctuation, strings and quoted identifiers anywhere.
   Separators keep lastTokenType and set lastWasBlank:  a /* c */ (b)  and  a LF (b)  are products like  a (b) .
   Under [cok] the text is a well-formed layout (Lex/TokProofs.wf_layout) whose lexemes denote the canonical tokens - the
   lexeme behind an omitted  *  denotes the two tokens  * t  - so text -> tokens -> AST follows from text_to_ast. *)
From P2 Require Import Base.Prelude Base.PreludeProofs Lex.Token Syn.Ast Syn.Parse Syn.Render Syn.Full Syn.FullProofs
  Syn.TextToAst Syn.RenderText.
From P2 Require Lex.Tok Lex.TokProofs.
Local Open Scope N_scope.

(* ------------------------------------------------------------------ the text *)
Record cdir := mkDir { d_omit : bool; d_sep : list T.sep }.
Definition dflt : cdir := mkDir false [T.SBlank].

Definition star_tk : tk := (tOperate, [42]).
Definition is_star (t : tk) : bool := ttype_eqb (fst t) tOperate && str_eqb (snd t) [42].

Fixpoint crender_toks (ts : list tk) (ds : list cdir) : list N :=
  match ts with
  | [] => []
  | t :: ts' =>
      let d := hd dflt ds in
      (if d_omit d then [] else tok_text t ++ T.seps_text (d_sep d)) ++ crender_toks ts' (tl ds)
  end.

Definition render_comfort (pc : pcfg) (r : ft) (ds : list cdir) : list N := crender_toks (fflatten pc r) ds.

(* ------------------------------------------------------------------ the scanner's bookkeeping, per token *)
(* does run() send  *  in front of the lexeme of t ? *)
Definition ins_before (lt : ttype) (lb : bool) (t : tk) : bool :=
  match fst t with
  | tIdent | tNumber => T.mul_before lt
  | tOpen => T.mul_before_open lt lb
  | _ => false
  end.

(* lastTokenType behind the lexeme of t *)
Definition lt_after (tc : T.tcfg) (t : tk) : ttype :=
  match fst t with
  | tIdent => T.this_ty tc tIdent
  | tNumber => T.this_ty tc tNumber
  | tClose => T.this_ty tc tClose
  | _ => tInvalid
  end.

Definition lastc (s : str) : N := last (tl s) (hd 0 s).

(* the scan of a word / number with matcher [valid] stops in front of rest *)
Definition scan_stops (tc : T.tcfg) (valid : N -> N -> bool) (s : str) (rest : list N) : bool :=
  match rest with
  | [] => true
  | c :: r => negb (TP.opener (T.c_comments tc) c r) && negb (valid (lastc s) (T.alias c))
  end.

(* the lexeme of t may be followed by rest without a blank in between *)
Definition tight_ok (tc : T.tcfg) (t : tk) (rest : list N) : bool :=
  match fst t with
  | tIdent => if ascii_word (snd t) then scan_stops tc (T.ident_valid tc) (snd t) rest else true
  | tKeyWord => scan_stops tc (T.ident_valid tc) (snd t) rest
  | tNumber => scan_stops tc (T.number_valid tc) (snd t) rest
  | tOperate =>
      match rest with
      | [] => false
      | c :: r => negb (TP.opener (T.c_comments tc) c r)
                  && TP.is_nil (T.step_ops (TP.trie_walk (T.c_ops tc) (snd t)) (T.alias c))
                  && TP.noopen (T.c_comments tc) (snd t) rest
      end
  | _ => true
  end.

(* what may follow the lexeme of t: the separator run l, then rest *)
Definition follow_ok (tc : T.tcfg) (t : tk) (l : list T.sep) (rest : list N) : bool :=
  match l with
  | [] => tight_ok tc t rest
  | _ => match fst t with
         | tOperate => TP.noopen (T.c_comments tc) (snd t) (T.seps_text l ++ rest)
         | _ => true
         end
  end.

(* ------------------------------------------------------------------ the decidable condition *)
Fixpoint cok (tc : T.tcfg) (lt : ttype) (lb pend : bool) (ts : list tk) (ds : list cdir) : bool :=
  match ts with
  | [] => negb pend
  | t :: ts' =>
      let d := hd dflt ds in
      if d_omit d then is_star t && negb pend && cok tc lt lb true ts' (tl ds)
      else spell_tok tc t && Bool.eqb (ins_before lt lb t) pend
           && TP.seps_ok (T.c_comments tc) (d_sep d) && follow_ok tc t (d_sep d) (crender_toks ts' (tl ds))
           && cok tc (lt_after tc t) (negb (TP.is_nil (d_sep d))) false ts' (tl ds)
  end.

(* the configuration: as Syn/RenderText.cfg_spell, but comfort mode may be on; blank, tab, CR, LF are neither letters nor digits *)
Definition cfg_spell_c (tc : T.tcfg) : bool :=
  forallb (fun b => freeb b (T.c_ops tc)) [0; 32; 9; 13; 10]
  && forallb (fun b => negb (T.c_letter tc b) && negb (T.c_number tc b)) [32; 9; 13; 10].

Definition cspellable_toks (tc : T.tcfg) (ts : list tk) (ds : list cdir) : bool :=
  cfg_spell_c tc && cok tc tInvalid false false ts ds.
Definition cspellable (tc : T.tcfg) (pc : pcfg) (r : ft) (ds : list cdir) : bool :=
  table_ok pc && cspellable_toks tc (fflatten pc r) ds.

(* the directives that leave out every  *  the comfort rule re-inserts and keep a blank behind every lexeme
   ( 2 a ,  a b ,  ( a + 1 ) ( 1 - a ) ,  a ( b ) ): computed with the same bookkeeping *)
Fixpoint omit_all (tc : T.tcfg) (lt : ttype) (ts : list tk) : list cdir :=
  match ts with
  | [] => []
  | t :: ts' =>
      match ts' with
      | n :: _ => if is_star t && ins_before lt true n then mkDir true [] :: omit_all tc lt ts'
                  else dflt :: omit_all tc (lt_after tc t) ts'
      | [] => [dflt]
      end
  end.

(* ------------------------------------------------------------------ the layout of the text *)
Fixpoint clayout (pend : bool) (ts : list tk) (ds : list cdir) : list T.item :=
  match ts with
  | [] => []
  | t :: ts' =>
      let d := hd dflt ds in
      if d_omit d then clayout true ts' (tl ds)
      else T.ILex (tok_text t) ((if pend then [star_tk] else []) ++ [t]) :: T.ISep (d_sep d) :: clayout false ts' (tl ds)
  end.

Lemma clayout_text : forall ts pend ds, T.layout_text (clayout pend ts ds) = crender_toks ts ds.
Proof.
  induction ts as [|t ts IH]; intros pend ds; [reflexivity|].
  cbn [clayout crender_toks]. destruct (d_omit (hd dflt ds)); [apply IH|].
  unfold T.layout_text. cbn [flat_map T.item_text]. fold (T.layout_text (clayout false ts (tl ds))).
  rewrite IH. rewrite <- app_assoc. reflexivity.
Qed.

Lemma is_star_eq : forall t, is_star t = true -> t = star_tk.
Proof.
  intros [ty s] H. unfold is_star in H. cbn [fst snd] in H. apply andb_true_iff in H. destruct H as [Ht Hs].
  apply str_eqb_eq in Hs. subst s. destruct ty; try discriminate. reflexivity.
Qed.

Lemma lexeme_tokens_app : forall a b, TP.lexeme_tokens (a ++ b) = TP.lexeme_tokens a ++ TP.lexeme_tokens b.
Proof. intros a b. unfold TP.lexeme_tokens. apply flat_map_app. Qed.

Lemma clayout_tokens : forall tc ts lt lb pend ds, cok tc lt lb pend ts ds = true ->
  TP.lexeme_tokens (clayout pend ts ds) = (if pend then [star_tk] else []) ++ ts.
Proof.
  intros tc ts. induction ts as [|t ts IH]; intros lt lb pend ds H.
  - cbn [cok] in H. apply negb_true_iff in H. subst pend. reflexivity.
  - cbn [cok clayout] in *. destruct (d_omit (hd dflt ds)).
    + apply andb_true_iff in H. destruct H as [H Hr]. apply andb_true_iff in H. destruct H as [Hs Hp].
      apply negb_true_iff in Hp. subst pend. rewrite (IH _ _ _ _ Hr). rewrite (is_star_eq t Hs). reflexivity.
    + apply andb_true_iff in H. destruct H as [_ Hr].
      change (TP.lexeme_tokens (T.ILex (tok_text t) ((if pend then [star_tk] else []) ++ [t]) :: T.ISep ?l :: ?x))
        with (((if pend then [star_tk] else []) ++ [t]) ++ TP.lexeme_tokens x).
      rewrite (IH _ _ _ _ Hr). destruct pend; reflexivity.
Qed.

(* ------------------------------------------------------------------ what the configuration condition gives *)
Record cfacts (tc : T.tcfg) : Prop := mkCFacts {
  cc_ok : TP.ops_ok tc;
  cc_clean : TP.ops_clean tc;
  cc_ln : forall b, In b [32; 9; 13; 10] -> T.c_letter tc b = false /\ T.c_number tc b = false }.

Lemma cfg_spell_c_facts : forall tc, cfg_spell_c tc = true -> cfacts tc.
Proof.
  intros tc H. unfold cfg_spell_c in H.
  apply andb_true_iff in H. destruct H as [Hf Hln].
  cbn [forallb] in Hf.
  apply andb_true_iff in Hf. destruct Hf as [F0 Hf]. apply andb_true_iff in Hf. destruct Hf as [F32 Hf].
  apply andb_true_iff in Hf. destruct Hf as [F9 Hf]. apply andb_true_iff in Hf. destruct Hf as [F13 Hf].
  apply andb_true_iff in Hf. destruct Hf as [F10 _].
  apply freeb_free in F0, F32, F9, F13, F10.
  constructor; [assumption|repeat split; assumption|].
  intros b Hb. rewrite forallb_forall in Hln. specialize (Hln b Hb). apply andb_true_iff in Hln. destruct Hln as [Hl Hn].
  apply negb_true_iff in Hl, Hn. split; assumption.
Qed.

Lemma stops_noopen_rune : forall tc valid p c r, TP.opener (T.c_comments tc) c r = false ->
  valid p (T.alias c) = false -> TP.stops tc valid p (c :: r).
Proof. intros tc valid p c r Ho Hv ln. rewrite TP.nextf_noopen by assumption. right. exact Hv. Qed.

Lemma scan_stops_sound : forall tc valid s rest, scan_stops tc valid s rest = true ->
  TP.stops tc valid (lastc s) rest.
Proof.
  intros tc valid s [|c r] H; [apply TP.stops_nil|]. unfold scan_stops in H.
  apply andb_true_iff in H. destruct H as [Ho Hv]. apply negb_true_iff in Ho, Hv.
  apply stops_noopen_rune; assumption.
Qed.

Lemma ident_rejects_blanks : forall tc p, cfacts tc -> TP.rejects_blanks (T.ident_valid tc) p.
Proof.
  intros tc p F. unfold TP.rejects_blanks, T.ident_valid.
  destruct (cc_ln tc F 32) as [L1 N1]; [cbn; tauto|]. destruct (cc_ln tc F 9) as [L2 N2]; [cbn; tauto|].
  destruct (cc_ln tc F 13) as [L3 N3]; [cbn; tauto|]. destruct (cc_ln tc F 10) as [L4 N4]; [cbn; tauto|].
  rewrite L1, N1, L2, N2, L3, N3, L4, N4. repeat split; reflexivity.
Qed.

Lemma number_rejects_blanks : forall tc p, cfacts tc -> TP.rejects_blanks (T.number_valid tc) p.
Proof.
  intros tc p F. unfold TP.rejects_blanks, T.number_valid.
  destruct (cc_ln tc F 32) as [_ N1]; [cbn; tauto|]. destruct (cc_ln tc F 9) as [_ N2]; [cbn; tauto|].
  destruct (cc_ln tc F 13) as [_ N3]; [cbn; tauto|]. destruct (cc_ln tc F 10) as [_ N4]; [cbn; tauto|].
  rewrite N1, N2, N3, N4. cbn. rewrite !andb_false_r. repeat split; reflexivity.
Qed.

Lemma seps_text_cons : forall x l r, T.seps_text (x :: l) ++ r = T.sep_text x ++ (T.seps_text l ++ r).
Proof. intros x l r. unfold T.seps_text. cbn [flat_map]. rewrite <- app_assoc. reflexivity. Qed.

Lemma seps_ok_cons : forall cm x l, TP.seps_ok cm (x :: l) = true ->
  T.sep_ok cm x = true /\ T.sep_final x = false /\ TP.seps_ok cm l = true.
Proof.
  intros cm x l H. unfold TP.seps_ok in *. cbn [forallb] in H. apply andb_true_iff in H. destruct H as [H Hl].
  apply andb_true_iff in H. destruct H as [Ho Hf]. apply negb_true_iff in Hf. auto.
Qed.

(* a scan with a matcher that rejects blanks stops in front of a well-formed separator run or where scan_stops says *)
Lemma scan_follow : forall tc valid s l r, TP.rejects_blanks valid (lastc s) ->
  TP.seps_ok (T.c_comments tc) l = true -> (l = [] -> scan_stops tc valid s r = true) ->
  TP.stops tc valid (lastc s) (T.seps_text l ++ r).
Proof.
  intros tc valid s [|x l] r RB Hs Ht.
  - cbn [T.seps_text flat_map app]. apply scan_stops_sound. apply Ht. reflexivity.
  - destruct (seps_ok_cons _ x l Hs) as (Ho & Hf & _). rewrite seps_text_cons. apply TP.stops_sep; assumption.
Qed.

(* a word in any scanner state: keyword, or identifier preceded by the owed  *  *)
Lemma cword_lexeme : forall tc lt lb s, cfacts tc -> word_ok tc s = true ->
  TP.lexeme_at tc lt lb s
    (if T.mem_str s (T.c_keywords tc) then [(tKeyWord, s)] else TP.mul_toks lt ++ [(tIdent, s)])
    (if T.mem_str s (T.c_keywords tc) then tInvalid else T.this_ty tc tIdent)
    (TP.stops tc (T.ident_valid tc) (lastc s)).
Proof.
  intros tc lt lb s F H. destruct s as [|c w]; [discriminate|]. unfold word_ok in H.
  apply andb_true_iff in H. destruct H as [H Ha]. apply andb_true_iff in H. destruct H as [H Hc].
  apply andb_true_iff in H. destruct H as [H Hid]. apply andb_true_iff in H. destruct H as [H Hnum].
  apply andb_true_iff in H. destruct H as [Hh Hp]. apply negb_true_iff in Hnum.
  pose proof (TP.lexeme_word tc lt lb c w (cc_ok tc F) Hh Hp Hnum Hid Hc) as L.
  unfold TP.word_result in L. destruct (assoc (c :: w) (T.c_textops tc)); [discriminate|].
  unfold lastc. cbn [hd tl]. destruct (T.mem_str (c :: w) (T.c_keywords tc)); cbn [fst snd] in L; exact L.
Qed.

Lemma cpunct_lexeme : forall tc ty s lt lb, cfacts tc -> punct_ok ty s = true ->
  TP.lexeme_at tc lt lb s [(ty, s)] tInvalid TP.anything.
Proof.
  intros tc ty s lt lb F H. destruct s as [|n [|m s]]; try discriminate. unfold punct_ok in H.
  destruct (T.single_tok n) as [ty'|] eqn:E; [|discriminate].
  assert (ty = ty') by (destruct ty, ty'; try discriminate; reflexivity). subst ty'.
  exact (TP.lexeme_punct tc lt lb n ty (cc_ok tc F) E).
Qed.

(* every spellable token, in every scanner state: its lexeme denotes the token, preceded by  *  exactly when the
   comfort rule inserts one; it may be followed by a blank, or directly by any text tight_ok admits *)
Lemma cspell_tok_lexeme : forall tc t lt lb, cfacts tc -> spell_tok tc t = true ->
  exists C, TP.lexeme_at tc lt lb (tok_text t) ((if ins_before lt lb t then [star_tk] else []) ++ [t]) (lt_after tc t) C
            /\ (forall l r, TP.seps_ok (T.c_comments tc) l = true -> follow_ok tc t l r = true -> C (T.seps_text l ++ r)).
Proof.
  intros tc [ty s] lt lb F H. unfold spell_tok in H. apply andb_true_iff in H. destruct H as [_ H].
  pose proof (cc_ok tc F) as Ho.
  unfold tok_text, ins_before, lt_after, follow_ok, tight_ok, star_tk. cbn [fst snd] in *. destruct ty; try discriminate.
  - (* identifier *)
    destruct (ascii_word s) eqn:Ea.
    + apply andb_true_iff in H. destruct H as [Hw Hk]. apply negb_true_iff in Hk.
      pose proof (cword_lexeme tc lt lb s F Hw) as L. rewrite Hk in L.
      eexists. split; [exact L|]. intros l r Hs Hr.
      apply scan_follow; [apply ident_rejects_blanks; exact F|exact Hs|intro E; subst l; exact Hr].
    + apply andb_true_iff in H. destruct H as [H0 H39].
      apply not_in_of_existsb in H0. apply not_in_of_existsb in H39.
      exists TP.anything. split; [exact (TP.lexeme_quoted tc lt lb s Ho H0 H39)|]. intros; exact I.
  - (* keyword *)
    apply andb_true_iff in H. destruct H as [Hw Hk].
    pose proof (cword_lexeme tc lt lb s F Hw) as L. rewrite Hk in L.
    eexists. split; [exact L|]. intros l r Hs Hr.
    apply scan_follow; [apply ident_rejects_blanks; exact F|exact Hs|intro E; subst l; exact Hr].
  - (* ( *)
    apply str_eqb_eq in H. subst s. exists TP.anything. split; [exact (TP.lexeme_open tc lt lb Ho)|]. intros; exact I.
  - (* ) *)
    apply str_eqb_eq in H. subst s. exists TP.anything. split; [exact (TP.lexeme_close tc lt lb Ho)|]. intros; exact I.
  - exists TP.anything. split; [apply cpunct_lexeme; assumption|]. intros; exact I.
  - exists TP.anything. split; [apply cpunct_lexeme; assumption|]. intros; exact I.
  - exists TP.anything. split; [apply cpunct_lexeme; assumption|]. intros; exact I.
  - exists TP.anything. split; [apply cpunct_lexeme; assumption|]. intros; exact I.
  - exists TP.anything. split; [apply cpunct_lexeme; assumption|]. intros; exact I.
  - exists TP.anything. split; [apply cpunct_lexeme; assumption|]. intros; exact I.
  - exists TP.anything. split; [apply cpunct_lexeme; assumption|]. intros; exact I.
  - exists TP.anything. split; [apply cpunct_lexeme; assumption|]. intros; exact I.
  - (* number *)
    destruct s as [|c w]; [discriminate|]. unfold number_ok in H.
    apply andb_true_iff in H. destruct H as [H Hc]. apply andb_true_iff in H. destruct H as [H Hnum].
    apply andb_true_iff in H. destruct H as [Hh Hp].
    pose proof (TP.lexeme_number tc lt lb c w Ho Hh Hp Hnum Hc) as L.
    eexists. split; [exact L|]. intros l r Hs Hr.
    apply (scan_follow tc (T.number_valid tc) (c :: w) l r); [apply number_rejects_blanks; exact F|exact Hs|intro E; subst l; exact Hr].
  - (* string *)
    apply not_in_of_existsb in H. exists TP.anything. split; [exact (TP.lexeme_string tc lt lb s Ho H)|]. intros; exact I.
  - (* operator *)
    destruct s as [|c w]; [discriminate|]. unfold operator_ok in H.
    apply andb_true_iff in H. destruct H as [H Hno]. apply andb_true_iff in H. destruct H as [H Hal].
    apply andb_true_iff in H. destruct H as [H Hev]. apply andb_true_iff in H. destruct H as [H Hta].
    apply andb_true_iff in H. destruct H as [H Hid]. apply andb_true_iff in H. destruct H as [Hh Hnum].
    apply negb_true_iff in Hid, Hnum.
    pose proof (TP.lexeme_operator tc lt lb c w Ho Hh Hnum Hid Hta) as L.
    unfold TP.op_tok in L. rewrite Hev in L.
    assert (Hm : map T.alias (c :: w) = c :: w).
    { clear - Hal. induction (c :: w) as [|d l IH]; [reflexivity|]. cbn [forallb map] in *.
      apply andb_true_iff in Hal. destruct Hal as [Hd Hl]. apply N.eqb_eq in Hd. rewrite Hd, IH by assumption. reflexivity. }
    rewrite Hm in L. eexists. split; [exact L|]. intros [|x l] r Hs Hr.
    + cbn [T.seps_text flat_map app]. destruct r as [|a r]; [discriminate|].
      apply andb_true_iff in Hr. destruct Hr as [Hr Hn]. apply andb_true_iff in Hr. destruct Hr as [Hop Hst].
      apply negb_true_iff in Hop. split; [exact Hn|]. intro ln. rewrite TP.nextf_noopen by assumption. cbn [fst].
      destruct (T.step_ops (TP.trie_walk (T.c_ops tc) (c :: w)) (T.alias a)); [reflexivity|discriminate].
    + destruct (seps_ok_cons _ x l Hs) as (Hok & Hfin & _). rewrite seps_text_cons in *.
      apply (TP.op_follows_sep tc (c :: w) x _ (cc_clean tc F) Hok Hfin). exact Hr.
Qed.

Lemma clayout_wf : forall tc ts lt lb pend ds, cfacts tc -> cok tc lt lb pend ts ds = true ->
  TP.wf_layout tc lt lb (clayout pend ts ds).
Proof.
  intros tc ts. induction ts as [|t ts IH]; intros lt lb pend ds F H; [constructor|].
  cbn [cok clayout] in *. destruct (d_omit (hd dflt ds)).
  - apply andb_true_iff in H. destruct H as [_ Hr]. apply IH; assumption.
  - apply andb_true_iff in H. destruct H as [H Hr]. apply andb_true_iff in H. destruct H as [H Hg].
    apply andb_true_iff in H. destruct H as [H Hse].
    apply andb_true_iff in H. destruct H as [Hs Hi]. apply Bool.eqb_prop in Hi.
    destruct (cspell_tok_lexeme tc t lt lb F Hs) as (C & L & HT). rewrite Hi in L.
    apply (TP.wf_lex tc lt lb (tok_text t) _ (lt_after tc t) C); [exact L| | |].
    + unfold spell_tok in Hs. apply andb_true_iff in Hs. destruct Hs as [Hc _]. apply N.eqb_eq in Hc. exact Hc.
    + change (T.layout_text (T.ISep (d_sep (hd dflt ds)) :: clayout false ts (tl ds)))
        with (T.seps_text (d_sep (hd dflt ds)) ++ T.layout_text (clayout false ts (tl ds))).
      rewrite clayout_text. apply HT; assumption.
    + apply TP.wf_sep; [exact Hse|]. cbn [orb]. apply IH; assumption.
Qed.

(* ------------------------------------------------------------------ the theorems *)
(* the comfort text is a well-formed layout of the canonical tokens *)
Theorem comfort_layout : forall tc ts ds, cspellable_toks tc ts ds = true ->
  TP.ops_ok tc /\ TP.wf_layout tc tInvalid false (clayout false ts ds) /\
  TP.lexeme_tokens (clayout false ts ds) = ts /\ T.layout_text (clayout false ts ds) = crender_toks ts ds.
Proof.
  intros tc ts ds H. unfold cspellable_toks in H. apply andb_true_iff in H. destruct H as [Hc Hs].
  pose proof (cfg_spell_c_facts tc Hc) as F.
  split; [exact (cc_ok tc F)|]. split; [apply clayout_wf; assumption|].
  split; [exact (clayout_tokens tc ts _ _ _ ds Hs)|apply clayout_text].
Qed.

(* the comfort text tokenizes to the canonical tokens: every omitted  *  is back, nothing else is inserted *)
Theorem comfort_tokenize : forall tc ts ds, cspellable_toks tc ts ds = true ->
  map untok (T.tokenize tc (crender_toks ts ds)) = ts.
Proof.
  intros tc ts ds H. destruct (comfort_layout tc ts ds H) as (Ho & Hw & Hl & Ht).
  rewrite <- Ht. rewrite (TP.tokenize_lex tc _ Ho). rewrite (TP.layout_correct tc _ _ _ Ho Hw).
  rewrite untok_strip, TP.strip_expect. exact Hl.
Qed.

(* text -> tokens -> AST for the comfort text of a rendering tree *)
Theorem render_comfort_roundtrip : forall tc pc ids r ds e u,
  cspellable tc pc r ds = true -> fwf pc r = true -> ferase pc ids r = Some (e, u) ->
  parse_tokens pc ids (T.tokenize tc (render_comfort pc r ds)) = POk e.
Proof.
  intros tc pc ids r ds e u H W E. unfold cspellable in H. apply andb_true_iff in H. destruct H as [Ht Hs].
  destruct (comfort_layout tc (fflatten pc r) ds Hs) as (Ho & Hw & Hl & Hx).
  unfold render_comfort. rewrite <- Hx.
  exact (text_to_ast tc pc ids (clayout false (fflatten pc r) ds) r e u Ho Hw Hl Ht W E).
Qed.

(* without directives the comfort text is the canonical text *)
Lemma crender_default : forall ts, crender_toks ts [] = render_toks ts.
Proof.
  induction ts as [|t ts IH]; [reflexivity|]. cbn [crender_toks hd tl d_omit d_sep dflt].
  rewrite IH. unfold render_toks. cbn [flat_map]. reflexivity.
Qed.

(* the text with omitted signs and the explicit text - under the comfort tokenizer tc, and under a tokenizer tc' without
   comfort mode - parse to the same AST: the one the tree denotes *)
Theorem comfort_equals_explicit : forall tc tc' pc ids r ds e u,
  cspellable tc pc r ds = true -> spellable tc' pc r = true -> fwf pc r = true -> ferase pc ids r = Some (e, u) ->
  parse_tokens pc ids (T.tokenize tc (render_comfort pc r ds)) = POk e /\
  parse_tokens pc ids (T.tokenize tc' (render_text pc r)) = POk e.
Proof.
  intros tc tc' pc ids r ds e u H H' W E. split.
  - exact (render_comfort_roundtrip tc pc ids r ds e u H W E).
  - exact (render_roundtrip tc' pc ids r e u H' W E).
Qed.

(* any two admissible choices of omissions and blanks give the same parse result, whatever the tree *)
Theorem comfort_choice_irrelevant : forall tc pc ids ts ds ds',
  cspellable_toks tc ts ds = true -> cspellable_toks tc ts ds' = true ->
  parse_tokens pc ids (T.tokenize tc (crender_toks ts ds)) = parse_tokens pc ids (T.tokenize tc (crender_toks ts ds')).
Proof.
  intros tc pc ids ts ds ds' H H'. unfold parse_tokens.
  rewrite (comfort_tokenize tc ts ds H), (comfort_tokenize tc ts ds' H'). reflexivity.
Qed.
