(* Construction of an operator table through the generator API (funcGen: AddOp / AddOpImpl / AddOpPure / AddSimpleOp append;
   AddOpBehind(behind, new) "adds the new operator right behind the given existing operator in the priority list",
   i.e. one level above it; behind = "" appends).  Specification of the promised table.  Definitions only. *)
From P2 Require Import Base.Prelude Syn.Parse Syn.Render.

(* new operator directly behind the anchor; None = "operator not found" (the API panics) *)
Fixpoint insert_behind (anchor op : str) (tbl : list str) : option (list str) :=
  match tbl with
  | [] => None
  | x :: r => if str_eqb x anchor then Some (x :: op :: r)
              else match insert_behind anchor op r with Some r' => Some (x :: r') | None => None end
  end.

(* one declaration (anchor, new operator); anchor [] = append; None = the API panics (duplicate / unknown anchor) *)
Definition declare (tbl : list str) (d : str * str) : option (list str) :=
  let '(anchor, op) := d in
  if mem_str op tbl then None
  else match anchor with [] => Some (tbl ++ [op]) | _ => insert_behind anchor op tbl end.

Fixpoint build_table (tbl : list str) (h : list (str * str)) : option (list str) :=
  match h with
  | [] => Some tbl
  | d :: r => match declare tbl d with Some t => build_table t r | None => None end
  end.
