(* The AST of parser2.go with the annotations the Go AST carries (Priority on Operate;
   OuterIdents / Recursive / ThisName on ClosureLiteral).  Line numbers are not modelled.
   Const[V] carries a code-point string: the correspondence run instantiates V so that a
   constant is its own description (number image, string content, name of a predefined constant). *)
From P2 Require Import Base.Prelude.
Local Open Scope N_scope.

Inductive ast :=
| ALet (name : str) (value inner : ast)
| AIf (c t e : ast)
| ATry (t c : ast)
| ASwitch (v : ast) (cases : list (ast * ast)) (d : ast)       (* Case{CaseConst, Value} *)
| AOp (op : str) (prio : N) (a b : ast)                         (* Operate{Operator, Priority, A, B} *)
| AUn (op : str) (v : ast)                                      (* Unary{Operator, Value} *)
| AAccess (key : str) (m : ast)                                 (* MapAccess{Key, MapValue} *)
| AMethod (name : str) (args : list ast) (v : ast)              (* MethodCall{Name, Args, Value} *)
| AIndex (idx lst : ast)                                        (* ListAccess{Index, List} *)
| AClosure (names : list str) (body : ast) (outer : list str) (recursive : bool) (this : str)
| AMapLit (entries : list (str * ast))
| AListLit (items : list ast)
| AIdent (name : str) (isfunc : bool)                             (* Ident{Name, IsFunc} *)
| AConst (c : str)
| ACall (f : ast) (args : list ast).                            (* FunctionCall{Func, Args} *)

Fixpoint strs_eqb (a b : list str) : bool :=
  match a, b with
  | [], [] => true
  | x :: a', y :: b' => str_eqb x y && strs_eqb a' b'
  | _, _ => false
  end.

Fixpoint ast_eqb (x y : ast) {struct x} : bool :=
  let fix lst (l m : list ast) : bool :=
    match l, m with
    | [], [] => true
    | a :: l', b :: m' => ast_eqb a b && lst l' m'
    | _, _ => false
    end in
  match x, y with
  | ALet n v i, ALet n' v' i' => str_eqb n n' && ast_eqb v v' && ast_eqb i i'
  | AIf c t e, AIf c' t' e' => ast_eqb c c' && ast_eqb t t' && ast_eqb e e'
  | ATry t c, ATry t' c' => ast_eqb t t' && ast_eqb c c'
  | ASwitch v cs d, ASwitch v' cs' d' =>
      ast_eqb v v' &&
      (fix go (l m : list (ast * ast)) : bool :=
         match l, m with
         | [], [] => true
         | (a, b) :: l', (a', b') :: m' => ast_eqb a a' && ast_eqb b b' && go l' m'
         | _, _ => false
         end) cs cs' && ast_eqb d d'
  | AOp o p a b, AOp o' p' a' b' => str_eqb o o' && N.eqb p p' && ast_eqb a a' && ast_eqb b b'
  | AUn o v, AUn o' v' => str_eqb o o' && ast_eqb v v'
  | AAccess k m, AAccess k' m' => str_eqb k k' && ast_eqb m m'
  | AMethod n a v, AMethod n' a' v' => str_eqb n n' && lst a a' && ast_eqb v v'
  | AIndex i l, AIndex i' l' => ast_eqb i i' && ast_eqb l l'
  | AClosure ns b o r t, AClosure ns' b' o' r' t' =>
      strs_eqb ns ns' && ast_eqb b b' && strs_eqb o o' && Bool.eqb r r' && str_eqb t t'
  | AMapLit es, AMapLit es' =>
      (fix go (l m : list (str * ast)) : bool :=
         match l, m with
         | [], [] => true
         | (k, a) :: l', (k', a') :: m' => str_eqb k k' && ast_eqb a a' && go l' m'
         | _, _ => false
         end) es es'
  | AListLit l, AListLit l' => lst l l'
  | AIdent n b, AIdent n' b' => str_eqb n n' && Bool.eqb b b'
  | AConst c, AConst c' => str_eqb c c'
  | ACall f a, ACall f' a' => ast_eqb f f' && lst a a'
  | _, _ => false
  end.

Definition is_const (a : ast) : option str := match a with AConst c => Some c | _ => None end.
