(* Rendering trees for the FULL grammar of Syn/Parse.v (specification side, definitions only).
   [ft] extends the expression trees of Render.v by let / func / if-then-else / switch-case-default /
   try-catch / closures  x -> e  and  (a, b) -> e  / map literals.
     fflatten   the tokens of a tree
     ferase     the annotated AST the tree denotes for an identifier chain (the plan's `resolve`): identifiers
                are resolved through the scope stack, a let whose value is a constant is propagated, closures
                get OuterIdents / Recursive / ThisName from the names their body looks up; the second
                component is the list of names looked up (what the enclosing closure layers see)
     fwf        where parentheses may be omitted, and the grammar facts: let / func only where parseLet is
                called (top level, then/else, try/catch bodies, case results and default, arguments, list elements,
                map values, closure bodies, let/func bodies) - not inside parentheses, operands, conditions,
                switch values, case constants, let values or indices; forms that end in an open parseLet tail
                (if, try, switch, closures) absorb everything that follows ([fab] = 0, [open_tail]). *)
From P2 Require Import Base.Prelude Lex.Token Syn.Ast Syn.Parse Syn.Render.
Local Open Scope N_scope.

Inductive ft :=
| FIdent (x : str)
| FNum (i : str)
| FStr (s : str)
| FParen (r : ft)
| FBin (j : nat) (l r : ft)
| FUn (u : str) (e : ft)
| FAccess (e : ft) (x : str)
| FMethod (e : ft) (x : str) (a : fargs)
| FCall (e : ft) (a : fargs)
| FIndex (e : ft) (i : ft)
| FList (a : fargs)
| FLet (x : str) (v b : ft)                      (* let x = v ; b *)
| FFunc (f : str) (ps : list str) (fb b : ft)    (* func f ( ps ) fb ; b *)
| FIf (c t e : ft)
| FTry (t c : ft)
| FSwitch (v : ft) (cs : fcases) (d : ft)
| FClo1 (x : str) (b : ft)                       (* x -> b *)
| FCloN (ps : list str) (b : ft)                 (* ( a , b ) -> body *)
| FMap (m : fentries)
with fargs :=
| FA_nil
| FA_last (e : ft)
| FA_cons (e : ft) (r : fargs)
with fcases :=
| FC_nil
| FC_cons (c r : ft) (rest : fcases)             (* case c : r *)
with fentries :=
| FE_nil                                         (* } *)
| FE_last (k : str) (v : ft)                     (* k : v } *)
| FE_cons (k : str) (v : ft) (r : fentries).     (* k : v , r *)

Scheme ft_mut := Induction for ft Sort Prop
  with fargs_mut := Induction for fargs Sort Prop
  with fcases_mut := Induction for fcases Sort Prop
  with fentries_mut := Induction for fentries Sort Prop.
Combined Scheme ft_all_ind from ft_mut, fargs_mut, fcases_mut, fentries_mut.

Definition k_kw (s : str) : tk := (tKeyWord, s).
Definition k_semi : tk := (tSemicolon, s_semi).
Definition k_colon : tk := (tColon, [58]).
Definition k_ocurly : tk := (tOpenCurly, [123]).
Definition k_ccurly : tk := (tCloseCurly, [125]).

(* a , b , c )   - the parameter list after the opening parenthesis *)
Fixpoint flatten_names (ps : list str) : list tk :=
  match ps with
  | [] => [k_close]
  | [p] => [k_ident p; k_close]
  | p :: r => k_ident p :: k_comma :: flatten_names r
  end.

Section Full.
Variable cfg : pcfg.
Let ops := c_ops cfg.
Let n := length ops.

Fixpoint fflatten (r : ft) : list tk :=
  match r with
  | FIdent x => [k_ident x]
  | FNum i => [k_num i]
  | FStr s => [k_str s]
  | FParen r' => k_open :: fflatten r' ++ [k_close]
  | FBin j l r' => fflatten l ++ k_op (nth j ops []) :: fflatten r'
  | FUn u e => k_op u :: fflatten e
  | FAccess e x => fflatten e ++ [k_dot; k_ident x]
  | FMethod e x a => fflatten e ++ k_dot :: k_ident x :: k_open :: fflatten_args k_close a
  | FCall e a => fflatten e ++ k_open :: fflatten_args k_close a
  | FIndex e i => fflatten e ++ k_obr :: fflatten i ++ [k_cbr]
  | FList a => k_obr :: fflatten_args k_cbr a
  | FLet x v b => k_kw s_let :: k_ident x :: k_op s_assign :: fflatten v ++ k_semi :: fflatten b
  | FFunc f ps fb b =>
      k_kw s_func :: k_ident f :: k_open :: flatten_names ps ++ fflatten fb ++ k_semi :: fflatten b
  | FIf c t e => k_kw s_if :: fflatten c ++ k_kw s_then :: fflatten t ++ k_kw s_else :: fflatten e
  | FTry t c => k_kw s_try :: fflatten t ++ k_kw s_catch :: fflatten c
  | FSwitch v cs d => k_kw s_switch :: fflatten v ++ fflatten_cases cs ++ k_kw s_default :: fflatten d
  | FClo1 x b => k_ident x :: k_op s_arrow :: fflatten b
  | FCloN ps b => k_open :: flatten_names ps ++ k_op s_arrow :: fflatten b
  | FMap m => k_ocurly :: fflatten_entries m
  end
with fflatten_args (c : tk) (a : fargs) : list tk :=
  match a with
  | FA_nil => [c]
  | FA_last e => fflatten e ++ [c]
  | FA_cons e r => fflatten e ++ k_comma :: fflatten_args c r
  end
with fflatten_cases (cs : fcases) : list tk :=
  match cs with
  | FC_nil => []
  | FC_cons c r rest => k_kw s_case :: fflatten c ++ k_colon :: fflatten r ++ fflatten_cases rest
  end
with fflatten_entries (m : fentries) : list tk :=
  match m with
  | FE_nil => [k_ccurly]
  | FE_last k v => k_ident k :: k_colon :: fflatten v ++ [k_ccurly]
  | FE_cons k v r => k_ident k :: k_colon :: fflatten v ++ k_comma :: fflatten_entries r
  end.

(* ---------- the AST a tree denotes for a chain, with the names it looks up ---------- *)
Definition oret {A} (a : A) (u : list str) : option (A * list str) := Some (a, u).

Fixpoint ferase (ids : idents) (r : ft) : option (ast * list str) :=
  match r with
  | FIdent x => match resolve ids x with Some a => Some (a, [x]) | None => None end
  | FNum i =>
      match c_num cfg with
      | Some np => match np i with Some c => Some (AConst c, []) | None => None end
      | None => None
      end
  | FStr s => match c_strh cfg with Some sh => Some (AConst (sh s), []) | None => None end
  | FParen r' => ferase ids r'
  | FBin j l r' =>
      match nth_error ops j, ferase ids l, ferase ids r' with
      | Some o, Some (a, ua), Some (b, ub) => Some (AOp o (N.of_nat j) a b, ua ++ ub)
      | _, _, _ => None
      end
  | FUn u e => match ferase ids e with Some (a, ua) => Some (AUn u a, ua) | None => None end
  | FAccess e x => match ferase ids e with Some (a, ua) => Some (AAccess x a, ua) | None => None end
  | FMethod e x a =>
      match ferase ids e, ferase_args ids a with
      | Some (v, uv), Some (args, ua) => Some (AMethod x args v, uv ++ ua)
      | _, _ => None
      end
  | FCall e a =>
      match ferase ids e, ferase_args ids a with
      | Some (f, uf), Some (args, ua) => Some (ACall f args, uf ++ ua)
      | _, _ => None
      end
  | FIndex e i =>
      match ferase ids e, ferase ids i with
      | Some (l, ul), Some (ix, ui) => Some (AIndex ix l, ul ++ ui)
      | _, _ => None
      end
  | FList a => match ferase_args ids a with Some (args, ua) => Some (AListLit args, ua) | None => None end
  | FLet x v b =>
      match ferase ids v with
      | Some (ev, u1) =>
          match is_const ev with
          | Some c =>
              match ferase (id_constant x c :: ids) b with
              | Some (eb, u2) => Some (eb, u1 ++ escape (id_constant x c) u2)
              | None => None
              end
          | None =>
              match ferase (id_var x :: ids) b with
              | Some (eb, u2) => Some (ALet x ev eb, u1 ++ escape (id_var x) u2)
              | None => None
              end
          end
      | None => None
      end
  | FFunc f ps fb b =>
      match ferase (SThis f :: SArgs ps :: ids) fb with
      | Some (efb, ub) =>
          match ferase (id_var f :: ids) b with
          | Some (eb, u2) =>
              Some (ALet f (AClosure ps efb (outers_of ids ps (escape (SThis f) ub)) (mem_str f ub) f) eb,
                    escape (SArgs ps) (escape (SThis f) ub) ++ escape (id_var f) u2)
          | None => None
          end
      | None => None
      end
  | FIf c t e =>
      match ferase ids c, ferase ids t, ferase ids e with
      | Some (ec, u1), Some (et, u2), Some (ee, u3) => Some (AIf ec et ee, u1 ++ u2 ++ u3)
      | _, _, _ => None
      end
  | FTry t c =>
      match ferase ids t, ferase ids c with
      | Some (et, u1), Some (ec, u2) => Some (ATry et ec, u1 ++ u2)
      | _, _ => None
      end
  | FSwitch v cs d =>
      match ferase ids v, ferase_cases ids cs, ferase ids d with
      | Some (ev, u1), Some (ecs, u2), Some (ed, u3) => Some (ASwitch ev ecs ed, (u1 ++ u2) ++ u3)
      | _, _, _ => None
      end
  | FClo1 x b =>
      match ferase (SArgs [x] :: ids) b with
      | Some (eb, ub) => Some (AClosure [x] eb (outers_of ids [x] ub) false [], escape (SArgs [x]) ub)
      | None => None
      end
  | FCloN ps b =>
      match ferase (SArgs ps :: ids) b with
      | Some (eb, ub) => Some (AClosure ps eb (outers_of ids ps ub) false [], escape (SArgs ps) ub)
      | None => None
      end
  | FMap m => match ferase_entries ids m with Some (es, u) => Some (AMapLit es, u) | None => None end
  end
with ferase_args (ids : idents) (a : fargs) : option (list ast * list str) :=
  match a with
  | FA_nil => Some ([], [])
  | FA_last e => match ferase ids e with Some (x, u) => Some ([x], u) | None => None end
  | FA_cons e r =>
      match ferase ids e, ferase_args ids r with
      | Some (x, u), Some (l, ul) => Some (x :: l, u ++ ul)
      | _, _ => None
      end
  end
with ferase_cases (ids : idents) (cs : fcases) : option (list (ast * ast) * list str) :=
  match cs with
  | FC_nil => Some ([], [])
  | FC_cons c r rest =>
      match ferase ids c, ferase ids r, ferase_cases ids rest with
      | Some (ec, u1), Some (er, u2), Some (l, ul) => Some ((ec, er) :: l, (u1 ++ u2) ++ ul)
      | _, _, _ => None
      end
  end
with ferase_entries (ids : idents) (m : fentries) : option (list (str * ast) * list str) :=
  match m with
  | FE_nil => Some ([], [])
  | FE_last k v => match ferase ids v with Some (x, u) => Some ([(k, x)], u) | None => None end
  | FE_cons k v r =>
      match ferase ids v, ferase_entries ids r with
      | Some (x, u), Some (l, ul) => Some ((k, x) :: l, u ++ ul)
      | _, _ => None
      end
  end.

(* ---------- well-formedness ---------- *)
Definition letform (r : ft) : bool := match r with FLet _ _ _ | FFunc _ _ _ _ => true | _ => false end.

(* level: binary j, prefix n, literal / postfix / parenthesised n+1; let and func only fit a parseLet position *)
Definition flvl (r : ft) : nat :=
  match r with
  | FBin j _ _ => j
  | FUn _ _ => n
  | FLet _ _ _ | FFunc _ _ _ _ => O
  | _ => S n
  end.

(* the tree ends in an open parseLet tail: whatever follows is taken into it *)
Fixpoint open_tail (r : ft) : bool :=
  match r with
  | FBin _ _ r' => open_tail r'
  | FUn _ e => open_tail e
  | FLet _ _ _ | FFunc _ _ _ _ | FIf _ _ _ | FTry _ _ | FSwitch _ _ _ | FClo1 _ _ | FCloN _ _ => true
  | _ => false
  end.

(* follow bound: operators of level >= fab r directly after r would be taken into r *)
Fixpoint fab (r : ft) : nat :=
  match r with
  | FBin _ _ r' => fab r'
  | FUn u e => match level_of ops u with Some p => Nat.min (S p) (fab e) | None => fab e end
  | FLet _ _ _ | FFunc _ _ _ _ | FIf _ _ _ | FTry _ _ | FSwitch _ _ _ | FClo1 _ _ | FCloN _ _ => O
  | _ => n
  end.

Definition fis_access (r : ft) : bool := match r with FAccess _ _ => true | _ => false end.

(* base of a postfix form: a closed literal / postfix expression *)
Definition fbase (e : ft) : bool := (flvl e =? S n)%nat && negb (open_tail e).

Fixpoint entry_keys (m : fentries) : list str :=
  match m with
  | FE_nil => []
  | FE_last k _ => [k]
  | FE_cons k _ r => k :: entry_keys r
  end.

Fixpoint fwf (r : ft) : bool :=
  match r with
  | FIdent _ | FNum _ | FStr _ => true
  | FParen r' => fwf r' && negb (letform r')
  | FBin j l r' =>
      (j <? n)%nat && fwf l && fwf r' && (j <=? flvl l)%nat && (j <? fab l)%nat && (S j <=? flvl r')%nat
  | FUn u e =>
      mem_str u (c_unary cfg) && fwf e &&
      match level_of ops u with
      | Some p => (S p <=? flvl e)%nat
      | None => (flvl e =? S n)%nat
      end
  | FAccess e _ => fwf e && fbase e
  | FMethod e _ a => fwf e && fbase e && fwf_args a
  | FCall e a => fwf e && fbase e && negb (fis_access e) && fwf_args a
  | FIndex e i => fwf e && fbase e && fwf i && negb (letform i)
  | FList a => fwf_args a
  | FLet _ v b => fwf v && negb (letform v) && fwf b
  | FFunc _ ps fb b =>
      negb (match ps with [] => true | _ => false end) && nodup_str ps && fwf fb && fwf b
  | FIf c t e => fwf c && negb (letform c) && fwf t && fwf e
  | FTry t c => fwf t && fwf c
  | FSwitch v cs d => fwf v && negb (letform v) && fwf_cases cs && fwf d
  | FClo1 _ b => fwf b
  | FCloN ps b => (2 <=? length ps)%nat && nodup_str ps && fwf b
  | FMap m => nodup_str (entry_keys m) && fwf_entries m
  end
with fwf_args (a : fargs) : bool :=
  match a with
  | FA_nil => true
  | FA_last e => fwf e
  | FA_cons e r => fwf e && fwf_args r
  end
with fwf_cases (cs : fcases) : bool :=
  match cs with
  | FC_nil => true
  | FC_cons c r rest => fwf c && negb (letform c) && fwf r && fwf_cases rest
  end
with fwf_entries (m : fentries) : bool :=
  match m with
  | FE_nil => true
  | FE_last _ v => fwf v
  | FE_cons _ v r => fwf v && fwf_entries r
  end.

(* the embedding of the expression fragment *)
Fixpoint of_rt (r : rt) : ft :=
  match r with
  | RIdent x => FIdent x
  | RNum i => FNum i
  | RStr s => FStr s
  | RParen r' => FParen (of_rt r')
  | RBin j l r' => FBin j (of_rt l) (of_rt r')
  | RUn u e => FUn u (of_rt e)
  | RAccess e x => FAccess (of_rt e) x
  | RMethod e x a => FMethod (of_rt e) x (of_rargs a)
  | RCall e a => FCall (of_rt e) (of_rargs a)
  | RIndex e i => FIndex (of_rt e) (of_rt i)
  | RList a => FList (of_rargs a)
  end
with of_rargs (a : rargs) : fargs :=
  match a with
  | RA_nil => FA_nil
  | RA_last e => FA_last (of_rt e)
  | RA_cons e r => FA_cons (of_rt e) (of_rargs r)
  end.

End Full.

(* tokens as the tokenizer writes them: punctuation with its own spelling; no EOF token inside the list *)
Definition full_tok (t : tk) : bool :=
  match ktyp t with
  | tEof => false
  | tOpen => str_eqb (kimg t) [40]
  | tClose => str_eqb (kimg t) [41]
  | tOpenBracket => str_eqb (kimg t) [91]
  | tCloseBracket => str_eqb (kimg t) [93]
  | tOpenCurly => str_eqb (kimg t) [123]
  | tCloseCurly => str_eqb (kimg t) [125]
  | tDot => str_eqb (kimg t) [46]
  | tComma => str_eqb (kimg t) [44]
  | tColon => str_eqb (kimg t) [58]
  | tSemicolon => str_eqb (kimg t) [59]
  | _ => true
  end.
Definition full_toks (ts : list tk) : bool := forallb full_tok ts.

(* the specification relation of the full grammar: ts is a rendering of the annotated AST e under the chain ids *)
Definition frenders (cfg : pcfg) (ids : idents) (e : ast) (ts : list tk) : Prop :=
  exists r u, fwf cfg r = true /\ ferase cfg ids r = Some (e, u) /\ fflatten cfg r = ts.
