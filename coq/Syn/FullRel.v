(* The parser model as "eventually returns" predicates, one per Go function, for the FULL grammar, with the
   identifier chain and the looked-up names explicit:  PX ids ts e u rest  :=  for all sufficiently large fuel
   parseExpression on ts under ids returns (e, u, rest).  The lemmas below are the derivation rules of these
   predicates - each is one step of the executable model (Syn/Parse.v) - and are what the completeness proof
   of FullProofs.v is built from. *)
From P2 Require Import Base.Prelude Base.PreludeProofs Lex.Token Syn.Ast Syn.Parse Syn.ParseRel.
Local Open Scope nat_scope.

Section FRel.
Variable cfg : pcfg.
Let ops := c_ops cfg.
Let n := length ops.

Definition ev {A} (run : nat -> pr A) (res : A * list str * list tk) : Prop :=
  exists f0, forall f, f0 <= f -> run f = POk res.

Definition PE ids ts e u rest := ev (fun f => parse_let cfg f ids ts) (e, u, rest).
Definition PX ids ts e u rest := ev (fun f => parse_expression cfg f ids ts) (e, u, rest).
Definition PL ids k ts e u rest := ev (fun f => call_level cfg ids f k ts) (e, u, rest).
Definition LP ids k o a ua ts e u rest := ev (fun f => parse_op_loop cfg f k o a ua ids ts) (e, u, rest).
Definition PN ids ts e u rest := ev (fun f => parse_nonop cfg f ids ts) (e, u, rest).
Definition PLit ids ts e u rest := ev (fun f => parse_literal cfg f ids ts) (e, u, rest).
Definition PF ids a ua ts e u rest := ev (fun f => parse_postfix cfg f a ua ids ts) (e, u, rest).
Definition PA ids c ts (args : list ast) u rest := ev (fun f => parse_args cfg f c ids ts) (args, u, rest).
Definition PAL ids c acc ua ts (args : list ast) u rest :=
  ev (fun f => parse_args_loop cfg f c acc ua ids ts) (args, u, rest).
Definition PSw ids sv cs ua ts e u rest := ev (fun f => parse_switch cfg f sv cs ua ids ts) (e, u, rest).
Definition PM ids m ua ts e u rest := ev (fun f => parse_map cfg f m ua ids ts) (e, u, rest).

Ltac ev0 := exists 1; intros [|f] Hf; [lia|].
Ltac ev1 H := destruct H as [f1 H]; exists (S f1); intros [|f] Hf; [lia|].
Ltac ev2 H1 H2 := destruct H1 as [f1 H1]; destruct H2 as [f2 H2]; exists (S (Nat.max f1 f2)); intros [|f] Hf; [lia|].
Ltac ev3 H1 H2 H3 :=
  destruct H1 as [f1 H1]; destruct H2 as [f2 H2]; destruct H3 as [f3 H3];
  exists (S (Nat.max f1 (Nat.max f2 f3))); intros [|f] Hf; [lia|].

(* ---------- parseExpression / parseOp / parseUnary ---------- *)
Lemma PX_intro ids ts e u rest : PL ids 0 ts e u rest -> PX ids ts e u rest.
Proof. intros H. unfold PL, PX in *. ev1 H. rewrite expression_is_level0. apply H. lia. Qed.

Lemma PL_lvl ids k o ts a ua mid e u rest :
  nth_error ops k = Some o -> PL ids (S k) ts a ua mid -> LP ids k o a ua mid e u rest -> PL ids k ts e u rest.
Proof.
  intros Ho H1 H2. unfold PL, LP in *. ev2 H1 H2.
  assert (Hk : k < n) by (exact (nth_error_lt _ _ _ Ho)).
  unfold call_level at 1. fold ops. fold n. apply Nat.ltb_lt in Hk. rewrite Hk.
  rewrite parse_op_S. fold ops. rewrite Ho. rewrite H1 by lia. apply H2. lia.
Qed.

Lemma PL_un_bin ids ts p e u rest :
  head_unary cfg ts = true -> op_pos ops (kimg (peek ts)) = Some p ->
  PL ids (S p) (adv ts) e u rest -> PL ids n ts (AUn (kimg (peek ts)) e) u rest.
Proof.
  intros Hu Hp H. unfold PL in *. ev1 H. unfold call_level at 1. fold ops. fold n. rewrite Nat.ltb_irrefl.
  rewrite parse_unary_S, Hu. fold ops. rewrite Hp. rewrite H by lia. reflexivity.
Qed.

Lemma PL_un_pure ids ts e u rest :
  head_unary cfg ts = true -> op_pos ops (kimg (peek ts)) = None ->
  PN ids (adv ts) e u rest -> PL ids n ts (AUn (kimg (peek ts)) e) u rest.
Proof.
  intros Hu Hp H. unfold PL, PN in *. ev1 H. unfold call_level. fold ops. fold n. rewrite Nat.ltb_irrefl.
  rewrite parse_unary_S, Hu. fold ops. rewrite Hp. rewrite H by lia. reflexivity.
Qed.

Lemma PL_nonop ids ts e u rest : head_unary cfg ts = false -> PN ids ts e u rest -> PL ids n ts e u rest.
Proof.
  intros Hu H. unfold PL, PN in *. ev1 H. unfold call_level. fold ops. fold n. rewrite Nat.ltb_irrefl.
  rewrite parse_unary_S, Hu. apply H. lia.
Qed.

Lemma LP_stop ids k o a ua ts : is_op (peek ts) o = false -> LP ids k o a ua ts a ua ts.
Proof. intros Ho. unfold LP. ev0. rewrite parse_op_loop_S, Ho. reflexivity. Qed.

Lemma LP_step ids k o a ua ts b ub mid e u rest :
  is_op (peek ts) o = true -> PL ids (S k) (adv ts) b ub mid ->
  LP ids k o (AOp o (N.of_nat k) a b) (ua ++ ub) mid e u rest -> LP ids k o a ua ts e u rest.
Proof.
  intros Ho H1 H2. unfold PL, LP in *. ev2 H1 H2. rewrite parse_op_loop_S, Ho. rewrite H1 by lia. apply H2. lia.
Qed.

(* ---------- parseNonOperator and its postfix loop ---------- *)
Lemma PN_intro ids ts a ua mid e u rest : PLit ids ts a ua mid -> PF ids a ua mid e u rest -> PN ids ts e u rest.
Proof. intros H1 H2. unfold PN, PLit, PF in *. ev2 H1 H2. rewrite parse_nonop_S. rewrite H1 by lia. apply H2. lia. Qed.

Lemma PF_stop ids a ua ts : post_head ts = false -> PF ids a ua ts a ua ts.
Proof.
  intros Hp. unfold PF. ev0. rewrite parse_postfix_S. unfold post_head in Hp.
  destruct (ktyp (peek ts)); try discriminate; reflexivity.
Qed.

Lemma PF_access ids a ua ts e u rest :
  ktyp (peek ts) = tDot -> typ_is (peek (adv ts)) tIdent = true -> typ_is (peek (adv (adv ts))) tOpen = false ->
  PF ids (AAccess (kimg (peek (adv ts))) a) ua (adv (adv ts)) e u rest -> PF ids a ua ts e u rest.
Proof.
  intros H1 H2 H3 H. unfold PF in *. ev1 H. rewrite parse_postfix_S, H1, H2, H3. cbn [negb]. apply H. lia.
Qed.

Lemma PF_method ids a ua ts args u2 mid e u rest :
  ktyp (peek ts) = tDot -> typ_is (peek (adv ts)) tIdent = true -> typ_is (peek (adv (adv ts))) tOpen = true ->
  PA ids tClose (adv (adv (adv ts))) args u2 mid ->
  PF ids (AMethod (kimg (peek (adv ts))) args a) (ua ++ u2) mid e u rest -> PF ids a ua ts e u rest.
Proof.
  intros H1 H2 H3 Ha H. unfold PF, PA in *. ev2 Ha H. rewrite parse_postfix_S, H1, H2, H3. cbn [negb].
  rewrite Ha by lia. apply H. lia.
Qed.

Lemma PF_call ids a ua ts args u2 mid e u rest :
  ktyp (peek ts) = tOpen -> PA ids tClose (adv ts) args u2 mid ->
  PF ids (ACall a args) (ua ++ u2) mid e u rest -> PF ids a ua ts e u rest.
Proof.
  intros H1 Ha H. unfold PF, PA in *. ev2 Ha H. rewrite parse_postfix_S, H1. rewrite Ha by lia. apply H. lia.
Qed.

Lemma PF_index ids a ua ts idx u2 mid e u rest :
  ktyp (peek ts) = tOpenBracket -> PX ids (adv ts) idx u2 mid -> typ_is (peek mid) tCloseBracket = true ->
  PF ids (AIndex idx a) (ua ++ u2) (adv mid) e u rest -> PF ids a ua ts e u rest.
Proof.
  intros H1 Hx Hc H. unfold PF, PX in *. ev2 Hx H. rewrite parse_postfix_S, H1. rewrite Hx by lia. rewrite Hc.
  cbn [negb]. apply H. lia.
Qed.

(* ---------- parseArgs ---------- *)
Lemma PA_nil ids c ts : typ_is (peek ts) c = true -> PA ids c ts [] [] (adv ts).
Proof. intros Hc. unfold PA. ev0. rewrite parse_args_S, Hc. reflexivity. Qed.

Lemma PA_some ids c ts args u rest : typ_is (peek ts) c = false -> PAL ids c [] [] ts args u rest -> PA ids c ts args u rest.
Proof. intros Hc H. unfold PA, PAL in *. ev1 H. rewrite parse_args_S, Hc. apply H. lia. Qed.

Lemma PAL_last ids c acc ua ts e u1 mid :
  PE ids ts e u1 mid -> typ_is (peek mid) c = true -> PAL ids c acc ua ts (acc ++ [e]) (ua ++ u1) (adv mid).
Proof. intros H Hc. unfold PAL, PE in *. ev1 H. rewrite parse_args_loop_S. rewrite H by lia. rewrite Hc. reflexivity. Qed.

Lemma PAL_trailing ids c acc ua ts e u1 mid :
  PE ids ts e u1 mid -> typ_is (peek mid) c = false -> typ_is (peek mid) tComma = true ->
  typ_is (peek (adv mid)) c = true -> PAL ids c acc ua ts (acc ++ [e]) (ua ++ u1) (adv (adv mid)).
Proof.
  intros H Hc Hm Hc2. unfold PAL, PE in *. ev1 H. rewrite parse_args_loop_S. rewrite H by lia.
  rewrite Hc, Hm, Hc2. reflexivity.
Qed.

Lemma PAL_more ids c acc ua ts e u1 mid args u rest :
  PE ids ts e u1 mid -> typ_is (peek mid) c = false -> typ_is (peek mid) tComma = true ->
  typ_is (peek (adv mid)) c = false -> PAL ids c (acc ++ [e]) (ua ++ u1) (adv mid) args u rest ->
  PAL ids c acc ua ts args u rest.
Proof.
  intros H Hc Hm Hc2 H2. unfold PAL, PE in *. ev2 H H2. rewrite parse_args_loop_S. rewrite H by lia.
  rewrite Hc, Hm, Hc2. cbn [negb]. apply H2. lia.
Qed.

(* ---------- parseLiteral ---------- *)
Lemma PLit_ident ids ts a :
  ktyp (peek ts) = tIdent -> is_op (peek (adv ts)) s_arrow = false -> resolve ids (kimg (peek ts)) = Some a ->
  PLit ids ts a [kimg (peek ts)] (adv ts).
Proof. intros H1 H2 H3. unfold PLit. ev0. rewrite (parse_literal_ident cfg ids f ts a H1 H2 H3). reflexivity. Qed.

Lemma PLit_num ids ts np c :
  ktyp (peek ts) = tNumber -> c_num cfg = Some np -> np (kimg (peek ts)) = Some c -> PLit ids ts (AConst c) [] (adv ts).
Proof. intros H1 H2 H3. unfold PLit. ev0. rewrite (parse_literal_num cfg ids f ts np c H1 H2 H3). reflexivity. Qed.

Lemma PLit_str ids ts sh :
  ktyp (peek ts) = tString -> c_strh cfg = Some sh -> PLit ids ts (AConst (sh (kimg (peek ts)))) [] (adv ts).
Proof. intros H1 H2. unfold PLit. ev0. rewrite (parse_literal_str cfg ids f ts sh H1 H2). reflexivity. Qed.

Lemma PLit_paren ids ts e u mid :
  ktyp (peek ts) = tOpen -> typ_is (peek (adv ts)) tIdent && typ_is (peek2 (adv ts)) tComma = false ->
  PX ids (adv ts) e u mid -> typ_is (peek mid) tClose = true -> PLit ids ts e u (adv mid).
Proof.
  intros H1 H2 H Hc. unfold PLit, PX in *. ev1 H. rewrite (parse_literal_paren cfg ids _ ts H1 H2).
  rewrite H by lia. rewrite Hc. reflexivity.
Qed.

Lemma PLit_list ids ts args u rest :
  ktyp (peek ts) = tOpenBracket -> PA ids tCloseBracket (adv ts) args u rest -> PLit ids ts (AListLit args) u rest.
Proof.
  intros H1 H. unfold PLit, PA in *. ev1 H. rewrite (parse_literal_list cfg ids f ts H1). rewrite H by lia. reflexivity.
Qed.

Lemma PLit_clo1 ids ts e ub rest :
  ktyp (peek ts) = tIdent -> is_op (peek (adv ts)) s_arrow = true ->
  PE (SArgs [kimg (peek ts)] :: ids) (adv (adv ts)) e ub rest ->
  PLit ids ts (AClosure [kimg (peek ts)] e (outers_of ids [kimg (peek ts)] ub) false [])
       (escape (SArgs [kimg (peek ts)]) ub) rest.
Proof.
  intros H1 H2 H. unfold PLit, PE in *. ev1 H. rewrite parse_literal_S, H1, H2. rewrite H by lia. reflexivity.
Qed.

Lemma PLit_cloN ids ts names ts2 e ub rest :
  ktyp (peek ts) = tOpen -> typ_is (peek (adv ts)) tIdent && typ_is (peek2 (adv ts)) tComma = true ->
  parse_identlist (S (length (adv ts))) [] (adv ts) = POk (names, ts2) ->
  is_op (peek ts2) s_arrow = true -> PE (SArgs names :: ids) (adv ts2) e ub rest ->
  PLit ids ts (AClosure names e (outers_of ids names ub) false []) (escape (SArgs names) ub) rest.
Proof.
  intros H1 H2 Hl Ha H. unfold PLit, PE in *. ev1 H. rewrite parse_literal_S, H1, H2, Hl, Ha. cbn [negb].
  rewrite H by lia. reflexivity.
Qed.

Lemma kw_branch ts s : ktyp (peek ts) = tKeyWord -> kimg (peek ts) = s -> is_kw (peek ts) s = true.
Proof. intros H1 H2. unfold is_kw, typ_is. rewrite H1, H2, str_eqb_refl. reflexivity. Qed.

Lemma PLit_try ids ts t u1 ts2 c u2 rest :
  ktyp (peek ts) = tKeyWord -> kimg (peek ts) = s_try ->
  PE ids (adv ts) t u1 ts2 -> is_kw (peek ts2) s_catch = true -> PE ids (adv ts2) c u2 rest ->
  PLit ids ts (ATry t c) (u1 ++ u2) rest.
Proof.
  intros H1 Hi Ht Hc Hcc. unfold PLit, PE in *. ev2 Ht Hcc. rewrite parse_literal_S, H1, Hi.
  replace (str_eqb s_try s_try) with true by reflexivity.
  rewrite Ht by lia. rewrite Hc. cbn [negb]. rewrite Hcc by lia. reflexivity.
Qed.

Lemma PLit_if ids ts c u1 ts2 t u2 ts4 e u3 rest :
  ktyp (peek ts) = tKeyWord -> kimg (peek ts) = s_if ->
  PX ids (adv ts) c u1 ts2 -> is_kw (peek ts2) s_then = true -> PE ids (adv ts2) t u2 ts4 ->
  is_kw (peek ts4) s_else = true -> PE ids (adv ts4) e u3 rest ->
  PLit ids ts (AIf c t e) (u1 ++ u2 ++ u3) rest.
Proof.
  intros H1 Hi Hc Hth Ht Hel He. unfold PLit, PE, PX in *. ev3 Hc Ht He. rewrite parse_literal_S, H1, Hi.
  replace (str_eqb s_if s_try) with false by reflexivity. replace (str_eqb s_if s_if) with true by reflexivity.
  rewrite Hc by lia. rewrite Hth. cbn [negb]. rewrite Ht by lia. rewrite Hel. cbn [negb]. rewrite He by lia. reflexivity.
Qed.

Lemma PLit_switch ids ts sv u1 ts2 e u rest :
  ktyp (peek ts) = tKeyWord -> kimg (peek ts) = s_switch ->
  PX ids (adv ts) sv u1 ts2 -> PSw ids sv [] u1 ts2 e u rest -> PLit ids ts e u rest.
Proof.
  intros H1 Hi Hv Hs. unfold PLit, PX, PSw in *. ev2 Hv Hs. rewrite parse_literal_S, H1, Hi.
  replace (str_eqb s_switch s_try) with false by reflexivity. replace (str_eqb s_switch s_if) with false by reflexivity.
  replace (str_eqb s_switch s_switch) with true by reflexivity.
  rewrite Hv by lia. apply Hs. lia.
Qed.

Lemma PSw_case ids sv cs ua ts cc u1 ts2 res u2 ts4 e u rest :
  typ_is (peek ts) tKeyWord = true -> kimg (peek ts) = s_case ->
  PX ids (adv ts) cc u1 ts2 -> typ_is (peek ts2) tColon = true -> PE ids (adv ts2) res u2 ts4 ->
  PSw ids sv (cs ++ [(cc, res)]) (ua ++ u1 ++ u2) ts4 e u rest -> PSw ids sv cs ua ts e u rest.
Proof.
  intros H1 Hi Hc Hcol Hr Hs. unfold PSw, PX, PE in *. ev3 Hc Hr Hs. rewrite parse_switch_S, H1, Hi.
  replace (str_eqb s_case s_case) with true by reflexivity.
  rewrite Hc by lia. rewrite Hcol. cbn [negb]. rewrite Hr by lia. apply Hs. lia.
Qed.

Lemma PSw_default ids sv cs ua ts res u1 rest :
  typ_is (peek ts) tKeyWord = true -> kimg (peek ts) = s_default -> PE ids (adv ts) res u1 rest ->
  PSw ids sv cs ua ts (ASwitch sv cs res) (ua ++ u1) rest.
Proof.
  intros H1 Hi Hr. unfold PSw, PE in *. ev1 Hr. rewrite parse_switch_S, H1, Hi.
  replace (str_eqb s_default s_case) with false by reflexivity.
  replace (str_eqb s_default s_default) with true by reflexivity.
  rewrite Hr by lia. reflexivity.
Qed.

Lemma PLit_map ids ts e u rest :
  ktyp (peek ts) = tOpenCurly -> PM ids [] [] (adv ts) e u rest -> PLit ids ts e u rest.
Proof. intros H1 H. unfold PLit, PM in *. ev1 H. rewrite parse_literal_S, H1. apply H. lia. Qed.

Lemma PM_close ids m ua ts : ktyp (peek ts) = tCloseCurly -> PM ids m ua ts (AMapLit m) ua (adv ts).
Proof. intros H1. unfold PM. ev0. rewrite parse_map_S, H1. reflexivity. Qed.

Lemma PM_comma ids m ua ts entry u1 ts3 e u rest :
  ktyp (peek ts) = tIdent -> mem_str (kimg (peek ts)) (map fst m) = false ->
  typ_is (peek (adv ts)) tColon = true -> PE ids (adv (adv ts)) entry u1 ts3 ->
  typ_is (peek ts3) tComma = true ->
  PM ids (m ++ [(kimg (peek ts), entry)]) (ua ++ u1) (adv ts3) e u rest -> PM ids m ua ts e u rest.
Proof.
  intros H1 Hm Hc He Hcm H. unfold PM, PE in *. ev2 He H. rewrite parse_map_S, H1, Hm, Hc. cbn [negb].
  rewrite He by lia. rewrite Hcm. apply H. lia.
Qed.

Lemma PM_nocomma ids m ua ts entry u1 ts3 e u rest :
  ktyp (peek ts) = tIdent -> mem_str (kimg (peek ts)) (map fst m) = false ->
  typ_is (peek (adv ts)) tColon = true -> PE ids (adv (adv ts)) entry u1 ts3 ->
  typ_is (peek ts3) tComma = false -> typ_is (peek ts3) tCloseCurly = true ->
  PM ids (m ++ [(kimg (peek ts), entry)]) (ua ++ u1) ts3 e u rest -> PM ids m ua ts e u rest.
Proof.
  intros H1 Hm Hc He Hcm Hcc H. unfold PM, PE in *. ev2 He H. rewrite parse_map_S, H1, Hm, Hc. cbn [negb].
  rewrite He by lia. rewrite Hcm, Hcc. cbn [negb]. apply H. lia.
Qed.

(* ---------- parseLet ---------- *)
Lemma PE_expr ids ts e u rest :
  is_kw (peek ts) s_let = false -> is_kw (peek ts) s_func = false -> PX ids ts e u rest -> PE ids ts e u rest.
Proof.
  intros K1 K2 H. unfold PE, PX in *. ev1 H. rewrite parse_let_S_nokw by assumption. apply H. lia.
Qed.

Definition semi_ok (ts : list tk) : bool := typ_is (peek ts) tSemicolon && str_eqb (kimg (peek ts)) s_semi.

Lemma PE_let_const ids ts exp u1 ts4 c inner u2 rest :
  is_kw (peek ts) s_let = true -> typ_is (peek (adv ts)) tIdent = true ->
  is_op (peek (adv (adv ts))) s_assign = true ->
  PX ids (adv (adv (adv ts))) exp u1 ts4 -> semi_ok ts4 = true -> is_const exp = Some c ->
  PE (id_constant (kimg (peek (adv ts))) c :: ids) (adv ts4) inner u2 rest ->
  PE ids ts inner (u1 ++ escape (id_constant (kimg (peek (adv ts))) c) u2) rest.
Proof.
  intros K H1 H2 Hx Hs Hc Hi. unfold PE, PX, semi_ok in *. ev2 Hx Hi. rewrite parse_let_S, K, H1, H2. cbn [negb].
  rewrite Hx by lia. rewrite Hs. cbn [negb]. rewrite Hc. rewrite Hi by lia. reflexivity.
Qed.

Lemma PE_let_var ids ts exp u1 ts4 inner u2 rest :
  is_kw (peek ts) s_let = true -> typ_is (peek (adv ts)) tIdent = true ->
  is_op (peek (adv (adv ts))) s_assign = true ->
  PX ids (adv (adv (adv ts))) exp u1 ts4 -> semi_ok ts4 = true -> is_const exp = None ->
  PE (id_var (kimg (peek (adv ts))) :: ids) (adv ts4) inner u2 rest ->
  PE ids ts (ALet (kimg (peek (adv ts))) exp inner) (u1 ++ escape (id_var (kimg (peek (adv ts)))) u2) rest.
Proof.
  intros K H1 H2 Hx Hs Hc Hi. unfold PE, PX, semi_ok in *. ev2 Hx Hi. rewrite parse_let_S, K, H1, H2. cbn [negb].
  rewrite Hx by lia. rewrite Hs. cbn [negb]. rewrite Hc. rewrite Hi by lia. reflexivity.
Qed.

Lemma PE_func ids ts names ts4 exp ub ts5 inner u2 rest :
  is_kw (peek ts) s_let = false -> is_kw (peek ts) s_func = true -> typ_is (peek (adv ts)) tIdent = true ->
  typ_is (peek (adv (adv ts))) tOpen = true ->
  parse_identlist (S (length (adv (adv (adv ts))))) [] (adv (adv (adv ts))) = POk (names, ts4) ->
  PE (SThis (kimg (peek (adv ts))) :: SArgs names :: ids) ts4 exp ub ts5 -> semi_ok ts5 = true ->
  PE (id_var (kimg (peek (adv ts))) :: ids) (adv ts5) inner u2 rest ->
  PE ids ts
     (ALet (kimg (peek (adv ts)))
           (AClosure names exp (outers_of ids names (escape (SThis (kimg (peek (adv ts)))) ub))
                     (mem_str (kimg (peek (adv ts))) ub) (kimg (peek (adv ts))))
           inner)
     (escape (SArgs names) (escape (SThis (kimg (peek (adv ts)))) ub) ++ escape (id_var (kimg (peek (adv ts)))) u2)
     rest.
Proof.
  intros K1 K2 H1 H2 Hl Hb Hs Hi. unfold PE, semi_ok in *. ev2 Hb Hi. rewrite parse_let_S, K1, K2, H1, H2. cbn [negb].
  rewrite Hl. rewrite Hb by lia. rewrite Hs. cbn [negb]. rewrite Hi by lia. reflexivity.
Qed.

End FRel.
