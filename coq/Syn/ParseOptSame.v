(* Syn/ParseOpt.v against Syn/Parse.v: an optimizer that changes nothing gives the same parser; and the recover of
   parser2.Optimize is what keeps an optimizer panic inside. *)
From P2 Require Import Base.Prelude Base.PreludeProofs Lex.Token Syn.Ast Syn.Parse Syn.ParseRel Syn.ParseOpt Syn.ParseOptProofs.
Local Open Scope nat_scope.

(* ================================================================================================
   an optimizer that hands every tree back unchanged - none at all (p.optimizer == nil), or the identity - makes the model
   with the optimizer calls coincide with Syn/Parse.v, function by function *)
Section Same.
Variable cfg : pcfg.
Variable optimizer : option (ast -> ores).
Variable recovers : osite -> bool.
Hypothesis Hid : forall s a, run_opt optimizer recovers s a = POk a.
Let ops := c_ops cfg.
Let n := length ops.

Record same_at (f : nat) : Prop := {
  sm_let : forall ids ts, oparse_let cfg optimizer recovers f ids ts = parse_let cfg f ids ts;
  sm_expr : forall ids ts, oparse_expression cfg optimizer recovers f ids ts = parse_expression cfg f ids ts;
  sm_op : forall k ids ts, oparse_op cfg optimizer recovers f k ids ts = parse_op cfg f k ids ts;
  sm_loop : forall k o a u ids ts, oparse_op_loop cfg optimizer recovers f k o a u ids ts = parse_op_loop cfg f k o a u ids ts;
  sm_unary : forall ids ts, oparse_unary cfg optimizer recovers f ids ts = parse_unary cfg f ids ts;
  sm_nonop : forall ids ts, oparse_nonop cfg optimizer recovers f ids ts = parse_nonop cfg f ids ts;
  sm_postfix : forall e u ids ts, oparse_postfix cfg optimizer recovers f e u ids ts = parse_postfix cfg f e u ids ts;
  sm_literal : forall ids ts, oparse_literal cfg optimizer recovers f ids ts = parse_literal cfg f ids ts;
  sm_switch : forall sv cs u ids ts, oparse_switch cfg optimizer recovers f sv cs u ids ts = parse_switch cfg f sv cs u ids ts;
  sm_args : forall c ids ts, oparse_args cfg optimizer recovers f c ids ts = parse_args cfg f c ids ts;
  sm_args_loop : forall c acc u ids ts, oparse_args_loop cfg optimizer recovers f c acc u ids ts = parse_args_loop cfg f c acc u ids ts;
  sm_map : forall m u ids ts, oparse_map cfg optimizer recovers f m u ids ts = parse_map cfg f m u ids ts
}.

Ltac sm_rw IH :=
  rewrite ?(sm_let _ IH), ?(sm_expr _ IH), ?(sm_op _ IH), ?(sm_loop _ IH), ?(sm_unary _ IH), ?(sm_nonop _ IH),
          ?(sm_postfix _ IH), ?(sm_literal _ IH), ?(sm_switch _ IH), ?(sm_args _ IH), ?(sm_args_loop _ IH), ?(sm_map _ IH).

Ltac no_inner x :=
  lazymatch x with
  | context [match _ with _ => _ end] => fail
  | context [if _ then _ else _] => fail
  | _ => idtac
  end.

Ltac sm_walk IH :=
  unfold ocall_level, call_level; fold ops; fold n;
  repeat (sm_rw IH;
          first [ reflexivity
                | match goal with
                  | |- context [match ?x with _ => _ end] => no_inner x; destruct x eqn:?
                  | |- context [if ?x then _ else _] => no_inner x; destruct x eqn:?
                  end ]).

Lemma is_const_closure : forall a b c d e, is_const (AClosure a b c d e) = None.
Proof. reflexivity. Qed.

Ltac sm_walk_let IH :=
  repeat (sm_rw IH; rewrite ?Hid; cbv beta iota; rewrite ?is_const_closure;
          first [ reflexivity
                | match goal with
                  | |- context [match ?x with _ => _ end] => no_inner x; destruct x eqn:?
                  | |- context [if ?x then _ else _] => no_inner x; destruct x eqn:?
                  end ]).

Lemma same_step f : same_at f -> same_at (S f).
Proof.
  intros IH. constructor.
  - intros ids ts. rewrite oparse_let_S, parse_let_S. sm_walk_let IH.
  - intros ids ts. rewrite oparse_expression_S, parse_expression_S. sm_walk IH.
  - intros k ids ts. rewrite oparse_op_S, parse_op_S. sm_walk IH.
  - intros k o a u ids ts. rewrite oparse_op_loop_S, parse_op_loop_S. sm_walk IH.
  - intros ids ts. rewrite oparse_unary_S, parse_unary_S. sm_walk IH.
  - intros ids ts. rewrite oparse_nonop_S, parse_nonop_S. sm_walk IH.
  - intros e u ids ts. rewrite oparse_postfix_S, parse_postfix_S. sm_walk IH.
  - intros ids ts. rewrite oparse_literal_S, parse_literal_S. sm_walk IH.
  - intros sv cs u ids ts. rewrite oparse_switch_S, parse_switch_S. sm_walk IH.
  - intros c ids ts. rewrite oparse_args_S, parse_args_S. sm_walk IH.
  - intros c acc u ids ts. rewrite oparse_args_loop_S, parse_args_loop_S. sm_walk IH.
  - intros m u ids ts. rewrite oparse_map_S, parse_map_S. sm_walk IH.
Qed.

Lemma same_all : forall f, same_at f.
Proof. induction f as [|f IH]; [constructor; intros; reflexivity|]. apply same_step. exact IH. Qed.

Theorem oparse_same : forall f ids ts, oparse_fuel cfg optimizer recovers f ids ts = parse_fuel cfg f ids ts.
Proof.
  intros f ids ts. unfold oparse_fuel, parse_fuel. rewrite (sm_let f (same_all f)).
  destruct (parse_let cfg f ids ts) as [[[a u] rest]| | |]; try reflexivity.
  destruct (typ_is (peek rest) tEof); [apply Hid|reflexivity].
Qed.

End Same.

Theorem oparse_none_same : forall cfg recovers f ids ts, oparse_fuel cfg None recovers f ids ts = parse_fuel cfg f ids ts.
Proof. intros. apply oparse_same. intros s a. reflexivity. Qed.

Theorem oparse_identity_same : forall cfg recovers f ids ts,
  oparse_fuel cfg (Some (fun a => OOk a)) recovers f ids ts = parse_fuel cfg f ids ts.
Proof. intros. apply oparse_same. intros s a. reflexivity. Qed.

(* ================================================================================================
   the recover is what contains the panic: the same program, the same panicking optimizer; the func closure is
   optimized without the recover (opt(clo, p.optimizer) instead of Optimize(clo, p.optimizer)) *)
Definition esc_cfg : pcfg := mkPcfg [] [] (Some (fun s => Some s)) None.
Definition esc_toks : list tk :=   (* func g(a) 1; 1 *)
  [(tKeyWord, s_func); (tIdent, [103%N]); (tOpen, [40%N]); (tIdent, [97%N]); (tClose, [41%N]); (tNumber, [49%N]);
   (tSemicolon, s_semi); (tNumber, [49%N])].
Definition esc_opt : option (ast -> ores) := Some (fun a => OPanic a).

Lemma unrecovered_site_lets_panic_through :
  oparse esc_cfg esc_opt (fun s => match s with SiteFunc => false | _ => true end) [] esc_toks = PPanic
  /\ exists a, oparse esc_cfg esc_opt (fun _ => true) [] esc_toks = POk a.
Proof. split; [vm_compute; reflexivity|eexists; vm_compute; reflexivity]. Qed.
