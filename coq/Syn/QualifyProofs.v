(* C16 - proofs: lookups through AddMap answer the map exactly for the free attributes; the expression
   fragment parses to the same AST in implicit-attribute mode and, qualified, in plain mode - under any
   stack of enclosing binders; closures capture the same outer identifiers in both modes. *)
From P2 Require Import Base.Prelude Base.PreludeProofs Lex.Token Syn.Ast Syn.Parse Syn.Render Syn.ParseRel
  Syn.ParseProofs Syn.ParseSound Syn.ParseTotal Syn.ParseCor Syn.Qualify.
From P2 Require Sem.Syntax Sem.Gen.
Local Open Scope nat_scope.

Section QP.
Variable cfg : pcfg.
Variable m : str.
Variable B : idents.
Hypothesis Hm : m <> [].

Notation wm := (wm_chain m B).
Notation pl := (pl_chain m B).
Notation free_attr := (free_attr m B).
Notation qualify := (qualify m B).
Notation qualify_args := (qualify_args m B).
Notation qname := (qname m B).

(* ---------- lookups ---------- *)
Lemma lookup_app : forall L C x, local L = true ->
  lookup (L ++ C) x = if bound_in L x then lookup L x else lookup C x.
Proof.
  induction L as [|s L IH]; intros C x HL; [reflexivity|].
  cbn [local forallb] in HL. apply andb_true_iff in HL. destruct HL as [Hs HL].
  cbn [app lookup bound_in existsb answers]. fold (bound_in L x).
  destruct s as [i|t|n|ns]; try discriminate.
  - cbn [answers]. destruct (str_eqb x (id_name i)); [reflexivity|]. cbn [orb]. apply IH. exact HL.
  - cbn [answers]. destruct (str_eqb x n); [reflexivity|]. cbn [orb]. apply IH. exact HL.
  - cbn [answers]. destruct (mem_str x ns); [reflexivity|]. cbn [orb]. apply IH. exact HL.
Qed.

Definition this_ident (x : str) : ident := mkId x m false false [].

Lemma lookup_wm_base : forall x,
  lookup ([SArgs [m]; SMap m] ++ B) x =
  if str_eqb x m then Some (id_plain x)
  else match lookup B x with
       | Some i => if id_const i then Some i else Some (this_ident x)
       | None => Some (this_ident x)
       end.
Proof.
  intros x. cbn [app lookup mem_str]. rewrite orb_false_r. destruct (str_eqb x m); reflexivity.
Qed.

Lemma lookup_pl_base : forall x,
  lookup ([SArgs [m]] ++ B) x = if str_eqb x m then Some (id_plain x) else lookup B x.
Proof. intros x. cbn [app lookup mem_str]. rewrite orb_false_r. reflexivity. Qed.

(* shadowing: a local binding (let, func, closure parameter, constant found by let) wins in both modes *)
Lemma shadowing_local : forall L x, local L = true -> bound_in L x = true ->
  lookup (wm L) x = lookup L x /\ lookup (pl L) x = lookup L x.
Proof.
  intros L x HL Hb. unfold wm_chain, pl_chain. rewrite (lookup_app L ([SArgs [m]; SMap m] ++ B)), (lookup_app L ([SArgs [m]] ++ B)) by assumption. rewrite Hb. split; reflexivity.
Qed.

(* shadowing: a constant or static function of the generator wins over an attribute of the same name *)
Lemma shadowing_const : forall L x i, local L = true -> bound_in L x = false -> str_eqb x m = false ->
  lookup B x = Some i -> id_const i = true ->
  lookup (wm L) x = Some i /\ lookup (pl L) x = Some i.
Proof.
  intros L x i HL Hb Hxm Hi Hc. unfold wm_chain, pl_chain. rewrite (lookup_app L ([SArgs [m]; SMap m] ++ B)), (lookup_app L ([SArgs [m]] ++ B)) by assumption. rewrite Hb.
  rewrite lookup_wm_base, lookup_pl_base, Hxm, Hi, Hc. split; reflexivity.
Qed.

(* a lookup through AddMap answers the map exactly for the free attributes *)
Lemma lookup_attr : forall L x, local L = true -> free_attr L x = true ->
  lookup (wm L) x = Some (this_ident x).
Proof.
  intros L x HL Hf. unfold Qualify.free_attr in Hf.
  apply andb_true_iff in Hf. destruct Hf as [Hf Hb3]. apply andb_true_iff in Hf. destruct Hf as [Hb Hxm].
  apply negb_true_iff in Hb, Hxm.
  unfold wm_chain. rewrite lookup_app by assumption. rewrite Hb, lookup_wm_base, Hxm.
  destruct (lookup B x) as [i|]; [|reflexivity]. apply negb_true_iff in Hb3. rewrite Hb3. reflexivity.
Qed.

Lemma lookup_nonattr : forall L x, local L = true -> free_attr L x = false ->
  lookup (wm L) x = lookup (pl L) x.
Proof.
  intros L x HL Hf. unfold wm_chain, pl_chain. rewrite (lookup_app L ([SArgs [m]; SMap m] ++ B)), (lookup_app L ([SArgs [m]] ++ B)) by assumption.
  destruct (bound_in L x) eqn:Hb; [reflexivity|].
  rewrite lookup_wm_base, lookup_pl_base. destruct (str_eqb x m) eqn:Hxm; [reflexivity|].
  unfold Qualify.free_attr in Hf. rewrite Hb, Hxm in Hf. cbn [negb andb] in Hf.
  destruct (lookup B x) as [i|]; [|discriminate]. apply negb_false_iff in Hf. rewrite Hf. reflexivity.
Qed.

Lemma lookup_map_pl : forall L, local L = true -> bound_in L m = false -> lookup (pl L) m = Some (id_plain m).
Proof.
  intros L HL Hb. unfold pl_chain. rewrite lookup_app by assumption. rewrite Hb, lookup_pl_base, str_eqb_refl. reflexivity.
Qed.

(* the map argument itself is the plain argument in implicit-attribute mode too (AddArgs([m]) lies ABOVE AddMap(m)):
   a lookup of m never answers ThisName, so  m  is never read as  m.m  *)
Lemma lookup_map_wm : forall L, local L = true -> bound_in L m = false -> lookup (wm L) m = Some (id_plain m).
Proof.
  intros L HL Hb. unfold wm_chain. rewrite lookup_app by assumption. rewrite Hb, lookup_wm_base, str_eqb_refl. reflexivity.
Qed.

Lemma resolve_attr : forall L x, local L = true -> free_attr L x = true ->
  resolve (wm L) x = Some (AAccess x (AIdent m false)).
Proof.
  intros L x HL Hf. unfold resolve. rewrite (lookup_attr L x HL Hf). cbn. destruct m; [congruence|reflexivity].
Qed.

Lemma resolve_nonattr : forall L x, local L = true -> free_attr L x = false ->
  resolve (wm L) x = resolve (pl L) x.
Proof. intros L x HL Hf. unfold resolve. rewrite (lookup_nonattr L x HL Hf). reflexivity. Qed.

Lemma resolve_map_pl : forall L, local L = true -> bound_in L m = false -> resolve (pl L) m = Some (AIdent m false).
Proof. intros L HL Hb. unfold resolve. rewrite (lookup_map_pl L HL Hb). reflexivity. Qed.

(* ---------- qualification of rendering trees ---------- *)
Lemma q_RIdent L x : qualify L (RIdent x) = if free_attr L x then RParen (RAccess (RIdent m) x) else RIdent x.
Proof. reflexivity. Qed.
Lemma q_RParen L r : qualify L (RParen r) = RParen (qualify L r). Proof. reflexivity. Qed.
Lemma q_RBin L j l r : qualify L (RBin j l r) = RBin j (qualify L l) (qualify L r). Proof. reflexivity. Qed.
Lemma q_RUn L u e : qualify L (RUn u e) = RUn u (qualify L e). Proof. reflexivity. Qed.
Lemma q_RAccess L e x : qualify L (RAccess e x) = RAccess (qualify L e) x. Proof. reflexivity. Qed.
Lemma q_RMethod L e x a : qualify L (RMethod e x a) = RMethod (qualify L e) x (qualify_args L a). Proof. reflexivity. Qed.
Lemma q_RCall L e a : qualify L (RCall e a) = RCall (qualify L e) (qualify_args L a). Proof. reflexivity. Qed.
Lemma q_RIndex L e i : qualify L (RIndex e i) = RIndex (qualify L e) (qualify L i). Proof. reflexivity. Qed.
Lemma q_RList L a : qualify L (RList a) = RList (qualify_args L a). Proof. reflexivity. Qed.
Lemma q_last L e : qualify_args L (RA_last e) = RA_last (qualify L e). Proof. reflexivity. Qed.
Lemma q_cons L e r : qualify_args L (RA_cons e r) = RA_cons (qualify L e) (qualify_args L r). Proof. reflexivity. Qed.

Ltac qsimpl := rewrite ?q_RIdent, ?q_RParen, ?q_RBin, ?q_RUn, ?q_RAccess, ?q_RMethod, ?q_RCall, ?q_RIndex, ?q_RList,
  ?q_last, ?q_cons in *.

Lemma q_shape : forall L r, lvl cfg (qualify L r) = lvl cfg r /\ ab cfg (qualify L r) = ab cfg r /\
  is_access (qualify L r) = is_access r.
Proof.
  intros L. induction r using rt_mut with (P0 := fun _ => True); qsimpl; auto.
  - destruct (free_attr L name); auto.
  - cbn [Render.lvl Render.ab is_access]. destruct IHr2 as (_ & E & _). auto.
  - cbn [Render.lvl Render.ab is_access]. destruct IHr as (_ & E & _). rewrite E. auto.
Qed.

Lemma q_wf : forall L, (forall r, wf cfg (qualify L r) = wf cfg r) /\
                       (forall a, wf_args cfg (qualify_args L a) = wf_args cfg a).
Proof.
  intros L. apply rt_rargs_ind.
  - intros x. qsimpl. destruct (free_attr L x); [|reflexivity]. rsimpl. cbn [Render.wf Render.lvl].
    rewrite Nat.eqb_refl. reflexivity.
  - reflexivity.
  - reflexivity.
  - intros r H. qsimpl. rsimpl. exact H.
  - intros j l H r H0. qsimpl. rsimpl. destruct (q_shape L l) as (E1 & E2 & _). destruct (q_shape L r) as (E3 & _ & _).
    rewrite H, H0, E1, E2, E3. reflexivity.
  - intros u e H. qsimpl. rsimpl. destruct (q_shape L e) as (E1 & _ & _). rewrite H, E1. reflexivity.
  - intros e H x. qsimpl. rsimpl. destruct (q_shape L e) as (E1 & _ & _). rewrite H, E1. reflexivity.
  - intros e H x a H0. qsimpl. rsimpl. destruct (q_shape L e) as (E1 & _ & _). rewrite H, H0, E1. reflexivity.
  - intros e H a H0. qsimpl. rsimpl. destruct (q_shape L e) as (E1 & _ & E3). rewrite H, H0, E1, E3. reflexivity.
  - intros e H i H0. qsimpl. rsimpl. destruct (q_shape L e) as (E1 & _ & _). rewrite H, H0, E1. reflexivity.
  - intros a H. qsimpl. rsimpl. exact H.
  - reflexivity.
  - intros e H. qsimpl. rsimpl. exact H.
  - intros e H r H0. qsimpl. rsimpl. rewrite H, H0. reflexivity.
Qed.

Lemma q_erase : forall L, local L = true -> bound_in L m = false ->
  (forall r, erase cfg (wm L) r = erase cfg (pl L) (qualify L r)) /\
  (forall a, erase_args cfg (wm L) a = erase_args cfg (pl L) (qualify_args L a)).
Proof.
  intros L HL Hb. apply rt_rargs_ind.
  - intros x. qsimpl. destruct (free_attr L x) eqn:Hf.
    + rsimpl. rewrite (resolve_attr L x HL Hf), (resolve_map_pl L HL Hb). reflexivity.
    + rsimpl. apply resolve_nonattr; assumption.
  - reflexivity.
  - reflexivity.
  - intros r H. qsimpl. rsimpl. exact H.
  - intros j l H r H0. qsimpl. rsimpl. rewrite H, H0. reflexivity.
  - intros u e H. qsimpl. rsimpl. rewrite H. reflexivity.
  - intros e H x. qsimpl. rsimpl. rewrite H. reflexivity.
  - intros e H x a H0. qsimpl. rsimpl. rewrite H, H0. reflexivity.
  - intros e H a H0. qsimpl. rsimpl. rewrite H, H0. reflexivity.
  - intros e H i H0. qsimpl. rsimpl. rewrite H, H0. reflexivity.
  - intros a H. qsimpl. rsimpl. rewrite H. reflexivity.
  - reflexivity.
  - intros e H. qsimpl. rsimpl. rewrite H. reflexivity.
  - intros e H r H0. qsimpl. rsimpl. rewrite H, H0. reflexivity.
Qed.

(* withmap_is_qualify on the expression fragment, under ANY stack L of enclosing binders: the expression in
   implicit-attribute mode and the qualified expression in plain mode parse to the same AST *)
Theorem withmap_is_qualify_fragment : table_ok cfg = true ->
  forall L r e, local L = true -> bound_in L m = false ->
  wf cfg r = true -> erase cfg (wm L) r = Some e ->
  parse cfg (wm L) (flatten cfg r) = POk e /\
  parse cfg (pl L) (flatten cfg (qualify L r)) = POk e.
Proof.
  intros Ht L r e HL Hb W E. split.
  - apply parse_complete_exact; assumption.
  - apply parse_complete_exact; [assumption| |].
    + rewrite (proj1 (q_wf L)). exact W.
    + rewrite <- (proj1 (q_erase L HL Hb)). exact E.
Qed.

(* ---------- closures capture the same identifiers in both modes ---------- *)
(* u: the lookups the body of a closure with parameters [names] made, in implicit-attribute mode; the qualified
   body looks up the map instead of every attribute.  OuterIdents and the Recursive flag agree. *)
Lemma flat_map_map {A B0 C} (f : A -> B0) (g : B0 -> list C) l : flat_map g (map f l) = flat_map (fun x => g (f x)) l.
Proof. induction l as [|x l IH]; cbn; [reflexivity|]. rewrite IH. reflexivity. Qed.

Theorem outers_agree : forall L names u, local L = true -> bound_in L m = false -> mem_str m names = false ->
  outers_of (wm L) names u = outers_of (pl L) names (map (qname (SArgs names :: L)) u).
Proof.
  intros L names u HL Hb Hmn. unfold outers_of. f_equal. rewrite flat_map_map.
  apply flat_map_ext. intros n. unfold Qualify.qname.
  destruct (mem_str n names) eqn:Hn.
  - assert (Hf : free_attr (SArgs names :: L) n = false).
    { unfold Qualify.free_attr. cbn [bound_in existsb answers]. rewrite Hn. reflexivity. }
    rewrite Hf, Hn. reflexivity.
  - assert (Hf : free_attr (SArgs names :: L) n = free_attr L n).
    { unfold Qualify.free_attr. cbn [bound_in existsb answers]. rewrite Hn. reflexivity. }
    rewrite Hf. destruct (free_attr L n) eqn:Hfa.
    + rewrite Hmn, (lookup_attr L n HL Hfa), (lookup_map_pl L HL Hb). cbn. destruct m; [congruence|reflexivity].
    + rewrite Hn, (lookup_nonattr L n HL Hfa). reflexivity.
Qed.

Theorem recursive_agree : forall L f u, str_eqb f m = false ->
  mem_str f u = mem_str f (map (qname (SThis f :: L)) u).
Proof.
  intros L f u Hfm. induction u as [|x u IH]; [reflexivity|]. cbn [map mem_str]. rewrite <- IH. f_equal.
  unfold Qualify.qname, Qualify.free_attr. cbn [bound_in existsb answers].
  match goal with |- context [if ?c then m else x] => destruct c eqn:Ec end; [|reflexivity].
  rewrite Hfm. apply andb_true_iff in Ec. destruct Ec as [Ec _]. apply andb_true_iff in Ec. destruct Ec as [Ec _].
  apply negb_true_iff in Ec. apply orb_false_iff in Ec. destruct Ec as [Ec _].
  rewrite str_eqb_sym. exact Ec.
Qed.

End QP.

(* before the repair of AddArgs (the attribute name was recorded instead of the map) the closure of
   l.map(e->e+a)  captured  a  in implicit-attribute mode and  m  in the qualified program *)
Definition rf_m : str := [109]%N.
Definition rf_body_lookups : list str := [[101]; [97]]%N.          (* e, a *)
Theorem withmap_before_repair_refuted :
  outers_of_old (wm_chain rf_m [] []) [[101]%N] rf_body_lookups = [[97]%N] /\
  outers_of (pl_chain rf_m [] []) [[101]%N] (map (qname rf_m [] [SArgs [[101]%N]]) rf_body_lookups) = [rf_m] /\
  outers_of (wm_chain rf_m [] []) [[101]%N] rf_body_lookups = [rf_m].
Proof. vm_compute. repeat split. Qed.

(* ... and the generator (gen_check of Sem/Gen.v = the error returns of GenerateFunc) rejects the AST with
   OuterIdents [a] under the arguments [m] ("not found") while it accepts the one with OuterIdents [m] *)
Definition rf_prog (outer : list str) : P2.Sem.Syntax.ast :=
  P2.Sem.Syntax.AMethod (P2.Sem.Syntax.AMember (P2.Sem.Syntax.AIdent rf_m) [108]%N) [109; 97; 112]%N
    [P2.Sem.Syntax.AClosure [[101]%N]
       (P2.Sem.Syntax.AOp [43]%N (P2.Sem.Syntax.AIdent [101]%N)
                          (P2.Sem.Syntax.AMember (P2.Sem.Syntax.AIdent rf_m) [97]%N))
       outer false []].
Theorem withmap_before_repair_generate_refuted :
  P2.Sem.Gen.gen_check 50 [Some rf_m] [] (rf_prog (outers_of_old (wm_chain rf_m [] []) [[101]%N] rf_body_lookups)) = false /\
  P2.Sem.Gen.gen_check 50 [Some rf_m] [] (rf_prog (outers_of (wm_chain rf_m [] []) [[101]%N] rf_body_lookups)) = true.
Proof. vm_compute. split; reflexivity. Qed.
