(* C10 / C11 - map constants and map operations of an evaluation (value/map.go over Heap/MapHeap.v).

   Constants: map literals and put / merge (+) / replace / map / accept / eval applied to constants are folded at
   Generate time: each is one operation of MapHeap (mstep) on the generator's map heap; the function keeps the
   resulting map VALUES (mstore trees whose ListMap leaves point into the heap's entry arrays).
   An evaluation with put, +, get (field access) and size builds wrapper storages (AppendMap, MergeMap: value/map.go
   never writes an existing storage) and reads; it allocates no entry array and writes none: an evaluation of this
   fragment performs NO heap step at all - it is a function of (entry arrays, constants, arguments).  What other
   evaluations, other functions and further Generate calls do to the map heap in between is any sequence of
   MapHeap operations.

   Specification side: finite maps as association lists (sp_m, sp_mz), constants by MapHeap's specification mpstep. *)
From P2 Require Import Base.Prelude Heap.ListHeap Heap.MapHeap Heap.FuncState.
Local Open Scope nat_scope.

Inductive mexp :=
| MConst (i : nat)                      (* i-th map constant *)
| MPutX (m : mexp) (k : str) (v : sexp) (* m.put(k, v): error when the key exists *)
| MMergeX (a b : mexp).                 (* a + b: error when a key of b exists in a *)

Inductive mzexp :=
| MZS (e : sexp)
| MZGet (m : mexp) (k : str)            (* m.k: error when the key is missing *)
| MZSize (m : mexp)
| MZAdd (a b : mzexp)
| MZTry (a b : mzexp).

Record mprog := mkMP { mp_defs : list mop; mp_body : mzexp }.   (* definitions: MapHeap operations on constant numbers *)

Definition sval (args : list Z) (e : sexp) : Z := ev_s (mkEnv (mkCaps (fun n => n) (fun n => n)) [] [] args) e.

Fixpoint ev_m (arrs : marrays) (cs : list mstore) (args : list Z) (e : mexp) : option mstore :=
  match e with
  | MConst i => nth_error cs i
  | MPutX m k v =>
      match ev_m arrs cs args m with
      | Some s => if has_key arrs s k then None else Some (SAppend k (sval args v) s)
      | None => None
      end
  | MMergeX a b =>
      match ev_m arrs cs args a, ev_m arrs cs args b with
      | Some sa, Some sb => if existsb (fun e => has_key arrs sa (fst e)) (miter arrs sb) then None else Some (SMerge sa sb)
      | _, _ => None
      end
  end.

Fixpoint ev_mz (arrs : marrays) (cs : list mstore) (args : list Z) (e : mzexp) : option Z :=
  match e with
  | MZS s => Some (sval args s)
  | MZGet m k => match ev_m arrs cs args m with Some s => mget arrs s k | None => None end
  | MZSize m => match ev_m arrs cs args m with Some s => Some (Z.of_nat (msize arrs s)) | None => None end
  | MZAdd a b => match ev_mz arrs cs args a, ev_mz arrs cs args b with Some x, Some y => Some (x + y)%Z | _, _ => None end
  | MZTry a b => match ev_mz arrs cs args a with Some x => Some x | None => ev_mz arrs cs args b end
  end.

(* Generate on a new generator: every definition must add exactly one map (a failing definition would stay a
   run-time let: not modelled); constant i is the map definition i added *)
Fixpoint mgen_defs (h : mheap) (ds : list mop) : option mheap :=
  match ds with
  | [] => Some h
  | d :: r => let h' := mstep h d in if nmaps h' =? S (nmaps h) then mgen_defs h' r else None
  end.

Definition mgenerate (p : mprog) : option mheap := mgen_defs empty_mheap (mp_defs p).

(* what the model of the implementation answers for program p and args *)
Definition meval_prog (p : mprog) (args : list Z) : option (option Z) :=
  match mgenerate p with
  | Some h => Some (ev_mz (mh_arrs h) (mh_maps h) args (mp_body p))
  | None => None
  end.

Definition meval_on (h : mheap) (cs : list mstore) (args : list Z) (b : mzexp) : option Z := ev_mz (mh_arrs h) cs args b.

(* ------------------------------------------------------------------ specification side *)

Fixpoint sp_m (cv : list (list entry)) (args : list Z) (e : mexp) : option (list entry) :=
  match e with
  | MConst i => nth_error cv i
  | MPutX m k v => match sp_m cv args m with
                   | Some es => if phas es k then None else Some (sort_entries ((k, sval args v) :: es))
                   | None => None end
  | MMergeX a b => match sp_m cv args a, sp_m cv args b with
                   | Some ea, Some eb => if existsb (fun e => phas ea (fst e)) eb then None else Some (sort_entries (ea ++ eb))
                   | _, _ => None end
  end.

Fixpoint sp_mz (cv : list (list entry)) (args : list Z) (e : mzexp) : option Z :=
  match e with
  | MZS s => Some (sval args s)
  | MZGet m k => match sp_m cv args m with Some es => assoc k es | None => None end
  | MZSize m => match sp_m cv args m with Some es => Some (Z.of_nat (length es)) | None => None end
  | MZAdd a b => match sp_mz cv args a, sp_mz cv args b with Some x, Some y => Some (x + y)%Z | _, _ => None end
  | MZTry a b => match sp_mz cv args a with Some x => Some x | None => sp_mz cv args b end
  end.

(* THE SPECIFICATION: constants by MapHeap's specification side (mpstep), the body on association lists *)
Definition sp_mprog (p : mprog) (args : list Z) : option Z := sp_mz (fold_left mpstep (mp_defs p) []) args (mp_body p).
