(* Proofs about Heap/MixState.v, second part: what a generated function of the mixed fragment denotes on the state
   it was generated on (xfunc_denotes: entries shown by its constant maps, content of its list constants, handles) IS
   the value the heap-free specification sp_xprog assigns to the program text (entries and lists of lists hold
   CONTENT), for well-typed programs (xprog_wt).  With Heap/MixStateProofs.v: Generate(p) at any point of any history,
   any further history, Eval(args) = sp_xprog p args. *)
From P2 Require Import Base.Prelude Heap.ListHeap Heap.ListHeapProofs Heap.MapHeap Heap.MapHeapProofs.
From P2 Require Import Heap.FuncState Heap.FuncStateProofs Heap.MixState Heap.MixStateProofs.
Require Import Lia.
Local Open Scope nat_scope.


Section Rel.
Variable h : heap.
Variable cs0 : list nat.

Definition vrel (k : str) (z : Z) (sv : xsv) : Prop :=
  match sv with
  | SVI z' => z = z' /\ is_lkey k = false
  | SVL xs => is_lkey k = true /\ exists a, z = Z.of_nat a /\ In a cs0 /\ icontent h a = xs
  end.
Definition erel (e : entry) (se : sentry) : Prop := fst e = fst se /\ vrel (fst e) (snd e) (snd se).
Definition esrel := Forall2 erel.

Definition xorel (a : nat) (ll : list (list Z)) : Prop :=
  exists hs, icontent h a = map Z.of_nat hs /\ Forall (fun b => In b cs0) hs /\ map (icontent h) hs = ll.

Record envrel (en : xenv) (cvm : list (list entry)) (se : xsenv) : Prop := mkER {
  er_cs : map (icontent h) (xe_cs en) = xs_cv se;
  er_in : incl (xe_cs en) cs0;
  er_out : incl cs0 (xe_cs en);
  er_zs : xe_zs en = xs_zs se;
  er_args : xe_args en = xs_args se;
  er_os : Forall2 xorel (xe_os en) (xs_ov se);
  er_ms : Forall2 esrel cvm (xs_mv se) }.

Lemma sval_eq : forall en cvm se e, envrel en cvm se -> xsval en e = sp_s (mkSE [] (xs_zs se) (xs_args se)) e.
Proof. intros en cvm se e E. unfold xsval, sp_s, id_caps. cbn. rewrite (er_zs _ _ _ E), (er_args _ _ _ E). reflexivity. Qed.

Lemma nth_error_map_some : forall A B (f : A -> B) l i, nth_error (map f l) i = match nth_error l i with Some a => Some (f a) | None => None end.
Proof. intros A B f l. induction l as [|x l IH]; intros [|i]; cbn; auto. Qed.

Lemma xv_rel : forall en cvm se k v, envrel en cvm se -> xval_typed (k, v) = true ->
  match xv_eval en v, sp_xv se v with
  | Some z, Some sv => vrel k z sv
  | None, None => True
  | _, _ => False
  end.
Proof.
  intros en cvm se k v E T. destruct v as [e|i]; cbn [xv_eval sp_xv]; unfold xval_typed in T; cbn [fst snd] in T.
  - cbn. split; [eapply sval_eq; eauto|]. destruct (is_lkey k); [discriminate|reflexivity].
  - rewrite <- (er_cs _ _ _ E). rewrite nth_error_map_some.
    destruct (nth_error (xe_cs en) i) as [a|] eqn:Ea; [|exact I].
    cbn. split; [exact T|]. exists a. split; [reflexivity|]. split; [|reflexivity].
    apply (er_in _ _ _ E). eapply nth_error_In; eauto.
Qed.

Lemma put_rel : forall es ses k z sv, esrel es ses -> vrel k z sv -> esrel (pl_put es k z) (sp_put ses k sv).
Proof.
  intros es ses k z sv F V. induction F as [|[k1 z1] [k2 s2] es ses [K R] F IH]; cbn [pl_put sp_put].
  - constructor; [|constructor]. split; [reflexivity|exact V].
  - cbn [fst snd] in K, R. subst k2. destruct (str_eqb k1 k) eqn:Ek.
    + constructor; [|exact F]. split; [reflexivity|]. cbn [fst snd]. apply str_eqb_eq in Ek. subst k1. exact V.
    + constructor; [split; [reflexivity|exact R]|exact IH].
Qed.

Lemma xvs_rel : forall en cvm se es, envrel en cvm se -> forallb xval_typed es = true ->
  forall acc sacc, esrel acc sacc ->
  match xvs_eval en es with
  | Some ents => exists ses, sp_xvs se es sacc = Some ses /\
                 esrel (fold_left (fun a e => pl_put a (fst e) (snd e)) ents acc) ses
  | None => sp_xvs se es sacc = None
  end.
Proof.
  intros en cvm se es E. induction es as [|[k v] es IH]; intros T acc sacc A; cbn [xvs_eval sp_xvs].
  - exists sacc. split; [reflexivity|exact A].
  - cbn [forallb] in T. apply andb_prop in T. destruct T as [T1 T2].
    pose proof (xv_rel en cvm se k v E T1) as V.
    destruct (xv_eval en v) as [z|], (sp_xv se v) as [sv|]; try contradiction; [|reflexivity].
    specialize (IH T2 (pl_put acc k z) (sp_put sacc k sv) (put_rel _ _ _ _ _ A V)).
    destruct (xvs_eval en es) as [ents|]; [|exact IH]. cbn [fold_left fst snd]. exact IH.
Qed.

Lemma assoc_rel : forall es ses k, esrel es ses ->
  match assoc k es, assoc k ses with
  | Some z, Some sv => vrel k z sv
  | None, None => True
  | _, _ => False
  end.
Proof.
  intros es ses k F. induction F as [|[k1 z1] [k2 s2] es ses [K R] F IH]; cbn [assoc]; [exact I|].
  cbn [fst snd] in K, R. subst k2. destruct (str_eqb k k1) eqn:Ek; [|exact IH].
  apply str_eqb_eq in Ek. subst k1. exact R.
Qed.

Lemma phas_rel : forall es ses k, esrel es ses -> phas es k = shas ses k.
Proof.
  intros es ses k F. unfold phas, shas. pose proof (assoc_rel es ses k F) as H.
  destruct (assoc k es), (assoc k ses); try contradiction; reflexivity.
Qed.

Definition orel2 {A B} (R : A -> B -> Prop) (a : option A) (b : option B) : Prop :=
  match a, b with Some x, Some y => R x y | None, None => True | _, _ => False end.

Lemma xm_rel_spec : forall m en cvm se, envrel en cvm se -> xm_typed m = true ->
  orel2 esrel (pm_xm en cvm m) (sp_xm se m).
Proof.
  induction m as [i|es|m IH k v|a IHa b IHb]; intros en cvm se E T; cbn [pm_xm sp_xm xm_typed] in *.
  - apply (forall2_nth_error _ _ _ _ _ i (er_ms _ _ _ E)).
  - pose proof (xvs_rel en cvm se es E T [] [] (Forall2_nil _)) as H.
    destruct (xvs_eval en es) as [ents|].
    + destruct H as (ses & Hs & R). rewrite Hs. exact R.
    + rewrite H. exact I.
  - apply andb_prop in T. destruct T as [T1 T2]. specialize (IH en cvm se E T1).
    pose proof (xv_rel en cvm se k v E T2) as V. unfold orel2 in *.
    destruct (pm_xm en cvm m) as [es|], (sp_xm se m) as [ses|]; try contradiction; [|exact I].
    destruct (xv_eval en v) as [z|], (sp_xv se v) as [sv|]; try contradiction; [|exact I].
    rewrite (phas_rel es ses k IH). destruct (shas ses k); [exact I|].
    constructor; [split; [reflexivity|exact V]|exact IH].
  - apply andb_prop in T. destruct T as [T1 T2]. specialize (IHa en cvm se E T1). specialize (IHb en cvm se E T2).
    unfold orel2 in *.
    destruct (pm_xm en cvm a) as [ea|], (sp_xm se a) as [sa|]; try contradiction; [|exact I].
    destruct (pm_xm en cvm b) as [eb|], (sp_xm se b) as [sb|]; try contradiction; [|exact I].
    assert (X : existsb (fun e => phas ea (fst e)) eb = existsb (fun e => shas sa (fst e)) sb).
    { clear -IHa IHb. induction IHb as [|e s eb sb [K _] F IH]; cbn; [reflexivity|].
      rewrite (phas_rel ea sa (fst e) IHa), K, IH. reflexivity. }
    rewrite X. destruct (existsb (fun e => shas sa (fst e)) sb); [exact I|]. apply Forall2_app; auto.
Qed.

Lemma forall2_len : forall A B (R : A -> B -> Prop) l l', Forall2 R l l' -> length l = length l'.
Proof. intros A B R l l' F. induction F; cbn; auto. Qed.

Lemma in_scope_of : forall cs a, In a cs -> in_scope cs (Z.of_nat a) = true.
Proof.
  intros cs a H. unfold in_scope. apply existsb_exists. exists a. split; [exact H|apply Z.eqb_refl].
Qed.

Lemma envrel_add_list : forall en cvm se a, envrel en cvm se -> In a cs0 ->
  envrel (mkXE (xe_cs en ++ [a]) (xe_zs en) (xe_os en) (xe_ms en) (xe_args en)) cvm
         (mkXSE (xs_cv se ++ [icontent h a]) (xs_zs se) (xs_ov se) (xs_mv se) (xs_args se)).
Proof.
  intros en cvm se a E Ha. destruct E. constructor; cbn; auto.
  - rewrite map_app, er_cs0. reflexivity.
  - intros x Hx. apply in_app_or in Hx. destruct Hx as [Hx|[Hx|[]]]; [auto|subst; auto].
  - intros x Hx. apply in_or_app. left. auto.
Qed.

Lemma envrel_add_int : forall en cvm se z, envrel en cvm se ->
  envrel (mkXE (xe_cs en) (xe_zs en ++ [z]) (xe_os en) (xe_ms en) (xe_args en)) cvm
         (mkXSE (xs_cv se) (xs_zs se ++ [z]) (xs_ov se) (xs_mv se) (xs_args se)).
Proof. intros en cvm se z E. destruct E. constructor; cbn; auto. rewrite er_zs0. reflexivity. Qed.

Lemma not_poisoned_handles : forall hs, poisoned (map Z.of_nat hs) = false.
Proof.
  induction hs as [|x hs IH]; cbn; [reflexivity|]. unfold poisoned in IH. rewrite IH.
  unfold is_poison. destruct (Z.ltb_spec (Z.of_nat x) (-1000000000000000)); [lia|reflexivity].
Qed.

Definition brel (a : option (list nat * list Z)) (b : option (list (list Z) * list Z)) : Prop :=
  match a, b with
  | Some (cs, zs), Some (cv, zs') => zs = zs' /\ map (icontent h) cs = cv
  | None, None => True
  | _, _ => False
  end.

Lemma binds_rel_spec : forall bs en cvm se, envrel en cvm se -> forallb xb_typed bs = true ->
  brel (pm_binds en cvm (icontent h) bs) (sp_binds se bs).
Proof.
  induction bs as [|b bs IH]; intros en cvm se E T; cbn [pm_binds sp_binds].
  - cbn. split; [apply (er_zs _ _ _ E)|apply (er_cs _ _ _ E)].
  - cbn [forallb] in T. apply andb_prop in T. destruct T as [T1 T2].
    destruct b as [m k|m k|m|o i|o]; cbn [xb_typed] in T1.
    + apply andb_prop in T1. destruct T1 as [Tm Tk].
      pose proof (xm_rel_spec m en cvm se E Tm) as R. unfold orel2 in R.
      destruct (pm_xm en cvm m) as [es|], (sp_xm se m) as [ses|]; try contradiction; [|exact I].
      pose proof (assoc_rel es ses k R) as V.
      destruct (assoc k es) as [z|], (assoc k ses) as [sv|]; try contradiction; [|exact I].
      destruct sv as [z'|xs]; cbn in V.
      * destruct V as [_ V]. congruence.
      * destruct V as (_ & a & -> & Ha & Hc). rewrite (in_scope_of _ _ (er_out _ _ _ E a Ha)). rewrite Nat2Z.id.
        subst xs. apply IH; [apply envrel_add_list; auto|exact T2].
    + apply andb_prop in T1. destruct T1 as [Tm Tk].
      pose proof (xm_rel_spec m en cvm se E Tm) as R. unfold orel2 in R.
      destruct (pm_xm en cvm m) as [es|], (sp_xm se m) as [ses|]; try contradiction; [|exact I].
      pose proof (assoc_rel es ses k R) as V.
      destruct (assoc k es) as [z|], (assoc k ses) as [sv|]; try contradiction; [|exact I].
      destruct sv as [z'|xs]; cbn in V.
      * destruct V as [-> _]. apply IH; [apply envrel_add_int; auto|exact T2].
      * destruct V as (V & _). rewrite V in Tk. discriminate.
    + pose proof (xm_rel_spec m en cvm se E T1) as R. unfold orel2 in R.
      destruct (pm_xm en cvm m) as [es|], (sp_xm se m) as [ses|]; try contradiction; [|exact I].
      rewrite (forall2_len _ _ _ _ _ R). apply IH; [apply envrel_add_int; auto|exact T2].
    + pose proof (forall2_nth_error _ _ _ _ _ o (er_os _ _ _ E)) as R.
      destruct (nth_error (xe_os en) o) as [a|], (nth_error (xs_ov se) o) as [ll|]; try contradiction; [|exact I].
      destruct R as (hs & Hc & Hin & Hl).
      cbn [sp_body index_body sp_z sp_l s_cv nth_error]. rewrite Hc, not_poisoned_handles.
      replace (sp_s (mkSE [map Z.of_nat hs] (xe_zs en) (xe_args en)) i) with (sp_s (mkSE [] (xs_zs se) (xs_args se)) i)
        by (unfold sp_s; cbn; rewrite (er_zs _ _ _ E), (er_args _ _ _ E); reflexivity).
      destruct (sp_s (mkSE [] (xs_zs se) (xs_args se)) i <? 0)%Z; [exact I|].
      rewrite nth_error_map_some. subst ll. rewrite nth_error_map_some.
      destruct (nth_error hs (Z.to_nat (sp_s (mkSE [] (xs_zs se) (xs_args se)) i))) as [b|] eqn:Eb; [|exact I].
      assert (Hb : In b cs0) by (rewrite Forall_forall in Hin; apply Hin; eapply nth_error_In; eauto).
      rewrite (in_scope_of _ _ (er_out _ _ _ E b Hb)). rewrite Nat2Z.id.
      apply IH; [apply envrel_add_list; auto|exact T2].
    + pose proof (forall2_nth_error _ _ _ _ _ o (er_os _ _ _ E)) as R.
      destruct (nth_error (xe_os en) o) as [a|], (nth_error (xs_ov se) o) as [ll|]; try contradiction; [|exact I].
      destruct R as (hs & Hc & Hin & Hl).
      cbn [sp_body osize_body sp_z sp_l s_cv nth_error]. rewrite Hc, not_poisoned_handles.
      subst ll. rewrite !map_length. apply IH; [apply envrel_add_int; auto|exact T2].
Qed.

End Rel.

(* ------------------------------------------------------------------ Generate establishes the relation *)

Lemma xorel_mono : forall h h' cs0 a ll, good h h' -> a < nobjs h -> Forall (fun b => b < nobjs h) cs0 ->
  xorel h cs0 a ll -> xorel h' cs0 a ll.
Proof.
  intros h h' cs0 a ll (_ & _ & C) Ha Hcs (hs & Hc & Hin & Hl). exists hs. split; [rewrite C; auto|]. split; [exact Hin|].
  rewrite <- Hl. apply map_ext_in. intros b Hb. apply C.
  rewrite Forall_forall in Hin, Hcs. apply Hcs. apply Hin. exact Hb.
Qed.

Lemma handles_rel : forall h cs cv d, map (icontent h) cs = cv ->
  match handles cs d, sp_inner cv d with
  | Some zs, Some ll => exists hs, zs = map Z.of_nat hs /\ Forall (fun b => In b cs) hs /\ map (icontent h) hs = ll
  | None, None => True
  | _, _ => False
  end.
Proof.
  intros h cs cv d E. induction d as [|i d IH]; cbn [handles sp_inner].
  - exists []. split; [reflexivity|]. split; [constructor|reflexivity].
  - rewrite <- E. rewrite nth_error_map_some. rewrite E.
    destruct (nth_error cs i) as [a|] eqn:Ea.
    + destruct (handles cs d) as [zs|], (sp_inner cv d) as [ll|]; try contradiction; [|exact I].
      destruct IH as (hs & -> & Hin & Hl). exists (a :: hs). split; [reflexivity|].
      split; [constructor; [eapply nth_error_In; eauto|exact Hin]|]. cbn. rewrite Hl. reflexivity.
    + destruct (handles cs d), (sp_inner cv d); try contradiction; exact I.
Qed.

Lemma ev_odefs_rel : forall cs cv ods h os ov0, inv h -> Forall (fun a => a < nobjs h) cs -> Forall (fun a => a < nobjs h) os ->
  map (icontent h) cs = cv -> Forall2 (xorel h cs) os ov0 ->
  match snd (ev_odefs cs h ods os), sp_odefs cv ods with
  | Some os', Some ov => Forall2 (xorel (fst (ev_odefs cs h ods os)) cs) os' (ov0 ++ ov)
  | None, None => True
  | _, _ => False
  end.
Proof.
  intros cs cv. induction ods as [|d ods IH]; intros h os ov0 Hinv Hcs Hos Hc Ho; cbn [ev_odefs sp_odefs].
  - cbn [fst snd]. rewrite app_nil_r. exact Ho.
  - pose proof (handles_rel h cs cv d Hc) as Hh.
    destruct (handles cs d) as [zs|], (sp_inner cv d) as [ll|]; try contradiction.
    2:{ cbn [fst snd]. destruct (sp_odefs cv ods); exact I. }
    destruct Hh as (hs & -> & Hin & Hl).
    destruct (add_fresh_good h (map Z.of_nat hs) 0 Hinv) as (G & Hn & Hcont).
    change (add_fresh h (map Z.of_nat hs) 0) with (step h (OLit (map Z.of_nat hs) 0)) in *.
    pose proof G as (Hinv' & Hle & C).
    assert (P1 : Forall (fun a => a < nobjs (step h (OLit (map Z.of_nat hs) 0))) cs).
    { eapply Forall_impl; [|exact Hcs]. cbn beta. intros; lia. }
    assert (P2 : Forall (fun a => a < nobjs (step h (OLit (map Z.of_nat hs) 0))) (os ++ [nobjs h])).
    { rewrite Hn. apply Forall_app. split; [eapply Forall_impl; [|exact Hos]; cbn beta; intros; lia|constructor; [lia|constructor]]. }
    assert (P3 : map (icontent (step h (OLit (map Z.of_nat hs) 0))) cs = cv).
    { rewrite <- Hc. apply map_ext_in. intros a Ha. apply C. rewrite Forall_forall in Hcs. apply Hcs. exact Ha. }
    assert (P4 : Forall2 (xorel (step h (OLit (map Z.of_nat hs) 0)) cs) (os ++ [nobjs h]) (ov0 ++ [ll])).
    { apply Forall2_app.
      - clear -Ho G Hos Hcs. induction Ho as [|a ll os ov0 R Ho IH]; constructor.
        + eapply xorel_mono; eauto. inversion Hos; auto.
        + apply IH. inversion Hos; auto.
      - constructor; [|constructor]. exists hs. split; [exact Hcont|]. split; [exact Hin|].
        rewrite <- Hl. apply map_ext_in. intros b Hb. apply C.
        rewrite Forall_forall in Hin, Hcs. apply Hcs. apply Hin. exact Hb. }
    specialize (IH (step h (OLit (map Z.of_nat hs) 0)) (os ++ [nobjs h]) (ov0 ++ [ll]) Hinv' P1 P2 P3 P4).
    destruct (snd (ev_odefs cs (step h (OLit (map Z.of_nat hs) 0)) ods (os ++ [nobjs h]))) as [os'|],
             (sp_odefs cv ods) as [ov|]; try exact IH.
    rewrite <- app_assoc in IH. exact IH.
Qed.

Lemma sabs_miter : forall mh ms cvm, Forall2 (sabs mh) ms cvm -> cvm = map (miter (mh_arrs mh)) ms.
Proof. intros mh ms cvm F. induction F as [|s es ms cvm (_ & Hi & _) F IH]; cbn; [reflexivity|]. rewrite Hi, IH. reflexivity. Qed.

(* the map definitions: the storages show entries related to the specification's maps *)
Lemma ev_mdefs_rel : forall h cs0 ds en mh cvm se, mwf mh -> Forall2 (sabs mh) (xe_ms en) cvm -> envrel h cs0 en cvm se ->
  forallb xm_typed ds = true ->
  match snd (ev_mdefs en mh ds), sp_mdefs se ds with
  | Some ms, Some mv => exists cvm', Forall2 (sabs (fst (ev_mdefs en mh ds))) ms cvm' /\ Forall2 (esrel h cs0) cvm' mv
  | None, None => True
  | _, _ => False
  end.
Proof.
  intros h cs0. induction ds as [|d ds IH]; intros en mh cvm se Hw HF E T; cbn [ev_mdefs sp_mdefs].
  - cbn [fst snd]. exists cvm. split; [exact HF|apply (er_ms _ _ _ _ _ E)].
  - cbn [forallb] in T. apply andb_prop in T. destruct T as [T1 T2].
    destruct (ev_xm_abs d en mh cvm Hw HF) as [G R]. pose proof (xm_rel_spec h cs0 d en cvm se E T1) as S.
    destruct (ev_xm en mh d) as [mh1 r]. cbn [fst snd] in *. unfold xm_rel in R. unfold orel2 in S.
    destruct r as [s|], (pm_xm en cvm d) as [es|]; try contradiction.
    2:{ cbn [fst snd]. destruct (sp_xm se d); [contradiction|exact I]. }
    destruct (sp_xm se d) as [ses|]; [|contradiction].
    pose proof G as (Hw1 & _).
    apply (IH (mkXE (xe_cs en) (xe_zs en) (xe_os en) (xe_ms en ++ [s]) (xe_args en)) mh1 (cvm ++ [es])
              (mkXSE (xs_cv se) (xs_zs se) (xs_ov se) (xs_mv se ++ [ses]) (xs_args se)) Hw1).
    + cbn [xe_ms]. apply Forall2_app; [eapply forall2_sabs_mono; eauto|constructor; [exact R|constructor]].
    + destruct E. constructor; cbn; auto. apply Forall2_app; [exact er_ms0|constructor; [exact S|constructor]].
    + exact T2.
Qed.

(* Generate(p) at any point, any further history, Eval(args) consuming j = the value the SPECIFICATION assigns to the
   program text (well-typed programs) *)
Lemma mixed_generated_meets_spec_lemma : forall cp g p hist args j o, xgstate_ok g -> xprog_wt p = true ->
  sp_xprog p args j = Some o ->
  xeval_after cp (xrun_event cp g (XEGen p)) hist (length (xg_funcs g)) args j = o.
Proof.
  intros cp g p hist args j o Hg Hwt Hs. pose proof Hg as (Hinv & Hw & Hfs).
  destruct (xrun_event_ok cp g (XEGen p) Hg) as (_ & _ & O1 & _).
  remember (xrun_event cp g (XEGen p)) as g1 eqn:Eg1. cbn [xrun_event] in Eg1. unfold xgenerate in Eg1.
  destruct (yields_run_iso 0 0 _ _ _ _ (generate_yields 0 0 cp (mkP (xp_defs p) (BZ ZThrow)) (xg_heap g) Hinv) Hinv) as [[G _] Hq].
  destruct (run_iso (xg_heap g) (sc_generate cp (mkP (xp_defs p) (BZ ZThrow)))) as [h1 r]. cbn [fst snd] in *.
  unfold sp_xprog in Hs. unfold generated_ok in Hq. cbn [p_defs p_body] in Hq.
  destruct (sp_defs (xp_defs p) [] []) as [[cv zs]|]; [|discriminate].
  destruct r as [F|]; [|contradiction]. destruct Hq as (Hz & Hb & Hc).
  assert (Hcs1 : Forall (fun a => a < nobjs h1) (f_cs F)) by (eapply forall2_func_ok; eauto).
  assert (Hcv1 : map (icontent h1) (f_cs F) = cv).
  { clear -Hc. induction Hc as [|a xs l l' [_ E] F' IH]; cbn; [reflexivity|]. rewrite E, IH. reflexivity. }
  pose proof (ev_odefs_rel (f_cs F) cv (xp_odefs p) h1 [] [] (proj1 G) Hcs1 (Forall_nil _) Hcv1 (Forall2_nil _)) as Ho.
  destruct (ev_odefs_ok (f_cs F) (xp_odefs p) h1 [] (proj1 G) (Forall_nil _)) as [G2 Hos].
  destruct (ev_odefs (f_cs F) h1 (xp_odefs p) []) as [h2 ro]. cbn [fst snd] in *.
  destruct ro as [os|], (sp_odefs cv (xp_odefs p)) as [ov|]; try contradiction; try discriminate.
  cbn [app] in Ho.
  assert (Hcv2 : map (icontent h2) (f_cs F) = cv).
  { rewrite <- Hcv1. apply map_ext_in. intros a Ha. destruct G2 as (_ & _ & C). apply C.
    rewrite Forall_forall in Hcs1. auto. }
  assert (E0 : envrel h2 (f_cs F) (mkXE (f_cs F) (f_zs F) os [] []) [] (mkXSE cv zs ov [] [])).
  { constructor; cbn; auto; try apply incl_refl. }
  unfold xprog_wt in Hwt. apply andb_prop in Hwt. destruct Hwt as [Tm Tb].
  pose proof (ev_mdefs_rel h2 (f_cs F) (xp_mdefs p) (mkXE (f_cs F) (f_zs F) os [] []) (xg_mh g) [] _ Hw (Forall2_nil _) E0 Tm) as Hm.
  destruct (ev_mdefs (mkXE (f_cs F) (f_zs F) os [] []) (xg_mh g) (xp_mdefs p)) as [mh1 rm]. cbn [fst snd] in *.
  destruct rm as [ms|], (sp_mdefs (mkXSE cv zs ov [] []) (xp_mdefs p)) as [mv|]; try contradiction; try discriminate.
  destruct Hm as (cvm & Hsab & Hrel).
  inversion Hs; subst o; clear Hs.
  assert (Hk : nth_error (xg_funcs g1) (length (xg_funcs g)) = Some (mkXF (f_cs F) (f_zs F) os ms (xp_binds p) (xp_body p))).
  { subst g1. cbn [xg_funcs]. rewrite nth_error_app2 by lia. rewrite Nat.sub_diag. reflexivity. }
  rewrite (xeval_after_spec cp g1 hist _ _ args j O1 Hk).
  subst g1. cbn [xg_heap xg_mh]. unfold xfunc_denotes. cbn [xf_cs xf_zs xf_os xf_ms xf_binds xf_body].
  rewrite <- (sabs_miter _ _ _ Hsab).
  assert (E : envrel h2 (f_cs F) (mkXE (f_cs F) (f_zs F) os ms args) cvm (mkXSE cv zs ov mv args)).
  { constructor; cbn; auto; try apply incl_refl. }
  pose proof (binds_rel_spec h2 (f_cs F) (xp_binds p) _ cvm _ E Tb) as B. unfold brel in B.
  destruct (pm_binds (mkXE (f_cs F) (f_zs F) os ms args) cvm (icontent h2) (xp_binds p)) as [[cs' zs']|],
           (sp_binds (mkXSE cv zs ov mv args) (xp_binds p)) as [[cv' zs'']|]; try contradiction; [|reflexivity].
  destruct B as [-> <-]. destruct (xp_body p) as [b|parts]; [|reflexivity]. unfold func_senv. cbn [f_cs f_zs]. reflexivity.
Qed.

Lemma mixed_generated_meets_spec_reachable_lemma : forall cp before p hist args j o, xprog_wt p = true ->
  sp_xprog p args j = Some o ->
  let g := xrun_hist cp new_xgenerator before in
  xeval_after cp (xrun_event cp g (XEGen p)) hist (length (xg_funcs g)) args j = o.
Proof. intros. apply mixed_generated_meets_spec_lemma; [apply mixed_reachable_ok_lemma|assumption|assumption]. Qed.
