(* C09 - proofs about the list heap model (Heap/ListHeap.v). *)
From P2 Require Import Base.Prelude Heap.ListHeap.
Require Import Lia.
Local Open Scope nat_scope.

(* ------------------------------------------------------------------ lists *)

Lemma set_nth_length : forall A (l : list A) i x, length (set_nth l i x) = length l.
Proof. induction l as [|y l IH]; intros [|i] x; cbn; auto. Qed.

Lemma nth_set_nth_eq : forall A (l : list A) i x d, i < length l -> nth i (set_nth l i x) d = x.
Proof. induction l as [|y l IH]; intros [|i] x d H; cbn in *; try lia; auto. apply IH. lia. Qed.

Lemma nth_set_nth_neq : forall A (l : list A) i j x d, i <> j -> nth j (set_nth l i x) d = nth j l d.
Proof. induction l as [|y l IH]; intros [|i] [|j] x d H; cbn in *; try lia; auto. Qed.

Lemma nth_error_set_nth_eq : forall A (l : list A) i x, i < length l -> nth_error (set_nth l i x) i = Some x.
Proof. induction l as [|y l IH]; intros [|i] x H; cbn in *; try lia; auto. apply IH. lia. Qed.

Lemma nth_error_set_nth_neq : forall A (l : list A) i j x, i <> j -> nth_error (set_nth l i x) j = nth_error l j.
Proof. induction l as [|y l IH]; intros [|i] [|j] x H; cbn in *; try lia; auto. Qed.

Lemma nth_error_nth' : forall A (l : list A) i x d, nth_error l i = Some x -> nth i l d = x.
Proof. induction l as [|y l IH]; intros [|i] x d H; cbn in *; try discriminate; auto. congruence. Qed.

Lemma nth_error_snoc_old : forall A (l : list A) x i y, nth_error l i = Some y -> nth_error (l ++ [x]) i = Some y.
Proof. intros. rewrite nth_error_app1; auto. apply nth_error_Some. congruence. Qed.

Lemma nth_error_snoc_inv : forall A (l : list A) x i y,
  nth_error (l ++ [x]) i = Some y -> (i < length l /\ nth_error l i = Some y) \/ (i = length l /\ y = x).
Proof.
  intros A l x i y H. destruct (Nat.lt_ge_cases i (length l)) as [Hl|Hl].
  - left. split; auto. rewrite nth_error_app1 in H; auto.
  - right. rewrite nth_error_app2 in H; auto.
    destruct (i - length l) as [|k] eqn:E.
    + cbn in H. split; [lia|congruence].
    + cbn in H. destruct k; discriminate.
Qed.

Lemma firstn_skipn_set_nth_out : forall A (l : list A) i x off n,
  i < off \/ off + n <= i -> firstn n (skipn off (set_nth l i x)) = firstn n (skipn off l).
Proof.
  induction l as [|y l IH]; intros i x off n H.
  - destruct i; reflexivity.
  - destruct i as [|i]; destruct off as [|off]; cbn [set_nth skipn].
    + destruct n; [reflexivity|lia].
    + reflexivity.
    + destruct n as [|n]; [reflexivity|]. cbn [firstn]. f_equal.
      specialize (IH i x 0 n). cbn [skipn] in IH. apply IH. lia.
    + apply IH. lia.
Qed.

(* ------------------------------------------------------------------ reading arrays *)

Lemma nth_snoc_len_ge : forall (arrs : arrays) x a, length (nth a arrs []) <= length (nth a (arrs ++ [x]) []).
Proof.
  intros. destruct (Nat.lt_ge_cases a (length arrs)).
  - rewrite app_nth1; auto.
  - rewrite (nth_overflow arrs); auto. cbn. lia.
Qed.

Lemma rd_snoc : forall arrs x a off n,
  off + n <= length (nth a arrs []) -> rd (arrs ++ [x]) a off n = rd arrs a off n.
Proof.
  intros arrs x a off n H. unfold rd. destruct (Nat.lt_ge_cases a (length arrs)).
  - rewrite app_nth1; auto.
  - rewrite (nth_overflow arrs) in *; auto. cbn in H. assert (n = 0) by lia. subst. reflexivity.
Qed.

Lemma rd_fresh : forall arrs xs pad, rd (arrs ++ [xs ++ pad]) (length arrs) 0 (length xs) = xs.
Proof.
  intros. unfold rd. rewrite app_nth2; auto. rewrite Nat.sub_diag. cbn [nth skipn].
  rewrite firstn_app, Nat.sub_diag, firstn_all. cbn. apply app_nil_r.
Qed.

Lemma write_length : forall arrs a i v, length (write arrs a i v) = length arrs.
Proof. intros. unfold write. apply set_nth_length. Qed.

Lemma write_nth_other : forall arrs a i v b, b <> a -> nth b (write arrs a i v) [] = nth b arrs [].
Proof. intros. unfold write. apply nth_set_nth_neq. auto. Qed.

Lemma write_nth_same : forall arrs a i v, a < length arrs -> nth a (write arrs a i v) [] = set_nth (nth a arrs []) i v.
Proof. intros. unfold write. apply nth_set_nth_eq. auto. Qed.

Lemma write_nth_length : forall arrs a i v b, length (nth b (write arrs a i v) []) = length (nth b arrs []).
Proof.
  intros. destruct (Nat.eq_dec b a) as [->|Hn].
  - destruct (Nat.lt_ge_cases a (length arrs)).
    + rewrite write_nth_same; auto. apply set_nth_length.
    + rewrite !nth_overflow; auto. rewrite write_length. auto.
  - rewrite write_nth_other; auto.
Qed.

Lemma rd_write_out : forall arrs A i v a off n,
  a <> A \/ i < off \/ off + n <= i -> rd (write arrs A i v) a off n = rd arrs a off n.
Proof.
  intros arrs A i v a off n H. unfold rd. destruct (Nat.eq_dec a A) as [->|Hn].
  - destruct (Nat.lt_ge_cases A (length arrs)).
    + rewrite write_nth_same; auto. apply firstn_skipn_set_nth_out. lia.
    + rewrite !nth_overflow; auto. rewrite write_length. auto.
  - rewrite write_nth_other; auto.
Qed.

(* what append-in-place produces *)
Lemma firstn_skipn_set_nth_at : forall (l : list val) off n x,
  off + n < length l -> firstn (S n) (skipn off (set_nth l (off + n) x)) = firstn n (skipn off l) ++ [x].
Proof.
  induction l as [|y l IH]; intros off n x H; cbn in H; [lia|].
  destruct off as [|off].
  - cbn [Nat.add skipn]. destruct n as [|n]; cbn [set_nth firstn].
    + reflexivity.
    + cbn [app]. f_equal. specialize (IH 0 n x). cbn [Nat.add skipn] in IH. apply IH. lia.
  - cbn [Nat.add set_nth skipn]. apply IH. lia.
Qed.

Lemma rd_write_at : forall arrs a off n x,
  a < length arrs -> off + n < length (nth a arrs []) ->
  rd (write arrs a (off + n) x) a off (S n) = rd arrs a off n ++ [x].
Proof. intros. unfold rd. rewrite write_nth_same; auto. apply firstn_skipn_set_nth_at. auto. Qed.

(* ------------------------------------------------------------------ iteration contents *)

Lemma ic_length : forall arrs objs n, length (ic arrs objs n) = n.
Proof. induction n; cbn [ic]; auto. rewrite app_length, IHn. cbn. lia. Qed.

Lemma ic_nth : forall arrs objs n o, o < n ->
  nth o (ic arrs objs n) [] = prod_content arrs (ic arrs objs o) (o_iter (nth o objs dummy_obj)).
Proof.
  induction n; intros o H; [lia|]. cbn [ic].
  destruct (Nat.eq_dec o n) as [->|Hn].
  - rewrite app_nth2; rewrite ic_length; auto. rewrite Nat.sub_diag. reflexivity.
  - rewrite app_nth1; [|rewrite ic_length; lia]. apply IHn. lia.
Qed.

Lemma ic_nth_le : forall arrs objs n m o, o < n -> n <= m -> nth o (ic arrs objs m) [] = nth o (ic arrs objs n) [].
Proof. intros. rewrite !ic_nth; auto. lia. Qed.

(* the agreement lemma: if every old object yields the same elements in the new heap, given the old
   results of everything older, then all old iteration results are the same *)
Lemma ic_ext : forall arrs objs arrs' objs' n,
  (forall m, m < n ->
     prod_content arrs' (ic arrs objs m) (o_iter (nth m objs' dummy_obj)) =
     prod_content arrs (ic arrs objs m) (o_iter (nth m objs dummy_obj))) ->
  ic arrs' objs' n = ic arrs objs n.
Proof.
  induction n; intros H; cbn [ic]; auto.
  rewrite IHn by (intros; apply H; lia). f_equal. f_equal. apply H. lia.
Qed.

Lemma icontent_eq : forall h o, o < nobjs h ->
  icontent h o = prod_content (h_arrs h) (ic (h_arrs h) (h_objs h) o) (o_iter (nth o (h_objs h) dummy_obj)).
Proof. intros. unfold icontent. apply ic_nth. auto. Qed.

(* framing: the new heap has at least the old objects and each of them still yields the same elements *)
Lemma frame_content : forall h h',
  nobjs h <= nobjs h' ->
  (forall m, m < nobjs h ->
     prod_content (h_arrs h') (ic (h_arrs h) (h_objs h) m) (o_iter (nth m (h_objs h') dummy_obj)) =
     prod_content (h_arrs h) (ic (h_arrs h) (h_objs h) m) (o_iter (nth m (h_objs h) dummy_obj))) ->
  forall o, o < nobjs h -> icontent h' o = icontent h o.
Proof.
  intros h h' Hle H o Ho. unfold icontent.
  rewrite (ic_nth_le _ _ (nobjs h) (nobjs h')); auto.
  rewrite (ic_ext (h_arrs h) (h_objs h)); auto.
Qed.

(* ------------------------------------------------------------------ invariant: small facts *)

Lemma get_obj_lt : forall h i ob, get_obj h i = Some ob -> i < nobjs h.
Proof. intros. unfold get_obj, nobjs in *. apply nth_error_Some. congruence. Qed.

Lemma get_obj_nth : forall h i ob, get_obj h i = Some ob -> nth i (h_objs h) dummy_obj = ob.
Proof. intros. unfold get_obj in *. eapply nth_error_nth'. eauto. Qed.

Lemma get_obj_some : forall h i, i < nobjs h -> exists ob, get_obj h i = Some ob.
Proof.
  intros. unfold get_obj, nobjs in *. destruct (nth_error (h_objs h) i) eqn:E; eauto.
  apply nth_error_None in E. lia.
Qed.

Lemma slice_ok_snoc : forall arrs x s, slice_ok arrs s -> slice_ok (arrs ++ [x]) s.
Proof. intros arrs x s [H1 H2]. split; auto. pose proof (nth_snoc_len_ge arrs x (s_arr s)). lia. Qed.

Lemma slice_ok_write : forall arrs a i v s, slice_ok arrs s -> slice_ok (write arrs a i v) s.
Proof. intros arrs a i v s [H1 H2]. split; auto. rewrite write_nth_length. auto. Qed.

Lemma obj_ok_arrs : forall arrs arrs' i ob,
  (forall s, slice_ok arrs s -> slice_ok arrs' s) -> obj_ok arrs i ob -> obj_ok arrs' i ob.
Proof. intros arrs arrs' i ob H [H1 H2]. split; auto. Qed.

Lemma inv_empty : inv empty_heap.
Proof.
  split.
  - intros i ob H. unfold get_obj in H. cbn in H. destruct i; discriminate.
  - intros i j obi obj _ H. unfold get_obj in H. cbn in H. destruct i; discriminate.
Qed.

(* a present object reads, through its iterable, exactly the items view *)
Lemma present_views_agree : forall h o ob, inv h -> get_obj h o = Some ob -> o_present ob = true ->
  icontent h o = items_content h o.
Proof.
  intros h o ob [Hok _] Hg Hp. pose proof (get_obj_lt _ _ _ Hg) as Hlt.
  rewrite icontent_eq; auto. rewrite (get_obj_nth _ _ _ Hg).
  unfold items_content. rewrite Hg. destruct (Hok _ _ Hg) as [_ H2]. rewrite Hp in H2. rewrite H2. reflexivity.
Qed.

(* the good-step relation: invariant kept, objects only added, nobody's content changes *)
Definition good (h h' : heap) : Prop :=
  inv h' /\ nobjs h <= nobjs h' /\ forall o, o < nobjs h -> icontent h' o = icontent h o.

Lemma good_refl : forall h, inv h -> good h h.
Proof. intros. split; auto. Qed.

Lemma good_trans : forall h1 h2 h3, good h1 h2 -> good h2 h3 -> good h1 h3.
Proof.
  intros h1 h2 h3 (I2 & L2 & C2) (I3 & L3 & C3). split; auto. split; [lia|].
  intros o Ho. rewrite C3 by lia. auto.
Qed.

(* old objects keep yielding the same when their iterable is untouched and the cells they read are *)
Lemma pc_unchanged : forall arrs arrs' prev p,
  (forall a off n, p = PSlice a off n -> rd arrs' a off n = rd arrs a off n) ->
  prod_content arrs' prev p = prod_content arrs prev p.
Proof. intros arrs arrs' prev p H. destruct p; cbn; auto. Qed.

(* general framing under the invariant: each old object either keeps its iterable and the cells it reads,
   or (Eval) now yields, whatever the older results, exactly its old content *)
Lemma frame_gen : forall h h', nobjs h <= nobjs h' ->
  (forall m ob, get_obj h m = Some ob ->
     (o_iter (nth m (h_objs h') dummy_obj) = o_iter ob /\
      forall a off n, o_iter ob = PSlice a off n -> rd (h_arrs h') a off n = rd (h_arrs h) a off n)
     \/ (forall prev, prod_content (h_arrs h') prev (o_iter (nth m (h_objs h') dummy_obj)) = icontent h m)) ->
  forall o, o < nobjs h -> icontent h' o = icontent h o.
Proof.
  intros h h' Hle H. apply frame_content; auto. intros m Hm.
  destruct (get_obj_some _ _ Hm) as [ob Hg]. rewrite (get_obj_nth _ _ _ Hg).
  destruct (H _ _ Hg) as [[Hi Hr]|Hc].
  - rewrite Hi. apply pc_unchanged. auto.
  - rewrite Hc. rewrite icontent_eq; auto. rewrite (get_obj_nth _ _ _ Hg). reflexivity.
Qed.

(* under the invariant a PSlice iterable is the object's own items view *)
Lemma iter_slice_inv : forall h m ob a off n, inv h -> get_obj h m = Some ob -> o_iter ob = PSlice a off n ->
  o_present ob = true /\ a = s_arr (o_items ob) /\ off = s_off (o_items ob) /\ n = s_len (o_items ob) /\
  slice_ok (h_arrs h) (o_items ob).
Proof.
  intros h m ob a off n [Hok _] Hg Hi. destruct (Hok _ _ Hg) as [Hs Hp].
  destruct (o_present ob).
  - rewrite Hi in Hp. inversion Hp. auto.
  - destruct Hp as [_ Hl]. rewrite Hi in Hl. destruct Hl.
Qed.

Lemma slice_ok_arr : forall arrs s, slice_ok arrs s -> s_arr s < length arrs \/ (s_cap s = 0 /\ s_off s = 0 /\ s_len s = 0).
Proof.
  intros arrs s [H1 H2]. destruct (Nat.lt_ge_cases (s_arr s) (length arrs)); auto.
  right. rewrite nth_overflow in H2; auto. cbn in H2. lia.
Qed.

Lemma no_clash_fresh_l : forall arrs t n cc, slice_ok arrs t -> no_clash (mkS (length arrs) 0 n cc) t.
Proof. intros arrs t n cc H. destruct (slice_ok_arr _ _ H); unfold no_clash; cbn; lia. Qed.

Lemma no_clash_fresh_r : forall arrs s n cc, slice_ok arrs s -> no_clash s (mkS (length arrs) 0 n cc).
Proof. intros arrs s n cc H. destruct (slice_ok_arr _ _ H); unfold no_clash; cbn; lia. Qed.

Lemma fresh_slice_ok : forall arrs (xs : list val) c,
  slice_ok (arrs ++ [xs ++ repeat 0%Z (Nat.max c (length xs) - length xs)]) (mkS (length arrs) 0 (length xs) (Nat.max c (length xs))).
Proof.
  intros. split; cbn; [lia|]. rewrite app_nth2; auto. rewrite Nat.sub_diag. cbn.
  rewrite app_length, repeat_length. lia.
Qed.

Lemma rd_slice_length : forall arrs s, slice_ok arrs s -> length (rd_slice arrs s) = s_len s.
Proof.
  intros arrs s [H1 H2]. unfold rd_slice, rd. rewrite firstn_length, skipn_length. lia.
Qed.

(* ---- P2: a fresh array with an object that owns it *)
Lemma add_fresh_good : forall h xs c, inv h ->
  good h (add_fresh h xs c) /\ nobjs (add_fresh h xs c) = S (nobjs h) /\ icontent (add_fresh h xs c) (nobjs h) = xs.
Proof.
  intros h xs c Hinv. pose proof Hinv as [Hok Hnc].
  set (n := length xs). set (cc := Nat.max c n).
  assert (Hn : nobjs (add_fresh h xs c) = S (nobjs h)).
  { unfold nobjs, add_fresh. cbn. rewrite app_length. cbn. lia. }
  assert (Hfr : forall o, o < nobjs h -> icontent (add_fresh h xs c) o = icontent h o).
  { apply frame_gen; [lia|]. intros m ob Hg. left. split.
    - unfold add_fresh. cbn. rewrite app_nth1; [|apply (get_obj_lt _ _ _ Hg)]. f_equal. apply get_obj_nth. auto.
    - intros a off k Hi. destruct (iter_slice_inv _ _ _ _ _ _ Hinv Hg Hi) as (_ & -> & -> & -> & [Hs1 Hs2]).
      unfold add_fresh. cbn. apply rd_snoc. lia. }
  split; [split; [|split]|split]; auto; try lia.
  - (* invariant *)
    split.
    + intros i ob Hg. unfold get_obj, add_fresh in Hg. cbn in Hg.
      destruct (nth_error_snoc_inv _ _ _ _ _ Hg) as [[Hl Hg']|[-> ->]].
      * eapply obj_ok_arrs; [|apply (Hok _ _ Hg')]. intros. apply slice_ok_snoc. auto.
      * split; [apply fresh_slice_ok|reflexivity].
    + intros i j obi obj Hij Hgi Hgj. unfold get_obj, add_fresh in Hgi, Hgj. cbn in Hgi, Hgj.
      destruct (nth_error_snoc_inv _ _ _ _ _ Hgi) as [[Hli Hgi']|[-> ->]];
      destruct (nth_error_snoc_inv _ _ _ _ _ Hgj) as [[Hlj Hgj']|[-> ->]].
      * eapply Hnc; eauto.
      * apply no_clash_fresh_r. apply (Hok _ _ Hgi').
      * apply no_clash_fresh_l. apply (Hok _ _ Hgj').
      * lia.
  - (* the new object's content *)
    rewrite icontent_eq by lia. unfold add_fresh. cbn. rewrite app_nth2 by (unfold nobjs; lia).
    unfold nobjs. rewrite Nat.sub_diag. cbn. apply rd_fresh.
Qed.

(* ---- P3: a lazy object *)
Lemma nil_slice_ok : forall arrs, slice_ok arrs nil_slice.
Proof. intros. split; cbn; lia. Qed.

Lemma lazy_add_good : forall h p, inv h -> lazy_ok (nobjs h) p ->
  good h (lazy_add h p) /\ nobjs (lazy_add h p) = S (nobjs h) /\
  icontent (lazy_add h p) (nobjs h) = prod_content (h_arrs h) (abs h) p.
Proof.
  intros h p Hinv Hp. pose proof Hinv as [Hok Hnc].
  assert (Hn : nobjs (lazy_add h p) = S (nobjs h)).
  { unfold nobjs, lazy_add, add_obj. cbn. rewrite app_length. cbn. lia. }
  assert (Hfr : forall o, o < nobjs h -> icontent (lazy_add h p) o = icontent h o).
  { apply frame_gen; [lia|]. intros m ob Hg. left. split.
    - unfold lazy_add, add_obj. cbn. rewrite app_nth1; [|apply (get_obj_lt _ _ _ Hg)]. f_equal. apply get_obj_nth. auto.
    - intros. reflexivity. }
  split; [split; [|split]|split]; auto; try lia.
  - split.
    + intros i ob Hg. unfold get_obj, lazy_add, add_obj in Hg. cbn in Hg.
      destruct (nth_error_snoc_inv _ _ _ _ _ Hg) as [[Hl Hg']|[-> ->]].
      * apply (Hok _ _ Hg').
      * split; [apply nil_slice_ok|]. cbn. split; auto.
    + intros i j obi obj Hij Hgi Hgj. unfold get_obj, lazy_add, add_obj in Hgi, Hgj. cbn in Hgi, Hgj.
      destruct (nth_error_snoc_inv _ _ _ _ _ Hgi) as [[Hli Hgi']|[-> ->]];
      destruct (nth_error_snoc_inv _ _ _ _ _ Hgj) as [[Hlj Hgj']|[-> ->]].
      * eapply Hnc; eauto.
      * unfold no_clash. cbn. lia.
      * unfold no_clash. cbn. lia.
      * lia.
  - rewrite icontent_eq by lia. unfold lazy_add, add_obj. cbn [h_arrs h_objs].
    rewrite app_nth2 by (unfold nobjs; lia). unfold nobjs at 2. rewrite Nat.sub_diag. cbn [nth o_iter].
    f_equal. unfold abs. apply ic_ext. intros m Hm.
    rewrite app_nth1 by (unfold nobjs in Hm; lia). reflexivity.
Qed.

(* ---- P1: List.Eval *)
Lemma get_obj_set_eq : forall h o ob, o < nobjs h -> get_obj (mkH (h_arrs h) (set_nth (h_objs h) o ob)) o = Some ob.
Proof. intros. unfold get_obj. cbn. apply nth_error_set_nth_eq. auto. Qed.

Lemma eval_obj_present : forall h o c ob, get_obj h o = Some ob -> o_present ob = true -> eval_obj h o c = h.
Proof. intros h o c ob Hg Hp. unfold eval_obj. rewrite Hg, Hp. reflexivity. Qed.

Lemma eval_obj_good : forall h o c, inv h ->
  good h (eval_obj h o c) /\ nobjs (eval_obj h o c) = nobjs h /\
  (forall ob, get_obj (eval_obj h o c) o = Some ob -> o_present ob = true).
Proof.
  intros h o c Hinv. pose proof Hinv as [Hok Hnc]. unfold eval_obj.
  destruct (get_obj h o) as [ob|] eqn:Hg.
  2:{ split; [apply good_refl; auto|]. split; auto. intros ob Hg'. congruence. }
  destruct (o_present ob) eqn:Hp.
  { split; [apply good_refl; auto|]. split; auto. intros ob' Hg'. congruence. }
  pose proof (get_obj_lt _ _ _ Hg) as Hlt.
  set (xs := icontent h o). set (n := length xs). set (cc := Nat.max c n).
  set (h' := mkH (h_arrs h ++ [xs ++ repeat 0%Z (cc - n)]) (set_nth (h_objs h) o (new_list (mkS (length (h_arrs h)) 0 n cc)))).
  assert (Hn : nobjs h' = nobjs h). { unfold nobjs, h'. cbn. apply set_nth_length. }
  assert (Hgo : get_obj h' o = Some (new_list (mkS (length (h_arrs h)) 0 n cc))).
  { unfold get_obj, h'. cbn. apply nth_error_set_nth_eq. auto. }
  assert (Hgn : forall i, i <> o -> get_obj h' i = get_obj h i).
  { intros. unfold get_obj, h'. cbn. apply nth_error_set_nth_neq. auto. }
  assert (Hfr : forall m, m < nobjs h -> icontent h' m = icontent h m).
  { apply frame_gen; [lia|]. intros m obm Hgm. destruct (Nat.eq_dec m o) as [->|Hne].
    - right. intros prev. rewrite (get_obj_nth _ _ _ Hgo). cbn. apply rd_fresh.
    - left. split.
      + f_equal. rewrite <- (Hgn _ Hne) in Hgm. apply get_obj_nth. auto.
      + intros a off k Hi. destruct (iter_slice_inv _ _ _ _ _ _ Hinv Hgm Hi) as (_ & -> & -> & -> & [Hs1 Hs2]).
        unfold h'. cbn. apply rd_snoc. lia. }
  split; [split; [|split]|split]; auto; try lia.
  - split.
    + intros i obi Hgi. destruct (Nat.eq_dec i o) as [->|Hne].
      * rewrite Hgo in Hgi. inversion Hgi. split; [apply fresh_slice_ok|reflexivity].
      * rewrite (Hgn _ Hne) in Hgi. eapply obj_ok_arrs; [|apply (Hok _ _ Hgi)]. intros. apply slice_ok_snoc. auto.
    + intros i j obi obj Hij Hgi Hgj.
      destruct (Nat.eq_dec i o) as [->|Hni]; destruct (Nat.eq_dec j o) as [->|Hnj]; try lia.
      * rewrite Hgo in Hgi. inversion Hgi. rewrite (Hgn _ Hnj) in Hgj. apply no_clash_fresh_l. apply (Hok _ _ Hgj).
      * rewrite Hgo in Hgj. inversion Hgj. rewrite (Hgn _ Hni) in Hgi. apply no_clash_fresh_r. apply (Hok _ _ Hgi).
      * rewrite (Hgn _ Hni) in Hgi. rewrite (Hgn _ Hnj) in Hgj. apply (Hnc i j obi obj Hij Hgi Hgj).
  - intros ob' Hg'. rewrite Hgo in Hg'. inversion Hg'. reflexivity.
Qed.

Lemma eval_obj_get_other : forall h o c i, i <> o -> get_obj (eval_obj h o c) i = get_obj h i.
Proof.
  intros. unfold eval_obj. destruct (get_obj h o) as [ob|]; auto. destruct (o_present ob); auto.
  unfold get_obj. cbn. apply nth_error_set_nth_neq. auto.
Qed.

(* ---- P4: List.Append on a materialised list *)
Lemma set_nth_same : forall A (l : list A) i x, nth_error l i = Some x -> set_nth l i x = l.
Proof. induction l as [|y l IH]; intros [|i] x H; cbn in *; try discriminate; [congruence|]. f_equal. auto. Qed.

Definition append_core (h1 : heap) (a : nat) (ob : lobj) (x : val) (c2 : nat) : heap :=
  let s := o_items ob in
  let '(arrs2, ns) := go_append (h_arrs h1) s x c2 in
  let parent := if s_len s =? s_cap s then ob
                else mkO (mkS (s_arr s) (s_off s) (s_len s) (s_len s)) (o_present ob) (o_iter ob) in
  mkH arrs2 (set_nth (h_objs h1) a parent ++ [new_list ns]).

Lemma do_append_unfold : forall h a x c1 c2,
  do_append h a x c1 c2 =
  match get_obj (eval_obj h a c1) a with
  | None => h
  | Some ob => append_core (eval_obj h a c1) a ob x c2
  end.
Proof. reflexivity. Qed.

Lemma append_core_good : forall h a ob x c2, inv h -> get_obj h a = Some ob -> o_present ob = true ->
  good h (append_core h a ob x c2) /\ nobjs (append_core h a ob x c2) = S (nobjs h) /\
  icontent (append_core h a ob x c2) (nobjs h) = icontent h a ++ [x].
Proof.
  intros h a ob x c2 Hinv Hg Hp. pose proof Hinv as [Hok Hnc].
  pose proof (get_obj_lt _ _ _ Hg) as Hlt.
  destruct (Hok _ _ Hg) as [[Hs1 Hs2] Hit]. rewrite Hp in Hit.
  assert (Hca : icontent h a = rd_slice (h_arrs h) (o_items ob)).
  { rewrite (present_views_agree _ _ _ Hinv Hg Hp). unfold items_content. rewrite Hg. reflexivity. }
  unfold append_core, go_append.
  destruct (s_len (o_items ob) <? s_cap (o_items ob)) eqn:Hlc.
  - (* in place: the cell after the end is written, the parent is capped *)
    apply Nat.ltb_lt in Hlc.
    assert (Hne : (s_len (o_items ob) =? s_cap (o_items ob)) = false) by (apply Nat.eqb_neq; lia).
    rewrite Hne.
    set (s := o_items ob) in *.
    set (par := mkO (mkS (s_arr s) (s_off s) (s_len s) (s_len s)) (o_present ob) (o_iter ob)).
    set (ns := mkS (s_arr s) (s_off s) (S (s_len s)) (s_cap s)).
    set (h' := mkH (write (h_arrs h) (s_arr s) (s_off s + s_len s) x) (set_nth (h_objs h) a par ++ [new_list ns])).
    assert (Harr : s_arr s < length (h_arrs h)).
    { destruct (slice_ok_arr _ _ (conj Hs1 Hs2)) as [|[? _]]; auto. lia. }
    assert (Hn : nobjs h' = S (nobjs h)).
    { unfold nobjs, h'. cbn. rewrite app_length, set_nth_length. cbn. lia. }
    assert (Hga : get_obj h' a = Some par).
    { unfold get_obj, h'. cbn. rewrite nth_error_app1 by (rewrite set_nth_length; auto).
      apply nth_error_set_nth_eq. auto. }
    assert (Hgo : forall i, i <> a -> i < nobjs h -> get_obj h' i = get_obj h i).
    { intros i Hi Hil. unfold get_obj, h'. cbn. rewrite nth_error_app1 by (rewrite set_nth_length; auto).
      apply nth_error_set_nth_neq. auto. }
    assert (Hgn : get_obj h' (nobjs h) = Some (new_list ns)).
    { unfold get_obj, h'. cbn. rewrite nth_error_app2; rewrite set_nth_length; [|unfold nobjs; lia].
      unfold nobjs. rewrite Nat.sub_diag. reflexivity. }
    assert (Hcases : forall i obi, get_obj h' i = Some obi ->
              (i = a /\ obi = par) \/ (i = nobjs h /\ obi = new_list ns) \/ (i <> a /\ i < nobjs h /\ get_obj h i = Some obi)).
    { intros i obi Hgi. pose proof (get_obj_lt _ _ _ Hgi) as Hil. rewrite Hn in Hil.
      destruct (Nat.eq_dec i a) as [->|Hia]; [left; split; congruence|].
      destruct (Nat.eq_dec i (nobjs h)) as [->|Hin]; [right; left; split; congruence|].
      right. right. rewrite Hgo in Hgi by lia. repeat split; auto. lia. }
    assert (Hfr : forall m, m < nobjs h -> icontent h' m = icontent h m).
    { apply frame_gen; [lia|]. intros m obm Hgm. left.
      pose proof (get_obj_lt _ _ _ Hgm) as Hml. split.
      - destruct (Nat.eq_dec m a) as [->|Hma].
        + rewrite (get_obj_nth _ _ _ Hga). cbn. congruence.
        + f_equal. apply get_obj_nth. rewrite Hgo; auto.
      - intros a' off k Hi. destruct (iter_slice_inv _ _ _ _ _ _ Hinv Hgm Hi) as (_ & -> & -> & -> & [Hm1 Hm2]).
        unfold h'. cbn [h_arrs]. apply rd_write_out.
        destruct (Nat.eq_dec m a) as [->|Hma].
        + assert (obm = ob) by congruence. subst obm. fold s. lia.
        + pose proof (Hnc a m ob obm (not_eq_sym Hma) Hg Hgm) as Hc. unfold no_clash in Hc. fold s in Hc. lia. }
    split; [split; [|split]|split]; auto; try lia.
    + split.
      * intros i obi Hgi. destruct (Hcases _ _ Hgi) as [[-> ->]|[[-> ->]|(Hia & Hil & Hgi')]].
        -- split; [split; cbn; [lia|rewrite write_nth_length; lia]|]. cbn. rewrite Hp. fold s in Hit. rewrite Hit. reflexivity.
        -- split; [split; cbn; [lia|rewrite write_nth_length; lia]|reflexivity].
        -- eapply obj_ok_arrs; [|apply (Hok _ _ Hgi')]. intros. apply slice_ok_write. auto.
      * intros i j obi obj Hij Hgi Hgj.
        destruct (Hcases _ _ Hgi) as [[-> ->]|[[-> ->]|(Hia & Hil & Hgi')]];
        destruct (Hcases _ _ Hgj) as [[-> ->]|[[-> ->]|(Hja & Hjl & Hgj')]]; try lia;
        try (unfold no_clash; cbn; lia).
        -- pose proof (Hnc a j ob obj (not_eq_sym Hja) Hg Hgj') as Hc. unfold no_clash in *. fold s in Hc. cbn. lia.
        -- pose proof (Hnc i a obi ob Hia Hgi' Hg) as Hc. unfold no_clash in *. fold s in Hc. cbn. lia.
        -- pose proof (Hnc i a obi ob Hia Hgi' Hg) as Hc. unfold no_clash in *. fold s in Hc. cbn. lia.
        -- apply (Hnc i j obi obj Hij Hgi' Hgj').
    + rewrite icontent_eq by lia. rewrite (get_obj_nth _ _ _ Hgn). cbn [new_list o_iter prod_content ns s_arr s_off s_len].
      unfold h'. cbn [h_arrs]. rewrite rd_write_at; auto; [|lia]. rewrite Hca. reflexivity.
  - (* allocation: a fresh array holding a copy and the new element *)
    apply Nat.ltb_ge in Hlc.
    assert (Heq : (s_len (o_items ob) =? s_cap (o_items ob)) = true) by (apply Nat.eqb_eq; lia).
    rewrite Heq.
    assert (Hsame : mkH (h_arrs h ++ [rd_slice (h_arrs h) (o_items ob) ++
                       x :: repeat 0%Z (Nat.max c2 (S (s_len (o_items ob))) - S (s_len (o_items ob)))])
                      (set_nth (h_objs h) a ob ++ [new_list (mkS (length (h_arrs h)) 0 (S (s_len (o_items ob))) (Nat.max c2 (S (s_len (o_items ob)))))])
                  = add_fresh h (rd_slice (h_arrs h) (o_items ob) ++ [x]) c2).
    { unfold add_fresh. rewrite app_length, (rd_slice_length _ _ (conj Hs1 Hs2)). cbn [length].
      rewrite Nat.add_1_r. rewrite (set_nth_same _ _ _ _ Hg). rewrite <- app_assoc. reflexivity. }
    rewrite Hsame. rewrite Hca. apply add_fresh_good. auto.
Qed.

Lemma do_append_good : forall h a x c1 c2, inv h ->
  good h (do_append h a x c1 c2) /\
  (a < nobjs h -> nobjs (do_append h a x c1 c2) = S (nobjs h) /\
                  icontent (do_append h a x c1 c2) (nobjs h) = icontent h a ++ [x]) /\
  (nobjs h <= a -> do_append h a x c1 c2 = h).
Proof.
  intros h a x c1 c2 Hinv. rewrite do_append_unfold.
  destruct (eval_obj_good h a c1 Hinv) as (Hg1 & Hn1 & Hp1).
  destruct (get_obj (eval_obj h a c1) a) as [ob|] eqn:Hg.
  - pose proof (get_obj_lt _ _ _ Hg) as Hlt. rewrite Hn1 in Hlt.
    destruct Hg1 as (Hi1 & Hl1 & Hc1).
    destruct (append_core_good _ a ob x c2 Hi1 Hg (Hp1 _ eq_refl)) as (Hg2 & Hn2 & Hc2).
    split; [|split].
    + eapply good_trans; [split; [exact Hi1|split; [exact Hl1|exact Hc1]]|exact Hg2].
    + intros _. rewrite Hn2, Hn1. split; auto. rewrite Hn1 in Hc2. rewrite Hc2. f_equal. apply Hc1. auto.
    + intros. lia.
  - split; [apply good_refl; auto|]. split; auto.
    intros Ha. destruct (get_obj_some (eval_obj h a c1) a) as [ob Hob]; [lia|congruence].
Qed.

(* ---- CopyToSlice + change of the private copy + NewList *)
Lemma eval_then_items : forall h a c1 ob, inv h -> get_obj (eval_obj h a c1) a = Some ob ->
  a < nobjs h /\ rd_slice (h_arrs (eval_obj h a c1)) (o_items ob) = icontent h a.
Proof.
  intros h a c1 ob Hinv Hg. destruct (eval_obj_good h a c1 Hinv) as ((Hi1 & Hl1 & Hc1) & Hn1 & Hp1).
  pose proof (get_obj_lt _ _ _ Hg) as Hlt. rewrite Hn1 in Hlt. split; auto.
  rewrite <- Hc1 by auto. rewrite (present_views_agree _ _ _ Hi1 Hg (Hp1 _ Hg)).
  unfold items_content. rewrite Hg. reflexivity.
Qed.

Lemma do_copy_with_good : forall h a c1 f, inv h ->
  good h (do_copy_with h a c1 f) /\
  (a < nobjs h ->
     match f (icontent h a) with
     | Some ys => nobjs (do_copy_with h a c1 f) = S (nobjs h) /\ icontent (do_copy_with h a c1 f) (nobjs h) = ys
     | None => nobjs (do_copy_with h a c1 f) = nobjs h
     end) /\
  (nobjs h <= a -> do_copy_with h a c1 f = h).
Proof.
  intros h a c1 f Hinv. unfold do_copy_with.
  destruct (eval_obj_good h a c1 Hinv) as (Hg1 & Hn1 & Hp1).
  destruct (get_obj (eval_obj h a c1) a) as [ob|] eqn:Hg.
  - destruct (eval_then_items _ _ _ _ Hinv Hg) as [Hlt Hrd]. rewrite Hrd.
    destruct (f (icontent h a)) as [ys|] eqn:Hf.
    + destruct Hg1 as (Hi1 & Hl1 & Hc1).
      destruct (add_fresh_good (eval_obj h a c1) ys 0 Hi1) as (Hg2 & Hn2 & Hc2).
      split; [|split].
      * eapply good_trans; [split; [exact Hi1|split; [exact Hl1|exact Hc1]]|exact Hg2].
      * intros _. rewrite Hn2, Hn1. split; auto. rewrite Hn1 in Hc2. auto.
      * intros. lia.
    + split; auto. split; auto. intros. lia.
  - split; [apply good_refl; auto|]. split; auto.
    intros Ha. destruct (get_obj_some (eval_obj h a c1) a) as [ob Hob]; [lia|congruence].
Qed.

(* ---- a run of fresh objects (combineN's windows after the repair) *)
Lemma fold_fresh_good : forall ws h, inv h ->
  let h' := fold_left (fun hh w => add_fresh hh w 0) ws h in
  good h h' /\ nobjs h' = nobjs h + length ws /\
  forall k, k < length ws -> icontent h' (nobjs h + k) = nth k ws [].
Proof.
  induction ws as [|w ws IH]; intros h Hinv; cbn [fold_left length].
  - split; [apply good_refl; auto|]. split; [lia|]. intros; lia.
  - destruct (add_fresh_good h w 0 Hinv) as (Hg1 & Hn1 & Hc1).
    pose proof Hg1 as (Hi1 & _).
    destruct (IH (add_fresh h w 0) Hi1) as (Hg2 & Hn2 & Hc2).
    split; [eapply good_trans; eauto|]. split; [lia|].
    intros [|k] Hk.
    + destruct Hg2 as (_ & _ & Hc). rewrite Nat.add_0_r. rewrite Hc by lia. cbn. auto.
    + specialize (Hc2 k). rewrite Hn1 in Hc2. replace (nobjs h + S k) with (S (nobjs h) + k) by lia.
      cbn [nth]. apply Hc2. lia.
Qed.

(* ---- an object aliasing a capped sub-slice of a materialised list (movingWindow) *)
Lemma skipn_skipn' : forall A (l : list A) a b, skipn a (skipn b l) = skipn (b + a) l.
Proof.
  intros A l a b. revert l. induction b; intros l; cbn; auto. destruct l; cbn; auto. destruct a; reflexivity.
Qed.

Lemma sub_rd : forall (A : list val) off len b l, b + l <= len ->
  firstn l (skipn b (firstn len (skipn off A))) = firstn l (skipn (off + b) A).
Proof.
  intros. rewrite skipn_firstn_comm, firstn_firstn, skipn_skipn'.
  rewrite Nat.min_l by lia. reflexivity.
Qed.

Lemma add_alias_good : forall h a ob b l, inv h -> get_obj h a = Some ob -> o_present ob = true ->
  b + l <= s_len (o_items ob) ->
  let h' := add_obj h (new_list (mkS (s_arr (o_items ob)) (s_off (o_items ob) + b) l l)) in
  good h h' /\ nobjs h' = S (nobjs h) /\ get_obj h' a = Some ob /\
  icontent h' (nobjs h) = firstn l (skipn b (icontent h a)).
Proof.
  intros h a ob b l Hinv Hg Hp Hbl h'. pose proof Hinv as [Hok Hnc].
  destruct (Hok _ _ Hg) as [[Hs1 Hs2] _].
  set (s := o_items ob) in *.
  assert (Hn : nobjs h' = S (nobjs h)).
  { unfold nobjs, h', add_obj. cbn. rewrite app_length. cbn. lia. }
  assert (Hfr : forall o, o < nobjs h -> icontent h' o = icontent h o).
  { apply frame_gen; [lia|]. intros m obm Hgm. left. split.
    - unfold h', add_obj. cbn. rewrite app_nth1; [|apply (get_obj_lt _ _ _ Hgm)]. f_equal. apply get_obj_nth. auto.
    - intros. reflexivity. }
  split; [split; [|split]|split; [|split]]; auto; try lia.
  - split.
    + intros i obi Hgi. unfold get_obj, h', add_obj in Hgi. cbn in Hgi.
      destruct (nth_error_snoc_inv _ _ _ _ _ Hgi) as [[Hl Hg']|[-> ->]].
      * apply (Hok _ _ Hg').
      * split; [split; cbn; lia|reflexivity].
    + intros i j obi obj Hij Hgi Hgj. unfold get_obj, h', add_obj in Hgi, Hgj. cbn in Hgi, Hgj.
      destruct (nth_error_snoc_inv _ _ _ _ _ Hgi) as [[Hli Hgi']|[-> ->]];
      destruct (nth_error_snoc_inv _ _ _ _ _ Hgj) as [[Hlj Hgj']|[-> ->]].
      * apply (Hnc i j obi obj Hij Hgi' Hgj').
      * destruct (Nat.eq_dec i a) as [->|Hia].
        -- assert (obi = ob) by (unfold get_obj in Hg; congruence). subst obi. unfold no_clash. fold s. cbn. lia.
        -- pose proof (Hnc i a obi ob Hia Hgi' Hg) as Hc. unfold no_clash in *. fold s in Hc. cbn. lia.
      * unfold no_clash. cbn. lia.
      * lia.
  - unfold get_obj, h', add_obj. cbn. apply nth_error_snoc_old. exact Hg.
  - rewrite icontent_eq by lia. unfold h', add_obj. cbn [h_arrs h_objs].
    rewrite app_nth2 by (unfold nobjs; lia). unfold nobjs at 2. rewrite Nat.sub_diag.
    cbn [nth new_list o_iter prod_content s_arr s_off s_len].
    rewrite (present_views_agree _ _ _ Hinv Hg Hp). unfold items_content. rewrite Hg.
    unfold rd_slice, rd. fold s. symmetry. apply sub_rd. auto.
Qed.

Lemma mw_advance_le : forall f xs v s, mw_advance f xs v s <= s + f.
Proof.
  induction f; intros xs v s; cbn; [lia|].
  destruct (Z.ltb 1 (Z.abs (v - nth s xs 0%Z))); [|lia]. specialize (IHf xs v (S s)). lia.
Qed.

Lemma mw_bounds_ok : forall xs rest i s, s <= i ->
  forall be, In be (mw_bounds xs rest i s) -> fst be <= snd be /\ snd be <= i + length rest.
Proof.
  induction rest as [|v r IH]; intros i s Hs be Hin; cbn in Hin; [destruct Hin|].
  pose proof (mw_advance_le (i - s) xs v s) as Ha.
  destruct Hin as [<-|Hin].
  - cbn. lia.
  - apply IH in Hin; [|lia]. cbn [length]. lia.
Qed.

Lemma fold_alias_good : forall bs h a ob, inv h -> get_obj h a = Some ob -> o_present ob = true ->
  (forall be, In be bs -> fst be <= snd be /\ snd be <= s_len (o_items ob)) ->
  let s := o_items ob in
  let h' := fold_left (fun hh be => add_obj hh (new_list (mkS (s_arr s) (s_off s + fst be) (snd be - fst be) (snd be - fst be)))) bs h in
  good h h' /\ nobjs h' = nobjs h + length bs /\
  forall k, k < length bs -> icontent h' (nobjs h + k) = sub_list (icontent h a) (nth k bs (0, 0)).
Proof.
  induction bs as [|be bs IH]; intros h a ob Hinv Hg Hp Hb; cbn [fold_left length].
  - split; [apply good_refl; auto|]. split; [lia|]. intros; lia.
  - destruct (Hb be (or_introl eq_refl)) as [Hb1 Hb2].
    destruct (add_alias_good h a ob (fst be) (snd be - fst be) Hinv Hg Hp) as (Hg1 & Hn1 & Hga & Hc1); [lia|].
    pose proof Hg1 as (Hi1 & _ & Hk1).
    destruct (IH _ a ob Hi1 Hga Hp) as (Hg2 & Hn2 & Hc2); [intros; apply Hb; right; auto|].
    split; [eapply good_trans; eauto|]. split; [lia|].
    pose proof (get_obj_lt _ _ _ Hg) as Hlt.
    intros [|k] Hk.
    + destruct Hg2 as (_ & _ & Hc). rewrite Nat.add_0_r. rewrite Hc by lia. cbn [nth]. exact Hc1.
    + specialize (Hc2 k). rewrite Hn1 in Hc2. replace (nobjs h + S k) with (S (nobjs h) + k) by lia.
      cbn [nth]. rewrite Hc2 by lia. rewrite Hk1 by auto. reflexivity.
Qed.

Lemma do_movwin_good : forall h a c1, inv h ->
  good h (do_movwin h a c1) /\
  (a < nobjs h ->
     let bs := mw_bounds (icontent h a) (icontent h a) 0 0 in
     nobjs (do_movwin h a c1) = nobjs h + length bs /\
     forall k, k < length bs -> icontent (do_movwin h a c1) (nobjs h + k) = sub_list (icontent h a) (nth k bs (0, 0))) /\
  (nobjs h <= a -> do_movwin h a c1 = h).
Proof.
  intros h a c1 Hinv. unfold do_movwin.
  destruct (eval_obj_good h a c1 Hinv) as (Hg1 & Hn1 & Hp1).
  destruct (get_obj (eval_obj h a c1) a) as [ob|] eqn:Hg.
  - destruct (eval_then_items _ _ _ _ Hinv Hg) as [Hlt Hrd]. rewrite Hrd.
    destruct Hg1 as (Hi1 & Hl1 & Hc1).
    assert (Hlen : length (icontent h a) = s_len (o_items ob)).
    { rewrite <- Hrd. apply rd_slice_length. destruct Hi1 as [Hok _]. apply (Hok _ _ Hg). }
    destruct (fold_alias_good (mw_bounds (icontent h a) (icontent h a) 0 0) _ a ob Hi1 Hg (Hp1 _ eq_refl)) as (Hg2 & Hn2 & Hc2).
    { intros be Hin. apply mw_bounds_ok in Hin; [|lia]. rewrite <- Hlen. cbn in Hin. auto. }
    split; [|split].
    + eapply good_trans; [split; [exact Hi1|split; [exact Hl1|exact Hc1]]|exact Hg2].
    + intros _. cbn zeta. rewrite Hn2, Hn1. split; auto. intros k Hk. rewrite Hn1 in Hc2. rewrite Hc2 by auto.
      rewrite Hc1 by auto. reflexivity.
    + intros. lia.
  - split; [apply good_refl; auto|]. split; auto.
    intros Ha. destruct (get_obj_some (eval_obj h a c1) a) as [ob Hob]; [lia|congruence].
Qed.

(* ------------------------------------------------------------------ every operation *)

Lemma abs_length : forall h, length (abs h) = nobjs h.
Proof. intros. unfold abs. apply ic_length. Qed.

Lemma abs_nth : forall h o, nth o (abs h) [] = icontent h o.
Proof. reflexivity. Qed.

(* the abstraction of the new heap: the old bindings, then the new ones *)
Lemma abs_extend : forall h h' news, good h h' -> nobjs h' = nobjs h + length news ->
  (forall k, k < length news -> icontent h' (nobjs h + k) = nth k news []) ->
  abs h' = abs h ++ news.
Proof.
  intros h h' news (Hi & Hl & Hc) Hn Hnew.
  apply (nth_ext _ _ [] []).
  - rewrite app_length, !abs_length. auto.
  - intros i Hi'. rewrite abs_length in Hi'. rewrite abs_nth.
    destruct (Nat.lt_ge_cases i (nobjs h)) as [Hlt|Hge].
    + rewrite app_nth1 by (rewrite abs_length; auto). rewrite abs_nth. auto.
    + rewrite app_nth2 by (rewrite abs_length; auto). rewrite abs_length.
      replace i with (nobjs h + (i - nobjs h)) at 1 by lia. apply Hnew. lia.
Qed.

Lemma abs_extend1 : forall h h' x, good h h' -> nobjs h' = S (nobjs h) -> icontent h' (nobjs h) = x ->
  abs h' = abs h ++ [x].
Proof.
  intros h h' x Hg Hn Hx. apply abs_extend; auto; cbn [length]; [lia|].
  intros [|k] Hk; [|lia]. rewrite Nat.add_0_r. auto.
Qed.

Lemma abs_same : forall h h', good h h' -> nobjs h' = nobjs h -> abs h' = abs h.
Proof.
  intros h h' Hg Hn. rewrite <- (app_nil_r (abs h)). apply abs_extend; auto; cbn [length]; [lia|]. intros; lia.
Qed.

Lemma ltb_nobjs : forall h a, (a <? length (abs h)) = (a <? nobjs h).
Proof. intros. rewrite abs_length. reflexivity. Qed.

Lemma lazy_step : forall h p (ok : bool), inv h -> (ok = true -> lazy_ok (nobjs h) p) ->
  let h' := if ok then lazy_add h p else h in
  good h h' /\ abs h' = if ok then abs h ++ [prod_content (h_arrs h) (abs h) p] else abs h.
Proof.
  intros h p ok Hinv Hok. destruct ok; cbn zeta.
  - destruct (lazy_add_good h p Hinv (Hok eq_refl)) as (Hg & Hn & Hc). split; auto. apply abs_extend1; auto.
  - split; auto. apply good_refl. auto.
Qed.

(* an array nobody refers to (the local slice of an aborted List.Eval) *)
Lemma garbage_array_good : forall h x, inv h ->
  good h (mkH (h_arrs h ++ [x]) (h_objs h)) /\ nobjs (mkH (h_arrs h ++ [x]) (h_objs h)) = nobjs h.
Proof.
  intros h x Hinv. pose proof Hinv as [Hok Hnc]. split; [|reflexivity].
  split; [|split]; [| cbn; unfold nobjs; cbn; lia |].
  - split.
    + intros i ob Hg. eapply obj_ok_arrs; [|apply (Hok _ _ Hg)]. intros. apply slice_ok_snoc. auto.
    + intros i j obi obj Hij Hgi Hgj. apply (Hnc i j obi obj Hij Hgi Hgj).
  - apply frame_gen; [unfold nobjs; cbn; lia|]. intros m ob Hg. left. split.
    + cbn. f_equal. apply get_obj_nth. auto.
    + intros a off k Hi. destruct (iter_slice_inv _ _ _ _ _ _ Hinv Hg Hi) as (_ & -> & -> & -> & [Hs1 Hs2]).
      cbn. apply rd_snoc. lia.
Qed.

(* ------------------------------------------------------------------ private builders *)

(* arrs' keeps every one of the first n arrays of arrs as it is *)
Definition keepsA (n : nat) (arrs arrs' : arrays) : Prop :=
  n <= length arrs' /\ forall a, a < n -> nth a arrs' [] = nth a arrs [].

(* the builder's slice lives in arrays created after the first n, is well formed and holds xs *)
Definition bstate_ok (n : nat) (arrs0 : arrays) (st : arrays * slice) (xs : list val) : Prop :=
  keepsA n arrs0 (fst st) /\ n <= s_arr (snd st) /\ s_arr (snd st) < length (fst st) /\
  slice_ok (fst st) (snd st) /\ rd_slice (fst st) (snd st) = xs.

Lemma bstep_ok : forall n arrs0 st xs b,
  bstate_ok n arrs0 st xs -> bstate_ok n arrs0 (bstep_run st b) (bstep_content xs b).
Proof.
  intros n arrs0 [arrs s] xs b ([Kl Kn] & Hn & Hlt & Hok & Hrd). cbn [fst snd] in *.
  pose proof Hok as [Hs1 Hs2].
  assert (Hlen : length xs = s_len s) by (rewrite <- Hrd; apply rd_slice_length; auto).
  destruct b as [x c|lo hi]; cbn [bstep_run bstep_content].
  - unfold go_append. destruct (s_len s <? s_cap s) eqn:Hlc.
    + apply Nat.ltb_lt in Hlc. unfold bstate_ok. cbn [fst snd s_arr s_off s_len s_cap].
      split; [|split; [|split; [|split]]].
      * split; [rewrite write_length; auto|]. intros a Ha. rewrite write_nth_other by lia. auto.
      * auto.
      * rewrite write_length. auto.
      * split; cbn; [lia|]. rewrite write_nth_length. auto.
      * unfold rd_slice. cbn [s_arr s_off s_len]. rewrite rd_write_at; auto; [|lia].
        unfold rd_slice in Hrd. rewrite Hrd. reflexivity.
    + apply Nat.ltb_ge in Hlc. unfold bstate_ok. cbn [fst snd s_arr s_off s_len s_cap].
      set (cc := Nat.max c (S (s_len s))).
      assert (Hl : length (rd_slice arrs s ++ [x]) = S (s_len s)).
      { rewrite app_length, (rd_slice_length _ _ Hok). cbn. lia. }
      assert (Harr : rd_slice arrs s ++ x :: repeat 0%Z (cc - S (s_len s)) =
                     (rd_slice arrs s ++ [x]) ++ repeat 0%Z (cc - S (s_len s))).
      { rewrite <- app_assoc. reflexivity. }
      split; [|split; [|split; [|split]]].
      * split; [rewrite app_length; cbn; lia|]. intros a Ha. rewrite app_nth1 by lia. auto.
      * lia.
      * rewrite app_length. cbn. lia.
      * split; cbn; [lia|]. rewrite app_nth2 by lia. rewrite Nat.sub_diag. cbn [nth].
        rewrite Harr, app_length, Hl, repeat_length. lia.
      * unfold rd_slice at 1. cbn [s_arr s_off s_len]. rewrite Harr. rewrite <- Hl. rewrite rd_fresh.
        rewrite Hrd. reflexivity.
  - rewrite Hlen. destruct ((lo <=? hi) && (hi <=? s_len s)) eqn:Hc.
    + apply andb_prop in Hc. destruct Hc as [H1 H2]. apply Nat.leb_le in H1, H2.
      unfold bstate_ok. cbn [fst snd s_arr s_off s_len s_cap].
      split; [split; auto|]. split; auto. split; auto. split.
      * split; cbn; lia.
      * unfold rd_slice, rd. cbn [s_arr s_off s_len]. rewrite <- Hrd. unfold rd_slice, rd.
        symmetry. apply sub_rd. lia.
    + unfold bstate_ok. cbn [fst snd]. repeat (split; auto).
Qed.

Lemma builder_run_ok : forall arrs c0 script,
  bstate_ok (length arrs) arrs (builder_run arrs c0 script) (content_of script).
Proof.
  intros arrs c0 script. unfold builder_run, content_of.
  assert (H0 : bstate_ok (length arrs) arrs (arrs ++ [repeat 0%Z c0], mkS (length arrs) 0 0 c0) []).
  { unfold bstate_ok. cbn [fst snd s_arr s_off s_len s_cap]. split; [|split; [|split; [|split]]].
    - split; [rewrite app_length; cbn; lia|]. intros a Ha. apply app_nth1. auto.
    - lia.
    - rewrite app_length. cbn. lia.
    - split; cbn; [lia|]. rewrite app_nth2 by lia. rewrite Nat.sub_diag. cbn. rewrite repeat_length. lia.
    - reflexivity. }
  revert H0. generalize (arrs ++ [repeat 0%Z c0], mkS (length arrs) 0 0 c0). generalize (@nil val).
  induction script as [|b script IH]; intros xs st H; cbn [fold_left]; auto.
  apply IH. apply bstep_ok. auto.
Qed.

(* The whole script as one step: it is add_fresh up to unreachable arrays *)
Lemma build_good : forall h c0 script, inv h ->
  let h' := step h (OBuild c0 script) in
  good h h' /\ nobjs h' = S (nobjs h) /\ icontent h' (nobjs h) = content_of script /\
  keepsA (length (h_arrs h)) (h_arrs h) (h_arrs h') /\
  (forall i ob, get_obj h i = Some ob ->
     get_obj h' i = Some ob /\ (s_arr (o_items ob) < length (h_arrs h) \/ s_cap (o_items ob) = 0)) /\
  (exists nw, get_obj h' (nobjs h) = Some nw /\ length (h_arrs h) <= s_arr (o_items nw) /\ o_present nw = true).
Proof.
  intros h c0 script Hinv h'. pose proof Hinv as [Hok Hnc].
  pose proof (builder_run_ok (h_arrs h) c0 script) as Hb.
  unfold h'. cbn [step]. destruct (builder_run (h_arrs h) c0 script) as [arrs' s].
  destruct Hb as ([Kl Kn] & Hn & Hlt & Hsok & Hrd). cbn [fst snd] in *.
  set (N := length (h_arrs h)) in *.
  set (hh := mkH arrs' (h_objs h ++ [new_list s])).
  assert (Hnn : nobjs hh = S (nobjs h)). { unfold nobjs, hh. cbn. rewrite app_length. cbn. lia. }
  assert (Hold : forall t, slice_ok (h_arrs h) t -> slice_ok arrs' t /\ (s_arr t < N \/ (s_cap t = 0 /\ s_off t = 0 /\ s_len t = 0))).
  { intros t Ht. pose proof Ht as [T1 T2]. destruct (slice_ok_arr _ _ Ht) as [Hlt'|(C & O & L)].
    - split; auto. split; auto. fold N in Hlt'. rewrite Kn; auto.
    - split; auto. split; lia. }
  assert (Hfr : forall o, o < nobjs h -> icontent hh o = icontent h o).
  { apply frame_gen; [lia|]. intros m ob Hg. left. split.
    - unfold hh. cbn. rewrite app_nth1; [|apply (get_obj_lt _ _ _ Hg)]. f_equal. apply get_obj_nth. auto.
    - intros a off k Hi. destruct (iter_slice_inv _ _ _ _ _ _ Hinv Hg Hi) as (_ & -> & -> & -> & Hs).
      unfold hh. cbn [h_arrs]. destruct (Hold _ Hs) as [_ [Hl'|(C & O & L)]].
      + unfold rd. rewrite Kn; auto.
      + unfold rd. rewrite L. reflexivity. }
  split; [split; [|split]|split; [|split; [|split; [|split]]]]; auto; try lia.
  - split.
    + intros i ob Hg. unfold get_obj, hh in Hg. cbn in Hg.
      destruct (nth_error_snoc_inv _ _ _ _ _ Hg) as [[Hl Hg']|[-> ->]].
      * destruct (Hok _ _ Hg') as [Hs Hp]. split; auto. apply (Hold _ Hs).
      * split; [exact Hsok|reflexivity].
    + intros i j obi obj Hij Hgi Hgj. unfold get_obj, hh in Hgi, Hgj. cbn in Hgi, Hgj.
      destruct (nth_error_snoc_inv _ _ _ _ _ Hgi) as [[Hli Hgi']|[-> ->]];
      destruct (nth_error_snoc_inv _ _ _ _ _ Hgj) as [[Hlj Hgj']|[-> ->]].
      * apply (Hnc i j obi obj Hij Hgi' Hgj').
      * destruct (Hok _ _ Hgi') as [Hs _]. destruct (Hold _ Hs) as [_ [Hl'|(C & O & L)]];
          unfold no_clash; cbn; lia.
      * destruct (Hok _ _ Hgj') as [Hs _]. destruct (Hold _ Hs) as [_ [Hl'|(C & O & L)]];
          unfold no_clash; cbn; lia.
      * lia.
  - rewrite icontent_eq by lia. unfold hh. cbn [h_arrs h_objs].
    rewrite app_nth2 by (unfold nobjs; lia). unfold nobjs at 2. rewrite Nat.sub_diag. cbn. exact Hrd.
  - split; auto.
  - intros i ob Hg. split.
    + unfold get_obj, hh. cbn. apply nth_error_snoc_old. exact Hg.
    + destruct (Hok _ _ Hg) as [Hs _]. destruct (Hold _ Hs) as [_ [Hl'|(C & O & L)]]; auto.
  - exists (new_list s). split; [|split; [exact Hn|reflexivity]].
    unfold get_obj, hh. cbn. rewrite nth_error_app2 by (unfold nobjs; lia). unfold nobjs. rewrite Nat.sub_diag. reflexivity.
Qed.

Theorem step_refines_lemma : forall h o, inv h -> good h (step h o) /\ abs (step h o) = pstep (abs h) o.
Proof.
  intros h o Hinv. destruct o; cbn [step pstep]; rewrite ?ltb_nobjs.
  - (* OLit *)
    destruct (add_fresh_good h xs c Hinv) as (Hg & Hn & Hc). split; auto. apply abs_extend1; auto.
  - (* ONumbers *)
    destruct (lazy_add_good h (PNumbers n) Hinv I) as (Hg & Hn & Hc). split; auto. apply abs_extend1; auto.
  - (* OAppend *)
    destruct (do_append_good h a x c1 c2 Hinv) as (Hg & Hin & Hout). split; auto.
    destruct (a <? nobjs h) eqn:Ha.
    + apply Nat.ltb_lt in Ha. destruct (Hin Ha) as [Hn Hc]. apply abs_extend1; auto.
    + apply Nat.ltb_ge in Ha. rewrite (Hout Ha). reflexivity.
  - (* OSet *)
    destruct (do_copy_with_good h a c1 (fun l => if i <? length l then Some (set_nth l i x) else None) Hinv) as (Hg & Hin & Hout).
    split; auto. destruct (a <? nobjs h) eqn:Ha; cbn [andb].
    + apply Nat.ltb_lt in Ha. specialize (Hin Ha). cbn beta in Hin. rewrite abs_nth.
      destruct (i <? length (icontent h a)).
      * destruct Hin as [Hn Hc]. apply abs_extend1; auto.
      * apply abs_same; auto.
    + apply Nat.ltb_ge in Ha. rewrite (Hout Ha). reflexivity.
  - (* OReverse *)
    destruct (do_copy_with_good h a c1 (fun l => Some (rev l)) Hinv) as (Hg & Hin & Hout).
    split; auto. destruct (a <? nobjs h) eqn:Ha.
    + apply Nat.ltb_lt in Ha. destruct (Hin Ha) as [Hn Hc]. apply abs_extend1; auto.
    + apply Nat.ltb_ge in Ha. rewrite (Hout Ha). reflexivity.
  - (* OOrder *)
    destruct (do_copy_with_good h a c1 (fun l => Some (sort_vals l)) Hinv) as (Hg & Hin & Hout).
    split; auto. destruct (a <? nobjs h) eqn:Ha.
    + apply Nat.ltb_lt in Ha. destruct (Hin Ha) as [Hn Hc]. apply abs_extend1; auto.
    + apply Nat.ltb_ge in Ha. rewrite (Hout Ha). reflexivity.
  - (* OConcat *)
    apply (lazy_step h (PConcat a b) ((a <? nobjs h) && (b <? nobjs h)) Hinv).
    intros H. apply andb_prop in H. destruct H as [H1 H2]. apply Nat.ltb_lt in H1, H2. cbn. auto.
  - apply (lazy_step h (PMap k a) (a <? nobjs h) Hinv). intros H. apply Nat.ltb_lt in H. exact H.
  - apply (lazy_step h (PAccept k a) (a <? nobjs h) Hinv). intros H. apply Nat.ltb_lt in H. exact H.
  - apply (lazy_step h (PTop n a) (a <? nobjs h) Hinv). intros H. apply Nat.ltb_lt in H. exact H.
  - apply (lazy_step h (PSkip n a) (a <? nobjs h) Hinv). intros H. apply Nat.ltb_lt in H. exact H.
  - (* OForce *)
    destruct (eval_obj_good h a c1 Hinv) as (Hg & Hn & _). split; auto. apply abs_same; auto.
  - (* OWindows *)
    destruct (a <? nobjs h) eqn:Ha; [|split; [apply good_refl; auto|reflexivity]].
    destruct (fold_fresh_good (windows_of n (icontent h a)) h Hinv) as (Hg & Hn & Hc).
    split; auto. rewrite abs_nth. apply abs_extend; auto.
  - (* OMovWin *)
    destruct (do_movwin_good h a c1 Hinv) as (Hg & Hin & Hout). split; auto.
    destruct (a <? nobjs h) eqn:Ha.
    + apply Nat.ltb_lt in Ha. destruct (Hin Ha) as [Hn Hc]. rewrite abs_nth.
      apply abs_extend; auto; rewrite map_length; auto.
      intros k Hk. rewrite Hc by auto.
      change (@nil val) with (sub_list (icontent h a) (0, 0)). rewrite map_nth. reflexivity.
    + apply Nat.ltb_ge in Ha. rewrite (Hout Ha). reflexivity.
  - (* OGuard *)
    apply (lazy_step h (PGuard v a) (a <? nobjs h) Hinv). intros H. apply Nat.ltb_lt in H. exact H.
  - (* OStage *)
    apply (lazy_step h (PStage st a b) ((a <? nobjs h) && (b <? nobjs h)) Hinv).
    intros H. apply andb_prop in H. destruct H as [H1 H2]. apply Nat.ltb_lt in H1, H2. cbn. auto.
  - (* OBuild *)
    destruct (build_good h c0 script Hinv) as (Hg & Hn & Hc & _). split; auto. apply abs_extend1; auto.
  - (* OEvalFail *)
    destruct (a <? nobjs h); [|split; [apply good_refl; auto|reflexivity]].
    destruct (garbage_array_good h (firstn k (icontent h a)) Hinv) as [Hg Hn]. split; auto.
    apply abs_same; auto.
Qed.

(* ------------------------------------------------------------------ histories *)

Lemma run_from_good : forall ops h, inv h ->
  good h (run_from h ops) /\ abs (run_from h ops) = fold_left pstep ops (abs h).
Proof.
  induction ops as [|o ops IH]; intros h Hinv; cbn [run_from fold_left].
  - split; auto. apply good_refl. auto.
  - destruct (step_refines_lemma h o Hinv) as [Hg Ha]. pose proof Hg as (Hi & _).
    destruct (IH _ Hi) as [Hg2 Ha2]. fold (run_from (step h o) ops).
    split; [eapply good_trans; eauto|]. rewrite Ha2, Ha. reflexivity.
Qed.

Lemma run_app : forall ops more, run (ops ++ more) = run_from (run ops) more.
Proof. intros. unfold run, run_from. apply fold_left_app. Qed.

Lemma run_inv : forall ops, inv (run ops).
Proof. intros. destruct (run_from_good ops empty_heap inv_empty) as [(Hi & _) _]. exact Hi. Qed.

Lemma step_preserves_lemma : forall h o, inv h ->
  inv (step h o) /\ nobjs h <= nobjs (step h o) /\
  forall x, x < nobjs h -> icontent (step h o) x = icontent h x.
Proof. intros h o Hinv. destruct (step_refines_lemma h o Hinv) as [Hg _]. exact Hg. Qed.

Lemma history_persistent_lemma : forall ops more o, o < nobjs (run ops) ->
  icontent (run (ops ++ more)) o = icontent (run ops) o.
Proof.
  intros ops more o Ho. rewrite run_app.
  destruct (run_from_good more (run ops) (run_inv ops)) as [(_ & _ & Hc) _]. auto.
Qed.

Lemma run_refines_lemma : forall ops, abs (run ops) = prun ops.
Proof. intros. destruct (run_from_good ops empty_heap inv_empty) as [_ Ha]. exact Ha. Qed.

(* both views of a materialised list show the bound content, at any later time *)
Lemma history_items_view_lemma : forall ops more o ob, o < nobjs (run ops) ->
  get_obj (run (ops ++ more)) o = Some ob -> o_present ob = true ->
  items_content (run (ops ++ more)) o = icontent (run ops) o.
Proof.
  intros ops more o ob Ho Hg Hp. rewrite <- (present_views_agree _ _ _ (run_inv _) Hg Hp).
  apply history_persistent_lemma. auto.
Qed.

Lemma siblings_independent_lemma : forall ops a x y c1 c2 c3 c4 more,
  let h := run ops in
  a < nobjs h ->
  let h2 := run (ops ++ [OAppend a x c1 c2; OAppend a y c3 c4] ++ more) in
  icontent h2 a = icontent h a /\
  icontent h2 (nobjs h) = icontent h a ++ [x] /\
  icontent h2 (S (nobjs h)) = icontent h a ++ [y].
Proof.
  intros ops a x y c1 c2 c3 c4 more h Ha h2.
  pose proof (run_inv ops) as Hinv. fold h in Hinv.
  destruct (do_append_good h a x c1 c2 Hinv) as ((Hi1 & Hl1 & Hc1) & Hin1 & _).
  destruct (Hin1 Ha) as [Hn1 Hx].
  set (h1 := do_append h a x c1 c2) in *.
  destruct (do_append_good h1 a y c3 c4 Hi1) as ((Hi2 & Hl2 & Hc2) & Hin2 & _).
  destruct (Hin2 ltac:(lia)) as [Hn2 Hy].
  set (h1' := do_append h1 a y c3 c4) in *.
  assert (E : h2 = run_from h1' more).
  { unfold h2. rewrite run_app. fold h. unfold run_from. rewrite fold_left_app. reflexivity. }
  destruct (run_from_good more h1' Hi2) as [(_ & _ & Hc3) _].
  rewrite E. rewrite !Hc3 by lia. split; [|split].
  - rewrite Hc2 by lia. apply Hc1. auto.
  - rewrite Hc2 by lia. exact Hx.
  - rewrite <- Hn1. rewrite Hy. f_equal. apply Hc1. auto.
Qed.

(* ------------------------------------------------------------------ the code before the repair *)

(* combineN(2, w->w) on [1,2,3,4]: the first window was [1,2] when the callback received it; once the
   iteration has finished it reads [3,4] *)
Lemma windows_alias_refuted_lemma :
  exists ops n a, let h := run ops in
    inv h /\ a < nobjs h /\
    nth 0 (windows_of n (icontent h a)) [] <> icontent (windows_alias h n a) (nobjs h).
Proof.
  exists [OLit [1; 2; 3; 4]%Z 0], 2, 0. cbn zeta. split; [apply run_inv|]. split; [vm_compute; lia|].
  vm_compute. discriminate.
Qed.

(* ------------------------------------------------------------------ observer-style operations *)

(* A built-in that only READS its operands (~, =, +, sum, order, groupBy, ... : every list method and operator
   except append) is, in the model, nothing but the materialisation (Eval) of some handles, with any capacities:
   no handle is added, nobody's content changes, the abstraction of the heap is the same. *)
Definition observe_ops (evs : list (nat * nat)) : list op := map (fun ac => OForce (fst ac) (snd ac)) evs.

Lemma observe_preserves_lemma : forall evs h, inv h ->
  let h' := run_from h (observe_ops evs) in
  inv h' /\ nobjs h' = nobjs h /\ (forall x, icontent h' x = icontent h x) /\ abs h' = abs h.
Proof.
  induction evs as [|[a c] evs IH]; intros h Hinv; cbn [observe_ops map run_from fold_left].
  - split; [exact Hinv|]. split; [reflexivity|]. split; reflexivity.
  - cbn [step fst snd]. destruct (eval_obj_good h a c Hinv) as (Hg & Hn & _).
    pose proof Hg as (Hi1 & _ & Hc1).
    destruct (IH _ Hi1) as (Hi2 & Hn2 & Hc2 & Ha2). fold (observe_ops evs). fold (run_from (eval_obj h a c) (observe_ops evs)).
    assert (Habs : abs (eval_obj h a c) = abs h) by (apply abs_same; auto).
    split; auto. split; [lia|]. split; [|congruence].
    intros x. rewrite Hc2. change (nth x (abs (eval_obj h a c)) [] = nth x (abs h) []). rewrite Habs. reflexivity.
Qed.

(* ------------------------------------------------------------------ a materialisation that fails half way *)

(* List.Eval aborted by an error after k elements (any k, any object, lazy or not): no object is touched -
   in particular the list is still lazy with empty items - nobody's content changes, and the next, successful,
   materialisation yields exactly the bound content. *)
Lemma failed_eval_changes_nothing_lemma : forall h a k, inv h ->
  let h' := step h (OEvalFail a k) in
  inv h' /\ h_objs h' = h_objs h /\ (forall x, icontent h' x = icontent h x) /\
  forall c, a < nobjs h -> items_content (step h' (OForce a c)) a = icontent h a.
Proof.
  intros h a k Hinv h'.
  destruct (step_refines_lemma h (OEvalFail a k) Hinv) as [(Hi & Hl & Hc) Ha]. fold h' in Hi, Hl, Hc, Ha.
  cbn [pstep] in Ha.
  assert (Hobjs : h_objs h' = h_objs h) by (unfold h'; cbn [step]; destruct (a <? nobjs h); reflexivity).
  assert (Hall : forall x, icontent h' x = icontent h x).
  { intros x. change (nth x (abs h') [] = nth x (abs h) []). rewrite Ha. reflexivity. }
  split; auto. split; auto. split; auto.
  intros c Ha'. cbn [step].
  assert (Hn : nobjs h' = nobjs h) by (unfold nobjs; rewrite Hobjs; reflexivity).
  destruct (eval_obj_good h' a c Hi) as ((Hi2 & _ & Hc2) & Hn2 & Hp2).
  destruct (get_obj_some (eval_obj h' a c) a) as [ob Hob]; [lia|].
  rewrite <- (present_views_agree _ _ _ Hi2 Hob (Hp2 _ Hob)). rewrite Hc2 by lia. apply Hall.
Qed.

(* ------------------------------------------------------------------ a private builder is add_fresh *)

(* For every script and every growth decision of append: running the script is add_fresh of its content, up to
   arrays nobody can reach.  (1) the invariant is kept; (2) exactly one handle is added and every existing
   handle's content is unchanged; (3) the new handle shows exactly content_of script; (4) the heap abstraction is
   that of add_fresh (for any capacity); (5) every array that existed before is untouched, every existing object
   is the same object and refers to an old array (or to none), the new object's slice lives in a new array: no
   existing object can reach the builder's arrays. *)
Lemma private_builder_is_add_fresh_lemma : forall h c0 script c, inv h ->
  let h' := step h (OBuild c0 script) in
  let hf := add_fresh h (content_of script) c in
  inv h' /\
  (nobjs h' = nobjs hf /\ forall x, x < nobjs h -> icontent h' x = icontent h x) /\
  icontent h' (nobjs h) = content_of script /\
  abs h' = abs hf /\
  ((forall a, a < length (h_arrs h) -> nth a (h_arrs h') [] = nth a (h_arrs h) []) /\
   (forall i ob, get_obj h i = Some ob ->
      get_obj h' i = Some ob /\ (s_arr (o_items ob) < length (h_arrs h) \/ s_cap (o_items ob) = 0)) /\
   (exists nw, get_obj h' (nobjs h) = Some nw /\ length (h_arrs h) <= s_arr (o_items nw))).
Proof.
  intros h c0 script c Hinv h' hf.
  destruct (build_good h c0 script Hinv) as (Hg & Hn & Hc & [_ Hk] & Hobj & (nw & Hnw & Hnw2 & _)). fold h' in Hg, Hn, Hc, Hk, Hobj, Hnw.
  destruct (add_fresh_good h (content_of script) c Hinv) as (Hgf & Hnf & Hcf). fold hf in Hgf, Hnf, Hcf.
  pose proof Hg as (Hi & _ & Hold).
  split; auto. split; [split; [congruence|auto]|]. split; auto. split.
  - rewrite (abs_extend1 h h' (content_of script)); auto. rewrite (abs_extend1 h hf (content_of script)); auto.
  - split; auto. split; auto. exists nw. auto.
Qed.
