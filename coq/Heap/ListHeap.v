(* C09 - lists are persistent values.  Executable model of the heap behaviour of value/list.go.

   Go slices are modelled as views (array id, offset, len, cap) into a heap of backing arrays; a *List is
   an object {items; itemsPresent; iterable}.  Every operation of value/list.go that creates or touches a
   list is a heap step that follows the Go code branch by branch:

     append(s, x)            go_append      write in place when len < cap, else allocate with ANY capacity
                                            >= len+1 (the capacity is an argument of the step: no growth policy)
     NewList(items...)       new_list       the new object ALIASES its argument
     List.Eval               eval_obj       materialise the iterable into a fresh array, replace iterable
     List.ToSlice            (the view items[0:len:len], used by movingWindow)
     List.CopyToSlice        copy_obj       make([]Value, len) + copy
     List.Append             OAppend        Eval; append; cap the parent's slice; NewList(newList...)
     Set / Reverse / Order   OSet ...       CopyToSlice, mutate the copy, NewList(copy...)
     + / map / accept / top / skip / numbers     lazy objects whose iterable reads the PARENT's iterable
                                            field at iteration time
     combineN(n, w->w)       OWindows       the windows handed to the callback (see windows_alias for the
                                            code before the repair: NewList aliased the iterator's ring buffer)
     movingWindow            OMovWin        capped sub-slices items[s:i+1:i+1] of the parent's array

   The specification side (what the property demands) is the purely functional model at the end of the
   file: a handle is bound to a list of values once and for all.  Values are abstract (Z). *)
From P2 Require Import Base.Prelude.
Local Open Scope nat_scope.

Definition val := Z.

(* ------------------------------------------------------------------ slices and arrays *)

Record slice := mkS { s_arr : nat; s_off : nat; s_len : nat; s_cap : nat }.
Definition nil_slice : slice := mkS 0 0 0 0.

Fixpoint set_nth {A} (l : list A) (i : nat) (x : A) : list A :=
  match l, i with
  | [], _ => []
  | _ :: r, O => x :: r
  | y :: r, S j => y :: set_nth r j x
  end.

Definition arrays := list (list val).          (* array id = position; arrays are only ever added at the end *)

Definition rd (arrs : arrays) (a off n : nat) : list val := firstn n (skipn off (nth a arrs [])).
Definition rd_slice (arrs : arrays) (s : slice) : list val := rd arrs (s_arr s) (s_off s) (s_len s).
Definition write (arrs : arrays) (a i : nat) (v : val) : arrays := set_nth arrs a (set_nth (nth a arrs []) i v).

(* Go's append(s, x).  newcap is the capacity the runtime chooses when it has to allocate; the model only
   uses max newcap (len+1), so that every value of newcap is a legal behaviour. *)
Definition go_append (arrs : arrays) (s : slice) (x : val) (newcap : nat) : arrays * slice :=
  if s_len s <? s_cap s then
    (write arrs (s_arr s) (s_off s + s_len s) x, mkS (s_arr s) (s_off s) (S (s_len s)) (s_cap s))
  else
    let c := Nat.max newcap (S (s_len s)) in
    (arrs ++ [rd_slice arrs s ++ x :: repeat 0%Z (c - S (s_len s))], mkS (length arrs) 0 (S (s_len s)) c).

(* ------------------------------------------------------------------ list objects *)

(* the iterable of a list.  PSlice is createSliceIterable(items): it captured the slice header when the
   object was created (cap is irrelevant for ranging).  The lazy producers hold the PARENT OBJECT and call
   its iterable field when they are iterated. *)
(* The remaining lazy stages of value/list.go, with the closures the correspondence run uses.  Their element-wise
   meaning (shared by the model and the specification side) is stage_sem; what matters for C09 is that a stage
   result is a lazy object that is re-computed from its parents at EVERY pass and keeps nothing between passes. *)
Inductive stage :=
| StMerge        (* a.merge(b,(x,y)->x<y) *)
| StCross        (* a.cross(b,(x,y)->x+y): b is iterated once per element of a *)
| StCombine      (* a.combine((x,y)->x+y) *)
| StCombine3     (* a.combine3((x,y,z)->x+y+z) *)
| StCombineN     (* a.combineN(2,w->w.sum()) *)
| StCompact      (* a.compact((x,y)->x=y) *)
| StNumber       (* a.number((i,e)->i+e) *)
| StIir          (* a.iir(e->e,(i,o)->o+i) *)
| StIirCombine.  (* a.iirCombine(e->e,(i0,i1,o)->o+i1) *)

Definition stage_eqb (s t : stage) : bool :=
  match s, t with
  | StMerge, StMerge | StCross, StCross | StCombine, StCombine | StCombine3, StCombine3 | StCombineN, StCombineN
  | StCompact, StCompact | StNumber, StNumber | StIir, StIir | StIirCombine, StIirCombine => true
  | _, _ => false
  end.

Fixpoint merge_vals (a : list Z) : list Z -> list Z :=
  fix inner (b : list Z) : list Z :=
    match a, b with
    | [], _ => b
    | _, [] => a
    | x :: a', y :: b' => if Z.ltb x y then x :: merge_vals a' b else y :: inner b'
    end.
Fixpoint combine2_vals (l : list Z) : list Z :=
  match l with
  | x :: ((y :: _) as r) => (x + y)%Z :: combine2_vals r
  | _ => []
  end.
Fixpoint combine3_vals (l : list Z) : list Z :=
  match l with
  | x :: ((y :: z :: _) as r) => (x + y + z)%Z :: combine3_vals r
  | _ => []
  end.
Fixpoint compact_from (last : Z) (l : list Z) : list Z :=
  match l with
  | [] => []
  | x :: r => if Z.eqb last x then compact_from x r else x :: compact_from x r
  end.
Fixpoint number_from (i : Z) (l : list Z) : list Z :=
  match l with
  | [] => []
  | x :: r => (i + x)%Z :: number_from (i + 1)%Z r
  end.
Fixpoint sums_from (acc : Z) (l : list Z) : list Z :=
  match l with
  | [] => []
  | x :: r => (acc + x)%Z :: sums_from (acc + x)%Z r
  end.
Definition stage_sem (st : stage) (a b : list Z) : list Z :=
  match st with
  | StMerge => merge_vals a b
  | StCross => flat_map (fun x => map (Z.add x) b) a
  | StCombine | StCombineN => combine2_vals a
  | StCombine3 => combine3_vals a
  | StCompact => match a with [] => [] | x :: r => x :: compact_from x r end
  | StNumber => number_from 0%Z a
  | StIir | StIirCombine => sums_from 0%Z a
  end.

Inductive producer :=
| PSlice (a off n : nat)
| PNumbers (n : nat)
| PConcat (a b : nat)
| PMap (k : Z) (a : nat)          (* map(e->e+k) *)
| PAccept (k : Z) (a : nat)       (* accept(e->e<k) *)
| PTop (n a : nat)
| PSkip (n a : nat)
| PGuard (v : Z) (a : nat)        (* map(e->e+0%(e-v)): the identity whose closure FAILS on elements equal to v *)
| PStage (st : stage) (a b : nat). (* the other lazy stages of value/list.go (merge, cross, combine, ...): a fresh pass
                                     over the parents' iterables at every iteration, no state kept between passes *)

(* A failing element of a lazy list (its producer returns an error at that position: value/list.go passes
   (value, error) items down the pipeline) is represented IN THE CONTENT by a poison value.  Failure is then a
   property of the content: consumers that materialise (List.Eval) or iterate fail at the first poison element,
   and List.Eval's failure path (`return err` before any field is written) is a step that changes nothing.
   map(e->e+k), accept(e->e<k) with ordinary k, top and + keep a poison element poison at its position, exactly as
   the iterator stages pass error items on (iterator.Map, Filter, Append); skip does NOT (iterator.Skip yields
   the errors of skipped elements): skip over a failing list is outside the model. *)
Definition poison : val := (-2000000000000000)%Z.
Definition is_poison (e : val) : bool := (e <? -1000000000000000)%Z.
Definition poisoned (xs : list val) : bool := existsb is_poison xs.
Definition guard_elem (v e : val) : val := if Z.eqb e v then poison else e.

Record lobj := mkO { o_items : slice; o_present : bool; o_iter : producer }.
Definition dummy_obj : lobj := mkO nil_slice false (PNumbers 0).

Record heap := mkH { h_arrs : arrays; h_objs : list lobj }.   (* object id = position *)
Definition empty_heap : heap := mkH [] [].
Definition nobjs (h : heap) : nat := length (h_objs h).
Definition get_obj (h : heap) (o : nat) : option lobj := nth_error (h_objs h) o.

(* what iterating a producer yields, given the iteration results of all older objects *)
Definition prod_content (arrs : arrays) (prev : list (list val)) (p : producer) : list val :=
  match p with
  | PSlice a off n => rd arrs a off n
  | PNumbers n => map Z.of_nat (seq 0 n)
  | PConcat a b => nth a prev [] ++ nth b prev []
  | PMap k a => map (Z.add k) (nth a prev [])
  | PAccept k a => filter (fun e => Z.ltb e k) (nth a prev [])
  | PTop n a => firstn n (nth a prev [])
  | PSkip n a => skipn n (nth a prev [])
  | PGuard v a => map (guard_elem v) (nth a prev [])
  | PStage st a b => stage_sem st (nth a prev []) (nth b prev [])
  end.

(* iteration results of the objects 0..n-1 (producers only refer to older objects) *)
Fixpoint ic (arrs : arrays) (objs : list lobj) (n : nat) : list (list val) :=
  match n with
  | O => []
  | S m => let prev := ic arrs objs m in prev ++ [prod_content arrs prev (o_iter (nth m objs dummy_obj))]
  end.

(* THE ABSTRACTION: the content of object o as seen through its iterable (string(), iteration, lazy children) *)
Definition icontent (h : heap) (o : nat) : list val := nth o (ic (h_arrs h) (h_objs h) (nobjs h)) [].
(* ... and as seen through items (size(), [i], =, ToSlice) once the list is materialised *)
Definition items_content (h : heap) (o : nat) : list val :=
  match get_obj h o with Some ob => rd_slice (h_arrs h) (o_items ob) | None => [] end.

(* ------------------------------------------------------------------ primitive steps *)

Definition set_obj (h : heap) (o : nat) (ob : lobj) : heap := mkH (h_arrs h) (set_nth (h_objs h) o ob).
Definition add_obj (h : heap) (ob : lobj) : heap := mkH (h_arrs h) (h_objs h ++ [ob]).

(* NewList(items...): aliases the slice it is given *)
Definition new_list (s : slice) : lobj := mkO s true (PSlice (s_arr s) (s_off s) (s_len s)).

(* make + fill: a fresh array holding xs with capacity max c (len xs), and a list object owning it *)
Definition add_fresh (h : heap) (xs : list val) (c : nat) : heap :=
  let n := length xs in
  let cc := Nat.max c n in
  mkH (h_arrs h ++ [xs ++ repeat 0%Z (cc - n)]) (h_objs h ++ [new_list (mkS (length (h_arrs h)) 0 n cc)]).

(* List.Eval: `var it []Value; for v := range l.iterable { it = append(it, v) }; l.items = it; l.itemsPresent = true;
   l.iterable = createSliceIterable(it)`.  Only the final backing array of the append loop is modelled (the
   intermediate ones are unreachable); c is the capacity it ends up with (max c len is used). *)
Definition eval_obj (h : heap) (o : nat) (c : nat) : heap :=
  match get_obj h o with
  | None => h
  | Some ob =>
      if o_present ob then h
      else
        let xs := icontent h o in
        let n := length xs in
        let cc := Nat.max c n in
        mkH (h_arrs h ++ [xs ++ repeat 0%Z (cc - n)])
            (set_nth (h_objs h) o (new_list (mkS (length (h_arrs h)) 0 n cc)))
  end.

Fixpoint insert_sorted (x : val) (l : list val) : list val :=
  match l with
  | [] => [x]
  | y :: r => if Z.leb x y then x :: l else y :: insert_sorted x r
  end.
Definition sort_vals (l : list val) : list val := fold_right insert_sorted [] l.

(* combineN's ring buffer (iterator.CombineN): vals[pos] = item; pos = (pos+1) mod n; once n values are
   present the callback gets a copy of the buffer *)
Fixpoint ring_run (n : nat) (xs : list val) (buf : list val) (pos cnt : nat) : list (list val) :=
  match xs with
  | [] => []
  | x :: r =>
      let buf' := set_nth buf pos x in
      let pos' := if S pos =? n then 0 else S pos in
      let cnt' := if cnt <? n then S cnt else cnt in
      (* the oldest item is at pos': the callback gets a copy in list order (after the C07 repair) *)
      if cnt' =? n then (skipn pos' buf' ++ firstn pos' buf') :: ring_run n r buf' pos' cnt'
      else ring_run n r buf' pos' cnt'
  end.
Definition windows_of (n : nat) (xs : list val) : list (list val) :=
  if n =? 0 then [] else ring_run n xs (repeat 0%Z n) 0 0.

(* movingWindow(e->e): start index of the window ending at i *)
Fixpoint mw_advance (fuel : nat) (xs : list val) (v : val) (s : nat) : nat :=
  match fuel with
  | O => s
  | S f => if Z.ltb 1 (Z.abs (v - nth s xs 0%Z)) then mw_advance f xs v (S s) else s
  end.
(* (start, end+1) pairs, for i = 0..; the start never passes i because |v_i - v_i| = 0 *)
Fixpoint mw_bounds (xs rest : list val) (i s : nat) : list (nat * nat) :=
  match rest with
  | [] => []
  | v :: r => let s' := mw_advance (i - s) xs v s in (s', S i) :: mw_bounds xs r (S i) s'
  end.

(* ------------------------------------------------------------------ operations *)

(* ------------------------------------------------------------------ private builders

   Many list methods (groupBy*, unique*, movingWindow's outer list, visit/fsm/replaceList results, binning, the
   Eval loop itself ...) build their result in a PRIVATE slice: `var r []Value` or `make([]Value, 0, n)`, any
   number of `r = append(r, x)` with whatever growth the runtime chooses, possibly a re-slice `r = r[lo:hi]`
   within the current length, and finally `NewList(r...)`.  Such a method is a script of builder steps; the
   slice is referenced by nobody else until NewList receives it. *)
Inductive bstep :=
| BAppend (x : val) (c : nat)      (* r = append(r, x); c = the capacity the runtime chooses if it allocates *)
| BReslice (lo hi : nat).          (* r = r[lo:hi] with lo <= hi <= len(r) (anything else: the step is skipped) *)
Arguments BAppend x%Z c%nat.
Arguments BReslice lo%nat hi%nat.

Definition bstep_run (st : arrays * slice) (b : bstep) : arrays * slice :=
  let '(arrs, s) := st in
  match b with
  | BAppend x c => go_append arrs s x c
  | BReslice lo hi =>
      if (lo <=? hi) && (hi <=? s_len s)
      then (arrs, mkS (s_arr s) (s_off s + lo) (hi - lo) (s_cap s - lo))
      else (arrs, s)
  end.

(* make([]Value, 0, c0) followed by the script *)
Definition builder_run (arrs : arrays) (c0 : nat) (script : list bstep) : arrays * slice :=
  fold_left bstep_run script (arrs ++ [repeat 0%Z c0], mkS (length arrs) 0 0 c0).

(* what the finished slice holds, computed without any heap *)
Definition bstep_content (xs : list val) (b : bstep) : list val :=
  match b with
  | BAppend x _ => xs ++ [x]
  | BReslice lo hi => if (lo <=? hi) && (hi <=? length xs) then firstn (hi - lo) (skipn lo xs) else xs
  end.
Definition content_of (script : list bstep) : list val := fold_left bstep_content script [].

Inductive op :=
| OLit (xs : list val) (c : nat)            (* list literal / constant-folded list: a fresh array of capacity max c len *)
| ONumbers (n : nat)                        (* numbers(n): lazily produced, no parent *)
| OAppend (a : nat) (x : val) (c1 c2 : nat) (* c1: capacity chosen by Eval, c2: by append when it allocates *)
| OSet (a i : nat) (x : val) (c1 : nat)
| OReverse (a c1 : nat)
| OOrder (a c1 : nat)
| OConcat (a b : nat)
| OMap (k : Z) (a : nat)
| OAccept (k : Z) (a : nat)
| OTop (n a : nat)
| OSkip (n a : nat)
| OForce (a c1 : nat)                       (* eval(), size(), [i], = : materialise *)
| OWindows (n a : nat)                      (* combineN(n, w->w): one object per window *)
| OMovWin (a c1 : nat)                      (* movingWindow(e->e): one object per window *)
| OGuard (v : Z) (a : nat)                  (* map(e->e+0%(e-v)): lazy, fails on elements equal to v *)
| OStage (st : stage) (a b : nat)           (* merge, cross, combine, ... : a lazy object over a (and b) *)
| OBuild (c0 : nat) (script : list bstep)   (* a list built in a private slice and handed to NewList once *)
| OEvalFail (a k : nat).                    (* a materialisation of a (size(), eval(), [i], =, order ...) that is aborted
                                               by an error after k elements and survived by the caller *)

Arguments OLit xs%Z c%nat.
Arguments ONumbers n%nat.
Arguments OAppend a%nat x%Z c1%nat c2%nat.
Arguments OSet a%nat i%nat x%Z c1%nat.
Arguments OReverse a%nat c1%nat.
Arguments OOrder a%nat c1%nat.
Arguments OConcat a%nat b%nat.
Arguments OMap k%Z a%nat.
Arguments OAccept k%Z a%nat.
Arguments OTop n%nat a%nat.
Arguments OSkip n%nat a%nat.
Arguments OForce a%nat c1%nat.
Arguments OWindows n%nat a%nat.
Arguments OMovWin a%nat c1%nat.
Arguments OGuard v%Z a%nat.
Arguments OStage st a%nat b%nat.
Arguments OEvalFail a%nat k%nat.
Arguments OBuild c0%nat script.

Definition lazy_add (h : heap) (p : producer) : heap := add_obj h (mkO nil_slice false p).

Definition do_append (h : heap) (a : nat) (x : val) (c1 c2 : nat) : heap :=
  let h1 := eval_obj h a c1 in
  match get_obj h1 a with
  | None => h
  | Some ob =>
      let s := o_items ob in
      let '(arrs2, ns) := go_append (h_arrs h1) s x c2 in
      (* `if len(l.items) != cap(l.items) { l.items = l.items[:len:len] }` *)
      let parent := if s_len s =? s_cap s then ob
                    else mkO (mkS (s_arr s) (s_off s) (s_len s) (s_len s)) (o_present ob) (o_iter ob) in
      mkH arrs2 (set_nth (h_objs h1) a parent ++ [new_list ns])
  end.

(* CopyToSlice + in-place change of the private copy + NewList(copy...) *)
Definition do_copy_with (h : heap) (a c1 : nat) (f : list val -> option (list val)) : heap :=
  let h1 := eval_obj h a c1 in
  match get_obj h1 a with
  | None => h
  | Some ob =>
      match f (rd_slice (h_arrs h1) (o_items ob)) with
      | Some ys => add_fresh h1 ys 0
      | None => h1                         (* the operation returned an error after the Eval *)
      end
  end.

Definition do_movwin (h : heap) (a c1 : nat) : heap :=
  let h1 := eval_obj h a c1 in
  match get_obj h1 a with
  | None => h
  | Some ob =>
      let s := o_items ob in
      let xs := rd_slice (h_arrs h1) s in
      fold_left (fun hh be => add_obj hh (new_list (mkS (s_arr s) (s_off s + fst be) (snd be - fst be) (snd be - fst be))))
                (mw_bounds xs xs 0 0) h1
  end.

Definition step (h : heap) (o : op) : heap :=
  match o with
  | OLit xs c => add_fresh h xs c
  | ONumbers n => lazy_add h (PNumbers n)
  | OAppend a x c1 c2 => do_append h a x c1 c2
  | OSet a i x c1 => do_copy_with h a c1 (fun l => if i <? length l then Some (set_nth l i x) else None)
  | OReverse a c1 => do_copy_with h a c1 (fun l => Some (rev l))
  | OOrder a c1 => do_copy_with h a c1 (fun l => Some (sort_vals l))
  | OConcat a b => if (a <? nobjs h) && (b <? nobjs h) then lazy_add h (PConcat a b) else h
  | OMap k a => if a <? nobjs h then lazy_add h (PMap k a) else h
  | OAccept k a => if a <? nobjs h then lazy_add h (PAccept k a) else h
  | OTop n a => if a <? nobjs h then lazy_add h (PTop n a) else h
  | OSkip n a => if a <? nobjs h then lazy_add h (PSkip n a) else h
  | OForce a c1 => eval_obj h a c1
  | OWindows n a =>
      (* after the repair each window is a private copy (make + copy) of the ring buffer *)
      if a <? nobjs h then fold_left (fun hh w => add_fresh hh w 0) (windows_of n (icontent h a)) h else h
  | OMovWin a c1 => do_movwin h a c1
  | OGuard v a => if a <? nobjs h then lazy_add h (PGuard v a) else h
  | OStage st a b => if (a <? nobjs h) && (b <? nobjs h) then lazy_add h (PStage st a b) else h
  | OBuild c0 script =>
      let '(arrs', s) := builder_run (h_arrs h) c0 script in mkH arrs' (h_objs h ++ [new_list s])
  | OEvalFail a k =>
      (* List.Eval: `var it []Value; for v, err := range l.iterable { if err != nil { return err }; it = append(it, v) }`
         the k elements collected so far sit in a backing array nobody refers to; no field of l was written *)
      if a <? nobjs h then mkH (h_arrs h ++ [firstn k (icontent h a)]) (h_objs h) else h
  end.

Definition run_from (h : heap) (ops : list op) : heap := fold_left step ops h.
Definition run (ops : list op) : heap := run_from empty_heap ops.

(* combineN BEFORE the repair (pinned commit): `st.Push(NewList(i...))` with i the iterator's ring buffer:
   every window object aliases the one buffer that later iterations keep writing to. *)
Fixpoint ring_alias (n : nat) (xs : list val) (h : heap) (buf pos cnt : nat) : heap :=
  match xs with
  | [] => h
  | x :: r =>
      let h1 := mkH (write (h_arrs h) buf pos x) (h_objs h) in
      let pos' := if S pos =? n then 0 else S pos in
      let cnt' := if cnt <? n then S cnt else cnt in
      if cnt' =? n then ring_alias n r (add_obj h1 (new_list (mkS buf 0 n n))) buf pos' cnt'
      else ring_alias n r h1 buf pos' cnt'
  end.
Definition windows_alias (h : heap) (n a : nat) : heap :=
  if (a <? nobjs h) && negb (n =? 0) then
    ring_alias n (icontent h a) (mkH (h_arrs h ++ [repeat 0%Z n]) (h_objs h)) (length (h_arrs h)) 0 0
  else h.

(* ------------------------------------------------------------------ the invariant (decidable form) *)

Definition slice_ok (arrs : arrays) (s : slice) : Prop :=
  s_len s <= s_cap s /\ s_off s + s_cap s <= length (nth (s_arr s) arrs []).

(* the spare capacity of s is outside everything t can reach:  cap s = len s  \/  sole owner of the spare *)
Definition no_clash (s t : slice) : Prop :=
  s_len s = s_cap s \/ s_arr s <> s_arr t \/ s_off s + s_cap s <= s_off t \/ s_off t + s_cap t <= s_off s + s_len s.

Definition lazy_ok (i : nat) (p : producer) : Prop :=
  match p with
  | PSlice _ _ _ => False
  | PNumbers _ => True
  | PConcat a b => a < i /\ b < i
  | PMap _ a | PAccept _ a | PTop _ a | PSkip _ a | PGuard _ a => a < i
  | PStage _ a b => a < i /\ b < i
  end.

Definition obj_ok (arrs : arrays) (i : nat) (ob : lobj) : Prop :=
  slice_ok arrs (o_items ob) /\
  if o_present ob then o_iter ob = PSlice (s_arr (o_items ob)) (s_off (o_items ob)) (s_len (o_items ob))
  else o_items ob = nil_slice /\ lazy_ok i (o_iter ob).

Definition inv (h : heap) : Prop :=
  (forall i ob, get_obj h i = Some ob -> obj_ok (h_arrs h) i ob) /\
  (forall i j obi obj, i <> j -> get_obj h i = Some obi -> get_obj h j = Some obj ->
                       no_clash (o_items obi) (o_items obj)).

(* ------------------------------------------------------------------ specification side *)

(* A handle is bound to its content once; operations only ever add handles. *)
Definition pstate := list (list val).

Definition sub_list (xs : list val) (be : nat * nat) : list val := firstn (snd be - fst be) (skipn (fst be) xs).

Definition pstep (ps : pstate) (o : op) : pstate :=
  let get a := nth a ps [] in
  let have a := a <? length ps in
  match o with
  | OLit xs _ => ps ++ [xs]
  | ONumbers n => ps ++ [map Z.of_nat (seq 0 n)]
  | OAppend a x _ _ => if have a then ps ++ [get a ++ [x]] else ps
  | OSet a i x _ => if have a && (i <? length (get a)) then ps ++ [set_nth (get a) i x] else ps
  | OReverse a _ => if have a then ps ++ [rev (get a)] else ps
  | OOrder a _ => if have a then ps ++ [sort_vals (get a)] else ps
  | OConcat a b => if have a && have b then ps ++ [get a ++ get b] else ps
  | OMap k a => if have a then ps ++ [map (Z.add k) (get a)] else ps
  | OAccept k a => if have a then ps ++ [filter (fun e => Z.ltb e k) (get a)] else ps
  | OTop n a => if have a then ps ++ [firstn n (get a)] else ps
  | OSkip n a => if have a then ps ++ [skipn n (get a)] else ps
  | OForce _ _ => ps
  | OWindows n a => if have a then ps ++ windows_of n (get a) else ps
  | OMovWin a _ => if have a then ps ++ map (sub_list (get a)) (mw_bounds (get a) (get a) 0 0) else ps
  | OGuard v a => if have a then ps ++ [map (guard_elem v) (get a)] else ps
  | OStage st a b => if have a && have b then ps ++ [stage_sem st (get a) (get b)] else ps
  | OBuild _ script => ps ++ [content_of script]
  | OEvalFail _ _ => ps
  end.

Definition prun (ops : list op) : pstate := fold_left pstep ops [].

(* the abstraction of a whole heap *)
Definition abs (h : heap) : pstate := ic (h_arrs h) (h_objs h) (nobjs h).
