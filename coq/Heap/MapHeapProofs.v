(* C09 - proofs about the map storage model (Heap/MapHeap.v): the operations of value/map.go never change
   an array cell that an existing map can read; listMap.ListMap.Append on its own does. *)
From P2 Require Import Base.Prelude Heap.ListHeap Heap.ListHeapProofs Heap.MapHeap.
Require Import Lia.
Local Open Scope nat_scope.

(* arrs' keeps every one of the first n arrays of arrs as it is *)
Definition keeps (n : nat) (arrs arrs' : marrays) : Prop :=
  n <= length arrs' /\ forall a, a < n -> nth a arrs' [] = nth a arrs [].

Lemma keeps_refl : forall arrs, keeps (length arrs) arrs arrs.
Proof. intros. split; auto. Qed.

Lemma keeps_trans : forall n a1 a2 a3, keeps n a1 a2 -> keeps n a2 a3 -> keeps n a1 a3.
Proof. intros n a1 a2 a3 [L1 K1] [L2 K2]. split; auto. intros a Ha. rewrite K2, K1; auto. Qed.

Lemma keeps_snoc : forall n arrs x, n <= length arrs -> keeps n arrs (arrs ++ [x]).
Proof. intros n arrs x H. split; [rewrite app_length; lia|]. intros a Ha. apply app_nth1. lia. Qed.

Lemma keeps_mwrite : forall n arrs a i e, n <= length arrs -> n <= a -> keeps n arrs (mwrite arrs a i e).
Proof.
  intros n arrs a i e Hl Ha. unfold mwrite. split; [rewrite set_nth_length; auto|].
  intros b Hb. apply nth_set_nth_neq. lia.
Qed.

Lemma mwrite_length : forall arrs a i e, length (mwrite arrs a i e) = length arrs.
Proof. intros. unfold mwrite. apply set_nth_length. Qed.

(* a storage whose ListMap leaves all live in the first n arrays reads the same in both heaps *)
Lemma store_reads_kept : forall n arrs arrs' m, keeps n arrs arrs' -> store_ok n m ->
  (forall k, mget arrs' m k = mget arrs m k) /\ miter arrs' m = miter arrs m /\ msize arrs' m = msize arrs m.
Proof.
  intros n arrs arrs' m [Hl Hk]. induction m as [l|es|k v p IH|a IHa b IHb|o IHo r IHr d]; intros Hok; cbn in Hok.
  - assert (E : lm_rd arrs' l = lm_rd arrs l) by (unfold lm_rd; rewrite Hk; auto).
    cbn. rewrite E. auto.
  - cbn. auto.
  - destruct (IH Hok) as (G & I & S). cbn. split; [|split]; auto.
    + intros k'. rewrite G. reflexivity.
    + rewrite I. reflexivity.
  - destruct Hok as [Ha Hb]. destruct (IHa Ha) as (Ga & Ia & Sa). destruct (IHb Hb) as (Gb & Ib & Sb).
    cbn. split; [|split].
    + intros k. rewrite Ga, Gb. reflexivity.
    + rewrite Ia, Ib. reflexivity.
    + rewrite Sa, Sb. reflexivity.
  - destruct Hok as [Ho Hr]. destruct (IHo Ho) as (Go & Io & So). destruct (IHr Hr) as (Gr & Ir & Sr).
    cbn. split; [|split]; auto.
    + intros k. rewrite Gr, Go. reflexivity.
    + rewrite Io. apply map_ext. intros e. rewrite Gr. reflexivity.
Qed.

Lemma store_ok_mono : forall n n' m, n <= n' -> store_ok n m -> store_ok n' m.
Proof. intros n n' m H. induction m; cbn; intuition; try lia. Qed.

(* ---- ListMap.Append on a ListMap that lives above the first n arrays (a builder) *)
Lemma lm_append_keeps : forall n arrs l k v c, n <= length arrs -> n <= lm_arr l -> lm_arr l < length arrs ->
  let r := lm_append arrs l k v c in
  keeps n arrs (fst r) /\ length arrs <= length (fst r) /\ n <= lm_arr (snd r) /\ lm_arr (snd r) < length (fst r).
Proof.
  intros n arrs l k v c Hn Hl Hlt. unfold lm_append.
  destruct (find_key k (lm_rd arrs l) 0) as [i|].
  - cbn [fst snd]. rewrite mwrite_length. split; [apply keeps_mwrite; auto|]. lia.
  - destruct (lm_len l <? lm_cap l); cbn [fst snd lm_arr].
    + rewrite mwrite_length. split; [apply keeps_mwrite; auto|]. lia.
    + rewrite app_length. cbn [length]. split; [apply keeps_snoc; auto|]. lia.
Qed.

Lemma lm_build_keeps : forall arrs size es,
  let r := lm_build arrs size es in
  keeps (length arrs) arrs (fst r) /\ lm_arr (snd r) < length (fst r).
Proof.
  intros arrs size es. unfold lm_build.
  set (n := length arrs).
  assert (H0 : keeps n arrs (fst (lm_new arrs size)) /\ n <= length (fst (lm_new arrs size)) /\
               n <= lm_arr (snd (lm_new arrs size)) /\ lm_arr (snd (lm_new arrs size)) < length (fst (lm_new arrs size))).
  { unfold lm_new. cbn [fst snd lm_arr]. rewrite app_length. cbn [length]. fold n. split; [apply keeps_snoc; lia|]. lia. }
  revert H0. generalize (lm_new arrs size). induction es as [|e es IH]; intros st (K & L & A & B); cbn [fold_left].
  - split; auto.
  - apply IH.
    destruct (lm_append_keeps n (fst st) (snd st) (fst e) (snd e) 0 L A B) as (K2 & L2 & A2 & B2).
    split; [eapply keeps_trans; eauto|]. lia.
Qed.

(* ---- a whole builder script, with arbitrary growth decisions *)
Lemma str_eqb_eq : forall a b, str_eqb a b = true -> a = b.
Proof.
  induction a as [|x a IH]; intros [|y b] H; cbn in H; try discriminate; auto.
  apply andb_prop in H. destruct H as [H1 H2]. apply N.eqb_eq in H1. subst. f_equal. auto.
Qed.

Lemma find_put : forall es k v i,
  match find_key k es i with
  | Some j => i <= j /\ j - i < length es /\ pl_put es k v = set_nth es (j - i) (k, v)
  | None => pl_put es k v = es ++ [(k, v)]
  end.
Proof.
  induction es as [|[k' v'] es IH]; intros k v i; cbn [find_key pl_put]; auto.
  destruct (str_eqb k' k) eqn:E.
  - apply str_eqb_eq in E. subst. rewrite Nat.sub_diag. cbn. repeat split; auto; lia.
  - specialize (IH k v (S i)). destruct (find_key k es (S i)) as [j|].
    + destruct IH as (H1 & H2 & H3). split; [lia|]. split; [cbn; lia|].
      replace (j - i) with (S (j - S i)) by lia. cbn. rewrite H3. reflexivity.
    + cbn. rewrite IH. reflexivity.
Qed.

Lemma firstn_set_nth : forall A (l : list A) n i x, firstn n (set_nth l i x) = set_nth (firstn n l) i x.
Proof.
  induction l as [|y l IH]; intros [|n] [|i] x; cbn; auto. f_equal. apply IH.
Qed.

Lemma firstn_S_set_nth : forall A (l : list A) n x, n < length l -> firstn (S n) (set_nth l n x) = firstn n l ++ [x].
Proof.
  induction l as [|y l IH]; intros [|n] x H; cbn in *; try lia; auto. f_equal. apply IH. lia.
Qed.

(* the builder's ListMap lives above the first n arrays, is well formed and holds es *)
Definition lmstate_ok (n : nat) (arrs0 : marrays) (st : marrays * lm) (es : list entry) : Prop :=
  keeps n arrs0 (fst st) /\ n <= lm_arr (snd st) /\ lm_arr (snd st) < length (fst st) /\
  lm_len (snd st) <= lm_cap (snd st) /\ lm_cap (snd st) <= length (nth (lm_arr (snd st)) (fst st) []) /\
  lm_rd (fst st) (snd st) = es.

Lemma mbstep_ok : forall n arrs0 st es k v c,
  lmstate_ok n arrs0 st es -> lmstate_ok n arrs0 (lm_append (fst st) (snd st) k v c) (pl_put es k v).
Proof.
  intros n arrs0 [arrs l] es k v c (K & Hn & Hlt & Hlc & Hcl & Hrd). cbn [fst snd] in *.
  assert (Hnl : n <= length arrs) by lia.
  assert (Hlen : length es = lm_len l).
  { rewrite <- Hrd. unfold lm_rd. rewrite firstn_length. lia. }
  unfold lm_append. rewrite Hrd. pose proof (find_put es k v 0) as Hf.
  destruct (find_key k es 0) as [j|].
  - destruct Hf as (_ & Hj & Hp). rewrite Nat.sub_0_r in Hj, Hp.
    unfold lmstate_ok. cbn [fst snd]. split; [|split; [|split; [|split; [|split]]]]; auto.
    + eapply keeps_trans; [exact K|]. apply keeps_mwrite; auto.
    + rewrite mwrite_length. auto.
    + unfold mwrite. rewrite nth_set_nth_eq by auto. rewrite set_nth_length. auto.
    + unfold lm_rd, mwrite. rewrite nth_set_nth_eq by auto. rewrite firstn_set_nth.
      unfold lm_rd in Hrd. rewrite Hrd. auto.
  - destruct (lm_len l <? lm_cap l) eqn:E.
    + apply Nat.ltb_lt in E. unfold lmstate_ok. cbn [fst snd lm_arr lm_len lm_cap].
      split; [|split; [|split; [|split; [|split]]]]; auto.
      * eapply keeps_trans; [exact K|]. apply keeps_mwrite; auto.
      * rewrite mwrite_length. auto.
      * unfold mwrite. rewrite nth_set_nth_eq by auto. rewrite set_nth_length. auto.
      * unfold lm_rd, mwrite. cbn [lm_arr lm_len]. rewrite nth_set_nth_eq by auto.
        rewrite firstn_S_set_nth by lia. unfold lm_rd in Hrd. rewrite Hrd. auto.
    + apply Nat.ltb_ge in E. unfold lmstate_ok. cbn [fst snd lm_arr lm_len lm_cap].
      split; [|split; [|split; [|split; [|split]]]].
      * eapply keeps_trans; [exact K|]. apply keeps_snoc; auto.
      * lia.
      * rewrite app_length. cbn. lia.
      * lia.
      * rewrite app_nth2 by lia. rewrite Nat.sub_diag. cbn [nth]. rewrite app_length. cbn [length].
        rewrite repeat_length, Hlen. lia.
      * unfold lm_rd at 1. cbn [lm_arr lm_len]. rewrite app_nth2 by lia. rewrite Nat.sub_diag. cbn [nth].
        rewrite firstn_app, Hlen. replace (S (lm_len l) - lm_len l) with 1 by lia.
        rewrite firstn_all2 by lia. cbn. rewrite Hf. reflexivity.
Qed.

Lemma pl_build_fold : forall script acc,
  fold_left (fun a b => match b with MBAppend k v _ => pl_put a k v end) script acc =
  fold_left (fun acc e => pl_put acc (fst e) (snd e)) (script_entries script) acc.
Proof. induction script as [|[k v c] script IH]; intros acc; cbn; auto. Qed.

Lemma lm_script_ok : forall arrs size script,
  let r := lm_script arrs size script in
  keeps (length arrs) arrs (fst r) /\ length arrs <= lm_arr (snd r) /\ lm_arr (snd r) < length (fst r) /\
  lm_rd (fst r) (snd r) = pl_build (script_entries script).
Proof.
  intros arrs size script. unfold lm_script, pl_build. rewrite <- pl_build_fold.
  assert (H0 : lmstate_ok (length arrs) arrs (lm_new arrs size) []).
  { unfold lmstate_ok, lm_new. cbn [fst snd lm_arr lm_len lm_cap].
    split; [apply keeps_snoc; lia|]. split; [lia|]. split; [rewrite app_length; cbn; lia|]. split; [lia|].
    split; [rewrite app_nth2 by lia; rewrite Nat.sub_diag; cbn; rewrite repeat_length; lia|reflexivity]. }
  revert H0. generalize (lm_new arrs size). generalize (@nil entry).
  induction script as [|[k v c] script IH]; intros es st H; cbn [fold_left].
  - destruct H as (K & Hn & Hlt & _ & _ & Hrd). auto.
  - apply IH. cbn [mbstep_run]. apply mbstep_ok. auto.
Qed.

(* ---- every operation of value/map.go *)
Definition mgood (h h' : mheap) : Prop :=
  mwf h' /\ keeps (length (mh_arrs h)) (mh_arrs h) (mh_arrs h') /\
  forall i m, get_map h i = Some m -> get_map h' i = Some m.

Lemma mgood_refl : forall h, mwf h -> mgood h h.
Proof. intros. split; auto. split; auto. apply keeps_refl. Qed.

Lemma keeps_le : forall n n' a a', n <= n' -> keeps n' a a' -> keeps n a a'.
Proof. intros n n' a a' H [L K]. split; [lia|]. intros. apply K. lia. Qed.

Lemma mgood_trans : forall h1 h2 h3, mgood h1 h2 -> mgood h2 h3 -> mgood h1 h3.
Proof.
  intros h1 h2 h3 (W2 & K2 & G2) (W3 & K3 & G3). split; auto. split; auto.
  eapply keeps_trans; eauto. eapply keeps_le; [|eauto]. destruct K2. auto.
Qed.

Lemma add_map_good : forall h arrs' m, mwf h -> keeps (length (mh_arrs h)) (mh_arrs h) arrs' ->
  store_ok (length arrs') m -> mgood h (add_map h arrs' m).
Proof.
  intros h arrs' m Hw Hk Hm. split; [|split]; auto.
  - intros i m' Hg. unfold get_map, add_map in Hg. cbn in Hg.
    destruct (nth_error_snoc_inv _ _ _ _ _ Hg) as [[_ Hg']|[_ ->]]; cbn; auto.
    eapply store_ok_mono; [|apply (Hw _ _ Hg')]. destruct Hk. auto.
  - intros i m' Hg. unfold get_map, add_map. cbn. apply nth_error_snoc_old. exact Hg.
Qed.

Lemma mstep_good : forall h o, mwf h -> mgood h (mstep h o).
Proof.
  intros h o Hw. destruct o; cbn [mstep].
  - pose proof (lm_build_keeps (mh_arrs h) (length es) es) as [K B].
    destruct (lm_build (mh_arrs h) (length es) es) as [arrs' l]. apply add_map_good; auto.
  - pose proof (lm_build_keeps (mh_arrs h) size es) as [K B].
    destruct (lm_build (mh_arrs h) size es) as [arrs' l]. apply add_map_good; auto.
  - destruct (get_map h a) as [m|] eqn:Hg; [|apply mgood_refl; auto].
    destruct (has_key (mh_arrs h) m k); [apply mgood_refl; auto|].
    apply add_map_good; auto; [apply keeps_refl|]. cbn. apply (Hw _ _ Hg).
  - destruct (get_map h a) as [ma|] eqn:Ha; [|apply mgood_refl; auto].
    destruct (get_map h b) as [mb|] eqn:Hb; [|apply mgood_refl; auto].
    destruct (existsb _ _); [apply mgood_refl; auto|].
    apply add_map_good; auto; [apply keeps_refl|]. cbn. split; [apply (Hw _ _ Ha)|apply (Hw _ _ Hb)].
  - destruct (get_map h a) as [m|] eqn:Hg; [|apply mgood_refl; auto].
    pose proof (lm_build_keeps (mh_arrs h) 1 [(k, v)]) as [K B].
    destruct (lm_build (mh_arrs h) 1 [(k, v)]) as [arrs1 l]. cbn [fst snd] in K, B.
    assert (Hm1 : store_ok (length arrs1) m).
    { eapply store_ok_mono; [|apply (Hw _ _ Hg)]. destruct K. auto. }
    destruct (10 <=? Nat.max (depth_of m) (depth_of (SList l))).
    + destruct (20 <? _).
      * apply add_map_good; auto. cbn. auto.
      * match goal with |- context [lm_build arrs1 ?s ?es] =>
          pose proof (lm_build_keeps arrs1 s es) as [K2 B2]; destruct (lm_build arrs1 s es) as [arrs2 l2] end.
        cbn [fst snd] in K2, B2. apply add_map_good; auto.
        eapply keeps_trans; eauto. eapply keeps_le; [|eauto]. destruct K. auto.
    + apply add_map_good; auto. cbn. split; auto.
  - destruct (get_map h a) as [m|] eqn:Hg; [|apply mgood_refl; auto].
    match goal with |- context [lm_build ?a ?s ?es] =>
      pose proof (lm_build_keeps a s es) as [K B]; destruct (lm_build a s es) as [arrs' l] end.
    apply add_map_good; auto.
  - destruct (get_map h a) as [m|] eqn:Hg; [|apply mgood_refl; auto].
    match goal with |- context [lm_build ?a ?s ?es] =>
      pose proof (lm_build_keeps a s es) as [K B]; destruct (lm_build a s es) as [arrs' l] end.
    apply add_map_good; auto.
  - destruct (get_map h a) as [m|] eqn:Hg; [|apply mgood_refl; auto].
    apply add_map_good; auto; [apply keeps_refl|]. cbn. auto.
  - pose proof (lm_script_ok (mh_arrs h) size script) as (K & Hn & B & _).
    destruct (lm_script (mh_arrs h) size script) as [arrs' l]. apply add_map_good; auto.
Qed.

Lemma mwf_empty : mwf empty_mheap.
Proof. intros i m H. unfold get_map in H. cbn in H. destruct i; discriminate. Qed.

Lemma mrun_from_good : forall ops h, mwf h -> mgood h (fold_left mstep ops h).
Proof.
  induction ops as [|o ops IH]; intros h Hw; cbn [fold_left]; [apply mgood_refl; auto|].
  pose proof (mstep_good h o Hw) as Hg. pose proof Hg as (Hw' & _).
  eapply mgood_trans; eauto.
Qed.

(* what a handle shows does not depend on anything that happens later *)
Lemma mgood_reads : forall h h' i m, mwf h -> mgood h h' -> get_map h i = Some m ->
  get_map h' i = Some m /\
  (forall k, mget (mh_arrs h') m k = mget (mh_arrs h) m k) /\
  miter (mh_arrs h') m = miter (mh_arrs h) m /\
  msize (mh_arrs h') m = msize (mh_arrs h) m /\
  mcontent (mh_arrs h') m = mcontent (mh_arrs h) m.
Proof.
  intros h h' i m Hw (Hw' & K & G) Hg. split; [apply G; auto|].
  destruct (store_reads_kept _ _ _ m K (Hw _ _ Hg)) as (Hget & Hit & Hsz).
  repeat split; auto. unfold mcontent. rewrite Hit. reflexivity.
Qed.

Lemma map_step_preserves_lemma : forall h o i m, mwf h -> get_map h i = Some m ->
  mwf (mstep h o) /\ get_map (mstep h o) i = Some m /\
  (forall k, mget (mh_arrs (mstep h o)) m k = mget (mh_arrs h) m k) /\
  miter (mh_arrs (mstep h o)) m = miter (mh_arrs h) m /\
  msize (mh_arrs (mstep h o)) m = msize (mh_arrs h) m /\
  mcontent (mh_arrs (mstep h o)) m = mcontent (mh_arrs h) m.
Proof.
  intros h o i m Hw Hg. pose proof (mstep_good h o Hw) as Hgd. split; [destruct Hgd; auto|].
  apply (mgood_reads h (mstep h o) i m Hw Hgd Hg).
Qed.

Lemma mrun_wf : forall ops, mwf (mrun ops).
Proof. intros. destruct (mrun_from_good ops empty_mheap mwf_empty) as (H & _). exact H. Qed.

Lemma map_history_persistent_lemma : forall ops more i m, get_map (mrun ops) i = Some m ->
  get_map (mrun (ops ++ more)) i = Some m /\
  (forall k, mget (mh_arrs (mrun (ops ++ more))) m k = mget (mh_arrs (mrun ops)) m k) /\
  miter (mh_arrs (mrun (ops ++ more))) m = miter (mh_arrs (mrun ops)) m /\
  msize (mh_arrs (mrun (ops ++ more))) m = msize (mh_arrs (mrun ops)) m /\
  mcontent (mh_arrs (mrun (ops ++ more))) m = mcontent (mh_arrs (mrun ops)) m.
Proof.
  intros ops more i m Hg. unfold mrun in *. rewrite fold_left_app.
  apply mgood_reads; auto; [apply mrun_wf|]. apply mrun_from_good. apply mrun_wf.
Qed.

(* ---- listMap.ListMap.Append itself is not persistent *)
Lemma lm_append_overwrites_refuted_lemma :
  exists arrs l k v c, lm_rd (fst (lm_append arrs l k v c)) l <> lm_rd arrs l.
Proof.
  exists [[([97%N], 1%Z)]], (mkLM 0 1 1), [97%N], 2%Z, 0. vm_compute. discriminate.
Qed.

(* two appends to one ListMap with spare capacity: the second one changes what the first result shows *)
Lemma lm_append_siblings_refuted_lemma :
  exists arrs l k1 v1 k2 v2 c,
    let r1 := lm_append arrs l k1 v1 c in
    let r2 := lm_append (fst r1) l k2 v2 c in
    lm_rd (fst r2) (snd r1) <> lm_rd (fst r1) (snd r1).
Proof.
  exists [[([97%N], 1%Z); dummy_entry]], (mkLM 0 1 2), [98%N], 2%Z, [99%N], 3%Z, 0. vm_compute. discriminate.
Qed.

(* ... but it is when the ListMap it is applied to is not (part of) any live map: the partial theorem *)
Lemma lm_append_builder_partial_lemma : forall h l k v c i m,
  mwf h -> get_map h i = Some m ->
  length (mh_arrs h) <= lm_arr l ->            (* side condition: l lives in an array created after every live map *)
  forall arrs0, keeps (length (mh_arrs h)) (mh_arrs h) arrs0 -> lm_arr l < length arrs0 ->
  let arrs' := fst (lm_append arrs0 l k v c) in
  miter arrs' m = miter (mh_arrs h) m /\ (forall k', mget arrs' m k' = mget (mh_arrs h) m k').
Proof.
  intros h l k v c i m Hw Hg Hl arrs0 K0 Hlt arrs'.
  destruct K0 as [L0 K0'].
  destruct (lm_append_keeps (length (mh_arrs h)) arrs0 l k v c L0 Hl Hlt) as (K1 & _).
  assert (K : keeps (length (mh_arrs h)) (mh_arrs h) arrs').
  { eapply keeps_trans; [split; eauto|exact K1]. }
  destruct (store_reads_kept _ _ _ m K (Hw _ _ Hg)) as (G & I & _). auto.
Qed.

(* ---- the builder theorem for maps: any script of ListMap.Append on a private ListMap *)
Lemma listmap_builder_script_lemma : forall h size script, mwf h ->
  let r := lm_script (mh_arrs h) size script in
  let h' := mstep h (MScript size script) in
  (* every existing map reads the same from the builder's heap at the end of the script ... *)
  (forall i m, get_map h i = Some m ->
     get_map h' i = Some m /\ (forall k, mget (fst r) m k = mget (mh_arrs h) m k) /\
     miter (fst r) m = miter (mh_arrs h) m /\ msize (fst r) m = msize (mh_arrs h) m) /\
  (* ... the arrays that existed are untouched and the builder's ListMap lives in a new one ... *)
  keeps (length (mh_arrs h)) (mh_arrs h) (fst r) /\ length (mh_arrs h) <= lm_arr (snd r) /\
  (* ... it holds exactly what the script put (last value wins, position of the first put) ... *)
  lm_rd (fst r) (snd r) = pl_build (script_entries script) /\
  (* ... and handing it to NewMap is a well-formed heap with one more handle showing these entries *)
  mwf h' /\ get_map h' (nmaps h) = Some (SList (snd r)) /\
  mcontent (mh_arrs h') (SList (snd r)) = sort_entries (pl_build (script_entries script)).
Proof.
  intros h size script Hw r h'.
  pose proof (lm_script_ok (mh_arrs h) size script) as (K & Hn & B & Hrd). fold r in K, Hn, B, Hrd.
  pose proof (mstep_good h (MScript size script) Hw) as (Hw' & K' & G). fold h' in Hw', K', G.
  assert (E : h' = add_map h (fst r) (SList (snd r))).
  { unfold h'. cbn [mstep]. fold r. destruct r. reflexivity. }
  split; [|split; [|split; [|split; [|split; [|split]]]]]; auto.
  - intros i m Hg. split; [apply G; auto|]. apply (store_reads_kept _ _ _ m K (Hw _ _ Hg)).
  - rewrite E. unfold get_map, add_map, nmaps. cbn. rewrite nth_error_app2 by lia. rewrite Nat.sub_diag. reflexivity.
  - rewrite E. unfold mcontent, add_map. cbn. rewrite Hrd. reflexivity.
Qed.
