(* Proofs about Heap/FuncState.v: every step of an evaluation is a `good` heap step (C09: invariant kept, objects
   only added, nobody's content changes) and, on a frozen heap, leaves the shared part of the heap untouched;
   an evaluation's outcome is determined by (program, arguments, CONTENT of the constants) - never by their
   representation - under arbitrary interference by other good steps; hence history independence (C10) and,
   in Heap/ConcurrentProofs.v, schedule independence (C11). *)
From P2 Require Import Base.Prelude Heap.ListHeap Heap.ListHeapProofs Heap.FuncState.
Require Import Lia.
Local Open Scope nat_scope.

(* ------------------------------------------------------------------ list facts *)

Lemma firstn_set_nth_ge : forall A (l : list A) i x n, n <= i -> firstn n (set_nth l i x) = firstn n l.
Proof.
  induction l as [|y l IH]; intros [|i] x [|n] H; cbn; auto; try lia. f_equal. apply IH. lia.
Qed.

Lemma firstn_snoc_le : forall A (l : list A) x n, n <= length l -> firstn n (l ++ [x]) = firstn n l.
Proof.
  intros. rewrite firstn_app. replace (n - length l) with 0 by lia. cbn. apply app_nil_r.
Qed.

Lemma firstn_write_ge : forall arrs a i v n, n <= a -> firstn n (write arrs a i v) = firstn n arrs.
Proof. intros. unfold write. apply firstn_set_nth_ge. auto. Qed.

Lemma nth_error_firstn_lt : forall A (l : list A) n i, i < n -> nth_error (firstn n l) i = nth_error l i.
Proof.
  induction l as [|y l IH]; intros [|n] [|i] H; cbn; auto; try lia. apply IH. lia.
Qed.

Lemma get_obj_firstn : forall h h' n o, firstn n (h_objs h') = firstn n (h_objs h) -> o < n ->
  get_obj h' o = get_obj h o.
Proof.
  intros h h' n o H Ho. unfold get_obj.
  rewrite <- (nth_error_firstn_lt _ (h_objs h') n o Ho). rewrite H. apply nth_error_firstn_lt. auto.
Qed.

Lemma get_obj_snoc_old : forall h ob o x, get_obj h o = Some ob -> get_obj (mkH (h_arrs h) (h_objs h ++ [x])) o = Some ob.
Proof. intros. unfold get_obj in *. cbn. apply nth_error_snoc_old. auto. Qed.

(* ------------------------------------------------------------------ the step guarantee *)

Definition fzpres (n0 a0 : nat) (h h' : heap) : Prop := fz n0 a0 h -> shared_same n0 a0 h h' /\ fz n0 a0 h'.

Definition gstep (n0 a0 : nat) (h h' : heap) : Prop := good h h' /\ fzpres n0 a0 h h'.

Lemma shared_same_refl : forall n0 a0 h, shared_same n0 a0 h h.
Proof. split; reflexivity. Qed.

Lemma shared_same_trans : forall n0 a0 h1 h2 h3,
  shared_same n0 a0 h1 h2 -> shared_same n0 a0 h2 h3 -> shared_same n0 a0 h1 h3.
Proof. intros n0 a0 h1 h2 h3 [A B] [C D]. split; congruence. Qed.

Lemma fzpres_refl : forall n0 a0 h, fzpres n0 a0 h h.
Proof. intros n0 a0 h F. split; auto. apply shared_same_refl. Qed.

Lemma fzpres_trans : forall n0 a0 h1 h2 h3, fzpres n0 a0 h1 h2 -> fzpres n0 a0 h2 h3 -> fzpres n0 a0 h1 h3.
Proof.
  intros n0 a0 h1 h2 h3 A B F. destruct (A F) as [S1 F2]. destruct (B F2) as [S2 F3].
  split; auto. eapply shared_same_trans; eauto.
Qed.

Lemma gstep_refl : forall n0 a0 h, inv h -> gstep n0 a0 h h.
Proof. intros. split; [apply good_refl; auto|apply fzpres_refl]. Qed.

Lemma gstep_trans : forall n0 a0 h1 h2 h3, gstep n0 a0 h1 h2 -> gstep n0 a0 h2 h3 -> gstep n0 a0 h1 h3.
Proof.
  intros n0 a0 h1 h2 h3 [G1 F1] [G2 F2]. split; [eapply good_trans; eauto|eapply fzpres_trans; eauto].
Qed.

(* frozen only looks at the shared objects *)
Lemma frozen_same : forall n0 h h', firstn n0 (h_objs h') = firstn n0 (h_objs h) -> frozen n0 h -> frozen n0 h'.
Proof.
  intros n0 h h' E F o ob Ho Hg. rewrite (get_obj_firstn h h' n0 o E Ho) in Hg. apply (F o ob Ho Hg).
Qed.

(* ---- adding a lazy object *)
Lemma fzpres_add_lazy : forall n0 a0 h p, fzpres n0 a0 h (add_obj h (mkO nil_slice false p)).
Proof.
  intros n0 a0 h p (Fr & Hn & Ha & Pr).
  assert (E : firstn n0 (h_objs h ++ [mkO nil_slice false p]) = firstn n0 (h_objs h)).
  { apply firstn_snoc_le. exact Hn. }
  split; [split; [exact E|reflexivity]|].
  split; [eapply frozen_same; [exact E|exact Fr]|].
  split; [unfold nobjs, add_obj; cbn; rewrite app_length; cbn; unfold nobjs in Hn; lia|].
  split; [exact Ha|].
  intros o ob Ho Hg Hp. unfold get_obj, add_obj in Hg. cbn in Hg.
  destruct (nth_error_snoc_inv _ _ _ _ _ Hg) as [[_ Hold]|[_ Hnew]].
  - apply (Pr o ob Ho Hold Hp).
  - subst ob. cbn in Hp. discriminate.
Qed.

(* ---- adding a fresh array with its owner *)
Lemma fzpres_add_fresh : forall n0 a0 h xs c, fzpres n0 a0 h (add_fresh h xs c).
Proof.
  intros n0 a0 h xs c (Fr & Hn & Ha & Pr). unfold add_fresh.
  set (x := new_list _). set (ar := _ ++ repeat _ _).
  assert (E : firstn n0 (h_objs h ++ [x]) = firstn n0 (h_objs h)) by (apply firstn_snoc_le; exact Hn).
  assert (E2 : firstn a0 (h_arrs h ++ [ar]) = firstn a0 (h_arrs h)) by (apply firstn_snoc_le; exact Ha).
  split; [split; [exact E|exact E2]|].
  split; [eapply frozen_same; [exact E|exact Fr]|].
  split; [unfold nobjs; cbn; rewrite app_length; cbn; unfold nobjs in Hn; lia|].
  split; [cbn; rewrite app_length; cbn; lia|].
  intros o ob Ho Hg Hp. unfold get_obj in Hg. cbn in Hg.
  destruct (nth_error_snoc_inv _ _ _ _ _ Hg) as [[_ Hold]|[_ Hnew]].
  - apply (Pr o ob Ho Hold Hp).
  - subst ob. right. unfold x. cbn. exact Ha.
Qed.

(* ---- List.Eval: a shared object of a frozen heap is materialised already; a private one gets a private array *)
Lemma fzpres_eval_obj : forall n0 a0 h o c, fzpres n0 a0 h (eval_obj h o c).
Proof.
  intros n0 a0 h o c F. pose proof F as (Fr & Hn & Ha & Pr). unfold eval_obj.
  destruct (get_obj h o) as [ob|] eqn:Hg; [|split; [apply shared_same_refl|exact F]].
  destruct (o_present ob) eqn:Hp; [split; [apply shared_same_refl|exact F]|].
  assert (Hge : n0 <= o).
  { destruct (Nat.lt_ge_cases o n0) as [Hlt|Hge]; auto.
    destruct (Fr o ob Hlt Hg) as [Hp' _]. congruence. }
  set (nl := new_list _). set (ar := _ ++ repeat _ _).
  assert (E : firstn n0 (set_nth (h_objs h) o nl) = firstn n0 (h_objs h)) by (apply firstn_set_nth_ge; exact Hge).
  assert (E2 : firstn a0 (h_arrs h ++ [ar]) = firstn a0 (h_arrs h)) by (apply firstn_snoc_le; exact Ha).
  split; [split; [exact E|exact E2]|].
  split; [eapply frozen_same; [exact E|exact Fr]|].
  split; [unfold nobjs; cbn; rewrite set_nth_length; exact Hn|].
  split; [cbn; rewrite app_length; cbn; lia|].
  intros i obi Hi Hgi Hpi. unfold get_obj in Hgi. cbn in Hgi.
  destruct (Nat.eq_dec i o) as [->|Hne].
  - rewrite nth_error_set_nth_eq in Hgi by (apply (get_obj_lt _ _ _ Hg)). inversion Hgi. subst obi.
    right. unfold nl. cbn. exact Ha.
  - rewrite nth_error_set_nth_neq in Hgi by auto. apply (Pr i obi Hi Hgi Hpi).
Qed.

(* ---- List.Append on a materialised receiver *)
Lemma fzpres_append_core : forall n0 a0 h a ob x c2, get_obj h a = Some ob -> o_present ob = true ->
  fzpres n0 a0 h (append_core h a ob x c2).
Proof.
  intros n0 a0 h a ob x c2 Hg Hp F. pose proof F as (Fr & Hn & Ha & Pr).
  pose proof (get_obj_lt _ _ _ Hg) as Hlt.
  unfold append_core, go_append.
  destruct (s_len (o_items ob) <? s_cap (o_items ob)) eqn:Hlc.
  - (* spare capacity: the receiver is private (a shared one would have cap = len) *)
    apply Nat.ltb_lt in Hlc.
    assert (Hge : n0 <= a).
    { destruct (Nat.lt_ge_cases a n0) as [Hl|Hge]; auto. destruct (Fr a ob Hl Hg) as [_ Hc]. lia. }
    assert (Har : a0 <= s_arr (o_items ob)).
    { destruct (Pr a ob Hge Hg Hp) as [Hc|Hc]; [lia|exact Hc]. }
    replace (s_len (o_items ob) =? s_cap (o_items ob)) with false by (symmetry; apply Nat.eqb_neq; lia).
    set (parent := mkO _ _ _). set (nl := new_list _).
    assert (E : firstn n0 (set_nth (h_objs h) a parent ++ [nl]) = firstn n0 (h_objs h)).
    { rewrite firstn_snoc_le by (rewrite set_nth_length; exact Hn). apply firstn_set_nth_ge. exact Hge. }
    split; [split; [exact E|apply firstn_write_ge; exact Har]|].
    split; [eapply frozen_same; [exact E|exact Fr]|].
    split; [unfold nobjs; cbn; rewrite app_length, set_nth_length; cbn; unfold nobjs in Hn; lia|].
    split; [cbn; rewrite write_length; exact Ha|].
    intros i obi Hi Hgi Hpi. unfold get_obj in Hgi. cbn in Hgi.
    destruct (nth_error_snoc_inv _ _ _ _ _ Hgi) as [[_ Hold]|[_ Hnew]].
    + destruct (Nat.eq_dec i a) as [->|Hne].
      * rewrite nth_error_set_nth_eq in Hold by exact Hlt. inversion Hold. subst obi.
        right. unfold parent. cbn. exact Har.
      * rewrite nth_error_set_nth_neq in Hold by auto. apply (Pr i obi Hi Hold Hpi).
    + subst obi. right. unfold nl. cbn. exact Har.
  - (* no spare capacity: a new array; the receiver is unchanged *)
    apply Nat.ltb_ge in Hlc.
    set (parent := if _ =? _ then ob else _). set (nl := new_list _). set (ar := _ ++ _ :: repeat _ _).
    assert (E : firstn n0 (set_nth (h_objs h) a parent ++ [nl]) = firstn n0 (h_objs h)).
    { rewrite firstn_snoc_le by (rewrite set_nth_length; exact Hn).
      destruct (Nat.lt_ge_cases a n0) as [Hl|Hge].
      - destruct (Fr a ob Hl Hg) as [_ Hc]. unfold parent. rewrite Hc, Nat.eqb_refl.
        rewrite set_nth_same by exact Hg. reflexivity.
      - apply firstn_set_nth_ge. exact Hge. }
    assert (E2 : firstn a0 (h_arrs h ++ [ar]) = firstn a0 (h_arrs h)) by (apply firstn_snoc_le; exact Ha).
    split; [split; [exact E|exact E2]|].
    split; [eapply frozen_same; [exact E|exact Fr]|].
    split; [unfold nobjs; cbn; rewrite app_length, set_nth_length; cbn; unfold nobjs in Hn; lia|].
    split; [cbn; rewrite app_length; cbn; lia|].
    intros i obi Hi Hgi Hpi. unfold get_obj in Hgi. cbn in Hgi.
    destruct (nth_error_snoc_inv _ _ _ _ _ Hgi) as [[_ Hold]|[_ Hnew]].
    + destruct (Nat.eq_dec i a) as [->|Hne].
      * rewrite nth_error_set_nth_eq in Hold by exact Hlt. inversion Hold. subst obi.
        unfold parent. destruct (s_len (o_items ob) =? s_cap (o_items ob)).
        -- apply (Pr a ob Hi Hg Hp).
        -- cbn. left. lia.
      * rewrite nth_error_set_nth_neq in Hold by auto. apply (Pr i obi Hi Hold Hpi).
    + subst obi. right. unfold nl. cbn. exact Ha.
Qed.

(* ------------------------------------------------------------------ every operation an evaluation performs *)

Definition used_op (o : op) : Prop :=
  match o with
  | OLit _ _ | ONumbers _ | OAppend _ _ _ _ | OReverse _ _ | OOrder _ _ | OConcat _ _ | OMap _ _ | OAccept _ _
  | OTop _ _ | OSkip _ _ | OForce _ _ | OGuard _ _ | OStage _ _ _ => True
  | _ => False
  end.

Lemma fzpres_if_lazy : forall n0 a0 h (b : bool) p, fzpres n0 a0 h (if b then lazy_add h p else h).
Proof. intros. destruct b; [apply fzpres_add_lazy|apply fzpres_refl]. Qed.

Lemma fzpres_step : forall n0 a0 h o, inv h -> used_op o -> fzpres n0 a0 h (step h o).
Proof.
  intros n0 a0 h o Hinv U. destruct o; cbn in U; try contradiction; cbn [step].
  - apply fzpres_add_fresh.
  - apply fzpres_add_lazy.
  - rewrite do_append_unfold.
    destruct (eval_obj_good h a c1 Hinv) as (_ & _ & Hp1).
    destruct (get_obj (eval_obj h a c1) a) as [ob|] eqn:Hg; [|apply fzpres_refl].
    eapply fzpres_trans; [apply fzpres_eval_obj|]. apply fzpres_append_core; auto.
  - unfold do_copy_with. destruct (get_obj (eval_obj h a c1) a) as [ob|] eqn:Hg; [|apply fzpres_refl].
    eapply fzpres_trans; [apply fzpres_eval_obj|apply fzpres_add_fresh].
  - unfold do_copy_with. destruct (get_obj (eval_obj h a c1) a) as [ob|] eqn:Hg; [|apply fzpres_refl].
    eapply fzpres_trans; [apply fzpres_eval_obj|apply fzpres_add_fresh].
  - apply fzpres_if_lazy.
  - apply fzpres_if_lazy.
  - apply fzpres_if_lazy.
  - apply fzpres_if_lazy.
  - apply fzpres_if_lazy.
  - apply fzpres_eval_obj.
  - apply fzpres_if_lazy.
  - apply fzpres_if_lazy.
Qed.

Lemma gstep_step : forall n0 a0 h o, inv h -> used_op o -> gstep n0 a0 h (step h o).
Proof.
  intros. split; [destruct (step_refines_lemma h o H) as [G _]; exact G|apply fzpres_step; auto].
Qed.

(* what a step that adds one object shows for it *)
Lemma step_new : forall h o x, inv h -> pstep (abs h) o = abs h ++ [x] ->
  nobjs (step h o) = S (nobjs h) /\ icontent (step h o) (nobjs h) = x.
Proof.
  intros h o x Hinv Hp. destruct (step_refines_lemma h o Hinv) as [_ Ha]. rewrite Hp in Ha. split.
  - rewrite <- (abs_length (step h o)), Ha, app_length, abs_length. cbn. lia.
  - rewrite <- abs_nth, Ha, app_nth2 by (rewrite abs_length; lia). rewrite abs_length, Nat.sub_diag. reflexivity.
Qed.

Lemma force_items : forall h a c, inv h -> a < nobjs h ->
  items_content (step h (OForce a c)) a = icontent h a.
Proof.
  intros h a c Hinv Ha. cbn [step]. destruct (eval_obj_good h a c Hinv) as (_ & Hn & _).
  destruct (get_obj_some (eval_obj h a c) a) as [ob Hob]; [lia|].
  unfold items_content. rewrite Hob. destruct (eval_then_items h a c ob Hinv Hob) as [_ E]. exact E.
Qed.

(* ------------------------------------------------------------------ scripts under interference *)

(* yields Q s h: script s, resumed in heap h, with ANY good steps of others between its own steps, takes only
   good steps itself and ends with a result r and in a heap h' such that Q r h' *)
Inductive yields (n0 a0 : nat) {R} (Q : R -> heap -> Prop) : script R -> heap -> Prop :=
| Y_done : forall r h, Q r h -> yields n0 a0 Q (Done r) h
| Y_do : forall f h, gstep n0 a0 h (fst (f h)) ->
                     (forall h2, gstep n0 a0 (fst (f h)) h2 -> yields n0 a0 Q (snd (f h)) h2) ->
                     yields n0 a0 Q (Do f) h.

Lemma gstep_inv : forall n0 a0 h h', gstep n0 a0 h h' -> inv h'.
Proof. intros n0 a0 h h' [[I _] _]. exact I. Qed.

Lemma gstep_nobjs : forall n0 a0 h h', gstep n0 a0 h h' -> nobjs h <= nobjs h'.
Proof. intros n0 a0 h h' [[_ [L _]] _]. exact L. Qed.

Lemma gstep_content : forall n0 a0 h h' o, gstep n0 a0 h h' -> o < nobjs h -> icontent h' o = icontent h o.
Proof. intros n0 a0 h h' o [[_ [_ C]] _] Ho. apply C. exact Ho. Qed.

Lemma yields_read : forall n0 a0 R (Q : R -> heap -> Prop) (g : heap -> script R) h,
  inv h -> (forall h2, gstep n0 a0 h h2 -> yields n0 a0 Q (g h) h2) ->
  yields n0 a0 Q (Do (fun h => (h, g h))) h.
Proof. intros. apply Y_do; cbn; [apply gstep_refl; auto|auto]. Qed.

Lemma yields_op : forall n0 a0 R (Q : R -> heap -> Prop) (mk : heap -> op) (g : heap -> heap -> script R) h,
  inv h -> used_op (mk h) ->
  (forall h2, gstep n0 a0 (step h (mk h)) h2 -> yields n0 a0 Q (g h (step h (mk h))) h2) ->
  yields n0 a0 Q (Do (fun h => (step h (mk h), g h (step h (mk h))))) h.
Proof. intros. apply Y_do; cbn; [apply gstep_step; auto|auto]. Qed.

(* what the continuation is told about a list result / how the environments correspond *)
Definition hrel (h : heap) (r : option nat) (s : option (list Z)) : Prop :=
  match r, s with
  | Some a, Some xs => a < nobjs h /\ icontent h a = xs
  | None, None => True
  | _, _ => False
  end.

Definition env_ok (h : heap) (en : env) (se : senv) : Prop :=
  inv h /\ s_zs se = e_zs en /\ s_args se = e_args en /\
  Forall2 (fun a xs => a < nobjs h /\ icontent h a = xs) (e_cs en) (s_cv se).

Lemma hrel_mono : forall n0 a0 h h' r s, gstep n0 a0 h h' -> hrel h r s -> hrel h' r s.
Proof.
  intros n0 a0 h h' [a|] [xs|] G H; cbn in *; auto. destruct H as [Ha Hc]. split.
  - pose proof (gstep_nobjs _ _ _ _ G). lia.
  - rewrite (gstep_content _ _ _ _ _ G Ha). exact Hc.
Qed.

Lemma env_ok_mono : forall n0 a0 h h' en se, gstep n0 a0 h h' -> env_ok h en se -> env_ok h' en se.
Proof.
  intros n0 a0 h h' en se G (I & Z & A & F). split; [eapply gstep_inv; eauto|]. split; auto. split; auto.
  induction F as [|a xs l l' [Ha Hc] F IH]; constructor; auto. split.
  - pose proof (gstep_nobjs _ _ _ _ G). lia.
  - rewrite (gstep_content _ _ _ _ _ G Ha). exact Hc.
Qed.

Lemma ev_s_spec : forall en se e, s_zs se = e_zs en -> s_args se = e_args en -> ev_s en e = sp_s se e.
Proof.
  intros en se e Z A. unfold sp_s. induction e; cbn; try rewrite IHe1, IHe2; try rewrite Z; try rewrite A; reflexivity.
Qed.

Lemma const_rel : forall h en se i, env_ok h en se -> hrel h (nth_error (e_cs en) i) (nth_error (s_cv se) i).
Proof.
  intros h en se i (_ & _ & _ & F). revert i. induction F as [|a xs l l' H F IH]; intros [|i]; cbn; auto.
Qed.

(* allocation of one object whose content is known *)
Lemma yields_alloc : forall n0 a0 R (Q : R -> heap -> Prop) (mk : heap -> op) (k : option nat -> script R) h xs,
  inv h -> used_op (mk h) -> pstep (abs h) (mk h) = abs h ++ [xs] ->
  (forall h' r, gstep n0 a0 h h' -> hrel h' r (Some xs) -> yields n0 a0 Q (k r) h') ->
  yields n0 a0 Q (alloc mk k) h.
Proof.
  intros n0 a0 R Q mk k h xs Hinv U Hp K. unfold alloc.
  destruct (step_new h (mk h) xs Hinv Hp) as [Hn Hc].
  pose proof (gstep_step n0 a0 h (mk h) Hinv U) as G1.
  apply Y_do; cbn [fst snd]; [exact G1|].
  intros h2 G2. apply K.
  - eapply gstep_trans; [exact G1|exact G2].
  - cbn. split.
    + pose proof (gstep_nobjs _ _ _ _ G2). lia.
    + rewrite (gstep_content _ _ _ _ _ G2) by lia. exact Hc.
Qed.

(* an operation that starts with List.Eval on a: fails without touching the heap when a's content is poisoned *)
Lemma yields_alloc_eval : forall n0 a0 R (Q : R -> heap -> Prop) a (mk : heap -> op) (k : option nat -> script R) h xs,
  inv h -> used_op (mk h) ->
  (poisoned (icontent h a) = false -> pstep (abs h) (mk h) = abs h ++ [xs]) ->
  (forall h' r, gstep n0 a0 h h' -> hrel h' r (if poisoned (icontent h a) then None else Some xs) -> yields n0 a0 Q (k r) h') ->
  yields n0 a0 Q (alloc_eval a mk k) h.
Proof.
  intros n0 a0 R Q a mk k h xs Hinv U Hp K. unfold alloc_eval.
  destruct (poisoned (icontent h a)) eqn:Ep.
  - apply Y_do; rewrite Ep; cbn [fst snd]; [apply gstep_refl; auto|]. intros h2 G2. apply K; [exact G2|exact I].
  - destruct (step_new h (mk h) xs Hinv (Hp eq_refl)) as [Hn Hc].
    pose proof (gstep_step n0 a0 h (mk h) Hinv U) as G1.
    apply Y_do; rewrite Ep; cbn [fst snd]; [exact G1|].
    intros h2 G2. apply K.
    + eapply gstep_trans; [exact G1|exact G2].
    + cbn. split.
      * pose proof (gstep_nobjs _ _ _ _ G2). lia.
      * rewrite (gstep_content _ _ _ _ _ G2) by lia. exact Hc.
Qed.

Lemma abs_get : forall h a, nth a (abs h) [] = icontent h a.
Proof. reflexivity. Qed.

Lemma have_true : forall h a, a < nobjs h -> (a <? length (abs h)) = true.
Proof. intros. rewrite abs_length. apply Nat.ltb_lt. auto. Qed.

(* ------------------------------------------------------------------ soundness of the compiled scripts *)

Scheme lexp_mut := Induction for lexp Sort Prop
  with zexp_mut := Induction for zexp Sort Prop.
Combined Scheme lz_mutind from lexp_mut, zexp_mut.

Ltac gchain := first [eassumption | (eapply gstep_trans; [eassumption|gchain])].

Section Sound.
Variables n0 a0 : nat.

Definition P_l (e : lexp) : Prop := forall R (Q : R -> heap -> Prop) en se (k : option nat -> script R) h,
  env_ok h en se ->
  (forall h' r, gstep n0 a0 h h' -> hrel h' r (sp_l se e) -> yields n0 a0 Q (k r) h') ->
  yields n0 a0 Q (sc_l en e k) h.

Definition P_z (e : zexp) : Prop := forall R (Q : R -> heap -> Prop) en se (k : option Z -> script R) h,
  env_ok h en se ->
  (forall h' r, gstep n0 a0 h h' -> r = sp_z se e -> yields n0 a0 Q (k r) h') ->
  yields n0 a0 Q (sc_z en e k) h.

(* a unary list operation that allocates one lazy/materialised object from the handle a *)
Lemma unary_alloc : forall R (Q : R -> heap -> Prop) (l : lexp) en se (mk : nat -> heap -> op) (f : list Z -> list Z)
    (k : option nat -> script R) (spec : option (list Z)) h,
  P_l l -> env_ok h en se ->
  (forall a h1, used_op (mk a h1)) ->
  (forall a h1, a < nobjs h1 -> pstep (abs h1) (mk a h1) = abs h1 ++ [f (icontent h1 a)]) ->
  spec = match sp_l se l with None => None | Some xs => Some (f xs) end ->
  (forall h' r, gstep n0 a0 h h' -> hrel h' r spec -> yields n0 a0 Q (k r) h') ->
  yields n0 a0 Q (sc_l en l (fun rl => match rl with None => k None | Some a => alloc (mk a) k end)) h.
Proof.
  intros R Q l en se mk f k spec h IH E U Hp Hs K. apply (IH R Q en se _ h E).
  intros h1 r1 G1 R1. destruct r1 as [a|], (sp_l se l) as [xs|] eqn:El; cbn in R1; try contradiction.
  - destruct R1 as [Ha Hc]. apply (yields_alloc n0 a0 R Q (mk a) k h1 (f xs)).
    + eapply gstep_inv; eauto.
    + apply U.
    + rewrite Hp by exact Ha. rewrite Hc. reflexivity.
    + intros h2 r2 G2 R2. apply K; [gchain|]. rewrite Hs. exact R2.
  - apply K; [exact G1|]. rewrite Hs. exact I.
Qed.

Lemma sc_sound : (forall e, P_l e) /\ (forall e, P_z e).
Proof.
  apply lz_mutind; unfold P_l, P_z.
  - (* LConst *)
    intros i R Q en se k h E K. cbn [sc_l]. apply K; [apply gstep_refl; apply E|]. cbn [sp_l]. apply const_rel. exact E.
  - (* LLit *)
    intros xs R Q en se k h E K. cbn [sc_l].
    apply (yields_alloc n0 a0 R Q _ k h xs); [apply E|exact I|reflexivity|]. exact K.
  - (* LSingle *)
    intros z IHz R Q en se k h E K. cbn [sc_l]. apply (IHz R Q en se _ h E).
    intros h1 r1 G1 E1. subst r1. cbn [sp_l] in K. destruct (sp_z se z) as [v|] eqn:Ez.
    + apply (yields_alloc n0 a0 R Q _ k h1 [v]); [eapply gstep_inv; eauto|exact I|reflexivity|].
      intros h2 r2 G2 R2. apply K; [gchain|exact R2].
    + apply K; [exact G1|exact I].
  - (* LNumbers *)
    intros n R Q en se k h E K. cbn [sc_l]. pose proof E as (Hi & Hz & Ha & _).
    apply (yields_alloc n0 a0 R Q _ k h (map Z.of_nat (seq 0 (Z.to_nat (ev_s en n))))); [exact Hi|exact I|reflexivity|].
    cbn [sp_l] in K. rewrite <- (ev_s_spec en se n Hz Ha) in K. exact K.
  - (* LAppend *)
    intros l IHl x IHx R Q en se k h E K. cbn [sc_l]. apply (IHl R Q en se _ h E).
    intros h1 r1 G1 R1. cbn [sp_l] in K.
    destruct r1 as [a|], (sp_l se l) as [xs|] eqn:El; cbn in R1; try contradiction; [|apply K; [exact G1|exact I]].
    apply (IHx R Q en se _ h1 (env_ok_mono _ _ _ _ _ _ G1 E)).
    intros h2 r2 G2 E2. subst r2. destruct (sp_z se x) as [v|] eqn:Ex; [|apply K; [gchain|exact I]].
    pose proof (hrel_mono _ _ _ _ (Some a) (Some xs) G2 R1) as [Ha Hc].
    apply (yields_alloc_eval n0 a0 R Q a _ k h2 (xs ++ [v])); [eapply gstep_inv; eauto|exact I| |].
    + intros _. unfold append_op. cbn [pstep]. rewrite have_true by exact Ha. rewrite abs_get, Hc. reflexivity.
    + rewrite Hc. intros h3 r3 G3 R3. apply K; [gchain|exact R3].
  - (* LMap *)
    intros kk l IHl R Q en se k h E K. cbn [sc_l]. pose proof E as (_ & Hz & Ha & _).
    apply (unary_alloc R Q l en se (fun a _ => OMap (ev_s en kk) a) (map (Z.add (ev_s en kk))) k (sp_l se (LMap kk l)) h IHl E).
    + intros; exact I.
    + intros a h1 Hlt. cbn [pstep]. rewrite have_true by exact Hlt. rewrite abs_get. reflexivity.
    + cbn [sp_l]. rewrite (ev_s_spec en se kk Hz Ha). reflexivity.
    + exact K.
  - (* LAccept *)
    intros kk l IHl R Q en se k h E K. cbn [sc_l]. pose proof E as (_ & Hz & Ha & _).
    apply (unary_alloc R Q l en se (fun a _ => OAccept (ev_s en kk) a) (filter (fun e => Z.ltb e (ev_s en kk))) k (sp_l se (LAccept kk l)) h IHl E).
    + intros; exact I.
    + intros a h1 Hlt. cbn [pstep]. rewrite have_true by exact Hlt. rewrite abs_get. reflexivity.
    + cbn [sp_l]. rewrite (ev_s_spec en se kk Hz Ha). reflexivity.
    + exact K.
  - (* LTop *)
    intros n l IHl R Q en se k h E K. cbn [sc_l]. pose proof E as (_ & Hz & Ha & _).
    apply (unary_alloc R Q l en se (fun a _ => top_op (ev_s en n) a) (sp_top (ev_s en n)) k (sp_l se (LTop n l)) h IHl E).
    + intros. unfold top_op. destruct (ev_s en n <? 0)%Z; exact I.
    + intros a h1 Hlt. unfold top_op, sp_top. destruct (ev_s en n <? 0)%Z; cbn [pstep]; rewrite have_true by exact Hlt; rewrite abs_get; reflexivity.
    + cbn [sp_l]. rewrite (ev_s_spec en se n Hz Ha). reflexivity.
    + exact K.
  - (* LSkip *)
    intros n l IHl R Q en se k h E K. cbn [sc_l]. pose proof E as (_ & Hz & Ha & _).
    apply (unary_alloc R Q l en se (fun a _ => OSkip (Z.to_nat (ev_s en n)) a) (skipn (Z.to_nat (ev_s en n))) k (sp_l se (LSkip n l)) h IHl E).
    + intros; exact I.
    + intros a h1 Hlt. cbn [pstep]. rewrite have_true by exact Hlt. rewrite abs_get. reflexivity.
    + cbn [sp_l]. rewrite (ev_s_spec en se n Hz Ha). reflexivity.
    + exact K.
  - (* LConcat *)
    intros a IHa b IHb R Q en se k h E K. cbn [sc_l]. apply (IHa R Q en se _ h E).
    intros h1 r1 G1 R1. cbn [sp_l] in K.
    destruct r1 as [x|], (sp_l se a) as [xs|] eqn:Ea; cbn in R1; try contradiction; [|apply K; [exact G1|exact I]].
    apply (IHb R Q en se _ h1 (env_ok_mono _ _ _ _ _ _ G1 E)).
    intros h2 r2 G2 R2.
    destruct r2 as [y|], (sp_l se b) as [ys|] eqn:Eb; cbn in R2; try contradiction; [|apply K; [gchain|exact I]].
    pose proof (hrel_mono _ _ _ _ (Some x) (Some xs) G2 R1) as [Hx Hcx]. destruct R2 as [Hy Hcy].
    apply (yields_alloc n0 a0 R Q _ k h2 (xs ++ ys)); [eapply gstep_inv; eauto|exact I| |].
    + cbn [pstep]. rewrite !have_true by assumption. cbn [andb]. rewrite !abs_get, Hcx, Hcy. reflexivity.
    + intros h3 r3 G3 R3. apply K; [gchain|exact R3].
  - (* LReverse *)
    intros l IHl R Q en se k h E K. cbn [sc_l]. apply (IHl R Q en se _ h E).
    intros h1 r1 G1 R1. cbn [sp_l] in K.
    destruct r1 as [a|], (sp_l se l) as [xs|] eqn:El; cbn in R1; try contradiction; [|apply K; [exact G1|exact I]].
    destruct R1 as [Ha Hc].
    apply (yields_alloc_eval n0 a0 R Q a _ k h1 (rev xs)); [eapply gstep_inv; eauto|exact I| |].
    + intros _. cbn [pstep]. rewrite have_true by exact Ha. rewrite abs_get, Hc. reflexivity.
    + rewrite Hc. intros h2 r2 G2 R2. apply K; [gchain|exact R2].
  - (* LForce *)
    intros l IHl R Q en se k h E K. cbn [sc_l]. apply (IHl R Q en se _ h E).
    intros h1 r1 G1 R1. cbn [sp_l] in K.
    destruct r1 as [a|], (sp_l se l) as [xs|] eqn:El; cbn in R1; try contradiction; [|apply K; [exact G1|exact I]].
    destruct R1 as [Ha Hc]. pose proof (gstep_inv _ _ _ _ G1) as I1.
    destruct (poisoned xs) eqn:Ep.
    + apply Y_do; cbn beta; rewrite Hc, Ep; cbn [fst snd]; [apply gstep_refl; exact I1|].
      intros h2 G2. apply K; [gchain|exact I].
    + pose proof (gstep_step n0 a0 h1 (force_op (e_cp en) h1 a) I1 I) as Gs.
      apply Y_do; cbn beta; rewrite Hc, Ep; cbn [fst snd]; [exact Gs|]. intros h2 G2. apply K; [gchain|].
      eapply hrel_mono; [eapply gstep_trans; [exact Gs|exact G2]|]. cbn. split; auto.
  - (* LGuard *)
    intros v l IHl R Q en se k h E K. cbn [sc_l]. pose proof E as (_ & Hz & Ha & _).
    apply (unary_alloc R Q l en se (fun a _ => OGuard (ev_s en v) a) (map (guard_elem (ev_s en v))) k (sp_l se (LGuard v l)) h IHl E).
    + intros; exact I.
    + intros a h1 Hlt. cbn [pstep]. rewrite have_true by exact Hlt. rewrite abs_get. reflexivity.
    + cbn [sp_l]. rewrite (ev_s_spec en se v Hz Ha). reflexivity.
    + exact K.
  - (* LStage *)
    intros st a IHa b IHb R Q en se k h E K. cbn [sc_l]. cbn [sp_l] in K. destruct (one_list_stage st) eqn:Eo.
    + apply (IHa R Q en se _ h E). intros h1 r1 G1 R1.
      destruct r1 as [x|], (sp_l se a) as [xs|] eqn:Ea; cbn in R1; try contradiction; [|apply K; [exact G1|exact I]].
      destruct R1 as [Hx Hcx].
      apply (yields_alloc n0 a0 R Q _ k h1 (stage_sem st xs xs)); [eapply gstep_inv; eauto|exact I| |].
      * cbn [pstep]. rewrite !have_true by assumption. cbn [andb]. rewrite !abs_get, Hcx. reflexivity.
      * intros h2 r2 G2 R2. apply K; [gchain|exact R2].
    + apply (IHa R Q en se _ h E). intros h1 r1 G1 R1.
      destruct r1 as [x|], (sp_l se a) as [xs|] eqn:Ea; cbn in R1; try contradiction; [|apply K; [exact G1|exact I]].
      apply (IHb R Q en se _ h1 (env_ok_mono _ _ _ _ _ _ G1 E)).
      intros h2 r2 G2 R2.
      destruct r2 as [y|], (sp_l se b) as [ys|] eqn:Eb; cbn in R2; try contradiction; [|apply K; [gchain|exact I]].
      pose proof (hrel_mono _ _ _ _ (Some x) (Some xs) G2 R1) as [Hx Hcx]. destruct R2 as [Hy Hcy].
      apply (yields_alloc n0 a0 R Q _ k h2 (stage_sem st xs ys)); [eapply gstep_inv; eauto|exact I| |].
      * cbn [pstep]. rewrite !have_true by assumption. cbn [andb]. rewrite !abs_get, Hcx, Hcy. reflexivity.
      * intros h3 r3 G3 R3. apply K; [gchain|exact R3].
  - (* LOrder *)
    intros l IHl R Q en se k h E K. cbn [sc_l]. apply (IHl R Q en se _ h E).
    intros h1 r1 G1 R1. cbn [sp_l] in K.
    destruct r1 as [a|], (sp_l se l) as [xs|] eqn:El; cbn in R1; try contradiction; [|apply K; [exact G1|exact I]].
    destruct R1 as [Ha Hc].
    apply (yields_alloc_eval n0 a0 R Q a _ k h1 (sort_vals xs)); [eapply gstep_inv; eauto|exact I| |].
    + intros _. cbn [pstep]. rewrite have_true by exact Ha. rewrite abs_get, Hc. reflexivity.
    + rewrite Hc. intros h2 r2 G2 R2. apply K; [gchain|exact R2].
  - (* ZS *)
    intros s R Q en se k h E K. cbn [sc_z]. pose proof E as (Hi & Hz & Ha & _).
    apply K; [apply gstep_refl; exact Hi|]. cbn [sp_z]. rewrite (ev_s_spec en se s Hz Ha). reflexivity.
  - (* ZAdd *)
    intros a IHa b IHb R Q en se k h E K. cbn [sc_z]. apply (IHa R Q en se _ h E).
    intros h1 r1 G1 E1. subst r1. cbn [sp_z] in K. destruct (sp_z se a) as [x|]; [|apply K; [exact G1|reflexivity]].
    apply (IHb R Q en se _ h1 (env_ok_mono _ _ _ _ _ _ G1 E)).
    intros h2 r2 G2 E2. subst r2. destruct (sp_z se b) as [y|]; apply K; try gchain; reflexivity.
  - (* ZMul *)
    intros a IHa b IHb R Q en se k h E K. cbn [sc_z]. apply (IHa R Q en se _ h E).
    intros h1 r1 G1 E1. subst r1. cbn [sp_z] in K. destruct (sp_z se a) as [x|]; [|apply K; [exact G1|reflexivity]].
    apply (IHb R Q en se _ h1 (env_ok_mono _ _ _ _ _ _ G1 E)).
    intros h2 r2 G2 E2. subst r2. destruct (sp_z se b) as [y|]; apply K; try gchain; reflexivity.
  - (* ZIndex *)
    intros l IHl i IHi R Q en se k h E K. cbn [sc_z]. apply (IHi R Q en se _ h E).
    intros h1 r1 G1 E1. subst r1. cbn [sp_z] in K. destruct (sp_z se i) as [iv|]; [|apply K; [exact G1|reflexivity]].
    apply (IHl R Q en se _ h1 (env_ok_mono _ _ _ _ _ _ G1 E)).
    intros h2 r2 G2 R2.
    destruct r2 as [a|], (sp_l se l) as [xs|] eqn:El; cbn in R2; try contradiction; [|apply K; [gchain|reflexivity]].
    destruct (iv <? 0)%Z; [apply K; [gchain|reflexivity]|].
    destruct R2 as [Ha Hc]. pose proof (gstep_inv _ _ _ _ G2) as I2.
    destruct (poisoned xs) eqn:Ep.
    + apply Y_do; cbn beta; rewrite Hc, Ep; cbn [fst snd]; [apply gstep_refl; exact I2|].
      intros h3 G3. apply K; [gchain|reflexivity].
    + pose proof (gstep_step n0 a0 h2 (force_op (e_cp en) h2 a) I2 I) as Gs.
      apply Y_do; cbn beta; rewrite Hc, Ep; cbn [fst snd]; [exact Gs|]. intros h3 G3. apply K; [gchain|].
      unfold force_op. rewrite (force_items h2 a _ I2 Ha), Hc. reflexivity.
  - (* ZSize *)
    intros l IHl R Q en se k h E K. cbn [sc_z]. apply (IHl R Q en se _ h E).
    intros h1 r1 G1 R1. cbn [sp_z] in K.
    destruct r1 as [a|], (sp_l se l) as [xs|] eqn:El; cbn in R1; try contradiction; [|apply K; [exact G1|reflexivity]].
    destruct R1 as [Ha Hc]. pose proof (gstep_inv _ _ _ _ G1) as I1.
    destruct (poisoned xs) eqn:Ep.
    + apply Y_do; cbn beta; rewrite Hc, Ep; cbn [fst snd]; [apply gstep_refl; exact I1|].
      intros h2 G2. apply K; [gchain|reflexivity].
    + pose proof (gstep_step n0 a0 h1 (force_op (e_cp en) h1 a) I1 I) as Gs.
      apply Y_do; cbn beta; rewrite Hc, Ep; cbn [fst snd]; [exact Gs|]. intros h2 G2. apply K; [gchain|].
      unfold force_op. rewrite (force_items h1 a _ I1 Ha), Hc. reflexivity.
  - (* ZSum *)
    intros l IHl R Q en se k h E K. cbn [sc_z]. apply (IHl R Q en se _ h E).
    intros h1 r1 G1 R1. cbn [sp_z] in K.
    destruct r1 as [a|], (sp_l se l) as [xs|] eqn:El; cbn in R1; try contradiction; [|apply K; [exact G1|reflexivity]].
    destruct R1 as [Ha Hc]. apply yields_read; [eapply gstep_inv; eauto|].
    intros h2 G2. apply K; [gchain|]. rewrite Hc. reflexivity.
  - (* ZFirst *)
    intros l IHl R Q en se k h E K. cbn [sc_z]. apply (IHl R Q en se _ h E).
    intros h1 r1 G1 R1. cbn [sp_z] in K.
    destruct r1 as [a|], (sp_l se l) as [xs|] eqn:El; cbn in R1; try contradiction; [|apply K; [exact G1|reflexivity]].
    destruct R1 as [Ha Hc]. apply yields_read; [eapply gstep_inv; eauto|].
    intros h2 G2. apply K; [gchain|]. rewrite Hc. reflexivity.
  - (* ZThrow *)
    intros R Q en se k h E K. cbn [sc_z]. apply K; [apply gstep_refl; apply E|reflexivity].
  - (* ZTry *)
    intros a IHa b IHb R Q en se k h E K. cbn [sc_z]. apply (IHa R Q en se _ h E).
    intros h1 r1 G1 E1. subst r1. cbn [sp_z] in K. destruct (sp_z se a) as [x|]; [apply K; [exact G1|reflexivity]|].
    apply (IHb R Q en se _ h1 (env_ok_mono _ _ _ _ _ _ G1 E)).
    intros h2 r2 G2 E2. apply K; [gchain|exact E2].
  - (* ZIfLt *)
    intros a IHa b IHb t IHt e IHe R Q en se k h E K. cbn [sc_z]. apply (IHa R Q en se _ h E).
    intros h1 r1 G1 E1. subst r1. cbn [sp_z] in K. destruct (sp_z se a) as [x|]; [|apply K; [exact G1|reflexivity]].
    pose proof (env_ok_mono _ _ _ _ _ _ G1 E) as E1.
    apply (IHb R Q en se _ h1 E1).
    intros h2 r2 G2 E2. subst r2. destruct (sp_z se b) as [y|]; [|apply K; [gchain|reflexivity]].
    pose proof (env_ok_mono _ _ _ _ _ _ G2 E1) as E2.
    destruct (x <? y)%Z.
    + apply (IHt R Q en se _ h2 E2). intros h3 r3 G3 E3. apply K; [gchain|exact E3].
    + apply (IHe R Q en se _ h2 E2). intros h3 r3 G3 E3. apply K; [gchain|exact E3].
  - (* ZCall *)
    intros a b x IHx R Q en se k h E K. cbn [sc_z]. pose proof E as (_ & Hz & Ha & _). apply (IHx R Q en se _ h E).
    intros h1 r1 G1 E1. subst r1. cbn [sp_z] in K. rewrite <- (ev_s_spec en se a Hz Ha), <- (ev_s_spec en se b Hz Ha) in K.
    destruct (sp_z se x) as [v|]; apply K; try exact G1; reflexivity.
Qed.

End Sound.

(* ------------------------------------------------------------------ running alone *)

Lemma yields_run_iso : forall n0 a0 R (Q : R -> heap -> Prop) s h, yields n0 a0 Q s h -> inv h ->
  gstep n0 a0 h (fst (run_iso h s)) /\ Q (snd (run_iso h s)) (fst (run_iso h s)).
Proof.
  intros n0 a0 R Q s h Y. induction Y as [r h Hq|f h G _ IH]; intros Hinv.
  - cbn. split; [apply gstep_refl; exact Hinv|exact Hq].
  - cbn [run_iso]. destruct (f h) as [h' s'] eqn:Ef. cbn [fst snd] in *.
    pose proof (gstep_inv _ _ _ _ G) as I'.
    destruct (IH h' (gstep_refl n0 a0 h' I') I') as [G' Q'].
    split; [eapply gstep_trans; eauto|exact Q'].
Qed.

(* with no shared part to protect, the step guarantee is C09's good *)
Lemma fzpres_zero : forall h h', fzpres 0 0 h h'.
Proof.
  intros h h' _. split; [split; reflexivity|].
  split; [intros o ob Ho; lia|]. split; [lia|]. split; [lia|]. intros o ob _ _ _. right. lia.
Qed.

Lemma good_gstep0 : forall h h', good h h' -> gstep 0 0 h h'.
Proof. intros. split; [auto|apply fzpres_zero]. Qed.

(* ------------------------------------------------------------------ one evaluation *)

Definition func_ok (h : heap) (F : func) : Prop := Forall (fun a => a < nobjs h) (f_cs F).

Lemma func_env_ok : forall cp h F args, inv h -> func_ok h F ->
  env_ok h (mkEnv cp (f_cs F) (f_zs F) args) (func_senv h F args).
Proof.
  intros cp h F args Hinv Hf. split; auto. split; [reflexivity|]. split; [reflexivity|].
  unfold func_senv. cbn. unfold func_ok in Hf. induction Hf; cbn; constructor; auto.
Qed.

(* THE KEY FACT: started in any heap reachable from h by good steps, interleaved with any good steps of
   others, the evaluation of F yields what the specification side computes from the CONTENT the constants
   had in h - nothing else of the heap matters *)
Lemma eval_yields : forall n0 a0 cp h F args j, inv h -> func_ok h F ->
  forall h2, gstep n0 a0 h h2 ->
  yields n0 a0 (fun o _ => o = sp_body (func_senv h F args) (f_body F) j) (sc_eval cp F args j) h2.
Proof.
  intros n0 a0 cp h F args j Hinv Hf h2 G. unfold sc_eval, sp_body.
  pose proof (env_ok_mono _ _ _ _ _ _ G (func_env_ok cp h F args Hinv Hf)) as E.
  destruct (f_body F) as [e|e].
  - apply (proj2 (sc_sound n0 a0) e _ _ _ _ _ h2 E). intros h' r _ Hr. subst r. apply Y_done.
    destruct (sp_z _ e); reflexivity.
  - apply (proj1 (sc_sound n0 a0) e _ _ _ _ _ h2 E). intros h' r G' Hr.
    destruct r as [a|], (sp_l (func_senv h F args) e) as [xs|]; cbn in Hr; try contradiction.
    + destruct Hr as [Ha Hc]. apply yields_read; [eapply gstep_inv; eauto|].
      intros h3 _. apply Y_done. rewrite Hc. reflexivity.
    + apply Y_done. reflexivity.
Qed.

Lemma eval_run_iso : forall n0 a0 cp h F args j, inv h -> func_ok h F ->
  forall h2, gstep n0 a0 h h2 ->
  snd (run_iso h2 (sc_eval cp F args j)) = sp_body (func_senv h F args) (f_body F) j /\
  gstep n0 a0 h2 (fst (run_iso h2 (sc_eval cp F args j))).
Proof.
  intros n0 a0 cp h F args j Hinv Hf h2 G.
  destruct (yields_run_iso _ _ _ _ _ _ (eval_yields n0 a0 cp h F args j Hinv Hf h2 G) (gstep_inv _ _ _ _ G)) as [G' Q].
  split; auto.
Qed.

(* ------------------------------------------------------------------ Generate *)

Definition gen_rel (h : heap) (r : option (list nat * list Z)) (s : option (list (list Z) * list Z)) : Prop :=
  match r, s with
  | Some (cs, zs), Some (cv, zs') => zs = zs' /\ Forall2 (fun a xs => a < nobjs h /\ icontent h a = xs) cs cv
  | None, None => True
  | _, _ => False
  end.

Lemma forall2_mono : forall n0 a0 h h' cs cv, gstep n0 a0 h h' ->
  Forall2 (fun a xs => a < nobjs h /\ icontent h a = xs) cs cv ->
  Forall2 (fun a xs => a < nobjs h' /\ icontent h' a = xs) cs cv.
Proof.
  intros n0 a0 h h' cs cv G F. induction F as [|a xs l l' [Ha Hc] F IH]; constructor; auto. split.
  - pose proof (gstep_nobjs _ _ _ _ G). lia.
  - rewrite (gstep_content _ _ _ _ _ G Ha). exact Hc.
Qed.

Lemma sc_defs_sound : forall n0 a0 cp R (Q : R -> heap -> Prop) ds cs zs cv (k : option (list nat * list Z) -> script R) h,
  inv h -> Forall2 (fun a xs => a < nobjs h /\ icontent h a = xs) cs cv ->
  (forall h' r, gstep n0 a0 h h' -> gen_rel h' r (sp_defs ds cv zs) -> yields n0 a0 Q (k r) h') ->
  yields n0 a0 Q (sc_defs cp ds cs zs k) h.
Proof.
  intros n0 a0 cp R Q ds. induction ds as [|d ds IH]; intros cs zs cv k h Hinv F K.
  - cbn [sc_defs]. apply K; [apply gstep_refl; auto|]. cbn. split; auto.
  - assert (E : env_ok h (mkEnv cp cs zs []) (mkSE cv zs [])) by (split; [auto|split; [reflexivity|split; [reflexivity|exact F]]]).
    destruct d as [e|i]; cbn [sc_defs].
    + apply (proj1 (sc_sound n0 a0) e _ _ _ _ _ h E). intros h1 r1 G1 R1. cbn [sp_defs] in K.
      destruct r1 as [a|], (sp_l (mkSE cv zs []) e) as [xs|]; cbn in R1; try contradiction; [|apply K; [exact G1|exact I]].
      apply (IH (cs ++ [a]) zs (cv ++ [xs]) k h1); [eapply gstep_inv; eauto| |].
      * apply Forall2_app; [eapply forall2_mono; eauto|constructor; [exact R1|constructor]].
      * intros h2 r2 G2 R2. apply K; [gchain|exact R2].
    + cbn [sp_defs] in K. pose proof (const_rel h _ _ i E) as Hr. unfold hrel in Hr. cbn [s_cv e_cs] in Hr. unfold val in *.
      destruct (nth_error cs i) as [a|], (nth_error cv i) as [xs|]; cbn in Hr; try contradiction.
      2:{ apply K; [apply gstep_refl; auto|exact I]. }
      destruct Hr as [Ha Hc].
      destruct (poisoned xs) eqn:Ep.
      { apply Y_do; cbn beta; rewrite Hc, Ep; cbn [fst snd]; [apply gstep_refl; auto|].
        intros h2 G2. apply K; [exact G2|exact I]. }
      pose proof (gstep_step n0 a0 h (force_op cp h a) Hinv I) as Gs.
      apply Y_do; cbn beta; rewrite Hc, Ep; cbn [fst snd]; [exact Gs|]. intros h2 G2.
      unfold force_op. rewrite (force_items h a _ Hinv Ha), Hc.
      apply (IH cs _ cv k h2); [eapply gstep_inv; eauto|apply (forall2_mono n0 a0 h h2 cs cv (gstep_trans _ _ _ _ _ Gs G2) F)|].
      intros h3 r3 G3 R3. apply K; [gchain|exact R3].
Qed.

(* what Generate promises about the function it returns: its constants are live objects whose contents are
   the values the specification side computes for the definitions *)
Definition generated_ok (p : prog) (r : option func) (h : heap) : Prop :=
  match r, sp_defs (p_defs p) [] [] with
  | Some F, Some (cv, zs) =>
      f_zs F = zs /\ f_body F = p_body p /\ Forall2 (fun a xs => a < nobjs h /\ icontent h a = xs) (f_cs F) cv
  | None, None => True
  | _, _ => False
  end.

Lemma generate_yields : forall n0 a0 cp p h, inv h -> yields n0 a0 (generated_ok p) (sc_generate cp p) h.
Proof.
  intros n0 a0 cp p h Hinv. unfold sc_generate.
  apply (sc_defs_sound n0 a0 cp _ _ (p_defs p) [] [] [] _ h Hinv); [constructor|].
  intros h' r G Hr. apply Y_done. unfold generated_ok, gen_rel in *. unfold val in *.
  destruct r as [[cs zs]|], (sp_defs (p_defs p) [] []) as [[cv zs']|]; try contradiction; auto.
  destruct Hr as [Hz Hf]. cbn. auto.
Qed.

(* ------------------------------------------------------------------ histories *)

Definition gstate_ok (g : gstate) : Prop := inv (g_heap g) /\ Forall (func_ok (g_heap g)) (g_funcs g).

Lemma func_ok_mono : forall h h' F, good h h' -> func_ok h F -> func_ok h' F.
Proof.
  intros h h' F (_ & L & _) Hf. unfold func_ok in *. eapply Forall_impl; [|exact Hf]. cbn. intros; lia.
Qed.

Lemma forall2_func_ok : forall h cs cv, Forall2 (fun a (xs : list Z) => a < nobjs h /\ icontent h a = xs) cs cv ->
  Forall (fun a => a < nobjs h) cs.
Proof. intros h cs cv F. induction F as [|a xs l l' [Ha _] F IH]; constructor; auto. Qed.

Lemma run_event_ok : forall cp g e, gstate_ok g ->
  good (g_heap g) (g_heap (run_event cp g e)) /\ gstate_ok (run_event cp g e) /\
  (forall k F, nth_error (g_funcs g) k = Some F -> nth_error (g_funcs (run_event cp g e)) k = Some F).
Proof.
  intros cp g e [Hinv Hfs]. destruct e as [p|k args j|junk|ops]; cbn [run_event].
  - destruct (yields_run_iso 0 0 _ _ _ _ (generate_yields 0 0 cp p (g_heap g) Hinv) Hinv) as [[G _] Hq].
    destruct (run_iso (g_heap g) (sc_generate cp p)) as [h' r] eqn:Er. cbn [fst snd g_heap g_funcs] in *.
    split; [exact G|]. split.
    + split; [apply G|]. apply Forall_app. split.
      * eapply Forall_impl; [|exact Hfs]. intros F. apply func_ok_mono. exact G.
      * unfold generated_ok in Hq. destruct r as [F|]; [|constructor].
        destruct (sp_defs (p_defs p) [] []) as [[cv zs]|]; [|contradiction].
        destruct Hq as (_ & _ & Hq). constructor; [|constructor]. eapply forall2_func_ok; eauto.
    + intros k F Hk. rewrite nth_error_app1; [exact Hk|]. apply nth_error_Some. congruence.
  - unfold eval_in. destruct (nth_error (g_funcs g) k) as [F|] eqn:Ek; cbn [fst g_heap g_funcs].
    + assert (Hf : func_ok (g_heap g) F).
      { rewrite Forall_forall in Hfs. apply Hfs. eapply nth_error_In; eauto. }
      destruct (eval_run_iso 0 0 cp (g_heap g) F args j Hinv Hf (g_heap g) (gstep_refl 0 0 _ Hinv)) as [_ [G _]].
      split; [exact G|]. split; [|auto]. split; [apply G|].
      eapply Forall_impl; [|exact Hfs]. intros F'. apply func_ok_mono. exact G.
    + split; [apply good_refl; auto|]. split; [split; auto|auto].
  - cbn. split; [apply good_refl; auto|]. split; [split; auto|auto].
  - cbn [g_heap g_funcs]. destruct (run_from_good ops (g_heap g) Hinv) as [G _].
    split; [exact G|]. split; [|auto]. split; [apply G|].
    eapply Forall_impl; [|exact Hfs]. intros F'. apply func_ok_mono. exact G.
Qed.

Lemma run_hist_ok : forall cp hist g, gstate_ok g ->
  good (g_heap g) (g_heap (run_hist cp g hist)) /\ gstate_ok (run_hist cp g hist) /\
  (forall k F, nth_error (g_funcs g) k = Some F -> nth_error (g_funcs (run_hist cp g hist)) k = Some F).
Proof.
  intros cp hist. induction hist as [|e hist IH]; intros g Hg; cbn [run_hist fold_left].
  - split; [apply good_refl; apply Hg|]. split; auto.
  - destruct (run_event_ok cp g e Hg) as (G1 & O1 & K1).
    destruct (IH _ O1) as (G2 & O2 & K2). fold (run_hist cp (run_event cp g e) hist).
    split; [eapply good_trans; eauto|]. split; auto.
Qed.

(* the outcome of evaluating function k after ANY history on its generator is the specification's outcome
   for the contents its constants had before the history *)
Lemma eval_after_spec : forall cp g hist k F args j, gstate_ok g -> nth_error (g_funcs g) k = Some F ->
  eval_after cp g hist k args j = sp_body (func_senv (g_heap g) F args) (f_body F) j.
Proof.
  intros cp g hist k F args j Hg Hk. unfold eval_after, eval_in.
  destruct (run_hist_ok cp hist g Hg) as (G & _ & K). rewrite (K _ _ Hk).
  destruct Hg as [Hinv Hfs].
  assert (Hf : func_ok (g_heap g) F).
  { rewrite Forall_forall in Hfs. apply Hfs. eapply nth_error_In; eauto. }
  apply (eval_run_iso 0 0 cp (g_heap g) F args j Hinv Hf _ (good_gstep0 _ _ G)).
Qed.

Lemma eval_history_independent_lemma : forall cp g hist k args j, gstate_ok g -> k < length (g_funcs g) ->
  eval_after cp g hist k args j = eval_after cp g [] k args j.
Proof.
  intros cp g hist k args j Hg Hk. destruct (nth_error (g_funcs g) k) as [F|] eqn:E.
  - rewrite (eval_after_spec cp g hist k F args j Hg E), (eval_after_spec cp g [] k F args j Hg E). reflexivity.
  - apply nth_error_None in E. lia.
Qed.

Lemma new_generator_ok : gstate_ok new_generator.
Proof. split; [apply inv_empty|constructor]. Qed.

Lemma run_hist_app : forall cp g h1 h2, run_hist cp g (h1 ++ h2) = run_hist cp (run_hist cp g h1) h2.
Proof. intros. unfold run_hist. apply fold_left_app. Qed.

(* the function Generate returns for program p, evaluated after any further history, gives the outcome the
   SPECIFICATION assigns to (p, args, j): no heap, no history, no representation in the right-hand side *)
Lemma generated_meets_spec_lemma : forall cp g p hist args j o, gstate_ok g ->
  sp_prog p args j = Some o ->
  eval_after cp (run_event cp g (EGen p)) hist (length (g_funcs g)) args j = o.
Proof.
  intros cp g p hist args j o Hg Hs. pose proof Hg as [Hinv Hfs].
  destruct (run_event_ok cp g (EGen p) Hg) as (_ & O1 & _).
  destruct (yields_run_iso 0 0 _ _ _ _ (generate_yields 0 0 cp p (g_heap g) Hinv) Hinv) as [_ Hq].
  unfold sp_prog in Hs. unfold generated_ok in Hq.
  remember (run_event cp g (EGen p)) as g1 eqn:Eg1. cbn [run_event] in Eg1.
  destruct (run_iso (g_heap g) (sc_generate cp p)) as [h' r] eqn:Er. cbn [fst snd] in Hq.
  destruct (sp_defs (p_defs p) [] []) as [[cv zs]|]; [|discriminate].
  destruct r as [F|]; [|contradiction]. destruct Hq as (Hz & Hb & Hc).
  assert (Hk : nth_error (g_funcs g1) (length (g_funcs g)) = Some F).
  { subst g1. cbn. rewrite nth_error_app2 by lia. rewrite Nat.sub_diag. reflexivity. }
  rewrite (eval_after_spec cp g1 hist _ F args j O1 Hk).
  inversion Hs. subst o. rewrite Hb. f_equal. unfold func_senv. subst g1. cbn [g_heap]. rewrite Hz. f_equal.
  clear -Hc. induction Hc as [|a xs l l' [_ Hc'] F' IH]; cbn; [reflexivity|]. rewrite Hc', IH. reflexivity.
Qed.

(* another Generate call on the same generator does not disturb an existing function *)
Lemma generate_does_not_disturb_lemma : forall cp g p junk k args j, gstate_ok g -> k < length (g_funcs g) ->
  eval_after cp g [EScratch junk; EGen p] k args j = eval_after cp g [] k args j.
Proof. intros. apply eval_history_independent_lemma; auto. Qed.

(* ---- the statements of Props/C10.v *)
Lemma outcome_content_only_lemma : forall cp h F args j, inv h -> func_ok h F ->
  forall h2, good h h2 ->
  snd (run_iso h2 (sc_eval cp F args j)) = sp_body (func_senv h F args) (f_body F) j /\
  good h2 (fst (run_iso h2 (sc_eval cp F args j))).
Proof.
  intros cp h F args j Hi Hf h2 G.
  destruct (eval_run_iso 0 0 cp h F args j Hi Hf h2 (good_gstep0 h h2 G)) as [A [B _]]. split; auto.
Qed.

Lemma reachable_ok_lemma : forall cp hist, gstate_ok (run_hist cp new_generator hist).
Proof. intros. apply (run_hist_ok cp hist new_generator new_generator_ok). Qed.

Lemma generated_meets_spec_reachable_lemma : forall cp before p hist args j o,
  sp_prog p args j = Some o ->
  let g := run_hist cp new_generator before in
  eval_after cp (run_event cp g (EGen p)) hist (length (g_funcs g)) args j = o.
Proof. intros. apply generated_meets_spec_lemma; [apply reachable_ok_lemma|assumption]. Qed.

(* List.Eval's failure path, explicitly: when iterating object a hits a failing element, every operation that
   starts with List.Eval on a (append, reverse; likewise eval, size, [i]) performs a step that returns the error
   and leaves the heap - in particular the shared object a - exactly as it was *)
Lemma failing_eval_changes_nothing_lemma : forall R a mk (k : option nat -> script R) h,
  poisoned (icontent h a) = true ->
  match alloc_eval a mk k with Do f => f h = (h, k None) | Done _ => False end.
Proof. intros R a mk k h Hp. unfold alloc_eval. rewrite Hp. reflexivity. Qed.
